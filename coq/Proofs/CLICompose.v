(* The `par` command (Model/CLI.v) composed with the library theorems:
   "exit status 0 means the operation fully succeeded" for repair and create command lines.
   R2.  status 0 from `par repair x.par2`: the library Repair returned success, the final state of the
        command IS the library's final state, hence (repair_ok_all_recorded) every protected file is
        present with the recorded length and both hashes.  R2'. a failed Repair never exits 0.
   R1.  the same for `par repair x.par` (PAR1), with the PAR1 analogue of repair_ok_all_recorded
        proved here.
   CR.  status 0 from `par create x.par2 files...`: the library Create returned success with the
        command's final state; composed with create_then_verify_clean, a following
        `par verify x.par2` exits 0. *)
From Coq Require Import Lia.
From Coq Require Strings.String Strings.Ascii.
From Gopar Require Import Model.Base Model.GF8 Model.CRC Model.GoPath Model.FS Model.Par1 Model.Par2 Model.CLI
     Proofs.GoPathFacts Proofs.Par2Facts Proofs.Par2Verify Proofs.Par2Faults Proofs.Par1Facts
     Proofs.Par2Clean Proofs.Par2Converge Proofs.CLIFacts.
Open Scope N_scope.
Set Default Timeout 120.

(** * the create command line *)

Definition F_S : list N := [115].
Definition F_C : list N := [99].

(* the parameters main.go passes to par2.Create: -s (default 2000) and -c (default 3) *)
Definition create_params (vv : list (list N * list N)) : cparams :=
  {| cp_slice := int_flag vv F_S 2000; cp_parity := int_flag vv F_C 3 |}.

(* par [-g N] [-cpuprofile F] c|create [-s N] [-c N] <par>.par2 <file> <file>... *)
Definition cli_is_create2 (args : list (list N)) (par : list N) (files : list (list N)) (p : cparams) : Prop :=
  exists gv cmd cargs vv,
    cli_command args gv cmd cargs /\ is_create_word cmd /\
    parse_flags (S (length cargs)) CREATE_FLAGS cargs [] = Some (vv, par :: files) /\
    files <> [] /\ ext par = EXT_PAR2 /\ p = create_params vv.

(* the slice size and the number of recovery blocks Create uses for given parameters *)
Definition create_slice (p : cparams) : nat := if (cp_slice p <=? 0)%Z then 2000%nat else Z.to_nat (cp_slice p).
Definition create_blocks (p : cparams) : nat := if (cp_parity p <=? 0)%Z then 3%nat else Z.to_nat (cp_parity p).

(** * list helpers *)

Lemma Forall2_in_combine {A B} (R : A -> B -> Prop) : forall la lb,
  Forall2 R la lb -> forall a b, In (a, b) (combine la lb) -> R a b.
Proof.
  induction 1 as [|x y la lb Hxy F IH]; intros a b Hin; cbn [combine] in Hin; [destruct Hin|].
  destruct Hin as [E|Hin]; [injection E as <- <-; exact Hxy|apply IH; exact Hin].
Qed.

Lemma Forall2_len {A B} (R : A -> B -> Prop) : forall la lb, Forall2 R la lb -> length la = length lb.
Proof. induction 1 as [|x y la lb Hxy F IH]; [reflexivity|cbn [length]; rewrite IH; reflexivity]. Qed.

Lemma in_combine3_12 {A B C} : forall (la : list A) (lb : list B) (lc : list C) a b c,
  In (a, (b, c)) (combine la (combine lb lc)) -> In (a, b) (combine la lb).
Proof.
  induction la as [|x la IH]; intros [|y lb] [|z lc] a b c Hin; cbn [combine] in *; try (exfalso; exact Hin).
  destruct Hin as [E|Hin]; [injection E as <- <- <-; left; reflexivity|right; eapply IH; exact Hin].
Qed.

Lemma in_combine_map_l {A B C} (f : A -> C) : forall (la : list A) (lb : list B) a b,
  In (a, b) (combine la lb) -> In (f a, b) (combine (map f la) lb).
Proof.
  induction la as [|x la IH]; intros [|y lb] a b Hin; cbn [combine map] in *; try (exfalso; exact Hin).
  destruct Hin as [E|Hin]; [injection E as <- <-; left; reflexivity|right; apply IH; exact Hin].
Qed.

(** * the extension is a suffix *)

Lemma ext_rev_spec : forall r acc, ext_rev r acc = [] \/ exists k, ext_rev r acc = rev (firstn k r) ++ acc.
Proof.
  induction r as [|c r IH]; intros acc; cbn [ext_rev]; [left; reflexivity|].
  destruct (c =? SLASH); [left; reflexivity|].
  destruct (c =? DOT).
  - right. exists 1%nat. reflexivity.
  - destruct (IH (c :: acc)) as [E|[k E]]; [left; exact E|].
    right. exists (S k). rewrite E. cbn [firstn rev]. rewrite <- app_assoc. reflexivity.
Qed.

Lemma ext_suffix s : exists pre, s = pre ++ ext s.
Proof.
  unfold ext. destruct (ext_rev_spec (rev s) []) as [E|[k E]]; rewrite E.
  - exists s. symmetry. apply app_nil_r.
  - exists (rev (skipn k (rev s))). rewrite app_nil_r, <- rev_app_distr, firstn_skipn, rev_involutive. reflexivity.
Qed.

Lemma strip_ext_app_ext s : Par2.strip_ext s ++ ext s = s.
Proof.
  destruct (ext_suffix s) as [pre E]. unfold Par2.strip_ext.
  remember (ext s) as e eqn:He. clear He. subst s.
  rewrite app_length. replace (length pre + length e - length e)%nat with (length pre) by lia.
  rewrite (Par2Create.firstn_app_len pre e (length pre) eq_refl). reflexivity.
Qed.

(* a volume file name <base>.volII+CC.par2 matches the pattern LoadParityData lists *)
Lemma vol_pattern_volpath basep i c :
  vol_pattern basep (basep ++ [46; 118; 111; 108] ++ dec2 (N.of_nat i) ++ [43] ++ dec2 (N.of_nat c) ++ EXT_PAR2) = true.
Proof.
  unfold vol_pattern. apply andb_true_iff. split; [apply andb_true_iff; split; [apply andb_true_iff; split|]|].
  - apply Nat.leb_le. rewrite !app_length. cbn [length]. lia.
  - unfold starts_with.
    replace (basep ++ [46; 118; 111; 108] ++ dec2 (N.of_nat i) ++ [43] ++ dec2 (N.of_nat c) ++ EXT_PAR2)
      with ((basep ++ [DOT]) ++ [118; 111; 108] ++ dec2 (N.of_nat i) ++ [43] ++ dec2 (N.of_nat c) ++ EXT_PAR2)
      by (rewrite <- app_assoc; reflexivity).
    rewrite (Par2Create.firstn_app_len _ _ _ eq_refl). apply str_eqb_refl.
  - unfold ends_with.
    replace (basep ++ [46; 118; 111; 108] ++ dec2 (N.of_nat i) ++ [43] ++ dec2 (N.of_nat c) ++ EXT_PAR2)
      with ((basep ++ [46; 118; 111; 108] ++ dec2 (N.of_nat i) ++ [43] ++ dec2 (N.of_nat c)) ++ EXT_PAR2)
      by (rewrite <- !app_assoc; reflexivity).
    rewrite app_length.
    match goal with |- context [skipn (?a + ?b - ?b)] => replace (a + b - b)%nat with a by lia end.
    rewrite (Par2Create.skipn_app_len _ _ _ eq_refl). apply str_eqb_refl.
  - apply no_slash_vol_path.
Qed.

Section CLICompose.
  Variable md5 : bytes -> bytes.

  (** * R2. PAR2 repair: exit status 0 *)

  (* the command's result is the library's: status 0 forces `Ok tt`, and the final state of the
     command is the final state of the library call *)
  Lemma cli_repair2_zero_lib : forall cwd args par dbl st st',
    cli_run md5 cwd args st = (0, st') -> cli_is_repair2 args par dbl ->
    exists rp, par2_repair md5 par dbl st = ((Ok tt, rp), st').
  Proof.
    intros cwd args par dbl st st' H Hr. rewrite (cli_run_repair2 md5 cwd _ _ _ st Hr) in H.
    destruct (par2_repair md5 par dbl st) as [[r rp] st2].
    injection H as H <-. apply exit_of_repair_zero in H. destruct H as [[] ->].
    exists rp. reflexivity.
  Qed.

  Theorem cli_repair2_zero_restored : forall cwd args par dbl fs st',
    cli_run md5 cwd args (io_init fs []) = (0, st') -> cli_is_repair2 args par dbl ->
    forall ds st1, load_all md5 par (io_init fs []) = (Ok ds, st1) ->
    NoDup (map (fun info => file_path par (di_name info)) (d_rec (ds_dec ds))) ->
    forall info, In info (d_rec (ds_dec ds)) ->
      exists data, fs_lookup (io_fs st') (file_path par (di_name info)) = Some data /\ recorded md5 info data.
  Proof.
    intros cwd args par dbl fs st' H Hr ds st1 HL Hnd info Hin.
    destruct (cli_repair2_zero_lib _ _ _ _ _ _ H Hr) as [rp HR].
    exact (repair_ok_all_recorded md5 par dbl fs rp st' ds st1 HR HL Hnd info Hin).
  Qed.

  (* honesty in the other direction: a Repair that did not succeed never exits 0 *)
  Theorem cli_repair2_nonzero_on_failure : forall cwd args par dbl st r rp st1,
    cli_is_repair2 args par dbl -> par2_repair md5 par dbl st = ((r, rp), st1) ->
    r <> Ok tt -> fst (cli_run md5 cwd args st) <> 0.
  Proof.
    intros cwd args par dbl st r rp st1 Hr HR Hne E.
    rewrite (cli_repair2_codes md5 cwd _ _ _ _ _ _ _ Hr HR) in E.
    apply exit_of_repair_zero in E. destruct E as [[] ->]. apply Hne. reflexivity.
  Qed.

  (* and the state: whatever the status, the command's final state is the library's *)
  Theorem cli_repair2_state : forall cwd args par dbl st,
    cli_is_repair2 args par dbl -> snd (cli_run md5 cwd args st) = snd (par2_repair md5 par dbl st).
  Proof.
    intros cwd args par dbl st Hr. rewrite (cli_run_repair2 md5 cwd _ _ _ st Hr).
    destruct (par2_repair md5 par dbl st) as [[r rp] st2]. reflexivity.
  Qed.

  (* convergence at the command level: after `par repair` exits 0 (archive self-consistent, protected
     paths distinct from each other, from the index and from the volume pattern), `par verify` exits 0 *)
  Theorem cli_repair2_zero_then_verify_zero : forall cwd args par dbl fs st',
    cli_run md5 cwd args (io_init fs []) = (0, st') -> cli_is_repair2 args par dbl ->
    forall ds st1, load_all md5 par (io_init fs []) = (Ok ds, st1) ->
    NoDup (map (fun info => file_path par (di_name info)) (d_rec (ds_dec ds))) ->
    NoDup (map di_id (d_rec (ds_dec ds))) ->
    (forall info data, In info (d_rec (ds_dec ds)) -> recorded md5 info data ->
         wf_bytes data /\ di_pairs info = pairs_of md5 (N.to_nat (d_slice (ds_dec ds))) data) ->
    (forall info, In info (d_rec (ds_dec ds)) ->
         file_path par (di_name info) <> par /\ vol_pattern (strip_ext par) (file_path par (di_name info)) = false) ->
    forall cwd2 vargs, cli_is_verify2 vargs par ->
      fst (cli_run md5 cwd2 vargs (io_init (io_fs st') [])) = 0.
  Proof.
    intros cwd args par dbl fs st' H Hr ds st1 HL Hndp Hndi Hself Hdisj cwd2 vargs Hv.
    destruct (cli_repair2_zero_lib _ _ _ _ _ _ H Hr) as [rp HR].
    destruct (repair_ok_then_clean_and_idle md5 par dbl fs rp st' ds st1 HR HL Hndp Hndi Hself Hdisj)
      as (c & st2 & HV & Hc & _).
    rewrite (cli_verify2_codes md5 cwd2 _ _ _ _ _ Hv HV), Hc. reflexivity.
  Qed.

  (** * R1. PAR1 repair: exit status 0 *)

  Lemma cli_repair1_zero_lib : forall cwd args par dbl st st',
    cli_run md5 cwd args st = (0, st') -> cli_is_repair1 args par dbl ->
    exists rp, par1_repair md5 par dbl st = ((Ok tt, rp), st').
  Proof.
    intros cwd args par dbl st st' H Hr. rewrite (cli_run_repair1 md5 cwd _ _ _ st Hr) in H.
    destruct (par1_repair md5 par dbl st) as [[r rp] st2].
    injection H as H <-. apply exit_of_repair_zero in H. destruct H as [[] ->].
    exists rp. reflexivity.
  Qed.

  Theorem cli_repair1_nonzero_on_failure : forall cwd args par dbl st r rp st1,
    cli_is_repair1 args par dbl -> par1_repair md5 par dbl st = ((r, rp), st1) ->
    r <> Ok tt -> fst (cli_run md5 cwd args st) <> 0.
  Proof.
    intros cwd args par dbl st r rp st1 Hr HR Hne E.
    rewrite (cli_repair1_codes md5 cwd _ _ _ _ _ _ _ Hr HR) in E.
    apply exit_of_repair_zero in E. destruct E as [[] ->]. apply Hne. reflexivity.
  Qed.

  (* the PAR1 analogue of Par2Converge.recorded: both hashes and the length of the entry *)
  Definition p1recorded (e : p1entry) (data : bytes) : Prop :=
    md5 data = e_hash e /\ Par1.hash16k md5 data = e_h16 e /\ N.of_nat (length data) = e_len e.

  Definition p1path (ix : list N) (t : p1entry * (option bytes * bytes)) : list N :=
    join2 (dir ix) (e_name (fst t)).

  (* a walk of the write-out phase that reaches the end wrote verified data for every entry that was
     not usable, changed no other path, and reports exactly those paths *)
  Lemma p1_write_repaired_ok ix : forall todo done st rp st',
    io_sched st = [] ->
    NoDup (map (p1path ix) todo) ->
    p1_write_repaired md5 ix todo done st = ((Ok tt, rp), st') ->
    (forall q, (forall t, In t todo -> fst (snd t) = None -> p1path ix t <> q) ->
               fs_lookup (io_fs st') q = fs_lookup (io_fs st) q) /\
    (forall t, In t todo -> fst (snd t) = None ->
               exists data, fs_lookup (io_fs st') (p1path ix t) = Some data /\ p1recorded (fst t) data) /\
    (forall p, In p rp -> In p done \/ exists t, In t todo /\ fst (snd t) = None /\ p = p1path ix t).
  Proof.
    induction todo as [|[e [o shard]] todo IH]; intros done st rp st' Hs Hnd H.
    - cbn [p1_write_repaired] in H. injection H as <- <-.
      split; [reflexivity|]. split; [intros t []|]. intros p Hp. left. exact Hp.
    - cbn [map] in Hnd. apply NoDup_cons_iff in Hnd. destruct Hnd as [Hni Hnd'].
      cbn [p1_write_repaired] in H. destruct o as [given|].
      + destruct (IH _ _ _ _ Hs Hnd' H) as (A & B & C). split; [|split].
        * intros q Hq. apply A. intros t Hin Hf. apply Hq; [right; exact Hin|exact Hf].
        * intros t [<-|Hin] Hf; [cbn [fst snd] in Hf; discriminate Hf|]. apply B; assumption.
        * intros p Hp. destruct (C p Hp) as [Hd|(t & Hin & Hf & E)]; [left; exact Hd|].
          right. exists t. split; [right; exact Hin|]. split; assumption.
      + destruct (N.ltb_spec (N.of_nat (length shard)) (e_len e)) as [Hlt|Hge]; [discriminate H|].
        set (data := firstn (N.to_nat (e_len e)) shard) in *.
        destruct (bytes_eqb (Par1.hash16k md5 data) (e_h16 e)) eqn:E1; cbn [negb] in H; [|discriminate H].
        destruct (bytes_eqb (md5 data) (e_hash e)) eqn:E2; cbn [negb] in H; [|discriminate H].
        destruct (entry_path ix e) as [p0|x|q0] eqn:EP; try discriminate H.
        apply entry_path_ok in EP. destruct EP as [_ ->].
        rewrite (io_write_nosched _ _ st Hs) in H.
        set (p0 := join2 (dir ix) (e_name e)) in *.
        apply IH in H; [|exact Hs|exact Hnd'].
        cbn [tick io_fs] in H. destruct H as (A & B & C). split; [|split].
        * intros q Hq. rewrite A.
          -- apply Par2Faults.fs_lookup_set_other.
             apply (Hq (e, (None, shard))); [left; reflexivity|reflexivity].
          -- intros t Hin Hf. apply Hq; [right; exact Hin|exact Hf].
        * intros t [<-|Hin] Hf; [|apply B; assumption].
          exists data. split.
          -- unfold p1path. cbn [fst snd]. fold p0. rewrite A; [apply Par2Clean.fs_lookup_set_same|].
             intros t Hin _ E. apply Hni. unfold p1path at 1. cbn [fst snd]. fold p0. rewrite <- E.
             apply in_map. exact Hin.
          -- cbn [fst snd]. split; [apply bytes_eqb_eq; exact E2|]. split; [apply bytes_eqb_eq; exact E1|].
             unfold data. rewrite firstn_length. lia.
        * intros p Hp. destruct (C p Hp) as [Hd|(t & Hin & Hf & E)].
          -- apply in_app_or in Hd. destruct Hd as [Hd|[<-|[]]]; [left; exact Hd|].
             right. exists (e, (None, shard)). split; [left; reflexivity|]. split; reflexivity.
          -- right. exists t. split; [right; exact Hin|]. split; assumption.
  Qed.

  (* Reconstruct returns at least the data shards *)
  Lemma par1_reconstruct_length d p (sh : list (option bytes)) full :
    par1_reconstruct d p sh = Ok full -> (d <= length full)%nat.
  Proof.
    unfold par1_reconstruct. cbv zeta.
    lazymatch goal with |- (if negb (Nat.eqb ?a ?b) then _ else _) = _ -> _ =>
      destruct (Nat.eqb_spec a b) as [El|_]; cbn [negb]; [|discriminate] end.
    lazymatch goal with |- (if ?c then _ else _) = _ -> _ => destruct c end.
    - intros H. injection H as <-. rewrite map_length. unfold bytes in *. lia.
    - lazymatch goal with |- (if ?c then _ else _) = _ -> _ => destruct c; [discriminate|] end.
      lazymatch goal with |- match ?c with _ => _ end = _ -> _ => destruct c; try discriminate end.
      intros H. injection H as <-.
      rewrite app_length, map_length, combine_length, seq_length, firstn_length. unfold bytes in *. lia.
  Qed.

  (* PAR1, NEVER SUCCESS WITH A WRONG FILE: after a successful Repair (fault-free run, distinct target
     paths) every saved file is present with both recorded hashes - and with the recorded length, or
     else it is the content that was already there and was accepted as usable (LoadFileData of PAR1
     compares the two hashes only) -, and every path of the repaired list holds data with the entry's
     length and both hashes *)
  Theorem par1_repair_ok_all_recorded : forall ix dbl fs rp st' s st1,
    par1_repair md5 ix dbl (io_init fs []) = ((Ok tt, rp), st') ->
    p1_load md5 ix (io_init fs []) = (Ok s, st1) ->
    NoDup (map (fun e => join2 (dir ix) (e_name e)) (s_saved s)) ->
    (forall e, In e (s_saved s) ->
       exists data, fs_lookup (io_fs st') (join2 (dir ix) (e_name e)) = Some data /\
         md5 data = e_hash e /\ Par1.hash16k md5 data = e_h16 e /\
         (N.of_nat (length data) = e_len e \/ fs_lookup fs (join2 (dir ix) (e_name e)) = Some data)) /\
    (forall p, In p rp ->
       exists e data, In e (s_saved s) /\ p = join2 (dir ix) (e_name e) /\
         fs_lookup (io_fs st') p = Some data /\ p1recorded e data).
  Proof.
    intros ix dbl fs rp st' s st1 HR HL Hnd.
    pose proof (p1_load_pres md5 ix (io_init fs [])) as Pr. rewrite HL in Pr. cbn [snd] in Pr.
    destruct Pr as (Pf & Ps & _). cbn [io_init io_fs io_sched] in Pf, Ps.
    destruct (p1_load_data md5 ix _ s st1 HL) as (sa & sb & Fa & ELD). cbn [io_init io_fs] in Fa.
    apply load_data_spec in ELD. rewrite Fa in ELD.
    pose proof (Forall2_len _ _ _ ELD) as Ld.
    (* a usable file that no write touches *)
    assert (Keep : forall e given, In (e, Some given) (combine (s_saved s) (s_data s)) ->
              fs_lookup (io_fs st') (join2 (dir ix) (e_name e)) = fs_lookup fs (join2 (dir ix) (e_name e)) ->
              exists data, fs_lookup (io_fs st') (join2 (dir ix) (e_name e)) = Some data /\
                md5 data = e_hash e /\ Par1.hash16k md5 data = e_h16 e /\
                (N.of_nat (length data) = e_len e \/ fs_lookup fs (join2 (dir ix) (e_name e)) = Some data)).
    { intros e given Hin Hsame.
      pose proof (Forall2_in_combine _ _ _ ELD _ _ Hin) as (Hlk & Hm & H16). cbn beta in Hlk.
      exists given. rewrite Hsame. split; [exact Hlk|]. split; [exact Hm|]. split; [exact H16|right; exact Hlk]. }
    unfold par1_repair in HR. rewrite HL in HR. cbv zeta in HR.
    destruct (Nat.eqb (s_size s) 0).
    { (* no parity volume: success only when every file is usable; nothing is written *)
      destruct (Nat.eqb (count_none1 (s_data s)) 0) eqn:Ec; [|discriminate HR].
      injection HR as <- <-. apply Nat.eqb_eq in Ec. apply count_none1_zero in Ec.
      split; [|intros p []].
      intros e Hin. apply (In_nth _ _ e) in Hin. destruct Hin as (i & Hi & Ei).
      assert (Hc : In (e, nth i (s_data s) None) (combine (s_saved s) (s_data s))).
      { rewrite <- Ei at 1. rewrite <- combine_nth by exact Ld. apply nth_In. rewrite combine_length. lia. }
      rewrite Forall_forall in Ec. destruct (Ec (nth i (s_data s) None)) as [given Eg]; [apply nth_In; lia|].
      rewrite Eg in Hc. apply (Keep e given Hc). rewrite Pf. reflexivity. }
    destruct (Nat.ltb 256 (length (s_data s) + length (s_parity s))); [discriminate HR|].
    destruct (build_shards s) as [sh|x|q]; try discriminate HR.
    destruct (par1_reconstruct (length (s_data s)) (length (s_parity s)) sh) as [full|x|q] eqn:ERc; try discriminate HR.
    apply par1_reconstruct_length in ERc.
    match type of HR with (match ?okdbl with _ => _ end) = _ => destruct okdbl as [[|]|x|q] end; try discriminate HR.
    set (fn := firstn (length (s_data s)) full) in *.
    assert (Lfn : length fn = length (s_data s)) by (unfold fn; rewrite firstn_length; lia).
    set (todo := combine (s_saved s) (combine (s_data s) fn)) in *.
    assert (Lc : length (combine (s_data s) fn) = length (s_saved s)) by (rewrite combine_length; lia).
    assert (Hfst : map fst todo = s_saved s) by (unfold todo; apply map_fst_combine; lia).
    assert (Hmap : map (p1path ix) todo = map (fun e => join2 (dir ix) (e_name e)) (s_saved s)).
    { rewrite <- Hfst, map_map. reflexivity. }
    assert (HndT : NoDup (map (p1path ix) todo)) by (rewrite Hmap; exact Hnd).
    destruct (p1_write_repaired_ok ix todo [] st1 rp st' Ps HndT HR) as (A & B & C).
    split.
    - intros e Hin. rewrite <- Hfst in Hin. apply in_map_iff in Hin. destruct Hin as ([e' [o shd]] & Ee & Hin).
      cbn [fst] in Ee. subst e'. destruct o as [given|].
      + apply (Keep e given).
        * unfold todo in Hin. exact (in_combine3_12 _ _ _ _ _ _ Hin).
        * rewrite <- Pf. apply A. intros t Ht Hf E.
          assert (t = (e, (Some given, shd))) by (apply (NoDup_map_inj_in (p1path ix) todo); assumption).
          subst t. cbn [fst snd] in Hf. discriminate Hf.
      + destruct (B _ Hin eq_refl) as (data & Hlk & Hm & H16 & Hlen). cbn [fst] in Hm, H16, Hlen.
        exists data. split; [exact Hlk|]. split; [exact Hm|]. split; [exact H16|left; exact Hlen].
    - intros p Hp. destruct (C p Hp) as [[]|(t & Hin & Hf & ->)].
      destruct (B t Hin Hf) as (data & Hlk & Hrec).
      exists (fst t), data. split; [rewrite <- Hfst; apply in_map; exact Hin|]. split; [reflexivity|].
      split; [exact Hlk|exact Hrec].
  Qed.

  (* R1: exit status 0 from `par repair x.par` *)
  Theorem cli_repair1_zero_restored : forall cwd args par dbl fs st',
    cli_run md5 cwd args (io_init fs []) = (0, st') -> cli_is_repair1 args par dbl ->
    forall s st1, p1_load md5 par (io_init fs []) = (Ok s, st1) ->
    NoDup (map (fun e => join2 (dir par) (e_name e)) (s_saved s)) ->
    forall e, In e (s_saved s) ->
      exists data, fs_lookup (io_fs st') (join2 (dir par) (e_name e)) = Some data /\
        md5 data = e_hash e /\ Par1.hash16k md5 data = e_h16 e /\
        (N.of_nat (length data) = e_len e \/ fs_lookup fs (join2 (dir par) (e_name e)) = Some data).
  Proof.
    intros cwd args par dbl fs st' H Hr s st1 HL Hnd e Hin.
    destruct (cli_repair1_zero_lib _ _ _ _ _ _ H Hr) as [rp HR].
    exact (proj1 (par1_repair_ok_all_recorded par dbl fs rp st' s st1 HR HL Hnd) e Hin).
  Qed.

  (* ... and the files it reports as repaired hold data of the recorded length and hashes *)
  Theorem cli_repair1_zero_written : forall cwd args par dbl fs st',
    cli_run md5 cwd args (io_init fs []) = (0, st') -> cli_is_repair1 args par dbl ->
    forall s st1, p1_load md5 par (io_init fs []) = (Ok s, st1) ->
    NoDup (map (fun e => join2 (dir par) (e_name e)) (s_saved s)) ->
    exists rp, par1_repair md5 par dbl (io_init fs []) = ((Ok tt, rp), st') /\
      forall p, In p rp -> exists e data, In e (s_saved s) /\ p = join2 (dir par) (e_name e) /\
        fs_lookup (io_fs st') p = Some data /\ p1recorded e data.
  Proof.
    intros cwd args par dbl fs st' H Hr s st1 HL Hnd.
    destruct (cli_repair1_zero_lib _ _ _ _ _ _ H Hr) as [rp HR].
    exists rp. split; [exact HR|].
    exact (proj2 (par1_repair_ok_all_recorded par dbl fs rp st' s st1 HR HL Hnd)).
  Qed.

  (** * CR, first half. PAR2 create: exit status 0 *)

  Lemma cli_run_create2 cwd args par files p st : cli_is_create2 args par files p ->
    cli_run md5 cwd args st =
    match par2_create md5 cwd par files p st with
    | (Ok _, st') => (EXIT_OK, st')
    | (Err _, st') => (EXIT_FILEIO, st')
    | (Panic _, st') => (2, st')
    end.
  Proof.
    intros (gv & cmd & cargs & vv & Hc & Hw & Hp & Hne & He & ->).
    rewrite (cli_run_command md5 cwd _ _ _ _ st Hc). unfold dispatch.
    rewrite (create_word_tests _ Hw). rewrite Hp.
    destruct files as [|f files]; [contradiction Hne; reflexivity|].
    cbv zeta. rewrite He. rewrite ext_par2_not_par, ext_par2_par2. reflexivity.
  Qed.

  Theorem cli_create2_zero_then_verify_zero_half : forall cwd args par files p st st',
    cli_run md5 cwd args st = (0, st') -> cli_is_create2 args par files p ->
    par2_create md5 cwd par files p st = (Ok tt, st').
  Proof.
    intros cwd args par files p st st' H Hc. rewrite (cli_run_create2 cwd _ _ _ _ st Hc) in H.
    destruct (par2_create md5 cwd par files p st) as [[[]|e|q] st2].
    - apply (f_equal snd) in H. cbn [snd] in H. rewrite H. reflexivity.
    - apply (f_equal fst) in H. discriminate H.
    - apply (f_equal fst) in H. discriminate H.
  Qed.

  (* CR as stated *)
  Theorem cli_create2_zero_then_verify_zero : forall cwd args par files p fs st',
    cli_run md5 cwd args (io_init fs []) = (0, st') -> cli_is_create2 args par files p ->
    par2_create md5 cwd par files p (io_init fs []) = (Ok tt, st').
  Proof. intros cwd args par files p fs st'. apply cli_create2_zero_then_verify_zero_half. Qed.

  (* the statuses of a create command line: 0 success, 6 any error, 2 a Go panic *)
  Theorem cli_create2_codes : forall cwd args par files p st,
    cli_is_create2 args par files p ->
    fst (cli_run md5 cwd args st) =
      match fst (par2_create md5 cwd par files p st) with Ok _ => 0 | Err _ => 6 | Panic _ => 2 end.
  Proof.
    intros cwd args par files p st Hc. rewrite (cli_run_create2 cwd _ _ _ _ st Hc).
    destruct (par2_create md5 cwd par files p st) as [[u|e|q] st2]; reflexivity.
  Qed.

  Theorem cli_create2_nonzero_on_failure : forall cwd args par files p st,
    cli_is_create2 args par files p -> fst (par2_create md5 cwd par files p st) <> Ok tt ->
    fst (cli_run md5 cwd args st) <> 0.
  Proof.
    intros cwd args par files p st Hc Hne. rewrite (cli_create2_codes cwd _ _ _ _ st Hc).
    destruct (fst (par2_create md5 cwd par files p st)) as [[]|e|q]; [contradiction Hne; reflexivity|discriminate|discriminate].
  Qed.

  (** * CR, second half. Create, then the verify command line *)

  Lemma io_reads_ok_lookup : forall paths st ds st', io_sched st = [] ->
    Par2.io_reads paths st = (Ok ds, st') ->
    io_fs st' = io_fs st /\ io_sched st' = [] /\
    Forall2 (fun p d => fs_lookup (io_fs st) p = Some d) paths ds.
  Proof.
    induction paths as [|p r IH]; intros st ds st' Hs H; cbn [Par2.io_reads] in H.
    - injection H as <- <-. split; [reflexivity|]. split; [exact Hs|constructor].
    - pose proof (io_read_pres p st) as Pr.
      destruct (io_read p st) as [[d|e|q] s1] eqn:ER; try discriminate H.
      cbn [snd] in Pr. destruct Pr as (Pf & Ps & _).
      destruct (Par2.io_reads r s1) as [[ds1|e|q] s2] eqn:ERS; try discriminate H.
      injection H as <- <-. apply io_read_ok_lookup in ER; [|exact Hs].
      destruct (IH s1 ds1 s2) as (F1 & S1 & L1); [congruence|exact ERS|].
      split; [congruence|]. split; [exact S1|]. constructor; [exact ER|]. rewrite <- Pf. exact L1.
  Qed.

  Lemma io_writes_nosched : forall ws st, io_sched st = [] ->
    exists st', Par2.io_writes ws st = (Ok tt, st') /\ io_fs st' = apply_writes ws (io_fs st) /\ io_sched st' = [].
  Proof.
    induction ws as [|[p d] ws IH]; intros st Hs; cbn [Par2.io_writes].
    - exists st. split; [reflexivity|]. split; [reflexivity|exact Hs].
    - rewrite (io_write_nosched p d st Hs).
      destruct (IH (tick st (EvWrite p d true) (fs_set (io_fs st) p d)) Hs) as (st' & E & Hf & Hs').
      exists st'. split; [exact E|]. split; [exact Hf|exact Hs'].
  Qed.

  (* what a successful Create did: it read the inputs at <dir of the absolute index path>/<relative name>,
     computed the output files from what it read, and wrote them all *)
  Lemma par2_create_ok_inv cwd par files p fs st' :
    par2_create md5 cwd par files p (io_init fs []) = (Ok tt, st') ->
    let basedir := dir (abs_path cwd par) in
    let rels := map (rel_path basedir) (map (abs_path cwd) files) in
    ext par = EXT_PAR2 /\ (create_slice p mod 4 = 0)%nat /\
    exists datas st1 outs,
      Par2.io_reads (map (join2 basedir) rels) (io_init fs []) = (Ok datas, st1) /\
      create_outputs md5 par (create_slice p) (create_blocks p) rels datas = Ok outs /\
      io_fs st' = apply_writes outs fs.
  Proof.
    intros H basedir rels. unfold par2_create in H.
    destruct (str_eqb (ext par) EXT_PAR2) eqn:Ee; cbn [negb] in H; [|discriminate H].
    apply str_eqb_eq in Ee.
    destruct files as [|f0 files]; [discriminate H|].
    cbv zeta in H. fold (create_slice p) in H. fold (create_blocks p) in H. fold basedir in H. fold rels in H.
    lazymatch type of H with (if ?c then _ else _) = _ => destruct c; [discriminate H|] end.
    lazymatch type of H with (if ?c then _ else _) = _ => destruct c; [discriminate H|] end.
    destruct (Nat.eqb (create_slice p mod 4) 0) eqn:E4; cbn [negb] in H; [|discriminate H].
    apply Nat.eqb_eq in E4.
    destruct (Par2.io_reads (map (join2 basedir) rels) (io_init fs [])) as [[datas|e|q] st1] eqn:ER; try discriminate H.
    destruct (create_outputs md5 par (create_slice p) (create_blocks p) rels datas) as [outs|e|q] eqn:EC; try discriminate H.
    split; [exact Ee|]. split; [exact E4|]. exists datas, st1, outs.
    split; [reflexivity|]. split; [exact EC|].
    destruct (io_reads_ok_lookup _ (io_init fs []) _ _ eq_refl ER) as (Hf1 & Hs1 & _). cbn [io_init io_fs] in Hf1.
    destruct (io_writes_nosched outs st1 Hs1) as (st2 & EW & Hf2 & _).
    rewrite EW in H. injection H as <-. rewrite Hf2, Hf1. reflexivity.
  Qed.

  (* the files Create writes: the index <base>.par2 and volumes matching <base>.*.par2 *)
  Lemma create_outputs_paths par sz np names datas outs :
    create_outputs md5 par sz np names datas = Ok outs ->
    forall q, In q (map fst outs) ->
      q = Par2.strip_ext par ++ EXT_PAR2 \/ vol_pattern (Par2.strip_ext par) q = true.
  Proof.
    unfold create_outputs. cbv zeta.
    lazymatch goal with |- (if ?c then _ else _) = _ -> _ => destruct c; [discriminate|] end.
    lazymatch goal with |- (if ?c then _ else _) = _ -> _ => destruct c; [discriminate|] end.
    lazymatch goal with |- (if ?c then _ else _) = _ -> _ => destruct c; [discriminate|] end.
    lazymatch goal with |- obind ?w _ = _ -> _ => destruct w as [[sid ixb]|e|q0]; cbn [obind]; try discriminate end.
    lazymatch goal with |- obind (omap ?F ?l) _ = _ -> _ => destruct (omap F l) as [vols|e|q0] eqn:EV; cbn [obind]; try discriminate end.
    intros H q Hq. injection H as <-. cbn [map fst snd] in Hq. destruct Hq as [<-|Hq]; [left; reflexivity|right].
    apply omap_ok_inv in EV. apply in_map_iff in Hq. destruct Hq as ([q' vb] & Eq & Hv). cbn [fst] in Eq. subst q'.
    destruct (Forall2_in_r _ _ _ EV _ Hv) as ([i c] & _ & Hic). cbv beta iota in Hic.
    lazymatch type of Hic with obind ?w _ = _ => destruct w as [[sid' vb']|e|q0]; cbn [obind] in Hic; try discriminate Hic end.
    injection Hic as <- _. apply vol_pattern_volpath.
  Qed.

  Lemma create_slice_ge4 p : (create_slice p mod 4 = 0)%nat -> (4 <= create_slice p)%nat.
  Proof.
    unfold create_slice. destruct (Z.leb_spec (cp_slice p) 0) as [_|Hpos]; [lia|].
    intros Hm. assert (0 < Z.to_nat (cp_slice p))%nat by lia.
    destruct (Nat.lt_ge_cases (Z.to_nat (cp_slice p)) 4) as [Hlt|Hge]; [|exact Hge].
    rewrite Nat.mod_small in Hm by exact Hlt. lia.
  Qed.

  (* CREATE THEN VERIFY at the command level, general form.  Beyond the two command lines and the
     status 0 of create, the premises are those of create_then_verify_clean, phrased over the inputs
     as READ by create (datas, through io_reads with the empty fault schedule) and the files it WROTE
     (outs): MD5 results are 16 bytes; the slice size is at most 2^40; the relative names contain no
     NUL and are shorter than 2^32; the contents are byte values, at most 2^63-1 of them; distinct
     file ids; Verify looks for each input where Create read it; the outputs do not overwrite an
     input; every file of the directory that matches <base>.*.par2 is one of the files written. *)
  Theorem cli_create2_then_verify2_zero_gen : (forall x, length (md5 x) = 16%nat) ->
    forall cwd args par files p fs st',
    cli_run md5 cwd args (io_init fs []) = (0, st') -> cli_is_create2 args par files p ->
    let sz := create_slice p in
    let np := create_blocks p in
    let basedir := dir (abs_path cwd par) in
    let rels := map (rel_path basedir) (map (abs_path cwd) files) in
    forall datas st1 outs,
    Par2.io_reads (map (join2 basedir) rels) (io_init fs []) = (Ok datas, st1) ->
    create_outputs md5 par sz np rels datas = Ok outs ->
    N.of_nat sz <= MAXSLICE ->
    Forall (fun nm : bytes => no_nul nm /\ N.of_nat (length nm) < 2 ^ 32) rels ->
    Forall (fun d : bytes => wf_bytes d /\ N.of_nat (length d) <= MAXINT) datas ->
    NoDup (map fi_id (map (fun nd : bytes * bytes => data_file_info md5 sz (fst nd) (snd nd)) (combine rels datas))) ->
    (forall rel, In rel rels -> file_path par rel = join2 basedir rel) ->
    (forall rel, In rel rels -> ~ In (file_path par rel) (map fst outs)) ->
    (forall q, In q (map fst fs) -> vol_pattern (Par2.strip_ext par) q = true -> In q (map fst outs)) ->
    forall cwd2 vargs, cli_is_verify2 vargs (Par2.strip_ext par ++ EXT_PAR2) ->
      fst (cli_run md5 cwd2 vargs (io_init (io_fs st') [])) = 0.
  Proof.
    intros Hmd5 cwd args par files p fs st' H Hc sz np basedir rels datas st1 outs ER EC Hmax Hn Hd Hnd Hsame Hdisj Hstale
           cwd2 vargs Hv.
    apply (cli_create2_zero_then_verify_zero _ _ _ _ _ _ _ H) in Hc.
    destruct (par2_create_ok_inv _ _ _ _ _ _ Hc) as (Hext & H4 & datas' & st1' & outs' & ER' & EC' & Hfs).
    assert (E1 : (Ok datas', st1') = (Ok datas, st1)) by (rewrite <- ER, <- ER'; reflexivity).
    injection E1 as E1 E2. subst datas' st1'.
    assert (E3 : Ok outs' = Ok outs) by (rewrite <- EC, <- EC'; reflexivity).
    injection E3 as E3. subst outs'.
    assert (Epar : Par2.strip_ext par ++ EXT_PAR2 = par) by (rewrite <- Hext; apply strip_ext_app_ext).
    destruct (io_reads_ok_lookup _ (io_init fs []) _ _ eq_refl ER) as (_ & _ & Hlk). cbn [io_init io_fs] in Hlk.
    destruct (create_then_verify_clean md5 Hmd5 par sz np rels datas outs fs EC
                (create_slice_ge4 p H4) Hmax Hn Hd Hnd) as (c & st2 & HV & Hcl & _).
    - rewrite Epar. intros name data Hin. rewrite (Hsame name (in_combine_l _ _ _ _ Hin)).
      apply (Forall2_in_combine _ _ _ Hlk). apply in_combine_map_l. exact Hin.
    - rewrite Epar. exact Hdisj.
    - exact Hstale.
    - rewrite <- Hfs in HV.
      rewrite (cli_verify2_codes md5 cwd2 _ _ _ _ _ Hv HV), Hcl. reflexivity.
  Qed.

  (* the same with premises that mention neither the written files nor Create's internals: the index
     path has the same directory before and after filepath.Abs (e.g. it is absolute and clean), no
     input is the index file or matches <base>.*.par2, and no file matching <base>.*.par2 exists
     before Create *)
  Theorem cli_create2_then_verify2_zero : (forall x, length (md5 x) = 16%nat) ->
    forall cwd args par files p fs st',
    cli_run md5 cwd args (io_init fs []) = (0, st') -> cli_is_create2 args par files p ->
    let sz := create_slice p in
    let basedir := dir (abs_path cwd par) in
    let rels := map (rel_path basedir) (map (abs_path cwd) files) in
    forall datas st1,
    Par2.io_reads (map (join2 basedir) rels) (io_init fs []) = (Ok datas, st1) ->
    N.of_nat sz <= MAXSLICE ->
    Forall (fun nm : bytes => no_nul nm /\ N.of_nat (length nm) < 2 ^ 32) rels ->
    Forall (fun d : bytes => wf_bytes d /\ N.of_nat (length d) <= MAXINT) datas ->
    NoDup (map fi_id (map (fun nd : bytes * bytes => data_file_info md5 sz (fst nd) (snd nd)) (combine rels datas))) ->
    dir (abs_path cwd par) = dir par ->
    (forall rel, In rel rels -> file_path par rel <> par /\ vol_pattern (Par2.strip_ext par) (file_path par rel) = false) ->
    (forall q, In q (map fst fs) -> vol_pattern (Par2.strip_ext par) q = false) ->
    forall cwd2 vargs, cli_is_verify2 vargs par ->
      fst (cli_run md5 cwd2 vargs (io_init (io_fs st') [])) = 0.
  Proof.
    intros Hmd5 cwd args par files p fs st' H Hc sz basedir rels datas st1 ER Hmax Hn Hd Hnd Hdir Hin Hfresh cwd2 vargs Hv.
    pose proof (cli_create2_zero_then_verify_zero _ _ _ _ _ _ _ H Hc) as Hcr.
    destruct (par2_create_ok_inv _ _ _ _ _ _ Hcr) as (Hext & _ & datas' & st1' & outs & ER' & EC & _).
    assert (E1 : (Ok datas', st1') = (Ok datas, st1)) by (rewrite <- ER, <- ER'; reflexivity).
    injection E1 as E1 E2. subst datas' st1'.
    assert (Epar : Par2.strip_ext par ++ EXT_PAR2 = par) by (rewrite <- Hext; apply strip_ext_app_ext).
    apply (cli_create2_then_verify2_zero_gen Hmd5 cwd args par files p fs st' H Hc datas st1 outs ER EC Hmax Hn Hd Hnd).
    - intros rel _. unfold file_path, basedir. rewrite Hdir. reflexivity.
    - intros rel Hrel Hq. destruct (Hin rel Hrel) as [Hne Hpat].
      destruct (create_outputs_paths _ _ _ _ _ _ EC _ Hq) as [E|E]; [apply Hne; rewrite E; exact Epar|].
      rewrite Hpat in E. discriminate E.
    - intros q Hq Hpat. rewrite (Hfresh q Hq) in Hpat. discriminate Hpat.
    - rewrite Epar. exact Hv.
  Qed.

End CLICompose.

(** * the predicates are inhabited; the side conditions are satisfiable and needed *)

Module ComposeExamples.
  Import Coq.Strings.String Coq.Strings.Ascii.
  Local Open Scope string_scope.

  Definition s := CLIFacts.Examples.s.

  Example ex_repair2 :
    cli_is_repair2 [s "-g"; s "4"; s "REPAIR"; s "-doublecheck"; s "dir/a.par2"; s "ignored"] (s "dir/a.par2") true.
  Proof.
    exists [(s "g", s "4")], (s "REPAIR"), [s "-doublecheck"; s "dir/a.par2"; s "ignored"],
           [(s "doublecheck", s "true")], [s "ignored"].
    unfold cli_command, is_repair_word. repeat split; try reflexivity. right; reflexivity.
  Qed.

  Example ex_repair1 : cli_is_repair1 [s "r"; s "a.par"] (s "a.par") false.
  Proof.
    exists [], (s "r"), [s "a.par"], [], [].
    unfold cli_command, is_repair_word. repeat split; try reflexivity. left; reflexivity.
  Qed.

  Example ex_create2 :
    cli_is_create2 [s "Create"; s "-s"; s "4096"; s "-c=5"; s "/d/a.par2"; s "/d/x.bin"; s "/d/sub/y.bin"]
                   (s "/d/a.par2") [s "/d/x.bin"; s "/d/sub/y.bin"] {| cp_slice := 4096; cp_parity := 5 |}.
  Proof.
    exists [], (s "Create"), [s "-s"; s "4096"; s "-c=5"; s "/d/a.par2"; s "/d/x.bin"; s "/d/sub/y.bin"],
           [(s "c", s "5"); (s "s", s "4096")].
    unfold cli_command, is_create_word. repeat split; try reflexivity; try discriminate. right; reflexivity.
  Qed.

  Example ex_create2_defaults :
    cli_is_create2 [s "-g"; s "2"; s "c"; s "a.par2"; s "x.bin"] (s "a.par2") [s "x.bin"] {| cp_slice := 2000; cp_parity := 3 |}.
  Proof.
    exists [(s "g", s "2")], (s "c"), [s "a.par2"; s "x.bin"], [].
    unfold cli_command, is_create_word. repeat split; try reflexivity; try discriminate. left; reflexivity.
  Qed.

  (* the path premises of cli_create2_then_verify2_zero hold for an absolute, clean index path:
     the directory is unchanged by filepath.Abs, the relative names are what one expects, and they
     resolve below the index directory *)
  Example ex_abs_dir : dir (abs_path (s "/home/u") (s "/d/a.par2")) = dir (s "/d/a.par2").
  Proof. vm_compute. reflexivity. Qed.

  Example ex_rels :
    map (rel_path (dir (abs_path (s "/home/u") (s "/d/a.par2")))) (map (abs_path (s "/home/u")) [s "/d/x.bin"; s "/d/sub/y.bin"])
    = [s "x.bin"; s "sub/y.bin"].
  Proof. vm_compute. reflexivity. Qed.

  Example ex_inputs_not_outputs :
    Forall (fun rel => file_path (s "/d/a.par2") rel <> s "/d/a.par2" /\
                       vol_pattern (Par2.strip_ext (s "/d/a.par2")) (file_path (s "/d/a.par2") rel) = false)
           [s "x.bin"; s "sub/y.bin"].
  Proof. repeat constructor; try discriminate; vm_compute; reflexivity. Qed.

  (* ... and the directory premise is NEEDED in this model: the file map is keyed by path strings, so
     for a relative index path Create reads <cwd>/x.bin while Verify looks up ./x.bin *)
  Example ex_relative_index_differs :
    dir (abs_path (s "/home/u") (s "a.par2")) = s "/home/u" /\ dir (s "a.par2") = s "." /\
    join2 (dir (abs_path (s "/home/u") (s "a.par2"))) (s "x.bin") <> file_path (s "a.par2") (s "x.bin").
  Proof. repeat split; try (vm_compute; reflexivity). vm_compute. discriminate. Qed.

  (* REFUTED for PAR1: "status 0 from repair implies every saved file has the recorded LENGTH".
     md5 is a parameter of the model; PAR1's LoadFileData accepts a file as usable when the two hashes
     match and never compares the length.  With a colliding md5 (constant here) the 3-byte file f is
     accepted for an entry that records 5 bytes, nothing needs repair, and the command exits 0.
     (Under collision-freeness of MD5 equal hashes mean equal content, so this is a statement about
     what the model's premises allow, not a defect of the program.)  This is why
     cli_repair1_zero_restored concludes the length only for files that Repair wrote. *)
  Definition md5c : bytes -> bytes := fun _ => repeat 0 16.
  Definition e0 : p1entry := {| e_status := 1; e_len := 5; e_hash := md5c []; e_h16 := md5c []; e_name := s "f" |}.
  Definition fs0 : list (list N * bytes) :=
    [(s "a.par", write_volume md5c (md5c []) 0 [e0] []); (s "f", [1; 2; 3])].

  Example cli_repair1_zero_length_refuted :
    let r := cli_run md5c [] [s "r"; s "a.par"] (io_init fs0 []) in
    fst r = 0 /\
    match fst (p1_load md5c (s "a.par") (io_init fs0 [])) with Ok st => s_saved st = [e0] | _ => False end /\
    fs_lookup (io_fs (snd r)) (join2 (dir (s "a.par")) (e_name e0)) = Some [1; 2; 3] /\
    e_len e0 = 5.
  Proof. vm_compute. repeat split; reflexivity. Qed.
End ComposeExamples.

Print Assumptions cli_repair2_zero_restored.
Print Assumptions cli_repair2_nonzero_on_failure.
Print Assumptions cli_repair2_state.
Print Assumptions cli_repair2_zero_then_verify_zero.
Print Assumptions par1_repair_ok_all_recorded.
Print Assumptions cli_repair1_zero_restored.
Print Assumptions cli_repair1_zero_written.
Print Assumptions cli_repair1_nonzero_on_failure.
Print Assumptions cli_create2_zero_then_verify_zero.
Print Assumptions cli_create2_then_verify2_zero_gen.
Print Assumptions cli_create2_then_verify2_zero.
Print Assumptions cli_create2_codes.
Print Assumptions cli_create2_nonzero_on_failure.
