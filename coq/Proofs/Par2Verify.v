(* Truthfulness of the result of PAR2 Verify (Model/Par2.v):
   1. a clean result ("no repair needed") implies that every protected file is present with the
      recorded length and both recorded hashes (fault-free run);
   2. usable + unusable = number of protected slices;
   3. "repair possible" iff unusable <= usable recovery blocks;
   4. the usable recovery-block count is the number of distinct exponents loaded;
   5. Verify never panics. *)
From Coq Require Import Lia FinFun.
From Gopar Require Import Model.Base Model.CRC Model.GoPath Model.FS Model.Par2
     Proofs.GoPathFacts Proofs.Par2Facts.
Open Scope N_scope.
Set Default Timeout 120.

(** * list helpers: upd_nth *)

Lemma upd_nth_nil {A} i (f : A -> A) : upd_nth i f [] = [].
Proof. unfold upd_nth. rewrite firstn_nil, skipn_nil. reflexivity. Qed.

Lemma upd_nth_0 {A} (f : A -> A) x l : upd_nth 0 f (x :: l) = f x :: l.
Proof. reflexivity. Qed.

Lemma upd_nth_S {A} i (f : A -> A) x l : upd_nth (S i) f (x :: l) = x :: upd_nth i f l.
Proof. reflexivity. Qed.

Lemma map_upd_nth_inv {A B} (g : A -> B) (f : A -> A) :
  (forall x, g (f x) = g x) -> forall i l, map g (upd_nth i f l) = map g l.
Proof.
  intros H. induction i as [|i IH]; intros [|x l].
  - reflexivity.
  - rewrite upd_nth_0. cbn [map]. rewrite H. reflexivity.
  - rewrite upd_nth_nil. reflexivity.
  - rewrite upd_nth_S. cbn [map]. rewrite IH. reflexivity.
Qed.

Lemma upd_nth_length {A} (f : A -> A) i l : length (upd_nth i f l) = length l.
Proof.
  pose proof (map_upd_nth_inv (fun _ : A => tt) f (fun _ => eq_refl) i l) as H.
  apply (f_equal (@length unit)) in H. rewrite !map_length in H. exact H.
Qed.

Lemma nth_upd_nth_same {A} (f : A -> A) d : forall i l,
  (i < length l)%nat -> nth i (upd_nth i f l) d = f (nth i l d).
Proof.
  induction i as [|i IH]; intros [|x l] Hl; cbn [length] in Hl; try lia.
  - reflexivity.
  - rewrite upd_nth_S. cbn [nth]. apply IH. lia.
Qed.

Lemma nth_upd_nth_other {A} (f : A -> A) d : forall i j l,
  j <> i -> nth j (upd_nth i f l) d = nth j l d.
Proof.
  induction i as [|i IH]; intros j [|x l] Hne; try (rewrite upd_nth_nil; reflexivity).
  - rewrite upd_nth_0. destruct j; [congruence|reflexivity].
  - rewrite upd_nth_S. destruct j; [reflexivity|]. cbn [nth]. apply IH. congruence.
Qed.

Lemma map_fst_combine {A B} : forall (a : list A) (b : list B),
  length a = length b -> map fst (combine a b) = a.
Proof.
  induction a as [|x a IH]; intros [|y b] Hl; cbn [length] in Hl; try lia; [reflexivity|].
  cbn [combine map fst]. rewrite IH by lia. reflexivity.
Qed.

Lemma in_combine_seq {A} : forall (l : list A) k x,
  In x l -> exists i, In (i, x) (combine (seq k (length l)) l).
Proof.
  induction l as [|y l IH]; intros k x Hin; [destruct Hin|].
  cbn [length seq combine]. destruct Hin as [->|Hin].
  - exists k. left. reflexivity.
  - destruct (IH (S k) x Hin) as [i Hi]. exists i. right. exact Hi.
Qed.

(** * counting *)

Definition is_some {A} (o : option A) : bool := match o with Some _ => true | None => false end.

Lemma count_some_nones {A} (l : list (option A)) : (count_some l + count_nones l = length l)%nat.
Proof.
  unfold count_some, count_nones. induction l as [|[x|] l IH]; cbn [filter length]; lia.
Qed.

Lemma count_nones_app {A} (a b : list (option A)) :
  count_nones (a ++ b) = (count_nones a + count_nones b)%nat.
Proof. unfold count_nones. rewrite filter_app, app_length. reflexivity. Qed.

Lemma count_some_map_seq {A B} (f : B -> option A) (l : list B) :
  count_some (map f l) = length (filter (fun e => is_some (f e)) l).
Proof.
  unfold count_some. induction l as [|e l IH]; [reflexivity|].
  cbn [map filter]. unfold is_some at 1. destruct (f e); cbn [length]; rewrite IH; reflexivity.
Qed.

Definition sum (l : list nat) : nat := fold_right Nat.add 0%nat l.

(** * exponent table helpers *)

Lemma assoc_n_some_iff {A} (acc : list (N * A)) k : is_some (assoc_n acc k) = true <-> In k (map fst acc).
Proof.
  induction acc as [|[k' v] acc IH]; cbn [assoc_n map fst In].
  - split; [discriminate|intros []].
  - destruct (N.eqb_spec k' k) as [E|NE].
    + split; [intros _; left; exact E|reflexivity].
    + rewrite IH. split; [intros H; right; exact H|intros [H|H]; [congruence|exact H]].
Qed.

Lemma fold_max_bound : forall (acc : list (N * bytes)) m0,
  m0 <= fold_left (fun m (ed : N * bytes) => N.max m (fst ed)) acc m0 /\
  forall k, In k (map fst acc) -> k <= fold_left (fun m (ed : N * bytes) => N.max m (fst ed)) acc m0.
Proof.
  induction acc as [|[k' v] acc IH]; intros m0; cbn [fold_left map fst In].
  - split; [lia|intros k []].
  - destruct (IH (N.max m0 k')) as [H1 H2]. split; [lia|].
    intros k [<-|Hin]; [lia|apply H2; exact Hin].
Qed.

(** * GoPath: clean never returns the empty string; checkFilename cannot panic *)

Lemma join_slash_nonempty c r : c <> [] -> join_slash (c :: r) <> [].
Proof.
  intros Hc. destruct c as [|x c]; [congruence|]. destruct r; cbn [join_slash app]; discriminate.
Qed.

Lemma comp_ok_nonempty c : comp_ok c = true -> c <> [].
Proof. intros H ->. cbn in H. discriminate H. Qed.

Lemma clean_nonempty s : clean s <> [].
Proof.
  unfold clean. destruct s as [|c s]; [discriminate|]. cbv zeta.
  set (rooted := is_abs (c :: s)).
  pose proof (comps_clean rooted (split_slash (c :: s)) [] eq_refl) as Hc.
  destruct (clean_stack rooted [] (split_slash (c :: s))) as [|top rest] eqn:E.
  - destruct rooted; cbn [render]; discriminate.
  - destruct rooted; [cbn [render]; discriminate|].
    cbn [render].
    destruct (rev (top :: rest)) as [|x r] eqn:Er.
    + apply (f_equal (@length _)) in Er. rewrite rev_length in Er. discriminate.
    + apply join_slash_nonempty. apply comp_ok_nonempty.
      rewrite forallb_forall in Hc. apply Hc. apply in_rev. rewrite Er. left. reflexivity.
Qed.

Lemma check_filename_np name p : check_filename name <> Panic p.
Proof.
  unfold check_filename. destruct (is_abs name); [discriminate|].
  pose proof (clean_nonempty name) as Hc.
  destruct (clean name) as [|c r]; [congruence|]. destruct (c =? DOT); discriminate.
Qed.

(** * outcome plumbing *)

Lemma io_read_np p st q : fst (io_read p st) <> Panic q.
Proof.
  unfold io_read. destruct (sched_lookup (io_sched st) (io_n st)) as [f|]; [cbn [fst]; discriminate|].
  destruct (fs_lookup (io_fs st) p) as [d|]; [cbn [fst]; discriminate|].
  destruct (is_dir (io_fs st) p); cbn [fst]; discriminate.
Qed.

Lemma io_list_np a b st q : fst (io_list a b st) <> Panic q.
Proof.
  unfold io_list. destruct (sched_lookup (io_sched st) (io_n st)) as [f|]; cbn [fst]; discriminate.
Qed.

Lemma io_read_ok_lookup p st data st1 :
  io_sched st = [] -> io_read p st = (Ok data, st1) -> fs_lookup (io_fs st) p = Some data.
Proof.
  intros Hs H. unfold io_read in H. rewrite Hs in H. cbn [sched_lookup] in H.
  destruct (fs_lookup (io_fs st) p) as [x|].
  - injection H as Hx _. subst x. reflexivity.
  - destruct (is_dir (io_fs st) p); discriminate H.
Qed.

Lemma omap_np {A B} (f : A -> outcome B) :
  (forall x p, f x <> Panic p) -> forall l p, omap f l <> Panic p.
Proof.
  intros Hf. induction l as [|x l IH]; intros p; cbn [omap]; [discriminate|].
  pose proof (Hf x) as Hx. destruct (f x) as [y|e|q]; cbn [obind].
  - pose proof IH as Hl. destruct (omap f l) as [ys|e|q]; cbn [obind]; [discriminate|discriminate|].
    exfalso. exact (Hl q eq_refl).
  - discriminate.
  - exfalso. exact (Hx q eq_refl).
Qed.

Lemma make_infos_np S ids f p : make_infos S ids f <> Panic p.
Proof.
  unfold make_infos. apply omap_np. intros id q.
  destruct (assoc_b (pf_fdesc f) id) as [d|]; [|discriminate].
  destruct (assoc_b (pf_ifsc f) id) as [ps|]; [|discriminate].
  destruct (negb (N.of_nat (length ps) =? (fd_len d + S - 1) / S)); discriminate.
Qed.

Lemma read_main_ok body m : read_main body = Ok m -> 4 <= mp_slice m.
Proof.
  unfold read_main. cbv zeta. intros H.
  destruct (Nat.ltb (length body) 12); [discriminate H|].
  set (slice := le_decode (firstn 8 body)) in *.
  destruct ((slice =? 0) || negb (slice mod 4 =? 0) || (MAXINT <? slice) || (MAXSLICE <? slice)) eqn:E; [discriminate H|].
  destruct (le_decode (firstn 4 (skipn 8 body)) =? 0); [discriminate H|].
  destruct (negb (Nat.eqb (length (skipn 12 body) mod 16) 0)); [discriminate H|].
  destruct (N.of_nat (length (chunk_bytes 16 (skipn 12 body))) <? le_decode (firstn 4 (skipn 8 body))); [discriminate H|].
  match type of H with (if ?c then _ else _) = _ => destruct c end; [discriminate H|].
  injection H as <-. cbn [mp_slice].
  apply orb_false_iff in E. destruct E as [E _]. apply orb_false_iff in E. destruct E as [E _]. apply orb_false_iff in E. destruct E as [E0 E4].
  apply N.eqb_neq in E0. apply negb_false_iff in E4. apply N.eqb_eq in E4.
  pose proof (N.div_mod' slice 4) as DM. lia.
Qed.

Section Par2Verify.
  Variable md5 : bytes -> bytes.

(** * 3. repair possible *)
Theorem verify_possible_iff : forall c, repair_possible c = true <-> (c_unusable c <= c_pusable c)%nat.
Proof. intros c. unfold repair_possible. apply Nat.leb_le. Qed.

(** * 4. usable recovery blocks = distinct exponents *)
Theorem parity_count_distinct : forall (acc : list (N * bytes)),
  count_some (parity_array acc) = length (nodup N.eq_dec (map fst acc)).
Proof.
  intros acc. destruct acc as [|a0 acc0] eqn:Eacc; [reflexivity|]. rewrite <- Eacc.
  assert (PA : parity_array acc =
               map (fun e => assoc_n acc (N.of_nat e))
                   (seq 0 (S (N.to_nat (fold_left (fun m (ed : N * bytes) => N.max m (fst ed)) acc 0))))).
  { rewrite Eacc. reflexivity. }
  rewrite PA. clear PA Eacc a0 acc0.
  set (mx := fold_left (fun m (ed : N * bytes) => N.max m (fst ed)) acc 0).
  destruct (fold_max_bound acc 0) as [_ Hmx]. fold mx in Hmx.
  rewrite count_some_map_seq.
  set (L1 := filter (fun e => is_some (assoc_n acc (N.of_nat e))) (seq 0 (S (N.to_nat mx)))).
  set (L2 := map N.to_nat (nodup N.eq_dec (map fst acc))).
  assert (HL2 : length L2 = length (nodup N.eq_dec (map fst acc))) by (unfold L2; apply map_length).
  rewrite <- HL2.
  assert (N1 : NoDup L1) by (unfold L1; apply NoDup_filter, seq_NoDup).
  assert (N2 : NoDup L2).
  { unfold L2. apply Injective_map_NoDup; [intros x y; apply N2Nat.inj|apply NoDup_nodup]. }
  assert (I12 : incl L1 L2).
  { intros e He. unfold L1 in He. apply filter_In in He. destruct He as [_ He].
    apply assoc_n_some_iff in He. unfold L2. apply in_map_iff. exists (N.of_nat e).
    split; [apply Nat2N.id|apply nodup_In; exact He]. }
  assert (I21 : incl L2 L1).
  { intros e He. unfold L2 in He. apply in_map_iff in He. destruct He as (k & <- & Hk).
    apply nodup_In in Hk. unfold L1. apply filter_In. split.
    - apply in_seq. pose proof (Hmx k Hk). lia.
    - rewrite N2Nat.id. apply assoc_n_some_iff. exact Hk. }
  pose proof (NoDup_incl_length N1 I12). pose proof (NoDup_incl_length N2 I21). lia.
Qed.


  (** ** packet readers *)

  Lemma read_fdesc_np body p : read_fdesc md5 body <> Panic p.
  Proof.
    unfold read_fdesc. cbv zeta.
    destruct (Nat.ltb (length body) 56); [discriminate|].
    match goal with |- (if ?c then _ else _) <> _ => destruct c end; [discriminate|].
    match goal with |- (if ?c then _ else _) <> _ => destruct c end; [discriminate|].
    pose proof (check_filename_np (decode_ascii (skipn 56 body))) as Hc.
    destruct (check_filename (decode_ascii (skipn 56 body))) as [u|e|q]; cbn [obind].
    - match goal with |- (if ?c then _ else _) <> _ => destruct c end; discriminate.
    - discriminate.
    - exfalso. exact (Hc q eq_refl).
  Qed.

  Definition main_ok (f : pfile) : Prop :=
    match pf_main f with Some m => 4 <= mp_slice m | None => True end.

  Ltac hd_destruct H :=
    lazymatch type of H with
    | (if ?c then _ else _) = _ => destruct c eqn:?
    | (match ?c with _ => _ end) = _ => destruct c eqn:?
    end.

  Lemma rf_finish_ok setid found f sid f' : rf_finish setid found f = RFOk sid f' -> f' = f.
  Proof.
    unfold rf_finish. intros H.
    destruct (negb found); [discriminate H|].
    destruct (pf_client f) as [cl|]; [|discriminate H].
    destruct setid as [sid0|]; [|discriminate H].
    injection H as _ <-. reflexivity.
  Qed.

  Lemma read_file_go_main : forall fuel buf setid found f sid f',
    main_ok f -> read_file_go md5 fuel buf setid found f = RFOk sid f' -> main_ok f'.
  Proof.
    induction fuel as [|fuel IH]; intros buf setid found f sid f' Hf H; cbn [read_file_go] in H; [discriminate H|].
    destruct (read_next_packet md5 buf) as [| |psid ptype body rest].
    - (* end of input *)
      apply rf_finish_ok in H. rewrite H. exact Hf.
    - (* damaged packet: skipped *)
      destruct (find_magic (tl buf)) as [rest|].
      + eapply IH; [exact Hf|exact H].
      + apply rf_finish_ok in H. rewrite H. exact Hf.
    - hd_destruct H.
      { eapply IH; [exact Hf|exact H]. }
      destruct (bytes_eqb ptype TYPE_CREATOR).
      { eapply IH; [|exact H]. exact Hf. }
      destruct (bytes_eqb ptype TYPE_MAIN).
      { destruct (read_main body) as [m|e|q] eqn:EM; try discriminate H.
        eapply IH; [|exact H]. unfold main_ok. cbn [pf_main]. apply read_main_ok with body. exact EM. }
      destruct (bytes_eqb ptype TYPE_FDESC).
      { destruct (read_fdesc md5 body) as [[id dd]|e|q]; try discriminate H.
        eapply IH; [|exact H]. exact Hf. }
      destruct (bytes_eqb ptype TYPE_IFSC).
      { destruct (read_ifsc body) as [[id ps]|e|q]; try discriminate H.
        eapply IH; [|exact H]. exact Hf. }
      destruct (bytes_eqb ptype TYPE_RECV).
      { destruct (read_recv body) as [[e dd]|e|q]; try discriminate H.
        destruct (assoc_n (pf_recv f) e) as [d'|].
        - destruct (bytes_eqb d' dd); [|discriminate H]. eapply IH; [exact Hf|exact H].
        - eapply IH; [|exact H]. exact Hf. }
      eapply IH; [exact Hf|exact H].
  Qed.

  (** ** newDecoder *)

  Lemma new_decoder_ok ix st d st1 :
    new_decoder md5 ix st = (Ok d, st1) -> d_index d = ix /\ 4 <= d_slice d.
  Proof.
    intros H. unfold new_decoder in H.
    destruct (io_read ix st) as [[b|e|q] s1]; try discriminate H.
    injection H as H _.
    destruct (read_file md5 None b) as [| |sid f] eqn:ERF; try discriminate H.
    destruct (pf_main f) as [m|] eqn:EM; [|discriminate H].
    destruct (pf_recv f) as [|r0 rr]; [|discriminate H].
    destruct (make_infos (mp_slice m) (mp_rec m) f) as [rs|e|q]; cbn [obind] in H; try discriminate H.
    destruct (make_infos (mp_slice m) (mp_nonrec m) f) as [nrs|e|q]; cbn [obind] in H; try discriminate H.
    injection H as <-. cbn [d_index d_slice]. split; [reflexivity|].
    unfold read_file in ERF. apply read_file_go_main in ERF; [|exact I].
    unfold main_ok in ERF. rewrite EM in ERF. exact ERF.
  Qed.

  Lemma new_decoder_np ix st p : fst (new_decoder md5 ix st) <> Panic p.
  Proof.
    unfold new_decoder. pose proof (io_read_np ix st) as NP.
    destruct (io_read ix st) as [[b|e|q] s1]; cbn [fst] in *.
    - destruct (read_file md5 None b) as [| |sid f]; try discriminate.
      destruct (pf_main f) as [m|]; [|discriminate].
      destruct (pf_recv f) as [|r0 rr]; [|discriminate].
      pose proof (make_infos_np (mp_slice m) (mp_rec m) f) as N1.
      destruct (make_infos (mp_slice m) (mp_rec m) f) as [rs|e|q]; cbn [obind];
        [|discriminate|exfalso; exact (N1 q eq_refl)].
      pose proof (make_infos_np (mp_slice m) (mp_nonrec m) f) as N2.
      destruct (make_infos (mp_slice m) (mp_nonrec m) f) as [nrs|e|q]; cbn [obind];
        [discriminate|discriminate|exfalso; exact (N2 q eq_refl)].
    - discriminate.
    - exfalso. exact (NP q eq_refl).
  Qed.

  Lemma win_new_np s p : 4 <= s -> win_new (Z.of_N s) <> Panic p.
  Proof.
    intros Hs. unfold win_new. destruct (Z.ltb_spec (Z.of_N s) 4) as [Hlt|Hge]; [lia|].
    intros H. cbv zeta in H. discriminate H.
  Qed.

  (** ** the loading phase *)

  Lemma load_files_np d w t : forall todo fis st p, fst (load_files md5 d w t todo fis st) <> Panic p.
  Proof.
    induction todo as [|[i info] r IH]; intros fis st p; cbn [load_files].
    - cbn [fst]. discriminate.
    - pose proof (io_read_np (file_path (d_index d) (di_name info)) st) as NP.
      destruct (io_read (file_path (d_index d) (di_name info)) st) as [[data|e|q] st1]; cbn [fst] in NP.
      + apply IH.
      + destruct e; try (cbn [fst]; discriminate). apply IH.
      + exfalso. exact (NP q eq_refl).
  Qed.

  Lemma load_parity_np d : forall paths acc st p, fst (load_parity md5 d paths acc st) <> Panic p.
  Proof.
    induction paths as [|pa r IH]; intros acc st p; cbn [load_parity].
    - cbn [fst]. discriminate.
    - pose proof (io_read_np pa st) as NP.
      destruct (io_read pa st) as [[b|e|q] st1]; cbn [fst] in NP.
      + destruct (read_file_vol md5 (d_setid d) b) as [| |sid f].
        * cbn [fst]. discriminate.
        * apply IH.
        * lazymatch goal with |- fst (if ?c then _ else _) <> _ => destruct c end; [cbn [fst]; discriminate|].
          lazymatch goal with |- fst (if ?c then _ else _) <> _ => destruct c end; [cbn [fst]; discriminate|].
          apply IH.
      + cbn [fst]. discriminate.
      + exfalso. exact (NP q eq_refl).
  Qed.

  Definition fis0 (d : decoder) : list fint :=
    map (fun info => {| fi_missing := false; fi_hashbad := false; fi_lenbad := false;
                        fi_shards := map (fun _ => None) (di_pairs info) |}) (d_rec d).

  Lemma load_all_inv ix st ds st' :
    load_all md5 ix st = (Ok ds, st') ->
    exists d st1 w fis st2 acc,
      new_decoder md5 ix st = (Ok d, st1) /\
      win_new (Z.of_N (d_slice d)) = Ok w /\
      load_files md5 d w (make_cstable (d_rec d)) (combine (seq 0 (length (d_rec d))) (d_rec d)) (fis0 d) st1
        = (Ok fis, st2) /\
      ds = {| ds_dec := d; ds_fis := fis; ds_tbl := make_cstable (d_rec d); ds_parity := parity_array acc |}.
  Proof.
    intros H. unfold load_all in H.
    destruct (negb (str_eqb (ext ix) EXT_PAR2)); [discriminate H|].
    destruct (new_decoder md5 ix st) as [[d|e|q] st1] eqn:E1; try discriminate H.
    destruct (win_new (Z.of_N (d_slice d))) as [w|e|q] eqn:E2; try discriminate H.
    cbv zeta in H. fold (fis0 d) in H.
    destruct (load_files md5 d w (make_cstable (d_rec d)) (combine (seq 0 (length (d_rec d))) (d_rec d)) (fis0 d) st1)
      as [[fis|e|q] st2] eqn:E3; try discriminate H.
    destruct (io_list (strip_ext ix ++ [DOT]) (ext ix) st2) as [[paths|e|q] st3]; try discriminate H.
    destruct (load_parity md5 d paths [] st3) as [[acc|e|q] st4]; try discriminate H.
    injection H as <- _.
    exists d, st1, w, fis, st2, acc.
    split; [first [exact E1|reflexivity]|]. split; [exact E2|]. split; [exact E3|reflexivity].
  Qed.

  Lemma load_all_np ix st p : fst (load_all md5 ix st) <> Panic p.
  Proof.
    unfold load_all.
    destruct (negb (str_eqb (ext ix) EXT_PAR2)); [cbn [fst]; discriminate|].
    pose proof (new_decoder_np ix st) as N1.
    pose proof (new_decoder_ok ix st) as O1.
    destruct (new_decoder md5 ix st) as [[d|e|q] st1]; cbn [fst] in N1;
      [|cbn [fst]; discriminate|exfalso; exact (N1 q eq_refl)].
    destruct (O1 d st1 eq_refl) as [_ Hs].
    pose proof (win_new_np (d_slice d)) as N2.
    destruct (win_new (Z.of_N (d_slice d))) as [w|e|q];
      [|cbn [fst]; discriminate|exfalso; exact (N2 q Hs eq_refl)].
    cbv zeta.
    match goal with |- context [load_files md5 d w ?t ?todo ?fis st1] =>
      pose proof (load_files_np d w t todo fis st1) as N3;
      destruct (load_files md5 d w t todo fis st1) as [[fis'|e|q] st2] end; cbn [fst] in N3;
      [|cbn [fst]; discriminate|exfalso; exact (N3 q eq_refl)].
    match goal with |- context [io_list ?a ?b st2] =>
      pose proof (io_list_np a b st2) as N4;
      destruct (io_list a b st2) as [[paths|e|q] st3] end; cbn [fst] in N4;
      [|cbn [fst]; discriminate|exfalso; exact (N4 q eq_refl)].
    pose proof (load_parity_np d paths [] st3) as N5.
    destruct (load_parity md5 d paths [] st3) as [[acc|e|q] st4]; cbn [fst] in N5;
      [cbn [fst]; discriminate|cbn [fst]; discriminate|exfalso; exact (N5 q eq_refl)].
  Qed.

  (** * 5. Verify never panics *)
  Theorem verify_no_panic : forall ix st p, fst (par2_verify md5 ix st) <> Panic p.
  Proof.
    intros ix st p. unfold par2_verify. pose proof (load_all_np ix st) as NP.
    destruct (load_all md5 ix st) as [[ds|e|q] st1]; cbn [fst] in *;
      [discriminate|discriminate|exfalso; exact (NP q eq_refl)].
  Qed.

  (** ** what credit / set_flags preserve *)

  Definition flags3 (fi : fint) : bool * bool * bool := (fi_missing fi, fi_hashbad fi, fi_lenbad fi).
  Definition shlen (fi : fint) : nat := length (fi_shards fi).
  Definition dfi : fint := {| fi_missing := false; fi_hashbad := false; fi_lenbad := false; fi_shards := [] |}.

  Lemma credit_map {B} (g : fint -> B) :
    (forall fi j (h : option sinfo -> option sinfo),
        g {| fi_missing := fi_missing fi; fi_hashbad := fi_hashbad fi; fi_lenbad := fi_lenbad fi;
             fi_shards := upd_nth j h (fi_shards fi) |} = g fi) ->
    forall cur h fis, map g (credit cur h fis) = map g fis.
  Proof.
    intros Hg cur h. unfold credit. generalize (h_locs h). intros locs.
    induction locs as [|loc locs IH]; intros fis; cbn [fold_left]; [reflexivity|].
    rewrite IH. apply map_upd_nth_inv. intros x. apply Hg.
  Qed.

  Lemma credits_map {B} (g : fint -> B) :
    (forall fi j (h : option sinfo -> option sinfo),
        g {| fi_missing := fi_missing fi; fi_hashbad := fi_hashbad fi; fi_lenbad := fi_lenbad fi;
             fi_shards := upd_nth j h (fi_shards fi) |} = g fi) ->
    forall cur hits fis, map g (fold_left (fun fis h => credit cur h fis) hits fis) = map g fis.
  Proof.
    intros Hg cur. induction hits as [|h hits IH]; intros fis; cbn [fold_left]; [reflexivity|].
    rewrite IH. apply credit_map. exact Hg.
  Qed.

  Lemma flags3_credit_inv : forall fi j (h : option sinfo -> option sinfo),
    flags3 {| fi_missing := fi_missing fi; fi_hashbad := fi_hashbad fi; fi_lenbad := fi_lenbad fi;
              fi_shards := upd_nth j h (fi_shards fi) |} = flags3 fi.
  Proof. reflexivity. Qed.

  Lemma shlen_credit_inv : forall fi j (h : option sinfo -> option sinfo),
    shlen {| fi_missing := fi_missing fi; fi_hashbad := fi_hashbad fi; fi_lenbad := fi_lenbad fi;
             fi_shards := upd_nth j h (fi_shards fi) |} = shlen fi.
  Proof. intros fi j h. unfold shlen. cbn [fi_shards]. apply upd_nth_length. Qed.

  Lemma set_flags_shlen i a b c fis : map shlen (set_flags i a b c fis) = map shlen fis.
  Proof. unfold set_flags. apply map_upd_nth_inv. intros x. reflexivity. Qed.

  Lemma load_files_shape d w t : forall todo fis st fis' st',
    load_files md5 d w t todo fis st = (Ok fis', st') -> map shlen fis' = map shlen fis.
  Proof.
    induction todo as [|[i info] r IH]; intros fis st fis' st' H; cbn [load_files] in H.
    - injection H as <- _. reflexivity.
    - destruct (io_read (file_path (d_index d) (di_name info)) st) as [[data|e|q] st1].
      + apply IH in H. rewrite H, set_flags_shlen. apply credits_map. exact shlen_credit_inv.
      + destruct e; try discriminate H. apply IH in H. rewrite H. apply set_flags_shlen.
      + discriminate H.
  Qed.

  Lemma map_length_eq {A B} (g : A -> B) (l l' : list A) : map g l = map g l' -> length l = length l'.
  Proof. intros H. apply (f_equal (@length B)) in H. rewrite !map_length in H. exact H. Qed.

  (** * 2. the counts partition the protected slices *)

  Lemma length_flat_shards (fis : list fint) : length (flat_map fi_shards fis) = sum (map shlen fis).
  Proof.
    induction fis as [|fi fis IH]; [reflexivity|].
    cbn [flat_map map sum fold_right]. rewrite app_length, IH. reflexivity.
  Qed.

  Theorem verify_counts_total : forall ix st ds st1,
    load_all md5 ix st = (Ok ds, st1) ->
    (c_usable (shard_counts ds) + c_unusable (shard_counts ds))%nat
    = fold_right (fun info acc => (length (di_pairs info) + acc)%nat) 0%nat (d_rec (ds_dec ds)).
  Proof.
    intros ix st ds st1 H.
    destruct (load_all_inv _ _ _ _ H) as (d & s1 & w & fis & s2 & acc & _ & _ & Hlf & ->).
    unfold shard_counts. cbn [c_usable c_unusable ds_fis ds_dec].
    rewrite count_some_nones, length_flat_shards.
    apply load_files_shape in Hlf. rewrite Hlf. unfold fis0. rewrite map_map.
    generalize (d_rec d). intros l. induction l as [|info l IH]; [reflexivity|].
    cbn [map sum fold_right]. unfold sum in IH. rewrite IH.
    unfold shlen. cbn [fi_shards]. rewrite map_length. reflexivity.
  Qed.

  (** * 1. a clean result means every protected file is intact *)

  Definition intact (fs : list (list N * bytes)) (ix : list N) (info : dinfo) : Prop :=
    exists data, fs_lookup fs (file_path ix (di_name info)) = Some data /\
                 md5 data = di_hash info /\ hash16k md5 data = di_h16 info /\
                 N.of_nat (length data) = di_len info.

  Lemma load_files_flags fs d w t : forall todo fis st fis' st',
    io_sched st = [] -> io_fs st = fs ->
    NoDup (map fst todo) ->
    (forall i info, In (i, info) todo -> (i < length fis)%nat) ->
    load_files md5 d w t todo fis st = (Ok fis', st') ->
    (forall j, ~ In j (map fst todo) -> flags3 (nth j fis' dfi) = flags3 (nth j fis dfi)) /\
    (forall i info, In (i, info) todo -> flags3 (nth i fis' dfi) = (false, false, false) ->
                    intact fs (d_index d) info).
  Proof.
    induction todo as [|[i info] r IH]; intros fis st fis' st' Hs Hf Hnd Hlt H; cbn [load_files] in H.
    - injection H as <- _. split; [reflexivity|intros i info []].
    - cbn [map fst] in Hnd. apply NoDup_cons_iff in Hnd. destruct Hnd as [Hni Hnd'].
      assert (Hi : (i < length fis)%nat) by (apply (Hlt i info); left; reflexivity).
      pose proof (io_read_pres (file_path (d_index d) (di_name info)) st) as P.
      destruct (io_read (file_path (d_index d) (di_name info)) st) as [[data|e|q] st1] eqn:ER;
        cbn [snd] in P; destruct P as (Pf & Ps & _).
      + (* the file was read *)
        set (fisc := fold_left (fun fis h => credit i h fis)
                               (fst (scan md5 (N.to_nat (d_slice d)) w t data)) fis) in *.
        assert (Hc3 : map flags3 fisc = map flags3 fis) by (apply credits_map; exact flags3_credit_inv).
        assert (Hcl : length fisc = length fis) by (apply (map_length_eq flags3); exact Hc3).
        set (hb := negb (bytes_eqb (hash16k md5 data) (di_h16 info)) || negb (bytes_eqb (md5 data) (di_hash info))) in *.
        set (lb := negb (N.of_nat (length data) =? di_len info)) in *.
        apply IH in H; [|congruence|congruence|exact Hnd'|].
        2:{ intros i' info' Hin. unfold set_flags. rewrite upd_nth_length, Hcl.
            apply (Hlt i' info'). right. exact Hin. }
        destruct H as [A B]. split.
        * intros j Hj. cbn [map fst In] in Hj.
          assert (Hji : j <> i) by (intros ->; apply Hj; left; reflexivity).
          assert (Hjr : ~ In j (map fst r)) by (intros Hin; apply Hj; right; exact Hin).
          rewrite A by exact Hjr. unfold set_flags. rewrite nth_upd_nth_other by exact Hji.
          rewrite <- !(map_nth flags3). rewrite Hc3. reflexivity.
        * intros i' info' [Heq|Hin] Hfl.
          -- injection Heq as <- <-. rewrite A in Hfl by exact Hni.
             unfold set_flags in Hfl. rewrite nth_upd_nth_same in Hfl by lia.
             unfold flags3 in Hfl. cbn [fi_missing fi_hashbad fi_lenbad] in Hfl.
             injection Hfl as Hhb Hlb.
             unfold hb in Hhb. apply orb_false_iff in Hhb. destruct Hhb as [H16 Hmd].
             apply negb_false_iff in H16, Hmd. apply bytes_eqb_eq in H16, Hmd.
             unfold lb in Hlb. apply negb_false_iff in Hlb. apply N.eqb_eq in Hlb.
             exists data. split; [|split; [exact Hmd|split; [exact H16|exact Hlb]]].
             rewrite <- Hf. apply io_read_ok_lookup with st1; assumption.
          -- apply (B i' info' Hin Hfl).
      + destruct e; try discriminate H.
        apply IH in H; [|congruence|congruence|exact Hnd'|].
        2:{ intros i' info' Hin. unfold set_flags. rewrite upd_nth_length.
            apply (Hlt i' info'). right. exact Hin. }
        destruct H as [A B]. split.
        * intros j Hj. cbn [map fst In] in Hj.
          assert (Hji : j <> i) by (intros ->; apply Hj; left; reflexivity).
          assert (Hjr : ~ In j (map fst r)) by (intros Hin; apply Hj; right; exact Hin).
          rewrite A by exact Hjr. unfold set_flags. rewrite nth_upd_nth_other by exact Hji. reflexivity.
        * intros i' info' [Heq|Hin] Hfl.
          -- injection Heq as <- <-. rewrite A in Hfl by exact Hni.
             unfold set_flags in Hfl. rewrite nth_upd_nth_same in Hfl by lia.
             unfold flags3 in Hfl. cbn [fi_missing fi_hashbad fi_lenbad] in Hfl. discriminate Hfl.
          -- apply (B i' info' Hin Hfl).
      + discriminate H.
  Qed.

  Lemma count_nones_flat_zero (fis : list fint) :
    count_nones (flat_map fi_shards fis) = 0%nat ->
    Forall (fun fi => count_nones (fi_shards fi) = 0%nat) fis.
  Proof.
    induction fis as [|fi fis IH]; intros H; [constructor|].
    cbn [flat_map] in H. rewrite count_nones_app in H. constructor; [lia|apply IH; lia].
  Qed.

  Lemma misplaced_zero (g : nat * fint -> bool) : forall (l : list fint) (ns : list nat),
    length ns = length l ->
    length (filter (fun okfi : bool * fint => negb (fst okfi) && Nat.eqb (count_nones (fi_shards (snd okfi))) 0)
                   (combine (map g (combine ns l)) l)) = 0%nat ->
    Forall (fun fi => count_nones (fi_shards fi) = 0%nat) l ->
    Forall (fun fi => exists n, g (n, fi) = true) l.
  Proof.
    induction l as [|fi l IH]; intros [|n ns] Hl H Hz; cbn [length] in Hl; try lia; [constructor|].
    inversion Hz as [|? ? Hc Hz']; subst.
    cbn [combine map filter fst snd] in H. rewrite Hc in H.
    destruct (g (n, fi)) eqn:E; cbn [negb andb Nat.eqb length] in H; [|lia].
    constructor; [exists n; exact E|]. apply (IH ns); [lia|exact H|exact Hz'].
  Qed.

  Lemma file_ok_flags i S fi : file_ok i S fi = true -> flags3 fi = (false, false, false).
  Proof.
    unfold file_ok, flags3. intros H.
    apply andb_true_iff in H. destruct H as [H _].
    apply andb_true_iff in H. destruct H as [H H3].
    apply andb_true_iff in H. destruct H as [H1 H2].
    apply negb_true_iff in H1, H2, H3. rewrite H1, H2, H3. reflexivity.
  Qed.

  Theorem verify_clean_intact : forall ix fs c st,
    par2_verify md5 ix (io_init fs []) = (Ok c, st) -> repair_needed c = false ->
    exists ds st1, load_all md5 ix (io_init fs []) = (Ok ds, st1) /\
      Forall (fun info => exists data, fs_lookup fs (file_path ix (di_name info)) = Some data /\
                md5 data = di_hash info /\ hash16k md5 data = di_h16 info /\ N.of_nat (length data) = di_len info)
             (d_rec (ds_dec ds)).
  Proof.
    intros ix fs c st H Hrn. unfold par2_verify in H.
    destruct (load_all md5 ix (io_init fs [])) as [[ds|e|q] st1] eqn:EL; try discriminate H.
    injection H as <- <-. exists ds, st1. split; [reflexivity|].
    destruct (load_all_inv _ _ _ _ EL) as (d & s1 & w & fis & s2 & acc & Hnd & _ & Hlf & ->).
    cbn [ds_dec].
    (* the counts *)
    unfold repair_needed in Hrn. apply orb_false_iff in Hrn. destruct Hrn as [Hu Hm].
    apply negb_false_iff in Hu, Hm. apply Nat.eqb_eq in Hu, Hm.
    unfold shard_counts in Hu, Hm. cbn [c_unusable c_misplaced ds_fis] in Hu, Hm.
    apply count_nones_flat_zero in Hu.
    unfold files_ok in Hm. cbn [ds_fis ds_dec] in Hm.
    apply misplaced_zero in Hm; [|apply seq_length|exact Hu].
    assert (Hall : Forall (fun fi => flags3 fi = (false, false, false)) fis).
    { apply Forall_forall. intros fi Hin. rewrite Forall_forall in Hm. destruct (Hm fi Hin) as [n Hn].
      cbn [fst snd] in Hn. apply file_ok_flags in Hn. exact Hn. }
    (* the loading invariant *)
    destruct (new_decoder_ok _ _ _ _ Hnd) as [Hix _].
    pose proof (new_decoder_pres md5 ix (io_init fs [])) as P. rewrite Hnd in P. cbn [snd] in P.
    destruct P as (Pf & Ps & _). cbn [io_init io_fs io_sched] in Pf, Ps.
    pose proof (load_files_shape _ _ _ _ _ _ _ _ Hlf) as Hshape.
    apply map_length_eq in Hshape. unfold fis0 in Hshape. rewrite map_length in Hshape.
    apply (load_files_flags fs) in Hlf; [|exact Ps|exact Pf| |].
    - destruct Hlf as [_ B]. rewrite Hix in B.
      apply Forall_forall. intros info Hin.
      destruct (in_combine_seq (d_rec d) 0%nat info Hin) as [i Hi].
      apply (B i info Hi). rewrite Forall_forall in Hall. apply Hall. apply nth_In.
      apply in_combine_l in Hi. apply in_seq in Hi. lia.
    - rewrite map_fst_combine by apply seq_length. apply seq_NoDup.
    - intros i info Hi. apply in_combine_l in Hi. apply in_seq in Hi.
      unfold fis0. rewrite map_length. lia.
  Qed.

End Par2Verify.

Print Assumptions verify_clean_intact.
Print Assumptions verify_counts_total.
Print Assumptions verify_possible_iff.
Print Assumptions parity_count_distinct.
Print Assumptions verify_no_panic.
