(* C06, lifted to the OPERATIONS: Verify and Repair see the recovery files only through the set of packets they contain.

   par2_verify / par2_repair = load_all (new_decoder on the index; load_files on the protected files; the directory
   listing; load_parity on the listed recovery files) followed by pure computation on the loaded state.

   L1 load_all_layout_invariant: two fault-free file systems whose index decodes to the same decoder, with the same
      contents at every protected path, and whose recovery files (ANY names matching the discovery pattern, any number,
      any distribution) are well-formed packet sequences holding in total the same OWN-SET packets (packets of other
      sets may differ freely): load_all returns ds_equiv states - in fact EQUAL states (ds_equiv_eq) and equal outcomes.
      The two ways to have "the same decoder": the same index bytes (same_index_same_decoder), or index files made of the
      same set of packets in another order / with duplicates (permuted_index_same_decoder).
   L2 verify_layout_invariant: par2_verify returns the same outcome (the same counts, or the same error).
   L3 repair_layout_invariant: par2_repair returns the same outcome and the same list of repaired paths, and every path
      that read the same before reads the same afterwards (in particular every protected path).
   L4 intact_block_found_and_used: a recovery file at ANY path with the prefix <index minus extension>. and the suffix
      .par2 and no separator after the prefix - any file of the index file's own directory with such a name (the paths
      are byte lists: spaces, glob metacharacters), but no file of a sub-directory - that contains a recovery packet
      of the set for the exponent e puts that block into slot e of the loaded table, and c_pusable counts every
      exponent for which some file has a block exactly once.
   No lift is false: the table is sized by the highest exponent, but that is a function of the SET of packets; the order
   in which blocks are loaded is not observable (parity_array_assoc_invariant).  What IS observable is spelled out in the
   hypotheses: recv_agree over ALL files (two files with different blocks for one exponent: the file listed later
   wins, Par2Reader2.RD3Example.rd3_conflict_across_files). *)
From Coq Require Import Lia ZifyN ZifyNat ZifyBool Permutation.
From Gopar Require Import Model.Base Model.GF16 Model.Matrix Model.RS16 Model.CRC Model.GoPath Model.FS Model.Par2
     Proofs.GoPathFacts Proofs.Par2Facts Proofs.Par2Create Proofs.Par2Layout Proofs.Par2Verify Proofs.Par2Clean
     Proofs.Par2Resync Proofs.Par2Ignore Proofs.Par2CreatePaths Proofs.Par2Reader2.
From Gopar Require Proofs.Par1Clean Proofs.Par2RepairComplete Proofs.Par2Converge.
Open Scope N_scope.
Set Default Timeout 120.

(** * the file map after a write *)

Lemma fs_lookup_set : forall f p d q,
  fs_lookup (fs_set f p d) q = if str_eqb p q then Some d else fs_lookup f q.
Proof.
  induction f as [|[k e] f IH]; intros p d q; cbn [fs_set fs_lookup]; [reflexivity|].
  destruct (str_eqb k p) eqn:Ekp.
  - apply str_eqb_eq in Ekp. subst k. cbn [fs_lookup]. destruct (str_eqb p q); reflexivity.
  - cbn [fs_lookup]. rewrite IH. destruct (str_eqb k q) eqn:Ekq; [|reflexivity].
    apply str_eqb_eq in Ekq. subst q. destruct (str_eqb p k) eqn:Epk; [|reflexivity].
    apply str_eqb_eq in Epk. subst p. rewrite str_eqb_refl in Ekp. discriminate Ekp.
Qed.

Lemma is_dir_set : forall f p d q,
  is_dir (fs_set f p d) q = is_dir f q || starts_with p (q ++ [SLASH]).
Proof.
  unfold is_dir. induction f as [|[k e] f IH]; intros p d q; cbn [fs_set existsb fst].
  - rewrite orb_false_r. reflexivity.
  - destruct (str_eqb k p) eqn:Ekp.
    + apply str_eqb_eq in Ekp. subst k. cbn [existsb fst].
      destruct (starts_with p (q ++ [SLASH])); [reflexivity|]. cbn [orb]. rewrite orb_false_r. reflexivity.
    + cbn [existsb fst]. rewrite IH. rewrite orb_assoc. reflexivity.
Qed.

(* a write of the same data to the same path keeps two file maps in agreement wherever they agreed *)
Lemma read_res_set_agree f1 f2 p d q :
  read_res f1 q = read_res f2 q -> read_res (fs_set f1 p d) q = read_res (fs_set f2 p d) q.
Proof.
  unfold read_res. rewrite !fs_lookup_set, !is_dir_set.
  destruct (str_eqb p q); [reflexivity|].
  destruct (fs_lookup f1 q) as [x1|], (fs_lookup f2 q) as [x2|]; try (intros H; exact H).
  - destruct (is_dir f2 q); discriminate.
  - destruct (is_dir f1 q); discriminate.
  - destruct (is_dir f1 q), (is_dir f2 q); try discriminate; intros _; reflexivity.
Qed.

Lemma in_rec_listing ix fs p : In p (rec_listing ix fs) <-> In p (map fst fs) /\ rec_pattern ix p = true.
Proof. unfold rec_listing. rewrite sort_paths_in, filter_In. reflexivity. Qed.

(* two lists of the same length that agree slot by slot *)
Lemma nth_fun_eq {A} (l1 l2 : list (option A)) :
  length l1 = length l2 -> (forall e, nth e l1 None = nth e l2 None) -> l1 = l2.
Proof. intros HL H. apply (nth_ext l1 l2 None None HL). intros n _. apply H. Qed.

(* a table built by parity_array is determined by the function exponent -> block it represents (its length is the
   highest exponent plus one, and the last slot is never empty) *)
Lemma parity_array_fun_eq (a1 a2 : list (N * bytes)) :
  (forall e, nth e (parity_array a1) None = nth e (parity_array a2) None) -> parity_array a1 = parity_array a2.
Proof.
  intros H. apply parity_array_assoc_invariant. intros e.
  rewrite <- !parity_array_nth_assoc. apply H.
Qed.

Definition outcome_rel {A} (R : A -> A -> Prop) (x y : outcome A) : Prop :=
  match x, y with
  | Ok a, Ok b => R a b
  | Err e, Err e' => e = e'
  | Panic q, Panic q' => q = q'
  | _, _ => False
  end.

Lemma outcome_rel_eq {A} (R : A -> A -> Prop) (x y : outcome A) :
  (forall a b, R a b -> a = b) -> outcome_rel R x y -> x = y.
Proof.
  intros HR. destruct x, y; cbn [outcome_rel]; intros H; try contradiction; try (subst; reflexivity).
  rewrite (HR _ _ H). reflexivity.
Qed.

Lemma outcome_rel_refl {A} (R : A -> A -> Prop) (x : outcome A) : (forall a, R a a) -> outcome_rel R x x.
Proof. intros HR. destruct x; cbn [outcome_rel]; [apply HR|reflexivity|reflexivity]. Qed.

Section LayoutOps.
  Variable md5 : bytes -> bytes.

  (** * what Verify and Repair look at in a loaded state *)

  (* same decoder record, same file integrity infos (flags and found slices), same checksum table, and the same
     recovery-block table as a function exponent -> block.  The LENGTH of the table is part of it: Repair sizes the
     coder by it (c_parity := length parity) and Verify counts its empty slots (c_punusable) *)
  Definition ds_equiv (a b : dstate) : Prop :=
    ds_dec a = ds_dec b /\ ds_fis a = ds_fis b /\ ds_tbl a = ds_tbl b /\
    length (ds_parity a) = length (ds_parity b) /\
    (forall e, nth e (ds_parity a) None = nth e (ds_parity b) None).

  Lemma ds_equiv_refl a : ds_equiv a a.
  Proof. repeat split; reflexivity. Qed.

  Theorem ds_equiv_eq a b : ds_equiv a b -> a = b.
  Proof.
    destruct a as [d1 f1 t1 p1], b as [d2 f2 t2 p2]. unfold ds_equiv. cbn [ds_dec ds_fis ds_tbl ds_parity].
    intros (-> & -> & -> & HL & HN). rewrite (nth_fun_eq p1 p2 HL HN). reflexivity.
  Qed.

  (* everything the operations compute from the loaded state is therefore the same *)
  Corollary ds_equiv_observations a b : ds_equiv a b ->
    shard_counts a = shard_counts b /\ files_ok a = files_ok b /\
    (forall dbl, repair_core a dbl = repair_core b dbl).
  Proof. intros H. rewrite (ds_equiv_eq a b H). repeat split; reflexivity. Qed.

  (** * load_all in two stages: everything before the directory listing, and the recovery files *)

  Definition load_front (ix : list N) (st : io) : outcome (decoder * list fint * cstable) * io :=
    if negb (str_eqb (ext ix) EXT_PAR2) then (Err EUsage, st)
    else
    match new_decoder md5 ix st with
    | (Ok d, st1) =>
        match win_new (Z.of_N (d_slice d)) with
        | Ok w =>
            let t := make_cstable (d_rec d) in
            let fis0 := map (fun info => {| fi_missing := false; fi_hashbad := false; fi_lenbad := false;
                                            fi_shards := map (fun _ => None) (di_pairs info) |}) (d_rec d) in
            match load_files md5 d w t (combine (seq 0 (length (d_rec d))) (d_rec d)) fis0 st1 with
            | (Ok fis, st2) => (Ok (d, fis, t), st2)
            | (Err e', st2) => (Err e', st2)
            | (Panic q, st2) => (Panic q, st2)
            end
        | Err e' => (Err e', st1)
        | Panic q => (Panic q, st1)
        end
    | (Err e', st1) => (Err e', st1)
    | (Panic q, st1) => (Panic q, st1)
    end.

  Definition load_back (ix : list N) (x : decoder * list fint * cstable) (st2 : io) : outcome dstate * io :=
    match io_list (strip_ext ix ++ [DOT]) (ext ix) st2 with
    | (Ok paths, st3) =>
        match load_parity md5 (fst (fst x)) paths [] st3 with
        | (Ok acc, st4) => (Ok {| ds_dec := fst (fst x); ds_fis := snd (fst x); ds_tbl := snd x;
                                  ds_parity := parity_array acc |}, st4)
        | (Err e', st4) => (Err e', st4)
        | (Panic q, st4) => (Panic q, st4)
        end
    | (Err e', st3) => (Err e', st3)
    | (Panic q, st3) => (Panic q, st3)
    end.

  Lemma load_all_split ix st :
    load_all md5 ix st =
      match load_front ix st with
      | (Ok x, st2) => load_back ix x st2
      | (Err e, st2) => (Err e, st2)
      | (Panic q, st2) => (Panic q, st2)
      end.
  Proof.
    unfold load_all, load_front, load_back.
    destruct (negb (str_eqb (ext ix) EXT_PAR2)); [reflexivity|].
    destruct (new_decoder md5 ix st) as [[d|e|q] st1]; try reflexivity.
    destruct (win_new (Z.of_N (d_slice d))) as [w|e|q]; try reflexivity.
    cbv zeta.
    destruct (load_files md5 d w (make_cstable (d_rec d)) (combine (seq 0 (length (d_rec d))) (d_rec d))
                (map (fun info => {| fi_missing := false; fi_hashbad := false; fi_lenbad := false;
                                     fi_shards := map (fun _ => None) (di_pairs info) |}) (d_rec d)) st1)
      as [[fis|e|q] st2]; try reflexivity.
  Qed.

  Lemma load_front_pres ix st : pres st (snd (load_front ix st)).
  Proof.
    unfold load_front.
    destruct (negb (str_eqb (ext ix) EXT_PAR2)); [cbn [snd]; apply pres_refl|].
    pose proof (new_decoder_pres md5 ix st) as P1.
    destruct (new_decoder md5 ix st) as [[d|e|q] st1]; cbn [snd] in *; try exact P1.
    destruct (win_new (Z.of_N (d_slice d))) as [w|e|q]; cbn [snd]; try exact P1.
    cbv zeta.
    lazymatch goal with |- pres _ (snd (match load_files md5 ?d ?w ?t ?todo ?fis ?s with _ => _ end)) =>
      pose proof (load_files_pres md5 d w t todo fis s) as P2;
      destruct (load_files md5 d w t todo fis s) as [[fis'|e|q] st2] end;
      cbn [snd] in *; eapply pres_trans; [exact P1|exact P2|exact P1|exact P2|exact P1|exact P2].
  Qed.

  (** * the reads of the first stage *)

  Lemma new_decoder_fst_agree ix st1 st2 : io_sched st1 = [] -> io_sched st2 = [] ->
    read_res (io_fs st1) ix = read_res (io_fs st2) ix ->
    fst (new_decoder md5 ix st1) = fst (new_decoder md5 ix st2).
  Proof.
    intros H1 H2 HR. unfold new_decoder.
    destruct (Par1Clean.io_read_nosched ix st1 H1) as (s1 & E1 & _).
    destruct (Par1Clean.io_read_nosched ix st2 H2) as (s2 & E2 & _).
    rewrite E1, E2, HR. destruct (read_res (io_fs st2) ix); reflexivity.
  Qed.

  Lemma load_files_fst_agree d w t : forall todo fis st1 st2, io_sched st1 = [] -> io_sched st2 = [] ->
    (forall i info, In (i, info) todo ->
       read_res (io_fs st1) (file_path (d_index d) (di_name info)) =
       read_res (io_fs st2) (file_path (d_index d) (di_name info))) ->
    fst (load_files md5 d w t todo fis st1) = fst (load_files md5 d w t todo fis st2).
  Proof.
    induction todo as [|[i info] r IH]; intros fis st1 st2 H1 H2 HR; [reflexivity|].
    cbn [load_files].
    destruct (Par1Clean.io_read_nosched (file_path (d_index d) (di_name info)) st1 H1) as (s1 & E1 & Hs1 & Hf1).
    destruct (Par1Clean.io_read_nosched (file_path (d_index d) (di_name info)) st2 H2) as (s2 & E2 & Hs2 & Hf2).
    rewrite E1, E2, (HR i info (or_introl eq_refl)).
    assert (HR' : forall i' info', In (i', info') r ->
              read_res (io_fs s1) (file_path (d_index d) (di_name info')) =
              read_res (io_fs s2) (file_path (d_index d) (di_name info'))).
    { intros i' info' Hin. rewrite Hf1, Hf2. apply (HR i' info'). right. exact Hin. }
    destruct (read_res (io_fs st2) (file_path (d_index d) (di_name info))) as [data|e|q].
    - apply IH; assumption.
    - destruct e; try reflexivity. apply IH; assumption.
    - reflexivity.
  Qed.

  (* the first stage depends on the index file and the protected files only *)
  Lemma load_front_fst_agree ix d st1 st2 : io_sched st1 = [] -> io_sched st2 = [] ->
    fst (new_decoder md5 ix st1) = Ok d -> fst (new_decoder md5 ix st2) = Ok d ->
    (forall info, In info (d_rec d) ->
       read_res (io_fs st1) (file_path ix (di_name info)) = read_res (io_fs st2) (file_path ix (di_name info))) ->
    fst (load_front ix st1) = fst (load_front ix st2).
  Proof.
    intros H1 H2 D1 D2 HR. unfold load_front.
    destruct (negb (str_eqb (ext ix) EXT_PAR2)); [reflexivity|].
    destruct (new_decoder_pres md5 ix st1) as (F1 & S1 & _).
    destruct (new_decoder_pres md5 ix st2) as (F2 & S2 & _).
    destruct (new_decoder md5 ix st1) as [r1 s1] eqn:E1. destruct (new_decoder md5 ix st2) as [r2 s2] eqn:E2.
    cbn [fst snd] in *. subst r1 r2.
    destruct (new_decoder_ok md5 ix st1 d s1 E1) as (Eix & _).
    destruct (win_new (Z.of_N (d_slice d))) as [w|e|q]; try reflexivity.
    cbv zeta.
    lazymatch goal with |- fst (match load_files md5 ?d ?w ?t ?todo ?fis s1 with _ => _ end) = _ =>
      pose proof (load_files_fst_agree d w t todo fis s1 s2) as A end.
    rewrite Eix, F1, F2, S1, S2 in A. specialize (A H1 H2).
    assert (A' := A (fun i info Hin => HR info (in_combine_r _ _ _ _ Hin))). clear A.
    lazymatch goal with |- fst (match ?x with _ => _ end) = fst (match ?y with _ => _ end) =>
      destruct x as [[fis1|e1|q1] t1]; destruct y as [[fis2|e2|q2] t2] end;
      cbn [fst] in *; try discriminate A'; congruence.
  Qed.

  (** * the second stage: the recovery files *)
  Hypothesis md5_len : forall x, length (md5 x) = 16%nat.

  (* LoadParityData on two sets of recovery files that hold the same blocks of the set *)
  Lemma load_parity_same_blocks d paths1 ls1 st1 paths2 ls2 st2 :
    io_sched st1 = [] -> io_sched st2 = [] ->
    Forall2 (fun p l => read_res (io_fs st1) p = Ok (frames md5 l)) paths1 ls1 ->
    Forall2 (fun p l => read_res (io_fs st2) p = Ok (frames md5 l)) paths2 ls2 ->
    (forall q, In q (concat ls1) -> pkt_ok md5 d q) -> (forall q, In q (concat ls2) -> pkt_ok md5 d q) ->
    recv_agree (d_setid d) (concat ls1) -> recv_agree (d_setid d) (concat ls2) ->
    (forall e dd, has_block (d_setid d) ls1 e dd <-> has_block (d_setid d) ls2 e dd) ->
    exists acc1 st1' acc2 st2',
      load_parity md5 d paths1 [] st1 = (Ok acc1, st1') /\
      load_parity md5 d paths2 [] st2 = (Ok acc2, st2') /\
      parity_array acc1 = parity_array acc2.
  Proof.
    intros Hs1 Hs2 HR1 HR2 Hok1 Hok2 Hag1 Hag2 Hb.
    destruct (blocks_spread_over_files md5 md5_len d paths1 ls1 st1 Hs1 HR1) as (acc1 & st1' & E1 & _ & A1 & _).
    { intros l q Hl Hq. apply Hok1. apply in_concat. exists l. split; assumption. }
    { exact Hag1. }
    destruct (blocks_spread_over_files md5 md5_len d paths2 ls2 st2 Hs2 HR2) as (acc2 & st2' & E2 & _ & A2 & _).
    { intros l q Hl Hq. apply Hok2. apply in_concat. exists l. split; assumption. }
    { exact Hag2. }
    exists acc1, st1', acc2, st2'. split; [exact E1|]. split; [exact E2|].
    apply parity_array_assoc_invariant. intros e. apply option_ext. intros dd.
    rewrite A1, A2. apply Hb.
  Qed.

  (** * L1 *)

  (* the two layouts: both index files decode to d; every protected path reads the same; the listed recovery files
     are well-formed packet sequences (ls1, ls2: one packet list per listed path) that LoadParityData accepts, with
     the same packets OF THE SET in total, and one block per exponent *)
  Definition same_packet_layouts (ix : list N) (d : decoder)
             (fs1 : list (list N * bytes)) (ls1 : list (list apkt))
             (fs2 : list (list N * bytes)) (ls2 : list (list apkt)) : Prop :=
    fst (new_decoder md5 ix (io_init fs1 [])) = Ok d /\
    fst (new_decoder md5 ix (io_init fs2 [])) = Ok d /\
    (forall info, In info (d_rec d) ->
       read_res fs1 (file_path ix (di_name info)) = read_res fs2 (file_path ix (di_name info))) /\
    Forall2 (fun p l => read_res fs1 p = Ok (frames md5 l)) (rec_listing ix fs1) ls1 /\
    Forall2 (fun p l => read_res fs2 p = Ok (frames md5 l)) (rec_listing ix fs2) ls2 /\
    (forall q, In q (concat ls1) \/ In q (concat ls2) -> pkt_ok md5 d q) /\
    (forall q, pk_set q = d_setid d -> (In q (concat ls1) <-> In q (concat ls2))) /\
    recv_agree (d_setid d) (concat ls1).

  Lemma own_same_has_block sid ls1 ls2 :
    (forall q, pk_set q = sid -> (In q (concat ls1) <-> In q (concat ls2))) ->
    forall e dd, has_block sid ls1 e dd <-> has_block sid ls2 e dd.
  Proof.
    intros Hm e dd. rewrite !has_block_concat. unfold own_in.
    split; intros (q & Hin & Hs & Hr); exists q; (split; [apply (Hm q Hs); exact Hin|split; assumption]).
  Qed.

  Lemma own_same_recv_agree sid l1 l2 :
    (forall q, pk_set q = sid -> (In q l1 <-> In q l2)) -> recv_agree sid l1 -> recv_agree sid l2.
  Proof.
    intros Hm Ha q1 q2 e d1 d2 I1 I2 S1 S2. apply Ha; try assumption; [apply (Hm q1 S1)|apply (Hm q2 S2)]; assumption.
  Qed.

  Theorem load_all_layout_invariant ix d fs1 ls1 fs2 ls2 :
    same_packet_layouts ix d fs1 ls1 fs2 ls2 ->
    outcome_rel ds_equiv (fst (load_all md5 ix (io_init fs1 []))) (fst (load_all md5 ix (io_init fs2 []))).
  Proof.
    intros (D1 & D2 & HP & HR1 & HR2 & Hok & Hm & Hag).
    rewrite !load_all_split.
    pose proof (load_front_fst_agree ix d (io_init fs1 []) (io_init fs2 []) eq_refl eq_refl D1 D2 HP) as EF.
    destruct (load_front_pres ix (io_init fs1 [])) as (F1 & S1 & _).
    destruct (load_front_pres ix (io_init fs2 [])) as (F2 & S2 & _).
    (* the decoder of a successful first stage is d *)
    assert (Hd : forall x, fst (load_front ix (io_init fs1 [])) = Ok x -> fst (fst x) = d).
    { intros x. unfold load_front.
      destruct (negb (str_eqb (ext ix) EXT_PAR2)); [discriminate|].
      destruct (new_decoder md5 ix (io_init fs1 [])) as [r1 s1]. cbn [fst] in D1. subst r1.
      destruct (win_new (Z.of_N (d_slice d))) as [w|e|q]; try discriminate. cbv zeta.
      lazymatch goal with |- fst (match ?y with _ => _ end) = _ -> _ => destruct y as [[fis|e|q] t] end;
        try discriminate. cbn [fst]. intros H. injection H as <-. reflexivity. }
    destruct (load_front ix (io_init fs1 [])) as [r1 s1]. destruct (load_front ix (io_init fs2 [])) as [r2 s2].
    cbn [fst snd io_init io_fs io_sched] in *. subst r2.
    destruct r1 as [x|e|q]; [|reflexivity|reflexivity].
    specialize (Hd x eq_refl). destruct x as [[d' fis] t]. cbn [fst] in Hd. subst d'.
    unfold load_back. cbn [fst snd].
    destruct (io_list_nosched ix s1 S1) as (s1' & L1 & S1' & F1').
    destruct (io_list_nosched ix s2 S2) as (s2' & L2 & S2' & F2').
    rewrite L1, L2, F1, F2.
    destruct (load_parity_same_blocks d (rec_listing ix fs1) ls1 s1' (rec_listing ix fs2) ls2 s2')
      as (acc1 & t1 & acc2 & t2 & E1 & E2 & EP); try assumption.
    - rewrite F1', F1. exact HR1.
    - rewrite F2', F2. exact HR2.
    - intros q Hq. apply Hok. left. exact Hq.
    - intros q Hq. apply Hok. right. exact Hq.
    - exact (own_same_recv_agree _ _ _ Hm Hag).
    - exact (own_same_has_block _ _ _ Hm).
    - rewrite E1, E2. cbn [fst outcome_rel]. unfold ds_equiv. cbn [ds_dec ds_fis ds_tbl ds_parity].
      rewrite EP. repeat split; reflexivity.
  Qed.

  Corollary load_all_layout_invariant_eq ix d fs1 ls1 fs2 ls2 :
    same_packet_layouts ix d fs1 ls1 fs2 ls2 ->
    fst (load_all md5 ix (io_init fs1 [])) = fst (load_all md5 ix (io_init fs2 [])).
  Proof.
    intros H. apply (outcome_rel_eq ds_equiv); [exact ds_equiv_eq|].
    exact (load_all_layout_invariant ix d fs1 ls1 fs2 ls2 H).
  Qed.

  (** ** the two ways to have the same decoder *)

  (* (a) the same index bytes (more generally: the index path reads the same) *)
  Lemma same_index_same_decoder ix fs1 fs2 : read_res fs1 ix = read_res fs2 ix ->
    fst (new_decoder md5 ix (io_init fs1 [])) = fst (new_decoder md5 ix (io_init fs2 [])).
  Proof. intros H. apply new_decoder_fst_agree; [reflexivity|reflexivity|exact H]. Qed.

  (* (b) index files made of the same set of packets: another order, duplicates *)
  Definition decode_pf (ix : list N) (sid : bytes) (f : pfile) : outcome decoder :=
    match pf_main f with
    | None => Err EMalformed
    | Some m =>
        match pf_recv f with
        | _ :: _ => Err EMalformed
        | [] =>
            do rs <- make_infos (mp_slice m) (mp_rec m) f;
            do nrs <- make_infos (mp_slice m) (mp_nonrec m) f;
            Ok {| d_index := ix; d_setid := sid; d_slice := mp_slice m; d_rec := rs; d_nonrec := nrs |}
        end
    end.

  Lemma new_decoder_decode ix st : io_sched st = [] ->
    fst (new_decoder md5 ix st) =
      match read_res (io_fs st) ix with
      | Ok b => match read_file md5 None b with RFOk sid f => decode_pf ix sid f | _ => Err EMalformed end
      | Err e => Err e
      | Panic q => Panic q
      end.
  Proof.
    intros Hs. unfold new_decoder. destruct (Par1Clean.io_read_nosched ix st Hs) as (s1 & E1 & _). rewrite E1.
    destruct (read_res (io_fs st) ix) as [b|e|q]; reflexivity.
  Qed.

  Lemma omap_ext_all {A B} (f g : A -> outcome B) : forall l, (forall x, f x = g x) -> omap f l = omap g l.
  Proof. intros l H. induction l as [|x l IH]; cbn [omap]; [reflexivity|]. rewrite H, IH. reflexivity. Qed.

  Lemma make_infos_equiv S ids f g : pf_equiv f g -> make_infos S ids f = make_infos S ids g.
  Proof.
    intros (_ & _ & Hfd & Hif & _). unfold make_infos. apply omap_ext_all. intros id. rewrite Hfd, Hif. reflexivity.
  Qed.

  Lemma decode_pf_equiv ix sid f g : pf_equiv f g -> decode_pf ix sid f = decode_pf ix sid g.
  Proof.
    intros Heq. pose proof Heq as (_ & Hm & _ & _ & Hr). unfold decode_pf. rewrite <- Hm.
    destruct (pf_main f) as [m|]; [|reflexivity].
    rewrite <- !(make_infos_equiv _ _ f g Heq).
    destruct (pf_recv f) as [|[e1 x1] r1], (pf_recv g) as [|[e2 x2] r2]; try reflexivity.
    - specialize (Hr e2). cbn [assoc_n] in Hr. rewrite N.eqb_refl in Hr. discriminate Hr.
    - specialize (Hr e1). cbn [assoc_n] in Hr. rewrite N.eqb_refl in Hr. discriminate Hr.
  Qed.

  Lemma read_file_index_sid p l s f : Forall wf_pkt (p :: l) ->
    read_file md5 None (frames md5 (p :: l)) = RFOk s f -> s = pk_set p.
  Proof.
    intros W H. rewrite (read_file_index md5 md5_len p l (Forall_inv W)) in H.
    rewrite (read_file_run md5 md5_len (pk_set p) (p :: l) W) in H. unfold finish in H.
    destruct (run md5 (pk_set p) (p :: l)) as [[g fd]|]; [|discriminate H].
    destruct fd; [|discriminate H]. destruct (pf_client g); [|discriminate H].
    injection H as <- _. reflexivity.
  Qed.

  Theorem permuted_index_same_decoder ix fs1 fs2 sid p1 l1 p2 l2 :
    Forall wf_pkt (p1 :: l1) -> Forall wf_pkt (p2 :: l2) -> pk_set p1 = sid -> pk_set p2 = sid ->
    (forall p, In p (p1 :: l1) <-> In p (p2 :: l2)) -> consistent sid (p1 :: l1) ->
    read_res fs1 ix = Ok (frames md5 (p1 :: l1)) -> read_res fs2 ix = Ok (frames md5 (p2 :: l2)) ->
    fst (new_decoder md5 ix (io_init fs1 [])) = fst (new_decoder md5 ix (io_init fs2 [])).
  Proof.
    intros W1 W2 S1 S2 Hm Hc R1 R2.
    rewrite !new_decoder_decode by reflexivity. cbn [io_init io_fs]. rewrite R1, R2.
    assert (Hm' : forall p, In p (p2 :: l2) <-> In p (p1 :: l1)) by (intros p; symmetry; apply Hm).
    pose proof (consistent_ext sid _ _ Hm Hc) as Hc2.
    destruct (read_file md5 None (frames md5 (p1 :: l1))) as [| |s1 f1] eqn:E1.
    - destruct (read_file md5 None (frames md5 (p2 :: l2))) as [| |s2 f2] eqn:E2; try reflexivity.
      exfalso. pose proof (read_file_index_sid p2 l2 s2 f2 W2 E2) as Es. rewrite S2 in Es. subst s2.
      destruct (layout_invariant_index md5 md5_len sid l2 l1 p2 p1 f2 W2 W1 S2 S1 Hm' Hc2 E2) as (f1 & E & _).
      rewrite E in E1. discriminate E1.
    - destruct (read_file md5 None (frames md5 (p2 :: l2))) as [| |s2 f2] eqn:E2; try reflexivity.
      exfalso. pose proof (read_file_index_sid p2 l2 s2 f2 W2 E2) as Es. rewrite S2 in Es. subst s2.
      destruct (layout_invariant_index md5 md5_len sid l2 l1 p2 p1 f2 W2 W1 S2 S1 Hm' Hc2 E2) as (f1 & E & _).
      rewrite E in E1. discriminate E1.
    - pose proof (read_file_index_sid p1 l1 s1 f1 W1 E1) as Es. rewrite S1 in Es. subst s1.
      destruct (layout_invariant_index md5 md5_len sid l1 l2 p1 p2 f1 W1 W2 S1 S2 Hm Hc E1) as (f2 & E & Heq).
      rewrite E. apply decode_pf_equiv. exact Heq.
  Qed.

  (* L1 with the hypothesis on the index spelled out in the two ways *)
  Corollary same_packet_layouts_same_index ix d fs1 ls1 fs2 ls2 :
    read_res fs1 ix = read_res fs2 ix ->
    fst (new_decoder md5 ix (io_init fs1 [])) = Ok d ->
    (forall info, In info (d_rec d) ->
       read_res fs1 (file_path ix (di_name info)) = read_res fs2 (file_path ix (di_name info))) ->
    Forall2 (fun p l => read_res fs1 p = Ok (frames md5 l)) (rec_listing ix fs1) ls1 ->
    Forall2 (fun p l => read_res fs2 p = Ok (frames md5 l)) (rec_listing ix fs2) ls2 ->
    (forall q, In q (concat ls1) \/ In q (concat ls2) -> pkt_ok md5 d q) ->
    (forall q, pk_set q = d_setid d -> (In q (concat ls1) <-> In q (concat ls2))) ->
    recv_agree (d_setid d) (concat ls1) ->
    same_packet_layouts ix d fs1 ls1 fs2 ls2.
  Proof.
    intros HI D1. intros. unfold same_packet_layouts.
    split; [exact D1|]. split; [rewrite <- (same_index_same_decoder ix fs1 fs2 HI); exact D1|].
    repeat (split; [assumption|]). assumption.
  Qed.

  Corollary same_packet_layouts_permuted_index ix d fs1 ls1 fs2 ls2 p1 l1 p2 l2 :
    Forall wf_pkt (p1 :: l1) -> Forall wf_pkt (p2 :: l2) -> pk_set p1 = d_setid d -> pk_set p2 = d_setid d ->
    (forall p, In p (p1 :: l1) <-> In p (p2 :: l2)) -> consistent (d_setid d) (p1 :: l1) ->
    read_res fs1 ix = Ok (frames md5 (p1 :: l1)) -> read_res fs2 ix = Ok (frames md5 (p2 :: l2)) ->
    fst (new_decoder md5 ix (io_init fs1 [])) = Ok d ->
    (forall info, In info (d_rec d) ->
       read_res fs1 (file_path ix (di_name info)) = read_res fs2 (file_path ix (di_name info))) ->
    Forall2 (fun p l => read_res fs1 p = Ok (frames md5 l)) (rec_listing ix fs1) ls1 ->
    Forall2 (fun p l => read_res fs2 p = Ok (frames md5 l)) (rec_listing ix fs2) ls2 ->
    (forall q, In q (concat ls1) \/ In q (concat ls2) -> pkt_ok md5 d q) ->
    (forall q, pk_set q = d_setid d -> (In q (concat ls1) <-> In q (concat ls2))) ->
    recv_agree (d_setid d) (concat ls1) ->
    same_packet_layouts ix d fs1 ls1 fs2 ls2.
  Proof.
    intros W1 W2 S1 S2 Hm Hc R1 R2 D1. intros. unfold same_packet_layouts.
    split; [exact D1|].
    split; [rewrite <- (permuted_index_same_decoder ix fs1 fs2 (d_setid d) p1 l1 p2 l2 W1 W2 S1 S2 Hm Hc R1 R2); exact D1|].
    repeat (split; [assumption|]). assumption.
  Qed.

  (* and when the index does not decode, the recovery files are never looked at *)
  Lemma load_all_index_failure ix fs1 fs2 :
    fst (new_decoder md5 ix (io_init fs1 [])) = fst (new_decoder md5 ix (io_init fs2 [])) ->
    (forall d, fst (new_decoder md5 ix (io_init fs1 [])) <> Ok d) ->
    fst (load_all md5 ix (io_init fs1 [])) = fst (load_all md5 ix (io_init fs2 [])).
  Proof.
    intros E HN. unfold load_all.
    destruct (negb (str_eqb (ext ix) EXT_PAR2)); [reflexivity|].
    destruct (new_decoder md5 ix (io_init fs1 [])) as [r1 s1]. destruct (new_decoder md5 ix (io_init fs2 [])) as [r2 s2].
    cbn [fst] in *. subst r2. destruct r1 as [d|e|q]; [exfalso; exact (HN d eq_refl)|reflexivity|reflexivity].
  Qed.

  (** * L2: Verify *)

  Theorem verify_layout_invariant ix d fs1 ls1 fs2 ls2 :
    same_packet_layouts ix d fs1 ls1 fs2 ls2 ->
    fst (par2_verify md5 ix (io_init fs1 [])) = fst (par2_verify md5 ix (io_init fs2 [])).
  Proof.
    intros H. pose proof (load_all_layout_invariant_eq ix d fs1 ls1 fs2 ls2 H) as E.
    unfold par2_verify.
    destruct (load_all md5 ix (io_init fs1 [])) as [r1 s1]. destruct (load_all md5 ix (io_init fs2 [])) as [r2 s2].
    cbn [fst] in E. subst r2. destruct r1; reflexivity.
  Qed.

  (** * L3: Repair *)

  (* the write-out phase on two fault-free states: the same outcome and repaired paths, and the same writes *)
  Lemma write_repaired_agree ix : forall todo done st1 st2, io_sched st1 = [] -> io_sched st2 = [] ->
    fst (write_repaired md5 ix todo done st1) = fst (write_repaired md5 ix todo done st2) /\
    (forall q, read_res (io_fs st1) q = read_res (io_fs st2) q ->
       read_res (io_fs (snd (write_repaired md5 ix todo done st1))) q =
       read_res (io_fs (snd (write_repaired md5 ix todo done st2))) q).
  Proof.
    induction todo as [|[ok [info shards]] r IH]; intros done st1 st2 H1 H2.
    - cbn [write_repaired fst snd]. split; [reflexivity|]. intros q H. exact H.
    - destruct ok; cbn [write_repaired]; [apply IH; assumption|]. cbv zeta.
      destruct (N.of_nat (length (concat shards)) <? di_len info);
        [cbn [fst snd]; split; [reflexivity|intros q H; exact H]|].
      destruct (negb (bytes_eqb (hash16k md5 (firstn (N.to_nat (di_len info)) (concat shards))) (di_h16 info)));
        [cbn [fst snd]; split; [reflexivity|intros q H; exact H]|].
      destruct (negb (bytes_eqb (md5 (firstn (N.to_nat (di_len info)) (concat shards))) (di_hash info)));
        [cbn [fst snd]; split; [reflexivity|intros q H; exact H]|].
      rewrite (io_write_nosched _ _ st1 H1), (io_write_nosched _ _ st2 H2).
      lazymatch goal with |- context [write_repaired md5 ix r ?dn (tick st1 ?ev ?f1)] =>
        destruct (IH dn (tick st1 ev f1) (tick st2 ev (fs_set (io_fs st2) (file_path ix (di_name info))
                                                      (firstn (N.to_nat (di_len info)) (concat shards)))))
          as (IHa & IHb) end; [exact H1|exact H2|].
      split; [exact IHa|]. intros q H. apply IHb. cbn [tick io_fs]. apply read_res_set_agree. exact H.
  Qed.

  Theorem repair_layout_invariant ix d fs1 ls1 fs2 ls2 dbl :
    same_packet_layouts ix d fs1 ls1 fs2 ls2 ->
    let r1 := par2_repair md5 ix dbl (io_init fs1 []) in
    let r2 := par2_repair md5 ix dbl (io_init fs2 []) in
    fst r1 = fst r2 /\
    (forall q, read_res fs1 q = read_res fs2 q -> read_res (io_fs (snd r1)) q = read_res (io_fs (snd r2)) q).
  Proof.
    intros H. cbv zeta. pose proof (load_all_layout_invariant_eq ix d fs1 ls1 fs2 ls2 H) as E.
    unfold par2_repair.
    destruct (load_all_pres md5 ix (io_init fs1 [])) as (F1 & S1 & _).
    destruct (load_all_pres md5 ix (io_init fs2 [])) as (F2 & S2 & _).
    destruct (load_all md5 ix (io_init fs1 [])) as [r1 s1]. destruct (load_all md5 ix (io_init fs2 [])) as [r2 s2].
    cbn [fst snd io_init io_fs io_sched] in *. subst r2.
    assert (Triv : forall q, read_res fs1 q = read_res fs2 q -> read_res (io_fs s1) q = read_res (io_fs s2) q).
    { intros q Hq. rewrite F1, F2. exact Hq. }
    destruct r1 as [ds|e|q]; [|split; [reflexivity|exact Triv]|split; [reflexivity|exact Triv]].
    destruct (ds_fis ds) as [|fi0 fis]; [split; [reflexivity|exact Triv]|].
    destruct (repair_core ds dbl) as [data|e|q]; [|split; [reflexivity|exact Triv]|split; [reflexivity|exact Triv]].
    lazymatch goal with |- fst (write_repaired md5 ix ?todo [] s1) = _ /\ _ =>
      destruct (write_repaired_agree ix todo [] s1 s2 S1 S2) as (A & B) end.
    split; [exact A|]. intros q Hq. apply B. apply Triv. exact Hq.
  Qed.

  (* in particular: the same content at every protected path afterwards *)
  Corollary repair_layout_invariant_protected ix d fs1 ls1 fs2 ls2 dbl :
    same_packet_layouts ix d fs1 ls1 fs2 ls2 ->
    forall info, In info (d_rec d) ->
      read_res (io_fs (snd (par2_repair md5 ix dbl (io_init fs1 [])))) (file_path ix (di_name info)) =
      read_res (io_fs (snd (par2_repair md5 ix dbl (io_init fs2 [])))) (file_path ix (di_name info)).
  Proof.
    intros H info Hin. apply (proj2 (repair_layout_invariant ix d fs1 ls1 fs2 ls2 dbl H)).
    destruct H as (_ & _ & HP & _). exact (HP info Hin).
  Qed.

  (** * L4: every intact recovery block beside the index file is found and used *)

  Lemma Forall2_map_fun {A B} (R : A -> B -> Prop) (f : A -> B) : forall l,
    (forall x, In x l -> R x (f x)) -> Forall2 R l (map f l).
  Proof.
    induction l as [|x l IH]; intros H; cbn [map]; constructor.
    - apply H. left. reflexivity.
    - apply IH. intros y Hy. apply H. right. exact Hy.
  Qed.

  (* content p: the packets of the recovery file at p.  The first stage (index, protected files) succeeded with the
     decoder d.  p is ANY key of the file map with the prefix and the suffix. *)
  Theorem intact_block_found_and_used ix fs d fis t (content : list N -> list apkt) p q e dd :
    fst (load_front ix (io_init fs [])) = Ok (d, fis, t) ->
    (forall p', In p' (rec_listing ix fs) -> read_res fs p' = Ok (frames md5 (content p'))) ->
    (forall p' q', In p' (rec_listing ix fs) -> In q' (content p') -> pkt_ok md5 d q') ->
    recv_agree (d_setid d) (concat (map content (rec_listing ix fs))) ->
    In p (map fst fs) -> rec_pattern ix p = true ->
    In q (content p) -> pk_set q = d_setid d -> is_recv e dd q ->
    exists ds st',
      load_all md5 ix (io_init fs []) = (Ok ds, st') /\ ds_dec ds = d /\ ds_fis ds = fis /\
      nth (N.to_nat e) (ds_parity ds) None = Some dd /\
      (1 <= c_pusable (shard_counts ds))%nat /\
      (forall es, NoDup es ->
         (forall e', In e' es <-> exists dd', has_block (d_setid d) (map content (rec_listing ix fs)) e' dd') ->
         c_pusable (shard_counts ds) = length es).
  Proof.
    intros HF HC Hok Hag Hp1 Hp2 Hq Hs Hr.
    rewrite load_all_split.
    destruct (load_front_pres ix (io_init fs [])) as (F & S & _).
    destruct (load_front ix (io_init fs [])) as [r s2]. cbn [fst snd io_init io_fs io_sched] in *. subst r.
    unfold load_back. cbn [fst snd].
    destruct (io_list_nosched ix s2 S) as (s3 & L & S3 & F3). rewrite L, F.
    destruct (blocks_spread_over_files md5 md5_len d (rec_listing ix fs) (map content (rec_listing ix fs)) s3 S3)
      as (acc & st' & E & _ & A & HS & _).
    { rewrite F3, F. apply Forall2_map_fun. exact HC. }
    { intros l q' Hl Hq'. apply in_map_iff in Hl. destruct Hl as (p' & <- & Hp'). exact (Hok p' q' Hp' Hq'). }
    { exact Hag. }
    rewrite E. eexists. eexists. split; [reflexivity|]. cbn [ds_dec ds_fis ds_parity].
    split; [reflexivity|]. split; [reflexivity|].
    assert (Hb : has_block (d_setid d) (map content (rec_listing ix fs)) e dd).
    { exists (content p), q. split; [|split; [exact Hq|split; [exact Hs|exact Hr]]].
      apply in_map. apply in_rec_listing. split; assumption. }
    split; [apply HS; exact Hb|].
    unfold shard_counts. cbn [c_pusable ds_parity]. rewrite parity_count_distinct.
    assert (Hin : forall e', In e' (nodup N.eq_dec (map fst acc)) <->
                             exists dd', has_block (d_setid d) (map content (rec_listing ix fs)) e' dd').
    { intros e'. rewrite nodup_In. split.
      - intros Hk. apply assoc_n_some_iff in Hk. destruct (assoc_n acc e') as [dd'|] eqn:EA; [|discriminate Hk].
        exists dd'. apply A. exact EA.
      - intros (dd' & Hb'). apply A in Hb'. apply assoc_n_in in Hb'.
        apply in_map_iff. exists (e', dd'). split; [reflexivity|exact Hb']. }
    split.
    - assert (Hine : In e (nodup N.eq_dec (map fst acc))) by (apply Hin; exists dd; exact Hb).
      destruct (nodup N.eq_dec (map fst acc)); [destruct Hine|cbn [length]; lia].
    - intros es Hnd Hes. apply Permutation_length. apply NoDup_Permutation; [apply NoDup_nodup|exact Hnd|].
      intros e'. rewrite Hin, Hes. reflexivity.
  Qed.

  (** * L5: a file that the discovery pattern does not list - in particular EVERY file below a sub-directory beside the
      set, whatever the sub-directory and the file are called ("<base>.x.par2/y", "<base>.sub/x.par2") - is invisible
      to Verify and Repair: creating it or changing it changes nothing *)

  Lemma read_res_set_other f q b p :
    p <> q -> (fs_lookup f p <> None \/ starts_with q (p ++ [SLASH]) = false) ->
    read_res (fs_set f q b) p = read_res f p.
  Proof.
    intros Hne H. unfold read_res. rewrite fs_lookup_set, is_dir_set.
    destruct (str_eqb q p) eqn:E; [apply str_eqb_eq in E; congruence|].
    destruct (fs_lookup f p) as [x|]; [reflexivity|].
    destruct H as [H|H]; [congruence|]. rewrite H, orb_false_r. reflexivity.
  Qed.

  (* q is any path that is not listed, is not the index file or a protected file, and does not turn one of these
     into a directory; b is any content; q may or may not exist before *)
  Theorem load_all_ignores_unlisted_file ix q b fs :
    rec_pattern ix q = false ->
    q <> ix -> starts_with q (ix ++ [SLASH]) = false ->
    (forall d st1, new_decoder md5 ix (io_init fs []) = (Ok d, st1) -> forall info, In info (d_rec d) ->
       file_path ix (di_name info) <> q /\ starts_with q (file_path ix (di_name info) ++ [SLASH]) = false) ->
    fst (load_all md5 ix (io_init (fs_set fs q b) [])) = fst (load_all md5 ix (io_init fs [])).
  Proof.
    intros Hpat Hix Hixd Hprot. apply load_all_frame.
    - apply read_res_set_other; [congruence|right; exact Hixd].
    - intros d st1 ND info Hin. destruct (Hprot d st1 ND info Hin) as [Hne Hd].
      apply read_res_set_other; [exact Hne|right; exact Hd].
    - unfold rec_listing. rewrite (Par2Converge.fs_set_filter_keys (rec_pattern ix) fs q b Hpat). reflexivity.
    - intros p Hp. apply in_rec_listing in Hp. destruct Hp as [Hk Hp].
      apply read_res_set_other.
      + intros ->. rewrite Hp in Hpat. discriminate Hpat.
      + left. apply fs_lookup_in. exact Hk.
  Qed.

  (* Verify and Repair are functions of the loaded state: equal loads give equal results *)
  Lemma verify_of_same_load ix fs1 fs2 :
    fst (load_all md5 ix (io_init fs1 [])) = fst (load_all md5 ix (io_init fs2 [])) ->
    fst (par2_verify md5 ix (io_init fs1 [])) = fst (par2_verify md5 ix (io_init fs2 [])).
  Proof.
    intros E. unfold par2_verify.
    destruct (load_all md5 ix (io_init fs1 [])) as [r1 s1]. destruct (load_all md5 ix (io_init fs2 [])) as [r2 s2].
    cbn [fst] in E. subst r2. destruct r1; reflexivity.
  Qed.

  Lemma repair_of_same_load ix fs1 fs2 dbl :
    fst (load_all md5 ix (io_init fs1 [])) = fst (load_all md5 ix (io_init fs2 [])) ->
    let r1 := par2_repair md5 ix dbl (io_init fs1 []) in
    let r2 := par2_repair md5 ix dbl (io_init fs2 []) in
    fst r1 = fst r2 /\
    (forall q, read_res fs1 q = read_res fs2 q -> read_res (io_fs (snd r1)) q = read_res (io_fs (snd r2)) q).
  Proof.
    intros E. cbv zeta. unfold par2_repair.
    destruct (load_all_pres md5 ix (io_init fs1 [])) as (F1 & S1 & _).
    destruct (load_all_pres md5 ix (io_init fs2 [])) as (F2 & S2 & _).
    destruct (load_all md5 ix (io_init fs1 [])) as [r1 s1]. destruct (load_all md5 ix (io_init fs2 [])) as [r2 s2].
    cbn [fst snd io_init io_fs io_sched] in *. subst r2.
    assert (Triv : forall q, read_res fs1 q = read_res fs2 q -> read_res (io_fs s1) q = read_res (io_fs s2) q).
    { intros q Hq. rewrite F1, F2. exact Hq. }
    destruct r1 as [ds|e|q]; [|split; [reflexivity|exact Triv]|split; [reflexivity|exact Triv]].
    destruct (ds_fis ds) as [|fi0 fis]; [split; [reflexivity|exact Triv]|].
    destruct (repair_core ds dbl) as [data|e|q]; [|split; [reflexivity|exact Triv]|split; [reflexivity|exact Triv]].
    lazymatch goal with |- fst (write_repaired md5 ix ?todo [] s1) = _ /\ _ =>
      destruct (write_repaired_agree ix todo [] s1 s2 S1 S2) as (A & B) end.
    split; [exact A|]. intros q Hq. apply B. apply Triv. exact Hq.
  Qed.

  Theorem verify_ignores_unlisted_file ix q b fs :
    rec_pattern ix q = false ->
    q <> ix -> starts_with q (ix ++ [SLASH]) = false ->
    (forall d st1, new_decoder md5 ix (io_init fs []) = (Ok d, st1) -> forall info, In info (d_rec d) ->
       file_path ix (di_name info) <> q /\ starts_with q (file_path ix (di_name info) ++ [SLASH]) = false) ->
    fst (par2_verify md5 ix (io_init (fs_set fs q b) [])) = fst (par2_verify md5 ix (io_init fs [])).
  Proof.
    intros Hpat Hix Hixd Hprot. apply verify_of_same_load.
    exact (load_all_ignores_unlisted_file ix q b fs Hpat Hix Hixd Hprot).
  Qed.

  (* Repair: the same outcome and the same list of repaired paths; the file q itself is still there afterwards, and
     every path reads afterwards as it does after the run without q *)
  Theorem repair_ignores_unlisted_file ix q b fs dbl :
    rec_pattern ix q = false ->
    q <> ix -> starts_with q (ix ++ [SLASH]) = false ->
    (forall d st1, new_decoder md5 ix (io_init fs []) = (Ok d, st1) -> forall info, In info (d_rec d) ->
       file_path ix (di_name info) <> q /\ starts_with q (file_path ix (di_name info) ++ [SLASH]) = false) ->
    let r' := par2_repair md5 ix dbl (io_init (fs_set fs q b) []) in
    let r := par2_repair md5 ix dbl (io_init fs []) in
    fst r' = fst r /\
    (forall p, read_res (fs_set fs q b) p = read_res fs p -> read_res (io_fs (snd r')) p = read_res (io_fs (snd r)) p).
  Proof.
    intros Hpat Hix Hixd Hprot. apply repair_of_same_load.
    exact (load_all_ignores_unlisted_file ix q b fs Hpat Hix Hixd Hprot).
  Qed.

  (* every path with a separator after "<index minus extension>." is such a path: the pattern rejects it *)
  Lemma rec_pattern_below_subdirectory ix x y :
    rec_pattern ix ((strip_ext ix ++ [DOT]) ++ x ++ SLASH :: y) = false.
  Proof.
    unfold rec_pattern. rewrite skipn_length_app.
    assert (E : no_slash (x ++ SLASH :: y) = false).
    { rewrite no_slash_app, no_slash_cons, N.eqb_refl. cbn [negb andb]. apply andb_false_r. }
    rewrite E. apply andb_false_r.
  Qed.
End LayoutOps.

(** * decision procedures for the hypotheses (sound; used for the examples) *)
Section Checkers.
  Variable md5 : bytes -> bytes.

  Definition wf_pkt_b (q : apkt) : bool :=
    Nat.eqb (length (pk_set q)) 16 && Nat.eqb (length (pk_type q)) 16 && Nat.eqb (length (pk_body q) mod 4) 0
    && (64 + N.of_nat (length (pk_body q)) <? 2 ^ 64).

  Lemma wf_pkt_b_sound q : wf_pkt_b q = true -> wf_pkt q.
  Proof.
    unfold wf_pkt_b, wf_pkt. rewrite !andb_true_iff, !Nat.eqb_eq, N.ltb_lt. tauto.
  Qed.

  Definition is_ok {A} (o : outcome A) : bool := match o with Ok _ => true | _ => false end.

  (* what LoadParityData needs of a packet of the decoder's set *)
  Definition own_ok_b (d : decoder) (q : apkt) : bool :=
    if bytes_eqb (pk_type q) TYPE_MAIN then
      match read_main (pk_body q) with Ok m => main_agrees d m | _ => false end
    else if bytes_eqb (pk_type q) TYPE_FDESC then is_ok (read_fdesc md5 (pk_body q))
    else if bytes_eqb (pk_type q) TYPE_IFSC then is_ok (read_ifsc (pk_body q))
    else if bytes_eqb (pk_type q) TYPE_RECV then
      match read_recv (pk_body q) with Ok (e, dd) => N.of_nat (length dd) =? d_slice d | _ => false end
    else true.

  Definition pkt_ok_b (d : decoder) (q : apkt) : bool :=
    wf_pkt_b q && (if bytes_eqb (pk_set q) (d_setid d) then own_ok_b d q else true).

  (* T : pk_type q = TYPE_X contradicts one of the recorded comparisons *)
  Ltac kill T :=
    exfalso;
    repeat match goal with
           | H : bytes_eqb (pk_type _) _ = _ |- _ => rewrite T in H; vm_compute in H; first [discriminate H|clear H]
           end.

  Lemma pkt_ok_b_sound d q : pkt_ok_b d q = true -> pkt_ok md5 d q.
  Proof.
    unfold pkt_ok_b. intros H. apply andb_true_iff in H. destruct H as [Hw H].
    split; [apply wf_pkt_b_sound; exact Hw|]. intros Hs. rewrite Hs, bytes_eqb_refl in H.
    unfold own_ok_b in H. unfold parses_pkt, is_main, is_recv.
    destruct (bytes_eqb (pk_type q) TYPE_MAIN) eqn:T1.
    { destruct (read_main (pk_body q)) as [m|x|x] eqn:RM; try discriminate H.
      split; [split; [|split; [|split]]; intros T; [exists m; reflexivity|kill T|kill T|kill T]|].
      split; [intros m' (_ & Rm); injection Rm as <-; exact H|intros e dd (T & _); kill T]. }
    destruct (bytes_eqb (pk_type q) TYPE_FDESC) eqn:T2.
    { destruct (read_fdesc md5 (pk_body q)) as [[id fd]|x|x] eqn:RM; try discriminate H.
      split; [split; [|split; [|split]]; intros T; [kill T|exists id, fd; reflexivity|kill T|kill T]|].
      split; [intros m' (T & _); kill T|intros e dd (T & _); kill T]. }
    destruct (bytes_eqb (pk_type q) TYPE_IFSC) eqn:T3.
    { destruct (read_ifsc (pk_body q)) as [[id ps]|x|x] eqn:RM; try discriminate H.
      split; [split; [|split; [|split]]; intros T; [kill T|kill T|exists id, ps; reflexivity|kill T]|].
      split; [intros m' (T & _); kill T|intros e dd (T & _); kill T]. }
    destruct (bytes_eqb (pk_type q) TYPE_RECV) eqn:T4.
    { destruct (read_recv (pk_body q)) as [[e0 d0]|x|x] eqn:RM; try discriminate H.
      split; [split; [|split; [|split]]; intros T; [kill T|kill T|kill T|exists e0, d0; reflexivity]|].
      split; [intros m' (T & _); kill T|].
      intros e dd (_ & R). injection R as <- <-. apply N.eqb_eq. exact H. }
    split; [split; [|split; [|split]]; intros T; kill T|].
    split; [intros m' (T & _); kill T|intros e dd (T & _); kill T].
  Qed.

  Lemma pkts_ok_b_sound d l : forallb (pkt_ok_b d) l = true -> forall q, In q l -> pkt_ok md5 d q.
  Proof. intros H q Hq. apply pkt_ok_b_sound. rewrite forallb_forall in H. exact (H q Hq). Qed.

  (* one block per exponent among the recovery packets of the set *)
  Definition recv_of (sid : bytes) (q : apkt) : option (N * bytes) :=
    if bytes_eqb (pk_set q) sid && bytes_eqb (pk_type q) TYPE_RECV
    then match read_recv (pk_body q) with Ok ed => Some ed | _ => None end
    else None.
  Definition recv_agree_b (sid : bytes) (l : list apkt) : bool :=
    forallb (fun q1 => forallb (fun q2 =>
       match recv_of sid q1, recv_of sid q2 with
       | Some (e1, d1), Some (e2, d2) => negb (e1 =? e2) || bytes_eqb d1 d2
       | _, _ => true
       end) l) l.

  Lemma recv_agree_b_sound sid l : recv_agree_b sid l = true -> recv_agree sid l.
  Proof.
    unfold recv_agree_b. intros H q1 q2 e d1 d2 I1 I2 S1 S2 T1 T2 R1 R2.
    rewrite forallb_forall in H. specialize (H q1 I1). rewrite forallb_forall in H. specialize (H q2 I2).
    unfold recv_of in H. rewrite S1, S2, T1, T2, !bytes_eqb_refl, R1, R2 in H. cbn [andb] in H.
    rewrite N.eqb_refl in H. cbn [negb orb] in H. apply bytes_eqb_eq. exact H.
  Qed.

  (* own-set packets that describe the same thing are identical *)
  Definition same_key_b (p q : apkt) : bool :=
    bytes_eqb (pk_type p) (pk_type q) &&
    (bytes_eqb (pk_type p) TYPE_MAIN
     || ((bytes_eqb (pk_type p) TYPE_FDESC || bytes_eqb (pk_type p) TYPE_IFSC)
         && bytes_eqb (firstn 16 (pk_body p)) (firstn 16 (pk_body q)))
     || (bytes_eqb (pk_type p) TYPE_RECV && bytes_eqb (firstn 4 (pk_body p)) (firstn 4 (pk_body q)))).

  Lemma same_key_b_complete p q : same_key p q -> same_key_b p q = true.
  Proof.
    unfold same_key, same_key_b. intros (Et & Hk). rewrite <- Et, bytes_eqb_refl. cbn [andb].
    destruct Hk as [Em|[([Ef|Ei] & Eb)|(Er & Eb)]].
    all: rewrite ?Em, ?Ef, ?Ei, ?Er, ?Eb, ?bytes_eqb_refl;
      repeat match goal with |- context [bytes_eqb ?a ?b] => destruct (bytes_eqb a b) end; reflexivity.
  Qed.

  Definition consistent_b (sid : bytes) (l : list apkt) : bool :=
    forallb (fun p => forallb (fun q =>
       negb (bytes_eqb (pk_set p) sid && bytes_eqb (pk_set q) sid && same_key_b p q)
       || bytes_eqb (pk_body p) (pk_body q)) l) l.

  Lemma consistent_b_sound sid l : consistent_b sid l = true -> consistent sid l.
  Proof.
    unfold consistent_b. intros H p q Ip Iq Sp Sq Hk.
    rewrite forallb_forall in H. specialize (H p Ip). rewrite forallb_forall in H. specialize (H q Iq).
    rewrite Sp, Sq, bytes_eqb_refl, (same_key_b_complete p q Hk) in H. cbn [andb negb orb] in H.
    apply bytes_eqb_eq. exact H.
  Qed.
  (* the same packets of the set in two packet lists *)
  Definition apkt_eqb (p q : apkt) : bool :=
    bytes_eqb (pk_set p) (pk_set q) && bytes_eqb (pk_type p) (pk_type q) && bytes_eqb (pk_body p) (pk_body q).
  Lemma apkt_eqb_eq p q : apkt_eqb p q = true -> p = q.
  Proof.
    destruct p as [[s t] b], q as [[s' t'] b']. unfold apkt_eqb, pk_set, pk_type, pk_body. cbn [fst snd].
    rewrite !andb_true_iff. intros [[H1 H2] H3].
    apply bytes_eqb_eq in H1, H2, H3. subst. reflexivity.
  Qed.
  Definition own_sub_b (sid : bytes) (l1 l2 : list apkt) : bool :=
    forallb (fun q => negb (bytes_eqb (pk_set q) sid) || existsb (apkt_eqb q) l2) l1.
  Lemma own_sub_b_sound sid l1 l2 : own_sub_b sid l1 l2 = true -> forall q, pk_set q = sid -> In q l1 -> In q l2.
  Proof.
    unfold own_sub_b. intros H q Hs Hin. rewrite forallb_forall in H. specialize (H q Hin).
    rewrite Hs, bytes_eqb_refl in H. cbn [negb orb] in H. apply existsb_exists in H.
    destruct H as (q' & Hin' & E). apply apkt_eqb_eq in E. subst q'. exact Hin'.
  Qed.
  Definition own_same_b (sid : bytes) (l1 l2 : list apkt) : bool := own_sub_b sid l1 l2 && own_sub_b sid l2 l1.
  Lemma own_same_b_sound sid l1 l2 : own_same_b sid l1 l2 = true ->
    forall q, pk_set q = sid -> (In q l1 <-> In q l2).
  Proof.
    unfold own_same_b. intros H q Hs. apply andb_true_iff in H. destruct H as [H1 H2].
    split; [apply (own_sub_b_sound sid l1 l2 H1 q Hs)|apply (own_sub_b_sound sid l2 l1 H2 q Hs)].
  Qed.
  Lemma wf_pkts_b_sound l : forallb wf_pkt_b l = true -> Forall wf_pkt l.
  Proof.
    intros H. apply Forall_forall. intros q Hq. apply wf_pkt_b_sound. rewrite forallb_forall in H. exact (H q Hq).
  Qed.

  Definition sub_b (l1 l2 : list apkt) : bool := forallb (fun q => existsb (apkt_eqb q) l2) l1.
  Lemma sub_b_sound l1 l2 : sub_b l1 l2 = true -> forall q, In q l1 -> In q l2.
  Proof.
    unfold sub_b. intros H q Hin. rewrite forallb_forall in H. specialize (H q Hin). apply existsb_exists in H.
    destruct H as (q' & Hin' & E). apply apkt_eqb_eq in E. subst q'. exact Hin'.
  Qed.
  Lemma same_members_b_sound l1 l2 : sub_b l1 l2 && sub_b l2 l1 = true -> forall q, In q l1 <-> In q l2.
  Proof.
    intros H q. apply andb_true_iff in H. destruct H as [H1 H2].
    split; [apply (sub_b_sound l1 l2 H1)|apply (sub_b_sound l2 l1 H2)].
  Qed.
  (* the (exponent, block) pairs of the recovery packets of the set, in order: has_block is membership in it *)
  Definition recv_list (sid : bytes) (l : list apkt) : list (N * bytes) :=
    flat_map (fun q => match recv_of sid q with Some ed => [ed] | None => [] end) l.

  Lemma has_block_recv_list sid ls e dd : has_block sid ls e dd <-> In (e, dd) (recv_list sid (concat ls)).
  Proof.
    rewrite has_block_concat. unfold own_in, recv_list, is_recv. rewrite in_flat_map. split.
    - intros (q & Hin & Hs & T & R). exists q. split; [exact Hin|].
      unfold recv_of. rewrite Hs, T, !bytes_eqb_refl, R. left. reflexivity.
    - intros (q & Hin & Hi). exists q. split; [exact Hin|]. unfold recv_of in Hi.
      destruct (bytes_eqb (pk_set q) sid) eqn:Es; [|destruct Hi].
      destruct (bytes_eqb (pk_type q) TYPE_RECV) eqn:Et; [|destruct Hi]. cbn [andb] in Hi.
      destruct (read_recv (pk_body q)) as [ed|x|x] eqn:R; [|destruct Hi|destruct Hi].
      destruct Hi as [E|[]]. subst ed.
      split; [apply bytes_eqb_eq; exact Es|]. split; [apply bytes_eqb_eq; exact Et|reflexivity].
  Qed.
End Checkers.

(** * examples with the toy hash: two layouts of the archive of Par2RepairComplete.RCExample *)
Module LOExample.
  Import String.
  Local Open Scope string_scope.
  Local Open Scope list_scope.
  Module RC := Par2RepairComplete.RCExample.

  Definition ix : list N := RC.ix.                                  (* /w/o.par2 *)
  (* layout A: what gopar's Create wrote (index, o.vol00+01.par2, o.vol01+01.par2), the protected file "a" deleted *)
  Definition fsA : list (list N * bytes) := RC.fs2.

  Fixpoint parse_pkts (fuel : nat) (b : bytes) : list apkt :=
    match fuel with
    | O => []
    | S f => match read_next_packet toy_md5 b with
             | NPPacket s t body rest => (s, t, body) :: parse_pkts f rest
             | _ => []
             end
    end.
  Definition file_of (fs : list (list N * bytes)) (p : list N) : bytes :=
    match fs_lookup fs p with Some b => b | None => [] end.
  Definition nopkt : apkt := ([], [], []).

  Definition volA0 : list apkt := parse_pkts 100 (file_of fsA (bs "/w/o.vol00+01.par2")).
  Definition volA1 : list apkt := parse_pkts 100 (file_of fsA (bs "/w/o.vol01+01.par2")).
  (* the packets of the set: creator, main, description and checksums of "b" and of "a", the two recovery blocks *)
  Definition pc : apkt := nth 0 volA0 nopkt.
  Definition pm : apkt := nth 1 volA0 nopkt.
  Definition pfb : apkt := nth 2 volA0 nopkt.
  Definition pib : apkt := nth 3 volA0 nopkt.
  Definition pfa : apkt := nth 4 volA0 nopkt.
  Definition pia : apkt := nth 5 volA0 nopkt.
  Definition r0 : apkt := nth 6 volA0 nopkt.
  Definition r1 : apkt := nth 6 volA1 nopkt.
  Definition lsA : list (list apkt) := [[pc; pm; pfb; pib; pfa; pia; r0]; [pc; pm; pfb; pib; pfa; pia; r1]].

  Example packets_of_A :
    map pk_type [pc; pm; pfb; pib; pfa; pia; r0; r1] =
      [TYPE_CREATOR; TYPE_MAIN; TYPE_FDESC; TYPE_IFSC; TYPE_FDESC; TYPE_IFSC; TYPE_RECV; TYPE_RECV] /\
    read_recv (pk_body r0) = Ok (0, [2; 5; 11; 13]) /\ read_recv (pk_body r1) = Ok (1, [88; 6; 28; 2]) /\
    file_of fsA ix = frames toy_md5 [pc; pm; pfb; pib; pfa; pia] /\
    map (file_of fsA) (rec_listing ix fsA) = map (frames toy_md5) lsA.
  Proof.
    split; [vm_compute; reflexivity|]. split; [vm_compute; reflexivity|]. split; [vm_compute; reflexivity|].
    split; vm_compute; reflexivity.
  Qed.

  (* layout B: an independent writer.  The recovery packets in the reverse order, split differently over three files
     whose names gopar would never choose (spaces and glob metacharacters; dots and a semicolon; a file with
     nothing of the set), one recovery packet twice, a recovery packet of ANOTHER set (same exponent, a block of
     another size) in between, the other packets spread and reversed *)
  Definition foreign : apkt := (ig_sid2, TYPE_RECV, le_encode 4 1 ++ [0; 0; 0; 0; 0; 0; 0; 0]).
  Definition B1 : list apkt := [r1; foreign; r1; pia; pfa].
  Definition B2 : list apkt := [r0; pib; pfb; pm; pc].
  Definition B3 : list apkt := [foreign].
  Definition pB1 : list N := bs "/w/o.z w*?[1].par2".
  Definition pB2 : list N := bs "/w/o.sub;x.par2".
  Definition pB3 : list N := bs "/w/o.only-foreign.par2".
  Definition fsB_with (ixbytes : bytes) : list (list N * bytes) :=
    [(ix, ixbytes); (bs "/w/b", file_of fsA (bs "/w/b"));
     (pB1, frames toy_md5 B1); (pB2, frames toy_md5 B2); (pB3, frames toy_md5 B3)].
  Definition fsB : list (list N * bytes) := fsB_with (file_of fsA ix).
  Definition lsB : list (list apkt) := [B3; B2; B1].                 (* in the order of the listing *)

  Definition nodec : decoder := {| d_index := []; d_setid := []; d_slice := 0; d_rec := []; d_nonrec := [] |}.
  Definition dec : decoder :=
    match fst (new_decoder toy_md5 ix (io_init fsA [])) with Ok d => d | _ => nodec end.

  Lemma listing_B ib : rec_listing ix (fsB_with ib) = [pB3; pB2; pB1].
  Proof. vm_compute. reflexivity. Qed.

  (* the listing is that of ONE directory: the same file one level further down, in a sub-directory whose name
     starts with "<index base>.", is NOT listed (FindWithPrefixAndSuffix reads the directory of the index file only) *)
  Example deeper_file_not_listed ib :
    rec_pattern ix (bs "/w/o.sub/x.par2") = false /\ rec_pattern ix pB2 = true /\
    rec_listing ix ((bs "/w/o.sub/x.par2", frames toy_md5 B2) :: fsB_with ib) = rec_listing ix (fsB_with ib) /\
    fst (io_list (strip_ext ix ++ [DOT]) (ext ix) (io_init ((bs "/w/o.sub/x.par2", frames toy_md5 B2) :: fsB_with ib) []))
      = Ok [pB3; pB2; pB1].
  Proof. vm_compute. repeat split; reflexivity. Qed.

  Lemma foreign_not_own : pk_set foreign <> d_setid dec.
  Proof. vm_compute. discriminate. Qed.

  (* the hypotheses of L1-L3 for A and B, whatever the index bytes of B are as long as they decode to the same decoder *)
  Lemma layouts_A_B_with ib :
    fst (new_decoder toy_md5 ix (io_init (fsB_with ib) [])) = Ok dec ->
    same_packet_layouts toy_md5 ix dec fsA lsA (fsB_with ib) lsB.
  Proof.
    intros HD. unfold same_packet_layouts.
    split; [vm_compute; reflexivity|]. split; [exact HD|].
    split.
    { intros info Hin. vm_compute in Hin. destruct Hin as [<-|[<-|[]]]; vm_compute; reflexivity. }
    split.
    { assert (E : rec_listing ix fsA = [bs "/w/o.vol00+01.par2"; bs "/w/o.vol01+01.par2"]) by (vm_compute; reflexivity).
      rewrite E. unfold lsA. repeat (constructor; [vm_compute; reflexivity|]). constructor. }
    split.
    { rewrite listing_B. unfold lsB. repeat (constructor; [vm_compute; reflexivity|]). constructor. }
    split.
    { intros q Hq. apply (pkts_ok_b_sound toy_md5 dec (List.concat lsA ++ List.concat lsB)).
      - vm_compute. reflexivity.
      - apply in_or_app. exact Hq. }
    split.
    { apply own_same_b_sound. vm_compute. reflexivity. }
    apply (recv_agree_b_sound (d_setid dec)). vm_compute. reflexivity.
  Qed.

  Example layouts_A_B : same_packet_layouts toy_md5 ix dec fsA lsA fsB lsB.
  Proof. apply layouts_A_B_with. vm_compute. reflexivity. Qed.

  (* L1: the loaded states are equivalent, indeed equal *)
  Example ex_load_all :
    outcome_rel ds_equiv (fst (load_all toy_md5 ix (io_init fsA []))) (fst (load_all toy_md5 ix (io_init fsB []))) /\
    fst (load_all toy_md5 ix (io_init fsB [])) = Ok RC.loaded.
  Proof.
    split; [exact (load_all_layout_invariant toy_md5 toy_md5_len16 ix dec fsA lsA fsB lsB layouts_A_B)|].
    rewrite <- (load_all_layout_invariant_eq toy_md5 toy_md5_len16 ix dec fsA lsA fsB lsB layouts_A_B).
    exact (proj1 (proj2 (proj2 RC.rc_example_loaded))).
  Qed.

  (* L2: Verify counts the same on both layouts: 1 slice found, 2 missing, 2 recovery blocks usable *)
  Example ex_verify :
    fst (par2_verify toy_md5 ix (io_init fsB [])) = fst (par2_verify toy_md5 ix (io_init fsA [])) /\
    fst (par2_verify toy_md5 ix (io_init fsB [])) =
      Ok {| c_usable := 1; c_unusable := 2; c_pusable := 2; c_punusable := 0; c_misplaced := 0 |}.
  Proof.
    pose proof (verify_layout_invariant toy_md5 toy_md5_len16 ix dec fsA lsA fsB lsB layouts_A_B) as E.
    split; [symmetry; exact E|]. rewrite <- E. vm_compute. reflexivity.
  Qed.

  (* L3: Repair restores "a" on both, with the same outcome and repaired list; afterwards "a" and "b" read the same *)
  Example ex_repair : forall dbl,
    let rA := par2_repair toy_md5 ix dbl (io_init fsA []) in
    let rB := par2_repair toy_md5 ix dbl (io_init fsB []) in
    fst rB = fst rA /\
    read_res (io_fs (snd rB)) (bs "/w/a") = read_res (io_fs (snd rA)) (bs "/w/a") /\
    read_res (io_fs (snd rB)) (bs "/w/b") = read_res (io_fs (snd rA)) (bs "/w/b").
  Proof.
    intros dbl. cbv zeta.
    destruct (repair_layout_invariant toy_md5 toy_md5_len16 ix dec fsA lsA fsB lsB dbl layouts_A_B) as (E & HQ).
    split; [symmetry; exact E|]. split; symmetry; apply HQ; vm_compute; reflexivity.
  Qed.

  Example ex_repair_computed :
    let rB := par2_repair toy_md5 ix true (io_init fsB []) in
    fst rB = (Ok tt, [bs "/w/a"]) /\ read_res (io_fs (snd rB)) (bs "/w/a") = Ok [1; 2; 3; 4; 5].
  Proof.
    cbv zeta. destruct (ex_repair true) as (E & Ea & _). cbv zeta in E, Ea. rewrite E, Ea.
    destruct RC.rc_example_repair as (R1 & R2). cbv zeta in R1, R2.
    split; [exact R1|]. unfold read_res. fold RC.ix in R2. unfold ix, fsA. rewrite R2. reflexivity.
  Qed.

  (** ** the index file written by another writer: the same packets, another order, the main packet twice *)
  Definition ixC : list apkt := [pm; pia; pc; pfa; pfb; pib; pm].
  Definition fsC : list (list N * bytes) := fsB_with (frames toy_md5 ixC).

  Example index_C_hypotheses :
    Forall wf_pkt (pc :: [pm; pfb; pib; pfa; pia]) /\ Forall wf_pkt (pm :: [pia; pc; pfa; pfb; pib; pm]) /\
    pk_set pc = d_setid dec /\ pk_set pm = d_setid dec /\
    (forall p, In p (pc :: [pm; pfb; pib; pfa; pia]) <-> In p (pm :: [pia; pc; pfa; pfb; pib; pm])) /\
    consistent (d_setid dec) (pc :: [pm; pfb; pib; pfa; pia]) /\
    read_res fsA ix = Ok (frames toy_md5 (pc :: [pm; pfb; pib; pfa; pia])) /\
    read_res fsC ix = Ok (frames toy_md5 (pm :: [pia; pc; pfa; pfb; pib; pm])).
  Proof.
    split; [apply wf_pkts_b_sound; vm_compute; reflexivity|].
    split; [apply wf_pkts_b_sound; vm_compute; reflexivity|].
    split; [vm_compute; reflexivity|]. split; [vm_compute; reflexivity|].
    split; [apply same_members_b_sound; vm_compute; reflexivity|].
    split; [apply consistent_b_sound; vm_compute; reflexivity|].
    split; vm_compute; reflexivity.
  Qed.

  Example index_C_same_decoder : fst (new_decoder toy_md5 ix (io_init fsC [])) = Ok dec.
  Proof.
    destruct index_C_hypotheses as (H1 & H2 & H3 & H4 & H5 & H6 & H7 & H8).
    rewrite <- (permuted_index_same_decoder toy_md5 toy_md5_len16 ix fsA fsC (d_setid dec) pc [pm; pfb; pib; pfa; pia]
                  pm [pia; pc; pfa; pfb; pib; pm] H1 H2 H3 H4 H5 H6 H7 H8).
    vm_compute. reflexivity.
  Qed.

  Example layouts_A_C : same_packet_layouts toy_md5 ix dec fsA lsA fsC lsB.
  Proof. apply layouts_A_B_with. exact index_C_same_decoder. Qed.

  Example ex_verify_repair_C : forall dbl,
    fst (par2_verify toy_md5 ix (io_init fsC [])) = fst (par2_verify toy_md5 ix (io_init fsA [])) /\
    fst (par2_repair toy_md5 ix dbl (io_init fsC [])) = fst (par2_repair toy_md5 ix dbl (io_init fsA [])) /\
    read_res (io_fs (snd (par2_repair toy_md5 ix dbl (io_init fsC [])))) (bs "/w/a") =
    read_res (io_fs (snd (par2_repair toy_md5 ix dbl (io_init fsA [])))) (bs "/w/a").
  Proof.
    intros dbl.
    split; [symmetry; exact (verify_layout_invariant toy_md5 toy_md5_len16 ix dec fsA lsA fsC lsB layouts_A_C)|].
    destruct (repair_layout_invariant toy_md5 toy_md5_len16 ix dec fsA lsA fsC lsB dbl layouts_A_C) as (E & HQ).
    cbv zeta in E, HQ. split; [symmetry; exact E|]. symmetry. apply HQ. vm_compute. reflexivity.
  Qed.

  (** ** L4 on layout B: the block of exponent 1 sits in "/w/o.z w*?[1].par2" only *)
  Definition contentB (p : list N) : list apkt :=
    if str_eqb p pB1 then B1 else if str_eqb p pB2 then B2 else if str_eqb p pB3 then B3 else [].
  Definition noload : decoder * list fint * cstable := (nodec, [], []).
  Definition frontB : decoder * list fint * cstable :=
    match fst (load_front toy_md5 ix (io_init fsB [])) with Ok x => x | _ => noload end.

  Lemma contentB_listing : map contentB (rec_listing ix fsB) = lsB.
  Proof. unfold fsB. rewrite listing_B. vm_compute. reflexivity. Qed.

  (* the discovery predicate is literal: any bytes between the prefix and the suffix *)
  Example discovery_accepts :
    rec_pattern ix pB1 = true /\ rec_pattern ix pB2 = true /\ rec_pattern ix pB3 = true /\
    rec_pattern ix ix = false /\ rec_pattern ix (bs "/w/other.vol00+01.par2") = false.
  Proof.
    split; [vm_compute; reflexivity|]. split; [vm_compute; reflexivity|]. split; [vm_compute; reflexivity|].
    split; vm_compute; reflexivity.
  Qed.

  Lemma blocks_of_B : forall e',
    In e' [0; 1] <-> exists dd', has_block (d_setid dec) lsB e' dd'.
  Proof.
    intros e'.
    assert (E : recv_list (d_setid dec) (List.concat lsB) = [(0, [2; 5; 11; 13]); (1, [88; 6; 28; 2]); (1, [88; 6; 28; 2])])
      by (vm_compute; reflexivity).
    split.
    - intros [<-|[<-|[]]].
      + exists [2; 5; 11; 13]. apply has_block_recv_list. rewrite E. left. reflexivity.
      + exists [88; 6; 28; 2]. apply has_block_recv_list. rewrite E. right. left. reflexivity.
    - intros (dd' & Hb). apply has_block_recv_list in Hb. rewrite E in Hb.
      destruct Hb as [Hb|[Hb|[Hb|[]]]]; injection Hb as <- _; [left; reflexivity|right; left; reflexivity|right; left; reflexivity].
  Qed.

  Example ex_block_found_B_hypotheses :
    fst (load_front toy_md5 ix (io_init fsB [])) = Ok (dec, snd (fst frontB), snd frontB) /\
    (forall p', In p' (rec_listing ix fsB) -> read_res fsB p' = Ok (frames toy_md5 (contentB p'))) /\
    (forall p' q', In p' (rec_listing ix fsB) -> In q' (contentB p') -> pkt_ok toy_md5 dec q') /\
    recv_agree (d_setid dec) (List.concat (map contentB (rec_listing ix fsB))) /\
    In pB1 (map fst fsB) /\ rec_pattern ix pB1 = true /\
    In r1 (contentB pB1) /\ pk_set r1 = d_setid dec /\ is_recv 1 [88; 6; 28; 2] r1.
  Proof.
    split; [vm_compute; reflexivity|].
    split.
    { intros p' Hp'. unfold fsB in Hp'. rewrite listing_B in Hp'. cbn [In] in Hp'.
      destruct Hp' as [<-|[<-|[<-|[]]]]; vm_compute; reflexivity. }
    split.
    { intros p' q' Hp' Hq'.
      assert (Hin : In q' (List.concat lsB)).
      { rewrite <- contentB_listing. apply in_concat. exists (contentB p'). split; [apply in_map; exact Hp'|exact Hq']. }
      destruct layouts_A_B as (_ & _ & _ & _ & _ & Hok & _). apply Hok. right. exact Hin. }
    split; [rewrite contentB_listing; apply (recv_agree_b_sound (d_setid dec)); vm_compute; reflexivity|].
    split; [unfold fsB, fsB_with; cbn [map fst In]; right; right; left; reflexivity|].
    split; [vm_compute; reflexivity|].
    split; [assert (E : contentB pB1 = B1) by (vm_compute; reflexivity); rewrite E; left; reflexivity|].
    split; [vm_compute; reflexivity|].
    split; vm_compute; reflexivity.
  Qed.

  Example ex_block_found_B :
    exists ds st',
      load_all toy_md5 ix (io_init fsB []) = (Ok ds, st') /\
      nth 1 (ds_parity ds) None = Some [88; 6; 28; 2] /\
      c_pusable (shard_counts ds) = 2%nat.
  Proof.
    destruct ex_block_found_B_hypotheses as (H1 & H2 & H3 & H4 & H5 & H6 & H7 & H8 & H9).
    destruct (intact_block_found_and_used toy_md5 toy_md5_len16 ix fsB dec (snd (fst frontB)) (snd frontB)
                contentB pB1 r1 1 [88; 6; 28; 2] H1 H2 H3 H4 H5 H6 H7 H8 H9)
      as (ds & st' & EL & _ & _ & EN & _ & EC).
    exists ds, st'. split; [exact EL|]. split; [exact EN|].
    apply (EC [0; 1]).
    - constructor; [intros [H|[]]; discriminate H|]. constructor; [intros []|constructor].
    - rewrite contentB_listing. exact blocks_of_B.
  Qed.

  (** ** the hypothesis "one block per exponent over ALL files" is needed at the level of the operations too:
      a second, different block for exponent 1 in a further recovery file.  The file that is listed LATER wins, so
      the same packets give a successful Repair or a failed one depending on the NAME of that file *)
  Definition r1bad : apkt := (d_setid dec, TYPE_RECV, le_encode 4 1 ++ [0; 0; 0; 0]).
  Definition fs_bad_first : list (list N * bytes) := fsB ++ [(bs "/w/o.aaa.par2", frames toy_md5 [r1bad])].
  Definition fs_bad_last : list (list N * bytes) := fsB ++ [(bs "/w/o.zzz.par2", frames toy_md5 [r1bad])].
  Example conflicting_blocks_name_order_observable :
    fst (par2_verify toy_md5 ix (io_init fs_bad_first [])) = fst (par2_verify toy_md5 ix (io_init fs_bad_last [])) /\
    fst (par2_repair toy_md5 ix false (io_init fs_bad_first [])) = (Ok tt, [bs "/w/a"]) /\
    fst (par2_repair toy_md5 ix false (io_init fs_bad_last [])) = (Err EHashMismatch, []).
  Proof. split; [vm_compute; reflexivity|]. split; vm_compute; reflexivity. Qed.
End LOExample.

Print Assumptions ds_equiv_eq.
Print Assumptions load_all_split.
Print Assumptions load_all_layout_invariant.
Print Assumptions load_all_layout_invariant_eq.
Print Assumptions same_index_same_decoder.
Print Assumptions permuted_index_same_decoder.
Print Assumptions same_packet_layouts_same_index.
Print Assumptions same_packet_layouts_permuted_index.
Print Assumptions load_all_index_failure.
Print Assumptions verify_layout_invariant.
Print Assumptions repair_layout_invariant.
Print Assumptions repair_layout_invariant_protected.
Print Assumptions intact_block_found_and_used.
Print Assumptions load_all_ignores_unlisted_file.
Print Assumptions verify_ignores_unlisted_file.
Print Assumptions repair_ignores_unlisted_file.
Print Assumptions rec_pattern_below_subdirectory.
Print Assumptions LOExample.deeper_file_not_listed.
Print Assumptions LOExample.packets_of_A.
Print Assumptions LOExample.layouts_A_B.
Print Assumptions LOExample.ex_load_all.
Print Assumptions LOExample.ex_verify.
Print Assumptions LOExample.ex_repair.
Print Assumptions LOExample.ex_repair_computed.
Print Assumptions LOExample.index_C_hypotheses.
Print Assumptions LOExample.index_C_same_decoder.
Print Assumptions LOExample.layouts_A_C.
Print Assumptions LOExample.ex_verify_repair_C.
Print Assumptions LOExample.discovery_accepts.
Print Assumptions LOExample.ex_block_found_B_hypotheses.
Print Assumptions LOExample.ex_block_found_B.
Print Assumptions LOExample.conflicting_blocks_name_order_observable.
