(* The CLI model's parse_int against strconv.ParseInt(s, 0, 64) of the Go standard library: the 42 strings below were
   run through the real function (go1.26); the expected values are its answers.  (A test, not a proof: the function is
   hand-written from the library's source; the C20 check compares the exit statuses of command lines using such flags.) *)
From Gopar Require Import Model.Base Model.CLI.
From Coq Require Import String NArith ZArith List. Import ListNotations.
Definition pbs (s : string) : list N := map (fun a => N.of_nat (Ascii.nat_of_ascii a)) (list_ascii_of_string s).
Open Scope string_scope.
Example parse_int_matches_go :
  map (fun s => parse_int (pbs s))
    ["";"+";"-";"0";"-0";"00";"08";"010";"0x2";"0X1f";"0x";"0x_1";"0x1_";"0_1";"_1";"1_";"1_0";"1__0";"0b101";"0b2";"0o17";"0O8";"12a";
     "9223372036854775807";"9223372036854775808";"-9223372036854775808";"-9223372036854775809";"0x7fffffffffffffff";"0x8000000000000000";
     "+5";"-12";"0b";"0o";"1e3";" 1";"0x_";"0_";"0_7";"-0x10";"0B1_1";"07_7";"1_000_000"]
  = [None; None; None; Some 0; Some 0; Some 0; None; Some 8; Some 2; Some 31; None; Some 1; None; Some 1; None; None; Some 10; None;
     Some 5; None; Some 15; None; None; Some 9223372036854775807; None; Some (-9223372036854775808); None; Some 9223372036854775807; None;
     Some 5; Some (-12); None; None; None; None; None; None; Some 7; Some (-16); Some 3; Some 63; Some 1000000]%Z.
Proof. vm_compute. reflexivity. Qed.
