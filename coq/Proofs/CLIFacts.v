(* The `par` command (Model/CLI.v): what its exit status says.
   1. status 0 from `par verify x.par2` means that Verify succeeded and reported "no repair
      needed"; with the library theorem verify_clean_intact, every protected file is then
      present with its recorded length and hashes.  The same for `par verify x.par`.
   2. verify yields 0 / 1 / 2 exactly for clean / repairable / not repairable.
   3. repair yields exit_of_repair of the library result: 0 iff success, 2 for
      not-enough-parity (and for a Go panic), 7 for every other error - PAR2 and PAR1.
   4. every malformed command line yields status 3.
   The cli_is_* predicates are stated on the results of flag.Parse (parse_flags), so they
   cover every spelling: optional global flags, the command word in any letter case,
   optional command flags. *)
From Coq Require Import Lia.
From Coq Require Strings.String Strings.Ascii.
From Gopar Require Import Model.Base Model.CRC Model.GoPath Model.FS Model.Par1 Model.Par2 Model.CLI
     Proofs.GoPathFacts Proofs.Par2Verify Proofs.Par1Facts.
Open Scope N_scope.
Set Default Timeout 120.

(** * the command line shapes *)

Definition W_C : list N := [99].
Definition W_CREATE : list N := [99; 114; 101; 97; 116; 101].
Definition W_V : list N := [118].
Definition W_VERIFY : list N := [118; 101; 114; 105; 102; 121].
Definition W_R : list N := [114].
Definition W_REPAIR : list N := [114; 101; 112; 97; 105; 114].
Definition F_H : list N := [104].
Definition F_A : list N := [97].
Definition F_DOUBLECHECK : list N := [100; 111; 117; 98; 108; 101; 99; 104; 101; 99; 107].

(* the command word, compared case-insensitively as main.go does *)
Definition is_create_word (cmd : list N) : Prop := lower cmd = W_C \/ lower cmd = W_CREATE.
Definition is_verify_word (cmd : list N) : Prop := lower cmd = W_V \/ lower cmd = W_VERIFY.
Definition is_repair_word (cmd : list N) : Prop := lower cmd = W_R \/ lower cmd = W_REPAIR.

(* the global flags parse, -h is not set, and a command word follows *)
Definition cli_command (args : list (list N)) (gv : list (list N * list N)) (cmd : list N) (cargs : list (list N)) : Prop :=
  parse_flags (S (length args)) GLOBAL_FLAGS args [] = Some (gv, cmd :: cargs) /\
  bool_flag gv F_H = false.

(* par [-g N] [-cpuprofile F] v|verify [-a] <par>.par2 ... *)
Definition cli_is_verify2 (args : list (list N)) (par : list N) : Prop :=
  exists gv cmd cargs vv rest,
    cli_command args gv cmd cargs /\ is_verify_word cmd /\
    parse_flags (S (length cargs)) VERIFY_FLAGS cargs [] = Some (vv, par :: rest) /\
    ext par = EXT_PAR2.

(* ... <par>.par, with the value of -a *)
Definition cli_is_verify1 (args : list (list N)) (par : list N) (all : bool) : Prop :=
  exists gv cmd cargs vv rest,
    cli_command args gv cmd cargs /\ is_verify_word cmd /\
    parse_flags (S (length cargs)) VERIFY_FLAGS cargs [] = Some (vv, par :: rest) /\
    ext par = EXT_PAR /\ all = bool_flag vv F_A.

(* par [...] r|repair [-doublecheck] <par>.par2 ... *)
Definition cli_is_repair2 (args : list (list N)) (par : list N) (dbl : bool) : Prop :=
  exists gv cmd cargs vv rest,
    cli_command args gv cmd cargs /\ is_repair_word cmd /\
    parse_flags (S (length cargs)) REPAIR_FLAGS cargs [] = Some (vv, par :: rest) /\
    ext par = EXT_PAR2 /\ dbl = bool_flag vv F_DOUBLECHECK.

Definition cli_is_repair1 (args : list (list N)) (par : list N) (dbl : bool) : Prop :=
  exists gv cmd cargs vv rest,
    cli_command args gv cmd cargs /\ is_repair_word cmd /\
    parse_flags (S (length cargs)) REPAIR_FLAGS cargs [] = Some (vv, par :: rest) /\
    ext par = EXT_PAR /\ dbl = bool_flag vv F_DOUBLECHECK.

(* the malformed command lines: the global flags do not parse; no command word; an unknown
   command word; create without an index path and at least one file; verify / repair
   without an index path; command flags that do not parse *)
Definition cli_is_usage_error (args : list (list N)) : Prop :=
  parse_flags (S (length args)) GLOBAL_FLAGS args [] = None \/
  (exists gv, parse_flags (S (length args)) GLOBAL_FLAGS args [] = Some (gv, [])) \/
  (exists gv cmd cargs, cli_command args gv cmd cargs /\
     ((~ is_create_word cmd /\ ~ is_verify_word cmd /\ ~ is_repair_word cmd) \/
      (is_create_word cmd /\
         (parse_flags (S (length cargs)) CREATE_FLAGS cargs [] = None \/
          (exists vv, parse_flags (S (length cargs)) CREATE_FLAGS cargs [] = Some (vv, [])) \/
          (exists vv p, parse_flags (S (length cargs)) CREATE_FLAGS cargs [] = Some (vv, [p])))) \/
      (is_verify_word cmd /\
         (parse_flags (S (length cargs)) VERIFY_FLAGS cargs [] = None \/
          (exists vv, parse_flags (S (length cargs)) VERIFY_FLAGS cargs [] = Some (vv, [])))) \/
      (is_repair_word cmd /\
         (parse_flags (S (length cargs)) REPAIR_FLAGS cargs [] = None \/
          (exists vv, parse_flags (S (length cargs)) REPAIR_FLAGS cargs [] = Some (vv, [])))))).

(** * closed facts about the literals *)

Lemma str_eqb_neq a b : a <> b -> str_eqb a b = false.
Proof.
  intros H. destruct (str_eqb a b) eqn:E; [|reflexivity].
  apply str_eqb_eq in E. contradiction.
Qed.

Lemma ext_par2_not_par : str_eqb EXT_PAR2 EXT_PAR = false.
Proof. reflexivity. Qed.
Lemma ext_par2_par2 : str_eqb EXT_PAR2 EXT_PAR2 = true.
Proof. reflexivity. Qed.
Lemma ext_par_par : str_eqb EXT_PAR EXT_PAR = true.
Proof. reflexivity. Qed.

(* which of the three dispatch tests of main.go fire for a command word *)
Definition t_create (c : list N) : bool := str_eqb c [99] || str_eqb c [99; 114; 101; 97; 116; 101].
Definition t_verify (c : list N) : bool := str_eqb c [118] || str_eqb c [118; 101; 114; 105; 102; 121].
Definition t_repair (c : list N) : bool := str_eqb c [114] || str_eqb c [114; 101; 112; 97; 105; 114].

Lemma create_word_tests cmd : is_create_word cmd -> t_create (lower cmd) = true.
Proof. intros [-> | ->]; reflexivity. Qed.
Lemma verify_word_tests cmd : is_verify_word cmd -> t_create (lower cmd) = false /\ t_verify (lower cmd) = true.
Proof. intros [-> | ->]; split; reflexivity. Qed.
Lemma repair_word_tests cmd : is_repair_word cmd ->
  t_create (lower cmd) = false /\ t_verify (lower cmd) = false /\ t_repair (lower cmd) = true.
Proof. intros [-> | ->]; repeat split; reflexivity. Qed.
Lemma unknown_word_tests cmd : ~ is_create_word cmd -> ~ is_verify_word cmd -> ~ is_repair_word cmd ->
  t_create (lower cmd) = false /\ t_verify (lower cmd) = false /\ t_repair (lower cmd) = false.
Proof.
  unfold is_create_word, is_verify_word, is_repair_word, t_create, t_verify, t_repair,
    W_C, W_CREATE, W_V, W_VERIFY, W_R, W_REPAIR.
  intros Hc Hv Hr.
  repeat split; apply orb_false_iff; split; apply str_eqb_neq; intros E; tauto.
Qed.

Section CLIFacts.
  Variable md5 : bytes -> bytes.

  (** * cli_run, one command at a time *)

  (* the part of cli_run after the global flags *)
  Definition dispatch (cwd cmd : list N) (cargs : list (list N)) (gvals : list (list N * list N)) (st : io) : N * io :=
    let c := lower cmd in
    if t_create c then
      match parse_flags (S (length cargs)) CREATE_FLAGS cargs [] with
      | None => (EXIT_USAGE, st)
      | Some (vals, files) =>
        match files with
        | [] => (EXIT_USAGE, st)
        | [_] => (EXIT_USAGE, st)
        | par :: fpaths =>
          let e := ext par in
          if str_eqb e EXT_PAR then
            match par1_create md5 par fpaths (int_flag vals [99] 3) st with
            | (Ok _, st') => (EXIT_OK, st')
            | (Err _, st') => (EXIT_LOGIC, st')
            | (Panic _, st') => (2, st')
            end
          else if str_eqb e EXT_PAR2 then
            match par2_create md5 cwd par fpaths {| cp_slice := int_flag vals [115] 2000; cp_parity := int_flag vals [99] 3 |} st with
            | (Ok _, st') => (EXIT_OK, st')
            | (Err _, st') => (EXIT_FILEIO, st')
            | (Panic _, st') => (2, st')
            end
          else (EXIT_LOGIC, st)
        end
      end
    else if t_verify c then
      match parse_flags (S (length cargs)) VERIFY_FLAGS cargs [] with
      | None => (EXIT_USAGE, st)
      | Some (vals, files) =>
        match files with
        | [] => (EXIT_USAGE, st)
        | par :: _ =>
          let e := ext par in
          if str_eqb e EXT_PAR then
            match par1_verify md5 par (bool_flag vals [97]) st with
            | (Ok (fc, _), st') => (exit_of_checker (negb (Nat.eqb (fc_unusable fc) 0)) (Nat.leb (fc_unusable fc) (fc_pusable fc)), st')
            | (Err _, st') => (EXIT_LOGIC, st')
            | (Panic _, st') => (2, st')
            end
          else if str_eqb e EXT_PAR2 then
            match par2_verify md5 par st with
            | (Ok c, st') => (exit_of_checker (repair_needed c) (repair_possible c), st')
            | (Err _, st') => (EXIT_LOGIC, st')
            | (Panic _, st') => (2, st')
            end
          else (EXIT_LOGIC, st)
        end
      end
    else if t_repair c then
      match parse_flags (S (length cargs)) REPAIR_FLAGS cargs [] with
      | None => (EXIT_USAGE, st)
      | Some (vals, files) =>
        match files with
        | [] => (EXIT_USAGE, st)
        | par :: _ =>
          let e := ext par in
          let dbl := bool_flag vals [100; 111; 117; 98; 108; 101; 99; 104; 101; 99; 107] in
          if str_eqb e EXT_PAR then
            let '((r, _), st') := par1_repair md5 par dbl st in (exit_of_repair r, st')
          else if str_eqb e EXT_PAR2 then
            let '((r, _), st') := par2_repair md5 par dbl st in (exit_of_repair r, st')
          else (EXIT_LOGIC, st)
        end
      end
    else (EXIT_USAGE, st).

  Lemma cli_run_command cwd args gv cmd cargs st :
    cli_command args gv cmd cargs -> cli_run md5 cwd args st = dispatch cwd cmd cargs gv st.
  Proof.
    intros [Hp Hh]. unfold cli_run. rewrite Hp. unfold F_H in Hh. rewrite Hh. reflexivity.
  Qed.

  Lemma cli_run_verify2 cwd args par st : cli_is_verify2 args par ->
    cli_run md5 cwd args st =
    match par2_verify md5 par st with
    | (Ok c, st') => (exit_of_checker (repair_needed c) (repair_possible c), st')
    | (Err _, st') => (EXIT_LOGIC, st')
    | (Panic _, st') => (2, st')
    end.
  Proof.
    intros (gv & cmd & cargs & vv & rest & Hc & Hw & Hp & He).
    rewrite (cli_run_command cwd _ _ _ _ st Hc). unfold dispatch.
    destruct (verify_word_tests _ Hw) as [-> ->]. rewrite Hp. cbv zeta. rewrite He.
    rewrite ext_par2_not_par, ext_par2_par2. reflexivity.
  Qed.

  Lemma cli_run_verify1 cwd args par all st : cli_is_verify1 args par all ->
    cli_run md5 cwd args st =
    match par1_verify md5 par all st with
    | (Ok (fc, _), st') => (exit_of_checker (negb (Nat.eqb (fc_unusable fc) 0)) (Nat.leb (fc_unusable fc) (fc_pusable fc)), st')
    | (Err _, st') => (EXIT_LOGIC, st')
    | (Panic _, st') => (2, st')
    end.
  Proof.
    intros (gv & cmd & cargs & vv & rest & Hc & Hw & Hp & He & ->).
    rewrite (cli_run_command cwd _ _ _ _ st Hc). unfold dispatch.
    destruct (verify_word_tests _ Hw) as [-> ->]. rewrite Hp. cbv zeta. rewrite He.
    rewrite ext_par_par. reflexivity.
  Qed.

  Lemma cli_run_repair2 cwd args par dbl st : cli_is_repair2 args par dbl ->
    cli_run md5 cwd args st =
    let '((r, _), st') := par2_repair md5 par dbl st in (exit_of_repair r, st').
  Proof.
    intros (gv & cmd & cargs & vv & rest & Hc & Hw & Hp & He & ->).
    rewrite (cli_run_command cwd _ _ _ _ st Hc). unfold dispatch.
    destruct (repair_word_tests _ Hw) as (-> & -> & ->). rewrite Hp. cbv zeta. rewrite He.
    rewrite ext_par2_not_par, ext_par2_par2. reflexivity.
  Qed.

  Lemma cli_run_repair1 cwd args par dbl st : cli_is_repair1 args par dbl ->
    cli_run md5 cwd args st =
    let '((r, _), st') := par1_repair md5 par dbl st in (exit_of_repair r, st').
  Proof.
    intros (gv & cmd & cargs & vv & rest & Hc & Hw & Hp & He & ->).
    rewrite (cli_run_command cwd _ _ _ _ st Hc). unfold dispatch.
    destruct (repair_word_tests _ Hw) as (-> & -> & ->). rewrite Hp. cbv zeta. rewrite He.
    rewrite ext_par_par. reflexivity.
  Qed.

  (** * exit status 0 means success *)

  Lemma exit_of_checker_zero needed possible : exit_of_checker needed possible = 0 -> needed = false.
  Proof. destruct needed, possible; cbv; intros H; try discriminate H; reflexivity. Qed.

  (* exit status 0 from `par verify <index>.par2` (any spelling of the command word, with or
     without global flags) means that Verify succeeded and reported that no repair is needed *)
  Theorem cli_verify2_zero : forall cwd args par st st',
    cli_run md5 cwd args st = (0, st') ->
    cli_is_verify2 args par ->
    exists c, par2_verify md5 par st = (Ok c, st') /\ repair_needed c = false.
  Proof.
    intros cwd args par st st' H Hv. rewrite (cli_run_verify2 cwd _ _ st Hv) in H.
    destruct (par2_verify md5 par st) as [[c|e|p] st1].
    - injection H as H <-. exists c. split; [reflexivity|]. exact (exit_of_checker_zero _ _ H).
    - injection H as H _. discriminate H.
    - injection H as H _. discriminate H.
  Qed.

  (* hence (fault-free) every protected file is present with its recorded length and hashes *)
  Theorem cli_verify2_zero_intact : forall cwd args par fs st',
    cli_run md5 cwd args (io_init fs []) = (0, st') -> cli_is_verify2 args par ->
    exists ds st1, load_all md5 par (io_init fs []) = (Ok ds, st1) /\
      Forall (fun info => exists data, fs_lookup fs (file_path par (di_name info)) = Some data /\
                md5 data = di_hash info /\ Par2.hash16k md5 data = di_h16 info /\ N.of_nat (length data) = di_len info)
             (d_rec (ds_dec ds)).
  Proof.
    intros cwd args par fs st' H Hv.
    destruct (cli_verify2_zero _ _ _ _ _ H Hv) as (c & Hc & Hn).
    exact (verify_clean_intact md5 par fs c st' Hc Hn).
  Qed.

  (* the same for PAR1: status 0 means Verify succeeded with no unusable file ... *)
  Theorem cli_verify1_zero : forall cwd args par all st st',
    cli_run md5 cwd args st = (0, st') ->
    cli_is_verify1 args par all ->
    exists fc ok, par1_verify md5 par all st = (Ok (fc, ok), st') /\ fc_unusable fc = 0%nat.
  Proof.
    intros cwd args par all st st' H Hv. rewrite (cli_run_verify1 cwd _ _ _ st Hv) in H.
    destruct (par1_verify md5 par all st) as [[[fc ok]|e|p] st1].
    - injection H as H <-. exists fc, ok. split; [reflexivity|].
      apply exit_of_checker_zero in H. apply negb_false_iff in H. apply Nat.eqb_eq in H. exact H.
    - injection H as H _. discriminate H.
    - injection H as H _. discriminate H.
  Qed.

  (* ... hence every protected file is present with its recorded hashes *)
  Theorem cli_verify1_zero_intact : forall cwd args par all fs st',
    cli_run md5 cwd args (io_init fs []) = (0, st') -> cli_is_verify1 args par all ->
    exists s st1, p1_load md5 par (io_init fs []) = (Ok s, st1) /\
      Forall (fun e => exists data, fs_lookup fs (join2 (dir par) (e_name e)) = Some data /\
                        md5 data = e_hash e /\ Par1.hash16k md5 data = e_h16 e) (s_saved s).
  Proof.
    intros cwd args par all fs st' H Hv.
    destruct (cli_verify1_zero _ _ _ _ _ _ H Hv) as (fc & ok & Hc & Hn).
    exact (par1_verify_clean_intact md5 par all fs fc ok st' Hc Hn).
  Qed.

  (** * the other statuses *)

  (* verify: 0 clean, 1 repair possible, 2 repair not possible *)
  Theorem cli_verify2_codes : forall cwd args par st c st1,
    cli_is_verify2 args par -> par2_verify md5 par st = (Ok c, st1) ->
    fst (cli_run md5 cwd args st) = (if repair_needed c then (if repair_possible c then 1 else 2) else 0).
  Proof.
    intros cwd args par st c st1 Hv Hc. rewrite (cli_run_verify2 cwd _ _ st Hv), Hc. reflexivity.
  Qed.

  Theorem cli_verify1_codes : forall cwd args par all st fc ok st1,
    cli_is_verify1 args par all -> par1_verify md5 par all st = (Ok (fc, ok), st1) ->
    fst (cli_run md5 cwd args st) =
      (if Nat.eqb (fc_unusable fc) 0 then 0 else if Nat.leb (fc_unusable fc) (fc_pusable fc) then 1 else 2).
  Proof.
    intros cwd args par all st fc ok st1 Hv Hc. rewrite (cli_run_verify1 cwd _ _ _ st Hv), Hc.
    cbn [fst]. destruct (Nat.eqb (fc_unusable fc) 0); reflexivity.
  Qed.

  (* a verify that fails (unreadable / malformed index, ...) never exits with 0, 1 or 3 *)
  Theorem cli_verify2_failure : forall cwd args par st,
    cli_is_verify2 args par -> is_ok (fst (par2_verify md5 par st)) = false ->
    fst (cli_run md5 cwd args st) = 7 \/ fst (cli_run md5 cwd args st) = 2.
  Proof.
    intros cwd args par st Hv Hk. rewrite (cli_run_verify2 cwd _ _ st Hv).
    destruct (par2_verify md5 par st) as [[c|e|p] st2]; cbn [fst is_ok] in *; [discriminate|left|right]; reflexivity.
  Qed.

  (* repair: the status is exit_of_repair of the library result *)
  Theorem cli_repair2_codes : forall cwd args par dbl st r rp st1,
    cli_is_repair2 args par dbl -> par2_repair md5 par dbl st = ((r, rp), st1) ->
    fst (cli_run md5 cwd args st) = exit_of_repair r.
  Proof.
    intros cwd args par dbl st r rp st1 Hv Hc. rewrite (cli_run_repair2 cwd _ _ _ st Hv), Hc. reflexivity.
  Qed.

  Theorem cli_repair1_codes : forall cwd args par dbl st r rp st1,
    cli_is_repair1 args par dbl -> par1_repair md5 par dbl st = ((r, rp), st1) ->
    fst (cli_run md5 cwd args st) = exit_of_repair r.
  Proof.
    intros cwd args par dbl st r rp st1 Hv Hc. rewrite (cli_run_repair1 cwd _ _ _ st Hv), Hc. reflexivity.
  Qed.

  (* exit_of_repair spelled out: 0 iff success; 2 iff not-enough-parity or a Go panic *)
  Theorem exit_of_repair_zero : forall (r : outcome unit), exit_of_repair r = 0 <-> exists u, r = Ok u.
  Proof.
    intros [u|e|p]; split.
    - intros _. exists u. reflexivity.
    - reflexivity.
    - destruct e; intros H; discriminate H.
    - intros [u H]. discriminate H.
    - intros H. discriminate H.
    - intros [u H]. discriminate H.
  Qed.

  Theorem exit_of_repair_two : forall (r : outcome unit),
    exit_of_repair r = 2 <-> r = Err ENotEnoughParity \/ exists p, r = Panic p.
  Proof.
    intros [u|e|p]; split.
    - intros H. discriminate H.
    - intros [H|[p H]]; discriminate H.
    - destruct e; intros H; try discriminate H. left. reflexivity.
    - intros [H|[p H]]; [|discriminate H]. injection H as ->. reflexivity.
    - intros _. right. exists p. reflexivity.
    - reflexivity.
  Qed.

  (* so: repair exits with 0 iff the library returned success (state included) *)
  Corollary cli_repair2_zero : forall cwd args par dbl st,
    cli_is_repair2 args par dbl ->
    (fst (cli_run md5 cwd args st) = 0 <-> exists u, fst (fst (par2_repair md5 par dbl st)) = Ok u).
  Proof.
    intros cwd args par dbl st Hv.
    destruct (par2_repair md5 par dbl st) as [[r rp] st1] eqn:E.
    rewrite (cli_repair2_codes cwd _ _ _ _ _ _ _ Hv E). cbn [fst]. apply exit_of_repair_zero.
  Qed.

  Corollary cli_repair1_zero : forall cwd args par dbl st,
    cli_is_repair1 args par dbl ->
    (fst (cli_run md5 cwd args st) = 0 <-> exists u, fst (fst (par1_repair md5 par dbl st)) = Ok u).
  Proof.
    intros cwd args par dbl st Hv.
    destruct (par1_repair md5 par dbl st) as [[r rp] st1] eqn:E.
    rewrite (cli_repair1_codes cwd _ _ _ _ _ _ _ Hv E). cbn [fst]. apply exit_of_repair_zero.
  Qed.

  (* usage errors: status 3, and nothing is touched *)
  Theorem cli_usage_state : forall cwd args st, cli_is_usage_error args -> cli_run md5 cwd args st = (3, st).
  Proof.
    intros cwd args st [H|[[gv H]|(gv & cmd & cargs & Hc & H)]].
    - unfold cli_run. rewrite H. reflexivity.
    - unfold cli_run. rewrite H. reflexivity.
    - rewrite (cli_run_command cwd _ _ _ _ st Hc). unfold dispatch. cbv zeta.
      destruct H as [(Hnc & Hnv & Hnr)|[[Hw H]|[[Hw H]|[Hw H]]]].
      + destruct (unknown_word_tests _ Hnc Hnv Hnr) as (-> & -> & ->). reflexivity.
      + rewrite (create_word_tests _ Hw).
        destruct H as [H|[[vv H]|(vv & p & H)]]; rewrite H; reflexivity.
      + destruct (verify_word_tests _ Hw) as [-> ->].
        destruct H as [H|[vv H]]; rewrite H; reflexivity.
      + destruct (repair_word_tests _ Hw) as (-> & -> & ->).
        destruct H as [H|[vv H]]; rewrite H; reflexivity.
  Qed.

  Theorem cli_usage : forall cwd args st, cli_is_usage_error args -> fst (cli_run md5 cwd args st) = 3.
  Proof. intros cwd args st H. rewrite (cli_usage_state cwd _ st H). reflexivity. Qed.

End CLIFacts.

(** * the predicates hold for concrete argument vectors *)

Module Examples.
  Import Coq.Strings.String Coq.Strings.Ascii.
  Local Open Scope string_scope.

  Definition s (x : string) : list N := List.map N_of_ascii (list_ascii_of_string x).

  Example ex_v : cli_is_verify2 [s "v"; s "a.par2"] (s "a.par2").
  Proof. exists [], (s "v"), [s "a.par2"], [], []. unfold cli_command, is_verify_word. repeat split; try reflexivity. left; reflexivity. Qed.

  Example ex_g_VERIFY : cli_is_verify2 [s "-g"; s "2"; s "VERIFY"; s "x/a.par2"] (s "x/a.par2").
  Proof.
    exists [(s "g", s "2")], (s "VERIFY"), [s "x/a.par2"], [], [].
    unfold cli_command, is_verify_word. repeat split; try reflexivity. right; reflexivity.
  Qed.

  Example ex_Verify_eq : cli_is_verify2 [s "--g=4"; s "Verify"; s "-a=false"; s "dir.d/b.par2"; s "ignored"] (s "dir.d/b.par2").
  Proof.
    exists [(s "g", s "4")], (s "Verify"), [s "-a=false"; s "dir.d/b.par2"; s "ignored"], [(s "a", s "false")], [s "ignored"].
    unfold cli_command, is_verify_word. repeat split; try reflexivity. right; reflexivity.
  Qed.

  Example ex_v1 : cli_is_verify1 [s "verify"; s "-a"; s "a.par"] (s "a.par") true.
  Proof.
    exists [], (s "verify"), [s "-a"; s "a.par"], [(s "a", s "true")], [].
    unfold cli_command, is_verify_word. repeat split; try reflexivity. right; reflexivity.
  Qed.

  Example ex_r1 : cli_is_repair1 [s "r"; s "-doublecheck"; s "a.par"] (s "a.par") true.
  Proof.
    exists [], (s "r"), [s "-doublecheck"; s "a.par"], [(s "doublecheck", s "true")], [].
    unfold cli_command, is_repair_word. repeat split; try reflexivity. left; reflexivity.
  Qed.

  Example ex_r2 : cli_is_repair2 [s "-cpuprofile"; s "p.out"; s "Repair"; s "a.par2"] (s "a.par2") false.
  Proof.
    exists [(s "cpuprofile", s "p.out")], (s "Repair"), [s "a.par2"], [], [].
    unfold cli_command, is_repair_word. repeat split; try reflexivity. right; reflexivity.
  Qed.

  (* usage errors *)
  Example ex_u_empty : cli_is_usage_error [].
  Proof. right; left. exists []. reflexivity. Qed.
  Example ex_u_badflag : cli_is_usage_error [s "-x"; s "v"; s "a.par2"].
  Proof. left. reflexivity. Qed.
  Example ex_u_help : cli_is_usage_error [s "-help"].
  Proof. left. reflexivity. Qed.
  Example ex_u_g_notint : cli_is_usage_error [s "-g"; s "two"; s "v"; s "a.par2"].
  Proof. left. reflexivity. Qed.
  Example ex_u_unknown : cli_is_usage_error [s "frob"; s "a.par2"].
  Proof.
    right; right. exists [], (s "frob"), [s "a.par2"]. split; [split; reflexivity|].
    left. unfold is_create_word, is_verify_word, is_repair_word.
    repeat split; intros [H|H]; discriminate H.
  Qed.
  Example ex_u_v_noarg : cli_is_usage_error [s "v"].
  Proof.
    right; right. exists [], (s "v"), []. split; [split; reflexivity|].
    right; right; left. split; [left; reflexivity|]. right. exists []. reflexivity.
  Qed.
  Example ex_u_c_onearg : cli_is_usage_error [s "c"; s "a.par2"].
  Proof.
    right; right. exists [], (s "c"), [s "a.par2"]. split; [split; reflexivity|].
    right; left. split; [left; reflexivity|]. right; right. exists [], (s "a.par2"). reflexivity.
  Qed.
  Example ex_u_r_badflag : cli_is_usage_error [s "r"; s "-a"; s "a.par2"].
  Proof.
    right; right. exists [], (s "r"), [s "-a"; s "a.par2"]. split; [split; reflexivity|].
    right; right; right. split; [left; reflexivity|]. left. reflexivity.
  Qed.

  (* -h wins over everything after the global flags: usage text, status 0 (so the
     "-h is not set" clause of cli_command is needed) *)
  Example ex_h_zero : forall md5 cwd st, cli_run md5 cwd [s "-h"; s "v"; s "a.par2"] st = (0, st).
  Proof. reflexivity. Qed.

  (* the usage theorem applied *)
  Example ex_usage_applied : forall md5 cwd st, fst (cli_run md5 cwd [s "c"; s "a.par2"] st) = 3.
  Proof. intros. apply cli_usage. exact ex_u_c_onearg. Qed.
End Examples.

Print Assumptions cli_verify2_zero.
Print Assumptions cli_verify2_zero_intact.
Print Assumptions cli_verify1_zero.
Print Assumptions cli_verify1_zero_intact.
Print Assumptions cli_verify2_codes.
Print Assumptions cli_verify1_codes.
Print Assumptions cli_repair2_codes.
Print Assumptions cli_repair1_codes.
Print Assumptions cli_repair2_zero.
Print Assumptions cli_repair1_zero.
Print Assumptions cli_usage.
Print Assumptions cli_usage_state.
