(* C15: a name accepted by checkFilename, joined to ANY directory, stays below it. *)
From Coq Require Import Lia.
From Gopar Require Import Model.Base Model.GoPath.
Open Scope N_scope.

Definition no_dotdot (s : list (list N)) : bool := forallb (fun c => negb (is_dotdot c)) s.
Definition all_dotdot (s : list (list N)) : bool := forallb is_dotdot s.
(* stack shape of a non-rooted clean: ordinary components on top of a run of ".." *)
Fixpoint shape (s : list (list N)) : bool :=
  match s with [] => true | x :: r => if is_dotdot x then all_dotdot r else shape r end.
Definition comp_ok (c : list N) : bool := negb (str_eqb c []) && negb (is_dot c).

Lemma str_eqb_refl a : str_eqb a a = true.
Proof.
  unfold str_eqb. rewrite Nat.eqb_refl. cbn [andb].
  induction a as [|x a IH]; [reflexivity|]. cbn [combine forallb fst snd]. rewrite N.eqb_refl. exact IH.
Qed.

Lemma str_eqb_eq a b : str_eqb a b = true -> a = b.
Proof.
  unfold str_eqb. revert b. induction a as [|x a IH]; intros [|y b] H; try reflexivity; try discriminate.
  cbn [length Nat.eqb combine forallb fst snd] in H.
  apply andb_prop in H. destruct H as [Hl H]. apply andb_prop in H. destruct H as [Hx H].
  apply N.eqb_eq in Hx. subst y. f_equal. apply IH. rewrite Hl, H. reflexivity.
Qed.

(* ".." once on the stack of a non-rooted clean stays there *)
Lemma dotdot_persists_step s c : no_dotdot s = false -> no_dotdot (clean_step false s c) = false.
Proof.
  intros H. unfold clean_step. destruct c as [|c0 c']; [exact H|].
  destruct (is_dot (c0 :: c')); [exact H|].
  destruct (is_dotdot (c0 :: c')) eqn:Edd.
  - destruct s as [|top rest]; [discriminate H|].
    destruct (is_dotdot top) eqn:Et.
    + cbn [no_dotdot forallb]. rewrite Edd. reflexivity.
    + cbn [no_dotdot forallb] in H. rewrite Et in H. exact H.
  - cbn [no_dotdot forallb]. rewrite Edd. cbn [negb andb]. exact H.
Qed.

Lemma dotdot_persists cs : forall s, no_dotdot s = false -> no_dotdot (clean_stack false s cs) = false.
Proof.
  unfold clean_stack. induction cs as [|c cs IH]; intros s H; [exact H|].
  cbn [fold_left]. apply IH. apply dotdot_persists_step. exact H.
Qed.

(* the key lemma: if cleaning the components alone (non-rooted, from the empty stack) ends without
   "..", then cleaning them on top of any base stack, rooted or not, never touches the base *)
Lemma clean_stack_on_base rooted base cs : forall s,
  no_dotdot s = true -> no_dotdot (clean_stack false s cs) = true ->
  clean_stack rooted (s ++ base) cs = clean_stack false s cs ++ base.
Proof.
  unfold clean_stack. induction cs as [|c cs IH]; intros s Hs Hfin; [reflexivity|].
  cbn [fold_left] in *.
  assert (Hs' : no_dotdot (clean_step false s c) = true).
  { destruct (no_dotdot (clean_step false s c)) eqn:E; [reflexivity|].
    pose proof (dotdot_persists cs _ E) as Hp. unfold clean_stack in Hp. rewrite Hp in Hfin. discriminate. }
  rewrite <- (IH _ Hs' Hfin). f_equal.
  unfold clean_step in *. destruct c as [|c0 c']; [reflexivity|].
  destruct (is_dot (c0 :: c')); [reflexivity|].
  destruct (is_dotdot (c0 :: c')) eqn:Edd; [|reflexivity].
  destruct s as [|top rest].
  - cbn [no_dotdot forallb] in Hs'. rewrite Edd in Hs'. discriminate.
  - cbn [no_dotdot forallb] in Hs. apply andb_prop in Hs. destruct Hs as [Ht _].
    apply negb_true_iff in Ht. cbn [app]. rewrite Ht. reflexivity.
Qed.

(* shape and component invariants of the non-rooted clean *)
Lemma shape_step s c : shape s = true -> shape (clean_step false s c) = true.
Proof.
  intros H. unfold clean_step. destruct c as [|c0 c']; [exact H|].
  destruct (is_dot (c0 :: c')); [exact H|].
  destruct (is_dotdot (c0 :: c')) eqn:Edd.
  - destruct s as [|top rest]; [cbn; rewrite Edd; reflexivity|].
    destruct (is_dotdot top) eqn:Et.
    + cbn [shape]. rewrite Edd. cbn [all_dotdot forallb]. rewrite Et. cbn [shape] in H. rewrite Et in H. exact H.
    + cbn [shape] in H. rewrite Et in H. exact H.
  - cbn [shape]. rewrite Edd. exact H.
Qed.
Lemma shape_clean cs : forall s, shape s = true -> shape (clean_stack false s cs) = true.
Proof. unfold clean_stack. induction cs as [|c cs IH]; intros s H; [exact H|]. cbn [fold_left]. apply IH, shape_step, H. Qed.

Lemma comps_step rooted s c : forallb comp_ok s = true -> forallb comp_ok (clean_step rooted s c) = true.
Proof.
  intros H. unfold clean_step. destruct c as [|c0 c']; [exact H|].
  destruct (is_dot (c0 :: c')) eqn:Ed; [exact H|].
  destruct (is_dotdot (c0 :: c')) eqn:Edd.
  - destruct s as [|top rest].
    + destruct rooted; [reflexivity|]. cbn [forallb]. unfold comp_ok. rewrite Ed. reflexivity.
    + destruct (is_dotdot top).
      * cbn [forallb]. unfold comp_ok at 1. rewrite Ed. cbn [str_eqb length Nat.eqb andb negb]. exact H.
      * cbn [forallb] in H. apply andb_prop in H. apply H.
  - cbn [forallb]. unfold comp_ok at 1. rewrite Ed. cbn [str_eqb length Nat.eqb andb negb]. exact H.
Qed.
Lemma comps_clean rooted cs : forall s, forallb comp_ok s = true -> forallb comp_ok (clean_stack rooted s cs) = true.
Proof. unfold clean_stack. induction cs as [|c cs IH]; intros s H; [exact H|]. cbn [fold_left]. apply IH, comps_step, H. Qed.

(* in a well-shaped stack, ".." anywhere means ".." at the bottom *)
Lemma shape_bottom s : shape s = true -> no_dotdot s = false -> is_dotdot (last s []) = true.
Proof.
  induction s as [|x r IH]; intros Hs Hn; [discriminate|].
  cbn [shape] in Hs. cbn [no_dotdot forallb] in Hn.
  destruct (is_dotdot x) eqn:Ex.
  - destruct r as [|y r']; [exact Ex|].
    assert (Hall : forall l d, all_dotdot l = true -> l <> [] -> is_dotdot (last l d) = true).
    { induction l as [|a l IHl]; intros d Ha Hne; [congruence|]. cbn [all_dotdot forallb] in Ha.
      apply andb_prop in Ha. destruct Ha as [Ha Hl]. destruct l as [|b l']; [exact Ha|].
      change (last (a :: b :: l') d) with (last (b :: l') d). apply IHl; [exact Hl|discriminate]. }
    change (last (x :: y :: r') []) with (last (y :: r') []). apply Hall; [exact Hs|discriminate].
  - cbn [negb andb] in Hn. destruct r as [|y r']; [discriminate Hn|].
    change (last (x :: y :: r') []) with (last (y :: r') []). apply IH; assumption.
Qed.

Lemma join_slash_head c r : c <> [] -> hd 0 (join_slash (c :: r)) = hd 0 c.
Proof. intros Hc. destruct c as [|x c']; [congruence|]. destruct r; reflexivity. Qed.

Lemma rev_head {A} (l : list A) d : l <> [] -> hd d (rev l) = last l d.
Proof.
  induction l as [|x l IH]; intros H; [congruence|].
  cbn [rev]. destruct l as [|y l']; [reflexivity|].
  change (last (x :: y :: l') d) with (last (y :: l') d). rewrite <- IH by discriminate.
  destruct (rev (y :: l')) eqn:E; [|reflexivity].
  apply (f_equal (@length A)) in E. rewrite rev_length in E. discriminate.
Qed.

(* the stack a checkFilename-accepted name cleans to *)
Theorem check_filename_stack name :
  check_filename name = Ok tt ->
  let st := clean_stack false [] (split_slash name) in
  st <> [] /\ no_dotdot st = true /\ forallb comp_ok st = true /\ is_abs name = false /\
  clean name = join_slash (rev st).
Proof.
  unfold check_filename. destruct (is_abs name) eqn:Ea; [discriminate|].
  intros H. cbn zeta.
  set (st := clean_stack false [] (split_slash name)).
  assert (Hc : clean name = render false st).
  { unfold clean. destruct name; [reflexivity|]. rewrite Ea. reflexivity. }
  assert (Hname : name <> []).
  { intros ->. cbn in H. discriminate. }
  rewrite Hc in H.
  assert (Hcomp : forallb comp_ok st = true) by (apply comps_clean; reflexivity).
  assert (Hshape : shape st = true) by (apply shape_clean; reflexivity).
  destruct st as [|top rest] eqn:Est.
  - cbn in H. discriminate.
  - split; [discriminate|]. rewrite <- Est in *.
    assert (Hr : render false st = join_slash (rev st)) by (rewrite Est; reflexivity).
    rewrite Hr in H. rewrite Hr in Hc.
    split; [|split; [exact Hcomp|split; [reflexivity|exact Hc]]].
    destruct (no_dotdot st) eqn:End; [reflexivity|exfalso].
    pose proof (shape_bottom st Hshape End) as Hb.
    assert (Hne : st <> []) by (rewrite Est; discriminate).
    destruct (rev st) as [|c r] eqn:Erev.
    { apply (f_equal (@length _)) in Erev. rewrite rev_length, Est in Erev. discriminate. }
    assert (Hcl : c = last st []).
    { pose proof (rev_head st [] Hne) as Hh. rewrite Erev in Hh. exact Hh. }
    rewrite <- Hcl in Hb. apply str_eqb_eq in Hb. subst c.
    cbn in H. destruct r; cbn in H; discriminate.
Qed.

(* C15 core: joined under any directory stack (rooted or not), the accepted name's components sit
   on top of the directory's components unchanged, contain no "..", and are non-empty *)
Theorem accepted_name_stays_below name rooted base :
  check_filename name = Ok tt ->
  exists st, st <> [] /\ no_dotdot st = true /\ forallb comp_ok st = true /\
             clean_stack rooted base (split_slash name) = st ++ base.
Proof.
  intros H. destruct (check_filename_stack name H) as (Hne & Hnd & Hcomp & _ & _).
  exists (clean_stack false [] (split_slash name)). repeat split; try assumption.
  apply (clean_stack_on_base rooted base (split_slash name) []); [reflexivity|exact Hnd].
Qed.

Lemma split_slash_app d n : split_slash (d ++ SLASH :: n) = split_slash d ++ split_slash n.
Proof.
  induction d as [|c d IH]; [reflexivity|].
  cbn [app split_slash]. destruct (c =? SLASH) eqn:E; [rewrite IH; reflexivity|].
  rewrite IH. destruct (split_slash d) as [|h t] eqn:Ed; [|reflexivity].
  destruct d; cbn in Ed; [discriminate|]. destruct (n0 =? SLASH); [discriminate|].
  destruct (split_slash d); discriminate.
Qed.

(* filepath.Join(dir, name) for a non-empty directory string: the directory's own clean stack with
   the name's components on top *)
Theorem join_accepted d name :
  d <> [] -> check_filename name = Ok tt ->
  exists st, st <> [] /\ no_dotdot st = true /\ forallb comp_ok st = true /\
    join2 d name = render (is_abs d) (st ++ clean_stack (is_abs d) [] (split_slash d)).
Proof.
  intros Hd H.
  destruct (check_filename_stack name H) as (Hne & Hnd & Hcomp & Hab & _).
  assert (Hname : name <> []) by (intros ->; cbn in H; discriminate).
  destruct (accepted_name_stays_below name (is_abs d) (clean_stack (is_abs d) [] (split_slash d)) H)
    as (st & Hst & Hnd' & Hc' & Heq).
  exists st. repeat split; try assumption.
  unfold join2. destruct d as [|d0 d']; [congruence|]. destruct name as [|n0 n']; [congruence|].
  unfold clean. cbn [app]. change (is_abs (d0 :: d' ++ SLASH :: n0 :: n')) with (is_abs (d0 :: d')).
  change (d0 :: d' ++ SLASH :: n0 :: n') with ((d0 :: d') ++ SLASH :: n0 :: n').
  rewrite split_slash_app. unfold clean_stack in *. rewrite fold_left_app. rewrite Heq. reflexivity.
Qed.
