(* Histories of external modifications, Verify and Repair (Model/History.v):
   Verify is the identity on the file map; one Repair step leaves every path
   with its previous content or with content matching the archive's records;
   lifted by induction to any history, for PAR2 and PAR1. *)
From Coq Require Import Lia.
From Gopar Require Import Model.Base Model.CRC Model.GoPath Model.FS Model.Par2 Model.Par1 Model.History
     Proofs.GoPathFacts Proofs.Par2Facts Proofs.Par1Facts.
Open Scope N_scope.
Set Default Timeout 120.

(** * lookups after set / remove / a list of writes *)

Lemma str_eqb_neq a b : a <> b -> str_eqb a b = false.
Proof.
  intros Hne. destruct (str_eqb a b) eqn:E; [|reflexivity].
  exfalso. apply Hne. apply str_eqb_eq. exact E.
Qed.

Lemma path_eq_dec (a b : list N) : a = b \/ a <> b.
Proof.
  destruct (str_eqb a b) eqn:E.
  - left. apply str_eqb_eq. exact E.
  - right. intros ->. rewrite str_eqb_refl in E. discriminate.
Qed.

Lemma fs_lookup_set_same : forall f p d, fs_lookup (fs_set f p d) p = Some d.
Proof.
  induction f as [|[q e] r IH]; intros p d.
  - cbn [fs_set fs_lookup]. rewrite str_eqb_refl. reflexivity.
  - cbn [fs_set]. destruct (str_eqb q p) eqn:E; cbn [fs_lookup]; rewrite E; [reflexivity|apply IH].
Qed.

Lemma fs_lookup_set_other : forall f p d q, p <> q -> fs_lookup (fs_set f p d) q = fs_lookup f q.
Proof.
  induction f as [|[k e] r IH]; intros p d q Hne.
  - cbn [fs_set fs_lookup]. rewrite (str_eqb_neq p q Hne). reflexivity.
  - cbn [fs_set]. destruct (str_eqb k p) eqn:E; cbn [fs_lookup].
    + apply str_eqb_eq in E. subst k. rewrite (str_eqb_neq p q Hne). reflexivity.
    + rewrite (IH p d q Hne). reflexivity.
Qed.

Lemma fs_lookup_remove_other : forall f p q, p <> q -> fs_lookup (fs_remove f p) q = fs_lookup f q.
Proof.
  induction f as [|[k e] r IH]; intros p q Hne.
  - reflexivity.
  - cbn [fs_remove]. destruct (str_eqb k p) eqn:E; cbn [fs_lookup].
    + apply str_eqb_eq in E. subst k. rewrite (str_eqb_neq p q Hne). apply IH. exact Hne.
    + rewrite (IH p q Hne). reflexivity.
Qed.

Lemma apply_writes_lookup : forall ws fs q,
  fs_lookup (apply_writes ws fs) q = fs_lookup fs q \/
  exists d, In (q, d) ws /\ fs_lookup (apply_writes ws fs) q = Some d.
Proof.
  induction ws as [|[p e] ws IH]; intros fs q.
  - left. reflexivity.
  - change (apply_writes ((p, e) :: ws) fs) with (apply_writes ws (fs_set fs p e)).
    destruct (IH (fs_set fs p e) q) as [Heq|[d [Hin Hd]]].
    + destruct (path_eq_dec p q) as [->|Hne].
      * right. exists e. split; [left; reflexivity|]. rewrite Heq. apply fs_lookup_set_same.
      * left. rewrite Heq. apply fs_lookup_set_other. exact Hne.
    + right. exists d. split; [right; exact Hin|exact Hd].
Qed.

Definition external_ok (q : list N) (o : hop) : Prop :=
  match o with HSet p _ => p <> q | HDelete p => p <> q | _ => True end.

Section HistoryFacts.
  Variable md5 : bytes -> bytes.

  (** * PAR2 *)

  (* "matches the archive": the content has the length and both hashes that SOME
     entry of the loaded PAR2 set records for this path *)
  Definition matches2 (ix : list N) (fs : list (list N * bytes)) (q : list N) (d : bytes) : Prop :=
    exists ds st1 info, load_all md5 ix (io_init fs []) = (Ok ds, st1) /\ In info (d_rec (ds_dec ds)) /\
      q = file_path ix (di_name info) /\ md5 d = di_hash info /\ Par2.hash16k md5 d = di_h16 info /\
      N.of_nat (length d) = di_len info.

  Theorem hstep2_verify_id : forall ix fs, hstep2 md5 ix fs HVerify = fs.
  Proof. intros ix fs. cbn [hstep2]. rewrite verify_pure. reflexivity. Qed.

  Theorem hstep2_repair_monotone : forall ix dbl fs q,
    fs_lookup (hstep2 md5 ix fs (HRepair dbl)) q = fs_lookup fs q \/
    exists d, fs_lookup (hstep2 md5 ix fs (HRepair dbl)) q = Some d /\ matches2 ix fs q d.
  Proof.
    intros ix dbl fs q. cbn [hstep2].
    destruct (par2_repair md5 ix dbl (io_init fs [])) as [[r rp] st'] eqn:E. cbn [snd].
    apply repair_writes in E. destruct E as [[Hfs _]|(ds & st1 & ws & Hload & Hfs & _ & Hws)].
    - left. rewrite Hfs. reflexivity.
    - rewrite Hfs. destruct (apply_writes_lookup ws fs q) as [Heq|[d [Hin Hd]]].
      + left. exact Heq.
      + right. exists d. split; [exact Hd|].
        rewrite Forall_forall in Hws. destruct (Hws (q, d) Hin) as (info & Hi & Hp & Hh & Hh16 & Hl).
        cbn [fst snd] in Hp, Hh, Hh16, Hl.
        exists ds, st1, info. repeat split; assumption.
  Qed.

  Lemma hstep2_monotone : forall ix o fs q, external_ok q o ->
    fs_lookup (hstep2 md5 ix fs o) q = fs_lookup fs q \/
    exists d, fs_lookup (hstep2 md5 ix fs o) q = Some d /\ matches2 ix fs q d.
  Proof.
    intros ix o fs q Hok. destruct o as [p d|p| |dbl].
    - left. cbn [hstep2]. apply fs_lookup_set_other. exact Hok.
    - left. cbn [hstep2]. apply fs_lookup_remove_other. exact Hok.
    - left. rewrite hstep2_verify_id. reflexivity.
    - apply hstep2_repair_monotone.
  Qed.

  Theorem history2_monotone : forall ix h fs q,
    (forall o, In o h -> match o with HSet p _ => p <> q | HDelete p => p <> q | _ => True end) ->
    fs_lookup (hrun2 md5 ix h fs) q = fs_lookup fs q \/
    exists d fs', fs_lookup (hrun2 md5 ix h fs) q = Some d /\ matches2 ix fs' q d.
  Proof.
    intros ix h. induction h as [|o h IH]; intros fs q Hall.
    - left. reflexivity.
    - change (hrun2 md5 ix (o :: h) fs) with (hrun2 md5 ix h (hstep2 md5 ix fs o)).
      destruct (IH (hstep2 md5 ix fs o) q) as [Heq|Hm].
      + intros o' Hin. apply Hall. right. exact Hin.
      + rewrite Heq.
        destruct (hstep2_monotone ix o fs q) as [Hs|[d [Hd Hm]]].
        * apply (Hall o). left. reflexivity.
        * left. exact Hs.
        * right. exists d, fs. split; assumption.
      + right. exact Hm.
  Qed.

  Theorem history2_verify_only : forall ix h fs, Forall (fun o => o = HVerify) h -> hrun2 md5 ix h fs = fs.
  Proof.
    intros ix h. induction h as [|o h IH]; intros fs Hall.
    - reflexivity.
    - inversion Hall as [|? ? Ho Hall']; subst.
      change (hrun2 md5 ix (HVerify :: h) fs) with (hrun2 md5 ix h (hstep2 md5 ix fs HVerify)).
      rewrite hstep2_verify_id. apply IH. exact Hall'.
  Qed.

  (** * PAR1 *)

  Definition matches1 (ix : list N) (fs : list (list N * bytes)) (q : list N) (d : bytes) : Prop :=
    exists s st1 e, p1_load md5 ix (io_init fs []) = (Ok s, st1) /\ In e (s_saved s) /\ q = join2 (dir ix) (e_name e) /\
      md5 d = e_hash e /\ Par1.hash16k md5 d = e_h16 e /\ N.of_nat (length d) = e_len e.

  Theorem hstep1_verify_id : forall ix fs, hstep1 md5 ix fs HVerify = fs.
  Proof. intros ix fs. cbn [hstep1]. rewrite par1_verify_pure. reflexivity. Qed.

  Theorem hstep1_repair_monotone : forall ix dbl fs q,
    fs_lookup (hstep1 md5 ix fs (HRepair dbl)) q = fs_lookup fs q \/
    exists d, fs_lookup (hstep1 md5 ix fs (HRepair dbl)) q = Some d /\ matches1 ix fs q d.
  Proof.
    intros ix dbl fs q. cbn [hstep1].
    destruct (par1_repair md5 ix dbl (io_init fs [])) as [[r rp] st'] eqn:E. cbn [snd].
    apply par1_repair_writes in E. destruct E as [[Hfs _]|(s & st1 & ws & Hload & Hfs & _ & Hws)].
    - left. rewrite Hfs. reflexivity.
    - rewrite Hfs. destruct (apply_writes_lookup ws fs q) as [Heq|[d [Hin Hd]]].
      + left. exact Heq.
      + right. exists d. split; [exact Hd|].
        rewrite Forall_forall in Hws. destruct (Hws (q, d) Hin) as (e & Hi & _ & Hp & Hh & Hh16 & Hl).
        cbn [fst snd] in Hp, Hh, Hh16, Hl.
        exists s, st1, e. repeat split; assumption.
  Qed.

  Lemma hstep1_monotone : forall ix o fs q, external_ok q o ->
    fs_lookup (hstep1 md5 ix fs o) q = fs_lookup fs q \/
    exists d, fs_lookup (hstep1 md5 ix fs o) q = Some d /\ matches1 ix fs q d.
  Proof.
    intros ix o fs q Hok. destruct o as [p d|p| |dbl].
    - left. cbn [hstep1]. apply fs_lookup_set_other. exact Hok.
    - left. cbn [hstep1]. apply fs_lookup_remove_other. exact Hok.
    - left. rewrite hstep1_verify_id. reflexivity.
    - apply hstep1_repair_monotone.
  Qed.

  Theorem history1_monotone : forall ix h fs q,
    (forall o, In o h -> match o with HSet p _ => p <> q | HDelete p => p <> q | _ => True end) ->
    fs_lookup (hrun1 md5 ix h fs) q = fs_lookup fs q \/
    exists d fs', fs_lookup (hrun1 md5 ix h fs) q = Some d /\ matches1 ix fs' q d.
  Proof.
    intros ix h. induction h as [|o h IH]; intros fs q Hall.
    - left. reflexivity.
    - change (hrun1 md5 ix (o :: h) fs) with (hrun1 md5 ix h (hstep1 md5 ix fs o)).
      destruct (IH (hstep1 md5 ix fs o) q) as [Heq|Hm].
      + intros o' Hin. apply Hall. right. exact Hin.
      + rewrite Heq.
        destruct (hstep1_monotone ix o fs q) as [Hs|[d [Hd Hm]]].
        * apply (Hall o). left. reflexivity.
        * left. exact Hs.
        * right. exists d, fs. split; assumption.
      + right. exact Hm.
  Qed.

  Theorem history1_verify_only : forall ix h fs, Forall (fun o => o = HVerify) h -> hrun1 md5 ix h fs = fs.
  Proof.
    intros ix h. induction h as [|o h IH]; intros fs Hall.
    - reflexivity.
    - inversion Hall as [|? ? Ho Hall']; subst.
      change (hrun1 md5 ix (HVerify :: h) fs) with (hrun1 md5 ix h (hstep1 md5 ix fs HVerify)).
      rewrite hstep1_verify_id. apply IH. exact Hall'.
  Qed.
End HistoryFacts.

Print Assumptions hstep2_verify_id.
Print Assumptions hstep2_repair_monotone.
Print Assumptions history2_monotone.
Print Assumptions history2_verify_only.
Print Assumptions hstep1_verify_id.
Print Assumptions hstep1_repair_monotone.
Print Assumptions history1_monotone.
Print Assumptions history1_verify_only.
