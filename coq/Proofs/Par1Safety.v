(* Safety of the PAR 1.0 decoder model (Model/Par1.v, Model/GF8.v) over the fault-injecting
   file system (Model/FS.v):
   A. Verify and Repair never panic, for every file-system state and fault schedule;
   B. every write event of Repair targets join2 (dir ix) n for a name n with base n = n, i.e. a
      direct child of the index file's directory;
   C. success means that no scheduled fault was hit, and a run changes only the paths it issued
      write calls for. *)
From Coq Require Import Lia.
From Gopar Require Import Model.Base Model.Matrix Model.RS16 Model.GF8 Model.CRC Model.GoPath Model.FS Model.Par1
     Proofs.LinAlg Proofs.RS16Facts Proofs.GoPathFacts Proofs.Par2Facts Proofs.Par2Verify Proofs.Par2Faults
     Proofs.GF8Facts Proofs.Par1Facts.
Open Scope N_scope.
Set Default Timeout 120.

(** * matrix inversion panics only on a non-square operand *)

Lemma echelon_np (mul : N -> N -> N) (inv : N -> N) q : forall fuel rows i mn,
  echelon mul inv rows i fuel mn <> Panic q.
Proof.
  induction fuel as [|fuel IH]; intros rows i mn; cbn [echelon]; [discriminate|].
  cbv zeta. destruct (find_pivot (fst mn) i i (rows - i)) as [j|]; [apply IH|discriminate].
Qed.

Lemma Inverse_np (mul : N -> N -> N) (inv : N -> N) m q : is_square m = true -> Inverse mul inv m <> Panic q.
Proof.
  intros Hsq. unfold Inverse, row_reduce_pair. rewrite Hsq. cbn [negb]. cbv zeta.
  pose proof (echelon_np mul inv q (length m) (length m) 0%nat (m, identity (length m))) as H.
  destruct (echelon mul inv (length m) 0 (length m) (m, identity (length m))) as [mn|e|q'];
    cbn [obind]; [discriminate|discriminate|congruence].
Qed.

Lemma enc_row_length d p i : (i < d + p)%nat -> length (enc_row d p i) = d.
Proof.
  intros Hi. unfold enc_row. destruct (Nat.ltb_spec i d) as [Lt|Ge].
  - rewrite map_length, seq_length. reflexivity.
  - assert (HM : forall r, In r (par1_pm d p) -> length r = d).
    { unfold par1_pm. intros r Hr. apply in_map_iff in Hr. destruct Hr as [j [<- _]].
      rewrite map_length, seq_length. reflexivity. }
    apply HM. apply nth_In. unfold par1_pm. rewrite map_length, seq_length. lia.
Qed.

(* the library's Reconstruct: the sub-matrix handed to Inverse is always square *)
Lemma par1_reconstruct_np d p (sh : list (option bytes)) q : par1_reconstruct d p sh <> Panic q.
Proof.
  unfold par1_reconstruct. cbv zeta.
  destruct (Nat.eqb_spec (length sh) (d + p)) as [Hl|_]; cbn [negb]; [|discriminate].
  destruct (Nat.eqb (count_present sh) (d + p)); [discriminate|].
  destruct (Nat.ltb_spec (count_present sh) d) as [_|Ge]; [discriminate|].
  rewrite take_present_used.
  set (valid := used_parity d 0 sh).
  set (sub := map (fun ks : nat * bytes => enc_row d p (fst ks)) valid).
  assert (Hvl : length valid = d).
  { unfold valid. rewrite used_parity_count, <- count_present_somes. lia. }
  assert (Hsq : is_square sub = true).
  { unfold is_square. apply forallb_forall. intros r Hr. apply Nat.eqb_eq.
    unfold sub in *. rewrite map_length, Hvl.
    apply in_map_iff in Hr. destruct Hr as [[k s] [<- Hks]]. cbn [fst].
    unfold valid in Hks. destruct (used_parity_in sh d 0%nat k s Hks) as [R1 _].
    apply enc_row_length. lia. }
  pose proof (Inverse_np g8mul g8inv sub q Hsq) as HI.
  change (Inverse8 sub <> Panic q) in HI.
  destruct (Inverse8 sub) as [inv|e|q']; [discriminate|discriminate|congruence].
Qed.

(** * path lemmas *)

Definition bare_name (n : list N) : Prop := n <> [] /\ ~ In SLASH n /\ n <> [DOT] /\ n <> [DOT; DOT].

Lemma skipn_dpl_noslash : forall t, ~ In SLASH (skipn (dir_prefix_len t) t).
Proof.
  induction t as [|c r IH]; [intros []|].
  cbn [dir_prefix_len]. cbv zeta.
  destruct (dir_prefix_len r) as [|k]; cbn [Nat.eqb].
  - cbn [skipn] in IH. destruct (N.eqb_spec c SLASH) as [E|Hne]; cbn [skipn].
    + exact IH.
    + intros [E|Hin]; [apply Hne; exact E|apply IH; exact Hin].
  - cbn [skipn] in *. exact IH.
Qed.

(* the names PAR1 accepts (base n = n): ".", "/", or a non-empty string without a separator *)
Lemma base_fixed_cases : forall n, base n = n -> n = [DOT] \/ n = [SLASH] \/ (n <> [] /\ ~ In SLASH n).
Proof.
  intros n. destruct n as [|c r]; [unfold base; discriminate|].
  unfold base. cbv beta iota zeta.
  destruct (rev (strip_trailing_slashes (rev (c :: r)))) as [|t0 t'].
  - intros H. right. left. symmetry. exact H.
  - intros H. right. right. split; [discriminate|]. rewrite <- H. apply skipn_dpl_noslash.
Qed.

Lemma split_slash_noslash : forall n, ~ In SLASH n -> split_slash n = [n].
Proof.
  induction n as [|c r IH]; intros H; [reflexivity|].
  cbn [split_slash]. destruct (N.eqb_spec c SLASH) as [E|_].
  - exfalso. apply H. left. exact E.
  - rewrite IH by (intros Hin; apply H; right; exact Hin). reflexivity.
Qed.

Lemma clean_step_ordinary rooted stack c : c <> [] -> c <> [DOT] -> c <> [DOT; DOT] ->
  clean_step rooted stack c = c :: stack.
Proof.
  intros H0 H1 H2. unfold clean_step. destruct c as [|c0 c']; [congruence|].
  unfold is_dot, is_dotdot. rewrite (str_eqb_neq _ _ H1), (str_eqb_neq _ _ H2). reflexivity.
Qed.

(* a bare file name joined to a directory: the directory's clean components plus exactly that one *)
Theorem bare_join_child : forall d n, d <> [] -> bare_name n ->
  join2 d n = render (is_abs d) (n :: clean_stack (is_abs d) [] (split_slash d)).
Proof.
  intros d n Hd (Hn & Hs & Hdot & Hdd).
  destruct d as [|d0 d']; [congruence|]. destruct n as [|n0 n']; [congruence|].
  unfold join2. unfold clean. cbn [app].
  change (is_abs (d0 :: d' ++ SLASH :: n0 :: n')) with (is_abs (d0 :: d')).
  change (d0 :: d' ++ SLASH :: n0 :: n') with ((d0 :: d') ++ SLASH :: n0 :: n').
  rewrite split_slash_app, (split_slash_noslash (n0 :: n') Hs).
  unfold clean_stack. rewrite fold_left_app. cbn [fold_left].
  rewrite (clean_step_ordinary _ _ _ Hn Hdot Hdd). reflexivity.
Qed.

Lemma io_write_trace p d st : exists ok, io_trace (snd (io_write p d st)) = io_trace st ++ [EvWrite p d ok].
Proof.
  unfold io_write. destruct (sched_lookup (io_sched st) (io_n st)) as [[|k]|]; cbn [snd tick io_trace];
    eexists; reflexivity.
Qed.

Section Par1Safety.
  Variable md5 : bytes -> bytes.

  (** * A. never panics *)

  Lemma read_entry_np buf q : read_entry buf <> Panic q.
  Proof.
    unfold read_entry. cbv zeta.
    repeat lazymatch goal with |- (if ?c then _ else _) <> _ => destruct c end; discriminate.
  Qed.

  Lemma read_entries_np q : forall n buf, read_entries n buf <> Panic q.
  Proof.
    induction n as [|n IH]; intros buf; cbn [read_entries]; [discriminate|].
    pose proof (read_entry_np buf q) as H1.
    destruct (read_entry buf) as [er|e|q']; cbn [obind]; [|discriminate|congruence].
    pose proof (IH (snd er)) as H2.
    destruct (read_entries n (snd er)) as [rr|e|q']; cbn [obind]; [discriminate|discriminate|congruence].
  Qed.

  Lemma read_volume_np b q : read_volume md5 b <> Panic q.
  Proof.
    unfold read_volume. cbv zeta.
    repeat lazymatch goal with |- (if ?c then _ else _) <> _ => destruct c; [discriminate|] end.
    match goal with |- context [read_entries ?n ?buf] =>
      pose proof (read_entries_np q n buf) as H; destruct (read_entries n buf) as [er|e|q'] end;
      cbn [obind]; [discriminate|discriminate|congruence].
  Qed.

  Lemma entry_path_np ix e q : entry_path ix e <> Panic q.
  Proof. unfold entry_path. destruct (negb (str_eqb (base (e_name e)) (e_name e))); discriminate. Qed.

  Lemma load_data_np ix q : forall es st, fst (load_data md5 ix es st) <> Panic q.
  Proof.
    induction es as [|e r IH]; intros st; cbn [load_data]; [cbn [fst]; discriminate|].
    pose proof (entry_path_np ix e q) as HP.
    destruct (entry_path ix e) as [p|x|q']; [|cbn [fst]; discriminate|cbn [fst]; congruence].
    pose proof (io_read_np p st q) as HR.
    destruct (io_read p st) as [[data|x|q'] st1]; cbn [fst] in HR.
    - pose proof (IH st1) as H2.
      destruct (load_data md5 ix r st1) as [[ds|x|q'] st2]; cbn [fst] in *; [discriminate|discriminate|congruence].
    - destruct x; try (cbn [fst]; discriminate).
      pose proof (IH st1) as H2.
      destruct (load_data md5 ix r st1) as [[ds|x|q'] st2]; cbn [fst] in *; [discriminate|discriminate|congruence].
    - cbn [fst]. congruence.
  Qed.

  Lemma load_vols_np ix sh q : forall n i size acc st, fst (load_vols md5 ix sh i n size acc st) <> Panic q.
  Proof.
    induction n as [|n IH]; intros i size acc st; cbn [load_vols]; [cbn [fst]; discriminate|].
    pose proof (io_read_np (volume_path ix (N.of_nat (S i))) st q) as HR.
    destruct (io_read (volume_path ix (N.of_nat (S i))) st) as [[b|x|q'] st1]; cbn [fst] in HR.
    - pose proof (read_volume_np b q) as HV.
      destruct (read_volume md5 b) as [v|x|q']; [|apply IH|cbn [fst]; congruence].
      repeat lazymatch goal with
             | |- fst (if ?c then _ else _) <> _ => destruct c; [first [cbn [fst]; discriminate | apply IH]|]
             end.
      apply IH.
    - destruct x; try (cbn [fst]; discriminate). apply IH.
    - cbn [fst]. congruence.
  Qed.

  Lemma p1_load_np ix st q : fst (p1_load md5 ix st) <> Panic q.
  Proof.
    unfold p1_load.
    lazymatch goal with |- fst (if ?c then _ else _) <> _ => destruct c end; [cbn [fst]; discriminate|].
    pose proof (io_read_np ix st q) as HR.
    destruct (io_read ix st) as [[b|x|q'] st1]; cbn [fst] in HR; [|cbn [fst]; discriminate|cbn [fst]; congruence].
    pose proof (read_volume_np b q) as HV.
    destruct (read_volume md5 b) as [v|x|q']; [|cbn [fst]; discriminate|cbn [fst]; congruence].
    lazymatch goal with |- fst (if ?c then _ else _) <> _ => destruct c end; [cbn [fst]; discriminate|].
    pose proof (load_data_np ix q (filter saved (v_entries v)) st1) as HD.
    destruct (load_data md5 ix (filter saved (v_entries v)) st1) as [[ds|x|q'] st2]; cbn [fst] in HD;
      [|cbn [fst]; discriminate|cbn [fst]; congruence].
    destruct ds as [|d0 ds]; [cbn [fst]; discriminate|].
    lazymatch goal with |- fst (if ?c then _ else _) <> _ => destruct c end; [cbn [fst]; discriminate|].
    cbv zeta.
    match goal with |- context [load_vols md5 ix ?a ?i ?n ?s ?acc st2] =>
      pose proof (load_vols_np ix a q n i s acc st2) as H3;
      destruct (load_vols md5 ix a i n s acc st2) as [[[slots size]|x|q'] st3] end;
      cbn [fst] in *; [discriminate|discriminate|congruence].
  Qed.

  Lemma build_shards_np s q : build_shards s <> Panic q.
  Proof.
    unfold build_shards.
    lazymatch goal with |- (if ?c then _ else _) <> _ => destruct c end; discriminate.
  Qed.

  Lemma rs_verify_np d p sh q : rs_verify d p sh <> Panic q.
  Proof.
    unfold rs_verify. cbv zeta.
    lazymatch goal with |- (if ?c then _ else _) <> _ => destruct c end; discriminate.
  Qed.

  Theorem par1_verify_no_panic : forall ix all st p, fst (par1_verify md5 ix all st) <> Panic p.
  Proof.
    intros ix all st p. unfold par1_verify.
    pose proof (p1_load_np ix st p) as HL.
    destruct (p1_load md5 ix st) as [[s|x|q] st1]; cbn [fst] in HL; [|cbn [fst]; discriminate|cbn [fst]; congruence].
    cbv zeta.
    lazymatch goal with |- fst (if ?c then _ else _) <> _ => destruct c end; [|cbn [fst]; discriminate].
    pose proof (build_shards_np s p) as HB.
    destruct (build_shards s) as [sh|x|q]; [|cbn [fst]; discriminate|cbn [fst]; congruence].
    match goal with |- context [rs_verify ?a ?b ?c] =>
      pose proof (rs_verify_np a b c p) as HV; destruct (rs_verify a b c) as [ok|x|q] end;
      cbn [fst]; [discriminate|discriminate|congruence].
  Qed.

  Lemma p1_write_repaired_np ix q : forall todo done st,
    fst (fst (p1_write_repaired md5 ix todo done st)) <> Panic q.
  Proof.
    induction todo as [|[e [o shard]] todo IH]; intros done st; cbn [p1_write_repaired]; cbv zeta.
    - cbn [fst]. discriminate.
    - destruct o as [given|]; [apply IH|].
      repeat lazymatch goal with
             | |- fst (fst (if ?c then _ else _)) <> _ => destruct c; [cbn [fst]; discriminate|]
             end.
      pose proof (entry_path_np ix e q) as HP.
      destruct (entry_path ix e) as [p|x|q']; [|cbn [fst]; discriminate|cbn [fst]; congruence].
      match goal with |- context [io_write p ?d st] =>
        pose proof (io_write_np p d st q) as HW; destruct (io_write p d st) as [[u|x|q'] st1] end;
        cbn [fst] in HW.
      + apply IH.
      + cbn [fst]. discriminate.
      + cbn [fst]. congruence.
  Qed.

  Theorem par1_repair_no_panic : forall ix dbl st p, fst (fst (par1_repair md5 ix dbl st)) <> Panic p.
  Proof.
    intros ix dbl st p. unfold par1_repair.
    pose proof (p1_load_np ix st p) as HL.
    destruct (p1_load md5 ix st) as [[s|x|q] st1]; cbn [fst] in HL; [|cbn [fst]; discriminate|cbn [fst]; congruence].
    cbv zeta.
    destruct (Nat.eqb (s_size s) 0).
    { destruct (Nat.eqb (count_none1 (s_data s)) 0); cbn [fst]; discriminate. }
    destruct (Nat.ltb 256 (length (s_data s) + length (s_parity s))); [cbn [fst]; discriminate|].
    pose proof (build_shards_np s p) as HB.
    destruct (build_shards s) as [sh|x|q]; [|cbn [fst]; discriminate|cbn [fst]; congruence].
    pose proof (par1_reconstruct_np (length (s_data s)) (length (s_parity s)) sh p) as HR.
    destruct (par1_reconstruct (length (s_data s)) (length (s_parity s)) sh) as [full|x|q];
      [|cbn [fst]; discriminate|cbn [fst]; congruence].
    destruct dbl.
    - match goal with |- context [rs_verify ?a ?b ?c] =>
        pose proof (rs_verify_np a b c p) as HV; destruct (rs_verify a b c) as [[|]|x|q] end; cbv beta iota.
      + apply p1_write_repaired_np.
      + cbn [fst]. discriminate.
      + cbn [fst]. discriminate.
      + cbn [fst]. congruence.
    - cbv beta iota. apply p1_write_repaired_np.
  Qed.

  (** * B. every write targets a direct child of the index file's directory *)

  Definition child_writes (ix : list N) (tr : list ioev) : Prop :=
    forall p d ok, In (EvWrite p d ok) tr -> exists n, base n = n /\ p = join2 (dir ix) n.

  Lemma p1_write_repaired_children ix : forall todo done st,
    child_writes ix (io_trace st) ->
    child_writes ix (io_trace (snd (p1_write_repaired md5 ix todo done st))).
  Proof.
    induction todo as [|[e [o shard]] todo IH]; intros done st H; cbn [p1_write_repaired]; cbv zeta.
    - cbn [snd]. exact H.
    - destruct o as [given|]; [apply IH; exact H|].
      repeat lazymatch goal with
             | |- child_writes _ (io_trace (snd (if ?c then _ else _))) => destruct c; [cbn [snd]; exact H|]
             end.
      destruct (entry_path ix e) as [p|x|q] eqn:EP; [|cbn [snd]; exact H|cbn [snd]; exact H].
      apply entry_path_ok in EP. destruct EP as [Eb Ep].
      match goal with |- context [io_write p ?d st] => set (dd := d) end.
      assert (H1 : child_writes ix (io_trace (snd (io_write p dd st)))).
      { destruct (io_write_trace p dd st) as [ok T]. rewrite T.
        intros p' d' ok' Hin. apply in_app_or in Hin. destruct Hin as [Hin|[E|[]]].
        - apply (H _ _ _ Hin).
        - injection E as <- _ _. exists (e_name e). split; [exact Eb|exact Ep]. }
      destruct (io_write p dd st) as [[u|x|q] st1]; cbn [snd] in H1.
      + apply IH. exact H1.
      + cbn [snd]. exact H1.
      + cbn [snd]. exact H1.
  Qed.

  Lemma par1_repair_children ix dbl st :
    child_writes ix (io_trace st) -> child_writes ix (io_trace (snd (par1_repair md5 ix dbl st))).
  Proof.
    intros H. unfold par1_repair.
    assert (H1 : child_writes ix (io_trace (snd (p1_load md5 ix st)))).
    { destruct (p1_load_pres md5 ix st) as (_ & _ & t & T & W). rewrite T.
      intros p d ok Hin. apply in_app_or in Hin. destruct Hin as [Hin|Hin]; [apply (H _ _ _ Hin)|].
      rewrite Forall_forall in W. destruct (W _ Hin). }
    destruct (p1_load md5 ix st) as [[s|x|q] st1]; cbn [snd] in H1; [|cbn [snd]; exact H1|cbn [snd]; exact H1].
    cbv zeta.
    repeat lazymatch goal with
           | |- child_writes _ (io_trace (snd (if ?c then _ else _))) => destruct c
           | |- child_writes _ (io_trace (snd (match ?c with Ok _ => _ | Err _ => _ | Panic _ => _ end))) => destruct c
           end; try (cbn [snd]; exact H1).
    apply p1_write_repaired_children. exact H1.
  Qed.

  Theorem par1_writes_direct_children : forall ix dbl fs sched p d ok,
    In (EvWrite p d ok) (io_trace (snd (par1_repair md5 ix dbl (io_init fs sched)))) ->
    exists n, base n = n /\ p = join2 (dir ix) n.
  Proof.
    intros ix dbl fs sched p d ok Hin.
    apply (par1_repair_children ix dbl (io_init fs sched)) with (d := d) (ok := ok); [|exact Hin].
    intros p' d' ok' [].
  Qed.

  (* the two statements combined: apart from the three degenerate names ".", "/" and ".." (which PAR1's
     base-name test lets through and which denote the directory itself or its parent, never a file below a
     different directory), the written path is the directory's clean components plus exactly the name *)
  Theorem par1_write_targets : forall ix dbl fs sched p d ok,
    In (EvWrite p d ok) (io_trace (snd (par1_repair md5 ix dbl (io_init fs sched)))) ->
    exists n, p = join2 (dir ix) n /\
      (n = [DOT] \/ n = [SLASH] \/ n = [DOT; DOT] \/
       (bare_name n /\
        p = render (is_abs (dir ix)) (n :: clean_stack (is_abs (dir ix)) [] (split_slash (dir ix))))).
  Proof.
    intros ix dbl fs sched p d ok Hin.
    destruct (par1_writes_direct_children ix dbl fs sched p d ok Hin) as (n & Hb & Hp).
    exists n. split; [exact Hp|].
    destruct (base_fixed_cases n Hb) as [E|[E|[Hne Hs]]]; [left; exact E|right; left; exact E|].
    destruct (list_eq_dec N.eq_dec n [DOT]) as [E1|N1]; [left; exact E1|].
    destruct (list_eq_dec N.eq_dec n [DOT; DOT]) as [E2|N2]; [right; right; left; exact E2|].
    right. right. right.
    assert (Hbare : bare_name n) by (split; [exact Hne|split; [exact Hs|split; assumption]]).
    split; [exact Hbare|]. rewrite Hp. apply bare_join_child; [|exact Hbare].
    unfold dir. apply clean_nonempty.
  Qed.

  (** * C. success means no scheduled fault was hit; only written paths change *)

  Lemma load_data_ok_nf ix : forall es st ds st', load_data md5 ix es st = (Ok ds, st') -> nf st st'.
  Proof.
    induction es as [|e r IH]; intros st ds st' H; cbn [load_data] in H.
    - injection H as _ <-. apply nf_refl.
    - destruct (entry_path ix e) as [p|x|q]; try discriminate H.
      destruct (io_read p st) as [[data|x|q] st1] eqn:ER.
      + destruct (load_data md5 ix r st1) as [[ds'|x|q] st2] eqn:EL; try discriminate H.
        injection H as _ <-.
        eapply nf_trans; [eapply io_read_ok_nf; exact ER|eapply IH; exact EL].
      + destruct x; try discriminate H.
        destruct (load_data md5 ix r st1) as [[ds'|x|q] st2] eqn:EL; try discriminate H.
        injection H as _ <-.
        eapply nf_trans; [eapply io_read_notexist_nf; exact ER|eapply IH; exact EL].
      + discriminate H.
  Qed.

  Lemma load_vols_ok_nf ix sh : forall n i size acc st r st',
    load_vols md5 ix sh i n size acc st = (Ok r, st') -> nf st st'.
  Proof.
    induction n as [|n IH]; intros i size acc st r st' H; cbn [load_vols] in H.
    - injection H as _ <-. apply nf_refl.
    - destruct (io_read (volume_path ix (N.of_nat (S i))) st) as [[b|x|q] st1] eqn:ER.
      + pose proof (io_read_ok_nf _ _ _ _ ER) as N1.
        destruct (read_volume md5 b) as [v|x|q]; [| |discriminate H].
        * repeat lazymatch type of H with (if ?c then _ else _) = _ =>
                   destruct c; [first [discriminate H | eapply nf_trans; [exact N1|eapply IH; exact H]]|] end.
          eapply nf_trans; [exact N1|eapply IH; exact H].
        * eapply nf_trans; [exact N1|eapply IH; exact H].
      + destruct x; try discriminate H.
        eapply nf_trans; [eapply io_read_notexist_nf; exact ER|eapply IH; exact H].
      + discriminate H.
  Qed.

  Lemma p1_load_ok_nf ix st s st' : p1_load md5 ix st = (Ok s, st') -> nf st st'.
  Proof.
    unfold p1_load. intros H.
    destruct (negb (str_eqb (ext ix) EXT_PAR)); [discriminate H|].
    destruct (io_read ix st) as [[b|x|q] st1] eqn:ER; try discriminate H.
    destruct (read_volume md5 b) as [v|x|q]; try discriminate H.
    destruct (negb (v_number v =? 0)); [discriminate H|].
    destruct (load_data md5 ix (filter saved (v_entries v)) st1) as [[ds|x|q] st2] eqn:EL; try discriminate H.
    destruct ds as [|d0 ds]; [discriminate H|].
    match type of H with context [if 256 <=? ?n then _ else _] => destruct (256 <=? n) end; [discriminate H|].
    match type of H with context [load_vols md5 ix ?a ?i ?n ?sz ?acc st2] =>
      destruct (load_vols md5 ix a i n sz acc st2) as [[[slots size]|x|q] st3] eqn:EV end; try discriminate H.
    injection H as _ <-.
    eapply nf_trans; [eapply io_read_ok_nf; exact ER|].
    eapply nf_trans; [eapply load_data_ok_nf; exact EL|eapply load_vols_ok_nf; exact EV].
  Qed.

  Theorem par1_verify_ok_no_fault : forall ix all st c st',
    par1_verify md5 ix all st = (Ok c, st') -> no_fault_between st st'.
  Proof.
    intros ix all st c st' H. unfold par1_verify in H.
    destruct (p1_load md5 ix st) as [[s|x|q] st1] eqn:EL; try discriminate H.
    apply p1_load_ok_nf in EL. cbv zeta in H.
    assert (E : st1 = st').
    { lazymatch type of H with (if ?c then _ else _) = _ => destruct c end.
      - destruct (build_shards s) as [sh|x|q]; try discriminate H.
        lazymatch type of H with context [rs_verify ?a ?b ?c] => destruct (rs_verify a b c) as [ok|x|q] end;
          try discriminate H.
        injection H as _ E. exact E.
      - injection H as _ E. exact E. }
    subst st'. apply EL.
  Qed.

  Lemma p1_write_repaired_ok_nf ix : forall todo done st rp st',
    p1_write_repaired md5 ix todo done st = ((Ok tt, rp), st') -> nf st st'.
  Proof.
    induction todo as [|[e [o shard]] todo IH]; intros done st rp st' H; cbn [p1_write_repaired] in H; cbv zeta in H.
    - injection H as _ <-. apply nf_refl.
    - destruct o as [given|]; [eapply IH; exact H|].
      repeat lazymatch type of H with (if ?c then _ else _) = _ => destruct c; [discriminate H|] end.
      destruct (entry_path ix e) as [p|x|q]; try discriminate H.
      lazymatch type of H with context [io_write p ?d st] =>
        destruct (io_write p d st) as [[u|x|q] st1] eqn:EW end; try discriminate H.
      eapply nf_trans; [eapply io_write_ok_nf; exact EW|eapply IH; exact H].
  Qed.

  Theorem par1_repair_ok_no_fault : forall ix dbl st rp st',
    par1_repair md5 ix dbl st = ((Ok tt, rp), st') -> no_fault_between st st'.
  Proof.
    intros ix dbl st rp st' H. unfold par1_repair in H.
    destruct (p1_load md5 ix st) as [[s|x|q] st1] eqn:EL; try discriminate H.
    apply p1_load_ok_nf in EL. cbv zeta in H.
    destruct (Nat.eqb (s_size s) 0).
    { destruct (Nat.eqb (count_none1 (s_data s)) 0); [|discriminate H]. injection H as _ <-. apply EL. }
    destruct (Nat.ltb 256 (length (s_data s) + length (s_parity s))); [discriminate H|].
    destruct (build_shards s) as [sh|x|q]; try discriminate H.
    destruct (par1_reconstruct (length (s_data s)) (length (s_parity s)) sh) as [full|x|q]; try discriminate H.
    match type of H with (match ?okdbl with _ => _ end) = _ => destruct okdbl as [[|]|x|q] end; try discriminate H.
    apply p1_write_repaired_ok_nf in H. apply (nf_trans _ _ _ EL H).
  Qed.

  Lemma p1_write_repaired_touched ix : forall todo done st,
    touched st (snd (p1_write_repaired md5 ix todo done st)).
  Proof.
    induction todo as [|[e [o shard]] todo IH]; intros done st; cbn [p1_write_repaired]; cbv zeta.
    - cbn [snd]. apply touched_refl.
    - destruct o as [given|]; [apply IH|].
      repeat lazymatch goal with
             | |- touched _ (snd (if ?c then _ else _)) => destruct c; [cbn [snd]; apply touched_refl|]
             end.
      destruct (entry_path ix e) as [p|x|q]; try (cbn [snd]; apply touched_refl).
      lazymatch goal with |- context [io_write p ?d st] =>
        pose proof (io_write_touched p d st) as TW;
        destruct (io_write p d st) as [[u|x|q] st1] end; cbn [snd] in TW.
      + eapply touched_trans; [exact TW|apply IH].
      + cbn [snd]. exact TW.
      + cbn [snd]. exact TW.
  Qed.

  Lemma par1_repair_touched ix dbl st : touched st (snd (par1_repair md5 ix dbl st)).
  Proof.
    unfold par1_repair.
    pose proof (p1_load_pres md5 ix st) as P. apply pres_touched in P.
    destruct (p1_load md5 ix st) as [[s|x|q] st1]; cbn [snd] in P; try (cbn [snd]; exact P).
    cbv zeta.
    repeat lazymatch goal with
           | |- touched _ (snd (if ?c then _ else _)) => destruct c
           | |- touched _ (snd (match ?c with Ok _ => _ | Err _ => _ | Panic _ => _ end)) => destruct c
           end; try (cbn [snd]; exact P).
    eapply touched_trans; [exact P|apply p1_write_repaired_touched].
  Qed.

  Theorem par1_repair_touches_only_written : forall ix dbl fs sched q,
    let st' := snd (par1_repair md5 ix dbl (io_init fs sched)) in
    ~ In q (written_paths (io_trace st')) -> fs_lookup (io_fs st') q = fs_lookup fs q.
  Proof.
    intros ix dbl fs sched q st' Hq. apply (touched_init fs sched st' q); [|exact Hq].
    apply par1_repair_touched.
  Qed.
End Par1Safety.

Print Assumptions par1_verify_no_panic.
Print Assumptions par1_repair_no_panic.
Print Assumptions par1_writes_direct_children.
Print Assumptions par1_write_targets.
Print Assumptions base_fixed_cases.
Print Assumptions bare_join_child.
Print Assumptions par1_verify_ok_no_fault.
Print Assumptions par1_repair_ok_no_fault.
Print Assumptions par1_repair_touches_only_written.
