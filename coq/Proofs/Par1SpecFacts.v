(* The PAR1 writer and reader models (Model/Par1.v) against the specification-side PAR 1.0 parser and
   validator of Model/Par1Spec.v:
     (W)  par1_writer_conforms            every set Create writes satisfies valid_par1_set, for ALL inputs;
     (W') s1_parse_write_volume           every volume the writer emits (any status bits, any data) parses
                                          spec-side with exactly the fields that were written;
     (R)  par1_reader_accepts_conformant  every spec-parseable file in the contiguous layout whose names are
                                          non-empty is read by gopar's reader with the same fields.
   The set-level statement (R2) is in Proofs/Par1SpecSet.v. *)
From Coq Require Import Lia ZifyN ZifyNat ZifyBool.
From Gopar Require Import Model.Base Model.Matrix Model.GF8 Model.CRC Model.GoPath Model.FS Model.Par1 Model.Par1Spec
     Proofs.LinAlg Proofs.GF8Facts Proofs.Par2Facts Proofs.Par2Create Proofs.Par1Facts Proofs.Utf16Facts
     Proofs.Par1Clean Proofs.Par1RoundTrip.
Open Scope N_scope.
Set Default Timeout 120.

(** * 0. list helpers *)
Lemma s1l_slice_app {A} (a t : list A) off len : (off + len <= length a)%nat ->
  firstn len (skipn off (a ++ t)) = firstn len (skipn off a).
Proof.
  intros H. rewrite skipn_app. replace (off - length a)%nat with 0%nat by lia. cbn [skipn].
  rewrite firstn_app. rewrite skipn_length. replace (len - (length a - off))%nat with 0%nat by lia.
  cbn [firstn]. apply app_nil_r.
Qed.

Lemma s1l_skipn_app_le {A} (a t : list A) k : (k <= length a)%nat -> skipn k (a ++ t) = skipn k a ++ t.
Proof. intros H. rewrite skipn_app. replace (k - length a)%nat with 0%nat by lia. reflexivity. Qed.

Lemma s1l_firstn_app_exact {A} (a t : list A) : firstn (length a) (a ++ t) = a.
Proof. induction a as [|x a IH]; [reflexivity|]. cbn [length app firstn]. rewrite IH. reflexivity. Qed.

Lemma s1l_skipn_app_exact {A} (a t : list A) : skipn (length a) (a ++ t) = t.
Proof. induction a as [|x a IH]; [reflexivity|exact IH]. Qed.

Lemma s1_beq_refl : forall a, s1_beq a a = true.
Proof. induction a as [|x a IH]; [reflexivity|]. cbn [s1_beq]. rewrite N.eqb_refl, IH. reflexivity. Qed.

Lemma s1_beq_eq : forall a b, s1_beq a b = true -> a = b.
Proof.
  induction a as [|x a IH]; intros [|y b] H; cbn [s1_beq] in H; try discriminate; [reflexivity|].
  apply andb_prop in H. destruct H as [H1 H2]. apply N.eqb_eq in H1. rewrite H1, (IH b H2). reflexivity.
Qed.

(** * 1. Unicode: the spec-side codec against the model's (Go's) codec *)

(* a strictly decodable name field has an even number of bytes, and its code units are the model's *)
Lemma s1_units_le_words : forall u b, s1_units b = Some u -> le_words b = u /\ length b = (2 * length u)%nat.
Proof.
  induction u as [|x u IH]; intros b H.
  - destruct b as [|lo [|hi r]]; cbn [s1_units] in H; [split; reflexivity|discriminate|].
    destruct (s1_units r); discriminate.
  - destruct b as [|lo [|hi r]]; cbn [s1_units] in H; [discriminate|discriminate|].
    destruct (s1_units r) as [u'|] eqn:E; [|discriminate].
    injection H as <- <-. destruct (IH r E) as [E1 E2].
    cbn [le_words length]. rewrite E1, E2. split; [reflexivity|lia].
Qed.

Lemma s1_scalars_cons a r : s1_scalars (a :: r) =
  if a <? 0xD800 then match s1_scalars r with Some l => Some (a :: l) | None => None end
  else if a <? 0xDC00 then
    match r with
    | [] => None
    | c :: r' =>
      if (0xDC00 <=? c) && (c <? 0xE000)
      then match s1_scalars r' with
           | Some l => Some (((a - 0xD800) * 0x400 + (c - 0xDC00) + 0x10000) :: l)
           | None => None
           end
      else None
    end
  else if a <? 0xE000 then None
  else if a <? 0x10000 then match s1_scalars r with Some l => Some (a :: l) | None => None end
  else None.
Proof. reflexivity. Qed.

Lemma utf16_decode_cons a r : utf16_decode (a :: r) =
  if (0xD800 <=? a) && (a <? 0xDC00) then
    match r with
    | b :: r' => if (0xDC00 <=? b) && (b <? 0xE000)
                 then ((a - 0xD800) * 1024 + (b - 0xDC00) + 0x10000) :: utf16_decode r'
                 else RUNE_ERROR :: utf16_decode r
    | [] => [RUNE_ERROR]
    end
  else if (0xDC00 <=? a) && (a <? 0xE000) then RUNE_ERROR :: utf16_decode r
  else a :: utf16_decode r.
Proof. reflexivity. Qed.

(* when the strict decoder succeeds it yields Unicode scalar values, the same ones as Go's utf16.Decode *)
Lemma s1_scalars_sound : forall rs u, s1_scalars u = Some rs -> utf16_decode u = rs /\ Forall scalar rs.
Proof.
  induction rs as [|r rs IH]; intros u H.
  - destruct u as [|a t]; [split; [reflexivity|constructor]|]. exfalso. rewrite s1_scalars_cons in H.
    destruct (a <? 0xD800). { destruct (s1_scalars t); discriminate. }
    destruct (a <? 0xDC00).
    { destruct t as [|c t']; [discriminate|]. destruct ((0xDC00 <=? c) && (c <? 0xE000)); [|discriminate].
      destruct (s1_scalars t'); discriminate. }
    destruct (a <? 0xE000); [discriminate|]. destruct (a <? 0x10000); [|discriminate].
    destruct (s1_scalars t); discriminate.
  - destruct u as [|a t]; [discriminate|]. rewrite s1_scalars_cons in H.
    destruct (N.ltb_spec a 0xD800) as [H1|H1].
    { destruct (s1_scalars t) as [l|] eqn:E; [|discriminate]. injection H as <- <-.
      destruct (IH t E) as [D F]. split.
      - rewrite utf16_decode_cons. destruct (N.leb_spec 55296 a) as [G1|G1]; [lia|]. cbn [andb].
        destruct (N.leb_spec 56320 a) as [G2|G2]; [lia|]. cbn [andb]. rewrite D. reflexivity.
      - constructor; [unfold scalar; lia|exact F]. }
    destruct (N.ltb_spec a 0xDC00) as [H2|H2].
    { destruct t as [|c t']; [discriminate|].
      destruct (N.leb_spec 0xDC00 c) as [H3|H3]; cbn [andb] in H; [|discriminate].
      destruct (N.ltb_spec c 0xE000) as [H4|H4]; [|discriminate].
      destruct (s1_scalars t') as [l|] eqn:E; [|discriminate]. injection H as <- <-.
      destruct (IH t' E) as [D F]. split.
      - rewrite utf16_decode_cons.
        destruct (N.leb_spec 55296 a) as [G1|G1]; [|lia]. destruct (N.ltb_spec a 56320) as [G2|G2]; [|lia].
        destruct (N.leb_spec 56320 c) as [G3|G3]; [|lia]. destruct (N.ltb_spec c 57344) as [G4|G4]; [|lia].
        cbn [andb]. rewrite D. reflexivity.
      - constructor; [unfold scalar; lia|exact F]. }
    destruct (N.ltb_spec a 0xE000) as [H3|H3]; [discriminate|].
    destruct (N.ltb_spec a 0x10000) as [H4|H4]; [|discriminate].
    destruct (s1_scalars t) as [l|] eqn:E; [|discriminate]. injection H as <- <-.
    destruct (IH t E) as [D F]. split.
    + rewrite utf16_decode_cons. destruct (N.leb_spec 55296 a) as [G1|G1]; [|lia].
      destruct (N.ltb_spec a 56320) as [G2|G2]; [lia|]. cbn [andb].
      destruct (N.leb_spec 56320 a) as [G3|G3]; [|lia]. destruct (N.ltb_spec a 57344) as [G4|G4]; [lia|].
      cbn [andb]. rewrite D. reflexivity.
    + constructor; [unfold scalar; lia|exact F].
Qed.

(* RFC 3629 on scalar values is Go's utf8.EncodeRune *)
Lemma s1_utf8_rune_model r : scalar r -> s1_utf8_rune r = utf8_encode_rune r.
Proof.
  intros [Hlt Hns]. unfold s1_utf8_rune, utf8_encode_rune.
  assert (E0 : (((0xD800 <=? r) && (r <? 0xE000)) || (0x10FFFF <? r)) = false) by (btest; reflexivity).
  rewrite E0. reflexivity.
Qed.

Lemma s1_utf8_model : forall rs, Forall scalar rs -> s1_utf8 rs = flat_map utf8_encode_rune rs.
Proof.
  induction 1 as [|r rs Hr _ IH]; [reflexivity|].
  unfold s1_utf8 in *. cbn [flat_map]. rewrite IH, (s1_utf8_rune_model r Hr). reflexivity.
Qed.

(* READER SIDE: a name field that is strict UTF-16LE for the scalar values rs is decoded by gopar to the
   UTF-8 string of rs (surrogate pairs included) *)
Theorem decode_utf16le_strict raw rs : s1_utf16le_scalars raw = Some rs -> decode_utf16le raw = s1_utf8 rs.
Proof.
  unfold s1_utf16le_scalars. destruct (s1_units raw) as [u|] eqn:EU; [|discriminate]. intros ES.
  destruct (s1_units_le_words u raw EU) as [EW _]. destruct (s1_scalars_sound rs u ES) as [ED F].
  unfold decode_utf16le. rewrite EW, ED. symmetry. apply s1_utf8_model. exact F.
Qed.

Lemma s1_strict_even raw rs : s1_utf16le_scalars raw = Some rs -> N.of_nat (length raw) mod 2 = 0.
Proof.
  unfold s1_utf16le_scalars. destruct (s1_units raw) as [u|] eqn:EU; [|discriminate]. intros _.
  destruct (s1_units_le_words u raw EU) as [_ EL]. rewrite EL, Nat2N.inj_mul, N.mul_comm.
  apply N.mod_mul. discriminate.
Qed.

(* WRITER SIDE: the units gopar writes for scalar values decode strictly to those scalar values *)
Lemma s1_units_of_le : forall us, s1_units (flat_map (fun u => [u mod 256; u / 256]) us) = Some us.
Proof.
  induction us as [|u us IH]; [reflexivity|].
  cbn [flat_map app s1_units]. rewrite IH. f_equal. f_equal.
  rewrite N.add_comm. symmetry. apply N.div_mod. discriminate.
Qed.

Lemma s1_scalars_enc r rest l : scalar r -> s1_scalars rest = Some l ->
  s1_scalars (utf16_encode_rune r ++ rest) = Some (r :: l).
Proof.
  intros [Hlt Hns] Hrest. unfold utf16_encode_rune.
  assert (E0 : (((0xD800 <=? r) && (r <? 0xE000)) || (0x10FFFF <? r)) = false) by (btest; reflexivity).
  rewrite E0.
  destruct (N.ltb_spec r 0x10000) as [H1|H1].
  - cbn [app]. rewrite s1_scalars_cons, Hrest.
    destruct (N.ltb_spec r 0xD800) as [H2|H2]; [reflexivity|].
    destruct (N.ltb_spec r 0xDC00) as [H3|H3]; [lia|].
    destruct (N.ltb_spec r 0xE000) as [H4|H4]; [lia|].
    destruct (N.ltb_spec r 0x10000) as [H5|H5]; [reflexivity|lia].
  - destruct (divmod_lin (r - 0x10000) 1024) as (q & m & -> & -> & E & Hm); [lia|].
    cbn [app]. rewrite s1_scalars_cons, Hrest.
    destruct (N.ltb_spec (0xD800 + q) 0xD800) as [H2|H2]; [lia|].
    destruct (N.ltb_spec (0xD800 + q) 0xDC00) as [H3|H3]; [|lia].
    destruct (N.leb_spec 0xDC00 (0xDC00 + m)) as [H4|H4]; [|lia].
    destruct (N.ltb_spec (0xDC00 + m) 0xE000) as [H5|H5]; [|lia].
    cbn [andb]. f_equal. f_equal. lia.
Qed.

Lemma s1_scalars_encode : forall rs, Forall scalar rs -> s1_scalars (flat_map utf16_encode_rune rs) = Some rs.
Proof.
  induction 1 as [|r rs Hr _ IH]; [reflexivity|].
  cbn [flat_map]. apply s1_scalars_enc; assumption.
Qed.

(* the name clause of the validator holds for what gopar writes for every valid UTF-8 name *)
Theorem s1_name_is_encode rs : Forall scalar rs ->
  let name := flat_map utf8_encode_rune rs in s1_name_is (encode_utf16le name) name = true.
Proof.
  intros H name. unfold s1_name_is, s1_utf16le_scalars, encode_utf16le, name.
  rewrite (utf8_round_trip rs H), s1_units_of_le, (s1_scalars_encode rs H), (s1_utf8_model rs H).
  apply s1_beq_refl.
Qed.

(** * 2. (R) gopar's reader on spec-parseable files *)

(* the reader's view of a spec-side entry: the name is decoded by gopar's codec *)
Definition entry_of_spec (e : s1entry) : p1entry :=
  {| e_status := se_status e; e_len := se_len e; e_hash := se_hash e; e_h16 := se_h16 e;
     e_name := decode_utf16le (se_name16 e) |}.

(* what gopar's reader requires of a name field: not empty, and an even number of bytes (which UTF-16
   implies, see s1_strict_even) *)
Definition name16_ok (raw : bytes) : Prop := raw <> [] /\ N.of_nat (length raw) mod 2 = 0.

Lemma u64_sub56 es : 56 <= es -> es < 2^64 -> (es + 2^64 - 56) mod 2^64 = es - 56.
Proof.
  intros H1 H2. replace (es + 2^64 - 56) with (es - 56 + 1 * 2^64) by lia.
  rewrite N.mod_add by (apply N.pow_nonzero; discriminate). apply N.mod_small. lia.
Qed.

Lemma s1_entries_S n fl : s1_entries (S n) fl =
  if Nat.ltb (length fl) 56 then None
  else
    let es := s1_u64 0 fl in
    if (es <? 56) || (N.of_nat (length fl) <? es) then None
    else
      let k := N.to_nat es in
      match s1_entries n (skipn k fl) with
      | Some r => Some ({| se_status := s1_u64 8 fl; se_len := s1_u64 16 fl;
                           se_hash := s1_slice 24 16 fl; se_h16 := s1_slice 40 16 fl;
                           se_name16 := s1_slice 56 (k - 56) fl |} :: r)
      | None => None
      end.
Proof. reflexivity. Qed.

Lemma read_entry_spec (fl tail : bytes) :
  (56 <= length fl)%nat ->
  let es := s1_u64 0 fl in
  56 <= es -> es <= N.of_nat (length fl) -> es < 2^64 ->
  let k := N.to_nat es in
  name16_ok (s1_slice 56 (k - 56) fl) ->
  read_entry (fl ++ tail) =
    Ok ({| e_status := s1_u64 8 fl; e_len := s1_u64 16 fl; e_hash := s1_slice 24 16 fl; e_h16 := s1_slice 40 16 fl;
           e_name := decode_utf16le (s1_slice 56 (k - 56) fl) |}, skipn k fl ++ tail).
Proof.
  intros Hl es H56 Hle H64 k [Hne Hev].
  assert (Hk : (56 <= k <= length fl)%nat) by (unfold k; lia).
  assert (Hnl : length (s1_slice 56 (k - 56) fl) = (k - 56)%nat).
  { unfold s1_slice. rewrite firstn_length, skipn_length. lia. }
  assert (Efn : N.of_nat (k - 56) = es - 56) by (unfold k; lia).
  unfold read_entry.
  destruct (Nat.ltb_spec (length (fl ++ tail)) 56) as [Lt|_]; [rewrite app_length in Lt; lia|].
  rewrite (firstn_app_short fl tail 8) by lia.
  change (le_decode (firstn 8 fl)) with es.
  rewrite (u64_sub56 es H56 H64).
  destruct (N.eqb_spec (es - 56) 0) as [E0|_].
  { exfalso. apply Hne. apply length_zero_iff_nil. rewrite Hnl. lia. }
  rewrite Hnl, Efn in Hev. rewrite Hev. cbn [N.eqb negb orb].
  destruct (N.ltb_spec (N.of_nat (length (skipn 56 (fl ++ tail)))) (es - 56)) as [Lt|_].
  { rewrite skipn_length, app_length in Lt. lia. }
  replace (N.to_nat (es - 56)) with (k - 56)%nat by (unfold k; lia).
  rewrite (s1l_slice_app fl tail 8 8), (s1l_slice_app fl tail 16 8), (s1l_slice_app fl tail 24 16),
          (s1l_slice_app fl tail 40 16), (s1l_slice_app fl tail 56 (k - 56)) by lia.
  rewrite <- (skipn_add 56 (k - 56)). replace (56 + (k - 56))%nat with k by lia.
  rewrite (s1l_skipn_app_le fl tail k) by lia.
  reflexivity.
Qed.

Lemma read_entries_spec : forall n fl es tail, s1_entries n fl = Some es -> N.of_nat (length fl) < 2^64 ->
  Forall (fun e => name16_ok (se_name16 e)) es ->
  read_entries n (fl ++ tail) = Ok (map entry_of_spec es, tail).
Proof.
  induction n as [|n IH]; intros fl es tail H Hlen Hn.
  - cbn [s1_entries] in H. destruct fl; [|discriminate]. injection H as <-. reflexivity.
  - rewrite s1_entries_S in H. cbv zeta in H.
    destruct (Nat.ltb_spec (length fl) 56) as [|Hl]; [discriminate|].
    set (es0 := s1_u64 0 fl) in *.
    destruct (N.ltb_spec es0 56) as [|H56]; cbn [orb] in H; [discriminate|].
    destruct (N.ltb_spec (N.of_nat (length fl)) es0) as [|Hle]; [discriminate|].
    destruct (s1_entries n (skipn (N.to_nat es0) fl)) as [r|] eqn:E; [|discriminate]. injection H as <-.
    inversion Hn as [|? ? Hn1 Hn2]; subst. cbn [se_name16] in Hn1.
    cbn [read_entries]. subst es0.
    rewrite (read_entry_spec fl tail Hl H56 Hle ltac:(lia) Hn1). cbn [obind fst snd].
    rewrite (IH _ _ tail E); [| rewrite skipn_length; lia | exact Hn2]. cbn [obind fst snd map].
    reflexivity.
Qed.

Lemma sethash_reader_spec : forall es,
  flat_map (fun e => if saved e then e_hash e else []) (map entry_of_spec es) = concat (map se_hash (filter se_saved es)).
Proof.
  induction es as [|e es IH]; [reflexivity|].
  cbn [map flat_map filter]. unfold saved at 1, se_saved at 1. cbn [entry_of_spec e_status e_hash].
  destruct (N.odd (se_status e)); cbn [map concat app]; rewrite IH; reflexivity.
Qed.

Section Reader.
  Variable md5 : bytes -> bytes.

  (* (R) Every byte string that the specification-side parser accepts, in the contiguous layout (file list
     at 0x60, data area directly behind it and up to the end of the file), shorter than 2^64 bytes, with
     non-empty even-length name fields, is accepted by gopar's reader, with the same volume number, count,
     entries (status - ANY bits -, size, both hashes; the name decoded by gopar's codec), data area (comment
     or parity) and set hash; and the set hash gopar recomputes over the saved entries is the stored one. *)
  Theorem par1_reader_accepts_conformant : forall b sv,
    s1_parse md5 b = Some sv ->
    N.of_nat (length b) < 2^64 ->
    sv_flo sv = 96 -> sv_do sv = 96 + sv_flb sv -> sv_do sv + sv_db sv = N.of_nat (length b) ->
    Forall (fun e => name16_ok (se_name16 e)) (sv_entries sv) ->
    exists v, read_volume md5 b = Ok v /\
      v_number v = sv_number sv /\ v_count v = sv_count sv /\
      v_entries v = map entry_of_spec (sv_entries sv) /\
      v_data v = sv_data sv /\
      v_sethash_stored v = sv_sethash sv /\ v_sethash v = v_sethash_stored v.
  Proof.
    intros b sv H Hlen Hflo Hdo Hdb Hnames.
    unfold s1_parse in H. cbv zeta in H.
    destruct (Nat.ltb_spec (length b) 96) as [|Hl96]; [discriminate|].
    destruct (s1_beq (s1_slice 0 8 b) s1_id) eqn:E1; cbn [negb] in H; [|discriminate].
    destruct (le_decode (s1_slice 8 4 b) =? s1_version) eqn:E2; cbn [negb] in H; [|discriminate].
    destruct (s1_beq (md5 (skipn 32 b)) (s1_slice 16 16 b)) eqn:E3; cbn [negb] in H; [|discriminate].
    match type of H with (if ?c then _ else _) = _ => destruct c eqn:E4; [discriminate|] end.
    apply orb_false_elim in E4. destruct E4 as [E4 G5]. apply orb_false_elim in E4. destruct E4 as [E4 G4].
    apply orb_false_elim in E4. destruct E4 as [E4 G3]. apply orb_false_elim in E4. destruct E4 as [G1 G2].
    apply N.ltb_ge in G1, G2, G3, G4, G5.
    destruct (s1_entries (N.to_nat (s1_u64 56 b)) (s1_slice (N.to_nat (s1_u64 64 b)) (N.to_nat (s1_u64 72 b)) b))
      as [es|] eqn:EE; [|discriminate].
    destruct (s1_beq (s1_slice 32 16 b) (s1_sethash_of md5 es)) eqn:E6; cbn [negb] in H; [|discriminate].
    injection H as <-.
    cbn [sv_flo sv_flb sv_do sv_db sv_entries sv_number sv_count sv_data sv_sethash] in *.
    apply s1_beq_eq in E1, E3, E6. apply N.eqb_eq in E2.
    set (count := s1_u64 56 b) in *. set (flb := s1_u64 72 b) in *. set (db := s1_u64 88 b) in *.
    rewrite Hflo in EE, G2. rewrite Hdo in *. change (N.to_nat 96) with 96%nat in EE.
    (* the file list area and what follows it *)
    set (flbn := N.to_nat flb) in *.
    assert (Hsplit : skipn 96 b = s1_slice 96 flbn b ++ skipn flbn (skipn 96 b)).
    { unfold s1_slice. symmetry. apply firstn_skipn. }
    assert (Hfll : length (s1_slice 96 flbn b) = flbn).
    { unfold s1_slice. rewrite firstn_length, skipn_length. unfold flbn. lia. }
    unfold read_volume.
    destruct (Nat.ltb_spec (length b) 96) as [|_]; [lia|].
    unfold s1_slice in E1. cbn [skipn] in E1. rewrite E1. change s1_id with PAR1_ID. rewrite bytes_eqb_refl. cbn [negb].
    unfold s1_slice, s1_version in E2. change PAR1_VERSION with 65536. rewrite E2, N.eqb_refl. cbn [negb].
    change (le_decode (firstn 8 (skipn 64 b))) with (s1_u64 64 b). rewrite Hflo. cbn [N.eqb Pos.eqb negb].
    unfold s1_slice in E3. rewrite E3, bytes_eqb_refl. cbn [negb].
    change (le_decode (firstn 8 (skipn 56 b))) with count.
    destruct (N.ltb_spec (N.of_nat (length b - 96) / 56) count) as [Lt|_].
    { exfalso. apply N.lt_nge in Lt. apply Lt. apply N.div_le_lower_bound; [discriminate|]. lia. }
    rewrite Hsplit.
    rewrite (read_entries_spec _ _ _ _ EE); [|rewrite Hfll; unfold flbn; lia|exact Hnames].
    cbn [obind fst snd].
    eexists. split; [reflexivity|].
    cbn [v_number v_count v_entries v_data v_sethash_stored v_sethash].
    split; [reflexivity|]. split; [reflexivity|]. split; [reflexivity|].
    split.
    { unfold s1_slice. rewrite N2Nat.inj_add. change (N.to_nat 96) with 96%nat. fold flbn.
      rewrite (skipn_add 96 flbn). symmetry. apply firstn_all2. rewrite !skipn_length. lia. }
    split; [reflexivity|].
    rewrite sethash_reader_spec. unfold s1_slice in E6. rewrite E6. reflexivity.
  Qed.

  (* the names: whenever a name field is strict UTF-16LE for the scalar values rs (surrogate pairs included),
     the name gopar uses is the UTF-8 string of rs *)
  Corollary reader_name_strict (e : s1entry) rs :
    s1_utf16le_scalars (se_name16 e) = Some rs -> e_name (entry_of_spec e) = s1_utf8 rs.
  Proof. intros H. cbn [entry_of_spec e_name]. apply decode_utf16le_strict. exact H. Qed.
End Reader.

Print Assumptions par1_reader_accepts_conformant.
Print Assumptions reader_name_strict.

(** * 3. (W') the writer against the spec-side parser *)

(* the spec-side view of an entry the writer emits: the name field is what gopar's encoder produces *)
Definition spec_of_entry (e : p1entry) : s1entry :=
  {| se_status := e_status e; se_len := e_len e; se_hash := e_hash e; se_h16 := e_h16 e;
     se_name16 := encode_utf16le (e_name e) |}.

Definition entry_fields_ok (e : p1entry) : Prop :=
  e_status e < 2^64 /\ e_len e < 2^64 /\ length (e_hash e) = 16%nat /\ length (e_h16 e) = 16%nat.

Lemma vol_layout2 (id ver h sh num cnt c60 f1 f2 dl R : bytes) :
  length id = 8%nat -> length ver = 8%nat -> length h = 16%nat -> length sh = 16%nat ->
  length num = 8%nat -> length cnt = 8%nat -> length c60 = 8%nat -> length f1 = 8%nat ->
  length f2 = 8%nat -> length dl = 8%nat ->
  let T := sh ++ num ++ cnt ++ c60 ++ f1 ++ f2 ++ dl in
  let b := id ++ ver ++ h ++ T ++ R in
  firstn 4 (skipn 12 b) = skipn 4 ver /\
  firstn 8 (skipn 72 b) = f1 /\ firstn 8 (skipn 80 b) = f2 /\ firstn 8 (skipn 88 b) = dl.
Proof.
  intros Hid Hver Hh Hsh Hnum Hcnt Hc60 Hf1 Hf2 Hdl T b.
  assert (E32 : skipn 32 b = T ++ R).
  { unfold b. change 32%nat with (8 + (8 + (16 + 0)))%nat.
    rewrite !skipn_app_plus by assumption. reflexivity. }
  assert (ET : forall k, skipn (32 + k) b = skipn k (sh ++ num ++ cnt ++ c60 ++ f1 ++ f2 ++ dl ++ R)).
  { intros k. rewrite skipn_add, E32. unfold T. rewrite <- !app_assoc. reflexivity. }
  split; [|split; [|split]].
  - unfold b. change 12%nat with (8 + 4)%nat. rewrite skipn_app_plus by assumption.
    rewrite s1l_skipn_app_le by lia. apply firstn_app_len. rewrite skipn_length. lia.
  - change 72%nat with (32 + (16 + (8 + (8 + (8 + 0)))))%nat. rewrite ET. rewrite !skipn_app_plus by assumption.
    cbn [skipn]. apply firstn_app_len. exact Hf1.
  - change 80%nat with (32 + (16 + (8 + (8 + (8 + (8 + 0))))))%nat. rewrite ET. rewrite !skipn_app_plus by assumption.
    cbn [skipn]. apply firstn_app_len. exact Hf2.
  - change 88%nat with (32 + (16 + (8 + (8 + (8 + (8 + (8 + 0)))))))%nat. rewrite ET. rewrite !skipn_app_plus by assumption.
    cbn [skipn]. apply firstn_app_len. exact Hdl.
Qed.

Lemma write_entry_length e : entry_fields_ok e ->
  length (write_entry e) = (56 + length (encode_utf16le (e_name e)))%nat.
Proof.
  intros (_ & _ & Hh & Hh16). unfold write_entry. cbv zeta.
  rewrite !app_length, !le_encode_length, Hh, Hh16. lia.
Qed.

Lemma entries_len56 : forall entries, Forall entry_fields_ok entries ->
  (56 * length entries <= length (flat_map write_entry entries))%nat.
Proof.
  induction entries as [|e r IH]; intros H; [cbn [length flat_map]; lia|].
  inversion H as [|? ? He Hr]; subst. cbn [flat_map length]. rewrite app_length, (write_entry_length e He).
  specialize (IH Hr). lia.
Qed.

Lemma s1_entries_write : forall entries, Forall entry_fields_ok entries ->
  N.of_nat (length (flat_map write_entry entries)) < 2^64 ->
  s1_entries (length entries) (flat_map write_entry entries) = Some (map spec_of_entry entries).
Proof.
  induction entries as [|e r IH]; intros HF Hlen; [reflexivity|].
  inversion HF as [|? ? He HF']; subst. pose proof He as (Hst & Hln & Hh & Hh16).
  cbn [flat_map length map]. cbn [flat_map] in Hlen. rewrite s1_entries_S. cbv zeta.
  unfold write_entry in *. cbv zeta in *.
  set (nb := encode_utf16le (e_name e)) in *.
  destruct (entry_layout (le_encode 8 (56 + N.of_nat (length nb))) (le_encode 8 (e_status e))
              (le_encode 8 (e_len e)) (e_hash e) (e_h16 e) nb (flat_map write_entry r))
    as (Ll & F0 & F1 & F2 & F3 & F4 & F5); try apply le_encode_length; try assumption.
  fold (write_entry) in *.
  set (buf := (le_encode 8 (56 + N.of_nat (length nb)) ++ le_encode 8 (e_status e) ++ le_encode 8 (e_len e)
                 ++ e_hash e ++ e_h16 e ++ nb) ++ flat_map write_entry r) in *.
  assert (H64 : 56 + N.of_nat (length nb) < 2^64) by lia.
  destruct (Nat.ltb_spec (length buf) 56) as [Lt|_]; [lia|].
  unfold s1_u64, s1_slice. change (skipn 0 buf) with buf.
  rewrite F0, F1, F2, F3, F4, F5.
  rewrite (le_decode_encode8 _ H64), (le_decode_encode8 _ Hst), (le_decode_encode8 _ Hln).
  destruct (N.ltb_spec (56 + N.of_nat (length nb)) 56) as [Lt|_]; [lia|]. cbn [orb].
  destruct (N.ltb_spec (N.of_nat (length buf)) (56 + N.of_nat (length nb))) as [Lt|_]; [lia|].
  replace (N.to_nat (56 + N.of_nat (length nb))) with (56 + length nb)%nat by lia.
  rewrite (skipn_add 56 (length nb)), F5, s1l_skipn_app_exact.
  rewrite IH; [|exact HF'|rewrite Ll in Hlen; lia].
  replace (56 + length nb - 56)%nat with (length nb) by lia. rewrite s1l_firstn_app_exact.
  reflexivity.
Qed.

Lemma sethash_writer_spec md5 : forall entries,
  s1_sethash_of md5 (map spec_of_entry entries) = md5 (flat_map (fun e => if saved e then e_hash e else []) entries).
Proof.
  intros entries. unfold s1_sethash_of. f_equal.
  induction entries as [|e r IH]; [reflexivity|].
  cbn [map filter flat_map]. unfold se_saved at 1, saved at 1. cbn [spec_of_entry se_status].
  destruct (N.odd (e_status e)); cbn [map concat se_hash spec_of_entry app]; rewrite IH; reflexivity.
Qed.

Lemma client_zero : le_decode (skipn 4 (le_encode 8 PAR1_VERSION)) = 0.
Proof. vm_compute. reflexivity. Qed.

Section Writer.
  Variable md5 : bytes -> bytes.
  Hypothesis md5_len : forall x, length (md5 x) = 16%nat.

  (* (W') EVERY volume the writer emits - any volume number, any status bits (saved or not, further bits),
     any data area (comment or parity) - with the set hash of its saved entries, is accepted by the
     specification-side parser, which finds exactly the fields that were written, in the contiguous layout *)
  Theorem s1_parse_write_volume : forall number entries data,
    number < 2^64 -> Forall entry_fields_ok entries ->
    let sethash := md5 (flat_map (fun e => if saved e then e_hash e else []) entries) in
    let b := write_volume md5 sethash number entries data in
    N.of_nat (length b) < 2^64 ->
    s1_parse md5 b =
      Some {| sv_client := 0; sv_sethash := sethash; sv_number := number; sv_count := N.of_nat (length entries);
              sv_flo := 96; sv_flb := N.of_nat (length (flat_map write_entry entries));
              sv_do := 96 + N.of_nat (length (flat_map write_entry entries)); sv_db := N.of_nat (length data);
              sv_entries := map spec_of_entry entries; sv_data := data |} /\
    length b = (96 + length (flat_map write_entry entries) + length data)%nat.
  Proof.
    intros number entries data Hnum Hes sethash b0 Hlen.
    assert (Hsh : length sethash = 16%nat) by apply md5_len.
    unfold b0, write_volume in *. cbv zeta in *.
    set (fm := flat_map write_entry entries) in *.
    set (R := fm ++ data) in *.
    assert (Eflb : N.of_nat (length R - length data) = N.of_nat (length fm)).
    { unfold R. rewrite app_length. f_equal. lia. }
    rewrite Eflb in *.
    set (flb := N.of_nat (length fm)) in *.
    set (T := sethash ++ le_encode 8 number ++ le_encode 8 (N.of_nat (length entries)) ++ le_encode 8 96
                ++ le_encode 8 flb ++ le_encode 8 (96 + flb) ++ le_encode 8 (N.of_nat (length data))) in *.
    destruct (vol_layout PAR1_ID (le_encode 8 PAR1_VERSION) (md5 (T ++ R)) sethash (le_encode 8 number)
                (le_encode 8 (N.of_nat (length entries))) (le_encode 8 96) (le_encode 8 flb)
                (le_encode 8 (96 + flb)) (le_encode 8 (N.of_nat (length data))) R)
      as (Ll & Fid & Fver & F32 & Fh & F60 & Fcnt & F96 & Fsh & Fnum);
      try apply le_encode_length; try apply md5_len; try assumption; try reflexivity.
    destruct (vol_layout2 PAR1_ID (le_encode 8 PAR1_VERSION) (md5 (T ++ R)) sethash (le_encode 8 number)
                (le_encode 8 (N.of_nat (length entries))) (le_encode 8 96) (le_encode 8 flb)
                (le_encode 8 (96 + flb)) (le_encode 8 (N.of_nat (length data))) R)
      as (Fcl & Fflb & Fdo & Fdb);
      try apply le_encode_length; try apply md5_len; try assumption; try reflexivity.
    fold T in Ll, Fid, Fver, F32, Fh, F60, Fcnt, F96, Fsh, Fnum, Fcl, Fflb, Fdo, Fdb.
    set (b := PAR1_ID ++ le_encode 8 PAR1_VERSION ++ md5 (T ++ R) ++ T ++ R) in *.
    assert (HR : length R = (length fm + length data)%nat) by (unfold R; apply app_length).
    assert (B1 : flb < 2^64) by (unfold flb; lia).
    assert (B2 : 96 + flb < 2^64) by (unfold flb; lia).
    assert (B3 : N.of_nat (length data) < 2^64) by lia.
    assert (B4 : N.of_nat (length entries) < 2^64).
    { pose proof (entries_len56 entries Hes) as Le. fold fm in Le. lia. }
    split; [|rewrite Ll, HR; lia].
    pose proof Fsh as Fsh'. rewrite F32 in Fsh'.
    unfold s1_parse. cbv zeta. unfold s1_u64, s1_slice. change (skipn 0 b) with b.
    destruct (Nat.ltb_spec (length b) 96) as [Lt|_]; [lia|].
    rewrite Fid. change PAR1_ID with s1_id. rewrite s1_beq_refl. cbn [negb].
    rewrite Fver. change s1_version with PAR1_VERSION. rewrite ver_ok. cbn [negb].
    rewrite F32, Fh, s1_beq_refl. cbn [negb].
    rewrite Fcnt, F60, Fflb, Fdo, Fdb, Fnum, Fcl, Fsh', client_zero.
    rewrite (le_decode_encode8 _ B1), (le_decode_encode8 _ B2), (le_decode_encode8 _ B3), (le_decode_encode8 _ B4),
            (le_decode_encode8 _ Hnum), (le_decode_encode8 96) by reflexivity.
    assert (G : ((96 <? 96) || (N.of_nat (length b) <? 96 + flb) || (96 + flb <? 96)
                 || (N.of_nat (length b) <? 96 + flb + N.of_nat (length data))
                 || (flb <? 56 * N.of_nat (length entries))) = false).
    { pose proof (entries_len56 entries Hes) as Le. fold fm in Le.
      destruct (N.ltb_spec (N.of_nat (length b)) (96 + flb)) as [Lt|_]; [unfold flb in Lt; lia|].
      destruct (N.ltb_spec (96 + flb) 96) as [Lt|_]; [lia|].
      destruct (N.ltb_spec (N.of_nat (length b)) (96 + flb + N.of_nat (length data))) as [Lt|_]; [unfold flb in Lt; lia|].
      destruct (N.ltb_spec flb (56 * N.of_nat (length entries))) as [Lt|_]; [unfold flb in Lt; lia|].
      reflexivity. }
    rewrite G. clear G.
    rewrite Nat2N.id. change (N.to_nat 96) with 96%nat. unfold flb at 1. rewrite Nat2N.id.
    rewrite F96. unfold R at 1. rewrite s1l_firstn_app_exact.
    unfold fm at 1. rewrite (s1_entries_write entries Hes) by (fold fm; unfold flb in B1; exact B1).
    rewrite sethash_writer_spec. fold sethash. rewrite s1_beq_refl. cbn [negb].
    replace (N.to_nat (96 + flb)) with (96 + length fm)%nat by (unfold flb; lia).
    rewrite (skipn_add 96 (length fm)), F96. unfold R. rewrite s1l_skipn_app_exact.
    rewrite Nat2N.id, firstn_all. reflexivity.
  Qed.
End Writer.

Print Assumptions s1_parse_write_volume.

(** * 4. the parity data: the encoder's matrix product is the specification's double sum *)

Lemma s1_longest_fold : forall (l : list bytes) a,
  fold_left (fun m d => Nat.max m (length d)) l a = Nat.max a (s1_longest l).
Proof.
  induction l as [|x l IH]; intros a; cbn [fold_left s1_longest fold_right]; [lia|].
  rewrite IH. fold (s1_longest l). lia.
Qed.

Lemma s1_longest_max_len datas : s1_longest datas = max_len datas.
Proof. unfold max_len. rewrite s1_longest_fold. lia. Qed.

Lemma nth_pad L (x : bytes) k : nth k (pad L x) 0 = nth k x 0.
Proof.
  unfold pad. destruct (Nat.lt_ge_cases k (length x)) as [Lt|Ge].
  - apply app_nth1. exact Lt.
  - rewrite app_nth2 by lia. rewrite (nth_overflow x) by lia. unfold zeros. apply nth_repeat.
Qed.

Lemma fold_right_seq_shift (f : nat -> N -> N) a : forall n s,
  fold_right f a (seq (S s) n) = fold_right (fun i => f (S i)) a (seq s n).
Proof. induction n as [|n IH]; intros s; cbn [seq fold_right]; [reflexivity|]. rewrite IH. reflexivity. Qed.

(* volume v = j + 1 of the encoder is, byte for byte, sum_{i=1..n} i^(v-1) * file_i (zero-padded) *)
Theorem parity_is_spec (datas : list bytes) nv j :
  datas <> [] -> (length datas <= 255)%nat -> Forall wf_bytes datas -> (j < nv)%nat ->
  nth j (par1_encode (length datas) nv (map (pad (max_len datas)) datas)) [] = s1_parity datas (S j).
Proof.
  intros Hne Hd Hwf Hj.
  set (L := max_len datas). set (D := map (pad L) datas). set (d := length datas) in *.
  assert (Hd0 : (0 < d)%nat) by (unfold d; destruct datas; [congruence|cbn [length]; lia]).
  assert (HD : wfm8 d L D).
  { split; [unfold D; apply map_length|]. unfold D. apply Forall_forall. intros x Hx.
    apply in_map_iff in Hx. destruct Hx as (y & <- & Hy).
    split.
    - apply pad_length. pose proof (max_len_ge datas) as G. rewrite Forall_forall in G. exact (G y Hy).
    - apply pad_wf. rewrite Forall_forall in Hwf. exact (Hwf y Hy). }
  pose proof (par1_encode_wf d nv D L Hd0 Hd HD) as HP.
  pose proof (wfm_nth8 nv L _ j HP Hj) as [HL _].
  apply (nth_ext _ _ 0 0).
  - transitivity L; [exact HL|]. unfold s1_parity. rewrite map_length, seq_length. symmetry. apply s1_longest_max_len.
  - intros k Hk0.
    assert (Hk : (k < L)%nat) by (apply (Nat.lt_le_trans _ _ _ Hk0); apply Nat.eq_le_incl; exact HL).
    rewrite (par1_encode_spec d nv D L j k Hd HD Hj Hk Hd0).
    unfold s1_parity.
    rewrite (nth_indep _ 0 (s1_parity_byte datas (S j) 0%nat))
      by (rewrite map_length, seq_length, s1_longest_max_len; exact Hk).
    rewrite map_nth, seq_nth by (rewrite s1_longest_max_len; exact Hk). cbn [Nat.add].
    unfold s1_parity_byte. fold d. rewrite fold_right_seq_shift. cbv beta.
    apply (fold_xor_ext8
      (fun i => g8mul (g8pow (N.of_nat (S i)) (N.of_nat j)) (nth k (nth i D []) 0))
      (fun i => g8mul (g8pow (N.of_nat (S i)) (N.of_nat (S j - 1))) (nth k (nth (S i - 1) datas []) 0))).
    intros i Hi. apply in_seq in Hi.
    replace (S j - 1)%nat with j by lia. replace (S i - 1)%nat with i by lia. f_equal.
    unfold D. rewrite (nth_indep _ [] (pad L [])) by (rewrite map_length; fold d; lia).
    rewrite map_nth. apply nth_pad.
Qed.

(** * 5. (W) Create's output is a valid PAR 1.0 set *)

(* a Create input name: the UTF-8 encoding of Unicode scalar values, i.e. any valid UTF-8 string *)
Definition input_name_wf (n : bytes) : Prop := exists rs, Forall scalar rs /\ n = flat_map utf8_encode_rune rs.

Definition mk_file (nd : bytes * bytes) : s1file := {| sf_name := fst nd; sf_data := snd nd; sf_status := 1 |}.

(* the data area of file number v: nothing for the index, parity shard v - 1 for volume v *)
Definition vdata (P : list bytes) (v : nat) : bytes := match v with O => [] | S j => nth j P [] end.

(* file number v (0 = index) of the set Create writes *)
Definition created_file (md5 : bytes -> bytes) (names datas : list bytes) (nv v : nat) : bytes :=
  let entries := mk_entries md5 names datas in
  let P := par1_encode (length datas) nv (map (pad (max_len datas)) datas) in
  write_volume md5 (set_hash md5 entries) (N.of_nat v) entries (vdata P v).

Lemma par1_outputs_inv md5 parPath nv names datas outs :
  par1_outputs md5 parPath nv names datas = Ok outs ->
  (length datas + nv <= 256)%nat /\ max_len datas <> 0%nat /\
  outs = (strip_ext parPath ++ EXT_PAR, created_file md5 names datas nv 0)
         :: map (fun j => (volume_path parPath (N.of_nat (S j)), created_file md5 names datas nv (S j))) (seq 0 nv).
Proof.
  intros EO. unfold par1_outputs in EO. fold (max_len datas) in EO.
  destruct (Nat.ltb_spec 256 (length datas + nv)) as [Lt|Ge]; [discriminate EO|].
  destruct (Nat.eqb_spec (max_len datas) 0) as [E0|Hsz]; [discriminate EO|].
  split; [exact Ge|]. split; [exact Hsz|].
  apply Ok_inj in EO. rewrite <- EO. clear EO.
  unfold created_file. cbv zeta.
  fold (mk_entry md5). fold (mk_entries md5 names datas).
  fold (set_hash md5 (mk_entries md5 names datas)). fold (pad (max_len datas)).
  set (D := map (pad (max_len datas)) datas).
  assert (HD : Forall (fun x : bytes => length x = max_len datas) D).
  { unfold D. apply Forall_forall. intros x Hx. apply in_map_iff in Hx. destruct Hx as (d & <- & Hd).
    apply pad_length. pose proof (max_len_ge datas) as G. rewrite Forall_forall in G. exact (G d Hd). }
  assert (HDne : D <> []).
  { unfold D. destruct datas; [exfalso; apply Hsz; reflexivity|discriminate]. }
  destruct (par1_encode_shape (length datas) nv D (max_len datas) HDne HD) as [LP _].
  f_equal.
  change (map (fun d : list N => d ++ zeros (max_len datas - length d)) datas) with D.
  set (P := par1_encode (length datas) nv D) in *.
  rewrite <- LP at 1. rewrite (@combine_seq_nth bytes [] P 0), map_map, LP.
  apply map_ext. intros j. cbn [fst snd]. rewrite Nat.sub_0_r. reflexivity.
Qed.

Lemma map_snd_combine_eq {A T} : forall (a : list A) (b : list T), length a = length b -> map snd (combine a b) = b.
Proof.
  induction a as [|x a IH]; intros [|y b] H; cbn [length] in H; try discriminate; [reflexivity|].
  cbn [combine map snd]. rewrite IH by lia. reflexivity.
Qed.

Lemma s1_entry_eqb_refl e : s1_entry_eqb e e = true.
Proof. unfold s1_entry_eqb. rewrite !N.eqb_refl, !s1_beq_refl. reflexivity. Qed.
Lemma s1_entries_eqb_refl : forall l, s1_entries_eqb l l = true.
Proof. induction l as [|e l IH]; [reflexivity|]. cbn [s1_entries_eqb]. rewrite s1_entry_eqb_refl, IH. reflexivity. Qed.

Lemma in_combine_seq_map {T} (g : nat -> T) v o : forall n s,
  In (v, o) (combine (seq s n) (map g (seq s n))) -> (s <= v < s + n)%nat /\ o = g v.
Proof.
  induction n as [|n IH]; intros s Hin; cbn [seq map combine] in Hin; [contradiction|].
  destruct Hin as [E|Hin]; [injection E as <- <-; split; [lia|reflexivity]|].
  destruct (IH (S s) Hin) as [HA HB]. split; [lia|exact HB].
Qed.

Section Conforms.
  Variable md5 : bytes -> bytes.
  Hypothesis md5_len : forall x, length (md5 x) = 16%nat.

  Lemma mk_saved_all : forall l : list (bytes * bytes), filter (sf_saved) (map mk_file l) = map mk_file l.
  Proof. induction l as [|x l IH]; [reflexivity|]. cbn [map filter]. unfold sf_saved at 1. cbn [mk_file sf_status N.odd]. rewrite IH. reflexivity. Qed.

  Lemma mk_sethash_model : forall l : list (bytes * bytes),
    flat_map (fun e => if saved e then e_hash e else []) (map (mk_entry md5) l) = flat_map (fun e => e_hash e) (map (mk_entry md5) l).
  Proof. induction l as [|x l IH]; [reflexivity|]. cbn [map flat_map]. rewrite IH. reflexivity. Qed.

  Lemma mk_sethash_spec : forall l : list (bytes * bytes),
    flat_map (fun e => e_hash e) (map (mk_entry md5) l) = concat (map (fun f => md5 (sf_data f)) (map mk_file l)).
  Proof. induction l as [|x l IH]; [reflexivity|]. cbn [map flat_map concat]. rewrite IH. reflexivity. Qed.

  Lemma mk_entries_valid : forall l : list (bytes * bytes), Forall (fun nd => input_name_wf (fst nd)) l ->
    s1_entries_valid md5 (map mk_file l) (map spec_of_entry (map (mk_entry md5) l)) = true.
  Proof.
    induction 1 as [|[n d] l (rs & Hrs & En) _ IH]; [reflexivity|].
    cbn [map s1_entries_valid]. rewrite IH, andb_true_r.
    unfold s1_entry_valid. cbn [mk_file mk_entry spec_of_entry fst snd se_status se_len se_hash se_h16 se_name16
                               sf_status sf_data sf_name e_status e_len e_hash e_h16 e_name].
    rewrite !N.eqb_refl. unfold hash16k. rewrite !s1_beq_refl. cbn [andb] in *. cbn [fst] in En.
    rewrite En. apply s1_name_is_encode. exact Hrs.
  Qed.

  Lemma mk_fields_ok : forall l : list (bytes * bytes), Forall (fun nd => N.of_nat (length (snd nd)) < 2^64) l ->
    Forall entry_fields_ok (map (mk_entry md5) l).
  Proof.
    induction 1 as [|[n d] l Hd _ IH]; [constructor|]. cbn [map]. constructor; [|exact IH].
    unfold entry_fields_ok. cbn [mk_entry e_status e_len e_hash e_h16 snd] in *. unfold hash16k.
    rewrite !md5_len. repeat split; try reflexivity. exact Hd.
  Qed.

  (* everything about ONE of the files Create writes *)
  Lemma created_file_ok names datas nv v :
    length names = length datas -> datas <> [] -> (length datas + nv <= 256)%nat -> (v <= nv)%nat ->
    Forall input_name_wf names -> Forall wf_bytes datas -> Forall (fun d : bytes => N.of_nat (length d) < 2^64) datas ->
    N.of_nat (length (created_file md5 names datas nv v)) < 2^64 ->
    let files := map mk_file (combine names datas) in
    s1_file_valid md5 files [] v (created_file md5 names datas nv v) = true /\
    s1_contiguous md5 (created_file md5 names datas nv v) = true /\
    s1_list_of md5 (created_file md5 names datas nv v) = map spec_of_entry (mk_entries md5 names datas).
  Proof.
    intros Hlen Hne Hcap Hv Hnames Hwf Hdl Hfl files.
    set (l := combine names datas) in *.
    assert (Hl1 : Forall (fun nd : bytes * bytes => input_name_wf (fst nd)) l).
    { apply Forall_forall. intros [n d] Hin. apply in_combine_l in Hin. rewrite Forall_forall in Hnames. exact (Hnames n Hin). }
    assert (Hl2 : Forall (fun nd : bytes * bytes => N.of_nat (length (snd nd)) < 2^64) l).
    { apply Forall_forall. intros [n d] Hin. apply in_combine_r in Hin. rewrite Forall_forall in Hdl. exact (Hdl d Hin). }
    assert (Hll : length l = length datas) by (unfold l; rewrite combine_length; lia).
    unfold created_file in *. cbv zeta in *. unfold mk_entries, set_hash in *. fold l in Hfl |- *.
    set (entries := map (mk_entry md5) l) in *.
    set (P := par1_encode (length datas) nv (map (pad (max_len datas)) datas)) in *.
    set (data := vdata P v) in *.
    assert (Esh : md5 (flat_map (fun e => e_hash e) entries)
                  = md5 (flat_map (fun e => if saved e then e_hash e else []) entries)).
    { unfold entries. rewrite mk_sethash_model. reflexivity. }
    rewrite Esh in *.
    destruct (s1_parse_write_volume md5 md5_len (N.of_nat v) entries data) as [EP EL];
      [lia|apply mk_fields_ok; exact Hl2|exact Hfl|].
    cbv zeta in EP, EL.
    set (b := write_volume md5 (md5 (flat_map (fun e => if saved e then e_hash e else []) entries)) (N.of_nat v) entries data) in *.
    split; [|split].
    - unfold s1_file_valid. rewrite EP.
      cbn [sv_number sv_count sv_entries sv_sethash sv_data].
      rewrite N.eqb_refl. unfold files, entries in *. rewrite !map_length, N.eqb_refl.
      rewrite (mk_entries_valid l Hl1). cbn [andb].
      rewrite mk_saved_all, <- Esh. rewrite mk_sethash_spec, s1_beq_refl. cbn [andb].
      unfold data, vdata. destruct v as [|j]; [reflexivity|].
      unfold s1_saved_datas. rewrite mk_saved_all, map_map. cbn [mk_file sf_data].
      fold (@snd bytes bytes). change (map (fun x : bytes * bytes => snd x) l) with (map snd l).
      unfold l. rewrite (map_snd_combine_eq names datas Hlen).
      unfold P. rewrite (parity_is_spec datas nv j Hne ltac:(lia) Hwf ltac:(lia)). apply s1_beq_refl.
    - unfold s1_contiguous. rewrite EP. cbn [sv_flo sv_flb sv_do sv_db].
      rewrite !N.eqb_refl. cbn [andb]. apply N.eqb_eq. rewrite EL. lia.
    - unfold s1_list_of. rewrite EP. reflexivity.
  Qed.

  (* (W) For ALL inputs - any number of files and volumes Create accepts, any valid UTF-8 names, any byte
     contents -: the files Create writes form a valid PAR 1.0 set for (names, datas) in the sense of the
     specification-side validator, and they are written to <base>.par, <base>.p01, ..., <base>.pNN.
     Size premises: the inputs and the written files are shorter than 2^64 bytes (the width of the format's
     size fields). *)
  Theorem par1_writer_conforms : forall parPath nvol names datas outs,
    length names = length datas ->
    Forall input_name_wf names -> Forall wf_bytes datas ->
    Forall (fun d : bytes => N.of_nat (length d) < 2^64) datas ->
    par1_outputs md5 parPath nvol names datas = Ok outs ->
    Forall (fun o : list N * bytes => N.of_nat (length (snd o)) < 2^64) outs ->
    valid_par1_set md5 names datas nvol (map snd outs) = true /\
    map fst outs = (strip_ext parPath ++ EXT_PAR) :: map (fun j => volume_path parPath (N.of_nat (S j))) (seq 0 nvol).
  Proof.
    intros parPath nv names datas outs Hlen Hnames Hwf Hdl EO Hol.
    destruct (par1_outputs_inv md5 parPath nv names datas outs EO) as (Hcap & Hsz & ->).
    assert (Hne : datas <> []) by (intros ->; apply Hsz; reflexivity).
    split; [|cbn [map fst]; rewrite map_map; reflexivity].
    assert (Eouts : map snd ((strip_ext parPath ++ EXT_PAR, created_file md5 names datas nv 0)
              :: map (fun j => (volume_path parPath (N.of_nat (S j)), created_file md5 names datas nv (S j))) (seq 0 nv))
            = map (created_file md5 names datas nv) (seq 0 (S nv))).
    { cbn [map snd seq]. f_equal. rewrite <- seq_shift, !map_map. reflexivity. }
    assert (Hall : forall v, (v <= nv)%nat ->
              s1_file_valid md5 (map mk_file (combine names datas)) [] v (created_file md5 names datas nv v) = true /\
              s1_contiguous md5 (created_file md5 names datas nv v) = true /\
              s1_list_of md5 (created_file md5 names datas nv v) = map spec_of_entry (mk_entries md5 names datas)).
    { intros v Hv. apply created_file_ok; try assumption.
      apply (Forall_map snd (fun b : bytes => N.of_nat (length b) < 2^64)) in Hol. rewrite Eouts in Hol.
      rewrite Forall_forall in Hol. apply Hol. apply in_map. apply in_seq. lia. }
    rewrite Eouts. clear Eouts Hol EO.
    unfold valid_par1_set. rewrite Hlen, Nat.eqb_refl. cbn [andb].
    fold mk_file.
    apply andb_true_intro. split.
    - unfold s1_set_valid.
      rewrite map_length, seq_length, Nat.eqb_refl. cbn [andb].
      apply andb_true_intro. split; [apply andb_true_intro; split|].
      + apply forallb_forall. intros [v o] Hin.
        destruct (in_combine_seq_map (created_file md5 names datas nv) v o _ _ Hin) as [Hv ->].
        cbn [fst snd]. apply Hall. lia.
      + apply forallb_forall. intros o Hin. apply in_map_iff in Hin. destruct Hin as (v & <- & Hv).
        apply in_seq in Hv. cbn [seq map hd].
        destruct (Hall v ltac:(lia)) as (_ & _ & ->). destruct (Hall 0%nat ltac:(lia)) as (_ & _ & ->).
        apply s1_entries_eqb_refl.
      + destruct nv as [|nv']; [reflexivity|]. cbn [Nat.eqb orb]. apply Nat.leb_le.
        rewrite mk_saved_all, map_length, combine_length. lia.
    - apply forallb_forall. intros o Hin. apply in_map_iff in Hin. destruct Hin as (v & <- & Hv).
      apply in_seq in Hv. apply Hall. lia.
  Qed.
End Conforms.

Print Assumptions parity_is_spec.
Print Assumptions par1_writer_conforms.

(** * 6. Non-vacuity: the hypotheses of (W), (W') and (R) on concrete inputs (stand-in digest toy_md5) *)
From Gopar Require Import Proofs.Par2CreatePaths.   (* toy_md5 *)

Module Par1SpecExamples.
  Lemma toy_len : forall x, length (toy_md5 x) = 16%nat.
  Proof.
    intros x. unfold toy_md5. rewrite firstn_length, app_length, map_length. unfold zeros. rewrite repeat_length. lia.
  Qed.

  (** (W): two files - one with a name that needs a surrogate pair -, two volumes *)
  Definition w_names : list bytes := [[97; 46; 100; 97; 116]; [97; 240; 157; 132; 158; 195; 169]].   (* "a.dat", "a" U+1D11E U+E9 *)
  Definition w_datas : list bytes := [[1; 2; 3; 4; 5]; [9; 8; 7]].
  Definition w_par : list N := [120; 46; 112; 97; 114].                                              (* "x.par" *)
  Definition w_outs : list (list N * bytes) :=
    match par1_outputs toy_md5 w_par 2 w_names w_datas with Ok o => o | _ => [] end.

  Lemma w_premises :
    length w_names = length w_datas /\ Forall input_name_wf w_names /\ Forall wf_bytes w_datas /\
    Forall (fun d : bytes => N.of_nat (length d) < 2^64) w_datas /\
    par1_outputs toy_md5 w_par 2 w_names w_datas = Ok w_outs /\
    Forall (fun o : list N * bytes => N.of_nat (length (snd o)) < 2^64) w_outs.
  Proof.
    split; [reflexivity|]. split.
    { constructor; [exists [97; 46; 100; 97; 116]|constructor; [exists [97; 0x1D11E; 0xE9]|constructor]];
        (split; [repeat constructor; unfold scalar; lia|vm_compute; reflexivity]). }
    split; [repeat constructor; unfold wf_byte; lia|].
    split; [repeat constructor|].
    split; [vm_compute; reflexivity|].
    repeat constructor.
  Qed.

  Example par1_writer_conforms_example :
    valid_par1_set toy_md5 w_names w_datas 2 (map snd w_outs) = true /\
    map fst w_outs = [[120; 46; 112; 97; 114]; [120; 46; 112; 48; 49]; [120; 46; 112; 48; 50]] /\   (* x.par x.p01 x.p02 *)
    length w_outs = 3%nat.
  Proof.
    destruct w_premises as (H1 & H2 & H3 & H4 & H5 & H6).
    destruct (par1_writer_conforms toy_md5 toy_len w_par 2 w_names w_datas w_outs H1 H2 H3 H4 H5 H6) as [V P].
    split; [exact V|]. split; [rewrite P; vm_compute; reflexivity|vm_compute; reflexivity].
  Qed.

  (* the validator is not trivially true: one flipped parity byte, a wrong status, or a swapped volume is rejected *)
  Example validator_rejects :
    let outs := map snd w_outs in
    let flip_last (b : bytes) := firstn (length b - 1) b ++ [N.lxor (last b 0) 1] in
    valid_par1_set toy_md5 w_names w_datas 2 outs = true /\
    valid_par1_set toy_md5 w_names w_datas 2 [nth 0 outs []; flip_last (nth 1 outs []); nth 2 outs []] = false /\
    valid_par1_set toy_md5 w_names w_datas 2 [nth 0 outs []; nth 2 outs []; nth 1 outs []] = false /\
    valid_par1_set toy_md5 w_names [[1; 2; 3; 4; 6]; [9; 8; 7]] 2 outs = false /\
    valid_par1_set toy_md5 [[97; 46; 100; 97; 116]; [97; 195; 169]] w_datas 2 outs = false.
  Proof. vm_compute. repeat split; reflexivity. Qed.

  (** (R): a hand-made index file (built by an independent writer, NOT by write_volume): non-zero client
      field, a comment, three entries: saved / NOT saved with a surrogate-pair name / saved with a further
      status bit set *)
  Definition hm_build (number count flo flb dof db : N) (sethash body : bytes) : bytes :=
    let tail := sethash ++ le_encode 8 number ++ le_encode 8 count ++ le_encode 8 flo ++ le_encode 8 flb
                ++ le_encode 8 dof ++ le_encode 8 db ++ body in
    [80; 65; 82; 0; 0; 0; 0; 0] ++ le_encode 4 0x00010000 ++ le_encode 4 0xBEEF ++ toy_md5 tail ++ tail.
  Definition hm_entry (status : N) (data name16 : bytes) : bytes :=
    le_encode 8 (56 + N.of_nat (length name16)) ++ le_encode 8 status ++ le_encode 8 (N.of_nat (length data))
      ++ toy_md5 data ++ toy_md5 (firstn (N.to_nat 16384) data) ++ name16.

  Definition hm_d1 : bytes := [1; 2; 3].
  Definition hm_d2 : bytes := [7; 7].
  Definition hm_d3 : bytes := [4; 5; 6; 7].
  Definition hm_list : bytes :=
    hm_entry 1 hm_d1 [120; 0]                                        (* "x" *)
    ++ hm_entry 0 hm_d2 [0x34; 0xD8; 0x1E; 0xDD; 0x2E; 0; 0x6D; 0]   (* U+1D11E ".m", not saved *)
    ++ hm_entry 3 hm_d3 [0xE9; 0; 0x79; 0].                          (* U+E9 "y", saved, bit 1 also set *)
  Definition hm_comment : bytes := [104; 0; 105; 0].                 (* "hi" *)
  Definition hm_sethash : bytes := toy_md5 (toy_md5 hm_d1 ++ toy_md5 hm_d3).
  Definition hm_flb : N := N.of_nat (length hm_list).
  Definition hm_index : bytes := hm_build 0 3 96 hm_flb (96 + hm_flb) 4 hm_sethash (hm_list ++ hm_comment).

  Definition hm_dummy : s1vol :=
    {| sv_client := 0; sv_sethash := []; sv_number := 0; sv_count := 0; sv_flo := 0; sv_flb := 0; sv_do := 0; sv_db := 0;
       sv_entries := []; sv_data := [] |}.
  Definition hm_vol : s1vol :=
    Eval vm_compute in match s1_parse toy_md5 hm_index with Some sv => sv | None => hm_dummy end.

  Lemma hm_index_premises :
    s1_parse toy_md5 hm_index = Some hm_vol /\ N.of_nat (length hm_index) < 2^64 /\
    sv_flo hm_vol = 96 /\ sv_do hm_vol = 96 + sv_flb hm_vol /\ sv_do hm_vol + sv_db hm_vol = N.of_nat (length hm_index) /\
    Forall (fun e => name16_ok (se_name16 e)) (sv_entries hm_vol).
  Proof.
    split; [vm_compute; reflexivity|]. split; [vm_compute; reflexivity|].
    split; [reflexivity|]. split; [reflexivity|]. split; [vm_compute; reflexivity|].
    repeat constructor; discriminate.
  Qed.

  Example par1_reader_accepts_conformant_example :
    exists v, read_volume toy_md5 hm_index = Ok v /\
      sv_client hm_vol = 0xBEEF /\ v_number v = 0 /\ v_count v = 3 /\ v_data v = hm_comment /\
      map e_status (v_entries v) = [1; 0; 3] /\ map (saved) (v_entries v) = [true; false; true] /\
      map e_len (v_entries v) = [3; 2; 4] /\
      map e_name (v_entries v) = [s1_utf8 [0x78]; s1_utf8 [0x1D11E; 0x2E; 0x6D]; s1_utf8 [0xE9; 0x79]] /\
      v_sethash_stored v = hm_sethash /\ v_sethash v = hm_sethash.
  Proof.
    destruct hm_index_premises as (H1 & H2 & H3 & H4 & H5 & H6).
    destruct (par1_reader_accepts_conformant toy_md5 hm_index hm_vol H1 H2 H3 H4 H5 H6)
      as (v & E & F1 & F2 & F3 & F4 & F5 & F6).
    exists v. split; [exact E|]. split; [reflexivity|].
    rewrite F6, F5, F1, F2, F3, F4. rewrite !map_map.
    do 6 (split; [reflexivity|]). split; [|split; reflexivity].
    (* the names, through the strict spec-side decoder *)
    cbn [hm_vol sv_entries map].
    rewrite (reader_name_strict _ [0x78]), (reader_name_strict _ [0x1D11E; 0x2E; 0x6D]), (reader_name_strict _ [0xE9; 0x79])
      by (vm_compute; reflexivity).
    reflexivity.
  Qed.

  (* the same file, evaluated: the reader model returns exactly these names (UTF-8) *)
  Example hm_index_computed :
    match read_volume toy_md5 hm_index with
    | Ok v => map e_name (v_entries v) = [[120]; [240; 157; 132; 158; 46; 109]; [195; 169; 121]] /\ v_data v = hm_comment
    | _ => False
    end.
  Proof. vm_compute. split; reflexivity. Qed.

  (** FINDINGS about the reader, as refutations of "(R) without its layout premises": each file below is
      accepted by the specification-side parser, with the same entries and comment as hm_index. *)

  (* 1. the comment placed BEFORE the file list (0x40 <> 0x60): gopar rejects the file *)
  Definition hm_relocated : bytes := hm_build 0 3 (96 + 4) hm_flb 96 4 hm_sethash (hm_comment ++ hm_list).
  Example reader_requires_list_at_0x60_refuted :
    (match s1_parse toy_md5 hm_relocated with
     | Some sv => sv_entries sv = sv_entries hm_vol /\ sv_data sv = hm_comment /\ sv_flo sv = 100
     | None => False end) /\
    read_volume toy_md5 hm_relocated = Err EMalformed.
  Proof. vm_compute. repeat split; reflexivity. Qed.

  (* 2. bytes behind the data area (0x50 + 0x58 < file size): gopar ignores the data offset and size fields
        and takes everything behind the file list as the data *)
  Definition hm_trailing : bytes := hm_build 0 3 96 hm_flb (96 + hm_flb) 4 hm_sethash (hm_list ++ hm_comment ++ [9; 9]).
  Example reader_ignores_data_fields_refuted :
    (match s1_parse toy_md5 hm_trailing with
     | Some sv => sv_entries sv = sv_entries hm_vol /\ sv_data sv = hm_comment
     | None => False end) /\
    (match read_volume toy_md5 hm_trailing with Ok v => v_data v = hm_comment ++ [9; 9] | _ => False end).
  Proof. vm_compute. repeat split; reflexivity. Qed.

  (* 3. an entry whose name field is empty: gopar rejects the file *)
  Definition hm_noname_list : bytes := hm_entry 1 hm_d1 [120; 0] ++ hm_entry 0 hm_d2 [].
  Definition hm_noname : bytes :=
    hm_build 0 2 96 (N.of_nat (length hm_noname_list)) (96 + N.of_nat (length hm_noname_list)) 0
             (toy_md5 (toy_md5 hm_d1)) hm_noname_list.
  Example reader_requires_nonempty_names_refuted :
    (match s1_parse toy_md5 hm_noname with Some sv => length (sv_entries sv) = 2%nat | None => False end) /\
    s1_contiguous toy_md5 hm_noname = true /\
    read_volume toy_md5 hm_noname = Err EMalformed.
  Proof. vm_compute. repeat split; reflexivity. Qed.

  (* 4. a name field that is not UTF-16 (a lone low surrogate): not a conformant name - the strict decoder
        rejects it - but gopar reads the file and substitutes U+FFFD *)
  Definition hm_lone : bytes :=
    let l := hm_entry 1 hm_d1 [0x1E; 0xDD] in
    hm_build 0 1 96 (N.of_nat (length l)) (96 + N.of_nat (length l)) 0 (toy_md5 (toy_md5 hm_d1)) l.
  Example reader_lone_surrogate :
    (match s1_parse toy_md5 hm_lone with
     | Some sv => map (fun e => s1_utf16le_scalars (se_name16 e)) (sv_entries sv) = [None]
     | None => False end) /\
    (match read_volume toy_md5 hm_lone with Ok v => map e_name (v_entries v) = [[239; 191; 189]] | _ => False end).
  Proof. vm_compute. repeat split; reflexivity. Qed.
End Par1SpecExamples.

Print Assumptions Par1SpecExamples.par1_writer_conforms_example.
Print Assumptions Par1SpecExamples.par1_reader_accepts_conformant_example.
Print Assumptions Par1SpecExamples.reader_requires_list_at_0x60_refuted.
