(* C18, the halves that existed only for PAR2 - now for PAR1 too - and two strengthenings for both formats:
   A1  par1_create_ok_no_fault        PAR1 Create that reports success was hit by no scheduled fault
   A2  par1_repaired_only_completed   PAR1 Repair lists a path as repaired only if its write call completed
       *_repair_last_write_wins       after ANY run of Repair (any fault schedule) a path whose LAST write call of
                                      the run completed holds exactly the data of that call (PAR1 and PAR2)
       *_repaired_completed_content   a path listed as repaired that no later write call targets holds the data
                                      of a completed write call (PAR1 and PAR2)
       *_repair_writes_once           Repair writes each path at most once when the target paths of the saved
                                      entries (PAR1) / of the recovery-set files (PAR2) are distinct
       *_repaired_content             the two combined: the NoDup premise of C14_par1_success_then_clean_and_idle
   A3  par1_create_untouched          PAR1 Create changes only the paths it issued write calls for
   A4  par1_create_rerun / par2_create_rerun
                                      a faulted Create (any schedule) followed by a fault-free rerun on the state
                                      it left: same result, same calls, and the same content AT EVERY PATH as the
                                      fault-free run from the original state
   Examples on concrete runs with a torn write at the end. *)
From Coq Require Import Lia ZifyN ZifyNat ZifyBool.
From Gopar Require Import Model.Base Model.GF8 Model.CRC Model.GoPath Model.FS Model.Par2 Model.Par1
     Proofs.GoPathFacts Proofs.Par2Facts Proofs.Par2Verify Proofs.Par2Faults Proofs.Par1Facts Proofs.Par1Safety
     Proofs.Par2CreatePaths Proofs.CreateContain Proofs.HistoryFacts2.
Open Scope N_scope.
Set Default Timeout 120.

(** * 0. what a path holds after a run: the data of its last write call, when that call completed *)

(* the last write call to q in a trace: (data, completed?) *)
Fixpoint lastw (q : list N) (t : list ioev) : option (bytes * bool) :=
  match t with
  | [] => None
  | ev :: r => match lastw q r with
               | Some y => Some y
               | None => match ev with
                         | EvWrite p d ok => if str_eqb p q then Some (d, ok) else None
                         | _ => None
                         end
               end
  end.

Lemma lastw_app q a b : lastw q (a ++ b) = match lastw q b with Some y => Some y | None => lastw q a end.
Proof.
  induction a as [|ev a IH]; cbn [app lastw].
  - destruct (lastw q b); reflexivity.
  - rewrite IH. destruct (lastw q b); reflexivity.
Qed.

Lemma written_paths_cons ev t :
  written_paths (ev :: t) = match ev with EvWrite p _ _ => [p] | _ => [] end ++ written_paths t.
Proof. reflexivity. Qed.

Lemma lastw_none_iff q : forall t, lastw q t = None <-> ~ In q (written_paths t).
Proof.
  induction t as [|ev t IH].
  - split; [intros _ []|reflexivity].
  - rewrite written_paths_cons. cbn [lastw]. destruct (lastw q t) as [y|] eqn:E.
    + split; [discriminate|]. intros H. exfalso. apply H. apply in_or_app. right.
      destruct (in_dec (list_eq_dec N.eq_dec) q (written_paths t)) as [Hin|Hni]; [exact Hin|].
      apply IH in Hni. discriminate Hni.
    + assert (Hni : ~ In q (written_paths t)) by (apply IH; reflexivity).
      destruct ev as [p ok|a b ok|p d ok]; cbn [app]; [split; [intros _; exact Hni|reflexivity]..|].
      destruct (str_eqb p q) eqn:Ep.
      * split; [discriminate|]. intros H. exfalso. apply H. left. apply str_eqb_eq. exact Ep.
      * split; [|reflexivity]. intros _ [Heq|Hin]; [|exact (Hni Hin)].
        subst p. rewrite str_eqb_refl in Ep. discriminate Ep.
Qed.

Lemma lastw_split q d ok t1 t2 : ~ In q (written_paths t2) -> lastw q (t1 ++ EvWrite q d ok :: t2) = Some (d, ok).
Proof.
  intros H. apply lastw_none_iff in H. rewrite lastw_app. cbn [lastw]. rewrite H, str_eqb_refl. reflexivity.
Qed.

(* st' extends the trace of st; a path without a write call in the extension keeps its content, and a path
   whose last write call in the extension completed holds the data of that call *)
Definition wlog (st st' : io) : Prop :=
  exists t, io_trace st' = io_trace st ++ t /\
    forall q, match lastw q t with
              | None => fs_lookup (io_fs st') q = fs_lookup (io_fs st) q
              | Some (d, true) => fs_lookup (io_fs st') q = Some d
              | Some (_, false) => True
              end.

Lemma wlog_refl st : wlog st st.
Proof. exists []. split; [symmetry; apply app_nil_r|]. intros q. reflexivity. Qed.

Lemma wlog_trans a b c : wlog a b -> wlog b c -> wlog a c.
Proof.
  intros (t1 & T1 & F1) (t2 & T2 & F2). exists (t1 ++ t2).
  split; [rewrite T2, T1, app_assoc; reflexivity|].
  intros q. rewrite lastw_app. specialize (F1 q). specialize (F2 q).
  destruct (lastw q t2) as [[d [|]]|]; [exact F2|exact I|].
  destruct (lastw q t1) as [[d [|]]|]; [rewrite F2; exact F1|exact I|rewrite F2; exact F1].
Qed.

Lemma pres_wlog st st' : pres st st' -> wlog st st'.
Proof.
  intros (F & _ & t & T & W). exists t. split; [exact T|]. intros q.
  assert (E : lastw q t = None).
  { apply lastw_none_iff. rewrite (written_paths_no_write t W). intros []. }
  rewrite E, F. reflexivity.
Qed.

Lemma fsl_set : forall f p d q,
  fs_lookup (fs_set f p d) q = if str_eqb p q then Some d else fs_lookup f q.
Proof.
  induction f as [|[k e] f IH]; intros p d q; cbn [fs_set fs_lookup]; [reflexivity|].
  destruct (str_eqb k p) eqn:Ekp.
  - apply str_eqb_eq in Ekp. subst k. cbn [fs_lookup]. destruct (str_eqb p q); reflexivity.
  - cbn [fs_lookup]. rewrite IH. destruct (str_eqb k q) eqn:Ekq; [|reflexivity].
    apply str_eqb_eq in Ekq. subst q. destruct (str_eqb p k) eqn:Epk; [|reflexivity].
    apply str_eqb_eq in Epk. subst p. rewrite str_eqb_refl in Ekp. discriminate Ekp.
Qed.

Lemma io_write_wlog p d st : wlog st (snd (io_write p d st)).
Proof.
  unfold io_write.
  destruct (sched_lookup (io_sched st) (io_n st)) as [[|k]|]; cbn [snd].
  - exists [EvWrite p d false]. split; [reflexivity|]. intros q. cbn [lastw].
    destruct (str_eqb p q); [exact I|reflexivity].
  - exists [EvWrite p d false]. split; [reflexivity|]. intros q. cbn [lastw].
    destruct (str_eqb p q) eqn:E; [exact I|]. cbn [tick io_fs]. rewrite fsl_set, E. reflexivity.
  - exists [EvWrite p d true]. split; [reflexivity|]. intros q. cbn [lastw].
    destruct (str_eqb p q) eqn:E; cbn [tick io_fs]; rewrite fsl_set, E; reflexivity.
Qed.

Lemma wlog_init_last fs sched st' : wlog (io_init fs sched) st' ->
  forall q d t1 t2, io_trace st' = t1 ++ EvWrite q d true :: t2 -> ~ In q (written_paths t2) ->
  fs_lookup (io_fs st') q = Some d.
Proof.
  intros (t & T & F) q d t1 t2 E Hq. cbn [io_init io_trace app] in T. subst t.
  specialize (F q). rewrite E, (lastw_split q d true t1 t2 Hq) in F. exact F.
Qed.

(* when q is written at most once in the whole trace, any completed write call to q is the last one *)
Lemma NoDup_written_last q d ok t1 t2 :
  NoDup (written_paths (t1 ++ EvWrite q d ok :: t2)) -> ~ In q (written_paths t2).
Proof.
  rewrite written_paths_app, written_paths_cons. cbn [app]. intros H Hin.
  apply NoDup_remove_2 in H. apply H. apply in_or_app. right. exact Hin.
Qed.

(** ** list helpers: distinct keys stay distinct through combine *)
Lemma NoDup_map_combine_l {A B K} (g : A -> K) : forall (b : list A) (c : list B),
  NoDup (map g b) -> NoDup (map (fun u : A * B => g (fst u)) (combine b c)).
Proof.
  induction b as [|x b IH]; intros [|y c] H; cbn [combine map]; try apply NoDup_nil.
  cbn [map] in H. inversion H as [|? ? Hx Hb]; subst. cbn [fst]. apply NoDup_cons; [|apply IH; exact Hb].
  intros Hin. apply Hx. apply in_map_iff in Hin. destruct Hin as ([x' y'] & E & Hin). cbn [fst] in E.
  apply in_combine_l in Hin. rewrite <- E. apply in_map. exact Hin.
Qed.

Lemma NoDup_map_combine_r {A B K} (h : B -> K) : forall (a : list A) (l : list B),
  NoDup (map h l) -> NoDup (map (fun t : A * B => h (snd t)) (combine a l)).
Proof.
  induction a as [|x a IH]; intros [|y l] H; cbn [combine map]; try apply NoDup_nil.
  cbn [map] in H. inversion H as [|? ? Hy Hl]; subst. cbn [snd]. apply NoDup_cons; [|apply IH; exact Hl].
  intros Hin. apply Hy. apply in_map_iff in Hin. destruct Hin as ([x' y'] & E & Hin). cbn [snd] in E.
  apply in_combine_r in Hin. rewrite <- E. apply in_map. exact Hin.
Qed.

(** ** the two copies of the read loop and of the write loop (Model/Par1.v, Model/Par2.v) are the same function *)
Lemma io_reads_same : forall paths st, Par1.io_reads paths st = Par2.io_reads paths st.
Proof.
  induction paths as [|p r IH]; intros st; cbn [Par1.io_reads Par2.io_reads]; [reflexivity|].
  destruct (io_read p st) as [[d|e|q] st1]; [rewrite IH|..]; reflexivity.
Qed.

Lemma io_writes_same : forall ws st, Par1.io_writes ws st = Par2.io_writes ws st.
Proof.
  induction ws as [|[p d] r IH]; intros st; cbn [Par1.io_writes Par2.io_writes]; [reflexivity|].
  destruct (io_write p d st) as [[u|e|q] st1]; [apply IH|reflexivity|reflexivity].
Qed.

(** ** success of the loops means no fault *)
Lemma p1_io_reads_ok_nf : forall paths st ds st', Par1.io_reads paths st = (Ok ds, st') -> nf st st'.
Proof.
  induction paths as [|p r IH]; intros st ds st' H; cbn [Par1.io_reads] in H.
  - injection H as _ <-. apply nf_refl.
  - destruct (io_read p st) as [[d|e|q] st1] eqn:ER; try discriminate H.
    destruct (Par1.io_reads r st1) as [[ds1|e|q] st2] eqn:ERS; try discriminate H.
    injection H as _ <-.
    eapply nf_trans; [eapply io_read_ok_nf; exact ER|eapply IH; exact ERS].
Qed.

Lemma p1_io_writes_ok_nf : forall ws st u st', Par1.io_writes ws st = (Ok u, st') -> nf st st'.
Proof.
  induction ws as [|[p d] r IH]; intros st u st' H; cbn [Par1.io_writes] in H.
  - injection H as _ <-. apply nf_refl.
  - destruct (io_write p d st) as [[u1|e|q] st1] eqn:EW; try discriminate H.
    eapply nf_trans; [eapply io_write_ok_nf; exact EW|eapply IH; exact H].
Qed.

(** ** the loops without a fault *)

(* the file map after a list of completed writes *)
Definition aw (ws : list (list N * bytes)) (f : list (list N * bytes)) : list (list N * bytes) :=
  fold_left (fun f (pd : list N * bytes) => fs_set f (fst pd) (snd pd)) ws f.

Lemma aw_lookup_agree : forall ws f f' q,
  In q (map fst ws) \/ fs_lookup f q = fs_lookup f' q ->
  fs_lookup (aw ws f) q = fs_lookup (aw ws f') q.
Proof.
  unfold aw. induction ws as [|[p d] ws IH]; intros f f' q H; cbn [fold_left fst snd].
  - destruct H as [[]|H]. exact H.
  - apply IH. cbn [map fst In] in H. rewrite !fsl_set.
    destruct (str_eqb p q) eqn:E; [right; reflexivity|].
    destruct H as [[Heq|Hin]|H]; [|left; exact Hin|right; exact H].
    subst p. rewrite str_eqb_refl in E. discriminate E.
Qed.

Lemma p1_io_reads_ok_inv : forall paths st datas st1, Par1.io_reads paths st = (Ok datas, st1) ->
  Forall2 (fun p d => fs_lookup (io_fs st) p = Some d) paths datas /\ io_fs st1 = io_fs st.
Proof.
  induction paths as [|p r IH]; intros st datas st1 H; cbn [Par1.io_reads] in H.
  - injection H as <- <-. split; [constructor|reflexivity].
  - pose proof (io_read_fs p st) as F.
    destruct (io_read p st) as [[d|e|q] st'] eqn:ER; try discriminate H. cbn [snd] in F.
    apply io_read_ok_any in ER.
    destruct (Par1.io_reads r st') as [[ds|e|q] st''] eqn:ERS; try discriminate H.
    injection H as <- <-. destruct (IH _ _ _ ERS) as [F2 Fs]. rewrite F in F2, Fs.
    split; [constructor; assumption|exact Fs].
Qed.

Lemma p1_io_reads_nofault : forall paths datas st, io_sched st = [] ->
  Forall2 (fun p d => fs_lookup (io_fs st) p = Some d) paths datas ->
  exists st1, Par1.io_reads paths st = (Ok datas, st1) /\ io_fs st1 = io_fs st /\ io_sched st1 = [] /\
              io_trace st1 = io_trace st ++ map (fun p => EvRead p true) paths.
Proof.
  induction paths as [|p r IH]; intros datas st Hs H; inversion H as [|? d ? ds Hl Hr]; subst; cbn [Par1.io_reads].
  - exists st. repeat split; [exact Hs|cbn [map]; symmetry; apply app_nil_r].
  - assert (ER : io_read p st = (Ok d, tick st (EvRead p true) (io_fs st))).
    { unfold io_read. rewrite Hs. cbn [sched_lookup]. rewrite Hl. reflexivity. }
    rewrite ER.
    destruct (IH ds (tick st (EvRead p true) (io_fs st)) Hs Hr) as (st1 & E1 & F1 & S1 & T1).
    rewrite E1. exists st1. split; [reflexivity|]. split; [exact F1|]. split; [exact S1|].
    rewrite T1. cbn [tick io_trace map]. rewrite <- app_assoc. reflexivity.
Qed.

Lemma p1_io_writes_nofault : forall ws st, io_sched st = [] ->
  exists st2, Par1.io_writes ws st = (Ok tt, st2) /\ io_fs st2 = aw ws (io_fs st) /\
              io_trace st2 = io_trace st ++ map (fun pd : list N * bytes => EvWrite (fst pd) (snd pd) true) ws.
Proof.
  induction ws as [|[p d] r IH]; intros st Hs; cbn [Par1.io_writes].
  - exists st. repeat split. cbn [map]. symmetry. apply app_nil_r.
  - assert (EW : io_write p d st = (Ok tt, tick st (EvWrite p d true) (fs_set (io_fs st) p d))).
    { unfold io_write. rewrite Hs. reflexivity. }
    rewrite EW.
    destruct (IH (tick st (EvWrite p d true) (fs_set (io_fs st) p d)) Hs) as (st2 & E2 & F2 & T2).
    exists st2. split; [exact E2|]. split; [rewrite F2; reflexivity|].
    rewrite T2. cbn [tick io_trace map fst snd]. rewrite <- app_assoc. reflexivity.
Qed.

(* under any schedule the write loop changes only the paths of its list *)
Lemma p1_io_writes_outside : forall ws st q, ~ In q (map fst ws) ->
  fs_lookup (io_fs (snd (Par1.io_writes ws st))) q = fs_lookup (io_fs st) q.
Proof.
  intros ws st q Hq.
  destruct (p1_io_writes_touched ws st) as (t & T & F).
  destruct (p1_io_writes_trace ws st) as (t' & T' & W).
  rewrite T in T'. apply app_inv_head in T'. subst t'.
  apply F. intros Hin. apply written_paths_in in Hin. destruct Hin as (d & ok & Hin).
  rewrite Forall_forall in W. destruct (W _ Hin) as (p' & d' & ok' & Hev & Hpd).
  injection Hev as <- <- _. apply Hq. apply (in_map fst) in Hpd. exact Hpd.
Qed.

Lemma Forall2_lookup_transfer (f f' : list (list N * bytes)) : forall paths datas,
  Forall2 (fun p d => fs_lookup f p = Some d) paths datas ->
  (forall p, In p paths -> fs_lookup f' p = fs_lookup f p) ->
  Forall2 (fun p d => fs_lookup f' p = Some d) paths datas.
Proof.
  induction 1 as [|p d paths datas Hp _ IH]; intros Hin; constructor.
  - rewrite (Hin p (or_introl eq_refl)). exact Hp.
  - apply IH. intros p' Hp'. apply Hin. right. exact Hp'.
Qed.

(** ** Create, generically: read the inputs, compute the outputs (a pure function of the contents read), write them *)
Definition rw_body (paths : list (list N)) (plan : list bytes -> outcome (list (list N * bytes))) (st : io)
  : outcome unit * io :=
  match Par1.io_reads paths st with
  | (Ok datas, st1) => match plan datas with
                       | Ok outs => Par1.io_writes outs st1
                       | Err e => (Err e, st1)
                       | Panic q => (Panic q, st1)
                       end
  | (Err e, st1) => (Err e, st1)
  | (Panic q, st1) => (Panic q, st1)
  end.

(* running [op] without faults from fs1 is running it without faults from fs: same result, same content at
   every path, same calls *)
Definition rerun_same (op : io -> outcome unit * io) (fs fs1 : list (list N * bytes)) : Prop :=
  fst (op (io_init fs1 [])) = fst (op (io_init fs [])) /\
  (forall q, fs_lookup (io_fs (snd (op (io_init fs1 [])))) q = fs_lookup (io_fs (snd (op (io_init fs [])))) q) /\
  io_trace (snd (op (io_init fs1 []))) = io_trace (snd (op (io_init fs []))).

Lemma rerun_same_refl op fs : rerun_same op fs fs.
Proof. repeat split. Qed.

Lemma rw_body_rerun paths plan fs sched :
  (forall p, In p paths ->
     fs_lookup (io_fs (snd (rw_body paths plan (io_init fs sched)))) p = fs_lookup fs p) ->
  rerun_same (rw_body paths plan) fs (io_fs (snd (rw_body paths plan (io_init fs sched)))).
Proof.
  remember (io_fs (snd (rw_body paths plan (io_init fs sched)))) as fs1 eqn:E1. intros Hin.
  unfold rw_body in E1.
  pose proof (p1_io_reads_pres paths (io_init fs sched)) as P. destruct P as (F1 & _).
  destruct (Par1.io_reads paths (io_init fs sched)) as [[datas|e|q] st1] eqn:ER; cbn [snd io_init io_fs] in F1.
  2,3: cbn [snd] in E1; rewrite E1, F1; apply rerun_same_refl.
  destruct (plan datas) as [outs|e|q] eqn:EP.
  2,3: cbn [snd] in E1; rewrite E1, F1; apply rerun_same_refl.
  destruct (p1_io_reads_ok_inv _ _ _ _ ER) as [F2 _]. cbn [io_init io_fs] in F2.
  pose proof (Forall2_lookup_transfer fs fs1 paths datas F2 Hin) as F2'.
  destruct (p1_io_reads_nofault paths datas (io_init fs1 []) eq_refl F2') as (sa & Ea & Fa & Sa & Ta).
  destruct (p1_io_reads_nofault paths datas (io_init fs []) eq_refl F2) as (sb & Eb & Fb & Sb & Tb).
  destruct (p1_io_writes_nofault outs sa Sa) as (sa2 & Ea2 & Fa2 & Ta2).
  destruct (p1_io_writes_nofault outs sb Sb) as (sb2 & Eb2 & Fb2 & Tb2).
  unfold rerun_same, rw_body. rewrite Ea, Eb, EP, Ea2, Eb2. cbn [fst snd].
  split; [reflexivity|]. split.
  - intros q. rewrite Fa2, Fb2, Fa, Fb. cbn [io_init io_fs]. apply aw_lookup_agree.
    destruct (in_dec (list_eq_dec N.eq_dec) q (map fst outs)) as [Hq|Hq]; [left; exact Hq|right].
    rewrite E1, (p1_io_writes_outside outs st1 q Hq). rewrite F1. reflexivity.
  - rewrite Ta2, Tb2, Ta, Tb. reflexivity.
Qed.

Section Par1Faults.
  Variable md5 : bytes -> bytes.

  (** * A1. PAR1 Create: success means no fault *)
  Theorem par1_create_ok_no_fault : forall parPath files nvol st st',
    par1_create md5 parPath files nvol st = (Ok tt, st') -> no_fault_between st st'.
  Proof.
    intros par files nvol st st' H.
    destruct (par1_create_ok_check md5 _ _ _ _ _ H) as (_ & datas & st1 & outs & ER & _ & _ & EW).
    apply p1_io_reads_ok_nf in ER. apply p1_io_writes_ok_nf in EW. apply (nf_trans _ _ _ ER EW).
  Qed.

  (* with the counter: from an initial state, no call of a successful Create met a scheduled fault *)
  Corollary par1_create_ok_every_call_fault_free : forall parPath files nvol fs sched st',
    par1_create md5 parPath files nvol (io_init fs sched) = (Ok tt, st') ->
    io_n st' = length (io_trace st') /\ forall n, (n < length (io_trace st'))%nat -> sched_lookup sched n = None.
  Proof.
    intros par files nvol fs sched st' H.
    pose proof (par1_create_counted md5 par files nvol (io_init fs sched)) as C. rewrite H in C. cbn [snd] in C.
    apply counted_init in C. split; [exact C|]. intros n Hn.
    apply (par1_create_ok_no_fault _ _ _ _ _ H n). cbn [io_init io_n]. lia.
  Qed.

  (** * A3. PAR1 Create changes only the paths it issued write calls for *)
  Theorem par1_create_untouched : forall parPath files nvol fs sched q,
    let st' := snd (par1_create md5 parPath files nvol (io_init fs sched)) in
    ~ In q (written_paths (io_trace st')) -> fs_lookup (io_fs st') q = fs_lookup fs q.
  Proof.
    intros par files nvol fs sched q st' Hq. apply (touched_init fs sched st' q); [|exact Hq].
    apply par1_create_touched.
  Qed.

  (** * A2. PAR1 Repair: a path is listed as repaired only if its write completed *)
  Lemma p1_write_repaired_completed ix : forall todo done st r rp st',
    p1_write_repaired md5 ix todo done st = ((r, rp), st') ->
    exists t, io_trace st' = io_trace st ++ t /\
              forall q, In q rp -> In q done \/ exists d, In (EvWrite q d true) t.
  Proof.
    induction todo as [|[e [o shard]] todo IH]; intros done st r rp st' H; cbn [p1_write_repaired] in H; cbv zeta in H.
    - injection H as _ <- <-. exists []. split; [symmetry; apply app_nil_r|]. intros q Hq. left. exact Hq.
    - destruct o as [given|]; [eapply IH; exact H|].
      assert (Stop : forall r0, ((r0, done), st) = ((r, rp), st') ->
                exists t, io_trace st' = io_trace st ++ t /\
                          forall q, In q rp -> In q done \/ exists d, In (EvWrite q d true) t).
      { intros r0 E. injection E as _ <- <-. exists []. split; [symmetry; apply app_nil_r|].
        intros q Hq. left. exact Hq. }
      lazymatch type of H with (if ?c then _ else _) = _ => destruct c end; [eapply Stop; exact H|].
      lazymatch type of H with (if ?c then _ else _) = _ => destruct c end; [eapply Stop; exact H|].
      lazymatch type of H with (if ?c then _ else _) = _ => destruct c end; [eapply Stop; exact H|].
      destruct (entry_path ix e) as [p|x|q0]; [|eapply Stop; exact H|eapply Stop; exact H].
      clear Stop.
      lazymatch type of H with context [io_write p ?d st] =>
        set (dd := d) in *;
        pose proof (io_write_touched p dd st) as TW;
        destruct (io_write p dd st) as [[u|x|q0] st1] eqn:EW end; cbn [snd] in TW.
      + apply io_write_ok_event in EW. apply IH in H. destruct H as (t & T & F).
        exists (EvWrite p dd true :: t). split.
        * rewrite T, EW, <- app_assoc. reflexivity.
        * intros q Hq. destruct (F q Hq) as [Hd|[d Hd]].
          -- apply in_app_or in Hd. destruct Hd as [Hd|[<-|[]]]; [left; exact Hd|].
             right. exists dd. left. reflexivity.
          -- right. exists d. right. exact Hd.
      + injection H as _ <- <-. destruct TW as (t & T & _). exists t. split; [exact T|].
        intros q1 Hq. left. exact Hq.
      + injection H as _ <- <-. destruct TW as (t & T & _). exists t. split; [exact T|].
        intros q1 Hq. left. exact Hq.
  Qed.

  Theorem par1_repaired_only_completed : forall ix dbl fs sched r rp st',
    par1_repair md5 ix dbl (io_init fs sched) = ((r, rp), st') ->
    forall q, In q rp -> exists d, In (EvWrite q d true) (io_trace st').
  Proof.
    intros ix dbl fs sched r rp st' H q Hq. unfold par1_repair in H.
    destruct (p1_load md5 ix (io_init fs sched)) as [[s|x|p] st1].
    2,3: injection H as _ <- _; destruct Hq.
    cbv zeta in H.
    assert (Stop : forall (r0 : outcome unit) (s0 : io), ((r0, @nil (list N)), s0) = ((r, rp), st') ->
              exists d, In (EvWrite q d true) (io_trace st')).
    { intros r0 s0 E. injection E as _ <- _. destruct Hq. }
    destruct (Nat.eqb (s_size s) 0).
    { destruct (Nat.eqb (count_none1 (s_data s)) 0); eapply Stop; exact H. }
    destruct (Nat.ltb 256 (length (s_data s) + length (s_parity s))); [eapply Stop; exact H|].
    destruct (build_shards s) as [sh|x|p]; [|eapply Stop; exact H|eapply Stop; exact H].
    destruct (par1_reconstruct (length (s_data s)) (length (s_parity s)) sh) as [full|x|p];
      [|eapply Stop; exact H|eapply Stop; exact H].
    match type of H with (match ?okdbl with _ => _ end) = _ => destruct okdbl as [[|]|x|p] end;
      [|eapply Stop; exact H..].
    apply p1_write_repaired_completed in H. destruct H as (t & T & F).
    destruct (F q Hq) as [[]|[d Hd]]. exists d. rewrite T. apply in_or_app. right. exact Hd.
  Qed.

  (** ** last write wins, for every run of Repair (PAR1 and PAR2) *)
  Lemma p1_write_repaired_wlog ix : forall todo done st,
    wlog st (snd (p1_write_repaired md5 ix todo done st)).
  Proof.
    induction todo as [|[e [o shard]] todo IH]; intros done st; cbn [p1_write_repaired]; cbv zeta.
    - cbn [snd]. apply wlog_refl.
    - destruct o as [given|]; [apply IH|].
      repeat lazymatch goal with
             | |- wlog _ (snd (if ?c then _ else _)) => destruct c; [cbn [snd]; apply wlog_refl|]
             end.
      destruct (entry_path ix e) as [p|x|q]; try (cbn [snd]; apply wlog_refl).
      lazymatch goal with |- context [io_write p ?d st] =>
        pose proof (io_write_wlog p d st) as TW;
        destruct (io_write p d st) as [[u|x|q] st1] end; cbn [snd] in TW.
      + eapply wlog_trans; [exact TW|apply IH].
      + cbn [snd]. exact TW.
      + cbn [snd]. exact TW.
  Qed.

  Lemma par1_repair_wlog ix dbl st : wlog st (snd (par1_repair md5 ix dbl st)).
  Proof.
    unfold par1_repair.
    pose proof (p1_load_pres md5 ix st) as P. apply pres_wlog in P.
    destruct (p1_load md5 ix st) as [[s|x|q] st1]; cbn [snd] in P; try (cbn [snd]; exact P).
    cbv zeta.
    repeat lazymatch goal with
           | |- wlog _ (snd (if ?c then _ else _)) => destruct c
           | |- wlog _ (snd (match ?c with Ok _ => _ | Err _ => _ | Panic _ => _ end)) => destruct c
           end; try (cbn [snd]; exact P).
    eapply wlog_trans; [exact P|apply p1_write_repaired_wlog].
  Qed.

  Lemma write_repaired_wlog ix : forall todo done st,
    wlog st (snd (write_repaired md5 ix todo done st)).
  Proof.
    induction todo as [|[b [info shards]] todo IH]; intros done st; cbn [write_repaired].
    - cbn [snd]. apply wlog_refl.
    - destruct b; [apply IH|].
      lazymatch goal with |- wlog _ (snd (if ?c then _ else _)) => destruct c end; [cbn [snd]; apply wlog_refl|].
      lazymatch goal with |- wlog _ (snd (if ?c then _ else _)) => destruct c end; [cbn [snd]; apply wlog_refl|].
      lazymatch goal with |- wlog _ (snd (if ?c then _ else _)) => destruct c end; [cbn [snd]; apply wlog_refl|].
      lazymatch goal with |- context [io_write ?p ?d st] =>
        pose proof (io_write_wlog p d st) as TW;
        destruct (io_write p d st) as [[u|e|q] st1] end; cbn [snd] in TW.
      + eapply wlog_trans; [exact TW|apply IH].
      + cbn [snd]. exact TW.
      + cbn [snd]. exact TW.
  Qed.

  Lemma par2_repair_wlog ix dbl st : wlog st (snd (par2_repair md5 ix dbl st)).
  Proof.
    unfold par2_repair.
    pose proof (load_all_pres md5 ix st) as P. apply pres_wlog in P.
    destruct (load_all md5 ix st) as [[ds|e|q] st1]; cbn [snd] in P; try (cbn [snd]; exact P).
    destruct (ds_fis ds) as [|fi0 fis0]; [cbn [snd]; exact P|].
    destruct (repair_core ds dbl) as [data|e|q]; try (cbn [snd]; exact P).
    eapply wlog_trans; [exact P|apply write_repaired_wlog].
  Qed.

  (* WHATEVER THE FAULTS: after a run of Repair, a path whose last write call of the run completed holds
     exactly the data of that call *)
  Theorem par1_repair_last_write_wins : forall ix dbl fs sched q d t1 t2,
    let st' := snd (par1_repair md5 ix dbl (io_init fs sched)) in
    io_trace st' = t1 ++ EvWrite q d true :: t2 -> ~ In q (written_paths t2) ->
    fs_lookup (io_fs st') q = Some d.
  Proof.
    intros ix dbl fs sched q d t1 t2 st'. apply (wlog_init_last fs sched). apply par1_repair_wlog.
  Qed.

  Theorem par2_repair_last_write_wins : forall ix dbl fs sched q d t1 t2,
    let st' := snd (par2_repair md5 ix dbl (io_init fs sched)) in
    io_trace st' = t1 ++ EvWrite q d true :: t2 -> ~ In q (written_paths t2) ->
    fs_lookup (io_fs st') q = Some d.
  Proof.
    intros ix dbl fs sched q d t1 t2 st'. apply (wlog_init_last fs sched). apply par2_repair_wlog.
  Qed.

  (* the stronger form of "repaired only if completed": the path HOLDS the data of a completed write call,
     provided no later write call of the run targets it (premise on the trace) *)
  Lemma completed_content_of (st' : io) (q : list N) :
    (forall d t1 t2, io_trace st' = t1 ++ EvWrite q d true :: t2 -> ~ In q (written_paths t2) ->
       fs_lookup (io_fs st') q = Some d) ->
    (forall t1 d ok t2, io_trace st' = t1 ++ EvWrite q d ok :: t2 -> ~ In q (written_paths t2)) ->
    (exists d, In (EvWrite q d true) (io_trace st')) ->
    exists d, In (EvWrite q d true) (io_trace st') /\ fs_lookup (io_fs st') q = Some d.
  Proof.
    intros LW Once (d & Hd). exists d. split; [exact Hd|].
    destruct (in_split _ _ Hd) as (t1 & t2 & E).
    apply (LW d t1 t2 E). apply (Once t1 d true t2 E).
  Qed.

  Theorem par1_repaired_completed_content : forall ix dbl fs sched r rp st',
    par1_repair md5 ix dbl (io_init fs sched) = ((r, rp), st') ->
    forall q, In q rp ->
    (forall t1 d ok t2, io_trace st' = t1 ++ EvWrite q d ok :: t2 -> ~ In q (written_paths t2)) ->
    exists d, In (EvWrite q d true) (io_trace st') /\ fs_lookup (io_fs st') q = Some d.
  Proof.
    intros ix dbl fs sched r rp st' H q Hq Once.
    apply completed_content_of; [|exact Once|exact (par1_repaired_only_completed _ _ _ _ _ _ _ H q Hq)].
    intros d t1 t2 E Hl.
    pose proof (par1_repair_last_write_wins ix dbl fs sched q d t1 t2) as L. rewrite H in L. cbn [snd] in L.
    exact (L E Hl).
  Qed.

  Theorem par2_repaired_completed_content : forall ix dbl fs sched r rp st',
    par2_repair md5 ix dbl (io_init fs sched) = ((r, rp), st') ->
    forall q, In q rp ->
    (forall t1 d ok t2, io_trace st' = t1 ++ EvWrite q d ok :: t2 -> ~ In q (written_paths t2)) ->
    exists d, In (EvWrite q d true) (io_trace st') /\ fs_lookup (io_fs st') q = Some d.
  Proof.
    intros ix dbl fs sched r rp st' H q Hq Once.
    apply completed_content_of; [|exact Once|exact (repaired_only_completed md5 _ _ _ _ _ _ _ H q Hq)].
    intros d t1 t2 E Hl.
    pose proof (par2_repair_last_write_wins ix dbl fs sched q d t1 t2) as L. rewrite H in L. cbn [snd] in L.
    exact (L E Hl).
  Qed.

  (** ** Repair writes each path at most once when the target paths are distinct *)
  Lemma p1_write_repaired_paths ix : forall todo done st,
    exists t, io_trace (snd (p1_write_repaired md5 ix todo done st)) = io_trace st ++ t /\
      (forall q, In q (written_paths t) ->
         In q (map (fun u : p1entry * (option bytes * bytes) => join2 (dir ix) (e_name (fst u))) todo)) /\
      (NoDup (map (fun u : p1entry * (option bytes * bytes) => join2 (dir ix) (e_name (fst u))) todo) ->
       NoDup (written_paths t)).
  Proof.
    induction todo as [|[e [o shard]] todo IH]; intros done st; cbn [p1_write_repaired]; cbv zeta.
    - exists []. cbn [snd]. split; [symmetry; apply app_nil_r|]. split; [intros q []|intros _; apply NoDup_nil].
    - set (P := fun u : p1entry * (option bytes * bytes) => join2 (dir ix) (e_name (fst u))) in *.
      assert (Triv : exists t, io_trace st = io_trace st ++ t /\
                (forall q, In q (written_paths t) -> In q (map P ((e, (o, shard)) :: todo))) /\
                (NoDup (map P ((e, (o, shard)) :: todo)) -> NoDup (written_paths t))).
      { exists []. split; [symmetry; apply app_nil_r|]. split; [intros q []|intros _; apply NoDup_nil]. }
      destruct o as [given|].
      { destruct (IH done st) as (t & T & I1 & N1). exists t. split; [exact T|]. split.
        - intros q Hq. right. apply I1. exact Hq.
        - intros H. cbn [map] in H. inversion H; subst. apply N1. assumption. }
      repeat lazymatch goal with
             | |- exists t, io_trace (snd (if ?c then _ else _)) = _ /\ _ => destruct c; [cbn [snd]; exact Triv|]
             end.
      destruct (entry_path ix e) as [p|x|q0] eqn:EP; [|cbn [snd]; exact Triv|cbn [snd]; exact Triv].
      clear Triv. apply entry_path_ok in EP. destruct EP as [_ Ep].
      lazymatch goal with |- context [io_write p ?d st] => set (dd := d) end.
      destruct (io_write_trace p dd st) as [ok T0].
      assert (One : (forall q, In q (written_paths [EvWrite p dd ok]) -> In q (map P ((e, (None, shard)) :: todo))) /\
                    (NoDup (map P ((e, (None, shard)) :: todo)) -> NoDup (written_paths [EvWrite p dd ok]))).
      { split.
        - intros q [<-|[]]. left. unfold P. cbn [fst]. symmetry. exact Ep.
        - intros _. change (NoDup [p]). apply NoDup_cons; [intros []|apply NoDup_nil]. }
      destruct (io_write p dd st) as [[u|x|q0] st1]; cbn [snd] in T0.
      + destruct (IH (done ++ [p]) st1) as (t & T & I1 & N1).
        exists (EvWrite p dd ok :: t). split; [rewrite T, T0, <- app_assoc; reflexivity|].
        rewrite written_paths_cons. cbn [app]. split.
        * intros q [<-|Hq]; [left; unfold P; cbn [fst]; symmetry; exact Ep|right; apply I1; exact Hq].
        * intros H. cbn [map] in H. apply NoDup_cons_iff in H. destruct H as [Hx Hr].
          apply NoDup_cons; [|apply N1; exact Hr].
          intros Hin. apply Hx. unfold P at 1. cbn [fst]. rewrite <- Ep. apply I1. exact Hin.
      + cbn [snd]. exists [EvWrite p dd ok]. split; [exact T0|exact One].
      + cbn [snd]. exists [EvWrite p dd ok]. split; [exact T0|exact One].
  Qed.

  Theorem par1_repair_writes_once : forall ix dbl fs sched s st1,
    p1_load md5 ix (io_init fs sched) = (Ok s, st1) ->
    NoDup (map (fun e => join2 (dir ix) (e_name e)) (s_saved s)) ->
    NoDup (written_paths (io_trace (snd (par1_repair md5 ix dbl (io_init fs sched))))).
  Proof.
    intros ix dbl fs sched s st1 EL Hnd. unfold par1_repair.
    destruct (p1_load_pres md5 ix (io_init fs sched)) as (_ & _ & t0 & T0 & W0).
    rewrite EL in *. cbn [snd io_init io_trace app] in T0.
    assert (Base : NoDup (written_paths (io_trace st1))).
    { rewrite T0, (written_paths_no_write t0 W0). apply NoDup_nil. }
    cbv zeta.
    repeat lazymatch goal with
           | |- NoDup (written_paths (io_trace (snd (if ?c then _ else _)))) => destruct c
           | |- NoDup (written_paths (io_trace (snd (match ?c with Ok _ => _ | Err _ => _ | Panic _ => _ end)))) => destruct c
           end; try (cbn [snd]; exact Base).
    lazymatch goal with |- context [p1_write_repaired md5 ix ?todo ?done st1] =>
      destruct (p1_write_repaired_paths ix todo done st1) as (t & T & _ & N1) end.
    rewrite T, T0, written_paths_app, (written_paths_no_write t0 W0). cbn [app]. apply N1.
    apply (NoDup_map_combine_l (fun e => join2 (dir ix) (e_name e))). exact Hnd.
  Qed.

  Theorem par1_repaired_content : forall ix dbl fs sched r rp st' s st1,
    par1_repair md5 ix dbl (io_init fs sched) = ((r, rp), st') ->
    p1_load md5 ix (io_init fs sched) = (Ok s, st1) ->
    NoDup (map (fun e => join2 (dir ix) (e_name e)) (s_saved s)) ->
    forall q, In q rp -> exists d, In (EvWrite q d true) (io_trace st') /\ fs_lookup (io_fs st') q = Some d.
  Proof.
    intros ix dbl fs sched r rp st' s st1 H EL Hnd q Hq.
    apply (par1_repaired_completed_content _ _ _ _ _ _ _ H q Hq).
    intros t1 d ok t2 E.
    pose proof (par1_repair_writes_once ix dbl fs sched s st1 EL Hnd) as N1. rewrite H in N1. cbn [snd] in N1.
    rewrite E in N1. exact (NoDup_written_last _ _ _ _ _ N1).
  Qed.

  Lemma write_repaired_paths ix : forall todo done st,
    exists t, io_trace (snd (write_repaired md5 ix todo done st)) = io_trace st ++ t /\
      (forall q, In q (written_paths t) ->
         In q (map (fun u : bool * (dinfo * list bytes) => file_path ix (di_name (fst (snd u)))) todo)) /\
      (NoDup (map (fun u : bool * (dinfo * list bytes) => file_path ix (di_name (fst (snd u)))) todo) ->
       NoDup (written_paths t)).
  Proof.
    induction todo as [|[b [info shards]] todo IH]; intros done st; cbn [write_repaired].
    - exists []. cbn [snd]. split; [symmetry; apply app_nil_r|]. split; [intros q []|intros _; apply NoDup_nil].
    - set (P := fun u : bool * (dinfo * list bytes) => file_path ix (di_name (fst (snd u)))) in *.
      assert (Triv : exists t, io_trace st = io_trace st ++ t /\
                (forall q, In q (written_paths t) -> In q (map P ((b, (info, shards)) :: todo))) /\
                (NoDup (map P ((b, (info, shards)) :: todo)) -> NoDup (written_paths t))).
      { exists []. split; [symmetry; apply app_nil_r|]. split; [intros q []|intros _; apply NoDup_nil]. }
      destruct b.
      { destruct (IH done st) as (t & T & I1 & N1). exists t. split; [exact T|]. split.
        - intros q Hq. right. apply I1. exact Hq.
        - intros H. cbn [map] in H. inversion H; subst. apply N1. assumption. }
      repeat lazymatch goal with
             | |- exists t, io_trace (snd (if ?c then _ else _)) = _ /\ _ => destruct c; [cbn [snd]; exact Triv|]
             end.
      clear Triv.
      lazymatch goal with |- context [io_write ?p0 ?d st] => set (p := p0); set (dd := d) end.
      destruct (io_write_trace p dd st) as [ok T0].
      assert (One : (forall q, In q (written_paths [EvWrite p dd ok]) -> In q (map P ((false, (info, shards)) :: todo))) /\
                    (NoDup (map P ((false, (info, shards)) :: todo)) -> NoDup (written_paths [EvWrite p dd ok]))).
      { split.
        - intros q [<-|[]]. left. reflexivity.
        - intros _. change (NoDup [p]). apply NoDup_cons; [intros []|apply NoDup_nil]. }
      destruct (io_write p dd st) as [[u|x|q0] st1]; cbn [snd] in T0.
      + destruct (IH (done ++ [p]) st1) as (t & T & I1 & N1).
        exists (EvWrite p dd ok :: t). split; [rewrite T, T0, <- app_assoc; reflexivity|].
        rewrite written_paths_cons. cbn [app]. split.
        * intros q [<-|Hq]; [left; reflexivity|right; apply I1; exact Hq].
        * intros H. cbn [map] in H. apply NoDup_cons_iff in H. destruct H as [Hx Hr].
          apply NoDup_cons; [|apply N1; exact Hr].
          intros Hin. apply Hx. change (P (false, (info, shards))) with p. apply I1. exact Hin.
      + cbn [snd]. exists [EvWrite p dd ok]. split; [exact T0|exact One].
      + cbn [snd]. exists [EvWrite p dd ok]. split; [exact T0|exact One].
  Qed.

  Theorem par2_repair_writes_once : forall ix dbl fs sched ds st1,
    load_all md5 ix (io_init fs sched) = (Ok ds, st1) ->
    NoDup (map (fun info => file_path ix (di_name info)) (d_rec (ds_dec ds))) ->
    NoDup (written_paths (io_trace (snd (par2_repair md5 ix dbl (io_init fs sched))))).
  Proof.
    intros ix dbl fs sched ds st1 EL Hnd. unfold par2_repair.
    destruct (load_all_pres md5 ix (io_init fs sched)) as (_ & _ & t0 & T0 & W0).
    rewrite EL in *. cbn [snd io_init io_trace app] in T0.
    assert (Base : NoDup (written_paths (io_trace st1))).
    { rewrite T0, (written_paths_no_write t0 W0). apply NoDup_nil. }
    destruct (ds_fis ds) as [|fi0 fis0] eqn:Efis; [cbn [snd]; exact Base|]. rewrite <- Efis.
    destruct (repair_core ds dbl) as [data|e|q]; try (cbn [snd]; exact Base).
    lazymatch goal with |- context [write_repaired md5 ix ?todo ?done st1] =>
      destruct (write_repaired_paths ix todo done st1) as (t & T & _ & N1) end.
    rewrite T, T0, written_paths_app, (written_paths_no_write t0 W0). cbn [app]. apply N1.
    apply (NoDup_map_combine_r (fun u : dinfo * list bytes => file_path ix (di_name (fst u)))).
    apply (NoDup_map_combine_l (fun info => file_path ix (di_name info))). exact Hnd.
  Qed.

  Theorem par2_repaired_content : forall ix dbl fs sched r rp st' ds st1,
    par2_repair md5 ix dbl (io_init fs sched) = ((r, rp), st') ->
    load_all md5 ix (io_init fs sched) = (Ok ds, st1) ->
    NoDup (map (fun info => file_path ix (di_name info)) (d_rec (ds_dec ds))) ->
    forall q, In q rp -> exists d, In (EvWrite q d true) (io_trace st') /\ fs_lookup (io_fs st') q = Some d.
  Proof.
    intros ix dbl fs sched r rp st' ds st1 H EL Hnd q Hq.
    apply (par2_repaired_completed_content _ _ _ _ _ _ _ H q Hq).
    intros t1 d ok t2 E.
    pose proof (par2_repair_writes_once ix dbl fs sched ds st1 EL Hnd) as N1. rewrite H in N1. cbn [snd] in N1.
    rewrite E in N1. exact (NoDup_written_last _ _ _ _ _ N1).
  Qed.
End Par1Faults.

(** * A4. Create: once the fault is gone, rerunning completes as if the fault had never occurred *)
Section CreateRerun.
  Variable md5 : bytes -> bytes.

  (* what PAR1 Create computes from the contents read: the files to write, or the refusal of an input that is an output *)
  Definition p1_plan (par : list N) (files : list (list N)) (nvol : Z) (datas : list bytes)
    : outcome (list (list N * bytes)) :=
    match par1_outputs md5 par (p1_nv nvol) (map base files) datas with
    | Ok outs =>
        if existsb (fun f => existsb (fun o : list N * bytes => str_eqb (clean f) (clean (fst o))) outs) files
        then Err EOther else Ok outs
    | Err e => Err e
    | Panic q => Panic q
    end.

  (* a PAR1 Create is refused from the arguments alone, or it is: read the inputs, plan, write *)
  Lemma par1_create_as_body par files nvol :
    (exists e, forall st, par1_create md5 par files nvol st = (Err e, st)) \/
    (forall st, par1_create md5 par files nvol st = rw_body files (p1_plan par files nvol) st).
  Proof.
    unfold par1_create.
    destruct (negb (str_eqb (ext par) EXT_PAR)); [left; exists EUsage; reflexivity|].
    destruct files as [|f0 fl]; [left; exists EUsage; reflexivity|].
    cbv zeta.
    destruct (has_dup (map base (f0 :: fl))); [left; exists EUsage; reflexivity|].
    right. intros st. unfold rw_body, p1_plan, p1_nv.
    destruct (Par1.io_reads (f0 :: fl) st) as [[datas|e|q] st1]; [|reflexivity|reflexivity].
    lazymatch goal with |- context [par1_outputs md5 ?a ?b ?c ?d] =>
      destruct (par1_outputs md5 a b c d) as [outs|e|q] end; [|reflexivity|reflexivity].
    lazymatch goal with |- context [if ?c then (Err EOther, st1) else _] => destruct c end; reflexivity.
  Qed.

  Theorem par1_create_rerun : forall parPath files nvol fs sched,
    let fs1 := io_fs (snd (par1_create md5 parPath files nvol (io_init fs sched))) in
    let r2 := par1_create md5 parPath files nvol (io_init fs1 []) in
    let r0 := par1_create md5 parPath files nvol (io_init fs []) in
    fst r2 = fst r0 /\
    (forall q, fs_lookup (io_fs (snd r2)) q = fs_lookup (io_fs (snd r0)) q) /\
    io_trace (snd r2) = io_trace (snd r0).
  Proof.
    intros par files nvol fs sched fs1 r2 r0. subst r2 r0 fs1.
    destruct (par1_create_as_body par files nvol) as [(e & E)|E].
    - rewrite !E. cbn [fst snd io_init io_fs io_trace]. repeat split.
    - rewrite !E. apply rw_body_rerun. intros p Hp. rewrite <- E.
      apply par1_create_never_modifies_inputs. exact Hp.
  Qed.

  (* in the words of the task: the result, and the content of every path the fault-free run wrote and of every input *)
  Corollary par1_create_rerun_outputs_inputs : forall parPath files nvol fs sched,
    let fs1 := io_fs (snd (par1_create md5 parPath files nvol (io_init fs sched))) in
    let r2 := par1_create md5 parPath files nvol (io_init fs1 []) in
    let r0 := par1_create md5 parPath files nvol (io_init fs []) in
    fst r2 = fst r0 /\
    (forall q, In q (written_paths (io_trace (snd r0))) -> fs_lookup (io_fs (snd r2)) q = fs_lookup (io_fs (snd r0)) q) /\
    (forall f, In f files -> fs_lookup (io_fs (snd r2)) f = fs_lookup fs f).
  Proof.
    intros par files nvol fs sched fs1 r2 r0.
    destruct (par1_create_rerun par files nvol fs sched) as (R1 & R2 & _). fold fs1 r2 r0 in R1, R2.
    split; [exact R1|]. split; [intros q _; apply R2|].
    intros f Hf. rewrite R2. apply par1_create_never_modifies_inputs. exact Hf.
  Qed.

  (** ** PAR2 *)
  Definition c2_sz (p : cparams) : nat := if (cp_slice p <=? 0)%Z then 2000%nat else Z.to_nat (cp_slice p).
  Definition c2_np (p : cparams) : nat := if (cp_parity p <=? 0)%Z then 3%nat else Z.to_nat (cp_parity p).
  Definition c2_rels (cwd par : list N) (files : list (list N)) : list (list N) :=
    map (rel_path (dir (abs_path cwd par))) (map (abs_path cwd) files).

  Lemma par2_create_as_body cwd par files p :
    (forall st, par2_create md5 cwd par files p st = (Err EUsage, st)) \/
    ((forall st, par2_create md5 cwd par files p st =
                 rw_body (map (join2 (dir (abs_path cwd par))) (c2_rels cwd par files))
                         (create_outputs md5 par (c2_sz p) (c2_np p) (c2_rels cwd par files)) st) /\
     existsb rel_refused (c2_rels cwd par files) = false).
  Proof.
    unfold par2_create.
    destruct (negb (str_eqb (ext par) EXT_PAR2)); [left; reflexivity|].
    destruct files as [|f0 fl]; [left; reflexivity|].
    cbv zeta.
    lazymatch goal with |- context [if ?c then (Err EUsage, _) else _] => destruct c end; [left; reflexivity|].
    fold (c2_rels cwd par (f0 :: fl)). fold (c2_sz p). fold (c2_np p).
    change (existsb (fun r : list N => match r with [] => true | c :: _ => c =? DOT end) (c2_rels cwd par (f0 :: fl)))
      with (existsb rel_refused (c2_rels cwd par (f0 :: fl))).
    destruct (existsb rel_refused (c2_rels cwd par (f0 :: fl))); [left; reflexivity|].
    destruct (negb (Nat.eqb (c2_sz p mod 4) 0)); [left; reflexivity|].
    right. split; [|reflexivity]. intros st. unfold rw_body.
    rewrite <- io_reads_same.
    destruct (Par1.io_reads (map (join2 (dir (abs_path cwd par))) (c2_rels cwd par (f0 :: fl))) st) as [[datas|e|q] st1];
      [|reflexivity|reflexivity].
    destruct (create_outputs md5 par (c2_sz p) (c2_np p) (c2_rels cwd par (f0 :: fl)) datas) as [outs|e|q];
      [|reflexivity|reflexivity].
    symmetry. apply io_writes_same.
  Qed.

  Theorem par2_create_rerun : forall cwd parPath files p fs sched,
    is_abs cwd = true ->
    let fs1 := io_fs (snd (par2_create md5 cwd parPath files p (io_init fs sched))) in
    let r2 := par2_create md5 cwd parPath files p (io_init fs1 []) in
    let r0 := par2_create md5 cwd parPath files p (io_init fs []) in
    fst r2 = fst r0 /\
    (forall q, fs_lookup (io_fs (snd r2)) q = fs_lookup (io_fs (snd r0)) q) /\
    io_trace (snd r2) = io_trace (snd r0).
  Proof.
    intros cwd par files p fs sched Hc fs1 r2 r0. subst r2 r0 fs1.
    destruct (par2_create_as_body cwd par files p) as [E|(E & Hacc)].
    - rewrite !E. cbn [fst snd io_init io_fs io_trace]. repeat split.
    - rewrite !E. apply rw_body_rerun. intros pth Hp. rewrite <- E.
      unfold c2_rels in Hp. rewrite !map_map in Hp. apply in_map_iff in Hp. destruct Hp as (f & Hpth & Hf).
      assert (Hr : rel_refused (rel_path (dir (abs_path cwd par)) (abs_path cwd f)) = false).
      { destruct (rel_refused (rel_path (dir (abs_path cwd par)) (abs_path cwd f))) eqn:Er; [|reflexivity].
        assert (T : existsb rel_refused (c2_rels cwd par files) = true).
        { apply existsb_exists. exists (rel_path (dir (abs_path cwd par)) (abs_path cwd f)). split; [|exact Er].
          unfold c2_rels. apply in_map, in_map, Hf. }
        rewrite T in Hacc. discriminate Hacc. }
      rewrite (join_rel_canon _ _ (canon_dir _ (is_abs_abs_path cwd par Hc))
                 (canon_abs_path cwd f (is_abs_abs_path cwd f Hc)) Hr) in Hpth.
      subst pth. apply create_input_paths_untouched; assumption.
  Qed.

  Corollary par2_create_rerun_outputs_inputs : forall cwd parPath files p fs sched,
    is_abs cwd = true ->
    let fs1 := io_fs (snd (par2_create md5 cwd parPath files p (io_init fs sched))) in
    let r2 := par2_create md5 cwd parPath files p (io_init fs1 []) in
    let r0 := par2_create md5 cwd parPath files p (io_init fs []) in
    fst r2 = fst r0 /\
    (forall q, In q (written_paths (io_trace (snd r0))) -> fs_lookup (io_fs (snd r2)) q = fs_lookup (io_fs (snd r0)) q) /\
    (forall f, In f files -> fs_lookup (io_fs (snd r2)) (abs_path cwd f) = fs_lookup fs (abs_path cwd f)).
  Proof.
    intros cwd par files p fs sched Hc fs1 r2 r0.
    destruct (par2_create_rerun cwd par files p fs sched Hc) as (R1 & R2 & _). fold fs1 r2 r0 in R1, R2.
    split; [exact R1|]. split; [intros q _; apply R2|].
    intros f Hf. rewrite R2. apply create_input_paths_untouched; assumption.
  Qed.
End CreateRerun.

(** * Examples: concrete runs with a torn write *)
From Coq Require Import String.
From Coq Require Import List.
From Gopar Require Import Model.History Proofs.Par2RepairComplete.   (* RCExample: fs0 = {/w/a = 1 2 3 4 5, /w/b = 6 7 8 9} *)
Import ListNotations.

Module P1FExample.
  Import RCExample HF2Example.   (* ix1 = /w/o.par, created1 = PAR1 Create of a, b with 2 volumes, fs1p = its file map *)

  Definition files1 := [bs "/w/a"; bs "/w/b"].
  (* Create makes 5 calls: read a, read b, write o.par, o.p01, o.p02.  A fault scheduled past them is never met. *)
  Definition sched_late : list (nat * fault) := [(5%nat, FTorn 1)].
  (* the write of o.p01 (call 3) is torn after 7 bytes *)
  Definition sched_torn : list (nat * fault) := [(3%nat, FTorn 7)].
  Definition torn := par1_create toy_md5 ix1 files1 2 (io_init fs0 sched_torn).
  Definition rerun := par1_create toy_md5 ix1 files1 2 (io_init (io_fs (snd torn)) []).

  Example create_runs_computed :
    fst (par1_create toy_md5 ix1 files1 2 (io_init fs0 sched_late)) = Ok tt /\
    length (io_trace (snd (par1_create toy_md5 ix1 files1 2 (io_init fs0 sched_late)))) = 5%nat /\
    fst torn = Err EIO /\
    written_paths (io_trace (snd torn)) = [bs "/w/o.par"; bs "/w/o.p01"] /\
    option_map (@List.length N) (fs_lookup (io_fs (snd torn)) (bs "/w/o.p01")) = Some 7%nat /\
    fs_lookup (io_fs (snd torn)) (bs "/w/o.p02") = None /\
    fst rerun = Ok tt /\
    opt_bytes_differ (fs_lookup (io_fs (snd torn)) (bs "/w/o.p01")) (fs_lookup (io_fs (snd rerun)) (bs "/w/o.p01")) = true.
  Proof. vm_compute. repeat split; reflexivity. Qed.

  (* A1 instantiated: the successful run met no fault at any of its calls *)
  Example create_ok_by_theorem : forall st',
    par1_create toy_md5 ix1 files1 2 (io_init fs0 sched_late) = (Ok tt, st') ->
    io_n st' = List.length (io_trace st') /\
    forall n, (n < List.length (io_trace st'))%nat -> sched_lookup sched_late n = None.
  Proof. intros st'. apply par1_create_ok_every_call_fault_free. Qed.

  (* ... and its hypothesis holds *)
  Example create_ok_hyp :
    par1_create toy_md5 ix1 files1 2 (io_init fs0 sched_late)
    = (Ok tt, snd (par1_create toy_md5 ix1 files1 2 (io_init fs0 sched_late))).
  Proof. vm_compute. reflexivity. Qed.

  (* A3 instantiated on the torn run: the inputs and every path but o.par and o.p01 are as before *)
  Example create_torn_untouched_by_theorem : forall q, q <> bs "/w/o.par" -> q <> bs "/w/o.p01" ->
    fs_lookup (io_fs (snd torn)) q = fs_lookup fs0 q.
  Proof.
    intros q H1 H2. apply (par1_create_untouched toy_md5 ix1 files1 2 fs0 sched_torn q).
    fold torn. destruct create_runs_computed as (_ & _ & _ & -> & _).
    intros [E|[E|[]]]; [apply H1|apply H2]; symmetry; exact E.
  Qed.

  (* A4 instantiated: the rerun on the state the torn run left is the fault-free run *)
  Example create_rerun_by_theorem :
    fst rerun = fst created1 /\
    (forall q, fs_lookup (io_fs (snd rerun)) q = fs_lookup fs1p q) /\
    io_trace (snd rerun) = io_trace (snd created1).
  Proof. exact (par1_create_rerun toy_md5 ix1 files1 2 fs0 sched_torn). Qed.

  (** Repair: the created set with BOTH a and b deleted; Repair loads (102 calls) and writes a (call 102), then b
      (call 103); the write of b is torn after 2 bytes *)
  Definition fs1ab := fs_remove (fs_remove fs1p (bs "/w/a")) (bs "/w/b").
  Definition sched_r : list (nat * fault) := [(103%nat, FTorn 2)].
  Definition rep := par1_repair toy_md5 ix1 true (io_init fs1ab sched_r).
  Definition loaded_r : p1state :=
    match fst (p1_load toy_md5 ix1 (io_init fs1ab sched_r)) with Ok s => s | _ => p1s0 end.

  Example repair_torn_computed :
    fst rep = (Err EIO, [bs "/w/a"]) /\
    written_paths (io_trace (snd rep)) = [bs "/w/a"; bs "/w/b"] /\
    fs_lookup (io_fs (snd rep)) (bs "/w/a") = Some [1; 2; 3; 4; 5]%N /\
    fs_lookup (io_fs (snd rep)) (bs "/w/b") = Some [6; 7]%N /\
    p1_load toy_md5 ix1 (io_init fs1ab sched_r) = (Ok loaded_r, snd (p1_load toy_md5 ix1 (io_init fs1ab sched_r))) /\
    map (fun e => join2 (dir ix1) (e_name e)) (s_saved loaded_r) = [bs "/w/a"; bs "/w/b"].
  Proof. vm_compute. repeat split; reflexivity. Qed.

  (* A2 instantiated (weak and strong form): the path listed as repaired has a completed write call and holds
     the data of that call; b, whose write was torn, is not listed *)
  Example repair_torn_by_theorem : forall q, In q (snd (fst rep)) ->
    exists d, In (EvWrite q d true) (io_trace (snd rep)) /\ fs_lookup (io_fs (snd rep)) q = Some d.
  Proof.
    destruct repair_torn_computed as (_ & _ & _ & _ & EL & Hs).
    apply (par1_repaired_content toy_md5 ix1 true fs1ab sched_r (fst (fst rep)) (snd (fst rep)) (snd rep) loaded_r
             (snd (p1_load toy_md5 ix1 (io_init fs1ab sched_r)))).
    - unfold rep. destruct (par1_repair toy_md5 ix1 true (io_init fs1ab sched_r)) as [[r rp] st']. reflexivity.
    - exact EL.
    - rewrite Hs. apply NoDup_cons; [intros [E|[]]; vm_compute in E; discriminate E|].
      apply NoDup_cons; [intros []|apply NoDup_nil].
  Qed.

  Example repair_torn_weak_by_theorem : forall q, In q (snd (fst rep)) ->
    exists d, In (EvWrite q d true) (io_trace (snd rep)).
  Proof.
    apply (par1_repaired_only_completed toy_md5 ix1 true fs1ab sched_r (fst (fst rep))).
    unfold rep. destruct (par1_repair toy_md5 ix1 true (io_init fs1ab sched_r)) as [[r rp] st']. reflexivity.
  Qed.
End P1FExample.

Print Assumptions par1_create_ok_no_fault.
Print Assumptions par1_create_ok_every_call_fault_free.
Print Assumptions par1_create_untouched.
Print Assumptions par1_repaired_only_completed.
Print Assumptions par1_repair_last_write_wins.
Print Assumptions par2_repair_last_write_wins.
Print Assumptions par1_repaired_completed_content.
Print Assumptions par2_repaired_completed_content.
Print Assumptions par1_repair_writes_once.
Print Assumptions par2_repair_writes_once.
Print Assumptions par1_repaired_content.
Print Assumptions par2_repaired_content.
Print Assumptions par1_create_rerun.
Print Assumptions par1_create_rerun_outputs_inputs.
Print Assumptions par2_create_rerun.
Print Assumptions par2_create_rerun_outputs_inputs.
Print Assumptions P1FExample.create_runs_computed.
Print Assumptions P1FExample.create_ok_by_theorem.
Print Assumptions P1FExample.create_ok_hyp.
Print Assumptions P1FExample.create_torn_untouched_by_theorem.
Print Assumptions P1FExample.create_rerun_by_theorem.
Print Assumptions P1FExample.repair_torn_computed.
Print Assumptions P1FExample.repair_torn_by_theorem.
Print Assumptions P1FExample.repair_torn_weak_by_theorem.
