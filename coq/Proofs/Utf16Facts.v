(* The PAR1 file-name codec (Model/Par1.v): UTF-8 <-> code points <-> UTF-16LE.
   1. utf16_decode inverts utf16_encode_rune on every list of Unicode scalar values;
   2. utf8_decode inverts utf8_encode_rune on every list of Unicode scalar values;
   3. hence decode_utf16le (encode_utf16le name) = name for every name that is the UTF-8
      encoding of a list of scalar values (i.e. every valid UTF-8 string). *)
From Coq Require Import Lia.
From Gopar Require Import Model.Base Model.Par1.
Open Scope N_scope.
Set Default Timeout 120.

(* a Unicode scalar value: < 0x110000 and not a surrogate *)
Definition scalar (r : N) : Prop := r < 0x110000 /\ ~ (0xD800 <= r < 0xE000).

(* decide all comparisons in the goal whose outcome follows from the context *)
Ltac btest :=
  repeat match goal with
  | |- context[N.ltb ?a ?b] => destruct (N.ltb_spec a b); try lia
  | |- context[N.leb ?a ?b] => destruct (N.leb_spec a b); try lia
  | |- context[N.eqb ?a ?b] => destruct (N.eqb_spec a b); try lia
  end; cbn [andb orb negb].

(* decide the comparison at the head of an if-cascade *)
Ltac hstep :=
  match goal with
  | |- (if ?c then _ else _) = _ =>
      let E := fresh "E" in
      destruct c eqn:E;
      rewrite ?andb_true_iff, ?andb_false_iff, ?N.leb_le, ?N.ltb_lt, ?N.leb_gt, ?N.ltb_ge, ?N.eqb_eq, ?N.eqb_neq in E;
      try lia
  end.
Ltac eqsplit :=
  repeat match goal with
  | |- context[if N.eqb ?a ?b then _ else _] => destruct (N.eqb_spec a b); try lia
  end.

Lemma flat_map_cons {A B} (f : A -> list B) x l : flat_map f (x :: l) = f x ++ flat_map f l.
Proof. reflexivity. Qed.

(** * UTF-16 *)

(* quotient / remainder facts in linear form *)
Lemma divmod_lin a b : b <> 0 -> exists q m, a / b = q /\ a mod b = m /\ a = b * q + m /\ m < b.
Proof.
  intros Hb. exists (a / b), (a mod b). repeat split.
  - apply N.div_mod. exact Hb.
  - apply N.mod_lt. exact Hb.
Qed.

Lemma utf16_dec_enc r rest : scalar r ->
  utf16_decode (utf16_encode_rune r ++ rest) = r :: utf16_decode rest.
Proof.
  intros [Hlt Hns]. unfold utf16_encode_rune.
  destruct (N.leb_spec 0xD800 r), (N.ltb_spec r 0xE000); try lia;
    destruct (N.ltb_spec 0x10FFFF r); try lia; cbn [andb orb].
  - (* 0xE000 <= r *)
    destruct (N.ltb_spec r 0x10000).
    + cbn [app utf16_decode]. btest. reflexivity.
    + destruct (divmod_lin (r - 0x10000) 1024) as (q & m & -> & -> & E & Hm); [lia|].
      cbn [app utf16_decode]. btest. f_equal. lia.
  - (* r < 0xD800 *)
    destruct (N.ltb_spec r 0x10000); try lia.
    cbn [app utf16_decode]. btest. reflexivity.
Qed.

Theorem utf16_round_trip : forall rs, Forall scalar rs -> utf16_decode (flat_map utf16_encode_rune rs) = rs.
Proof.
  induction 1 as [|r rs Hr _ IH]; [reflexivity|].
  rewrite flat_map_cons, utf16_dec_enc by exact Hr. rewrite IH. reflexivity.
Qed.

(* UTF-16 code units are 16-bit *)
Lemma utf16_units_wf r : Forall wf_word (utf16_encode_rune r).
Proof.
  unfold utf16_encode_rune, wf_word, RUNE_ERROR.
  destruct (N.leb_spec 0xD800 r), (N.ltb_spec r 0xE000), (N.ltb_spec 0x10FFFF r); cbn [andb orb];
    try (repeat constructor; lia);
    (destruct (N.ltb_spec r 0x10000); [repeat constructor; lia|]);
    (destruct (divmod_lin (r - 0x10000) 1024) as (q & m & -> & -> & E & Hm); [lia|]);
    repeat constructor; lia.
Qed.

Lemma le_words_units us : le_words (flat_map (fun u => [u mod 256; u / 256]) us) = us.
Proof.
  induction us as [|u us IH]; [reflexivity|].
  cbn [flat_map app le_words]. rewrite IH. f_equal.
  rewrite N.add_comm. symmetry. apply N.div_mod. discriminate.
Qed.

(** * UTF-8 *)

Lemma utf8_enc_len r : (1 <= length (utf8_encode_rune r) <= 4)%nat.
Proof.
  unfold utf8_encode_rune.
  repeat match goal with |- context[if ?c then _ else _] => destruct c end; cbn [length]; lia.
Qed.

(* one decoding step reads back exactly the rune that was encoded *)
Lemma utf8_next_enc r rest : scalar r ->
  utf8_next (utf8_encode_rune r ++ rest) = (r, length (utf8_encode_rune r)).
Proof.
  intros [Hlt Hns]. unfold utf8_encode_rune.
  assert (E0 : (((0xD800 <=? r) && (r <? 0xE000)) || (0x10FFFF <? r)) = false).
  { btest; reflexivity. }
  rewrite E0. clear E0.
  destruct (N.ltb_spec r 0x80) as [H1|H1].
  { (* one byte *)
    cbn [app utf8_next length]. btest. reflexivity. }
  destruct (N.ltb_spec r 0x800) as [H2|H2].
  { (* two bytes *)
    destruct (divmod_lin r 64) as (q & m & -> & -> & E & Hm); [lia|].
    cbn [app utf8_next length]. unfold is_cont. repeat hstep. f_equal. lia. }
  destruct (N.ltb_spec r 0x10000) as [H3|H3].
  { (* three bytes *)
    destruct (divmod_lin r 64) as (q & m & Eq & -> & E & Hm); [lia|].
    destruct (divmod_lin r 4096) as (q2 & m2 & -> & _ & E2 & Hm2); [lia|].
    rewrite Eq.
    destruct (divmod_lin q 64) as (q3 & m3 & _ & -> & E3 & Hm3); [lia|].
    cbn [app utf8_next length]. unfold is_cont. eqsplit; repeat hstep; f_equal; lia. }
  (* four bytes *)
  destruct (divmod_lin r 64) as (q & m & Eq & -> & E & Hm); [lia|].
  destruct (divmod_lin r 4096) as (q2 & m2 & Eq2 & _ & E2 & Hm2); [lia|].
  destruct (divmod_lin r 262144) as (q4 & m4 & -> & _ & E4 & Hm4); [lia|].
  rewrite Eq, Eq2.
  destruct (divmod_lin q 64) as (q3 & m3 & _ & -> & E3 & Hm3); [lia|].
  destruct (divmod_lin q2 64) as (q5 & m5 & _ & -> & E5 & Hm5); [lia|].
  cbn [app utf8_next length]. unfold is_cont. eqsplit; repeat hstep; f_equal; lia.
Qed.

Lemma skipn_app_len {A} (a b : list A) : skipn (length a) (a ++ b) = b.
Proof. induction a as [|x a IH]; [reflexivity|exact IH]. Qed.

Lemma utf8_decode_enc : forall rs fuel, Forall scalar rs ->
  (length (flat_map utf8_encode_rune rs) <= fuel)%nat ->
  utf8_decode fuel (flat_map utf8_encode_rune rs) = rs.
Proof.
  induction rs as [|r rs IH]; intros fuel Hs Hf.
  - destruct fuel; reflexivity.
  - inversion Hs as [|? ? Hr Hrs]; subst.
    rewrite flat_map_cons in *. rewrite app_length in Hf.
    pose proof (utf8_enc_len r) as Hl.
    destruct fuel as [|f]; [lia|].
    cbn [utf8_decode].
    destruct (utf8_encode_rune r ++ flat_map utf8_encode_rune rs) as [|b0 s0] eqn:E.
    { apply (f_equal (@length N)) in E. rewrite app_length in E. cbn [length] in E. lia. }
    rewrite <- E. rewrite utf8_next_enc by exact Hr.
    rewrite skipn_app_len. rewrite IH; [reflexivity|exact Hrs|lia].
Qed.

Theorem utf8_round_trip : forall rs, Forall scalar rs ->
  utf8_decode (length (flat_map utf8_encode_rune rs)) (flat_map utf8_encode_rune rs) = rs.
Proof. intros rs H. apply utf8_decode_enc; [exact H|lia]. Qed.

(** * the PAR1 entry-name codec *)

Theorem name_codec_round_trip : forall rs, Forall scalar rs ->
  let name := flat_map utf8_encode_rune rs in decode_utf16le (encode_utf16le name) = name.
Proof.
  intros rs H name. unfold decode_utf16le, encode_utf16le, name.
  rewrite utf8_round_trip by exact H.
  rewrite le_words_units. rewrite utf16_round_trip by exact H. reflexivity.
Qed.

(* the bytes written are bytes, and the name field has even length *)
Lemma encode_utf16le_wf s : wf_bytes (encode_utf16le s).
Proof.
  unfold encode_utf16le, wf_bytes.
  assert (G : forall us, Forall wf_word us -> Forall wf_byte (flat_map (fun u => [u mod 256; u / 256]) us)).
  { induction 1 as [|u us Hu _ IH]; [constructor|].
    cbn [flat_map app]. unfold wf_word, wf_byte in *.
    constructor; [apply N.mod_lt; discriminate|].
    constructor; [apply N.div_lt_upper_bound; [discriminate|exact Hu]|exact IH]. }
  apply G. clear G.
  induction (utf8_decode (length s) s) as [|r rs IH]; [constructor|].
  rewrite flat_map_cons. apply Forall_app. split; [apply utf16_units_wf|exact IH].
Qed.

(* concrete instances: "a", U+00E9, U+20AC, U+1F600, and the boundary scalars *)
Example scalar_examples :
  Forall scalar [0; 0x61; 0x7F; 0x80; 0xE9; 0x7FF; 0x800; 0x20AC; 0xD7FF; 0xE000; 0xFFFD; 0xFFFF; 0x10000; 0x1F600; 0x10FFFF].
Proof. repeat constructor; unfold scalar; lia. Qed.

Example name_codec_example :
  let name := flat_map utf8_encode_rune [0x61; 0xE9; 0x20AC; 0x1F600] in
  name = [0x61; 0xC3; 0xA9; 0xE2; 0x82; 0xAC; 0xF0; 0x9F; 0x98; 0x80] /\
  encode_utf16le name = [0x61; 0; 0xE9; 0; 0xAC; 0x20; 0x3D; 0xD8; 0x00; 0xDE] /\
  decode_utf16le (encode_utf16le name) = name.
Proof. vm_compute. repeat split. Qed.

(* the hypotheses are needed: a lone surrogate or an out-of-range value is replaced by U+FFFD *)
Example non_scalar_not_preserved :
  utf16_decode (utf16_encode_rune 0xD800) = [0xFFFD] /\ utf8_decode 3 (utf8_encode_rune 0x110000) = [0xFFFD].
Proof. vm_compute. split; reflexivity. Qed.

Print Assumptions utf16_round_trip.
Print Assumptions utf8_round_trip.
Print Assumptions name_codec_round_trip.
Print Assumptions encode_utf16le_wf.
