(* Reruns after a fault (C18).  The loading phase of Repair - every read and the directory listing - leaves
   the file map as it was under ANY fault schedule; so when a fault makes loading fail, Repair has changed
   nothing and its rerun without the fault is the fault-free run.  (Faults during the write-out phase are
   the subject of C18_repair_untouched / C18_repaired_completed and of the recorded known finding.) *)
From Coq Require Import List. Import ListNotations.
From Gopar Require Import Model.Base Model.CRC Model.GoPath Model.FS Model.Par2 Model.Par1 Proofs.Par2Facts Proofs.Par1Facts.

Section Rerun.
  Variable md5 : bytes -> bytes.

  Lemma repair_load_failed_state : forall ix dbl st e st1,
    load_all md5 ix st = (Err e, st1) ->
    par2_repair md5 ix dbl st = ((Err e, []), st1).
  Proof. intros ix dbl st e st1 H. unfold par2_repair. rewrite H. reflexivity. Qed.

  Theorem repair_rerun_after_load_fault : forall ix dbl fs sched e st1,
    load_all md5 ix (io_init fs sched) = (Err e, st1) ->
    let st' := snd (par2_repair md5 ix dbl (io_init fs sched)) in
    fst (par2_repair md5 ix dbl (io_init fs sched)) = (Err e, []) /\
    io_fs st' = fs /\
    par2_repair md5 ix dbl (io_init (io_fs st') []) = par2_repair md5 ix dbl (io_init fs []).
  Proof.
    intros ix dbl fs sched e st1 H st'. subst st'.
    rewrite (repair_load_failed_state ix dbl _ e st1 H). cbn [fst snd].
    pose proof (load_all_fs md5 ix (io_init fs sched)) as P. rewrite H in P. cbn [snd io_init io_fs] in P.
    split; [reflexivity|]. split; [exact P|]. rewrite P. reflexivity.
  Qed.
  Lemma par1_repair_load_failed_state : forall ix dbl st e st1,
    p1_load md5 ix st = (Err e, st1) ->
    par1_repair md5 ix dbl st = ((Err e, []), st1).
  Proof. intros ix dbl st e st1 H. unfold par1_repair. rewrite H. reflexivity. Qed.

  Theorem par1_repair_rerun_after_load_fault : forall ix dbl fs sched e st1,
    p1_load md5 ix (io_init fs sched) = (Err e, st1) ->
    let st' := snd (par1_repair md5 ix dbl (io_init fs sched)) in
    fst (par1_repair md5 ix dbl (io_init fs sched)) = (Err e, []) /\
    io_fs st' = fs /\
    par1_repair md5 ix dbl (io_init (io_fs st') []) = par1_repair md5 ix dbl (io_init fs []).
  Proof.
    intros ix dbl fs sched e st1 H st'. subst st'.
    rewrite (par1_repair_load_failed_state ix dbl _ e st1 H). cbn [fst snd].
    pose proof (p1_load_fs md5 ix (io_init fs sched)) as P. rewrite H in P. cbn [snd io_init io_fs] in P.
    split; [reflexivity|]. split; [exact P|]. rewrite P. reflexivity.
  Qed.
End Rerun.
