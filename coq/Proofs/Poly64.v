(* gf2/poly64.go: the shift/xor product is the carry-less product truncated to
   64 bits, and the ilog2-driven long division is Euclidean division in GF(2)[x]. *)
From Coq Require Import Lia Btauto.
From Gopar Require Import Model.Base Model.GF16 Proofs.GF16Facts.
Open Scope N_scope.
Set Default Timeout 120.

(** ** truncation to 64 bits *)

Lemma trunc64_mod x : trunc64 x = x mod 2 ^ 64.
Proof. unfold trunc64. change mask64 with (N.ones 64). apply N.land_ones. Qed.

Lemma trunc64_lt x : trunc64 x < 2 ^ 64.
Proof. rewrite trunc64_mod. apply N.mod_lt. discriminate. Qed.

Lemma trunc64_id x : x < 2 ^ 64 -> trunc64 x = x.
Proof. intros H. rewrite trunc64_mod. apply N.mod_small. exact H. Qed.

Lemma trunc64_idem x : trunc64 (trunc64 x) = trunc64 x.
Proof. apply trunc64_id. apply trunc64_lt. Qed.

Lemma trunc64_lxor a b : trunc64 (N.lxor a b) = N.lxor (trunc64 a) (trunc64 b).
Proof.
  unfold trunc64. apply N.bits_inj. intros n.
  rewrite ?N.land_spec, ?N.lxor_spec, ?N.land_spec. btauto.
Qed.

Lemma trunc64_double x : trunc64 (N.double (trunc64 x)) = trunc64 (N.double x).
Proof.
  rewrite !trunc64_mod, !N.double_spec. apply N.mul_mod_idemp_r. discriminate.
Qed.

Lemma trunc64_0 : trunc64 0 = 0. Proof. reflexivity. Qed.

(** ** more clmul *)

Lemma clmul_double_l a b : clmul (N.double a) b = N.double (clmul a b).
Proof.
  destruct b as [|p]; [reflexivity|]. cbn [clmul].
  induction p as [p IH|p IH|]; cbn [clmul_pos]; rewrite ?IH, ?double_lxor; reflexivity.
Qed.

Lemma trunc64_clmul a b : trunc64 (clmul (trunc64 a) b) = trunc64 (clmul a b).
Proof.
  destruct b as [|p]; [reflexivity|]. cbn [clmul].
  induction p as [p IH|p IH|]; cbn [clmul_pos].
  - rewrite !trunc64_lxor, trunc64_idem. f_equal.
    rewrite <- trunc64_double, IH, trunc64_double. reflexivity.
  - rewrite <- trunc64_double, IH, trunc64_double. reflexivity.
  - apply trunc64_idem.
Qed.

(** ** Poly64.Times *)

Lemma odd_succ_double q : N.odd q = true -> q = N.succ_double (N.div2 q).
Proof. destruct q as [|[p|p|]]; simpl; intros H; try discriminate; reflexivity. Qed.
Lemma even_double q : N.odd q = false -> q = N.double (N.div2 q).
Proof. destruct q as [|[p|p|]]; simpl; intros H; try discriminate; reflexivity. Qed.

Lemma div2_lt q f : q < 2 ^ N.of_nat (S f) -> N.div2 q < 2 ^ N.of_nat f.
Proof.
  rewrite Nat2N.inj_succ, N.pow_succ_r'. intros H.
  pose proof (N.div2_odd q) as E. destruct (N.odd q); cbn [N.b2n] in E; lia.
Qed.

Lemma times_loop_spec fuel : forall p q prod,
  p < 2 ^ 64 -> q < 2 ^ N.of_nat fuel ->
  p64_times_loop fuel p q prod = N.lxor prod (trunc64 (clmul p q)).
Proof.
  induction fuel as [|f IH]; intros p q prod Hp Hq.
  - simpl in Hq. assert (q = 0) by lia. subst q. cbn. rewrite N.lxor_0_r. reflexivity.
  - cbn [p64_times_loop].
    destruct (N.eqb_spec p 0) as [->|Np].
    { cbn [orb]. rewrite clmul_0_l, trunc64_0, N.lxor_0_r. reflexivity. }
    destruct (N.eqb_spec q 0) as [->|Nq].
    { cbn [orb]. rewrite clmul_0_r, trunc64_0, N.lxor_0_r. reflexivity. }
    cbn [orb].
    rewrite IH; [|apply trunc64_lt|rewrite <- N.div2_spec; apply div2_lt; exact Hq].
    rewrite <- N.div2_spec, N.shiftl_mul_pow2, N.pow_1_r, N.mul_comm, <- N.double_spec.
    rewrite trunc64_clmul, clmul_double_l.
    destruct (N.odd q) eqn:Eo.
    + replace (clmul p q) with (clmul p (N.succ_double (N.div2 q)))
        by (rewrite <- (odd_succ_double q Eo); reflexivity).
      rewrite clmul_succ_double_r, trunc64_lxor.
      rewrite (trunc64_id p Hp). xor_solve.
    + replace (clmul p q) with (clmul p (N.double (N.div2 q)))
        by (rewrite <- (even_double q Eo); reflexivity).
      rewrite clmul_double_r. reflexivity.
Qed.

Theorem Poly64_Times_correct p q : p < 2 ^ 64 -> q < 2 ^ 64 ->
  Poly64_Times p q = trunc64 (clmul p q).
Proof.
  intros Hp Hq. unfold Poly64_Times. rewrite times_loop_spec; [apply N.lxor_0_l|exact Hp|exact Hq].
Qed.

(** ** ilog2 *)

Lemma ilog2_loop_spec fuel : forall n r, 0 < n < 2 ^ N.of_nat fuel ->
  ilog2_loop fuel n r = r + N.log2 n.
Proof.
  induction fuel as [|f IH]; intros n r Hn.
  - simpl in Hn. lia.
  - cbn [ilog2_loop]. cbv zeta.
    assert (E : N.shiftr n 1 = N.div2 n) by (symmetry; apply N.div2_spec).
    rewrite E. destruct (N.eqb_spec (N.div2 n) 0) as [Z|NZ].
    + assert (n = 1).
      { pose proof (N.div2_odd n) as D. rewrite Z in D. destruct (N.odd n); cbn in D; lia. }
      subst n. cbn. lia.
    + rewrite IH.
      * rewrite <- E, N.log2_shiftr.
        assert (2 <= n).
        { pose proof (N.div2_odd n) as D. destruct (N.odd n); cbn [N.b2n] in D; lia. }
        assert (1 <= N.log2 n).
        { change 1 with (N.log2 2). apply N.log2_le_mono. assumption. }
        lia.
      * split; [lia|]. apply div2_lt. apply Hn.
Qed.

Lemma ilog2_spec n : 0 < n < 2 ^ 64 -> ilog2 n = N.log2 n.
Proof. intros H. unfold ilog2. rewrite ilog2_loop_spec; [lia|exact H]. Qed.

(** ** Poly64.Div *)

Lemma clmul_pow2_l k d : clmul (2 ^ N.of_nat k) d = N.shiftl d (N.of_nat k).
Proof.
  induction k as [|k IH].
  - simpl. rewrite clmul_1_l. rewrite N.shiftl_0_r. reflexivity.
  - rewrite Nat2N.inj_succ, N.pow_succ_r', <- N.double_spec, clmul_double_l, IH.
    rewrite N.double_spec, N.shiftl_succ_r. reflexivity.
Qed.

Lemma lt_pow2_of_bits a n : (forall m, n <= m -> N.testbit a m = false) -> a < 2 ^ n.
Proof.
  intros H. destruct (N.eq_dec a 0) as [->|Na].
  - apply N.neq_0_lt_0. apply N.pow_nonzero. discriminate.
  - apply N.log2_lt_pow2; [lia|].
    destruct (N.lt_ge_cases (N.log2 a) n) as [L|L]; [exact L|].
    pose proof (N.bit_log2 a Na) as B. rewrite (H _ L) in B. discriminate.
Qed.

(* xoring two numbers of equal log2 cancels the leading bit *)
Lemma lxor_same_log2 a b : a <> 0 -> b <> 0 -> N.log2 a = N.log2 b ->
  N.lxor a b < 2 ^ N.log2 a.
Proof.
  intros Na Nb E. apply lt_pow2_of_bits. intros m Hm. rewrite N.lxor_spec.
  destruct (N.eq_dec m (N.log2 a)) as [->|Ne].
  - rewrite (N.bit_log2 a Na). rewrite E, (N.bit_log2 b Nb). reflexivity.
  - rewrite (N.bits_above_log2 a m), (N.bits_above_log2 b m) by lia. reflexivity.
Qed.

Lemma log2_shiftl_nz a n : a <> 0 -> N.log2 (N.shiftl a n) = N.log2 a + n.
Proof. intros H. apply N.log2_shiftl. exact H. Qed.

Definition div_inv (p d q r : N) : Prop :=
  N.lxor (clmul q d) r = p /\ q < 2 ^ 64 /\ r < 2 ^ 64.

Lemma div_loop_spec f : forall p d q r,
  0 < d < 2 ^ 64 -> div_inv p d q r -> r < 2 ^ N.of_nat f ->
  let '(q', r') := p64_div_loop (S f) d (N.log2 d) q r in
  div_inv p d q' r' /\ (r' = 0 \/ N.log2 r' < N.log2 d).
Proof.
  induction f as [|f IH]; intros p d q r Hd Hinv Hr.
  - simpl in Hr. assert (r = 0) by lia. subst r. cbn. split; [exact Hinv|left; reflexivity].
  - remember (S f) as sf. cbn [p64_div_loop]. subst sf.
    destruct (N.eqb_spec r 0) as [->|Nr]; [split; [exact Hinv|left; reflexivity]|].
    destruct Hinv as (Hx & Hq & Hr64).
    rewrite (ilog2_spec r) by lia.
    destruct (N.ltb_spec (N.log2 r) (N.log2 d)) as [Lt|Ge].
    { split; [repeat split; assumption|right; exact Lt]. }
    cbv zeta. set (dl := N.log2 r - N.log2 d).
    assert (Hlr : N.log2 r < 64) by (apply N.log2_lt_pow2; lia).
    assert (Hdnz : d <> 0) by lia.
    assert (Hsd : N.log2 (N.shiftl d dl) = N.log2 r).
    { rewrite log2_shiftl_nz by exact Hdnz. unfold dl. lia. }
    assert (Hsdnz : N.shiftl d dl <> 0).
    { rewrite N.shiftl_eq_0_iff. exact Hdnz. }
    assert (Hsd64 : N.shiftl d dl < 2 ^ 64).
    { apply N.log2_lt_pow2; [lia|]. rewrite Hsd. exact Hlr. }
    assert (H1 : N.shiftl 1 dl < 2 ^ 64).
    { rewrite N.shiftl_1_l. apply N.pow_lt_mono_r; [lia|]. unfold dl. lia. }
    rewrite (trunc64_id _ H1), (trunc64_id _ Hsd64).
    assert (Hr' : N.lxor r (N.shiftl d dl) < 2 ^ N.log2 r).
    { apply lxor_same_log2; [exact Nr|exact Hsdnz|symmetry; exact Hsd]. }
    apply IH; [exact Hd| |].
    + repeat split.
      * rewrite clmul_lxor_l, N.shiftl_1_l.
        replace dl with (N.of_nat (N.to_nat dl)) at 1 by apply N2Nat.id.
        rewrite clmul_pow2_l, N2Nat.id. rewrite <- Hx. xor_solve.
      * change (2 ^ 64) with (2 ^ 64). apply lxor_lt_pow2; assumption.
      * apply lxor_lt_pow2; assumption.
    + eapply N.lt_le_trans; [exact Hr'|]. apply N.pow_le_mono_r; [lia|].
      assert (N.log2 r < N.of_nat (S f)) by (apply N.log2_lt_pow2; lia). lia.
Qed.

Theorem Poly64_Div_correct p d : p < 2 ^ 64 -> 0 < d < 2 ^ 64 ->
  exists q r, Poly64_Div p d = Ok (q, r) /\
    N.lxor (clmul q d) r = p /\ (r = 0 \/ N.log2 r < N.log2 d) /\
    Poly64_Times q d = clmul q d.
Proof.
  intros Hp Hd. unfold Poly64_Div.
  destruct (N.eqb_spec d 0) as [->|Nd]; [lia|].
  pose proof (div_loop_spec 64 p d 0 p Hd) as L.
  rewrite (ilog2_spec d) by lia.
  destruct (p64_div_loop 65 d (N.log2 d) 0 p) as [q r].
  destruct L as [(Hx & Hq & Hr) Hdeg].
  { unfold div_inv. split; [rewrite clmul_0_l; apply N.lxor_0_l|]. split; [reflexivity|exact Hp]. }
  { exact Hp. }
  exists q, r. repeat split; try assumption.
  rewrite Poly64_Times_correct by (try assumption; lia).
  apply trunc64_id. replace (clmul q d) with (N.lxor p r).
  - apply lxor_lt_pow2; assumption.
  - rewrite <- Hx. xor_solve.
Qed.

Theorem Poly64_Div_zero p : Poly64_Div p 0 = Panic PExplicit.
Proof. reflexivity. Qed.

