(* C19, sizes: the tables that the PAR2 and PAR1 loaders build are paid for by the bytes that were read.
   The model has no heap; the SIZES of the tables are model quantities.  For EVERY file-system state
   (hostile archives included):

   LS1 read_file_sizes (read_file_vol_sizes): what readFile keeps - 20 bytes per checksum pair and 80 per
       checksum packet, 16 per file id of the main packet (and 76 for it), the bytes of every recovery block
       and 68 per block - is at most the length of the input: packet bodies are disjoint parts of it
       (read_next_packet_size, read_file_go_sizes).
   LS2 decoder_pairs_cover: every info of the decoder has exactly ceil(length / slice size) checksum pairs;
       decoder_slices_per_file: 20 * (pairs of one file) + 16 * (number of files) <= length of the index;
       decoder_slices_bounded: when the file ids of the main packet are pairwise distinct,
         20 * (sum of the pairs over d_rec ++ d_nonrec) + 16 * (number of files) <= length of the index;
       decoder_rec_slices_bounded_uncond: readMainPacket rejects an id list that is not sorted or lists an id
         twice (ids_ok, Proofs/Par2Ids.v: decoder_ids_distinct), so for EVERY decoder
         20 * (sum of the pairs over d_rec) <= length of the index, and the same for d_nonrec
         (an id may still occur once in each list: decoder_slices_linear_uncond, 20 * sum over both <= 2 * length);
       decoder_slices_quadratic: the older bound 320 * sum <= (length of the index)^2, kept.
       LSExample.dup_ids_rejected: an index whose main packet lists one id 8 times is rejected by new_decoder.
   LS3 shard_table_size: after load_all, the shard table has exactly one slot per checksum pair of d_rec
       (shard_table_bounded, shard_table_bounded_uncond: hence the bounds of LS2).
   LS4 parity_table_bounded: length (ds_parity ds) <= 65536, every block in it has the slice size.
   LS5 read_volume_entries_bounded: 56 (even 58) bytes per entry of a PAR1 volume, plus the 96 of the header
       and the data; p1_load_sizes: saved entries <= entries, at most 99 parity slots. *)
From Coq Require Import Lia ZifyN ZifyNat ZifyBool.
From Gopar Require Import Model.Base Model.GF16 Model.Matrix Model.RS16 Model.CRC Model.GoPath Model.FS Model.Par1 Model.Par2
     Proofs.Par2Facts Proofs.Par2Verify Proofs.Par2Layout Proofs.Par2Resync Proofs.Par2Faults Proofs.Par2Ids.
Open Scope nat_scope.
Set Default Timeout 120.

(** * list helpers *)

Lemma sum_app l1 l2 : sum (l1 ++ l2) = sum l1 + sum l2.
Proof. unfold sum. induction l1 as [|x l1 IH]; cbn [app fold_right]; [reflexivity|]. rewrite IH. lia. Qed.

Lemma flat_map_length_sum {A B} (g : A -> list B) : forall l, length (flat_map g l) = sum (map (fun x => length (g x)) l).
Proof.
  unfold sum. induction l as [|x l IH]; cbn [flat_map map fold_right length]; [reflexivity|].
  rewrite app_length, IH. reflexivity.
Qed.

(* the number of chunks: at most ceil(length / n) *)
Lemma chunks_of_count n : 0 < n -> forall fuel b, length (chunks_of n fuel b) * n <= length b + (n - 1).
Proof.
  intros Hn. induction fuel as [|fuel IH]; intros b; cbn [chunks_of length]; [lia|].
  destruct b as [|x b]; [cbn [length]; lia|].
  cbn [length]. rewrite Nat.mul_succ_l.
  specialize (IH (skipn n (x :: b))). rewrite skipn_length in IH.
  destruct (Nat.le_gt_cases n (length (x :: b))) as [Hle|Hgt].
  - cbn [length] in *. lia.
  - assert (E : skipn n (x :: b) = []) by (apply skipn_all2; lia).
    rewrite E. destruct fuel; cbn [chunks_of length]; cbn [length] in Hgt; lia.
Qed.

Lemma chunk_bytes_16 b : length b mod 16 = 0 -> 16 * length (chunk_bytes 16 b) <= length b.
Proof.
  intros Hm. pose proof (chunks_of_count 16 ltac:(lia) (length b) b) as H. fold (chunk_bytes 16 b) in H. lia.
Qed.

Lemma chunk_bytes_20 b : length b mod 20 = 0 -> 20 * length (chunk_bytes 20 b) <= length b.
Proof.
  intros Hm. pose proof (chunks_of_count 20 ltac:(lia) (length b) b) as H. fold (chunk_bytes 20 b) in H. lia.
Qed.

(** * packet bodies: what each reader keeps is paid for by the body *)
Section BodySizes.

  Lemma read_main_size body m : read_main body = Ok m ->
    16 * (length (mp_rec m) + length (mp_nonrec m)) + 12 <= length body.
  Proof.
    unfold read_main. intros H.
    destruct (Nat.ltb (length body) 12) eqn:E12; [discriminate H|]. apply Nat.ltb_ge in E12.
    cbv zeta in H.
    lazymatch type of H with (if ?c then _ else _) = _ => destruct c end; [discriminate H|].
    lazymatch type of H with (if ?c then _ else _) = _ => destruct c end; [discriminate H|].
    lazymatch type of H with (if negb (Nat.eqb ?c 0) then _ else _) = _ => destruct (Nat.eqb_spec c 0) as [Em|Em] end;
      cbn [negb] in H; [|discriminate H].
    lazymatch type of H with (if ?c then _ else _) = _ => destruct c end; [discriminate H|].
    lazymatch type of H with (if ?c then _ else _) = _ => destruct c end; [discriminate H|].
    set (rest := skipn 12 body) in *. set (cnt := N.to_nat _) in H. clearbody cnt.
    injection H as <-. cbn [mp_rec mp_nonrec].
    rewrite firstn_length, skipn_length.
    pose proof (chunk_bytes_16 _ Em) as Hc. unfold rest in Hc at 2. rewrite skipn_length in Hc. clearbody rest. unfold bytes in *. lia.
  Qed.

  Lemma read_ifsc_size body id ps : read_ifsc body = Ok (id, ps) -> 20 * length ps + 16 <= length body.
  Proof.
    unfold read_ifsc. intros H.
    destruct (Nat.ltb (length body) 16) eqn:E16; [discriminate H|]. apply Nat.ltb_ge in E16.
    cbv zeta in H.
    lazymatch type of H with (if ?a || negb (Nat.eqb ?c 0) then _ else _) = _ =>
      destruct a; [discriminate H|]; destruct (Nat.eqb_spec c 0) as [Em|Em] end;
      cbn [negb orb] in H; [|discriminate H].
    set (rest := skipn 16 body) in *.
    injection H as _ <-. rewrite map_length.
    pose proof (chunk_bytes_20 _ Em) as Hc. unfold rest in Hc at 2. rewrite skipn_length in Hc. clearbody rest. unfold bytes in *. lia.
  Qed.

  Lemma read_recv_size body e d : read_recv body = Ok (e, d) ->
    length d + 4 <= length body /\ (e <= 65535)%N.
  Proof.
    unfold read_recv. intros H.
    destruct (Nat.eqb_spec (length body) 0) as [E0|E0]; cbn [orb] in H; [discriminate H|].
    lazymatch type of H with (if negb (Nat.eqb ?c 0) then _ else _) = _ => destruct (Nat.eqb_spec c 0) as [Em|Em] end;
      cbn [negb] in H; [|discriminate H].
    cbv zeta in H.
    lazymatch type of H with (if (65535 <? ?x)%N then _ else _) = _ => destruct (N.ltb_spec 65535 x) as [Hx|Hx] end;
      [discriminate H|].
    set (d0 := skipn 4 body) in *. assert (Hd0 : length d0 = length body - 4) by apply skipn_length. clearbody d0.
    injection H as <- <-. split; [lia|exact Hx].
  Qed.

  Variable md5 : bytes -> bytes.

  (* a packet that is read: header, body and the remaining bytes make up the buffer *)
  Lemma read_next_packet_size buf psid ptype body rest :
    read_next_packet md5 buf = NPPacket psid ptype body rest ->
    length body + length rest + 64 = length buf.
  Proof.
    intros H. destruct buf as [|x buf]; [discriminate H|].
    unfold read_next_packet in H. cbv beta iota in H.
    set (l := x :: buf) in *. clearbody l. clear x buf.
    destruct (Nat.ltb (length l) 64) eqn:E64; [discriminate H|]. apply Nat.ltb_ge in E64.
    cbv zeta in H.
    destruct (negb (bytes_eqb (firstn 8 l) MAGIC)); [discriminate H|].
    lazymatch type of H with (if ?c then _ else _) = _ => destruct c end; [discriminate H|].
    lazymatch type of H with (if ?c then _ else _) = _ => destruct c end; [discriminate H|].
    lazymatch type of H with (if ?c then _ else _) = _ => destruct c end; [discriminate H|].
    set (r0 := skipn 64 l) in *. assert (Hr0 : length r0 = length l - 64) by apply skipn_length. clearbody r0.
    lazymatch type of H with NPPacket _ _ (firstn ?n _) _ = _ => set (n0 := n) in H; clearbody n0 end.
    injection H as _ _ <- <-.
    rewrite firstn_length, !skipn_length. lia.
  Qed.
End BodySizes.

(** * LS1. readFile: the kept tables against the bytes of the input *)
Definition ifsc_pairs (f : pfile) : nat :=
  sum (map (fun e : bytes * list (bytes * N) => length (snd e)) (pf_ifsc f)).
Definition main_ids (f : pfile) : nat :=
  match pf_main f with Some m => length (mp_rec m) + length (mp_nonrec m) | None => 0 end.
Definition main_present (f : pfile) : nat := match pf_main f with Some _ => 1 | None => 0 end.
Definition recv_bytes (f : pfile) : nat :=
  sum (map (fun e : N * bytes => length (snd e)) (pf_recv f)).

(* the bytes that the kept tables account for: per checksum packet 64 (header) + 16 (file id) + 20 per pair;
   for the main packet 64 + 12 + 16 per id; per recovery block 64 + 4 + its bytes *)
Definition pf_weight (f : pfile) : nat :=
  20 * ifsc_pairs f + 80 * length (pf_ifsc f) + 16 * main_ids f + 76 * main_present f
  + recv_bytes f + 68 * length (pf_recv f).

Definition recv_exps_ok (f : pfile) : Prop := Forall (fun ed : N * bytes => (fst ed <= 65535)%N) (pf_recv f).

Section ReadSizes.
  Variable md5 : bytes -> bytes.

  Lemma rf_finish_ok_eq setid found f sid f' : rf_finish setid found f = RFOk sid f' -> f' = f.
  Proof.
    unfold rf_finish. destruct (negb found); [discriminate|].
    destruct (pf_client f); [|discriminate]. destruct setid; [|discriminate].
    intros H. injection H as _ <-. reflexivity.
  Qed.

  Ltac weigh := unfold pf_weight, ifsc_pairs, main_ids, main_present, recv_bytes, sum in *;
                cbn [pf_ifsc pf_main pf_recv pf_fdesc pf_client map fold_right length snd] in *.

  (* the key lemma: the reader only moves forward, every accepted body is a disjoint part of the buffer *)
  Lemma read_file_go_sizes : forall fuel buf setid found f sid f',
    read_file_go md5 fuel buf setid found f = RFOk sid f' ->
    pf_weight f' <= pf_weight f + length buf /\ (recv_exps_ok f -> recv_exps_ok f').
  Proof.
    induction fuel as [|fuel IH]; intros buf setid found f sid f' H; cbn [read_file_go] in H; [discriminate H|].
    destruct (read_next_packet md5 buf) as [| |psid ptype body rest] eqn:ENP.
    - apply rf_finish_ok_eq in H. subst f'. split; [lia|tauto].
    - destruct (find_magic (tl buf)) as [rest|] eqn:EFM.
      + apply IH in H. apply find_magic_length in EFM.
        assert (length (tl buf) <= length buf) by (destruct buf; cbn [tl length]; lia).
        destruct H as [H1 H2]. split; [lia|exact H2].
      + apply rf_finish_ok_eq in H. subst f'. split; [lia|tauto].
    - apply read_next_packet_size in ENP.
      lazymatch type of H with (if ?c then _ else _) = _ => destruct c end.
      { apply IH in H. destruct H as [H1 H2]. split; [lia|exact H2]. }
      destruct (bytes_eqb ptype TYPE_CREATOR).
      { apply IH in H. destruct H as [H1 H2]. split; [weigh; lia|exact H2]. }
      destruct (bytes_eqb ptype TYPE_MAIN).
      { destruct (read_main body) as [m|e|q] eqn:EM; try discriminate H.
        apply read_main_size in EM. apply IH in H. destruct H as [H1 H2]. split; [|exact H2].
        weigh. destruct (pf_main f); lia. }
      destruct (bytes_eqb ptype TYPE_FDESC).
      { destruct (read_fdesc md5 body) as [[id d]|e|q]; try discriminate H.
        apply IH in H. destruct H as [H1 H2]. split; [weigh; lia|exact H2]. }
      destruct (bytes_eqb ptype TYPE_IFSC).
      { destruct (read_ifsc body) as [[id ps]|e|q] eqn:EI; try discriminate H.
        apply read_ifsc_size in EI. apply IH in H. destruct H as [H1 H2]. split; [weigh; lia|exact H2]. }
      destruct (bytes_eqb ptype TYPE_RECV).
      { destruct (read_recv body) as [[e d]|e|q] eqn:ER; try discriminate H.
        apply read_recv_size in ER. destruct ER as [ER1 ER2].
        destruct (assoc_n (pf_recv f) e) as [d'|].
        - destruct (bytes_eqb d' d); [|discriminate H].
          apply IH in H. destruct H as [H1 H2]. split; [lia|exact H2].
        - apply IH in H. destruct H as [H1 H2]. split; [weigh; lia|].
          intros Hf. apply H2. unfold recv_exps_ok in *. cbn [pf_recv]. constructor; [exact ER2|exact Hf]. }
      apply IH in H. destruct H as [H1 H2]. split; [lia|exact H2].
  Qed.

  Theorem read_file_weight expected b sid f : read_file md5 expected b = RFOk sid f ->
    pf_weight f <= length b /\ recv_exps_ok f.
  Proof.
    unfold read_file. intros H. apply read_file_go_sizes in H. destruct H as [H1 H2].
    split; [exact H1|apply H2; constructor].
  Qed.

  Theorem read_file_vol_weight sid0 b sid f : read_file_vol md5 sid0 b = RFOk sid f ->
    pf_weight f <= length b /\ recv_exps_ok f.
  Proof.
    unfold read_file_vol. intros H. apply read_file_go_sizes in H. destruct H as [H1 H2].
    split; [exact H1|apply H2; constructor].
  Qed.

  (* LS1 as asked: checksum pairs, ids of the main packet, bytes of the recovery blocks *)
  Theorem read_file_sizes expected b sid f : read_file md5 expected b = RFOk sid f ->
    20 * ifsc_pairs f + 16 * main_ids f + recv_bytes f <= length b.
  Proof. intros H. apply read_file_weight in H. destruct H as [H _]. unfold pf_weight in H. lia. Qed.

  Theorem read_file_vol_sizes sid0 b sid f : read_file_vol md5 sid0 b = RFOk sid f ->
    20 * ifsc_pairs f + 16 * main_ids f + recv_bytes f <= length b.
  Proof. intros H. apply read_file_vol_weight in H. destruct H as [H _]. unfold pf_weight in H. lia. Qed.

  (* the numbers of entries, too: a checksum packet takes 80 bytes at least, a recovery packet 68 *)
  Corollary read_file_counts expected b sid f : read_file md5 expected b = RFOk sid f ->
    80 * length (pf_ifsc f) + 68 * length (pf_recv f) <= length b.
  Proof. intros H. apply read_file_weight in H. destruct H as [H _]. unfold pf_weight in H. lia. Qed.
End ReadSizes.

(** * LS2. the decoder's infos against the bytes of the index file *)

(* association lists: distinct keys that are all found are paid for by distinct entries *)
Definition drop_key {A} (k : bytes) (l : list (bytes * A)) : list (bytes * A) :=
  filter (fun e => negb (bytes_eqb (fst e) k)) l.

Lemma drop_key_other {A} (k k' : bytes) : k' <> k -> forall l : list (bytes * A),
  assoc_b (drop_key k l) k' = assoc_b l k'.
Proof.
  intros Hne. induction l as [|[q v] l IH]; cbn [drop_key filter assoc_b fst]; [reflexivity|].
  fold (drop_key k l).
  destruct (bytes_eqb q k) eqn:Eqk; cbn [negb].
  - apply bytes_eqb_eq in Eqk. subst q.
    rewrite (bytes_eqb_neq_false k k') by (intros E; apply Hne; symmetry; exact E). exact IH.
  - cbn [assoc_b]. destruct (bytes_eqb q k'); [reflexivity|exact IH].
Qed.

Lemma drop_key_cost {A} (c : A -> nat) (k : bytes) : forall (l : list (bytes * A)) v, assoc_b l k = Some v ->
  c v + sum (map (fun e => c (snd e)) (drop_key k l)) <= sum (map (fun e => c (snd e)) l).
Proof.
  unfold sum. induction l as [|[q x] l IH]; intros v H; cbn [assoc_b] in H; [discriminate H|].
  cbn [drop_key filter fst]. fold (drop_key k l).
  destruct (bytes_eqb q k) eqn:Eqk; cbn [negb map fold_right snd].
  - injection H as <-.
    assert (Hle : forall l', fold_right Nat.add 0 (map (fun e : bytes * A => c (snd e)) (drop_key k l'))
                             <= fold_right Nat.add 0 (map (fun e : bytes * A => c (snd e)) l')).
    { induction l' as [|[q' x'] l' IH']; cbn [drop_key filter map fold_right fst snd]; [lia|].
      fold (drop_key k l'). destruct (negb (bytes_eqb q' k)); cbn [map fold_right snd]; lia. }
    specialize (Hle l). lia.
  - specialize (IH v H). lia.
Qed.

Lemma assoc_b_distinct_cost {A} (c : A -> nat) : forall (kvs l : list (bytes * A)),
  NoDup (map fst kvs) -> Forall (fun kv => assoc_b l (fst kv) = Some (snd kv)) kvs ->
  sum (map (fun kv => c (snd kv)) kvs) <= sum (map (fun e => c (snd e)) l).
Proof.
  induction kvs as [|[k v] kvs IH]; intros l Hnd Hall; [unfold sum; cbn [map fold_right]; lia|].
  cbn [map fst] in Hnd. inversion Hnd as [|? ? Hnotin Hnd']; subst.
  inversion Hall as [|? ? Hk Hall']; subst. cbn [fst snd] in Hk.
  pose proof (drop_key_cost c k l v Hk) as Hc.
  assert (Hall2 : Forall (fun kv => assoc_b (drop_key k l) (fst kv) = Some (snd kv)) kvs).
  { rewrite Forall_forall in Hall' |- *. intros kv Hin. rewrite drop_key_other; [exact (Hall' kv Hin)|].
    intros E. apply Hnotin. rewrite <- E. apply in_map. exact Hin. }
  specialize (IH (drop_key k l) Hnd' Hall2).
  unfold sum in *. cbn [map fold_right snd]. lia.
Qed.

(* what make_infos builds: each info carries the checksum list that the index holds for its id, and that list
   covers exactly the declared length (the fix 8d7f5ba) *)
Definition info_from (S : N) (f : pfile) (info : dinfo) : Prop :=
  assoc_b (pf_ifsc f) (di_id info) = Some (di_pairs info) /\
  N.of_nat (length (di_pairs info)) = ((di_len info + S - 1) / S)%N.

Lemma make_infos_from S ids f infos : make_infos S ids f = Ok infos ->
  map di_id infos = ids /\ Forall (info_from S f) infos.
Proof.
  unfold make_infos. revert infos. induction ids as [|id ids IH]; intros infos H; cbn [omap] in H.
  - injection H as <-. split; [reflexivity|constructor].
  - destruct (assoc_b (pf_fdesc f) id) as [d|]; [|discriminate H].
    destruct (assoc_b (pf_ifsc f) id) as [ps|] eqn:E2; [|discriminate H].
    destruct (N.eqb_spec (N.of_nat (length ps)) ((fd_len d + S - 1) / S)%N) as [E|NE]; cbn [negb obind] in H; [|discriminate H].
    lazymatch type of H with obind ?o _ = _ => destruct o as [ys|e|q] eqn:EO end; cbn [obind] in H; try discriminate H.
    injection H as <-. destruct (IH ys eq_refl) as [I1 I2]. cbn [map di_id]. split; [rewrite I1; reflexivity|].
    constructor; [|exact I2]. unfold info_from. cbn [di_id di_pairs di_len]. split; [exact E2|exact E].
Qed.

Definition pairs_total (infos : list dinfo) : nat := sum (map (fun info => length (di_pairs info)) infos).

(* distinct ids: every info is paid for by its own checksum packet *)
Lemma infos_distinct_cost S f infos : NoDup (map di_id infos) -> Forall (info_from S f) infos ->
  20 * pairs_total infos + 80 * length infos <= 20 * ifsc_pairs f + 80 * length (pf_ifsc f).
Proof.
  intros Hnd Hall.
  pose proof (assoc_b_distinct_cost (fun ps : list (bytes * N) => 20 * length ps + 80)
                (map (fun info => (di_id info, di_pairs info)) infos) (pf_ifsc f)) as H.
  rewrite map_map in H. cbn [fst] in H. specialize (H Hnd).
  assert (Hall2 : Forall (fun kv : bytes * list (bytes * N) => assoc_b (pf_ifsc f) (fst kv) = Some (snd kv))
                         (map (fun info => (di_id info, di_pairs info)) infos)).
  { apply Forall_forall. intros kv Hin. apply in_map_iff in Hin. destruct Hin as [info [<- Hin]]. cbn [fst snd].
    rewrite Forall_forall in Hall. exact (proj1 (Hall info Hin)). }
  specialize (H Hall2). rewrite map_map in H. cbn [snd] in H.
  assert (L1 : forall (A : Type) (g : A -> nat) (l : list A),
            sum (map (fun x => 20 * g x + 80) l) = 20 * sum (map g l) + 80 * length l).
  { intros A g l. unfold sum. induction l as [|x l IHl]; cbn [map fold_right length]; lia. }
  rewrite (L1 _ (fun info => length (di_pairs info))) in H.
  rewrite (L1 _ (fun e : bytes * list (bytes * N) => length (snd e))) in H.
  unfold pairs_total, ifsc_pairs. exact H.
Qed.

(* any ids: every info is paid for by SOME checksum packet *)
Lemma info_single_cost S f info : info_from S f info ->
  20 * length (di_pairs info) + 80 <= 20 * ifsc_pairs f + 80 * length (pf_ifsc f).
Proof.
  intros Hi. pose proof (infos_distinct_cost S f [info]) as H.
  unfold pairs_total, sum in H. cbn [map fold_right length] in H.
  assert (Hnd : NoDup [di_id info]) by (constructor; [intros []|constructor]).
  specialize (H Hnd (Forall_cons _ Hi (Forall_nil _))). lia.
Qed.

Lemma pairs_total_le_each (infos : list dinfo) (B : nat) :
  Forall (fun info => 20 * length (di_pairs info) <= B) infos -> 20 * pairs_total infos <= length infos * B.
Proof.
  unfold pairs_total, sum. induction 1 as [|info infos Hi _ IH]; cbn [map fold_right length]; [lia|].
  rewrite Nat.mul_succ_l. lia.
Qed.

Section DecoderSizes.
  Variable md5 : bytes -> bytes.

  (* new_decoder, opened: the index bytes, the parsed index, and where the two info lists come from *)
  Lemma new_decoder_inv ix st d st1 : new_decoder md5 ix st = (Ok d, st1) ->
    exists b sid f m,
      io_read ix st = (Ok b, st1) /\ read_file md5 None b = RFOk sid f /\ pf_main f = Some m /\ pf_recv f = [] /\
      d_slice d = mp_slice m /\
      make_infos (mp_slice m) (mp_rec m) f = Ok (d_rec d) /\
      make_infos (mp_slice m) (mp_nonrec m) f = Ok (d_nonrec d).
  Proof.
    intros H. unfold new_decoder in H.
    destruct (io_read ix st) as [[b|e|q] s1]; try discriminate H.
    injection H as H <-.
    destruct (read_file md5 None b) as [| |sid f] eqn:ERF; try discriminate H.
    destruct (pf_main f) as [m|] eqn:EM; [|discriminate H].
    destruct (pf_recv f) as [|r0 rr] eqn:ER; [|discriminate H].
    destruct (make_infos (mp_slice m) (mp_rec m) f) as [rs|e|q] eqn:E1; cbn [obind] in H; try discriminate H.
    destruct (make_infos (mp_slice m) (mp_nonrec m) f) as [nrs|e|q] eqn:E2; cbn [obind] in H; try discriminate H.
    injection H as <-. cbn [d_slice d_rec d_nonrec].
    exists b, sid, f, m. repeat split; try reflexivity; assumption.
  Qed.

  (* the facts about the decoder that the bounds rest on, in one place *)
  Lemma new_decoder_sizes ix st d st1 : new_decoder md5 ix st = (Ok d, st1) ->
    exists b f,
      io_read ix st = (Ok b, st1) /\
      Forall (info_from (d_slice d) f) (d_rec d ++ d_nonrec d) /\
      20 * ifsc_pairs f + 80 * length (pf_ifsc f) + 16 * length (d_rec d ++ d_nonrec d) + 76 <= length b.
  Proof.
    intros H. destruct (new_decoder_inv _ _ _ _ H) as (b & sid & f & m & ER & ERF & EM & ERV & ES & E1 & E2).
    exists b, f. split; [exact ER|].
    apply make_infos_from in E1. apply make_infos_from in E2. destruct E1 as [I1 F1]. destruct E2 as [I2 F2].
    rewrite ES. split; [apply Forall_app; split; assumption|].
    apply read_file_weight in ERF. destruct ERF as [HW _].
    unfold pf_weight, main_ids, main_present in HW. rewrite EM in HW.
    rewrite app_length. rewrite <- I1, <- I2 in HW. rewrite !map_length in HW. lia.
  Qed.

  (* LS2a: the number of slices of every file is the declared length over the declared slice size, rounded up *)
  Theorem decoder_pairs_cover ix st d st1 : new_decoder md5 ix st = (Ok d, st1) ->
    forall info, In info (d_rec d ++ d_nonrec d) ->
      N.of_nat (length (di_pairs info)) = ((di_len info + d_slice d - 1) / d_slice d)%N.
  Proof.
    intros H info Hin. destruct (new_decoder_sizes _ _ _ _ H) as (b & f & _ & HF & _).
    rewrite Forall_forall in HF. exact (proj2 (HF info Hin)).
  Qed.

  (* LS2b: one file's slices, and the number of files, against the bytes of the index file *)
  Theorem decoder_slices_per_file ix st d st1 b st0 :
    new_decoder md5 ix st = (Ok d, st1) -> io_read ix st = (Ok b, st0) ->
    forall info, In info (d_rec d ++ d_nonrec d) ->
      20 * length (di_pairs info) + 16 * length (d_rec d ++ d_nonrec d) + 156 <= length b.
  Proof.
    intros H ER info Hin. destruct (new_decoder_sizes _ _ _ _ H) as (b' & f & ER' & HF & HB).
    rewrite ER in ER'. injection ER' as <- _.
    rewrite Forall_forall in HF. pose proof (info_single_cost _ _ _ (HF info Hin)) as H1. lia.
  Qed.

  (* LS2c: with pairwise distinct file ids, all the slices the decoder will ever allocate slots for *)
  Theorem decoder_slices_bounded ix st d st1 b st0 :
    new_decoder md5 ix st = (Ok d, st1) -> io_read ix st = (Ok b, st0) ->
    NoDup (map di_id (d_rec d ++ d_nonrec d)) ->
    20 * pairs_total (d_rec d ++ d_nonrec d) + 96 * length (d_rec d ++ d_nonrec d) + 76 <= length b.
  Proof.
    intros H ER Hnd. destruct (new_decoder_sizes _ _ _ _ H) as (b' & f & ER' & HF & HB).
    rewrite ER in ER'. injection ER' as <- _.
    pose proof (infos_distinct_cost _ _ _ Hnd HF) as H1. lia.
  Qed.

  (* the same for the recovery set alone (the files that get shard slots), when ITS ids are distinct *)
  Theorem decoder_rec_slices_bounded ix st d st1 b st0 :
    new_decoder md5 ix st = (Ok d, st1) -> io_read ix st = (Ok b, st0) ->
    NoDup (map di_id (d_rec d)) ->
    20 * pairs_total (d_rec d) + 80 * length (d_rec d) + 16 * length (d_rec d ++ d_nonrec d) + 76 <= length b.
  Proof.
    intros H ER Hnd. destruct (new_decoder_sizes _ _ _ _ H) as (b' & f & ER' & HF & HB).
    rewrite ER in ER'. injection ER' as <- _.
    apply Forall_app in HF. destruct HF as [HF _].
    pose proof (infos_distinct_cost _ _ _ Hnd HF) as H1. lia.
  Qed.

  (* LS2c': the premise of decoder_rec_slices_bounded holds for every decoder (Par2Ids.decoder_ids_distinct: the id
     lists of a main packet that read_main accepts are sorted and list no id twice) *)
  Theorem decoder_rec_slices_bounded_uncond ix st d st1 b st0 :
    new_decoder md5 ix st = (Ok d, st1) -> io_read ix st = (Ok b, st0) ->
    20 * pairs_total (d_rec d) <= length b.
  Proof.
    intros H ER. destruct (decoder_ids_distinct md5 _ _ _ _ H) as [Hnd _].
    pose proof (decoder_rec_slices_bounded _ _ _ _ _ _ H ER Hnd) as HB. lia.
  Qed.

  (* the same with the constants, and for the non-recovery set *)
  Theorem decoder_rec_slices_bounded_uncond_full ix st d st1 b st0 :
    new_decoder md5 ix st = (Ok d, st1) -> io_read ix st = (Ok b, st0) ->
    20 * pairs_total (d_rec d) + 80 * length (d_rec d) + 16 * length (d_rec d ++ d_nonrec d) + 76 <= length b.
  Proof.
    intros H ER. destruct (decoder_ids_distinct md5 _ _ _ _ H) as [Hnd _].
    exact (decoder_rec_slices_bounded _ _ _ _ _ _ H ER Hnd).
  Qed.

  Theorem decoder_nonrec_slices_bounded_uncond ix st d st1 b st0 :
    new_decoder md5 ix st = (Ok d, st1) -> io_read ix st = (Ok b, st0) ->
    20 * pairs_total (d_nonrec d) + 80 * length (d_nonrec d) + 16 * length (d_rec d ++ d_nonrec d) + 76 <= length b.
  Proof.
    intros H ER. destruct (decoder_ids_distinct md5 _ _ _ _ H) as [_ Hnd].
    destruct (new_decoder_sizes _ _ _ _ H) as (b' & f & ER' & HF & HB).
    rewrite ER in ER'. injection ER' as <- _.
    apply Forall_app in HF. destruct HF as [_ HF].
    pose proof (infos_distinct_cost _ _ _ Hnd HF) as H1. lia.
  Qed.

  (* an id may occur once in d_rec and once in d_nonrec: both lists together, linearly *)
  Theorem decoder_slices_linear_uncond ix st d st1 b st0 :
    new_decoder md5 ix st = (Ok d, st1) -> io_read ix st = (Ok b, st0) ->
    20 * pairs_total (d_rec d ++ d_nonrec d) <= 2 * length b.
  Proof.
    intros H ER.
    pose proof (decoder_rec_slices_bounded_uncond_full _ _ _ _ _ _ H ER) as H1.
    pose proof (decoder_nonrec_slices_bounded_uncond _ _ _ _ _ _ H ER) as H2.
    unfold pairs_total in *. rewrite map_app, sum_app. lia.
  Qed.

  (* LS2d: the quadratic bound (it was the only unconditional one while read_main accepted repeated ids) *)
  Theorem decoder_slices_quadratic ix st d st1 b st0 :
    new_decoder md5 ix st = (Ok d, st1) -> io_read ix st = (Ok b, st0) ->
    320 * pairs_total (d_rec d ++ d_nonrec d) <= length b * length b.
  Proof.
    intros H ER. set (infos := d_rec d ++ d_nonrec d).
    assert (HB : Forall (fun info => 20 * length (di_pairs info) <= length b) infos).
    { apply Forall_forall. intros info Hin. pose proof (decoder_slices_per_file _ _ _ _ _ _ H ER info Hin). lia. }
    apply pairs_total_le_each in HB.
    assert (HN : 16 * length infos <= length b).
    { destruct (new_decoder_sizes _ _ _ _ H) as (b' & f & ER' & _ & HB'). rewrite ER in ER'. injection ER' as <- _.
      fold infos in HB'. lia. }
    assert (H16 : 16 * (length infos * length b) <= length b * length b).
    { rewrite Nat.mul_assoc. apply Nat.mul_le_mono_r. exact HN. }
    lia.
  Qed.
End DecoderSizes.

(** * LS3, LS4. the tables of load_all *)

Lemma fold_max_le : forall (acc : list (N * bytes)) (m0 B : N), (m0 <= B)%N ->
  Forall (fun ed : N * bytes => (fst ed <= B)%N) acc ->
  (fold_left (fun m (ed : N * bytes) => N.max m (fst ed)) acc m0 <= B)%N.
Proof.
  induction acc as [|[k v] acc IH]; intros m0 B Hm H; cbn [fold_left fst]; [exact Hm|].
  inversion H as [|? ? Hk H']; subst. cbn [fst] in Hk. apply IH; [lia|exact H'].
Qed.

Lemma parity_array_length (acc : list (N * bytes)) (B : N) :
  Forall (fun ed : N * bytes => (fst ed <= B)%N) acc -> length (parity_array acc) <= S (N.to_nat B).
Proof.
  intros H. unfold parity_array. destruct acc as [|a0 acc0] eqn:E; [cbn [length]; lia|]. rewrite <- E in *.
  rewrite map_length, seq_length.
  pose proof (fold_max_le acc 0%N B ltac:(lia) H) as Hle. lia.
Qed.

Section LoadAllSizes.
  Variable md5 : bytes -> bytes.

  Lemma load_parity_exps d : forall paths acc st acc' st',
    Forall (fun ed : N * bytes => (fst ed <= 65535)%N) acc ->
    load_parity md5 d paths acc st = (Ok acc', st') ->
    Forall (fun ed : N * bytes => (fst ed <= 65535)%N) acc'.
  Proof.
    induction paths as [|p r IH]; intros acc st acc' st' Hacc H; cbn [load_parity] in H.
    - injection H as <- _. exact Hacc.
    - destruct (io_read p st) as [[b|e|q] st1]; try discriminate H.
      destruct (read_file_vol md5 (d_setid d) b) as [| |sid f] eqn:ERF.
      + discriminate H.
      + eapply IH; [exact Hacc|exact H].
      + lazymatch type of H with (if ?c then _ else _) = _ => destruct c end; [discriminate H|].
        lazymatch type of H with (if ?c then _ else _) = _ => destruct c end; [discriminate H|].
        eapply IH; [|exact H]. apply Forall_app. split; [|exact Hacc].
        apply read_file_vol_weight in ERF. exact (proj2 ERF).
  Qed.

  (* load_all, opened *)
  Lemma load_all_inv ix st ds st' : load_all md5 ix st = (Ok ds, st') ->
    exists st1 acc paths st3,
      new_decoder md5 ix st = (Ok (ds_dec ds), st1) /\
      load_parity md5 (ds_dec ds) paths [] st3 = (Ok acc, st') /\
      ds_parity ds = parity_array acc.
  Proof.
    intros H. unfold load_all in H.
    destruct (negb (str_eqb (ext ix) EXT_PAR2)); [discriminate H|].
    destruct (new_decoder md5 ix st) as [[d|e|q] st1] eqn:E1; try discriminate H.
    destruct (win_new (Z.of_N (d_slice d))) as [w|e|q]; try discriminate H.
    cbv zeta in H.
    lazymatch type of H with match ?lf with _ => _ end = _ => destruct lf as [[fis|e|q] st2] end; try discriminate H.
    destruct (io_list (strip_ext ix ++ [DOT]) (ext ix) st2) as [[paths|e|q] st3]; try discriminate H.
    destruct (load_parity md5 d paths [] st3) as [[acc|e|q] st4] eqn:E4; try discriminate H.
    injection H as <- <-. cbn [ds_dec ds_parity].
    exists st1, acc, paths, st3. repeat split; [exact E4].
  Qed.

  (* LS3: one shard slot per checksum pair of the recovery set, no more *)
  Theorem shard_table_size ix st ds st' : load_all md5 ix st = (Ok ds, st') ->
    map (fun fi => length (fi_shards fi)) (ds_fis ds) = map (fun info => length (di_pairs info)) (d_rec (ds_dec ds)) /\
    length (flat_map fi_shards (ds_fis ds)) = pairs_total (d_rec (ds_dec ds)).
  Proof.
    intros H. destruct (load_all_shape md5 _ _ _ _ H) as (_ & _ & _ & Hsh & _ & _).
    unfold shlen in Hsh. split; [exact Hsh|].
    rewrite flat_map_length_sum. unfold pairs_total. rewrite Hsh. reflexivity.
  Qed.

  (* hence the shard table against the bytes of the index file *)
  Theorem shard_table_bounded ix st ds st' : load_all md5 ix st = (Ok ds, st') ->
    exists b st0, io_read ix st = (Ok b, st0) /\
      (NoDup (map di_id (d_rec (ds_dec ds))) -> 20 * length (flat_map fi_shards (ds_fis ds)) <= length b) /\
      320 * length (flat_map fi_shards (ds_fis ds)) <= length b * length b /\
      16 * length (ds_fis ds) <= length b.
  Proof.
    intros H. destruct (shard_table_size _ _ _ _ H) as [Hm ->].
    destruct (load_all_inv _ _ _ _ H) as (st1 & acc & paths & st3 & END & _ & _).
    destruct (new_decoder_sizes md5 _ _ _ _ END) as (b & f & ER & _ & HB).
    exists b, st1. split; [exact ER|]. split; [|split].
    - intros Hnd. pose proof (decoder_rec_slices_bounded md5 _ _ _ _ _ _ END ER Hnd). lia.
    - pose proof (decoder_slices_quadratic md5 _ _ _ _ _ _ END ER) as HQ.
      unfold pairs_total in *. rewrite map_app, sum_app in HQ. lia.
    - apply (f_equal (@length nat)) in Hm. rewrite !map_length in Hm. rewrite Hm.
      rewrite app_length in HB. lia.
  Qed.

  (* and without any premise: the ids of the recovery set of a decoder are distinct *)
  Theorem shard_table_bounded_uncond ix st ds st' : load_all md5 ix st = (Ok ds, st') ->
    exists b st0, io_read ix st = (Ok b, st0) /\
      20 * length (flat_map fi_shards (ds_fis ds)) <= length b.
  Proof.
    intros H. destruct (shard_table_size _ _ _ _ H) as [_ ->].
    destruct (load_all_inv _ _ _ _ H) as (st1 & acc & paths & st3 & END & _ & _).
    destruct (new_decoder_sizes md5 _ _ _ _ END) as (b & f & ER & _ & _).
    exists b, st1. split; [exact ER|].
    exact (decoder_rec_slices_bounded_uncond md5 _ _ _ _ _ _ END ER).
  Qed.

  (* LS4: the parity table is as long as the highest exponent present plus one (at most 65536 slots - NOT the number
     of blocks present: the recorded known finding), and every block in it has the slice size *)
  Theorem parity_table_bounded ix st ds st' : load_all md5 ix st = (Ok ds, st') ->
    (N.of_nat (length (ds_parity ds)) <= 65536)%N /\
    forall b, In (Some b) (ds_parity ds) -> N.of_nat (length b) = d_slice (ds_dec ds).
  Proof.
    intros H. split.
    - destruct (load_all_inv _ _ _ _ H) as (st1 & acc & paths & st3 & _ & ELP & ->).
      apply load_parity_exps in ELP; [|constructor].
      pose proof (parity_array_length acc 65535%N ELP) as HL. lia.
    - destruct (load_all_shape md5 _ _ _ _ H) as (_ & _ & _ & _ & _ & Hp).
      intros b Hin. rewrite Forall_forall in Hp. specialize (Hp (Some b) Hin). cbn [oplen] in Hp. lia.
  Qed.
End LoadAllSizes.

(** * LS5. PAR1: the entries of a volume against its bytes; the tables of p1_load *)
From Gopar Require Import Proofs.Par1Clean.
Open Scope nat_scope.

Section Par1Sizes.
  Variable md5 : bytes -> bytes.

  (* an entry takes its 56-byte header and a non-empty name of even length *)
  Lemma read_entry_size buf e rest : read_entry buf = Ok (e, rest) -> length rest + 58 <= length buf.
  Proof.
    unfold read_entry. intros H.
    destruct (Nat.ltb (length buf) 56) eqn:E56; [discriminate H|]. apply Nat.ltb_ge in E56.
    cbv zeta in H.
    set (r0 := skipn 56 buf) in *. assert (Hr0 : length r0 = length buf - 56) by apply skipn_length. clearbody r0.
    lazymatch type of H with (if (?x =? 0)%N || _ then _ else _) = _ => set (fnb := x) in *; clearbody fnb end.
    destruct (N.eqb_spec fnb 0) as [E0|E0]; cbn [orb] in H; [discriminate H|].
    destruct (N.eqb_spec (fnb mod 2) 0) as [Em|Em]; cbn [negb] in H; [|discriminate H].
    destruct (N.ltb_spec (N.of_nat (length r0)) fnb) as [Hlt|Hge]; [discriminate H|].
    injection H as _ <-. rewrite skipn_length. lia.
  Qed.

  Lemma read_entries_size : forall n buf es rest, read_entries n buf = Ok (es, rest) ->
    length es = n /\ length rest + 58 * n <= length buf.
  Proof.
    induction n as [|n IH]; intros buf es rest H; cbn [read_entries] in H.
    - injection H as <- <-. cbn [length]. lia.
    - destruct (read_entry buf) as [[e r1]|x|q] eqn:E1; cbn [obind fst snd] in H; try discriminate H.
      destruct (read_entries n r1) as [[es' r2]|x|q] eqn:E2; cbn [obind fst snd] in H; try discriminate H.
      injection H as <- <-. apply read_entry_size in E1. destruct (IH _ _ _ E2) as [I1 I2].
      cbn [length]. lia.
  Qed.

  (* the fix cc8e982: the declared count is checked against the input before anything is built; and what is built
     then is paid for, 58 bytes an entry *)
  Theorem read_volume_entries_bounded b v : read_volume md5 b = Ok v ->
    N.of_nat (length (v_entries v)) = v_count v /\
    (v_count v <= N.of_nat (length b - 96) / 56)%N /\
    56 * length (v_entries v) + 96 <= length b /\
    58 * length (v_entries v) + length (v_data v) + 96 <= length b.
  Proof.
    unfold read_volume. intros H.
    destruct (Nat.ltb (length b) 96) eqn:E96; [discriminate H|]. apply Nat.ltb_ge in E96.
    lazymatch type of H with (if ?c then _ else _) = _ => destruct c end; [discriminate H|].
    lazymatch type of H with (if ?c then _ else _) = _ => destruct c end; [discriminate H|].
    lazymatch type of H with (if ?c then _ else _) = _ => destruct c end; [discriminate H|].
    lazymatch type of H with (if ?c then _ else _) = _ => destruct c end; [discriminate H|].
    cbv zeta in H.
    set (r0 := skipn 96 b) in *. assert (Hr0 : length r0 = length b - 96) by apply skipn_length. clearbody r0.
    lazymatch type of H with (if (_ <? ?c)%N then _ else _) = _ => set (count := c) in *; clearbody count end.
    destruct (N.ltb_spec (N.of_nat (length b - 96) / 56) count) as [Hlt|Hge]; [discriminate H|].
    destruct (read_entries (N.to_nat count) r0) as [[es rest]|x|q] eqn:ERE; cbn [obind fst snd] in H; try discriminate H.
    injection H as <-. cbn [v_entries v_count v_data].
    apply read_entries_size in ERE. destruct ERE as [EL ES].
    pose proof (N.mul_div_le (N.of_nat (length b - 96)) 56 ltac:(lia)) as HD.
    repeat split; lia.
  Qed.

  (* p1_load: the saved entries are entries of the index volume, at most 99 parity slots, each of the one size;
     the index volume itself is paid for by the bytes of the index file *)
  Theorem p1_load_sizes ix st s st' : p1_load md5 ix st = (Ok s, st') ->
    length (s_saved s) <= length (v_entries (s_vol s)) /\
    length (s_data s) = length (s_saved s) /\
    length (s_parity s) <= 99 /\
    (forall x, In (Some x) (s_parity s) -> length x = s_size s) /\
    exists b st1, io_read ix st = (Ok b, st1) /\ read_volume md5 b = Ok (s_vol s) /\
                  58 * length (v_entries (s_vol s)) + 96 <= length b.
  Proof.
    intros HL. destruct (p1_load_inv md5 _ _ _ _ HL) as (b & sa & v & ds & sb & slots & size &
                                                         _ & ER & EV & _ & ELD & _ & EC & ELV & ->).
    cbn [s_saved s_vol s_parity s_size s_data].
    pose proof (load_vols_inv md5 _ _ _ _ _ _ _ _ _ _ ELV) as HI.
    destruct HI as [Hinv Hlen]; [intros x []|]. cbn [length Nat.add] in Hlen.
    split.
    { generalize (v_entries v). intros l. induction l as [|e l IHl]; cbn [filter length]; [lia|].
      destruct (saved e); cbn [length]; lia. }
    split; [|split; [|split]].
    - clear -ELD. revert sa ds sb ELD.
      induction (filter saved (v_entries v)) as [|e es IH]; intros sa ds sb H; cbn [load_data] in H.
      + injection H as <- _. cbn [length]. lia.
      + destruct (entry_path ix e) as [p|x|q]; try discriminate H.
        destruct (io_read p sa) as [[data|x|q] s1]; try discriminate H.
        * destruct (load_data md5 ix es s1) as [[ds'|x|q] s2] eqn:E; try discriminate H.
          injection H as <- _. specialize (IH _ _ _ E). cbn [length]. lia.
        * destruct x; try discriminate H.
          destruct (load_data md5 ix es s1) as [[ds'|x|q] s2] eqn:E; try discriminate H.
          injection H as <- _. specialize (IH _ _ _ E). cbn [length]. lia.
    - rewrite firstn_length. lia.
    - intros x Hin. apply (Hinv x). eapply in_firstn_. exact Hin.
    - exists b, sa. split; [exact ER|]. split; [exact EV|].
      apply read_volume_entries_bounded in EV. lia.
  Qed.
End Par1Sizes.

Print Assumptions read_file_sizes.
Print Assumptions read_file_vol_sizes.
Print Assumptions read_file_weight.
Print Assumptions read_file_counts.
Print Assumptions decoder_pairs_cover.
Print Assumptions decoder_slices_per_file.
Print Assumptions decoder_slices_bounded.
Print Assumptions decoder_rec_slices_bounded.
Print Assumptions decoder_rec_slices_bounded_uncond.
Print Assumptions decoder_rec_slices_bounded_uncond_full.
Print Assumptions decoder_nonrec_slices_bounded_uncond.
Print Assumptions decoder_slices_linear_uncond.
Print Assumptions decoder_slices_quadratic.
Print Assumptions shard_table_size.
Print Assumptions shard_table_bounded.
Print Assumptions shard_table_bounded_uncond.
Print Assumptions parity_table_bounded.
Print Assumptions read_volume_entries_bounded.
Print Assumptions p1_load_sizes.

(** * Instances (a stand-in digest runs the model inside Coq) *)
From Coq Require Import String.
From Coq Require Import List.
From Gopar Require Import Proofs.Par2CreatePaths.   (* bs, toy_md5 *)
Open Scope nat_scope.

Module LSExample.
  Definition ix := bs "/w/o.par2".
  Definition h0 : bytes := zeros 16.
  Definition fid (len : N) : bytes := compute_file_id toy_md5 h0 len (bs "a").
  Definition fdesc_of (len : N) : fdesc := {| fd_hash := h0; fd_hash16k := h0; fd_len := len; fd_name := bs "a" |}.

  (* an index written by the model's own writer: slice size 4, one file "a" of declared length len, k checksum pairs *)
  Definition index (len : N) (k : nat) : bytes :=
    match write_file toy_md5 CLIENT_ID {| mp_slice := 4; mp_rec := [fid len]; mp_nonrec := [] |}
                     [(fid len, fdesc_of len)] [(fid len, repeat (h0, 0%N) k)] [] with
    | Ok sb => snd sb
    | _ => []
    end.

  (* the situation the bounds exclude: a well-checksummed index that declares a 1 TiB file and holds ONE checksum
     pair is rejected by new_decoder (make_infos: the checksum list does not cover the declared length);
     the same index with the declared length 4 (one slice) is accepted *)
  Example hostile_length_rejected :
    List.length (index (2 ^ 40) 1) = 388 /\
    fst (new_decoder toy_md5 ix (io_init [(ix, index (2 ^ 40) 1)] [])) = Err EMalformed /\
    List.length (index 4 1) = 388 /\
    match fst (new_decoder toy_md5 ix (io_init [(ix, index 4 1)] [])) with
    | Ok d => map (fun info => (di_len info, List.length (di_pairs info))) (d_rec d) = [(4%N, 1)]
    | _ => False
    end.
  Proof. vm_compute. repeat split; reflexivity. Qed.

  (* a main packet that lists ONE id n times (n = k = 8, assembled packet by packet; the k checksum pairs of that id
     are in the index once).  While readMainPacket only asked the ids to be sorted, the decoder built n infos of k
     pairs each and load_all n * k shard slots from it; now read_main rejects the packet (ids_ok), so new_decoder
     and load_all fail with EMalformed.  The same index with the id listed once is accepted *)
  Definition dup_index (n k : nat) : bytes :=
    let len := N.of_nat (4 * k) in
    let mb := le_encode 8 4 ++ le_encode 4 (N.of_nat n) ++ concat (repeat (fid len) n) in
    let sid := toy_md5 mb in
    match write_fdesc toy_md5 (fid len) (fdesc_of len), write_ifsc (fid len) (repeat (h0, 0%N) k) with
    | Ok db, Ok ib =>
        write_packet toy_md5 sid TYPE_CREATOR (pad4 CLIENT_ID) ++ write_packet toy_md5 sid TYPE_MAIN mb
        ++ write_packet toy_md5 sid TYPE_FDESC (pad4 db) ++ write_packet toy_md5 sid TYPE_IFSC ib
    | _, _ => []
    end.

  Example dup_ids_rejected :
    List.length (dup_index 8 8) = 640 /\
    ids_sorted (repeat (fid 32) 8) = true /\ ids_ok (repeat (fid 32) 8) = false /\
    fst (new_decoder toy_md5 ix (io_init [(ix, dup_index 8 8)] [])) = Err EMalformed /\
    fst (load_all toy_md5 ix (io_init [(ix, dup_index 8 8)] [])) = Err EMalformed /\
    match load_all toy_md5 ix (io_init [(ix, dup_index 1 8)] []) with
    | (Ok ds, _) =>
        List.length (d_rec (ds_dec ds)) = 1 /\
        pairs_total (d_rec (ds_dec ds)) = 8 /\
        List.length (flat_map fi_shards (ds_fis ds)) = 8 /\
        Nat.leb (20 * pairs_total (d_rec (ds_dec ds))) (List.length (dup_index 1 8)) = true
    | _ => False
    end.
  Proof. vm_compute. repeat split; reflexivity. Qed.
End LSExample.
