(* C07, availability half: the Cauchy coder never reports a singular matrix.

   1. Over any field given as in LinAlg.v (carrier {x : N | x < B}, addition = xor,
      multiplication/inverse given as functions with the field laws), a Cauchy system
        forall x in xs,  sum_j w_j / (x + y_j) = 0
      with pairwise distinct xs, pairwise distinct ys, x <> y, |xs| = |ys| = |w|
      has only the solution w = 0 (elimination step + induction on the size), hence
      every generalised Cauchy matrix  r_i c_j / (x_i + y_j)  is injective.
   2. Every square minor of gopar's cauchy_pm is such a matrix, hence injective.
   3. Gauss-Jordan (RowReduce16) cannot fail on an injective matrix, hence
      ReconstructData with the Cauchy coder succeeds whenever enough parity shards
      are available. *)
From Coq Require Import Lia Ring Field Eqdep_dec.
From Gopar Require Import Model.Base Model.GF16 Model.Matrix Model.RS16
     Proofs.GF16Facts Proofs.GF16Tables Proofs.LinAlg Proofs.Matrix16 Proofs.RS16Facts.
Open Scope N_scope.
Set Default Timeout 120.
Set Warnings "-abstract-large-number".

(** * xor and list helpers *)

Lemma lxor_swap4 a b c d : N.lxor (N.lxor a b) (N.lxor c d) = N.lxor (N.lxor a c) (N.lxor b d).
Proof.
  rewrite !N.lxor_assoc. f_equal. rewrite <- !N.lxor_assoc. f_equal. apply N.lxor_comm.
Qed.
Lemma lxor_cancel_mid a b : N.lxor (N.lxor a b) a = b.
Proof. rewrite (N.lxor_comm a b), N.lxor_assoc, N.lxor_nilpotent. apply N.lxor_0_r. Qed.
Lemma lxor_neq_0 a b : a <> b -> N.lxor a b <> 0.
Proof. intros H Z. apply H. apply N.lxor_eq. exact Z. Qed.

Lemma map_const_zeros {A} (f : A -> N) (l : list A) :
  (forall x, In x l -> f x = 0) -> map f l = zeros (length l).
Proof.
  induction l as [|x l IH]; intros H; [reflexivity|].
  cbn [map length]. change (zeros (S (length l))) with (0 :: zeros (length l)).
  f_equal; [apply H; left; reflexivity|apply IH; intros y Hy; apply H; right; exact Hy].
Qed.
Lemma map_zeros_inv {A} (f : A -> N) (l : list A) n :
  map f l = zeros n -> forall x, In x l -> f x = 0.
Proof.
  intros E x Hx. assert (Hin : In (f x) (map f l)) by (apply in_map; exact Hx).
  rewrite E in Hin. unfold zeros in Hin. apply repeat_spec in Hin. exact Hin.
Qed.
Lemma nth_zeros' n t : nth t (zeros n) 0 = 0.
Proof. unfold zeros. revert t. induction n as [|n IH]; intros [|t]; cbn; try reflexivity. apply IH. Qed.

(** * the field, packaged *)

Record field_hyps (B : N) (mul : N -> N -> N) (inv : N -> N) : Prop := {
  fh_B1 : 1 < B;
  fh_xor : forall a b, a < B -> b < B -> N.lxor a b < B;
  fh_mulc : forall a b, a < B -> b < B -> mul a b < B;
  fh_comm : forall a b, a < B -> b < B -> mul a b = mul b a;
  fh_assoc : forall a b c, a < B -> b < B -> c < B -> mul (mul a b) c = mul a (mul b c);
  fh_dist : forall a b c, a < B -> b < B -> c < B -> mul a (N.lxor b c) = N.lxor (mul a b) (mul a c);
  fh_1l : forall a, a < B -> mul 1 a = a;
  fh_invc : forall a, 0 < a < B -> inv a < B;
  fh_inv : forall a, 0 < a < B -> mul a (inv a) = 1 }.

Section Field.
  Variable B : N.
  Variable mul : N -> N -> N.
  Variable inv : N -> N.
  Hypothesis FH : field_hyps B mul inv.

  Notation dot := (Matrix.dot mul).
  Notation wfe := (wfe B).
  Notation wfv := (wfv B).

  Lemma F_B1 : 1 < B. Proof. apply FH. Qed.
  Lemma F_B0 : 0 < B. Proof. pose proof F_B1. lia. Qed.
  Lemma F_mul_0_r a : a < B -> mul a 0 = 0.
  Proof.
    intros Ha. pose proof (fh_dist _ _ _ FH a 0 0 Ha F_B0 F_B0) as H. rewrite N.lxor_0_l in H.
    rewrite H. apply N.lxor_nilpotent.
  Qed.
  Lemma F_mul_0_l a : a < B -> mul 0 a = 0.
  Proof. intros Ha. rewrite (fh_comm _ _ _ FH) by (try exact Ha; apply F_B0). apply F_mul_0_r. exact Ha. Qed.
  Lemma F_mul_1_r a : a < B -> mul a 1 = a.
  Proof. intros Ha. rewrite (fh_comm _ _ _ FH) by (try exact Ha; apply F_B1). apply (fh_1l _ _ _ FH). exact Ha. Qed.

  (* inverse made total: 0 at 0 *)
  Definition invN (a : N) : N := if a =? 0 then 0 else inv a.
  Lemma invN_nz a : a <> 0 -> invN a = inv a.
  Proof. intros H. unfold invN. destruct (N.eqb_spec a 0); [contradiction|reflexivity]. Qed.
  Lemma invN_lt a : a < B -> invN a < B.
  Proof.
    intros Ha. unfold invN. destruct (N.eqb_spec a 0); [apply F_B0|]. apply (fh_invc _ _ _ FH). lia.
  Qed.

  (** ** the carrier as a type, with the ring/field tactics *)
  Definition F : Type := { x : N | x < B }.
  Definition val (a : F) : N := proj1_sig a.
  Lemma val_lt (a : F) : val a < B. Proof. exact (proj2_sig a). Qed.
  Lemma F_eq (a b : F) : val a = val b -> a = b.
  Proof.
    destruct a as [a Ha], b as [b Hb]. cbn. intros ->. f_equal.
    apply UIP_dec. decide equality.
  Qed.
  Definition F0 : F := exist _ 0 F_B0.
  Definition F1 : F := exist _ 1 F_B1.
  Definition Fadd (a b : F) : F := exist _ (N.lxor (val a) (val b)) (fh_xor _ _ _ FH _ _ (val_lt a) (val_lt b)).
  Definition Fmul (a b : F) : F := exist _ (mul (val a) (val b)) (fh_mulc _ _ _ FH _ _ (val_lt a) (val_lt b)).
  Definition Finv (a : F) : F := exist _ (invN (val a)) (invN_lt _ (val_lt a)).
  Definition Fsub (a b : F) : F := Fadd a b.
  Definition Fopp (a : F) : F := a.
  Definition Fdiv (a b : F) : F := Fmul a (Finv b).

  Lemma F_ring : ring_theory F0 F1 Fadd Fmul Fsub Fopp eq.
  Proof.
    constructor; intros; apply F_eq; cbn.
    - apply N.lxor_0_l.
    - apply N.lxor_comm.
    - symmetry. apply N.lxor_assoc.
    - apply (fh_1l _ _ _ FH). apply val_lt.
    - apply (fh_comm _ _ _ FH); apply val_lt.
    - symmetry. apply (fh_assoc _ _ _ FH); apply val_lt.
    - rewrite (fh_comm _ _ _ FH) by (try apply (fh_xor _ _ _ FH); apply val_lt).
      rewrite (fh_dist _ _ _ FH) by apply val_lt.
      rewrite (fh_comm _ _ _ FH (val z) (val x)), (fh_comm _ _ _ FH (val z) (val y)) by apply val_lt. reflexivity.
    - reflexivity.
    - apply N.lxor_nilpotent.
  Qed.
  Lemma F_field : field_theory F0 F1 Fadd Fmul Fsub Fopp Fdiv Finv eq.
  Proof.
    constructor.
    - exact F_ring.
    - intros E. apply (f_equal val) in E. cbn in E. discriminate.
    - reflexivity.
    - intros p Hp. apply F_eq. cbn.
      assert (Hv : val p <> 0).
      { intros Z. apply Hp. apply F_eq. exact Z. }
      rewrite invN_nz by exact Hv. rewrite (fh_comm _ _ _ FH) by (try apply val_lt; apply (fh_invc _ _ _ FH); pose proof (val_lt p); lia).
      apply (fh_inv _ _ _ FH). pose proof (val_lt p). lia.
  Qed.
  Add Field Ffield : F_field.

  Lemma F_nz (a : N) (Ha : a < B) : a <> 0 -> exist _ a Ha <> F0.
  Proof. intros H E. apply H. apply (f_equal val) in E. exact E. Qed.

  (** ** the scalar identities, proved in F and read back in N *)

  (* the elimination step:  with k = (x+x0)/(x+y0), s = (y+y0)/(x0+y), l = (x0+y0)/(x+y0):
       k * (1/(x+y) * s) = 1/(x+y) + l * 1/(x0+y) *)
  Lemma cauchy_id x x0 y y0 : x < B -> x0 < B -> y < B -> y0 < B ->
    N.lxor x y <> 0 -> N.lxor x y0 <> 0 -> N.lxor x0 y <> 0 ->
    mul (mul (N.lxor x x0) (inv (N.lxor x y0)))
        (mul (inv (N.lxor x y)) (mul (N.lxor y y0) (inv (N.lxor x0 y))))
    = N.lxor (inv (N.lxor x y)) (mul (mul (N.lxor x0 y0) (inv (N.lxor x y0))) (inv (N.lxor x0 y))).
  Proof.
    intros Hx Hx0 Hy Hy0 N1 N2 N3.
    rewrite <- !(invN_nz _ N1), <- !(invN_nz _ N2), <- !(invN_nz _ N3).
    set (X := exist _ x Hx : F). set (X0 := exist _ x0 Hx0 : F).
    set (Y := exist _ y Hy : F). set (Y0 := exist _ y0 Hy0 : F).
    assert (E : Fmul (Fmul (Fsub X X0) (Finv (Fadd X Y0)))
                     (Fmul (Finv (Fadd X Y)) (Fmul (Fsub Y Y0) (Finv (Fadd X0 Y))))
                = Fsub (Finv (Fadd X Y)) (Fmul (Fmul (Fadd X0 Y0) (Finv (Fadd X Y0))) (Finv (Fadd X0 Y)))).
    { field. repeat split; intros Z; apply (f_equal val) in Z; cbn in Z; contradiction. }
    exact (f_equal val E).
  Qed.

  (* accumulating the step over a sum *)
  Lemma step_alg k u s w u0 l P Q R :
    k < B -> u < B -> s < B -> w < B -> u0 < B -> l < B -> P < B -> Q < B -> R < B ->
    mul k (mul u s) = N.lxor u (mul l u0) ->
    mul k P = N.lxor Q (mul l R) ->
    mul k (N.lxor (mul u (mul s w)) P) = N.lxor (N.lxor (mul u w) Q) (mul l (N.lxor (mul u0 w) R)).
  Proof.
    intros Hk Hu Hs Hw Hu0 Hl HP HQ HR H1 H2.
    set (k' := exist _ k Hk : F). set (u' := exist _ u Hu : F). set (s' := exist _ s Hs : F).
    set (w' := exist _ w Hw : F). set (u0' := exist _ u0 Hu0 : F). set (l' := exist _ l Hl : F).
    set (P' := exist _ P HP : F). set (Q' := exist _ Q HQ : F). set (R' := exist _ R HR : F).
    assert (E1 : Fmul k' (Fmul u' s') = Fadd u' (Fmul l' u0')) by (apply F_eq; exact H1).
    assert (E2 : Fmul k' P' = Fadd Q' (Fmul l' R')) by (apply F_eq; exact H2).
    assert (E : Fmul k' (Fadd (Fmul u' (Fmul s' w')) P')
                = Fadd (Fadd (Fmul u' w') Q') (Fmul l' (Fadd (Fmul u0' w') R'))).
    { transitivity (Fadd (Fmul (Fmul k' (Fmul u' s')) w') (Fmul k' P')); [ring|].
      rewrite E1, E2. ring. }
    exact (f_equal val E).
  Qed.

  (* p w + (d p) (w / d) = 0 *)
  Lemma cancel_alg p d w : p < B -> d < B -> w < B -> d <> 0 ->
    N.lxor (mul p w) (mul (mul d p) (mul (inv d) w)) = 0.
  Proof.
    intros Hp Hd Hw Nd. rewrite <- (invN_nz _ Nd).
    set (p' := exist _ p Hp : F). set (d' := exist _ d Hd : F). set (w' := exist _ w Hw : F).
    assert (E : Fsub (Fmul p' w') (Fmul (Fmul d' p') (Fmul (Finv d') w')) = F0).
    { field. apply F_nz. exact Nd. }
    exact (f_equal val E).
  Qed.

  (* ((r c) u) v + r P = r (u (c v) + P) *)
  Lemma gc_alg r c u v P : r < B -> c < B -> u < B -> v < B -> P < B ->
    N.lxor (mul (mul (mul r c) u) v) (mul r P) = mul r (N.lxor (mul u (mul c v)) P).
  Proof.
    intros Hr Hc Hu Hv HP.
    set (r' := exist _ r Hr : F). set (c' := exist _ c Hc : F). set (u' := exist _ u Hu : F).
    set (v' := exist _ v Hv : F). set (P' := exist _ P HP : F).
    assert (E : Fadd (Fmul (Fmul (Fmul r' c') u') v') (Fmul r' P') = Fmul r' (Fadd (Fmul u' (Fmul c' v')) P')) by ring.
    exact (f_equal val E).
  Qed.

  (* a x = a y + a (x + y) *)
  Lemma upd_alg a x y : a < B -> x < B -> y < B ->
    mul a x = N.lxor (mul a y) (mul a (N.lxor x y)).
  Proof.
    intros Ha Hx Hy. rewrite (fh_dist _ _ _ FH) by assumption.
    rewrite (N.lxor_comm (mul a x)), <- N.lxor_assoc, N.lxor_nilpotent, N.lxor_0_l. reflexivity.
  Qed.

  (** ** no zero divisors *)
  Lemma F_inv_nz a : 0 < a < B -> inv a <> 0.
  Proof.
    intros Ha Z. pose proof (fh_inv _ _ _ FH a Ha) as E. rewrite Z, F_mul_0_r in E by lia. discriminate.
  Qed.
  Lemma F_mul_cancel k s : k < B -> s < B -> k <> 0 -> mul k s = 0 -> s = 0.
  Proof.
    intros Hk Hs Nk E.
    assert (Hk' : 0 < k < B) by lia.
    pose proof (fh_invc _ _ _ FH k Hk') as Hi.
    rewrite <- (fh_1l _ _ _ FH s Hs), <- (fh_inv _ _ _ FH k Hk').
    rewrite (fh_comm _ _ _ FH k (inv k)) by assumption.
    rewrite (fh_assoc _ _ _ FH) by assumption. rewrite E. apply F_mul_0_r. exact Hi.
  Qed.
  Lemma F_mul_nz a b : a < B -> b < B -> a <> 0 -> b <> 0 -> mul a b <> 0.
  Proof. intros Ha Hb Na Nb E. apply Nb. apply (F_mul_cancel a b); assumption. Qed.

  (** ** dot products *)
  Lemma dot_lt : forall a b, Forall wfe a -> Forall wfe b -> dot a b < B.
  Proof.
    induction a as [|x a IH]; intros [|y b] Ha Hb; cbn [Matrix.dot]; try apply F_B0.
    inversion Ha; subst. inversion Hb; subst.
    apply (fh_xor _ _ _ FH); [apply (fh_mulc _ _ _ FH); assumption|apply IH; assumption].
  Qed.
  Lemma dot_zeros_r : forall a n, Forall wfe a -> dot a (zeros n) = 0.
  Proof.
    induction a as [|x a IH]; intros [|n] Ha; try reflexivity.
    inversion Ha; subst. change (zeros (S n)) with (0 :: zeros n). cbn [Matrix.dot].
    rewrite F_mul_0_r by assumption. rewrite IH by assumption. reflexivity.
  Qed.
  Lemma dot_upd : forall r v t x, Forall wfe r -> Forall wfe v -> wfe x -> length r = length v ->
    (t < length v)%nat ->
    dot r (upd t x v) = N.lxor (dot r v) (mul (nth t r 0) (N.lxor x (nth t v 0))).
  Proof.
    induction r as [|a r IH]; intros [|y v] t x Hr Hv Hx Hl Ht; cbn [length] in *; try lia.
    inversion Hr; subst. inversion Hv; subst.
    destruct t as [|t]; cbn [upd Matrix.dot nth].
    - rewrite (upd_alg a x y) by assumption.
      rewrite !N.lxor_assoc. f_equal. apply N.lxor_comm.
    - rewrite (IH v t x) by (try assumption; lia). rewrite N.lxor_assoc. reflexivity.
  Qed.

  (** ** pointwise products *)
  Fixpoint vmul (a w : list N) : list N :=
    match a, w with x :: a', y :: w' => mul x y :: vmul a' w' | _, _ => [] end.

  Lemma vmul_wf : forall n a w, wfv n a -> wfv n w -> wfv n (vmul a w).
  Proof.
    induction n as [|n IH]; intros a w Ha Hw.
    - rewrite (wfv_0 B a Ha). apply wfv_nil.
    - destruct a as [|x a]; [destruct Ha; discriminate|]. destruct w as [|y w]; [destruct Hw; discriminate|].
      apply (wfv_inv B F_B1) in Ha. apply (wfv_inv B F_B1) in Hw. destruct Ha as [Hx Ha]. destruct Hw as [Hy Hw].
      cbn [vmul]. apply (wfv_cons B F_B1); [apply (fh_mulc _ _ _ FH); assumption|apply IH; assumption].
  Qed.
  Lemma vmul_zeros_inv : forall n a w, wfv n a -> wfv n w -> Forall (fun x => x <> 0) a ->
    vmul a w = zeros n -> w = zeros n.
  Proof.
    induction n as [|n IH]; intros a w Ha Hw Nz E.
    - rewrite (wfv_0 B w Hw). reflexivity.
    - destruct a as [|x a]; [destruct Ha; discriminate|]. destruct w as [|y w]; [destruct Hw; discriminate|].
      apply (wfv_inv B F_B1) in Ha. apply (wfv_inv B F_B1) in Hw. destruct Ha as [Hx Ha]. destruct Hw as [Hy Hw].
      inversion Nz; subst. change (zeros (S n)) with (0 :: zeros n) in *. cbn [vmul] in E.
      injection E as E0 E'. f_equal.
      + apply (F_mul_cancel x y); assumption.
      + apply (IH a w); assumption.
  Qed.

  (** ** the Cauchy system *)
  Definition crow (ys : list N) (x : N) : list N := map (fun y => inv (N.lxor x y)) ys.
  Definition sc (x0 y0 y : N) : N := mul (N.lxor y y0) (inv (N.lxor x0 y)).

  Lemma crow_wf ys x : x < B -> Forall wfe ys -> (forall y, In y ys -> x <> y) -> Forall wfe (crow ys x).
  Proof.
    intros Hx Hys Hne. apply Forall_forall. intros u Hu. unfold crow in Hu. apply in_map_iff in Hu.
    destruct Hu as [y [<- Hy]]. apply (fh_invc _ _ _ FH).
    assert (Hyw : y < B) by (eapply Forall_forall in Hys; [exact Hys|exact Hy]).
    pose proof (fh_xor _ _ _ FH x y Hx Hyw). pose proof (lxor_neq_0 x y (Hne y Hy)). lia.
  Qed.

  Lemma vmul_Forall : forall a w, Forall wfe a -> Forall wfe w -> Forall wfe (vmul a w).
  Proof.
    induction a as [|x a IH]; intros [|y w] Ha Hw; cbn [vmul]; try constructor.
    - inversion Ha; subst. inversion Hw; subst. apply (fh_mulc _ _ _ FH); assumption.
    - inversion Ha; subst. inversion Hw; subst. apply IH; assumption.
  Qed.
  Lemma sc_wf x0 y0 y : x0 < B -> y0 < B -> y < B -> x0 <> y -> sc x0 y0 y < B.
  Proof.
    intros Hx0 Hy0 Hy Nq. unfold sc. apply (fh_mulc _ _ _ FH); [apply (fh_xor _ _ _ FH); assumption|].
    apply (fh_invc _ _ _ FH). pose proof (fh_xor _ _ _ FH x0 y Hx0 Hy). pose proof (lxor_neq_0 x0 y Nq). lia.
  Qed.

  Lemma sum_step x x0 y0 : x < B -> x0 < B -> y0 < B -> N.lxor x y0 <> 0 ->
    forall ys w, Forall wfe ys -> Forall wfe w ->
    (forall y, In y ys -> x <> y /\ x0 <> y) ->
    mul (mul (N.lxor x x0) (inv (N.lxor x y0))) (dot (crow ys x) (vmul (map (sc x0 y0) ys) w))
    = N.lxor (dot (crow ys x) w)
             (mul (mul (N.lxor x0 y0) (inv (N.lxor x y0))) (dot (crow ys x0) w)).
  Proof.
    intros Hx Hx0 Hy0 N2.
    assert (Hi2 : inv (N.lxor x y0) < B).
    { apply (fh_invc _ _ _ FH). pose proof (fh_xor _ _ _ FH x y0 Hx Hy0). lia. }
    set (k := mul (N.lxor x x0) (inv (N.lxor x y0))).
    set (l := mul (N.lxor x0 y0) (inv (N.lxor x y0))).
    assert (Hk : k < B) by (apply (fh_mulc _ _ _ FH); [apply (fh_xor _ _ _ FH)|]; assumption).
    assert (Hl : l < B) by (apply (fh_mulc _ _ _ FH); [apply (fh_xor _ _ _ FH)|]; assumption).
    induction ys as [|y ys IH]; intros w Hys Hw Hne.
    - cbn. rewrite !F_mul_0_r by assumption. reflexivity.
    - destruct w as [|wj w].
      + cbn. rewrite !F_mul_0_r by assumption. reflexivity.
      + inversion Hys; subst. inversion Hw; subst.
        destruct (Hne y (or_introl eq_refl)) as [Nxy Nx0y].
        assert (Hne' : forall y', In y' ys -> x <> y' /\ x0 <> y') by (intros y' Hy'; apply Hne; right; exact Hy').
        assert (W1 : Forall wfe (crow ys x)) by (apply crow_wf; [assumption|assumption|intros y' Hy'; apply Hne'; exact Hy']).
        assert (W0 : Forall wfe (crow ys x0)) by (apply crow_wf; [assumption|assumption|intros y' Hy'; apply Hne'; exact Hy']).
        assert (N1 : N.lxor x y <> 0) by (apply lxor_neq_0; exact Nxy).
        assert (N3 : N.lxor x0 y <> 0) by (apply lxor_neq_0; exact Nx0y).
        assert (Hu : inv (N.lxor x y) < B).
        { apply (fh_invc _ _ _ FH). pose proof (fh_xor _ _ _ FH x y Hx H1). lia. }
        assert (Hu0 : inv (N.lxor x0 y) < B).
        { apply (fh_invc _ _ _ FH). pose proof (fh_xor _ _ _ FH x0 y Hx0 H1). lia. }
        assert (Hs : sc x0 y0 y < B).
        { unfold sc. apply (fh_mulc _ _ _ FH); [apply (fh_xor _ _ _ FH)|]; assumption. }
        assert (Wsc : Forall wfe (vmul (map (sc x0 y0) ys) w)).
        { apply vmul_Forall; [|assumption]. apply Forall_forall. intros c Hc. apply in_map_iff in Hc.
          destruct Hc as [y' [<- Hy']]. apply sc_wf; try assumption.
          - eapply Forall_forall in H2; [exact H2|exact Hy'].
          - apply Hne'. exact Hy'. }
        cbn [crow map vmul Matrix.dot]. fold (crow ys x). fold (crow ys x0).
        apply step_alg; try assumption; try (apply dot_lt; assumption).
        * unfold k, l, sc. apply cauchy_id; assumption.
        * apply IH; assumption.
  Qed.

  Theorem cauchy_kernel : forall n xs ys w,
    length xs = n -> length ys = n -> wfv n w -> Forall wfe xs -> Forall wfe ys ->
    NoDup xs -> NoDup ys -> (forall x y, In x xs -> In y ys -> x <> y) ->
    (forall x, In x xs -> dot (crow ys x) w = 0) -> w = zeros n.
  Proof.
    induction n as [|n IH]; intros xs ys w Lx Ly Hw Hxs Hys Dx Dy Hne Hrows.
    - rewrite (wfv_0 B w Hw). reflexivity.
    - destruct xs as [|x0 xs]; [discriminate|]. destruct ys as [|y0 ys]; [discriminate|].
      destruct w as [|w0 w]; [destruct Hw; discriminate|].
      apply (wfv_inv B F_B1) in Hw. destruct Hw as [Hw0 Hw].
      inversion Hxs as [|? ? Hx0 Hxs']; subst. inversion Hys as [|? ? Hy0 Hys']; subst.
      inversion Dx as [|? ? Nx0 Dx']; subst. inversion Dy as [|? ? Ny0 Dy']; subst.
      cbn [length] in Lx, Ly.
      assert (Hne' : forall x y, In x xs -> In y ys -> x <> y) by (intros; apply Hne; right; assumption).
      assert (N00 : N.lxor x0 y0 <> 0) by (apply lxor_neq_0; apply Hne; left; reflexivity).
      assert (H00 : N.lxor x0 y0 < B) by (apply (fh_xor _ _ _ FH); assumption).
      assert (Hi00 : inv (N.lxor x0 y0) < B) by (apply (fh_invc _ _ _ FH); lia).
      assert (W0 : Forall wfe (crow ys x0)).
      { apply crow_wf; [assumption|assumption|]. intros y Hy. apply Hne; [left; reflexivity|right; exact Hy]. }
      destruct Hw as [Lw Fw].
      (* the equation of row x0 *)
      pose proof (Hrows x0 (or_introl eq_refl)) as R0. cbn [crow map Matrix.dot] in R0. fold (crow ys x0) in R0.
      apply N.lxor_eq in R0.
      (* the reduced system *)
      set (cf := map (sc x0 y0) ys).
      assert (Hcf : wfv n cf /\ Forall (fun c => c <> 0) cf).
      { split; [split; [unfold cf; rewrite map_length; lia|]|]; apply Forall_forall; intros c Hc;
          unfold cf in Hc; apply in_map_iff in Hc; destruct Hc as [y [<- Hy]];
          assert (Hyw : y < B) by (eapply Forall_forall in Hys'; [exact Hys'|exact Hy]);
          assert (Nq : N.lxor x0 y <> 0) by (apply lxor_neq_0; apply Hne; [left; reflexivity|right; exact Hy]);
          assert (Hq : N.lxor x0 y < B) by (apply (fh_xor _ _ _ FH); assumption);
          assert (Hyy : N.lxor y y0 < B) by (apply (fh_xor _ _ _ FH); assumption);
          assert (Hiq : inv (N.lxor x0 y) < B) by (apply (fh_invc _ _ _ FH); lia); unfold sc.
        - unfold LinAlg.wfe. apply (fh_mulc _ _ _ FH); assumption.
        - apply F_mul_nz; try assumption.
          + apply lxor_neq_0. intros ->. contradiction.
          + apply F_inv_nz. lia. }
      destruct Hcf as [Hcf Ncf].
      assert (Hw'' : wfv n (vmul cf w)) by (apply vmul_wf; [exact Hcf|split; assumption]).
      assert (Z : vmul cf w = zeros n).
      { apply (IH xs ys); try assumption; try lia.
        intros x Hx.
        assert (Hxw : x < B) by (eapply Forall_forall in Hxs'; [exact Hxs'|exact Hx]).
        assert (Nxy0 : N.lxor x y0 <> 0) by (apply lxor_neq_0; apply Hne; [right; exact Hx|left; reflexivity]).
        assert (Hxy0 : N.lxor x y0 < B) by (apply (fh_xor _ _ _ FH); assumption).
        assert (Hixy0 : inv (N.lxor x y0) < B) by (apply (fh_invc _ _ _ FH); lia).
        assert (Nxx0 : N.lxor x x0 <> 0) by (apply lxor_neq_0; intros ->; contradiction).
        pose proof (sum_step x x0 y0 Hxw Hx0 Hy0 Nxy0 ys w Hys' Fw) as S.
        fold cf in S.
        assert (Hne2 : forall y, In y ys -> x <> y /\ x0 <> y).
        { intros y Hy. split; apply Hne; try (right; assumption). left; reflexivity. }
        specialize (S Hne2).
        pose proof (Hrows x (or_intror Hx)) as Rx. cbn [crow map Matrix.dot] in Rx. fold (crow ys x) in Rx.
        apply N.lxor_eq in Rx.
        rewrite <- Rx, <- R0 in S.
        rewrite cancel_alg in S by assumption.
        assert (W1 : Forall wfe (crow ys x)).
        { apply crow_wf; [assumption|assumption|]. intros y Hy. apply Hne; right; assumption. }
        destruct Hw'' as [_ Fw''].
        apply F_mul_cancel in S; [exact S| |apply dot_lt; assumption|].
        - apply (fh_mulc _ _ _ FH); [apply (fh_xor _ _ _ FH)|]; assumption.
        - apply F_mul_nz; try assumption.
          + apply (fh_xor _ _ _ FH); assumption.
          + apply F_inv_nz. lia. }
      assert (Zw : w = zeros n) by (apply (vmul_zeros_inv n cf w); try assumption; split; assumption).
      subst w. rewrite dot_zeros_r in R0 by exact W0.
      change (zeros (S n)) with (0 :: zeros n). f_equal.
      apply (F_mul_cancel (inv (N.lxor x0 y0)) w0); try assumption.
      apply F_inv_nz. lia.
  Qed.

  (** ** generalised Cauchy matrices *)
  Definition mvec (M : list (list N)) (v : list N) : list N := map (fun r => dot r v) M.
  Definition gen_cauchy (xs ys rs cs : list N) : list (list N) :=
    map (fun xr : N * N =>
           map (fun yc : N * N => mul (mul (snd xr) (snd yc)) (inv (N.lxor (fst xr) (fst yc))))
               (combine ys cs))
        (combine xs rs).

  Lemma gc_row_dot x r : x < B -> r < B ->
    forall ys cs v, Forall wfe ys -> Forall wfe cs -> Forall wfe v -> (forall y, In y ys -> x <> y) ->
    dot (map (fun yc : N * N => mul (mul r (snd yc)) (inv (N.lxor x (fst yc)))) (combine ys cs)) v
    = mul r (dot (crow ys x) (vmul cs v)).
  Proof.
    intros Hx Hr. induction ys as [|y ys IH]; intros cs v Hys Hcs Hv Hne.
    - cbn. symmetry. apply F_mul_0_r. exact Hr.
    - destruct cs as [|c cs]; [cbn; symmetry; apply F_mul_0_r; exact Hr|].
      destruct v as [|vj v]; [cbn; symmetry; apply F_mul_0_r; exact Hr|].
      inversion Hys; subst. inversion Hcs; subst. inversion Hv; subst.
      assert (Hne' : forall y', In y' ys -> x <> y') by (intros y' Hy'; apply Hne; right; exact Hy').
      cbn [combine map fst snd vmul crow Matrix.dot]. fold (crow ys x).
      rewrite (IH cs v) by assumption.
      assert (Hu : inv (N.lxor x y) < B).
      { apply (fh_invc _ _ _ FH). pose proof (fh_xor _ _ _ FH x y Hx H1).
        pose proof (lxor_neq_0 x y (Hne y (or_introl eq_refl))). lia. }
      apply gc_alg; try assumption.
      apply dot_lt; [apply crow_wf; assumption|].
      apply vmul_Forall; assumption.
  Qed.

  Theorem gen_cauchy_injective_F : forall n xs ys rs cs v,
    length xs = n -> length ys = n -> length rs = n -> length cs = n -> wfv n v ->
    Forall wfe xs -> Forall wfe ys -> Forall wfe rs -> Forall wfe cs ->
    NoDup xs -> NoDup ys -> (forall x y, In x xs -> In y ys -> x <> y) ->
    Forall (fun r => r <> 0) rs -> Forall (fun c => c <> 0) cs ->
    mvec (gen_cauchy xs ys rs cs) v = zeros n -> v = zeros n.
  Proof.
    intros n xs ys rs cs v Lx Ly Lr Lc Hv Hxs Hys Hrs Hcs Dx Dy Hne Nr Nc E.
    assert (Hcw : wfv n cs) by (split; assumption).
    apply (vmul_zeros_inv n cs v); try assumption.
    apply (cauchy_kernel n xs ys); try assumption.
    - apply vmul_wf; assumption.
    - intros x Hx.
      destruct (In_nth xs x 0 Hx) as [i [Hi Ei]].
      set (r := nth i rs 0).
      assert (Hin : In (x, r) (combine xs rs)).
      { rewrite <- Ei. unfold r. rewrite <- combine_nth by lia. apply nth_In. rewrite combine_length. lia. }
      assert (Hr : In r rs) by (apply nth_In; lia).
      assert (Hrw : r < B) by (eapply Forall_forall in Hrs; [exact Hrs|exact Hr]).
      assert (Hrn : r <> 0) by (eapply Forall_forall in Nr; [exact Nr|exact Hr]).
      assert (Hxw : x < B) by (eapply Forall_forall in Hxs; [exact Hxs|exact Hx]).
      unfold mvec, gen_cauchy in E. rewrite map_map in E.
      pose proof (map_zeros_inv _ _ _ E (x, r) Hin) as R. cbn [fst snd] in R.
      pose proof Hv as [_ Fv].
      rewrite (gc_row_dot x r Hxw Hrw ys cs v Hys Hcs Fv) in R by (intros y Hy; apply Hne; assumption).
      apply F_mul_cancel in R; try assumption.
      apply dot_lt; [apply crow_wf; try assumption; intros y Hy; apply Hne; assumption|].
      destruct (vmul_wf n cs v Hcw Hv) as [_ Fq]. exact Fq.
  Qed.
End Field.

(** * GF(2^16) *)

Lemma fh16 : field_hyps 65536 fmul gf_inv.
Proof. constructor; field16. Qed.

Notation dot16 := (Matrix.dot fmul).
Definition mvec16 : list (list N) -> list N -> list N := mvec fmul.
Definition gen_cauchy16 : list N -> list N -> list N -> list N -> list (list N) := gen_cauchy fmul gf_inv.

(* 1. a generalised Cauchy matrix  a_ij = r_i c_j / (x_i + y_j)  over GF(2^16) is injective *)
Theorem gen_cauchy_injective : forall n xs ys rs cs v,
  length xs = n -> length ys = n -> length rs = n -> length cs = n -> wfv16 n v ->
  Forall (fun x => x < 65536) xs -> Forall (fun y => y < 65536) ys ->
  Forall (fun r => r < 65536) rs -> Forall (fun c => c < 65536) cs ->
  NoDup xs -> NoDup ys -> (forall x y, In x xs -> In y ys -> x <> y) ->
  Forall (fun r => r <> 0) rs -> Forall (fun c => c <> 0) cs ->
  mvec16 (gen_cauchy16 xs ys rs cs) v = zeros n -> v = zeros n.
Proof. exact (gen_cauchy_injective_F 65536 fmul gf_inv fh16). Qed.

(** ** 2. the minors of cauchy_pm *)
Definition minor (M : list (list N)) (rows cols : list nat) : list (list N) :=
  map (fun r => map (fun c => ent M r c) cols) rows.

Lemma cauchy_pm_ent d p r c : (r < p)%nat -> (c < d)%nat ->
  ent (cauchy_pm d p) r c = gf_inv (N.lxor (N.of_nat (d + r)) (N.of_nat c)).
Proof.
  intros Hr Hc. unfold ent, cauchy_pm.
  rewrite (nth_map_seq (fun i => map (fun j => gf_inv (N.lxor (N.of_nat (d + i)) (N.of_nat j))) (seq 0 d)) [] p r Hr).
  apply (nth_map_seq (fun j => gf_inv (N.lxor (N.of_nat (d + r)) (N.of_nat j))) 0 d c Hc).
Qed.

Lemma NoDup_map_inj {A C} (f : A -> C) (l : list A) :
  (forall a b, In a l -> In b l -> f a = f b -> a = b) -> NoDup l -> NoDup (map f l).
Proof.
  intros Hinj D. induction D as [|a l Hn D IH]; [constructor|].
  cbn [map]. constructor.
  - intros Hin. apply in_map_iff in Hin. destruct Hin as [b [E Hb]].
    apply Hinj in E; [|right; exact Hb|left; reflexivity]. subst b. contradiction.
  - apply IH. intros x y Hx Hy. apply Hinj; right; assumption.
Qed.

Lemma of_nat_65535 : N.of_nat 65535%nat = 65535.
Proof. vm_compute. reflexivity. Qed.
Lemma nat_bound_N n : (n <= 65535)%nat -> N.of_nat n <= 65535.
Proof.
  intros H. rewrite <- of_nat_65535. generalize dependent 65535%nat. intros b H. lia.
Qed.

Theorem cauchy_minor_injective : forall d p rows cols,
  (d + p <= 65535)%nat -> NoDup rows -> NoDup cols -> length rows = length cols ->
  (forall r, In r rows -> (r < p)%nat) -> (forall c, In c cols -> (c < d)%nat) ->
  forall v, wfv16 (length cols) v ->
  mvec16 (minor (cauchy_pm d p) rows cols) v = zeros (length rows) -> v = zeros (length cols).
Proof.
  intros d p rows cols Hdp Dr Dc Hl Hr Hc v Hv E.
  apply nat_bound_N in Hdp.
  set (xs := map (fun r => N.of_nat (d + r)) rows).
  set (ys := map N.of_nat cols).
  apply (cauchy_kernel 65536 fmul gf_inv fh16 (length cols) xs ys v).
  - unfold xs. rewrite map_length. exact Hl.
  - unfold ys. apply map_length.
  - exact Hv.
  - apply Forall_forall. intros x Hx. unfold xs in Hx. apply in_map_iff in Hx. destruct Hx as [r [<- Hin]].
    specialize (Hr r Hin). unfold wfe. lia.
  - apply Forall_forall. intros y Hy. unfold ys in Hy. apply in_map_iff in Hy. destruct Hy as [c [<- Hin]].
    specialize (Hc c Hin). unfold wfe. lia.
  - unfold xs. apply NoDup_map_inj; [|exact Dr]. intros a b _ _ Eab. lia.
  - unfold ys. apply NoDup_map_inj; [|exact Dc]. intros a b _ _ Eab. lia.
  - intros x y Hx Hy. unfold xs in Hx. unfold ys in Hy. apply in_map_iff in Hx. apply in_map_iff in Hy.
    destruct Hx as [r [<- Hrin]]. destruct Hy as [c [<- Hcin]]. specialize (Hc c Hcin). lia.
  - intros x Hx. unfold xs in Hx. apply in_map_iff in Hx. destruct Hx as [r [<- Hrin]].
    unfold mvec16, mvec, minor in E. rewrite map_map in E.
    pose proof (map_zeros_inv _ _ _ E r Hrin) as R. cbv beta in R.
    rewrite <- R. f_equal. unfold crow, ys. rewrite map_map. apply map_ext_in. intros c Hcin.
    symmetry. apply cauchy_pm_ent; [apply Hr; exact Hrin|apply Hc; exact Hcin].
Qed.

(** ** 3a. Gauss-Jordan cannot fail on an injective matrix *)

Definition colm (v : list N) : list (list N) := map (fun x => [x]) v.

Lemma lincomb_colm : forall r v, lincomb fmul 1 r (colm v) = [dot16 r v].
Proof.
  induction r as [|a r IH]; intros [|x v]; try reflexivity.
  cbn [colm map lincomb Matrix.dot]. fold (colm v). rewrite IH. reflexivity.
Qed.
Lemma mmul_colm M v : mmul16 1 M (colm v) = colm (mvec16 M v).
Proof.
  unfold mmul16, mmul, mvec16, mvec, colm. rewrite map_map. apply map_ext. intros r. apply lincomb_colm.
Qed.
Lemma colm_inj : forall u v, colm u = colm v -> u = v.
Proof.
  induction u as [|x u IH]; intros [|y v] E; try discriminate; [reflexivity|].
  cbn in E. injection E as -> E. f_equal. apply IH. exact E.
Qed.
Lemma colm_wf q v : wfv16 q v -> wfm16 q 1 (colm v).
Proof.
  intros [Hl Hf]. split; [unfold colm; rewrite map_length; exact Hl|].
  apply Forall_forall. intros r Hr. unfold colm in Hr. apply in_map_iff in Hr. destruct Hr as [x [<- Hx]].
  split; [reflexivity|]. constructor; [|constructor]. eapply Forall_forall in Hf; [exact Hf|exact Hx].
Qed.
Lemma zeros_wf16 q : wfv16 q (zeros q).
Proof. apply zeros_wf. reflexivity. Qed.
Lemma mvec16_zeros q r M : wfm16 r q M -> mvec16 M (zeros q) = zeros r.
Proof.
  intros [Hl Hf]. unfold mvec16, mvec. rewrite <- Hl. apply map_const_zeros. intros row Hrow.
  eapply Forall_forall in Hf; [|exact Hrow]. destruct Hf as [_ Hf].
  apply (dot_zeros_r 65536 fmul gf_inv fh16). exact Hf.
Qed.

(* a matrix in partial echelon form (unit diagonal and zeros below it in columns < i), whose column i is zero
   from the diagonal down, has a kernel vector with 1 at position i *)
Lemma echelon_kernel q i m : wfm16 q q m -> (i < q)%nat -> Ech q i m ->
  (forall t, (i <= t < q)%nat -> ent m t i = 0) ->
  forall k, (k <= i)%nat ->
  exists v, wfv16 q v /\ nth i v 0 = 1 /\ forall t, (i - k <= t < q)%nat -> dot16 (nth t m []) v = 0.
Proof.
  intros Hm Hi HE Hcol.
  assert (Hrow : forall t, (t < q)%nat -> length (nth t m []) = q /\ Forall (fun x => x < 65536) (nth t m [])).
  { intros t Ht. apply (wfm_nth 65536 one_lt_B q q m t Hm Ht). }
  induction k as [|k IH]; intros Hk.
  - exists (upd i 1 (zeros q)).
    assert (Lz : length (zeros q) = q) by apply repeat_length.
    assert (Fz : Forall (fun x => x < 65536) (zeros q)) by (apply zeros_wf16).
    split; [|split].
    + split; [rewrite upd_length; exact Lz|]. apply Forall_forall. intros x Hx. apply upd_In in Hx.
      destruct Hx as [->|Hx]; [reflexivity|]. eapply Forall_forall in Fz; [exact Fz|exact Hx].
    + apply (nth_upd_eq 65536 one_lt_B). lia.
    + intros t Ht. destruct (Hrow t ltac:(lia)) as [Lr Fr].
      rewrite (dot_upd 65536 fmul gf_inv fh16) by (try assumption; try reflexivity; lia).
      rewrite (dot_zeros_r 65536 fmul gf_inv fh16) by exact Fr.
      rewrite nth_zeros', N.lxor_0_r, N.lxor_0_l.
      change (nth i (nth t m []) 0) with (ent m t i). rewrite Hcol by lia. reflexivity.
  - destruct (IH ltac:(lia)) as (v & Hv & Hvi & Hz).
    set (t0 := (i - S k)%nat).
    assert (Ht0 : (t0 < i)%nat) by (unfold t0; lia).
    destruct Hv as [Lv Fv].
    destruct (Hrow t0 ltac:(lia)) as [Lr0 Fr0].
    set (s := dot16 (nth t0 m []) v).
    assert (Hs : s < 65536) by (apply (dot_lt 65536 fmul gf_inv fh16); assumption).
    assert (Hvt0 : nth t0 v 0 < 65536).
    { eapply Forall_forall in Fv; [exact Fv|]. apply nth_In. lia. }
    set (x := N.lxor (nth t0 v 0) s).
    assert (Hx : x < 65536) by (apply lxor_lt16; assumption).
    exists (upd t0 x v). split; [|split].
    + split; [rewrite upd_length; exact Lv|]. apply Forall_forall. intros y Hy. apply upd_In in Hy.
      destruct Hy as [->|Hy]; [exact Hx|]. eapply Forall_forall in Fv; [exact Fv|exact Hy].
    + rewrite (nth_upd_ne 65536 one_lt_B) by lia. exact Hvi.
    + intros t Ht. destruct (Hrow t ltac:(lia)) as [Lr Fr].
      rewrite (dot_upd 65536 fmul gf_inv fh16) by (try assumption; lia).
      unfold x. rewrite lxor_cancel_mid.
      change (nth t0 (nth t m []) 0) with (ent m t t0).
      destruct (Nat.eq_dec t t0) as [->|Nt].
      * destruct (HE t0 t0 Ht0 ltac:(lia)) as [D1 _]. rewrite (D1 eq_refl).
        fold s. rewrite fmul_1_l by exact Hs. apply N.lxor_nilpotent.
      * destruct (HE t0 t Ht0 ltac:(lia)) as [_ D0]. rewrite D0 by (unfold t0 in *; lia).
        rewrite fmul_0_l, N.lxor_0_r. apply Hz. unfold t0 in *. lia.
Qed.

Theorem injective_not_singular q m n :
  wfm16 q q m -> (forall v, wfv16 q v -> mvec16 m v = zeros q -> v = zeros q) ->
  forall e, RowReduce16 m n <> Err e.
Proof.
  intros Hm Hinj e E.
  unfold RowReduce16, RowReduceForInverse in E.
  destruct (negb (is_square m)); [discriminate|]. destruct (negb (Nat.eqb (length n) (length m))); [discriminate|].
  destruct (row_reduce_pair fmul gf_inv m n) as [mn|e'|pp] eqn:ER; cbn [obind] in E; try discriminate.
  set (Z := colm (zeros q)).
  assert (HZ : wfm16 q 1 Z) by (apply colm_wf; apply zeros_wf16).
  pose proof (row_reduce_outcome_indep fmul gf_inv m n Z) as I. rewrite ER in I. cbn [is_ok] in I.
  assert (S : match row_reduce_pair fmul gf_inv m Z with
              | Ok mn' => True
              | Err e => exists (i' : nat) (m'' n'' : list (list N)),
                  (i' < q)%nat /\ wfm16 q q m'' /\ wfm16 q 1 n'' /\
                  sol_eq 65536 fmul q 1 m'' n'' m Z /\ Ech q i' m'' /\
                  (forall t : nat, (i' <= t < q)%nat -> ent m'' t i' = 0)
              | Panic _ => False
              end).
  { pose proof (row_reduce_pair_spec 65536 fmul gf_inv) as S.
    specialize (S one_lt_B lxor_lt16 fmul_lt' fmul_comm fmul_assoc fmul_lxor_r' fmul_1_l gf_inv_closed gf_mul_inv q 1%nat m Z Hm HZ).
    destruct (row_reduce_pair fmul gf_inv m Z); [exact Logic.I|apply S|exact S]. }
  destruct (row_reduce_pair fmul gf_inv m Z) as [mn'|e''|pp'']; [discriminate| |exact S].
  destruct S as (i' & m'' & n'' & Hi' & Hm'' & Hn'' & Sol & HE & Hcol).
  (* n'' = Z *)
  assert (En : n'' = Z).
  { destruct (Sol Z HZ) as [_ Back]. rewrite <- Back.
    - unfold Z. rewrite mmul_colm. rewrite (mvec16_zeros q q m'' Hm''). reflexivity.
    - unfold Z. rewrite mmul_colm. rewrite (mvec16_zeros q q m Hm). reflexivity. }
  subst n''.
  destruct (echelon_kernel q i' m'' Hm'' Hi' HE Hcol i' (le_n _)) as (v & Hv & Hvi & Hz).
  assert (Ek : mvec16 m'' v = zeros q).
  { destruct Hm'' as [Lm _]. unfold mvec16, mvec. rewrite <- Lm. apply map_const_zeros.
    intros row Hrow. destruct (In_nth _ _ [] Hrow) as [t [Ht <-]]. apply Hz. lia. }
  destruct (Sol (colm v) (colm_wf q v Hv)) as [Fwd _].
  assert (Em : mmul16 1 m (colm v) = Z).
  { apply Fwd. fold mmul16. rewrite mmul_colm, Ek. reflexivity. }
  rewrite mmul_colm in Em. apply colm_inj in Em.
  apply (Hinj v Hv) in Em. rewrite Em, nth_zeros' in Hvi. discriminate.
Qed.

(** ** 3b. the matrix ReconstructData inverts is a minor of the parity matrix *)

Fixpoint none_pos {A} (l : list (option A)) : list nat :=
  match l with
  | [] => []
  | Some _ :: r => map S (none_pos r)
  | None :: r => O :: map S (none_pos r)
  end.

Lemma pick_none_map {A} : forall (mask : list (option A)) (v : list N), length v = length mask ->
  pick_none mask v = map (fun c => nth c v 0) (none_pos mask).
Proof.
  induction mask as [|o mask IH]; intros [|x v] Hl; try discriminate; [reflexivity|].
  cbn in Hl. destruct o; cbn [pick_none none_pos map nth]; rewrite map_map; cbn [nth];
    [|f_equal]; apply IH; lia.
Qed.
Lemma none_pos_lt {A} : forall (mask : list (option A)) c, In c (none_pos mask) -> (c < length mask)%nat.
Proof.
  induction mask as [|o mask IH]; intros c Hc; [destruct Hc|].
  assert (K : forall c, In c (map S (none_pos mask)) -> (c < S (length mask))%nat).
  { intros c' Hc'. apply in_map_iff in Hc'. destruct Hc' as [c0 [<- H0]]. specialize (IH c0 H0). lia. }
  destruct o; cbn [none_pos length] in *.
  - apply K. exact Hc.
  - destruct Hc as [<-|Hc]; [lia|apply K; exact Hc].
Qed.
Lemma none_pos_NoDup {A} : forall (mask : list (option A)), NoDup (none_pos mask).
Proof.
  induction mask as [|o mask IH]; [constructor|].
  assert (K : NoDup (map S (none_pos mask))).
  { apply NoDup_map_inj; [|exact IH]. intros a b _ _ E. lia. }
  destruct o; cbn [none_pos]; [exact K|]. constructor; [|exact K].
  intros Hin. apply in_map_iff in Hin. destruct Hin as [c [E _]]. discriminate.
Qed.
Lemma none_pos_length {A} : forall (mask : list (option A)), length (none_pos mask) = count_none mask.
Proof.
  induction mask as [|[x|] mask IH]; cbn [none_pos count_none length]; rewrite ?map_length; lia.
Qed.

Lemma used_rows {A} : forall (par : list (option A)) need i,
  NoDup (map fst (used_parity need i par)) /\
  forall k, In k (map fst (used_parity need i par)) -> (i <= k < i + length par)%nat.
Proof.
  induction par as [|[s|] par IH]; intros [|need] i; cbn [used_parity map fst length];
    try solve [split; [constructor|intros k []]].
  - destruct (IH need (S i)) as [D Bd]. split.
    + constructor; [|exact D]. intros Hin. specialize (Bd i Hin). lia.
    + intros k [<-|Hk]; [lia|]. specialize (Bd k Hk). lia.
  - destruct (IH (S need) (S i)) as [D Bd]. split; [exact D|].
    intros k Hk. specialize (Bd k Hk). lia.
Qed.

(** ** 3c. availability *)

Definition count_true (l : list bool) : nat := length (filter (fun b => b) l).
Definition count_false (l : list bool) : nat := length (filter negb l).

Lemma count_none_erase {A} : forall (keep : list bool) (l : list A), length keep = length l ->
  count_none (erase keep l) = count_false keep.
Proof.
  induction keep as [|b keep IH]; intros [|x l] H; try discriminate; [reflexivity|].
  rewrite erase_cons. unfold count_false in *. destruct b; cbn [count_none filter negb length]; rewrite IH by (cbn in H; lia); reflexivity.
Qed.
Lemma somes_erase_length {A} : forall (keep : list bool) (l : list A), length keep = length l ->
  length (somes (erase keep l)) = count_true keep.
Proof.
  induction keep as [|b keep IH]; intros [|x l] H; try discriminate; [reflexivity|].
  rewrite erase_cons. unfold count_true in *. destruct b; cbn [somes filter length]; rewrite IH by (cbn in H; lia); reflexivity.
Qed.

Theorem cauchy_reconstruct_succeeds : forall d p D kd kp L,
  (0 < d)%nat -> (0 < p)%nat -> (d + p <= 65535)%nat -> wfm16 d L D -> length kd = d -> length kp = p ->
  (count_false kd <= count_true kp)%nat ->
  let c := {| c_data := d; c_parity := p; c_pm := cauchy_pm d p |} in
  reconstruct c (erase kd D) (erase kp (gen_parity c D)) = Ok D.
Proof.
  intros d p D kd kp L Hd Hp Hdp HD Hkd Hkp Hcnt c.
  assert (Hpm : wfm16 p d (cauchy_pm d p)) by (apply cauchy_pm_wf; apply nat_bound_N; exact Hdp).
  pose proof (reconstruct_spec c D kd kp L Hd Hpm HD Hkd Hkp) as S.
  destruct (reconstruct c (erase kd D) (erase kp (gen_parity c D))) as [r|e|pp] eqn:E;
    [rewrite S; reflexivity| |destruct S].
  exfalso. clear S.
  pose proof HD as [HDl _].
  set (mask := erase kd D) in *. set (pmask := erase kp (gen_parity c D)) in *.
  assert (Hmaskl : length mask = d) by (unfold mask; rewrite erase_length; lia).
  assert (Hgp : length (gen_parity c D) = p).
  { unfold gen_parity, apply_matrix, mmul16, mmul. rewrite map_length. apply Hpm. }
  assert (Hq0 : count_none mask = count_false kd) by (apply count_none_erase; lia).
  assert (Hav : length (somes pmask) = count_true kp) by (apply somes_erase_length; lia).
  unfold reconstruct in E. cbv zeta in E. fold mask pmask in E.
  destruct (Nat.eqb (count_none mask) 0); [discriminate|].
  set (used := used_parity (count_none mask) 0 pmask) in *.
  assert (Hul : length used = count_none mask).
  { unfold used. rewrite used_parity_count. lia. }
  pose proof (somes_count mask) as Hsc.
  destruct (Nat.ltb_spec (length (somes mask) + length used) (c_data c)) as [Lt|_]; [cbn [c_data c] in Lt; lia|].
  cbn [c_pm c] in E.
  match type of E with (do R <- ?X; _) = _ => destruct X as [R|e'|p'] eqn:ER end; cbn [obind] in E; try discriminate.
  revert ER. 
  set (rows := map fst used).
  set (cols := none_pos mask).
  destruct (used_rows pmask (count_none mask) 0) as [Drows Brows]. fold used rows in Drows, Brows.
  assert (Hpl : length pmask = p) by (unfold pmask; rewrite erase_length; lia).
  assert (Hrows : forall r, In r rows -> (r < p)%nat) by (intros r Hr; specialize (Brows r Hr); lia).
  assert (Hcols : forall c0, In c0 cols -> (c0 < d)%nat) by (intros c0 Hc0; apply none_pos_lt in Hc0; lia).
  assert (Lrc : length rows = length cols).
  { unfold rows, cols. rewrite map_length, none_pos_length. exact Hul. }
  assert (Em : map (fun ks : nat * list N => pick_none mask (nth (fst ks) (cauchy_pm d p) [])) used
               = minor (cauchy_pm d p) rows cols).
  { unfold minor, rows. rewrite map_map. apply map_ext_in. intros ks Hks.
    assert (Hr : (fst ks < p)%nat) by (apply Hrows; unfold rows; apply in_map; exact Hks).
    destruct (wfm_nth 65536 one_lt_B p d _ (fst ks) Hpm Hr) as [Lr _].
    rewrite pick_none_map by lia. reflexivity. }
  rewrite Em.
  assert (Hmw : wfm16 (length rows) (length rows) (minor (cauchy_pm d p) rows cols)).
  { split; [unfold minor; apply map_length|]. apply Forall_forall. intros row Hrow.
    unfold minor in Hrow. apply in_map_iff in Hrow. destruct Hrow as [r [<- Hr]].
    split; [rewrite map_length; lia|]. apply Forall_forall. intros x Hx. apply in_map_iff in Hx.
    destruct Hx as [c0 [<- Hc0]]. apply (ent_wf 65536 one_lt_B p d). exact Hpm. }
  apply injective_not_singular with (q := length rows); [exact Hmw|].
  intros v Hv Ev. rewrite Lrc in Hv |- *.
  apply (cauchy_minor_injective d p rows cols); try assumption.
  apply none_pos_NoDup.
Qed.

(* together with reconstruct_not_enough: the outcome of ReconstructData with the Cauchy coder is decided by counting *)
Corollary cauchy_reconstruct_outcome : forall d p D kd kp L,
  (0 < d)%nat -> (0 < p)%nat -> (d + p <= 65535)%nat -> wfm16 d L D -> length kd = d -> length kp = p ->
  let c := {| c_data := d; c_parity := p; c_pm := cauchy_pm d p |} in
  reconstruct c (erase kd D) (erase kp (gen_parity c D))
  = if Nat.leb (count_false kd) (count_true kp) then Ok D else Err ENotEnoughParity.
Proof.
  intros d p D kd kp L Hd Hp Hdp HD Hkd Hkp c.
  destruct (Nat.leb_spec (count_false kd) (count_true kp)) as [Le|Gt].
  - apply (cauchy_reconstruct_succeeds d p D kd kp L); assumption.
  - pose proof HD as [HDl _].
    assert (Hpm : wfm16 p d (cauchy_pm d p)) by (apply cauchy_pm_wf; apply nat_bound_N; exact Hdp).
    assert (Hgp : length (gen_parity c D) = p).
    { unfold gen_parity, apply_matrix, mmul16, mmul. rewrite map_length. apply Hpm. }
    apply reconstruct_not_enough.
    + rewrite erase_length by lia. exact HDl.
    + rewrite count_none_erase by lia. lia.
    + rewrite count_none_erase, somes_erase_length by lia. exact Gt.
Qed.

Print Assumptions gen_cauchy_injective.
Print Assumptions cauchy_minor_injective.
Print Assumptions injective_not_singular.
Print Assumptions cauchy_reconstruct_succeeds.
Print Assumptions cauchy_reconstruct_outcome.
