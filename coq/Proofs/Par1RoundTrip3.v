(* PAR1 round trip with lost input files and lost OR DAMAGED parity volumes (Model/Par1.v over Model/FS.v):
   RT5. par1_create_damage_files_and_volumes: after Create, remove any input files `lost`; each volume of
        `lostv` (numbers in 1 .. min nv 99, distinct) is either removed or REPLACED BY ARBITRARY BYTES THAT
        read_volume REJECTS; length lost <= min nv 99 - length lostv.  The state before Repair is any file
        map fs2 that agrees with "Create's result minus the lost files" off the volume paths of lostv.
        Repair then either returns Ok, reports exactly the lost files and has every input file back BYTE FOR
        BYTE, or it returns Err ESingular with nothing written (the file map is fs2) and nothing reported.
   RT6. par1_create_damage_too_many: more input files lost than usable volumes remain: Err ENotEnoughParity,
        nothing written.
   Both are corollaries of par1_damage_general, which also gives the frame: Repair changes the paths it
   reports and no other, so the damaged volume files are still there afterwards
   (par1_create_damage_volumes_still_there).
   The loader is analysed directly on the damaged state (load_vols_mask_dmg generalises load_vols_mask of
   Par1RoundTrip2.v: a masked-out volume is absent OR present and unparsable), so no premise beyond what
   io_read needs is added: a REMOVED volume path must not be a directory; a path that still holds a
   (damaged) file needs nothing, since ReadFile finds the file first.
   Independently of Create, par1_repair_ignores_unparsable_volumes relates the two runs of Repair on ANY
   volume set: with a list of volume paths absent in one state and absent-or-unparsable in the other, the
   outcome and the reported list are the same and the final file maps agree off those paths
   (p1_load_ignores_unparsable_volumes is p1_load_ignores_unparsable_volume of Par1Volumes.v for a list). *)
From Coq Require Import Lia.
From Coq Require Import ZifyN ZifyNat ZifyBool.
From Gopar Require Import Model.Base Model.Matrix Model.RS16 Model.GF8 Model.CRC Model.GoPath Model.FS Model.Par1
     Proofs.LinAlg Proofs.LinAlgSingular Proofs.RS16Facts
     Proofs.GoPathFacts Proofs.Par2Create Proofs.Par2Facts Proofs.Par2Verify Proofs.Par2Faults Proofs.Par2Clean
     Proofs.GF8Facts Proofs.Par1Facts Proofs.Par1Safety Proofs.Utf16Facts Proofs.Par1Clean Proofs.Par1RoundTrip
     Proofs.Par1Volumes Proofs.Par1RoundTrip2.
Open Scope N_scope.
Set Default Timeout 120.

(** * an unusable volume path: nothing there, or a file that does not parse *)

Definition vol_unusable (md5 : bytes -> bytes) (fs : list (list N * bytes)) (p : list N) : Prop :=
  read_res fs p = Err ENotExist \/ exists b x, fs_lookup fs p = Some b /\ read_volume md5 b = Err x.

(** * loading a volume set with gaps and damaged volumes *)

Section VolsLoad3.
  Variable md5 : bytes -> bytes.
  Hypothesis md5_len : forall x, length (md5 x) = 16%nat.
  Variable ix : list N.
  Variable sethash : bytes.
  Variable entries : list p1entry.
  Hypothesis Hsh : length sethash = 16%nat.
  Hypothesis Hes : Forall (fun e => e_status e < 2^64 /\ e_len e < 2^64 /\ length (e_hash e) = 16%nat /\ length (e_h16 e) = 16%nat
                     /\ e_name e <> [] /\ decode_utf16le (encode_utf16le (e_name e)) = e_name e
                     /\ encode_utf16le (e_name e) <> []) entries.
  Hypothesis Hsz : Forall (fun e => N.of_nat (length (encode_utf16le (e_name e))) < 2^64) entries.
  Hypothesis Hcnt : N.of_nat (length entries) < 2^32.

  (* volume i+j+1 is the one Create wrote when kv[j], and is absent or unparsable otherwise *)
  Lemma load_vols_mask_dmg L : L <> 0%nat -> forall (vs : list bytes) (kv : list bool) m i size acc st,
    io_sched st = [] -> (size = 0 \/ size = L)%nat -> Forall (fun x : bytes => length x = L) vs ->
    length kv = length vs -> N.of_nat (i + length vs) < 2^64 ->
    (forall j, (j < length vs)%nat ->
       if nth j kv false
       then fs_lookup (io_fs st) (volume_path ix (N.of_nat (S (i + j)))) =
            Some (write_volume md5 sethash (N.of_nat (S (i + j))) entries (nth j vs []))
       else vol_unusable md5 (io_fs st) (volume_path ix (N.of_nat (S (i + j))))) ->
    exists st1, io_sched st1 = [] /\ io_fs st1 = io_fs st /\
      load_vols md5 ix sethash i (length vs + m) size acc st =
      load_vols md5 ix sethash (i + length vs) m (if existsb idb kv then L else size) (acc ++ erase kv vs) st1.
  Proof.
    intros HL. induction vs as [|x vs IH]; intros kv m i size acc st Hs Hsize HF Hkv Hb Hlk.
    - destruct kv as [|b kv]; [|discriminate Hkv]. exists st. cbn [length Nat.add existsb].
      unfold erase. cbn [combine map]. rewrite Nat.add_0_r, app_nil_r.
      split; [exact Hs|split; reflexivity].
    - destruct kv as [|b kv]; [discriminate Hkv|]. cbn [length] in *.
      pose proof (Forall_inv HF) as Hx. pose proof (Forall_inv_tail HF) as HF'. cbv beta in Hx.
      pose proof (Hlk 0%nat ltac:(lia)) as H0. rewrite Nat.add_0_r in H0. cbn [nth] in H0.
      rewrite erase_cons.
      destruct b.
      + destruct (io_read_some _ st _ Hs H0) as (st1 & ER & Hs1 & Hf1).
        destruct (written_volume_read md5 md5_len sethash entries Hsh Hes Hsz Hcnt (N.of_nat (S i)) x ltac:(lia))
          as (v & EV & F1 & F2 & F3 & F4 & _).
        cbn [Nat.add load_vols]. rewrite ER, EV, F1, F2, F4, bytes_eqb_refl, N.eqb_refl. cbn [negb].
        rewrite Hx.
        destruct (Nat.eqb_spec L 0) as [E0|_]; [lia|].
        assert (Ec : negb (Nat.eqb size 0) && negb (Nat.eqb L size) = false).
        { destruct Hsize as [-> | ->]; [reflexivity|]. rewrite Nat.eqb_refl. apply andb_false_r. }
        rewrite Ec.
        destruct (IH kv m (S i) L (acc ++ [Some x]) st1 Hs1 (or_intror eq_refl) HF' ltac:(lia) ltac:(lia))
          as (st2 & Hs2 & Hf2 & E2).
        { intros j Hj. rewrite Hf1. specialize (Hlk (S j) ltac:(lia)). cbn [nth] in Hlk.
          replace (S i + j)%nat with (i + S j)%nat by lia. exact Hlk. }
        exists st2. split; [exact Hs2|]. split; [congruence|]. rewrite E2.
        replace (S i + length vs)%nat with (i + S (length vs))%nat by lia.
        rewrite <- app_assoc. cbn [app existsb orb]. destruct (existsb idb kv); reflexivity.
      + assert (Hstep : exists st1, io_sched st1 = [] /\ io_fs st1 = io_fs st /\
                  load_vols md5 ix sethash i (S (length vs) + m) size acc st =
                  load_vols md5 ix sethash (S i) (length vs + m) size (acc ++ [None]) st1).
        { destruct H0 as [H0|(b & xe & H0 & Hbad)].
          - destruct (io_read_nosched (volume_path ix (N.of_nat (S i))) st Hs) as (st1 & ER & Hs1 & Hf1).
            exists st1. split; [exact Hs1|]. split; [exact Hf1|].
            cbn [Nat.add load_vols]. rewrite ER, H0. reflexivity.
          - destruct (io_read_some _ st _ Hs H0) as (st1 & ER & Hs1 & Hf1).
            exists st1. split; [exact Hs1|]. split; [exact Hf1|].
            cbn [Nat.add load_vols]. rewrite ER, Hbad. reflexivity. }
        destruct Hstep as (st1 & Hs1 & Hf1 & Estep). rewrite Estep.
        destruct (IH kv m (S i) size (acc ++ [None]) st1 Hs1 Hsize HF' ltac:(lia) ltac:(lia))
          as (st2 & Hs2 & Hf2 & E2).
        { intros j Hj. rewrite Hf1. specialize (Hlk (S j) ltac:(lia)). cbn [nth] in Hlk.
          replace (S i + j)%nat with (i + S j)%nat by lia. exact Hlk. }
        exists st2. split; [exact Hs2|]. split; [congruence|]. rewrite E2.
        replace (S i + length vs)%nat with (i + S (length vs))%nat by lia.
        rewrite <- app_assoc. cbn [app existsb orb]. reflexivity.
  Qed.
End VolsLoad3.

(** * the loading phase after Create with files lost and volumes lost or damaged *)

Section Created3.
  Variable md5 : bytes -> bytes.
  Hypothesis md5_len : forall x, length (md5 x) = 16%nat.

  (* As p1_load_created_mask, but a masked-out volume (kv[j] = false) is absent OR present and unparsable. *)
  Lemma p1_load_created_mask_dmg ix (names datas : list bytes) (nv : nat) (fs2 : list (list N * bytes)) (keep kv : list bool) :
    str_eqb (ext ix) EXT_PAR = true -> length names = length datas -> datas <> [] ->
    (length datas + nv <= 256)%nat -> (0 < nv)%nat -> max_len datas <> 0%nat ->
    Forall name_ok names -> Forall (fun d : bytes => N.of_nat (length d) < 2^64) datas ->
    length keep = length datas ->
    let entries := mk_entries md5 names datas in
    let sethash := set_hash md5 entries in
    let size := max_len datas in
    let D := map (pad size) datas in
    let P := par1_encode (length datas) nv D in
    let np := Nat.min nv 99 in
    let vs := par1_encode (length datas) np D in
    let slots := erase kv vs ++ repeat None (N.to_nat (N.min (256 - N.of_nat (length datas)) 99) - np) in
    length kv = np ->
    fs_lookup fs2 ix = Some (write_volume md5 sethash 0 entries []) ->
    (forall j, (j < np)%nat ->
       if nth j kv false
       then fs_lookup fs2 (volume_path ix (N.of_nat (S j))) =
            Some (write_volume md5 sethash (N.of_nat (S j)) entries (nth j P []))
       else vol_unusable md5 fs2 (volume_path ix (N.of_nat (S j)))) ->
    (forall k, (np < k <= N.to_nat (N.min (256 - N.of_nat (length datas)) 99))%nat ->
               read_res fs2 (volume_path ix (N.of_nat k)) = Err ENotExist) ->
    Forall (fun t : bytes * (bytes * bool) =>
              if snd (snd t) then fs_lookup fs2 (join2 (dir ix) (fst t)) = Some (fst (snd t))
              else read_res fs2 (join2 (dir ix) (fst t)) = Err ENotExist) (combine names (combine datas keep)) ->
    exists v st1,
      p1_load md5 ix (io_init fs2 []) =
        (Ok {| s_index := ix; s_vol := v; s_saved := entries; s_data := erase keep datas;
               s_size := if existsb idb kv then size else 0%nat;
               s_parity := firstn (S (last_some_index slots 0 0)) slots |}, st1) /\
      v_count v = N.of_nat (length datas) /\ io_sched st1 = [] /\ io_fs st1 = fs2.
  Proof.
    intros He Hlen Hne Hcap Hnv Hsz0 Hnames Hdl Hkeep entries sethash size D P np vs slots Hkvl C1 C2 C3 C4.
    destruct (mk_entries_ok md5 md5_len names datas Hnames Hdl) as [Hes Hsz]. fold entries in Hes, Hsz.
    assert (Hel : length entries = length datas) by (apply mk_entries_length; exact Hlen).
    assert (Hcnt : N.of_nat (length entries) < 2^32).
    { rewrite Hel. apply N.lt_trans with 257; [lia|reflexivity]. }
    assert (Hsh : length sethash = 16%nat) by apply md5_len.
    (* the index *)
    destruct (io_read_some ix (io_init fs2 []) _ eq_refl C1) as (sa & ER & Hsa & Hfa). cbn [io_init io_fs] in Hfa.
    destruct (written_volume_read md5 md5_len sethash entries Hsh Hes Hsz Hcnt 0 [] ltac:(reflexivity))
      as (v & EV & F1 & F2 & F3 & F4 & F5).
    rewrite Hel in F5.
    (* the files *)
    destruct (zip3_facts md5 md5_len names datas keep Hlen Hkeep) as [Z1 Z2]. fold entries in Z1, Z2.
    destruct (load_data_keep md5 ix (combine entries (combine datas keep)) sa Hsa) as (sb & EL & Hsb & Hfb).
    { rewrite Hfa. apply zip3_forall; assumption. }
    rewrite Z1, Z2 in EL.
    assert (Hds : erase keep datas <> []).
    { intros E0. apply (f_equal (@length (option bytes))) in E0. rewrite erase_length in E0 by exact Hkeep.
      destruct datas; [congruence|discriminate E0]. }
    (* the volumes *)
    assert (HD : Forall (fun x : bytes => length x = size) D).
    { unfold D. apply Forall_forall. intros x Hx. apply in_map_iff in Hx. destruct Hx as (d & <- & Hd).
      apply pad_length. pose proof (max_len_ge datas) as G. rewrite Forall_forall in G. exact (G d Hd). }
    assert (HDne : D <> []) by (unfold D; destruct datas; [congruence|discriminate]).
    assert (Hnp : (np <= nv)%nat) by (unfold np; lia).
    assert (Hnp1 : (0 < np)%nat) by (unfold np; lia).
    destruct (par1_encode_shape (length datas) np D size HDne HD) as [Lvs Fvs]. fold vs in Lvs, Fvs.
    assert (Evs : vs = firstn np P).
    { unfold vs, P. symmetry. apply (par1_encode_firstn _ _ _ _ size); assumption. }
    set (maxv := N.to_nat (N.min (256 - N.of_nat (length datas)) 99)) in *.
    assert (Hmax : (np <= maxv)%nat) by (unfold maxv, np; lia).
    destruct (load_vols_mask_dmg md5 md5_len ix sethash entries Hsh Hes Hsz Hcnt size Hsz0 vs kv (maxv - np) 0 0 [] sb Hsb
                (or_introl eq_refl) Fvs ltac:(lia)) as (sc & Hsc & Hfc & ELV1).
    { rewrite Lvs. apply N.lt_trans with 257; [unfold np; lia|reflexivity]. }
    { intros j Hj. rewrite Lvs in Hj. rewrite Hfb, Hfa. cbn [Nat.add]. rewrite Evs, nth_firstn_lt by exact Hj.
      apply C2. exact Hj. }
    destruct (load_vols_absent md5 ix sethash (maxv - np) (0 + length vs) (if existsb idb kv then size else 0%nat)
                ([] ++ erase kv vs) sc Hsc) as (sd & ELV2).
    { intros j Hj. rewrite Hfc, Hfb, Hfa. apply C3. rewrite Lvs in Hj. lia. }
    rewrite ELV2 in ELV1. rewrite Lvs in ELV1. replace (np + (maxv - np))%nat with maxv in ELV1 by lia.
    cbn [app] in ELV1. fold slots in ELV1.
    (* assemble *)
    pose proof (p1_load_ok md5 ix (io_init fs2 []) _ sa v (erase keep datas) sb
                  slots (if existsb idb kv then size else 0%nat) sd He ER EV) as PL.
    unfold nsaved in PL. rewrite F2, F3, F1 in PL.
    assert (Efs : filter saved entries = entries) by apply filter_saved_mk.
    rewrite Efs, Hel in PL.
    specialize (PL eq_refl EL Hds).
    assert (EC : (256 <=? N.of_nat (length datas)) = false) by (apply N.leb_gt; lia).
    specialize (PL EC ELV1).
    exists v, sd. split; [exact PL|]. split; [exact F5|].
    pose proof (p1_load_pres md5 ix (io_init fs2 [])) as Pp.
    rewrite PL in Pp. cbn [snd] in Pp. destruct Pp as (Pf & Ps & _). cbn [io_init io_fs io_sched] in Pf, Ps.
    split; assumption.
  Qed.
End Created3.

(** * RT5/RT6. CREATE, LOSE FILES, LOSE OR DAMAGE VOLUMES, REPAIR *)

(* Every outcome of Repair after Create with input files removed and volumes removed or replaced by bytes that
   do not parse, by the number of input files actually missing against the number of volumes that remain.
   fs2 is ANY file map that agrees with "Create's result minus the lost files" off the volume paths of lostv. *)
Theorem par1_damage_general : forall md5, (forall x, length (md5 x) = 16%nat) ->
  forall parPath files nvol fs st' lost lostv fs2 dbl r rp st3,
  par1_create md5 parPath files nvol (io_init fs []) = (Ok tt, st') ->
  let nv := if (nvol <=? 0)%Z then 3%nat else Z.to_nat nvol in
  Forall (fun f => input_name_ok (base f)) files ->
  Forall (fun f => join2 (dir parPath) (base f) = f) files ->
  (forall f d, In f files -> fs_lookup fs f = Some d -> N.of_nat (length d) < 2^64 /\ wf_bytes d) ->
  Forall (fun f => f <> parPath /\ forall k, (1 <= k <= nv)%nat -> f <> volume_path parPath (N.of_nat k)) files ->
  (forall k, (nv < k <= Nat.min (256 - length files) 99)%nat ->
     fs_lookup fs (volume_path parPath (N.of_nat k)) = None /\ is_dir fs (volume_path parPath (N.of_nat k)) = false) ->
  incl lost files ->
  NoDup lostv -> (forall k, In k lostv -> (1 <= k <= Nat.min nv 99)%nat) ->
  (forall f, In f lost -> is_dir (io_fs st') f = false) ->
  (* the state before Repair *)
  (forall p, ~ In p (lostv_paths parPath lostv) ->
     fs_lookup fs2 p = fs_lookup (fs_remove lost (io_fs st')) p /\ is_dir fs2 p = is_dir (fs_remove lost (io_fs st')) p) ->
  (forall k, In k lostv ->
     (fs_lookup fs2 (volume_path parPath (N.of_nat k)) = None /\ is_dir fs2 (volume_path parPath (N.of_nat k)) = false) \/
     (exists b x, fs_lookup fs2 (volume_path parPath (N.of_nat k)) = Some b /\ read_volume md5 b = Err x)) ->
  par1_repair md5 parPath dbl (io_init fs2 []) = ((r, rp), st3) ->
  let missing := length (filter (fun f => existsb (str_eqb f) lost) files) in
  let remaining := (Nat.min nv 99 - length lostv)%nat in
  ((missing <= remaining)%nat ->
     (r = Ok tt /\
      (forall f d, In f files -> fs_lookup fs f = Some d -> fs_lookup (io_fs st3) f = Some d) /\
      rp = filter (fun f => existsb (str_eqb f) lost) files /\
      (forall p, ~ In p rp -> fs_lookup (io_fs st3) p = fs_lookup fs2 p))
     \/ (r = Err ESingular /\ io_fs st3 = fs2 /\ rp = [])) /\
  ((remaining < missing)%nat ->
     r = Err ENotEnoughParity /\ io_fs st3 = fs2 /\ rp = []).
Proof.
  intros md5 md5_len parPath files nvol fs st' lost lostv fs2 dbl r rp st3 HC nv Hnames Hjoin Hlens Hdisj Hstale Hincl
         Hndv Hrange Hnodir Hagree Hdmg HR missing remaining.
  destruct (create_setup md5 parPath files nvol fs st' HC Hnames (fun f d Hin Hl => proj1 (Hlens f d Hin Hl)))
    as (datas & HF & He & Hlen & Hne & Hcap & Hnv & Hsz & Hnok & Hdl & Hndf & HL & Hfs).
  fold nv in Hcap, Hnv, Hfs.
  rewrite Forall_forall in Hdisj.
  set (Q := fun f : list N => negb (existsb (str_eqb f) lost)).
  assert (Qt : forall f, Q f = true -> ~ In f lost).
  { intros f H Hin. apply existsb_str_in in Hin. unfold Q in H. rewrite Hin in H. discriminate H. }
  assert (Qf : forall f, Q f = false -> In f lost).
  { intros f H. apply existsb_str_in. unfold Q in H. apply negb_false_iff in H. exact H. }
  set (keep := map Q files).
  set (np := Nat.min nv 99) in *.
  set (kv := vmask lostv np).
  set (vpaths := lostv_paths parPath lostv) in *.
  set (fsL := fs_remove lost (io_fs st')) in *.
  assert (Hrem : remaining = (np - length lostv)%nat) by reflexivity.
  assert (Hkl : length keep = length datas) by (unfold keep; rewrite map_length; exact HL).
  assert (Hkvl : length kv = np) by apply vmask_length.
  assert (Hvp_inv : forall p, In p vpaths -> exists k, In k lostv /\ p = volume_path parPath (N.of_nat k)).
  { intros p Hin. unfold vpaths, lostv_paths in Hin. apply in_map_iff in Hin. destruct Hin as (k & E & Hk).
    exists k. split; [exact Hk|symmetry; exact E]. }
  assert (Hvp_ix : ~ In parPath vpaths).
  { intros Hin. destruct (Hvp_inv _ Hin) as (k & _ & E). symmetry in E. exact (volume_path_ne_index parPath _ He E). }
  assert (Hlost_ix : ~ In parPath lost).
  { intros Hin. destruct (Hdisj _ (Hincl _ Hin)) as [D1 _]. apply D1. reflexivity. }
  assert (Hvp_file : forall f, In f files -> ~ In f vpaths).
  { intros f Hin Hv. destruct (Hvp_inv _ Hv) as (k & Hk & E). destruct (Hdisj f Hin) as [_ D2].
    pose proof (Hrange k Hk) as Hkr. apply (D2 k); [unfold np in Hkr; lia|exact E]. }
  assert (Hvp_vol : forall k, In (volume_path parPath (N.of_nat k)) vpaths -> In k lostv).
  { intros k Hin. destruct (Hvp_inv _ Hin) as (k' & Hk' & E). apply volume_path_inj in E. apply Nat2N.inj in E.
    subst k'. exact Hk'. }
  assert (Hvol_lost : forall k, (1 <= k <= nv)%nat -> ~ In (volume_path parPath (N.of_nat k)) lost).
  { intros k Hk Hin. destruct (Hdisj _ (Hincl _ Hin)) as [_ D2]. apply (D2 k Hk). reflexivity. }
  assert (Hfile_kept : forall f d, In f files -> Q f = true -> fs_lookup fs f = Some d -> fs_lookup fs2 f = Some d).
  { intros f d Hin HQ Hl. rewrite (proj1 (Hagree f (Hvp_file f Hin))). unfold fsL.
    rewrite remove_lookup_other by (apply Qt; exact HQ). rewrite Hfs.
    destruct (Hdisj f Hin) as [D1 D2].
    rewrite created_other_lookup; [exact Hl|..]; try exact He; try exact D1. intros j Hj. apply D2. lia. }
  assert (Hlost_absent : forall f, In f lost -> read_res fs2 f = Err ENotExist).
  { intros f Hf. unfold read_res. destruct (Hagree f (Hvp_file f (Hincl f Hf))) as [-> ->]. unfold fsL.
    rewrite (remove_lookup_in lost _ _ Hf), (remove_is_dir lost _ _ (Hnodir f Hf)). reflexivity. }
  destruct (p1_load_created_mask_dmg md5 md5_len parPath (map base files) datas nv fs2 keep kv He Hlen Hne Hcap Hnv Hsz Hnok Hdl
              Hkl Hkvl) as (v & st1 & PL & _ & Hs1 & Hf1).
  - rewrite (proj1 (Hagree parPath Hvp_ix)). unfold fsL. rewrite remove_lookup_other by exact Hlost_ix.
    rewrite Hfs. apply created_index. exact He.
  - intros j Hj. fold np in Hj. unfold kv. rewrite vmask_nth by exact Hj. destruct (vol_kept lostv j) eqn:Ek.
    + assert (Hnv' : ~ In (volume_path parPath (N.of_nat (S j))) vpaths).
      { intros Hin. apply (vol_kept_true lostv j Ek). apply Hvp_vol. exact Hin. }
      rewrite (proj1 (Hagree _ Hnv')). unfold fsL.
      rewrite remove_lookup_other by (apply Hvol_lost; unfold np in Hj; lia).
      rewrite Hfs. apply created_volume; [exact He|unfold np in Hj; lia].
    + destruct (Hdmg (S j) (vol_kept_false lostv j Ek)) as [[H1 H2]|(b & x & H1 & H2)].
      * left. unfold read_res. rewrite H1, H2. reflexivity.
      * right. exists b, x. split; assumption.
  - intros k Hk. fold np in Hk.
    assert (Hnv' : ~ In (volume_path parPath (N.of_nat k)) vpaths).
    { intros Hin. pose proof (Hrange k (Hvp_vol k Hin)) as Hkr. fold np in Hkr. lia. }
    assert (R : read_res (io_fs st') (volume_path parPath (N.of_nat k)) = Err ENotExist).
    { rewrite Hfs, created_volume_absent by (try exact He; unfold np in Hk; lia).
      destruct (Hstale k ltac:(unfold np in Hk; lia)) as [H1 H2]. unfold read_res. rewrite H1, H2. reflexivity. }
    unfold read_res in R.
    destruct (fs_lookup (io_fs st') (volume_path parPath (N.of_nat k))) eqn:E1; [discriminate R|].
    destruct (is_dir (io_fs st') (volume_path parPath (N.of_nat k))) eqn:E2; [discriminate R|].
    unfold read_res. destruct (Hagree _ Hnv') as [-> ->]. unfold fsL. rewrite (remove_is_dir lost _ _ E2).
    destruct (existsb (str_eqb (volume_path parPath (N.of_nat k))) lost) eqn:E3.
    + apply existsb_str_in in E3. rewrite (remove_lookup_in lost _ _ E3). reflexivity.
    + rewrite remove_lookup_other, E1; [reflexivity|]. intros Hin. apply existsb_str_in in Hin. congruence.
  - apply (c4_of_forall2 parPath fs2 Q); [|exact Hjoin].
    apply (Forall2_impl_in _ _ _ _ HF). intros f d Hin Hl. destruct (Q f) eqn:EQ.
    + apply Hfile_kept; assumption.
    + apply Hlost_absent. apply Qf. exact EQ.
  - (* the repair *)
    change (Nat.min nv 99) with np in PL.
    set (size := max_len datas) in *. set (D := map (pad size) datas) in *.
    set (nd := length datas) in *.
    set (vs := par1_encode nd np D) in *.
    set (entries := mk_entries md5 (map base files) datas) in *.
    set (m := (N.to_nat (N.min (256 - N.of_nat nd) 99) - np)%nat) in *.
    assert (Hge : Forall (fun d : bytes => (length d <= size)%nat) datas) by apply max_len_ge.
    assert (HD : Forall (fun x : bytes => length x = size) D).
    { unfold D. apply Forall_forall. intros x Hx. apply in_map_iff in Hx. destruct Hx as (d & <- & Hd).
      apply pad_length. rewrite Forall_forall in Hge. exact (Hge d Hd). }
    assert (HDl : length D = nd) by (unfold D; apply map_length).
    assert (HDne : D <> []) by (unfold D; destruct datas; [congruence|discriminate]).
    destruct (par1_encode_shape nd np D size HDne HD) as [Lvs _]. fold vs in Lvs.
    assert (Hnp : (0 < np <= nv)%nat) by (unfold np; lia).
    assert (Hnd : (0 < nd)%nat) by (unfold nd; destruct datas; [congruence|cbn [length]; lia]).
    assert (HwfD : wfm8 nd size D).
    { split; [exact HDl|]. apply Forall_forall. intros x Hx. split.
      - rewrite Forall_forall in HD. exact (HD x Hx).
      - unfold D in Hx. apply in_map_iff in Hx. destruct Hx as (d & <- & Hd). apply pad_wf.
        assert (W : Forall wf_bytes datas).
        { apply (Forall2_Forall_r _ _ _ _ HF). intros f d' Hin Hl. exact (proj2 (Hlens f d' Hin Hl)). }
        rewrite Forall_forall in W. exact (W d Hd). }
    (* counting *)
    pose proof (filter_bool_split keep) as Hsk. rewrite Hkl in Hsk. fold nd in Hsk.
    assert (Hfk : length (filter negb keep) = missing).
    { unfold keep. rewrite filter_negb_map. unfold missing. f_equal. apply filter_ext. intros f. unfold Q.
      apply negb_involutive. }
    pose proof (filter_bool_split kv) as Hsv. rewrite Hkvl in Hsv.
    assert (Hfv : length (filter negb kv) = length lostv) by (apply vmask_false_count; assumption).
    assert (Hrp0 : missing = 0%nat -> filter (fun f => existsb (str_eqb f) lost) files = []).
    { intros H0. apply length_zero_iff_nil. exact H0. }
    assert (Hfiles0 : missing = 0%nat -> forall f d, In f files -> fs_lookup fs f = Some d -> fs_lookup fs2 f = Some d).
    { intros H0 f d Hin Hl. apply Hfile_kept; try assumption. destruct (Q f) eqn:EQ; [reflexivity|]. exfalso.
      assert (Hin' : In f (filter (fun f => existsb (str_eqb f) lost) files)).
      { apply filter_In. split; [exact Hin|]. unfold Q in EQ. apply negb_false_iff in EQ. exact EQ. }
      rewrite (Hrp0 H0) in Hin'. destruct Hin'. }
    destruct (existsb idb kv) eqn:Ekv.
    + (* some volume is left *)
      try rewrite Ekv in PL.
      destruct (parity_slots_shape kv vs m ltac:(lia) Ekv) as (q & Hq & Eslots & Hcq).
      rewrite Eslots in PL.
      assert (Evq : firstn q vs = par1_encode nd q D).
      { unfold vs. apply (par1_encode_firstn nd np q D size HDne HD). lia. }
      rewrite Evq in PL. set (kq := firstn q kv) in *. set (vq := par1_encode nd q D) in *.
      destruct (par1_encode_shape nd q D size HDne HD) as [LP HP]. fold vq in LP, HP.
      assert (Lkq : length kq = q) by (unfold kq; rewrite firstn_length; lia).
      match type of PL with _ = (Ok ?s0, _) => set (s := s0) in * end.
      assert (Ld : length (s_data s) = nd) by (cbn [s s_data]; rewrite erase_length by exact Hkl; reflexivity).
      assert (Lp : length (s_parity s) = q) by (cbn [s s_parity]; rewrite erase_length by lia; exact LP).
      assert (Es : s_size s = size) by reflexivity.
      unfold par1_repair in HR. rewrite PL in HR. cbv zeta in HR. rewrite Ld, Lp, Es in HR.
      destruct (Nat.eqb_spec size 0) as [E0|_]; [contradiction|].
      destruct (Nat.ltb_spec 256 (nd + q)) as [Lt|_]; [unfold nd in Lt; lia|].
      destruct (build_shards_total md5 s) as (sh & EB & Esh).
      { cbn [s s_data s_size]. apply Forall_forall. intros o Hin d ->. unfold erase in Hin.
        apply in_map_iff in Hin. destruct Hin as ([k x] & E & Hin). cbn [fst snd] in E.
        destruct k; [|discriminate E]. injection E as ->. apply in_combine_r in Hin.
        rewrite Forall_forall in Hge. exact (Hge d Hin). }
      rewrite EB in HR.
      assert (Esh' : sh = erase (keep ++ kq) (D ++ vq)).
      { rewrite Esh. cbn [s s_data s_size s_parity].
        rewrite (map_erase_opt (fun d : bytes => d ++ zeros (size - length d)) keep datas).
        change (map (fun d : bytes => d ++ zeros (size - length d)) datas) with D.
        symmetry. apply erase_app. rewrite HDl. exact Hkl. }
      assert (Hkl' : length (keep ++ kq) = (nd + q)%nat) by (rewrite app_length, Lkq, Hkl; reflexivity).
      assert (Hsl : length sh = (nd + q)%nat)         by (rewrite Esh', erase_length;
              [rewrite app_length, HDl, LP; reflexivity|rewrite Hkl', app_length, HDl, LP; reflexivity]).
      assert (Hcp : count_present sh = (length (filter idb keep) + length (filter idb kv))%nat).
      { rewrite Esh', count_present_erase by (rewrite Hkl', app_length, HDl, LP; reflexivity).
        rewrite filter_app, app_length, Hcq. reflexivity. }
      pose proof (par1_reconstruct_too_few nd q sh Hsl) as TF.
      pose proof (par1_reconstruct_sound nd q D size (keep ++ kq) Hnd ltac:(lia) ltac:(unfold nd; lia) HwfD ltac:(lia) Hkl') as S0.
      assert (S : match par1_reconstruct nd q sh with
                  | Ok full => full = D ++ vq
                  | Err e => e = ENotEnoughParity \/ e = ESingular
                  | Panic _ => False
                  end) by (rewrite Esh'; exact S0).
      clear S0.
      remember (par1_reconstruct nd q sh) as rec eqn:ER. clear ER.
      split.
      * intros Hle. destruct rec as [full|e|pq]; [left|right|contradiction].
        -- subst full.
           assert (Edbl : (if dbl then match rs_verify nd q (map Some (D ++ vq)) with Ok b => Ok b | Err x => Err x | Panic pq => Panic pq end
                           else Ok true) = Ok true).
           { destruct dbl; [|reflexivity]. unfold vq. rewrite (rs_verify_consistent nd q D size HDne HDl HD Hsz). reflexivity. }
           rewrite Edbl in HR. rewrite (firstn_app_len D vq nd HDl) in HR.
           change (s_saved s) with (mk_entries md5 (map base files) datas) in HR.
           change (s_data s) with (erase (map Q files) datas) in HR.
           destruct (write_repaired_exact md5 parPath size Q files datas [] st1 Hs1 HL) as (rp' & st'' & EW & Hfs3 & Hrp).
           { apply Forall_forall. intros f Hin. rewrite Forall_forall in Hjoin. split; [apply base_base|exact (Hjoin f Hin)]. }
           { exact Hge. }
           fold D in EW. rewrite EW in HR. injection HR as <- <- <-.
           split; [reflexivity|]. split; [|split].
           2:{ rewrite Hrp. cbn [app]. rewrite (map_fst_filter_combine (fun f => negb (Q f)) files datas HL).
               apply filter_ext. intros f. unfold Q. apply negb_involutive. }
           2:{ intros p Hp. rewrite Hfs3, Hf1. apply apply_writes_lookup_other. rewrite Hrp in Hp. exact Hp. }
           intros f d Hin Hl. rewrite Hfs3, Hf1.
           destruct (Forall2_in_l _ _ _ HF f Hin) as (d' & Hin' & Hl'). rewrite Hl in Hl'. injection Hl' as <-.
           destruct (Q f) eqn:EQ.
           ++ rewrite apply_writes_lookup_other; [apply Hfile_kept; assumption|].
              intros Hm. apply in_map_iff in Hm. destruct Hm as ([f2 d2] & E & Hm). cbn [fst] in E. subst f2.
              apply filter_In in Hm. destruct Hm as [_ Hq']. cbn [fst] in Hq'. rewrite EQ in Hq'. discriminate Hq'.
           ++ apply apply_writes_lookup.
              { apply NoDup_map_filter. rewrite (map_fst_combine_eq files datas HL). exact Hndf. }
              apply filter_In. split; [exact Hin'|]. cbn [fst]. rewrite EQ. reflexivity.
        -- destruct S as [-> | ->].
           ++ exfalso. pose proof (proj1 TF eq_refl) as Hlt. lia.
           ++ injection HR as <- <- <-. split; [reflexivity|]. split; [exact Hf1|reflexivity].
      * intros Hlt. assert (Erec : rec = Err ENotEnoughParity) by (apply TF; lia). subst rec.
        injection HR as <- <- <-. split; [reflexivity|]. split; [exact Hf1|reflexivity].
    + (* no volume is left: nothing can be reconstructed *)
      try rewrite Ekv in PL.
      assert (Htv : length (filter idb kv) = 0%nat) by (apply existsb_filter_zero; exact Ekv).
      match type of PL with _ = (Ok ?s0, _) => set (s := s0) in * end.
      unfold par1_repair in HR. rewrite PL in HR. cbv zeta in HR.
      change (s_size s) with 0%nat in HR. cbn [Nat.eqb] in HR.
      change (s_data s) with (erase keep datas) in HR.
      rewrite (count_none1_erase keep datas Hkl), Hfk in HR.
      split.
      * intros Hle. assert (H0 : missing = 0%nat) by lia. rewrite H0 in HR. cbn [Nat.eqb] in HR.
        injection HR as <- <- <-. left. split; [reflexivity|]. split; [|split; [symmetry; apply Hrp0; exact H0|]].
        -- intros f d Hin Hl. rewrite Hf1. apply Hfiles0; assumption.
        -- intros p _. rewrite Hf1. reflexivity.
      * intros Hlt. destruct (Nat.eqb_spec missing 0) as [E0|_]; [lia|].
        injection HR as <- <- <-. split; [reflexivity|]. split; [exact Hf1|reflexivity].
Qed.

(* RT5.  Lost input files, lost or damaged volumes, with at least as many usable volumes left as files lost:
   Repair restores every file byte for byte, or fails with the singular error and writes nothing. *)
Theorem par1_create_damage_files_and_volumes : forall md5, (forall x, length (md5 x) = 16%nat) ->
  forall parPath files nvol fs st' lost lostv fs2 dbl r rp st3,
  par1_create md5 parPath files nvol (io_init fs []) = (Ok tt, st') ->
  let nv := if (nvol <=? 0)%Z then 3%nat else Z.to_nat nvol in
  Forall (fun f => input_name_ok (base f)) files ->
  Forall (fun f => join2 (dir parPath) (base f) = f) files ->
  (forall f d, In f files -> fs_lookup fs f = Some d -> N.of_nat (length d) < 2^64 /\ wf_bytes d) ->
  Forall (fun f => f <> parPath /\ forall k, (1 <= k <= nv)%nat -> f <> volume_path parPath (N.of_nat k)) files ->
  (forall k, (nv < k <= Nat.min (256 - length files) 99)%nat ->
     fs_lookup fs (volume_path parPath (N.of_nat k)) = None /\ is_dir fs (volume_path parPath (N.of_nat k)) = false) ->
  incl lost files ->
  NoDup lostv -> (forall k, In k lostv -> (1 <= k <= Nat.min nv 99)%nat) ->
  (length lost <= Nat.min nv 99 - length lostv)%nat ->
  (forall f, In f lost -> is_dir (io_fs st') f = false) ->
  (* the state before Repair: Create's result without the lost files, off the volume paths of lostv ... *)
  (forall p, ~ In p (map (fun k => volume_path parPath (N.of_nat k)) lostv) ->
     fs_lookup fs2 p = fs_lookup (fs_remove lost (io_fs st')) p /\ is_dir fs2 p = is_dir (fs_remove lost (io_fs st')) p) ->
  (* ... and each volume of lostv removed (the path is then no directory), or replaced by bytes that do not parse *)
  (forall k, In k lostv ->
     (fs_lookup fs2 (volume_path parPath (N.of_nat k)) = None /\ is_dir fs2 (volume_path parPath (N.of_nat k)) = false) \/
     (exists b x, fs_lookup fs2 (volume_path parPath (N.of_nat k)) = Some b /\ read_volume md5 b = Err x)) ->
  par1_repair md5 parPath dbl (io_init fs2 []) = ((r, rp), st3) ->
  (r = Ok tt /\
   (forall f d, In f files -> fs_lookup fs f = Some d -> fs_lookup (io_fs st3) f = Some d) /\
   rp = filter (fun f => existsb (str_eqb f) lost) files)
  \/ (r = Err ESingular /\ io_fs st3 = fs2 /\ rp = []).
Proof.
  intros md5 md5_len parPath files nvol fs st' lost lostv fs2 dbl r rp st3 HC nv Hnames Hjoin Hlens Hdisj Hstale Hincl
         Hndv Hrange Hcount Hnodir Hagree Hdmg HR.
  destruct (create_setup md5 parPath files nvol fs st' HC Hnames (fun f d Hin Hl => proj1 (Hlens f d Hin Hl)))
    as (datas & _ & _ & _ & _ & _ & _ & _ & _ & _ & Hndf & _ & _).
  destruct (par1_damage_general md5 md5_len parPath files nvol fs st' lost lostv fs2 dbl r rp st3 HC Hnames Hjoin Hlens Hdisj
              Hstale Hincl Hndv Hrange Hnodir Hagree Hdmg HR) as [G _].
  assert (Hle : (length (filter (fun f => existsb (str_eqb f) lost) files) <= Nat.min nv 99 - length lostv)%nat).
  { apply Nat.le_trans with (length lost); [|exact Hcount].
    apply NoDup_incl_length; [apply NoDup_filter; exact Hndf|].
    intros f Hf. apply filter_In in Hf. destruct Hf as [_ Hq]. apply existsb_str_in. exact Hq. }
  destruct (G Hle) as [(G1 & G2 & G3 & _)|G'].
  - left. split; [exact G1|]. split; [exact G2|exact G3].
  - right. exact G'.
Qed.

(* The frame of RT5: whatever the outcome, Repair changes no path outside the list it reports; in particular the
   paths of lostv hold afterwards what they held before (the damaged volume files are still there). *)
Theorem par1_create_damage_volumes_still_there : forall md5, (forall x, length (md5 x) = 16%nat) ->
  forall parPath files nvol fs st' lost lostv fs2 dbl r rp st3,
  par1_create md5 parPath files nvol (io_init fs []) = (Ok tt, st') ->
  let nv := if (nvol <=? 0)%Z then 3%nat else Z.to_nat nvol in
  Forall (fun f => input_name_ok (base f)) files ->
  Forall (fun f => join2 (dir parPath) (base f) = f) files ->
  (forall f d, In f files -> fs_lookup fs f = Some d -> N.of_nat (length d) < 2^64 /\ wf_bytes d) ->
  Forall (fun f => f <> parPath /\ forall k, (1 <= k <= nv)%nat -> f <> volume_path parPath (N.of_nat k)) files ->
  (forall k, (nv < k <= Nat.min (256 - length files) 99)%nat ->
     fs_lookup fs (volume_path parPath (N.of_nat k)) = None /\ is_dir fs (volume_path parPath (N.of_nat k)) = false) ->
  incl lost files ->
  NoDup lostv -> (forall k, In k lostv -> (1 <= k <= Nat.min nv 99)%nat) ->
  (forall f, In f lost -> is_dir (io_fs st') f = false) ->
  (forall p, ~ In p (map (fun k => volume_path parPath (N.of_nat k)) lostv) ->
     fs_lookup fs2 p = fs_lookup (fs_remove lost (io_fs st')) p /\ is_dir fs2 p = is_dir (fs_remove lost (io_fs st')) p) ->
  (forall k, In k lostv ->
     (fs_lookup fs2 (volume_path parPath (N.of_nat k)) = None /\ is_dir fs2 (volume_path parPath (N.of_nat k)) = false) \/
     (exists b x, fs_lookup fs2 (volume_path parPath (N.of_nat k)) = Some b /\ read_volume md5 b = Err x)) ->
  par1_repair md5 parPath dbl (io_init fs2 []) = ((r, rp), st3) ->
  (forall p, ~ In p rp -> fs_lookup (io_fs st3) p = fs_lookup fs2 p) /\
  (forall k, In k lostv ->
     fs_lookup (io_fs st3) (volume_path parPath (N.of_nat k)) = fs_lookup fs2 (volume_path parPath (N.of_nat k))).
Proof.
  intros md5 md5_len parPath files nvol fs st' lost lostv fs2 dbl r rp st3 HC nv Hnames Hjoin Hlens Hdisj Hstale Hincl
         Hndv Hrange Hnodir Hagree Hdmg HR.
  destruct (par1_damage_general md5 md5_len parPath files nvol fs st' lost lostv fs2 dbl r rp st3 HC Hnames Hjoin Hlens Hdisj
              Hstale Hincl Hndv Hrange Hnodir Hagree Hdmg HR) as [G1 G2].
  fold nv in G1, G2.
  assert (Hfr : (forall p, ~ In p rp -> fs_lookup (io_fs st3) p = fs_lookup fs2 p) /\ incl rp files).
  { destruct (Nat.le_gt_cases (length (filter (fun f => existsb (str_eqb f) lost) files)) (Nat.min nv 99 - length lostv))
      as [Hle|Hgt].
    - destruct (G1 Hle) as [(_ & _ & E & F)|(_ & E & ->)].
      + split; [exact F|]. rewrite E. intros f Hf. apply filter_In in Hf. exact (proj1 Hf).
      + split; [intros p _; rewrite E; reflexivity|intros f []].
    - destruct (G2 Hgt) as (_ & E & ->). split; [intros p _; rewrite E; reflexivity|intros f []]. }
  destruct Hfr as [Hfr Hrpf]. split; [exact Hfr|].
  intros k Hk. apply Hfr. intros Hin. rewrite Forall_forall in Hdisj.
  destruct (Hdisj _ (Hrpf _ Hin)) as [_ D2]. pose proof (Hrange k Hk) as Hkr. apply (D2 k); [lia|reflexivity].
Qed.

(* RT6.  More (distinct) input files lost than usable volumes left: the not-enough error, nothing written. *)
Theorem par1_create_damage_too_many : forall md5, (forall x, length (md5 x) = 16%nat) ->
  forall parPath files nvol fs st' lost lostv fs2 dbl r rp st3,
  par1_create md5 parPath files nvol (io_init fs []) = (Ok tt, st') ->
  let nv := if (nvol <=? 0)%Z then 3%nat else Z.to_nat nvol in
  Forall (fun f => input_name_ok (base f)) files ->
  Forall (fun f => join2 (dir parPath) (base f) = f) files ->
  (forall f d, In f files -> fs_lookup fs f = Some d -> N.of_nat (length d) < 2^64 /\ wf_bytes d) ->
  Forall (fun f => f <> parPath /\ forall k, (1 <= k <= nv)%nat -> f <> volume_path parPath (N.of_nat k)) files ->
  (forall k, (nv < k <= Nat.min (256 - length files) 99)%nat ->
     fs_lookup fs (volume_path parPath (N.of_nat k)) = None /\ is_dir fs (volume_path parPath (N.of_nat k)) = false) ->
  incl lost files -> NoDup lost ->
  NoDup lostv -> (forall k, In k lostv -> (1 <= k <= Nat.min nv 99)%nat) ->
  (Nat.min nv 99 - length lostv < length lost)%nat ->
  (forall f, In f lost -> is_dir (io_fs st') f = false) ->
  (forall p, ~ In p (map (fun k => volume_path parPath (N.of_nat k)) lostv) ->
     fs_lookup fs2 p = fs_lookup (fs_remove lost (io_fs st')) p /\ is_dir fs2 p = is_dir (fs_remove lost (io_fs st')) p) ->
  (forall k, In k lostv ->
     (fs_lookup fs2 (volume_path parPath (N.of_nat k)) = None /\ is_dir fs2 (volume_path parPath (N.of_nat k)) = false) \/
     (exists b x, fs_lookup fs2 (volume_path parPath (N.of_nat k)) = Some b /\ read_volume md5 b = Err x)) ->
  par1_repair md5 parPath dbl (io_init fs2 []) = ((r, rp), st3) ->
  r = Err ENotEnoughParity /\ io_fs st3 = fs2 /\ rp = [].
Proof.
  intros md5 md5_len parPath files nvol fs st' lost lostv fs2 dbl r rp st3 HC nv Hnames Hjoin Hlens Hdisj Hstale Hincl Hndl
         Hndv Hrange Hcount Hnodir Hagree Hdmg HR.
  destruct (par1_damage_general md5 md5_len parPath files nvol fs st' lost lostv fs2 dbl r rp st3 HC Hnames Hjoin Hlens Hdisj
              Hstale Hincl Hndv Hrange Hnodir Hagree Hdmg HR) as [_ G].
  apply G. fold nv.
  apply Nat.lt_le_trans with (length lost); [exact Hcount|].
  apply NoDup_incl_length; [exact Hndl|].
  intros f Hf. apply filter_In. split; [exact (Hincl f Hf)|apply existsb_str_in; exact Hf].
Qed.

Print Assumptions par1_damage_general.
Print Assumptions par1_create_damage_files_and_volumes.
Print Assumptions par1_create_damage_volumes_still_there.
Print Assumptions par1_create_damage_too_many.

(** * ANY volume set: a list of unparsable volumes is a list of missing volumes, for the loader and for Repair *)

Lemma apply_writes_lookup_agree (ws : list (list N * bytes)) : forall (a b : list (list N * bytes)) p,
  fs_lookup a p = fs_lookup b p -> fs_lookup (apply_writes ws a) p = fs_lookup (apply_writes ws b) p.
Proof.
  unfold apply_writes. induction ws as [|[q d] ws IH]; intros a b p H; cbn [fold_left fst snd]; [exact H|].
  apply IH. destruct (list_eq_dec N.eq_dec q p) as [->|NE].
  - rewrite !fs_lookup_set_same. reflexivity.
  - rewrite !fs_lookup_set_other by exact NE. exact H.
Qed.

Section TwoRuns.
  Variable md5 : bytes -> bytes.

  (* the path reads the same in both states, or is absent in the first and holds an unparsable file in the second *)
  Definition same_or_skipped (fs fs' : list (list N * bytes)) (p : list N) : Prop :=
    read_res fs' p = read_res fs p \/
    (read_res fs p = Err ENotExist /\ exists b x, read_res fs' p = Ok b /\ read_volume md5 b = Err x).

  (* load_vols_fst_skip of Par1Volumes.v for any number of such paths *)
  Lemma load_vols_fst_skip_many ix sh :
    forall n i size acc st st2, io_sched st = [] -> io_sched st2 = [] ->
    (forall j, same_or_skipped (io_fs st) (io_fs st2) (volume_path ix (N.of_nat j))) ->
    fst (load_vols md5 ix sh i n size acc st2) = fst (load_vols md5 ix sh i n size acc st).
  Proof.
    induction n as [|n IH]; intros i size acc st st2 Hs Hs2 Hrd; cbn [load_vols]; [reflexivity|].
    destruct (io_read_nosched (volume_path ix (N.of_nat (S i))) st Hs) as (s1 & ER & Hs1 & Hf1).
    destruct (io_read_nosched (volume_path ix (N.of_nat (S i))) st2 Hs2) as (s2 & ER2 & Hs2' & Hf2).
    rewrite ER, ER2.
    assert (IH' : forall i' size' acc',
              fst (load_vols md5 ix sh i' n size' acc' s2) = fst (load_vols md5 ix sh i' n size' acc' s1)).
    { intros i' size' acc'. apply IH; [exact Hs1|exact Hs2'|]. intros j. rewrite Hf1, Hf2. apply Hrd. }
    destruct (Hrd (S i)) as [E|(E1 & b & x & E2 & Hb)].
    - rewrite E.
      destruct (read_res (io_fs st) (volume_path ix (N.of_nat (S i)))) as [b'|x'|q']; [| |reflexivity].
      + destruct (read_volume md5 b') as [v|x''|q'']; [|apply IH'|reflexivity].
        repeat lazymatch goal with
               | |- fst (if ?c then _ else _) = _ => destruct c; [first [reflexivity | apply IH']|]
               end.
        apply IH'.
      + destruct x'; try reflexivity. apply IH'.
    - rewrite E1, E2, Hb. apply IH'.
  Qed.

  (* the loading phase, over the read results of the paths it touches *)
  Lemma p1_load_fst_same_many ix fs fs' :
    read_res fs' ix = read_res fs ix ->
    (forall bi v e, read_res fs ix = Ok bi -> read_volume md5 bi = Ok v -> In e (v_entries v) -> saved e = true ->
       read_res fs' (epath ix e) = read_res fs (epath ix e)) ->
    (forall j, same_or_skipped fs fs' (volume_path ix (N.of_nat j))) ->
    fst (p1_load md5 ix (io_init fs' [])) = fst (p1_load md5 ix (io_init fs [])).
  Proof.
    intros Hix Hent Hvol. unfold p1_load.
    destruct (negb (str_eqb (ext ix) EXT_PAR)); [reflexivity|].
    destruct (io_read_nosched ix (io_init fs []) eq_refl) as (s1 & ER & Hs1 & Hf1).
    destruct (io_read_nosched ix (io_init fs' []) eq_refl) as (s1' & ER' & Hs1' & Hf1').
    cbn [io_init io_fs] in ER, ER', Hf1, Hf1'. rewrite ER, ER', Hix.
    destruct (read_res fs ix) as [bi|x0|q0] eqn:Eix; [|reflexivity|reflexivity].
    destruct (read_volume md5 bi) as [v|x0|q0] eqn:Ev; [|reflexivity|reflexivity].
    destruct (negb (v_number v =? 0)); [reflexivity|].
    set (es := filter saved (v_entries v)).
    assert (HD : fst (load_data md5 ix es s1') = fst (load_data md5 ix es s1)).
    { apply load_data_fst_same; [exact Hs1|exact Hs1'|].
      intros e Hin. unfold es in Hin. apply filter_In in Hin. destruct Hin as [Hin Hsv].
      rewrite Hf1, Hf1'. exact (Hent bi v e eq_refl Ev Hin Hsv). }
    pose proof (load_data_pres md5 ix es s1) as P1. pose proof (load_data_pres md5 ix es s1') as P1'.
    destruct (load_data md5 ix es s1) as [[ds|x0|q0] s2]; destruct (load_data md5 ix es s1') as [[ds'|x0'|q0'] s2'];
      cbn [fst snd] in HD, P1, P1' |- *; try discriminate HD;
      try (injection HD as ->; reflexivity).
    injection HD as ->.
    destruct ds as [|d0 ds]; [reflexivity|].
    fold es. destruct (256 <=? N.of_nat (length es)); [reflexivity|]. cbv zeta.
    destruct P1 as (Pf & Ps & _). destruct P1' as (Pf' & Ps' & _).
    rewrite Hs1 in Ps. rewrite Hs1' in Ps'. rewrite Hf1 in Pf. rewrite Hf1' in Pf'.
    match goal with |- context [load_vols md5 ix ?a ?i ?n ?s ?acc s2] =>
      pose proof (load_vols_fst_skip_many ix a n i s acc s2 s2' Ps Ps') as HV;
      destruct (load_vols md5 ix a i n s acc s2) as [[[slots size]|x0|q0] s3];
      destruct (load_vols md5 ix a i n s acc s2') as [[[slots' size']|x0'|q0'] s3'] end;
      cbn [fst] in HV |- *;
      (assert (HV' : _) by (apply HV; intros j; rewrite Pf, Pf'; apply Hvol));
      try discriminate HV'; injection HV'; intros; subst; reflexivity.
  Qed.

  (* the two states: fs' agrees with fs off the volume paths ks; there fs has nothing, fs' nothing or an unparsable file *)
  Definition volumes_damaged (ix : list N) (ks : list N) (fs fs' : list (list N * bytes)) : Prop :=
    (forall p, ~ In p (map (volume_path ix) ks) -> fs_lookup fs' p = fs_lookup fs p /\ is_dir fs' p = is_dir fs p) /\
    (forall k, In k ks ->
       fs_lookup fs (volume_path ix k) = None /\ is_dir fs (volume_path ix k) = false /\
       ((fs_lookup fs' (volume_path ix k) = None /\ is_dir fs' (volume_path ix k) = false) \/
        (exists b x, fs_lookup fs' (volume_path ix k) = Some b /\ read_volume md5 b = Err x))).

  (* no saved entry of the index is named like one of those volumes *)
  Definition no_entry_named (ix : list N) (ks : list N) (fs : list (list N * bytes)) : Prop :=
    forall bi v e, fs_lookup fs ix = Some bi -> read_volume md5 bi = Ok v -> In e (v_entries v) -> saved e = true ->
      ~ In (join2 (dir ix) (e_name e)) (map (volume_path ix) ks).

  (** ** V2 for a list: the loading phase ignores any number of present but unparsable volumes *)
  Theorem p1_load_ignores_unparsable_volumes ix ks fs fs' :
    volumes_damaged ix ks fs fs' -> no_entry_named ix ks fs ->
    fst (p1_load md5 ix (io_init fs' [])) = fst (p1_load md5 ix (io_init fs [])).
  Proof.
    intros [Hdiff Hks] Hent.
    destruct (str_eqb (ext ix) EXT_PAR) eqn:He.
    2:{ unfold p1_load. rewrite He. reflexivity. }
    assert (Hsame : forall p, ~ In p (map (volume_path ix) ks) -> read_res fs' p = read_res fs p).
    { intros p Hp. unfold read_res. destruct (Hdiff p Hp) as [-> ->]. reflexivity. }
    apply (p1_load_fst_same_many ix fs fs').
    - apply Hsame. intros Hin. apply in_map_iff in Hin. destruct Hin as (k & E & _).
      exact (index_not_volume ix k He (eq_sym E)).
    - intros bi v e Hix Hv Hin Hsv. apply Hsame. unfold epath.
      exact (Hent bi v e (read_res_ok_lookup fs ix bi Hix) Hv Hin Hsv).
    - intros j. unfold same_or_skipped.
      destruct (in_dec (list_eq_dec N.eq_dec) (volume_path ix (N.of_nat j)) (map (volume_path ix) ks)) as [Hin|Hni].
      + apply in_map_iff in Hin. destruct Hin as (k & E & Hk). rewrite <- E.
        destruct (Hks k Hk) as (H1 & H2 & [[H3 H4]|(b & x & H3 & H4)]).
        * left. unfold read_res. rewrite H1, H2, H3, H4. reflexivity.
        * right. split; [unfold read_res; rewrite H1, H2; reflexivity|].
          exists b, x. split; [unfold read_res; rewrite H3; reflexivity|exact H4].
      + left. apply Hsame. exact Hni.
  Qed.

  (* the write-out phase on two fault-free states: the same outcome and list, and the same writes *)
  Lemma write_repaired_two ix : forall todo done st st2, io_sched st = [] -> io_sched st2 = [] ->
    exists ws,
      fst (p1_write_repaired md5 ix todo done st2) = fst (p1_write_repaired md5 ix todo done st) /\
      io_fs (snd (p1_write_repaired md5 ix todo done st)) = apply_writes ws (io_fs st) /\
      io_fs (snd (p1_write_repaired md5 ix todo done st2)) = apply_writes ws (io_fs st2) /\
      snd (fst (p1_write_repaired md5 ix todo done st)) = done ++ map fst ws.
  Proof.
    assert (Hnil : forall (o : outcome unit) (done : list (list N)) (st st2 : io),
              exists ws : list (list N * bytes),
                fst ((o, done), st2) = fst ((o, done), st) /\
                io_fs (snd ((o, done), st)) = apply_writes ws (io_fs st) /\
                io_fs (snd ((o, done), st2)) = apply_writes ws (io_fs st2) /\
                snd (fst ((o, done), st)) = done ++ map fst ws).
    { intros o done st st2. exists []. cbn [fst snd map]. rewrite app_nil_r. repeat split; reflexivity. }
    induction todo as [|[e [[d|] shard]] todo IH]; intros done st st2 Hs Hs2; cbn [p1_write_repaired].
    - apply Hnil.
    - apply IH; assumption.
    - destruct (N.of_nat (length shard) <? e_len e); [apply Hnil|]. cbv zeta.
      destruct (negb (bytes_eqb (hash16k md5 (firstn (N.to_nat (e_len e)) shard)) (e_h16 e))); [apply Hnil|].
      destruct (negb (bytes_eqb (md5 (firstn (N.to_nat (e_len e)) shard)) (e_hash e))); [apply Hnil|].
      destruct (entry_path ix e) as [p|x|q]; [|apply Hnil|apply Hnil].
      set (data := firstn (N.to_nat (e_len e)) shard).
      rewrite (io_write_nosched p data st Hs), (io_write_nosched p data st2 Hs2).
      destruct (IH (done ++ [p]) (tick st (EvWrite p data true) (fs_set (io_fs st) p data))
                   (tick st2 (EvWrite p data true) (fs_set (io_fs st2) p data)) Hs Hs2) as (ws & E1 & E2 & E3 & E4).
      exists ((p, data) :: ws). split; [exact E1|]. split; [exact E2|]. split; [exact E3|].
      rewrite E4, <- app_assoc. reflexivity.
  Qed.

  (** ** Repair ignores any number of present but unparsable volumes *)
  (* The same outcome and the same reported list; both runs write the same files with the same bytes (the reported
     ones), so the final file maps agree wherever the initial ones do: everywhere but on the damaged volume paths,
     which keep their content. *)
  Theorem par1_repair_ignores_unparsable_volumes ix ks dbl fs fs' :
    volumes_damaged ix ks fs fs' -> no_entry_named ix ks fs ->
    fst (par1_repair md5 ix dbl (io_init fs' [])) = fst (par1_repair md5 ix dbl (io_init fs [])) /\
    exists ws,
      io_fs (snd (par1_repair md5 ix dbl (io_init fs []))) = apply_writes ws fs /\
      io_fs (snd (par1_repair md5 ix dbl (io_init fs' []))) = apply_writes ws fs' /\
      snd (fst (par1_repair md5 ix dbl (io_init fs []))) = map fst ws.
  Proof.
    intros Hvd Hent.
    pose proof (p1_load_ignores_unparsable_volumes ix ks fs fs' Hvd Hent) as E.
    pose proof (p1_load_pres md5 ix (io_init fs [])) as P. pose proof (p1_load_pres md5 ix (io_init fs' [])) as P'.
    unfold par1_repair.
    destruct (p1_load md5 ix (io_init fs' [])) as [o' st1']. destruct (p1_load md5 ix (io_init fs [])) as [o st1].
    cbn [fst snd] in E, P, P'. subst o'.
    destruct P as (Pf & Ps & _). destruct P' as (Pf' & Ps' & _). cbn [io_init io_fs io_sched] in Pf, Ps, Pf', Ps'.
    assert (Hnil : forall (o : outcome unit),
              fst ((o, @nil (list N)), st1') = fst ((o, @nil (list N)), st1) /\
              exists ws : list (list N * bytes),
                io_fs (snd ((o, @nil (list N)), st1)) = apply_writes ws fs /\
                io_fs (snd ((o, @nil (list N)), st1')) = apply_writes ws fs' /\
                snd (fst ((o, @nil (list N)), st1)) = map fst ws).
    { intros o0. split; [reflexivity|]. exists []. cbn [fst snd map apply_writes fold_left]. repeat split; assumption. }
    destruct o as [s|x|q]; [|apply Hnil|apply Hnil]. cbv zeta.
    destruct (Nat.eqb (s_size s) 0).
    { destruct (Nat.eqb (count_none1 (s_data s)) 0); apply Hnil. }
    destruct (Nat.ltb 256 (length (s_data s) + length (s_parity s))); [apply Hnil|].
    destruct (build_shards s) as [sh|x|q]; [|apply Hnil|apply Hnil].
    destruct (par1_reconstruct (length (s_data s)) (length (s_parity s)) sh) as [full|x|q]; [|apply Hnil|apply Hnil].
    assert (Hok : exists okdbl : outcome bool,
              (if dbl then match rs_verify (length (s_data s)) (length (s_parity s)) (map Some full) with
                           | Ok b => Ok b | Err x => Err x | Panic q => Panic q end
               else Ok true) = okdbl) by (eexists; reflexivity).
    destruct Hok as (okdbl & ->).
    destruct okdbl as [[|]|x|q]; [|apply Hnil|apply Hnil|apply Hnil].
    match goal with |- context [p1_write_repaired md5 ix ?todo [] st1] =>
      destruct (write_repaired_two ix todo [] st1 st1' Ps Ps') as (ws & E1 & E2 & E3 & E4) end.
    split; [exact E1|]. exists ws. rewrite E2, E3, E4, Pf, Pf'. repeat split; reflexivity.
  Qed.

  (* the final file maps agree off the damaged volume paths, and those keep what they held *)
  Corollary par1_repair_ignores_unparsable_volumes_final ix ks dbl fs fs' :
    volumes_damaged ix ks fs fs' -> no_entry_named ix ks fs ->
    let res := par1_repair md5 ix dbl (io_init fs []) in
    let res' := par1_repair md5 ix dbl (io_init fs' []) in
    fst res' = fst res /\
    (forall p, ~ In p (map (volume_path ix) ks) -> fs_lookup (io_fs (snd res')) p = fs_lookup (io_fs (snd res)) p) /\
    (forall p, ~ In p (snd (fst res)) -> fs_lookup (io_fs (snd res')) p = fs_lookup fs' p).
  Proof.
    intros Hvd Hent res res'.
    destruct (par1_repair_ignores_unparsable_volumes ix ks dbl fs fs' Hvd Hent) as (E & ws & E1 & E2 & E3).
    fold res in E, E1, E3. fold res' in E, E2.
    split; [exact E|]. split.
    - intros p Hp. rewrite E1, E2. apply apply_writes_lookup_agree. exact (proj1 (proj1 Hvd p Hp)).
    - intros p Hp. rewrite E2. apply apply_writes_lookup_other. rewrite <- E3. exact Hp.
  Qed.
End TwoRuns.

Print Assumptions p1_load_ignores_unparsable_volumes.
Print Assumptions par1_repair_ignores_unparsable_volumes.
Print Assumptions par1_repair_ignores_unparsable_volumes_final.

(** * instances (toy hash) *)

(* Three files "x", "y", "z" beside "a.par", four volumes.  "y" is deleted and "a.p02" is replaced by three bytes
   of garbage, which read_volume rejects.  Repair (with the double check) returns Ok, reports "y", has the bytes of
   "y" back, and leaves the garbage in "a.p02". *)
Definition dm_garbage : bytes := [1; 2; 3].
Definition dm_state (fs' : list (list N * bytes)) : list (list N * bytes) :=
  fs_set (fs_remove [[121]] fs') (volume_path ex_ix 2) dm_garbage.

Example par1_damaged_volume_instance :
  let fs' := io_fs (snd (par1_create toy_hash ex_ix sg_files 4%Z (io_init sg_fs0 []))) in
  let fs2 := dm_state fs' in
  let res := par1_repair toy_hash ex_ix true (io_init fs2 []) in
  fst (par1_create toy_hash ex_ix sg_files 4%Z (io_init sg_fs0 [])) = Ok tt /\
  read_volume toy_hash dm_garbage = Err EMalformed /\
  fs_lookup fs2 (volume_path ex_ix 2) = Some dm_garbage /\ fs_lookup fs2 [121] = None /\
  fst res = (Ok tt, [[121]]) /\
  fs_lookup (io_fs (snd res)) [120] = Some [1; 2; 3] /\
  fs_lookup (io_fs (snd res)) [121] = Some [4; 5; 6; 7] /\
  fs_lookup (io_fs (snd res)) [122] = Some [9] /\
  fs_lookup (io_fs (snd res)) (volume_path ex_ix 2) = Some dm_garbage.
Proof. repeat split; vm_compute; reflexivity. Qed.

(* Damage of every kind at once: "x" and "y" deleted; "a.p01" cut to its first 50 bytes (too short), "a.p03"
   replaced by garbage, "a.p04" deleted; only "a.p02" is left, for two lost files: not enough.  With "a.p04" kept
   instead, two volumes are left for two files: Ok, both files back, the damaged volumes untouched. *)
Example par1_damaged_volumes_mixed_instance :
  let fs' := io_fs (snd (par1_create toy_hash ex_ix sg_files 4%Z (io_init sg_fs0 []))) in
  let cut := match fs_lookup fs' (volume_path ex_ix 1) with Some b => firstn 50 b | None => [] end in
  let dmg := fun fs => fs_set (fs_set fs (volume_path ex_ix 1) cut) (volume_path ex_ix 3) dm_garbage in
  let fsA := dmg (fs_remove [[120]; [121]; volume_path ex_ix 4] fs') in
  let fsB := dmg (fs_remove [[120]; [121]] fs') in
  let resB := par1_repair toy_hash ex_ix true (io_init fsB []) in
  length cut = 50%nat /\ read_volume toy_hash cut = Err EMalformed /\
  fst (par1_repair toy_hash ex_ix true (io_init fsA [])) = (Err ENotEnoughParity, []) /\
  io_fs (snd (par1_repair toy_hash ex_ix true (io_init fsA []))) = fsA /\
  fst resB = (Ok tt, [[120]; [121]]) /\
  fs_lookup (io_fs (snd resB)) [120] = Some [1; 2; 3] /\
  fs_lookup (io_fs (snd resB)) [121] = Some [4; 5; 6; 7] /\
  fs_lookup (io_fs (snd resB)) (volume_path ex_ix 1) = Some cut /\
  fs_lookup (io_fs (snd resB)) (volume_path ex_ix 3) = Some dm_garbage.
Proof. repeat split; vm_compute; reflexivity. Qed.

(* a path without separator is below no directory *)
Lemma starts_with_noslash q p : ~ In SLASH q -> starts_with q (p ++ [SLASH]) = false.
Proof.
  intros Hq. destruct (starts_with q (p ++ [SLASH])) eqn:E; [|reflexivity]. exfalso. apply Hq.
  unfold starts_with in E. apply str_eqb_eq in E.
  rewrite <- (firstn_skipn (length (p ++ [SLASH])) q), E.
  apply in_or_app. left. apply in_or_app. right. left. reflexivity.
Qed.

(* the premises of RT5 hold for the first instance (so RT5 is not vacuous), and RT5 gives its outcome *)
Example par1_rt5_premises_inhabited :
  exists st',
    par1_create toy_hash ex_ix sg_files 4%Z (io_init sg_fs0 []) = (Ok tt, st') /\
    let lost := [[121]] in
    let lostv := [2%nat] in
    let fs2 := dm_state (io_fs st') in
    incl lost sg_files /\ NoDup lostv /\ (forall k, In k lostv -> (1 <= k <= Nat.min 4 99)%nat) /\
    (length lost <= Nat.min 4 99 - length lostv)%nat /\
    (forall f, In f lost -> is_dir (io_fs st') f = false) /\
    (forall p, ~ In p (map (fun k => volume_path ex_ix (N.of_nat k)) lostv) ->
       fs_lookup fs2 p = fs_lookup (fs_remove lost (io_fs st')) p /\ is_dir fs2 p = is_dir (fs_remove lost (io_fs st')) p) /\
    (forall k, In k lostv ->
       (fs_lookup fs2 (volume_path ex_ix (N.of_nat k)) = None /\ is_dir fs2 (volume_path ex_ix (N.of_nat k)) = false) \/
       (exists b x, fs_lookup fs2 (volume_path ex_ix (N.of_nat k)) = Some b /\ read_volume toy_hash b = Err x)) /\
    forall dbl r rp st3, par1_repair toy_hash ex_ix dbl (io_init fs2 []) = ((r, rp), st3) ->
      (r = Ok tt /\
       (forall f d, In f sg_files -> fs_lookup sg_fs0 f = Some d -> fs_lookup (io_fs st3) f = Some d) /\
       rp = filter (fun f => existsb (str_eqb f) lost) sg_files)
      \/ (r = Err ESingular /\ io_fs st3 = fs2 /\ rp = []).
Proof.
  destruct (par1_create toy_hash ex_ix sg_files 4%Z (io_init sg_fs0 [])) as [o st'] eqn:HC.
  assert (Ho : o = Ok tt) by (apply (f_equal fst) in HC; vm_compute in HC; symmetry; exact HC). subst o.
  assert (Hst : io_fs st' = io_fs (snd (par1_create toy_hash ex_ix sg_files 4%Z (io_init sg_fs0 []))))
    by (rewrite HC; reflexivity).
  exists st'. split; [reflexivity|]. cbv zeta.
  assert (P1 : incl [[121]] sg_files) by (intros f [<-|[]]; right; left; reflexivity).
  assert (P2 : NoDup [2%nat]) by (repeat constructor; intros []).
  assert (P3 : forall k, In k [2%nat] -> (1 <= k <= Nat.min 4 99)%nat) by (intros k [<-|[]]; cbv; lia).
  assert (P4 : (length [[121]] <= Nat.min 4 99 - length [2%nat])%nat) by (cbv; lia).
  assert (P5 : forall f, In f [[121]] -> is_dir (io_fs st') f = false).
  { intros f [<-|[]]. rewrite Hst. vm_compute. reflexivity. }
  assert (Evp : volume_path ex_ix 2 = [97; 46; 112; 48; 50]) by (vm_compute; reflexivity).
  assert (P6 : forall p, ~ In p (map (fun k => volume_path ex_ix (N.of_nat k)) [2%nat]) ->
             fs_lookup (dm_state (io_fs st')) p = fs_lookup (fs_remove [[121]] (io_fs st')) p /\
             is_dir (dm_state (io_fs st')) p = is_dir (fs_remove [[121]] (io_fs st')) p).
  { intros p Hp. cbn [map In] in Hp. change (N.of_nat 2) with 2 in Hp. unfold dm_state. split.
    - apply fs_lookup_set_other. intros E. apply Hp. left. exact E.
    - apply is_dir_set_other. apply starts_with_noslash. rewrite Evp. unfold SLASH. cbn [In].
      intros H. repeat (destruct H as [H|H]; [discriminate H|]). exact H. }
  assert (P7 : forall k, In k [2%nat] ->
             (fs_lookup (dm_state (io_fs st')) (volume_path ex_ix (N.of_nat k)) = None /\
              is_dir (dm_state (io_fs st')) (volume_path ex_ix (N.of_nat k)) = false) \/
             (exists b x, fs_lookup (dm_state (io_fs st')) (volume_path ex_ix (N.of_nat k)) = Some b /\
                          read_volume toy_hash b = Err x)).
  { intros k [<-|[]]. right. exists dm_garbage, EMalformed. split; [|vm_compute; reflexivity].
    unfold dm_state. change (N.of_nat 2) with 2. apply fs_lookup_set_same. }
  repeat (split; [assumption|]).
  intros dbl r rp st3 HR.
  destruct sg_premises as (S1 & S2 & S3 & S4 & S5).
  exact (par1_create_damage_files_and_volumes toy_hash toy_hash_len ex_ix sg_files 4%Z sg_fs0 st' [[121]] [2%nat]
           (dm_state (io_fs st')) dbl r rp st3 HC S1 S2 S3 S4 S5 P1 P2 P3 P4 P5 P6 P7 HR).
Qed.

(* LIMIT.  The premise "a REMOVED volume path is not a directory" is needed: with "a.p01/z" in the file map, deleting
   "a.p01" leaves a directory there and the loader's read fails with an I/O error (par1_lost_volume_is_dir_refuted
   in Par1RoundTrip2.v).  A DAMAGED volume needs no such premise: with garbage in "a.p01" and "a.p01/z" below it,
   ReadFile returns the garbage, the volume is skipped, and Repair restores the lost file. *)
Example par1_damaged_volume_over_directory :
  let fs0 := sg_fs0 ++ [([97; 46; 112; 48; 49; 47; 122], [9])] in
  let fs' := io_fs (snd (par1_create toy_hash ex_ix sg_files 4%Z (io_init fs0 []))) in
  let fs2 := fs_set (fs_remove [[121]] fs') (volume_path ex_ix 1) dm_garbage in
  fst (par1_create toy_hash ex_ix sg_files 4%Z (io_init fs0 [])) = Ok tt /\
  is_dir fs2 (volume_path ex_ix 1) = true /\
  fst (par1_repair toy_hash ex_ix true (io_init fs2 [])) = (Ok tt, [[121]]) /\
  fs_lookup (io_fs (snd (par1_repair toy_hash ex_ix true (io_init fs2 [])))) [121] = Some [4; 5; 6; 7].
Proof. repeat split; vm_compute; reflexivity. Qed.
