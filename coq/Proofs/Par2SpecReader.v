(* C06, ACCEPTANCE: what the specification-side PAR2 parser (Model/Par2Spec.v: s_parse) accepts, gopar's reader accepts,
   with the same fields.

   A  s_parse_is_frames: every byte string the specification-side parser accepts is [frames md5 l] for the parsed
      packets l, all well-formed (the bridge from bytes to the abstract packets of Proofs/Par2Layout.v); with
      Par2SpecFacts.s_parse_frames (s_parse (frames l) = l) the two are inverse to each other.
   B  specification-side body decoders (s_main, s_fdesc, s_ifsc, s_recv: written from the PAR 2.0 packet layouts, sharing
      with the reader model only md5, le_decode and s_chunks) and the per-packet links to gopar's body readers, each
      under the requirement gopar adds (g_main_extra, g_fdesc_extra, g_ifsc_extra, g_recv_extra).
   R1 spec_index_accepted: new_decoder on a specification-accepted index file.
   R2 spec_volume_accepted: read_file_vol on a specification-accepted recovery file.
   R3 spec_set_loaded: load_all on a directory holding a specification-accepted set. *)
From Coq Require Import Lia ZifyN ZifyNat ZifyBool.
From Gopar Require Import Model.Base Model.GF16 Model.Matrix Model.RS16 Model.CRC Model.GoPath Model.FS Model.Par2 Model.Par2Spec
     Proofs.GoPathFacts Proofs.Par1Clean Proofs.Par2Facts Proofs.Par2Create Proofs.Par2Layout Proofs.Par2Verify Proofs.Par2Clean
     Proofs.Par2Ignore Proofs.Par2CreatePaths Proofs.Par2Reader2 Proofs.Par2LayoutOps Proofs.Par2SpecFacts Proofs.Par2EndToEnd.
Open Scope N_scope.
Set Default Timeout 120.

Lemma some_inj {A} (x y : A) : Some x = Some y -> x = y.
Proof. congruence. Qed.

(** * little-endian fields of a byte string *)
Lemma le_decode_lt : forall x, wf_bytes x -> le_decode x < 256 ^ N.of_nat (length x).
Proof.
  induction x as [|a x IH]; intros H.
  - cbn [le_decode length]. change (256 ^ N.of_nat 0) with 1. lia.
  - inversion H as [|? ? Ha Hx]; subst. specialize (IH Hx). unfold wf_byte in Ha.
    cbn [le_decode length]. rewrite Nat2N.inj_succ, N.pow_succ_r'. lia.
Qed.

Lemma le_encode_decode : forall x, wf_bytes x -> le_encode (length x) (le_decode x) = x.
Proof.
  induction x as [|a x IH]; intros H; [reflexivity|].
  inversion H as [|? ? Ha Hx]; subst. unfold wf_byte in Ha.
  cbn [length le_decode le_encode].
  assert (E1 : (a + 256 * le_decode x) mod 256 = a).
  { rewrite (N.mul_comm 256), N.mod_add by discriminate. apply N.mod_small. exact Ha. }
  assert (E2 : (a + 256 * le_decode x) / 256 = le_decode x).
  { rewrite (N.mul_comm 256), N.div_add by discriminate. rewrite (N.div_small a 256 Ha). reflexivity. }
  rewrite E1, E2, (IH Hx). reflexivity.
Qed.

Lemma wf_bytes_firstn n (b : bytes) : wf_bytes b -> wf_bytes (firstn n b).
Proof. unfold wf_bytes. intros H. rewrite <- (firstn_skipn n b) in H. apply Forall_app in H. tauto. Qed.
Lemma wf_bytes_skipn n (b : bytes) : wf_bytes b -> wf_bytes (skipn n b).
Proof. unfold wf_bytes. intros H. rewrite <- (firstn_skipn n b) in H. apply Forall_app in H. tauto. Qed.

(* a list of at least 64 elements, cut at the offsets of the packet header *)
Lemma split_header (p : bytes) : (64 <= length p)%nat ->
  p = firstn 8 p ++ firstn 8 (skipn 8 p) ++ firstn 16 (skipn 16 p) ++ firstn 16 (skipn 32 p) ++ firstn 16 (skipn 48 p) ++ skipn 64 p.
Proof.
  intros _. symmetry.
  rewrite (skipn_add 48 16 p : skipn 64 p = _), (firstn_skipn 16 (skipn 48 p)).
  rewrite (skipn_add 32 16 p : skipn 48 p = _), (firstn_skipn 16 (skipn 32 p)).
  rewrite (skipn_add 16 16 p : skipn 32 p = _), (firstn_skipn 16 (skipn 16 p)).
  rewrite (skipn_add 8 8 p : skipn 16 p = _), (firstn_skipn 8 (skipn 8 p)).
  apply firstn_skipn.
Qed.

Definition of_sp (p : spacket) : apkt := (sp_set p, sp_type p, sp_body p).

Section Bridge.
  Variable md5 : bytes -> bytes.

  Lemma s_parse_inv fuel b pkts : s_parse md5 (S fuel) b = Some pkts ->
    (b = [] /\ pkts = []) \/
    exists r,
      let len := le_decode (firstn 8 (skipn 8 b)) in
      let pkt := firstn (N.to_nat len) b in
      (64 <= length b)%nat /\ firstn 8 b = s_magic /\ 64 <= len /\ len mod 4 = 0 /\ len <= N.of_nat (length b) /\
      md5 (skipn 32 pkt) = firstn 16 (skipn 16 pkt) /\
      s_parse md5 fuel (skipn (N.to_nat len) b) = Some r /\
      pkts = {| sp_set := firstn 16 (skipn 32 pkt); sp_type := firstn 16 (skipn 48 pkt); sp_body := skipn 64 pkt |} :: r.
  Proof.
    intros H. destruct b as [|b0 b]; [left; split; [reflexivity|]; cbn [s_parse] in H; congruence|].
    right. rewrite s_parse_S in H by discriminate.
    destruct (Nat.ltb (length (b0 :: b)) 64) eqn:E0; [discriminate H|]. apply Nat.ltb_ge in E0.
    cbv zeta in H.
    set (len := le_decode (firstn 8 (skipn 8 (b0 :: b)))) in *.
    destruct (beq (firstn 8 (b0 :: b)) s_magic) eqn:E1; [|discriminate H].
    destruct (len <? 64) eqn:E2; [discriminate H|].
    destruct (len mod 4 =? 0) eqn:E3; [|discriminate H].
    destruct (N.of_nat (length (b0 :: b)) <? len) eqn:E4; [discriminate H|].
    cbn [negb orb] in H.
    set (pkt := firstn (N.to_nat len) (b0 :: b)) in *.
    destruct (beq (md5 (skipn 32 pkt)) (firstn 16 (skipn 16 pkt))) eqn:E5; [|discriminate H].
    cbn [negb] in H.
    destruct (s_parse md5 fuel (skipn (N.to_nat len) (b0 :: b))) as [r|] eqn:E6; [|discriminate H].
    exists r. cbv zeta. fold len. fold pkt.
    split; [exact E0|]. split; [apply beq_eq; exact E1|].
    split; [apply N.ltb_ge; exact E2|]. split; [apply N.eqb_eq; exact E3|].
    split; [apply N.ltb_ge; exact E4|]. split; [apply beq_eq; exact E5|].
    split; [exact E6|]. congruence.
  Qed.

  (* A: what the specification-side parser accepts is a sequence of framed well-formed packets *)
  Theorem s_parse_is_frames : forall fuel b pkts, wf_bytes b -> s_parse md5 fuel b = Some pkts ->
    b = frames md5 (map of_sp pkts) /\ Forall wf_pkt (map of_sp pkts) /\ Forall (fun p => wf_bytes (sp_body p)) pkts.
  Proof.
    induction fuel as [|fuel IH]; intros b pkts Hwf H; [discriminate H|].
    destruct (s_parse_inv fuel b pkts H) as [(-> & ->)|(r & Hinv)]; [split; [reflexivity|split; constructor]|].
    cbv zeta in Hinv.
    set (len := le_decode (firstn 8 (skipn 8 b))) in *.
    set (n := N.to_nat len) in *.
    set (pkt := firstn n b) in *.
    destruct Hinv as (Hb64 & Hmag & Hl64 & Hl4 & Hlb & Hmd & Hrest & ->).
    assert (Hn : (64 <= n <= length b)%nat) by (unfold n; lia).
    assert (Hpl : length pkt = n) by (unfold pkt; rewrite firstn_length; lia).
    destruct (IH (skipn n b) r (wf_bytes_skipn n b Hwf) Hrest) as (IHb & IHw & IHf).
    assert (F8 : firstn 8 pkt = firstn 8 b).
    { unfold pkt. rewrite firstn_firstn. f_equal. lia. }
    assert (FL : firstn 8 (skipn 8 pkt) = firstn 8 (skipn 8 b)).
    { unfold pkt. rewrite skipn_firstn_comm, firstn_firstn. f_equal. lia. }
    assert (Hwl : wf_bytes (firstn 8 (skipn 8 b))) by (apply wf_bytes_firstn, wf_bytes_skipn; exact Hwf).
    assert (HLl : length (firstn 8 (skipn 8 b)) = 8%nat) by (rewrite firstn_length, skipn_length; lia).
    assert (Hlen64 : len < 2 ^ 64).
    { pose proof (le_decode_lt _ Hwl) as X. rewrite HLl in X. exact X. }
    set (sid := firstn 16 (skipn 32 pkt)). set (ty := firstn 16 (skipn 48 pkt)). set (body := skipn 64 pkt).
    assert (Hbl : length body = (n - 64)%nat) by (unfold body; rewrite skipn_length; lia).
    assert (Hsl : length sid = 16%nat) by (unfold sid; rewrite firstn_length, skipn_length; lia).
    assert (Htl : length ty = 16%nat) by (unfold ty; rewrite firstn_length, skipn_length; lia).
    assert (E32 : skipn 32 pkt = sid ++ ty ++ body).
    { unfold sid, ty, body.
      rewrite <- (firstn_skipn 16 (skipn 32 pkt)) at 1. f_equal.
      rewrite <- (skipn_add 32 16 pkt : skipn 48 pkt = _).
      rewrite <- (firstn_skipn 16 (skipn 48 pkt)) at 1. f_equal.
      rewrite <- (skipn_add 48 16 pkt : skipn 64 pkt = _). reflexivity. }
    assert (Ewp : pkt = write_packet md5 sid ty body).
    { unfold write_packet. rewrite <- E32, Hmd.
      rewrite (split_header pkt) at 1 by lia.
      rewrite F8, Hmag, FL. fold sid ty body.
      replace (64 + N.of_nat (length body)) with len by (rewrite Hbl; unfold n; lia).
      assert (EL : le_encode 8 len = firstn 8 (skipn 8 b)).
      { pose proof (le_encode_decode _ Hwl) as X. rewrite HLl in X. exact X. }
      rewrite EL, E32. reflexivity. }
    cbn [map]. rewrite frames_cons. unfold of_sp at 1 2 3. cbn [sp_set sp_type sp_body pk_set pk_type pk_body fst snd].
    split; [|split].
    - fold sid ty body. rewrite <- Ewp, <- IHb. unfold pkt. symmetry. apply firstn_skipn.
    - constructor; [|exact IHw]. unfold wf_pkt, of_sp. cbn [sp_set sp_type sp_body pk_set pk_type pk_body fst snd].
      fold sid ty body. split; [exact Hsl|]. split; [exact Htl|]. split.
      + rewrite Hbl. assert (X : (n mod 4 = 0)%nat).
        { unfold n. replace 4%nat with (N.to_nat 4) by reflexivity. rewrite <- N2Nat.inj_mod. rewrite Hl4. reflexivity. }
        assert (Y : n = (64 + (n - 64))%nat) by lia.
        rewrite Y in X. change 64%nat with (16 * 4)%nat in X at 1. rewrite Nat.add_comm, Nat.mod_add in X by discriminate. exact X.
      + rewrite Hbl. unfold n. lia.
    - constructor; [|exact IHf]. cbn [sp_body]. apply wf_bytes_skipn. unfold pkt. apply wf_bytes_firstn. exact Hwf.
  Qed.
End Bridge.

(** * B. specification-side packet bodies (PAR 2.0 packet layouts) *)

(* the name field of a file description packet is padded with 0 to 3 NUL bytes: the name is what precedes the padding *)
Fixpoint drop0 (l : bytes) : bytes :=
  match l with [] => [] | c :: r => if c =? 0 then drop0 r else l end.
Definition unpad0 (b : bytes) : bytes := rev (drop0 (rev b)).

Lemma drop0_spec : forall l, exists k, l = repeat 0 k ++ drop0 l.
Proof.
  induction l as [|c r IH]; [exists 0%nat; reflexivity|].
  cbn [drop0]. destruct (N.eqb_spec c 0) as [->|_]; [|exists 0%nat; reflexivity].
  destruct IH as (k & E). exists (S k). cbn [repeat app]. rewrite <- E. reflexivity.
Qed.

Lemma rev_repeat0 : forall k, rev (repeat 0 k) = repeat 0 k.
Proof.
  induction k as [|k IH]; [reflexivity|]. cbn [repeat rev]. rewrite IH.
  clear IH. induction k as [|k IH]; [reflexivity|]. cbn [repeat app]. rewrite IH. reflexivity.
Qed.

Lemma unpad0_spec b : exists k, b = unpad0 b ++ repeat 0 k.
Proof.
  destruct (drop0_spec (rev b)) as (k & E). exists k. unfold unpad0.
  rewrite <- (rev_involutive b) at 1. rewrite E at 1. rewrite rev_app_distr, rev_repeat0. reflexivity.
Qed.

Lemma null_terminate_pad : forall name k, all_ascii name = true -> null_terminate (name ++ repeat 0 k) = name.
Proof.
  induction name as [|c r IH]; intros k H.
  - destruct k; reflexivity.
  - cbn [all_ascii forallb] in H. apply andb_true_iff in H. destruct H as [Hc Hr]. apply andb_true_iff in Hc. destruct Hc as [Hc0 _].
    apply N.ltb_lt in Hc0. cbn [app null_terminate]. destruct (N.eqb_spec c 0) as [->|_]; [lia|]. rewrite (IH k Hr). reflexivity.
Qed.

Lemma flat_map_ascii : forall name, all_ascii name = true -> flat_map (fun c => if c <=? 127 then [c] else [239; 191; 189]) name = name.
Proof.
  induction name as [|c r IH]; intros H; [reflexivity|].
  cbn [all_ascii forallb] in H. apply andb_true_iff in H. destruct H as [Hc Hr]. apply andb_true_iff in Hc. destruct Hc as [_ Hc1].
  apply N.ltb_lt in Hc1. cbn [flat_map]. destruct (N.leb_spec c 127) as [_|X]; [|lia]. rewrite (IH Hr). reflexivity.
Qed.

Lemma decode_ascii_pad name k : all_ascii name = true -> decode_ascii (name ++ repeat 0 k) = name.
Proof. intros H. unfold decode_ascii. rewrite (null_terminate_pad name k H). apply flat_map_ascii. exact H. Qed.

Lemma firstn_plus {A} (a c : nat) (l : list A) : firstn (a + c) l = firstn a l ++ firstn c (skipn a l).
Proof.
  rewrite <- (firstn_skipn a l) at 1.
  assert (H : (length (firstn a l) <= a)%nat) by (rewrite firstn_length; lia).
  destruct (Nat.eq_dec (length (firstn a l)) a) as [E|NE].
  - rewrite <- E at 1. apply firstn_app_2.
  - assert (L : (length l < a)%nat) by (rewrite firstn_length in NE; lia).
    rewrite (skipn_all2 l) by lia. rewrite app_nil_r. destruct c; cbn [firstn]; rewrite ?app_nil_r; apply firstn_all2; rewrite firstn_length; lia.
Qed.

(* the chunks of a string whose length is a multiple of n all have length n *)
Lemma chunks_of_exact n : (0 < n)%nat -> forall fuel b, (length b mod n = 0)%nat -> wf_bytes b ->
  Forall (fun c : bytes => length c = n /\ wf_bytes c) (chunks_of n fuel b).
Proof.
  intros Hn. induction fuel as [|fuel IH]; intros b Hm Hw; [constructor|].
  cbn [chunks_of]. destruct b as [|x b]; [constructor|].
  set (l := x :: b) in *.
  apply Nat.mod_divides in Hm; [|lia]. destruct Hm as (q & Hq).
  assert (Hq1 : (1 <= q)%nat) by (destruct q; [unfold l in Hq; cbn [length] in Hq; lia|lia]).
  assert (Hln : (n <= length l)%nat) by (rewrite Hq; nia).
  constructor.
  - split; [rewrite firstn_length; lia|apply wf_bytes_firstn; exact Hw].
  - apply IH; [|apply wf_bytes_skipn; exact Hw].
    rewrite skipn_length, Hq. replace (n * q - n)%nat with ((q - 1) * n)%nat by nia. apply Nat.mod_mul. lia.
Qed.

Lemma ascending_ids_ok : forall l : list bytes, Forall (fun id : bytes => length id = 16%nat /\ wf_bytes id) l ->
  ascending (map id_num l) = true -> ids_ok l = true.
Proof.
  induction l as [|a r IH]; intros Hf Ha; [reflexivity|].
  destruct r as [|b r']; [reflexivity|].
  inversion Hf as [|? ? [La Wa] Hf']; subst. inversion Hf' as [|? ? [Lb Wb] _]; subst.
  change (map id_num (a :: b :: r')) with (id_num a :: id_num b :: map id_num r') in Ha.
  rewrite ascending_cons in Ha. apply andb_true_iff in Ha. destruct Ha as [Hab Hr].
  specialize (IH Hf' Hr). unfold ids_ok in IH |- *. apply andb_true_iff in IH. destruct IH as [I1 I2].
  rewrite ids_sorted_cons2, I1.
  change (ids_adj_distinct (a :: b :: r')) with (negb (bytes_eqb a b) && ids_adj_distinct (b :: r')). rewrite I2.
  rewrite id_num_ltb in Hab by (try assumption; congruence).
  rewrite (id_ltb_asym a b Hab).
  destruct (bytes_eqb a b) eqn:E; [|reflexivity].
  apply bytes_eqb_eq in E. subst b. rewrite (id_ltb_asym a a Hab) in Hab. discriminate Hab.
Qed.

Lemma type_main_eq : sT_main = TYPE_MAIN. Proof. vm_compute. reflexivity. Qed.
Lemma type_fdesc_eq : sT_fdesc = TYPE_FDESC. Proof. vm_compute. reflexivity. Qed.
Lemma type_ifsc_eq : sT_ifsc = TYPE_IFSC. Proof. vm_compute. reflexivity. Qed.
Lemma type_recv_eq : sT_recv = TYPE_RECV. Proof. vm_compute. reflexivity. Qed.
Lemma type_creator_eq : sT_creator = TYPE_CREATOR. Proof. vm_compute. reflexivity. Qed.

Lemma beq_true_iff a b : beq a b = true <-> a = b.
Proof. split; [apply beq_eq|intros <-; apply beq_refl]. Qed.

(* main packet: slice size (8), number of files in the recovery set (4), their ids, the ids of the non-recovery set *)
Record smain := { sm_slice : N; sm_rec : list bytes; sm_nonrec : list bytes }.
Definition s_main (body : bytes) : option smain :=
  if Nat.ltb (length body) 12 then None
  else
    let rest := skipn 12 body in
    let ids := s_chunks 16 (length rest) rest in
    let cnt := N.to_nat (le_decode (firstn 4 (skipn 8 body))) in
    if negb (Nat.eqb (length rest mod 16) 0) || Nat.ltb (length ids) cnt then None
    else Some {| sm_slice := le_decode (firstn 8 body); sm_rec := firstn cnt ids; sm_nonrec := skipn cnt ids |}.
(* the specification: the slice size is a multiple of 4, the ids of each set are in ascending numerical order *)
Definition s_main_ok (m : smain) : bool :=
  negb (sm_slice m =? 0) && (sm_slice m mod 4 =? 0)
  && ascending (map id_num (sm_rec m)) && ascending (map id_num (sm_nonrec m)).
(* what gopar requires beyond that: slice size at most 2^40 (maxSliceByteCount), a non-empty recovery set *)
Definition g_main_extra (m : smain) : bool := (sm_slice m <=? MAXSLICE) && negb (Nat.eqb (length (sm_rec m)) 0).
Definition mp_of (m : smain) : mainpkt := {| mp_slice := sm_slice m; mp_rec := sm_rec m; mp_nonrec := sm_nonrec m |}.

Lemma read_main_spec body m : wf_bytes body -> s_main body = Some m -> s_main_ok m = true -> g_main_extra m = true ->
  read_main body = Ok (mp_of m).
Proof.
  intros Hw Hs Hok Hex. unfold s_main in Hs. unfold read_main.
  destruct (Nat.ltb (length body) 12); [discriminate Hs|].
  cbv zeta in Hs |- *. unfold chunk_bytes.
  change (chunks_of 16 (length (skipn 12 body)) (skipn 12 body)) with (s_chunks 16 (length (skipn 12 body)) (skipn 12 body)).
  set (rest := skipn 12 body) in *. set (ids := s_chunks 16 (length rest) rest) in *.
  set (cntN := le_decode (firstn 4 (skipn 8 body))) in *.
  destruct (Nat.eqb (length rest mod 16) 0) eqn:E16; [|discriminate Hs]. cbn [negb orb] in Hs.
  destruct (Nat.ltb (length ids) (N.to_nat cntN)) eqn:Ecnt; [discriminate Hs|]. apply Nat.ltb_ge in Ecnt.
  set (slice := le_decode (firstn 8 body)) in *.
  apply some_inj in Hs. subst m. unfold s_main_ok, g_main_extra, mp_of in *.
  cbv beta iota delta [sm_slice sm_rec sm_nonrec] in Hok, Hex |- *.
  apply andb_true_iff in Hok. destruct Hok as [Hok Hanr]. apply andb_true_iff in Hok. destruct Hok as [Hok Har].
  apply andb_true_iff in Hok. destruct Hok as [Hs0 Hs4].
  apply andb_true_iff in Hex. destruct Hex as [Hmax Hne].
  apply negb_true_iff in Hs0. apply N.leb_le in Hmax.
  assert (M1 : (MAXINT <? slice) = false).
  { apply N.ltb_ge. apply (N.le_trans _ MAXSLICE); [exact Hmax|vm_compute; discriminate]. }
  assert (M2 : (MAXSLICE <? slice) = false) by (apply N.ltb_ge; exact Hmax).
  rewrite Hs0, Hs4, M1, M2. cbn [negb orb].
  assert (C0 : (cntN =? 0) = false).
  { apply N.eqb_neq. intros E. rewrite E in Hne. cbn in Hne. discriminate Hne. }
  rewrite C0. cbn [negb].
  assert (C1 : (N.of_nat (length ids) <? cntN) = false) by (apply N.ltb_ge; lia).
  rewrite C1.
  assert (Hids : Forall (fun c : bytes => length c = 16%nat /\ wf_bytes c) ids).
  { apply chunks_of_exact; [lia|apply Nat.eqb_eq; exact E16|apply wf_bytes_skipn; exact Hw]. }
  assert (H1 : ids_ok (firstn (N.to_nat cntN) ids) = true).
  { apply ascending_ids_ok; [|exact Har]. rewrite <- (firstn_skipn (N.to_nat cntN) ids) in Hids. apply Forall_app in Hids. tauto. }
  assert (H2 : ids_ok (skipn (N.to_nat cntN) ids) = true).
  { apply ascending_ids_ok; [|exact Hanr]. rewrite <- (firstn_skipn (N.to_nat cntN) ids) in Hids. apply Forall_app in Hids. tauto. }
  rewrite H1, H2. reflexivity.
Qed.

(* input file slice checksum packet: file id (16), then (MD5, CRC-32) of every slice, 20 bytes each *)
Definition s_ifsc (body : bytes) : option (bytes * list (bytes * N)) :=
  if Nat.ltb (length body) 16 then None
  else
    let rest := skipn 16 body in
    if negb (Nat.eqb (length rest mod 20) 0) then None
    else Some (firstn 16 body, map (fun c => (firstn 16 c, le_decode (skipn 16 c))) (s_chunks 20 (length rest) rest)).
(* gopar: at least one checksum pair *)
Definition g_ifsc_extra (x : bytes * list (bytes * N)) : bool := negb (Nat.eqb (length (snd x)) 0).

Lemma read_ifsc_spec body x : s_ifsc body = Some x -> g_ifsc_extra x = true -> read_ifsc body = Ok x.
Proof.
  unfold s_ifsc, read_ifsc, g_ifsc_extra. intros Hs Hex.
  destruct (Nat.ltb (length body) 16); [discriminate Hs|]. cbv zeta in Hs |- *. unfold chunk_bytes.
  change (chunks_of 20 (length (skipn 16 body)) (skipn 16 body)) with (s_chunks 20 (length (skipn 16 body)) (skipn 16 body)).
  set (rest := skipn 16 body) in *.
  destruct (Nat.eqb (length rest mod 20) 0); [|discriminate Hs]. cbn [negb] in Hs. apply some_inj in Hs. subst x. cbn [snd] in Hex.
  destruct (Nat.eqb (length rest) 0) eqn:E0; [|reflexivity].
  apply Nat.eqb_eq in E0. rewrite E0 in Hex. cbn in Hex. discriminate Hex.
Qed.

(* recovery slice packet: exponent (4), recovery data *)
Definition s_recv (body : bytes) : option (N * bytes) :=
  if Nat.ltb (length body) 4 then None else Some (le_decode (firstn 4 body), skipn 4 body).
(* gopar: exponents up to 65535 *)
Definition g_recv_extra (x : N * bytes) : bool := fst x <=? 65535.

Lemma read_recv_spec body x : (length body mod 4 = 0)%nat -> s_recv body = Some x -> g_recv_extra x = true -> read_recv body = Ok x.
Proof.
  unfold s_recv, read_recv, g_recv_extra. intros Hm Hs Hex.
  destruct (Nat.ltb (length body) 4) eqn:E4; [discriminate Hs|]. apply Nat.ltb_ge in E4. apply some_inj in Hs. subst x. cbn [fst] in Hex.
  assert (E0 : Nat.eqb (length body) 0 = false) by (apply Nat.eqb_neq; lia).
  assert (E1 : Nat.eqb (length body mod 4) 0 = true) by (apply Nat.eqb_eq; exact Hm).
  rewrite E0, E1. cbn [negb orb].
  assert (E2 : (65535 <? le_decode (firstn 4 body)) = false) by (apply N.ltb_ge; apply N.leb_le; exact Hex).
  rewrite E2. reflexivity.
Qed.

Section SpecBodies.
  Variable md5 : bytes -> bytes.

  (* file description packet: file id (16), MD5 (16), MD5 of the first 16 kB (16), length (8), name (ASCII, NUL-padded);
     the file id is the MD5 of the 16k-hash, the length and the name fields *)
  Record sfd := { sf_id : bytes; sf_hash : bytes; sf_h16 : bytes; sf_len : N; sf_name : bytes }.
  Definition s_fdesc (body : bytes) : option sfd :=
    if Nat.ltb (length body) 56 then None
    else Some {| sf_id := firstn 16 body; sf_hash := firstn 16 (skipn 16 body); sf_h16 := firstn 16 (skipn 32 body);
                 sf_len := le_decode (firstn 8 (skipn 48 body)); sf_name := unpad0 (skipn 56 body) |}.
  Definition s_fdesc_ok (body : bytes) (fd : sfd) : bool :=
    all_ascii (sf_name fd) && beq (md5 (firstn 24 (skipn 32 body) ++ sf_name fd)) (sf_id fd).
  (* gopar: non-empty files, shorter than 2^63 bytes, whose names pass checkFilename (relative, and the cleaned name
     does not begin with '.') *)
  Definition g_fdesc_extra (fd : sfd) : bool :=
    negb (sf_len fd =? 0) && (sf_len fd <=? MAXINT) && match check_filename (sf_name fd) with Ok _ => true | _ => false end.
  Definition fd_of (fd : sfd) : fdesc :=
    {| fd_hash := sf_hash fd; fd_hash16k := sf_h16 fd; fd_len := sf_len fd; fd_name := sf_name fd |}.

  Lemma read_fdesc_spec body fd : wf_bytes body -> s_fdesc body = Some fd -> s_fdesc_ok body fd = true ->
    g_fdesc_extra fd = true -> read_fdesc md5 body = Ok (sf_id fd, fd_of fd).
  Proof.
    intros Hw Hs Hok Hex. unfold s_fdesc in Hs. unfold read_fdesc.
    destruct (Nat.ltb (length body) 56) eqn:E56; [discriminate Hs|]. apply Nat.ltb_ge in E56.
    set (name := unpad0 (skipn 56 body)) in *.
    apply some_inj in Hs. subst fd. unfold s_fdesc_ok, g_fdesc_extra, fd_of in *.
    cbv beta iota delta [sf_id sf_hash sf_h16 sf_len sf_name] in Hok, Hex |- *.
    cbv zeta.
    destruct (unpad0_spec (skipn 56 body)) as (k & Ek). fold name in Ek. clearbody name.
    apply andb_true_iff in Hok. destruct Hok as [Hasc Hid]. apply beq_eq in Hid.
    apply andb_true_iff in Hex. destruct Hex as [Hex Hcf]. apply andb_true_iff in Hex. destruct Hex as [Hl0 Hlm].
    apply negb_true_iff in Hl0. apply N.leb_le in Hlm.
    assert (N1 : null_terminate (skipn 56 body) = name) by (rewrite Ek; apply null_terminate_pad; exact Hasc).
    assert (N2 : decode_ascii (skipn 56 body) = name) by (rewrite Ek; apply decode_ascii_pad; exact Hasc).
    rewrite N1, N2.
    assert (Hid' : compute_file_id md5 (firstn 16 (skipn 32 body)) (le_decode (firstn 8 (skipn 48 body))) name = firstn 16 body).
    { unfold compute_file_id. rewrite <- Hid. f_equal.
      rewrite (firstn_plus 16 8 (skipn 32 body) : firstn 24 (skipn 32 body) = _).
      rewrite <- (skipn_add 32 16 body : skipn 48 body = _). rewrite <- app_assoc. f_equal. f_equal.
      assert (Hwl : wf_bytes (firstn 8 (skipn 48 body))) by (apply wf_bytes_firstn, wf_bytes_skipn; exact Hw).
      assert (HL : length (firstn 8 (skipn 48 body)) = 8%nat) by (rewrite firstn_length, skipn_length; lia).
      pose proof (le_encode_decode _ Hwl) as X. rewrite HL in X. exact X. }
    rewrite Hid', bytes_eqb_refl, Hl0. cbn [negb].
    destruct (check_filename name) as [[]|e|q]; try discriminate Hcf. cbn [obind].
    assert (M : (MAXINT <? le_decode (firstn 8 (skipn 48 body))) = false) by (apply N.ltb_ge; exact Hlm).
    rewrite M. reflexivity.
  Qed.
End SpecBodies.

Lemma read_recv_inv body e d : read_recv body = Ok (e, d) -> e = le_decode (firstn 4 body) /\ d = skipn 4 body.
Proof.
  unfold read_recv. destruct (Nat.eqb (length body) 0 || negb (Nat.eqb (length body mod 4) 0)); [discriminate|].
  destruct (65535 <? le_decode (firstn 4 body)); [discriminate|]. intros H. split; congruence.
Qed.

Lemma s_fdesc_id body fd : s_fdesc body = Some fd -> sf_id fd = firstn 16 body.
Proof. unfold s_fdesc. destruct (Nat.ltb (length body) 56); [discriminate|]. intros H. apply some_inj in H. subst fd. reflexivity. Qed.
Lemma s_ifsc_id body x : s_ifsc body = Some x -> fst x = firstn 16 body.
Proof.
  unfold s_ifsc. destruct (Nat.ltb (length body) 16); [discriminate|]. cbv zeta.
  destruct (negb (Nat.eqb (length (skipn 16 body) mod 20) 0)); [discriminate|]. intros H. apply some_inj in H. subst x. reflexivity.
Qed.

(** * C. packet lists: what the specification says about the packets of one set in a file, what gopar adds *)
Section SpecReader.
  Variable md5 : bytes -> bytes.
  Hypothesis md5_len : forall x, length (md5 x) = 16%nat.

  (* the packets of the recovery set sid *)
  Definition own (sid : bytes) (l : list spacket) : list spacket := filter (fun p => beq (sp_set p) sid) l.

  (* SPECIFICATION, per packet of an interpreted type: the body has the layout of its type (a packet of another type is
     not looked at) *)
  Definition s_pkt_ok (p : spacket) : bool :=
    if beq (sp_type p) sT_main then match s_main (sp_body p) with Some m => s_main_ok m | None => false end
    else if beq (sp_type p) sT_fdesc then match s_fdesc (sp_body p) with Some fd => s_fdesc_ok md5 (sp_body p) fd | None => false end
    else if beq (sp_type p) sT_ifsc then match s_ifsc (sp_body p) with Some _ => true | None => false end
    else if beq (sp_type p) sT_recv then match s_recv (sp_body p) with Some _ => true | None => false end
    else true.
  (* GOPAR, per packet of an interpreted type: the requirements beyond the specification *)
  Definition g_pkt_extra (p : spacket) : bool :=
    if beq (sp_type p) sT_main then match s_main (sp_body p) with Some m => g_main_extra m | None => true end
    else if beq (sp_type p) sT_fdesc then match s_fdesc (sp_body p) with Some fd => g_fdesc_extra fd | None => true end
    else if beq (sp_type p) sT_ifsc then match s_ifsc (sp_body p) with Some x => g_ifsc_extra x | None => true end
    else if beq (sp_type p) sT_recv then match s_recv (sp_body p) with Some x => g_recv_extra x | None => true end
    else true.

  (* SPECIFICATION: two packets of the set that describe the same thing (the main packet; the description or the checksums
     of one file id; the recovery block of one exponent) are copies of each other *)
  Definition s_same_key (p q : spacket) : bool :=
    beq (sp_type p) (sp_type q) &&
    (beq (sp_type p) sT_main
     || ((beq (sp_type p) sT_fdesc || beq (sp_type p) sT_ifsc) && beq (firstn 16 (sp_body p)) (firstn 16 (sp_body q)))
     || (beq (sp_type p) sT_recv && (le_decode (firstn 4 (sp_body p)) =? le_decode (firstn 4 (sp_body q))))).
  Definition s_consistent (l : list spacket) : bool :=
    forallb (fun p => forallb (fun q => negb (s_same_key p q) || beq (sp_body p) (sp_body q)) l) l.

  Definition s_pkts_ok (sid : bytes) (pkts : list spacket) : bool :=
    forallb s_pkt_ok (own sid pkts) && s_consistent (own sid pkts).

  (** ** from the packet-list predicates to the hypotheses of Proofs/Par2Layout.v *)
  Lemma in_own sid pkts p : In p (own sid pkts) <-> In p pkts /\ sp_set p = sid.
  Proof. unfold own. rewrite filter_In, beq_true_iff. reflexivity. Qed.

  Lemma in_of_type t l p : In p (of_type t l) <-> In p l /\ sp_type p = t.
  Proof. unfold of_type. rewrite filter_In, beq_true_iff. reflexivity. Qed.

  Lemma own_of_sp sid pkts q : In q (map of_sp pkts) -> pk_set q = sid -> exists p, In p (own sid pkts) /\ q = of_sp p.
  Proof.
    intros Hin Hs. apply in_map_iff in Hin. destruct Hin as (p & <- & Hp). exists p. split; [|reflexivity].
    apply in_own. split; [exact Hp|exact Hs].
  Qed.

  Lemma s_pkt_ok_main p : sp_type p = TYPE_MAIN ->
    s_pkt_ok p = match s_main (sp_body p) with Some m => s_main_ok m | None => false end /\
    g_pkt_extra p = match s_main (sp_body p) with Some m => g_main_extra m | None => true end.
  Proof. intros T. unfold s_pkt_ok, g_pkt_extra. rewrite T. change (beq TYPE_MAIN sT_main) with true. split; reflexivity. Qed.
  Lemma s_pkt_ok_fdesc p : sp_type p = TYPE_FDESC ->
    s_pkt_ok p = match s_fdesc (sp_body p) with Some fd => s_fdesc_ok md5 (sp_body p) fd | None => false end /\
    g_pkt_extra p = match s_fdesc (sp_body p) with Some fd => g_fdesc_extra fd | None => true end.
  Proof.
    intros T. unfold s_pkt_ok, g_pkt_extra. rewrite T.
    change (beq TYPE_FDESC sT_main) with false. change (beq TYPE_FDESC sT_fdesc) with true. split; reflexivity.
  Qed.
  Lemma s_pkt_ok_ifsc p : sp_type p = TYPE_IFSC ->
    s_pkt_ok p = match s_ifsc (sp_body p) with Some _ => true | None => false end /\
    g_pkt_extra p = match s_ifsc (sp_body p) with Some x => g_ifsc_extra x | None => true end.
  Proof.
    intros T. unfold s_pkt_ok, g_pkt_extra. rewrite T.
    change (beq TYPE_IFSC sT_main) with false. change (beq TYPE_IFSC sT_fdesc) with false.
    change (beq TYPE_IFSC sT_ifsc) with true. split; reflexivity.
  Qed.
  Lemma s_pkt_ok_recv p : sp_type p = TYPE_RECV ->
    s_pkt_ok p = match s_recv (sp_body p) with Some _ => true | None => false end /\
    g_pkt_extra p = match s_recv (sp_body p) with Some x => g_recv_extra x | None => true end.
  Proof.
    intros T. unfold s_pkt_ok, g_pkt_extra. rewrite T.
    change (beq TYPE_RECV sT_main) with false. change (beq TYPE_RECV sT_fdesc) with false.
    change (beq TYPE_RECV sT_ifsc) with false. change (beq TYPE_RECV sT_recv) with true. split; reflexivity.
  Qed.

  (* per packet: what the specification-side decoder returns, gopar's body reader returns *)
  Lemma pkt_link p : wf_bytes (sp_body p) -> (length (sp_body p) mod 4 = 0)%nat -> s_pkt_ok p = true -> g_pkt_extra p = true ->
    (sp_type p = TYPE_MAIN -> exists m, s_main (sp_body p) = Some m /\ s_main_ok m = true /\ read_main (sp_body p) = Ok (mp_of m)) /\
    (sp_type p = TYPE_FDESC -> exists fd, s_fdesc (sp_body p) = Some fd /\ read_fdesc md5 (sp_body p) = Ok (sf_id fd, fd_of fd)) /\
    (sp_type p = TYPE_IFSC -> exists x, s_ifsc (sp_body p) = Some x /\ read_ifsc (sp_body p) = Ok x) /\
    (sp_type p = TYPE_RECV -> exists x, s_recv (sp_body p) = Some x /\ read_recv (sp_body p) = Ok x).
  Proof.
    intros Hw Hm4 Hok Hex. split; [|split; [|split]]; intros T.
    - destruct (s_pkt_ok_main p T) as [E1 E2]. rewrite E1 in Hok. rewrite E2 in Hex.
      destruct (s_main (sp_body p)) as [m|] eqn:Em; [|discriminate Hok].
      exists m. split; [reflexivity|]. split; [exact Hok|]. apply read_main_spec; assumption.
    - destruct (s_pkt_ok_fdesc p T) as [E1 E2]. rewrite E1 in Hok. rewrite E2 in Hex.
      destruct (s_fdesc (sp_body p)) as [fd|] eqn:Em; [|discriminate Hok].
      exists fd. split; [reflexivity|]. apply read_fdesc_spec; assumption.
    - destruct (s_pkt_ok_ifsc p T) as [E1 E2]. rewrite E1 in Hok. rewrite E2 in Hex.
      destruct (s_ifsc (sp_body p)) as [x|] eqn:Em; [|discriminate Hok].
      exists x. split; [reflexivity|]. apply read_ifsc_spec; assumption.
    - destruct (s_pkt_ok_recv p T) as [E1 E2]. rewrite E1 in Hok. rewrite E2 in Hex.
      destruct (s_recv (sp_body p)) as [x|] eqn:Em; [|discriminate Hok].
      exists x. split; [reflexivity|]. apply read_recv_spec; assumption.
  Qed.

  (* the facts about a parsed file that the lemmas below start from *)
  Definition file_facts (sid : bytes) (pkts : list spacket) : Prop :=
    Forall wf_pkt (map of_sp pkts) /\ Forall (fun p => wf_bytes (sp_body p)) pkts /\
    forallb s_pkt_ok (own sid pkts) = true /\ s_consistent (own sid pkts) = true /\ forallb g_pkt_extra (own sid pkts) = true.

  Lemma own_link sid pkts p : file_facts sid pkts -> In p (own sid pkts) ->
    (sp_type p = TYPE_MAIN -> exists m, s_main (sp_body p) = Some m /\ s_main_ok m = true /\ read_main (sp_body p) = Ok (mp_of m)) /\
    (sp_type p = TYPE_FDESC -> exists fd, s_fdesc (sp_body p) = Some fd /\ read_fdesc md5 (sp_body p) = Ok (sf_id fd, fd_of fd)) /\
    (sp_type p = TYPE_IFSC -> exists x, s_ifsc (sp_body p) = Some x /\ read_ifsc (sp_body p) = Ok x) /\
    (sp_type p = TYPE_RECV -> exists x, s_recv (sp_body p) = Some x /\ read_recv (sp_body p) = Ok x).
  Proof.
    intros (Hwf & Hwb & Hok & _ & Hex) Hin.
    pose proof (proj1 (in_own sid pkts p) Hin) as [Hp _].
    apply pkt_link.
    - rewrite Forall_forall in Hwb. apply Hwb. exact Hp.
    - rewrite Forall_forall in Hwf. destruct (Hwf (of_sp p) (in_map of_sp pkts p Hp)) as (_ & _ & H4 & _). exact H4.
    - rewrite forallb_forall in Hok. apply Hok. exact Hin.
    - rewrite forallb_forall in Hex. apply Hex. exact Hin.
  Qed.

  Lemma spec_parses sid pkts : file_facts sid pkts -> parses md5 sid (map of_sp pkts).
  Proof.
    intros HF q Hin Hs. destruct (own_of_sp sid pkts q Hin Hs) as (p & Hp & ->).
    destruct (own_link sid pkts p HF Hp) as (L1 & L2 & L3 & L4).
    unfold parses_pkt, of_sp, pk_type, pk_body. cbn [fst snd].
    split; [|split; [|split]]; intros T.
    - destruct (L1 T) as (m & _ & _ & R). exists (mp_of m). exact R.
    - destruct (L2 T) as (fd & _ & R). exists (sf_id fd), (fd_of fd). exact R.
    - destruct (L3 T) as ([id ps] & _ & R). exists id, ps. exact R.
    - destruct (L4 T) as ([e d] & _ & R). exists e, d. exact R.
  Qed.

  Lemma s_consistent_spec l p q : s_consistent l = true -> In p l -> In q l -> s_same_key p q = true -> sp_body p = sp_body q.
  Proof.
    unfold s_consistent. intros H Hp Hq Hk. rewrite forallb_forall in H. specialize (H p Hp). rewrite forallb_forall in H.
    specialize (H q Hq). rewrite Hk in H. cbn [negb orb] in H. apply beq_eq. exact H.
  Qed.

  Lemma spec_consistent sid pkts : s_consistent (own sid pkts) = true -> consistent sid (map of_sp pkts).
  Proof.
    intros HC q1 q2 I1 I2 S1 S2 (KT & KK).
    destruct (own_of_sp sid pkts q1 I1 S1) as (p1 & P1 & ->). destruct (own_of_sp sid pkts q2 I2 S2) as (p2 & P2 & ->).
    unfold of_sp, pk_type, pk_body in *. cbn [fst snd] in *.
    apply (s_consistent_spec _ p1 p2 HC P1 P2). unfold s_same_key. rewrite KT, beq_refl. cbn [andb].
    destruct KK as [K|[([K|K] & K16)|(K & K4)]].
    - rewrite <- KT, K. reflexivity.
    - rewrite <- KT, K, K16. rewrite (beq_refl (firstn 16 (sp_body p2))). reflexivity.
    - rewrite <- KT, K, K16. rewrite (beq_refl (firstn 16 (sp_body p2))). reflexivity.
    - rewrite <- KT, K, K4, N.eqb_refl. reflexivity.
  Qed.

  Lemma spec_recv_agree sid pkts : s_consistent (own sid pkts) = true -> recv_agree sid (map of_sp pkts).
  Proof.
    intros HC q1 q2 e d1 d2 I1 I2 S1 S2 T1 T2 R1 R2.
    destruct (own_of_sp sid pkts q1 I1 S1) as (p1 & P1 & ->). destruct (own_of_sp sid pkts q2 I2 S2) as (p2 & P2 & ->).
    unfold of_sp, pk_type, pk_body in *. cbn [fst snd] in *.
    destruct (read_recv_inv _ _ _ R1) as [E1 ->]. destruct (read_recv_inv _ _ _ R2) as [E2 ->].
    f_equal. apply (s_consistent_spec _ p1 p2 HC P1 P2). unfold s_same_key.
    rewrite T1, T2. rewrite <- E1, <- E2, N.eqb_refl. reflexivity.
  Qed.

  (* the loop accepts, and its state is characterised by the packets of the set *)
  Lemma spec_run sid pkts : file_facts sid pkts ->
    exists f found, run md5 sid (map of_sp pkts) = Some (f, found) /\ char md5 sid (map of_sp pkts) f found.
  Proof.
    intros HF. pose proof HF as (_ & _ & _ & HC & _).
    destruct (good_run md5 sid (map of_sp pkts) (spec_consistent sid pkts HC) (spec_parses sid pkts HF) (spec_recv_agree sid pkts HC))
      as (f & found & ER).
    exists f, found. split; [exact ER|]. apply run_char; [apply spec_consistent; exact HC|exact ER].
  Qed.
  (** ** R1. the index file *)

  (* what the specification-side parse says about one file of the main packet *)
  Record sfile := { sfl_id : bytes; sfl_name : bytes; sfl_len : N; sfl_h16 : bytes; sfl_hash : bytes; sfl_pairs : list (bytes * N) }.
  Definition dinfo_of (x : sfile) : dinfo :=
    {| di_id := sfl_id x; di_name := sfl_name x; di_len := sfl_len x; di_h16 := sfl_h16 x; di_hash := sfl_hash x; di_pairs := sfl_pairs x |}.

  (* the file description / the checksum list of the file id among the packets o *)
  Definition s_find_fd (o : list spacket) (id : bytes) : option sfd :=
    match find (fun p => beq (sp_type p) sT_fdesc && beq (firstn 16 (sp_body p)) id) o with
    | Some p => s_fdesc (sp_body p)
    | None => None
    end.
  Definition s_find_if (o : list spacket) (id : bytes) : option (list (bytes * N)) :=
    match find (fun p => beq (sp_type p) sT_ifsc && beq (firstn 16 (sp_body p)) id) o with
    | Some p => match s_ifsc (sp_body p) with Some x => Some (snd x) | None => None end
    | None => None
    end.
  (* both are there, and there is one checksum pair per slice: ceil (length / slice size) *)
  Definition s_file_of (o : list spacket) (slice : N) (id : bytes) : option sfile :=
    match s_find_fd o id, s_find_if o id with
    | Some fd, Some ps =>
        if N.of_nat (length ps) =? (sf_len fd + slice - 1) / slice
        then Some {| sfl_id := id; sfl_name := sf_name fd; sfl_len := sf_len fd; sfl_h16 := sf_h16 fd; sfl_hash := sf_hash fd;
                     sfl_pairs := ps |}
        else None
    | _, _ => None
    end.
  Fixpoint s_files (o : list spacket) (slice : N) (ids : list bytes) : option (list sfile) :=
    match ids with
    | [] => Some []
    | id :: r => match s_file_of o slice id, s_files o slice r with
                 | Some x, Some xs => Some (x :: xs)
                 | _, _ => None
                 end
    end.

  Record sindex := { si_main : bytes; si_slice : N; si_rec : list sfile; si_nonrec : list sfile }.

  (* SPECIFICATION: b is a sequence of well-formed packets (s_parse) - in any order, with any duplicates, with packets of
     other sets and of unknown types anywhere -; the packets of the set sid have the layouts of their types and agree
     (s_pkts_ok); there is a creator packet and a main packet of the set; the set id is the MD5 of the main packet's body;
     for every file id of the main packet - recovery set and non-recovery set - there are a file description packet and
     a slice checksum packet with one checksum pair per slice *)
  Definition s_index (sid : bytes) (b : bytes) : option sindex :=
    match s_parse md5 (S (length b)) b with
    | None => None
    | Some pkts =>
      let o := own sid pkts in
      if negb (s_pkts_ok sid pkts) then None
      else if Nat.eqb (length (of_type sT_creator o)) 0 then None
      else match of_type sT_main o with
           | [] => None
           | pm :: _ =>
             match s_main (sp_body pm) with
             | None => None
             | Some m =>
               if negb (beq (md5 (sp_body pm)) sid) then None
               else match s_files o (sm_slice m) (sm_rec m), s_files o (sm_slice m) (sm_nonrec m) with
                    | Some r, Some nr => Some {| si_main := sp_body pm; si_slice := sm_slice m; si_rec := r; si_nonrec := nr |}
                    | _, _ => None
                    end
             end
           end
    end.

  (* GOPAR, beyond the specification, for the file named on the command line: its FIRST packet belongs to the set (the
     first packet fixes the set id); every packet of the set in it passes g_pkt_extra; it holds NO recovery packet of the
     set (newDecoder rejects an index file with recovery packets) *)
  Definition first_own (sid : bytes) (pkts : list spacket) : bool :=
    match pkts with p :: _ => beq (sp_set p) sid | [] => false end.
  Definition g_index_extra (sid : bytes) (b : bytes) : bool :=
    match s_parse md5 (S (length b)) b with
    | Some pkts => first_own sid pkts && forallb g_pkt_extra (own sid pkts) && Nat.eqb (length (of_type sT_recv (own sid pkts))) 0
    | None => false
    end.

  Lemma find_fd_assoc sid pkts f found : file_facts sid pkts -> char md5 sid (map of_sp pkts) f found ->
    forall id fd, s_find_fd (own sid pkts) id = Some fd -> assoc_b (pf_fdesc f) id = Some (fd_of fd).
  Proof.
    intros HF (_ & _ & _ & C4 & _ & _) id fd H. unfold s_find_fd in H.
    destruct (find (fun p => beq (sp_type p) sT_fdesc && beq (firstn 16 (sp_body p)) id) (own sid pkts)) as [p|] eqn:EF;
      [|discriminate H].
    apply find_some in EF. destruct EF as [Hp Hb]. apply andb_true_iff in Hb. destruct Hb as [Ht Hid].
    apply beq_eq in Ht. apply beq_eq in Hid. rewrite type_fdesc_eq in Ht.
    destruct (own_link sid pkts p HF Hp) as (_ & L2 & _ & _). destruct (L2 Ht) as (fd' & E' & R).
    assert (fd' = fd) by congruence. subst fd'.
    rewrite (s_fdesc_id _ _ H), Hid in R.
    apply in_own in Hp. destruct Hp as [Hp Hs].
    apply C4. exists (of_sp p). split; [apply in_map; exact Hp|]. split; [exact Hs|]. split; [exact Ht|exact R].
  Qed.

  Lemma find_if_assoc sid pkts f found : file_facts sid pkts -> char md5 sid (map of_sp pkts) f found ->
    forall id ps, s_find_if (own sid pkts) id = Some ps -> assoc_b (pf_ifsc f) id = Some ps.
  Proof.
    intros HF (_ & _ & _ & _ & C5 & _) id ps H. unfold s_find_if in H.
    destruct (find (fun p => beq (sp_type p) sT_ifsc && beq (firstn 16 (sp_body p)) id) (own sid pkts)) as [p|] eqn:EF;
      [|discriminate H].
    apply find_some in EF. destruct EF as [Hp Hb]. apply andb_true_iff in Hb. destruct Hb as [Ht Hid].
    apply beq_eq in Ht. apply beq_eq in Hid. rewrite type_ifsc_eq in Ht.
    destruct (own_link sid pkts p HF Hp) as (_ & _ & L3 & _). destruct (L3 Ht) as (x & E' & R).
    rewrite E' in H. apply some_inj in H. subst ps.
    pose proof (s_ifsc_id _ _ E') as X. rewrite Hid in X. destruct x as [i ps]. cbn [fst snd] in *. subst i.
    apply in_own in Hp. destruct Hp as [Hp Hs].
    apply C5. exists (of_sp p). split; [apply in_map; exact Hp|]. split; [exact Hs|]. split; [exact Ht|exact R].
  Qed.

  Lemma make_infos_spec f o slice :
    (forall id fd, s_find_fd o id = Some fd -> assoc_b (pf_fdesc f) id = Some (fd_of fd)) ->
    (forall id ps, s_find_if o id = Some ps -> assoc_b (pf_ifsc f) id = Some ps) ->
    forall ids infos, s_files o slice ids = Some infos -> make_infos slice ids f = Ok (map dinfo_of infos).
  Proof.
    intros H1 H2. unfold make_infos. induction ids as [|id r IH]; intros infos H.
    - cbn [s_files] in H. apply some_inj in H. subst infos. reflexivity.
    - cbn [s_files] in H. destruct (s_file_of o slice id) as [x|] eqn:EX; [|discriminate H].
      destruct (s_files o slice r) as [xs|] eqn:ER; [|discriminate H]. apply some_inj in H. subst infos.
      cbn [omap map].
      unfold s_file_of in EX. destruct (s_find_fd o id) as [fd|] eqn:E1; [|discriminate EX].
      destruct (s_find_if o id) as [ps|] eqn:E2; [|discriminate EX].
      rewrite (H1 id fd E1), (H2 id ps E2).
      destruct (N.of_nat (length ps) =? (sf_len fd + slice - 1) / slice) eqn:EC; [|discriminate EX].
      apply some_inj in EX. subst x.
      change (fd_len (fd_of fd)) with (sf_len fd). rewrite EC. cbn [negb obind]. rewrite (IH xs eq_refl). reflexivity.
  Qed.

  Lemma s_files_ids o slice : forall ids infos, s_files o slice ids = Some infos -> map sfl_id infos = ids.
  Proof.
    induction ids as [|id r IH]; intros infos H; cbn [s_files] in H.
    - apply some_inj in H. subst infos. reflexivity.
    - destruct (s_file_of o slice id) as [x|] eqn:EX; [|discriminate H].
      destruct (s_files o slice r) as [xs|] eqn:ER; [|discriminate H]. apply some_inj in H. subst infos.
      cbn [map]. rewrite (IH xs eq_refl). f_equal.
      unfold s_file_of in EX. destruct (s_find_fd o id); [|discriminate EX]. destruct (s_find_if o id); [|discriminate EX].
      destruct (N.of_nat (length l) =? (sf_len s + slice - 1) / slice); [|discriminate EX]. apply some_inj in EX. subst x. reflexivity.
  Qed.

  (* the files of the parse are those of the main packet, in the main packet's order *)
  Lemma s_index_main_order sid b si : s_index sid b = Some si ->
    exists m, s_main (si_main si) = Some m /\ si_slice si = sm_slice m /\
              map sfl_id (si_rec si) = sm_rec m /\ map sfl_id (si_nonrec si) = sm_nonrec m.
  Proof.
    unfold s_index. intros HS.
    destruct (s_parse md5 (S (length b)) b) as [pkts|]; [|discriminate HS]. cbv zeta in HS.
    destruct (negb (s_pkts_ok sid pkts)); [discriminate HS|].
    destruct (Nat.eqb (length (of_type sT_creator (own sid pkts))) 0); [discriminate HS|].
    destruct (of_type sT_main (own sid pkts)) as [|pm mains]; [discriminate HS|].
    destruct (s_main (sp_body pm)) as [m|] eqn:ESM; [|discriminate HS].
    destruct (negb (beq (md5 (sp_body pm)) sid)); [discriminate HS|].
    destruct (s_files (own sid pkts) (sm_slice m) (sm_rec m)) as [rs|] eqn:ER; [|discriminate HS].
    destruct (s_files (own sid pkts) (sm_slice m) (sm_nonrec m)) as [nrs|] eqn:ENR; [|discriminate HS].
    apply some_inj in HS. subst si. cbn [si_main si_slice si_rec si_nonrec].
    exists m. split; [exact ESM|]. split; [reflexivity|].
    split; [exact (s_files_ids _ _ _ _ ER)|exact (s_files_ids _ _ _ _ ENR)].
  Qed.

  (* the state of the reader's loop on an accepted index file *)
  Lemma spec_index_state : forall b sid si,
    wf_bytes b -> s_index sid b = Some si -> g_index_extra sid b = true ->
    exists pkts f m,
      s_parse md5 (S (length b)) b = Some pkts /\ file_facts sid pkts /\
      read_file md5 None b = RFOk sid f /\ char md5 sid (map of_sp pkts) f true /\
      s_main (si_main si) = Some m /\ s_main_ok m = true /\ si_slice si = sm_slice m /\ pf_main f = Some (mp_of m) /\ pf_recv f = [] /\
      s_files (own sid pkts) (sm_slice m) (sm_rec m) = Some (si_rec si) /\
      s_files (own sid pkts) (sm_slice m) (sm_nonrec m) = Some (si_nonrec si) /\
      (exists pm, In pm (own sid pkts) /\ sp_type pm = TYPE_MAIN /\ sp_body pm = si_main si).
  Proof.
    intros b sid si Hw HS HG.
    unfold s_index in HS. unfold g_index_extra in HG.
    destruct (s_parse md5 (S (length b)) b) as [pkts|] eqn:EP; [|discriminate HS].
    destruct (s_parse_is_frames md5 _ b pkts Hw EP) as (Eb & Hwf & Hwb).
    cbv zeta in HS.
    destruct (s_pkts_ok sid pkts) eqn:EOK; [|discriminate HS]. cbn [negb] in HS.
    destruct (Nat.eqb (length (of_type sT_creator (own sid pkts))) 0) eqn:ECR; [discriminate HS|].
    destruct (of_type sT_main (own sid pkts)) as [|pm mains] eqn:EM; [discriminate HS|].
    destruct (s_main (sp_body pm)) as [m|] eqn:ESM; [|discriminate HS].
    destruct (beq (md5 (sp_body pm)) sid) eqn:ESID; [|discriminate HS]. cbn [negb] in HS.
    destruct (s_files (own sid pkts) (sm_slice m) (sm_rec m)) as [rs|] eqn:ER; [|discriminate HS].
    destruct (s_files (own sid pkts) (sm_slice m) (sm_nonrec m)) as [nrs|] eqn:ENR; [|discriminate HS].
    apply some_inj in HS. subst si. cbn [si_main si_slice si_rec si_nonrec].
    apply andb_true_iff in HG. destruct HG as [HG HNR]. apply andb_true_iff in HG. destruct HG as [HFO HEX].
    unfold s_pkts_ok in EOK. apply andb_true_iff in EOK. destruct EOK as [HOK HC].
    assert (HF : file_facts sid pkts) by (unfold file_facts; tauto).
    destruct (spec_run sid pkts HF) as (f & found & ERUN & CH).
    pose proof CH as (C1 & C2 & C3 & C4 & C5 & C6).
    exists pkts, f, m. split; [reflexivity|]. split; [exact HF|].
    destruct pkts as [|p0 pkts']; [discriminate HFO|]. cbn [first_own] in HFO. apply beq_eq in HFO.
    assert (Efound : found = true).
    { apply C1. exists (of_sp p0). split; [left; reflexivity|]. split; [exact HFO|exact I]. }
    subst found.
    assert (HCL : pf_client f <> None).
    { apply C2. destruct (of_type sT_creator (own sid (p0 :: pkts'))) as [|pc r] eqn:EC; [discriminate ECR|].
      assert (Hpc : In pc (of_type sT_creator (own sid (p0 :: pkts')))) by (rewrite EC; left; reflexivity).
      apply in_of_type in Hpc. destruct Hpc as [Hpco Hpct]. apply in_own in Hpco. destruct Hpco as [Hpc Hpcs].
      exists (of_sp pc). split; [apply in_map; exact Hpc|]. split; [exact Hpcs|]. rewrite <- type_creator_eq. exact Hpct. }
    assert (ERF : read_file md5 None b = RFOk sid f).
    { rewrite Eb. cbn [map]. inversion Hwf as [|q0 l0 Hp0 Hl0]; subst q0 l0.
      rewrite (read_file_index md5 md5_len (of_sp p0) (map of_sp pkts') Hp0).
      change (pk_set (of_sp p0)) with (sp_set p0). rewrite HFO.
      change (of_sp p0 :: map of_sp pkts') with (map of_sp (p0 :: pkts')).
      rewrite (read_file_run md5 md5_len sid _ Hwf), ERUN. cbn [finish]. destruct (pf_client f); [reflexivity|congruence]. }
    split; [exact ERF|]. split; [exact CH|].
    assert (Hpm : In pm (of_type sT_main (own sid (p0 :: pkts')))) by (rewrite EM; left; reflexivity).
    apply in_of_type in Hpm. destruct Hpm as [Hpmo Hpmt]. rewrite type_main_eq in Hpmt.
    destruct (own_link _ _ pm HF Hpmo) as (L1 & _). destruct (L1 Hpmt) as (m' & Em' & Hmok & RM).
    assert (m' = m) by congruence. subst m'.
    split; [exact ESM|]. split; [exact Hmok|]. split; [reflexivity|].
    split.
    { apply C3. pose proof (proj1 (in_own _ _ _) Hpmo) as [Hpm Hpms].
      exists (of_sp pm). split; [apply in_map; exact Hpm|]. split; [exact Hpms|]. split; [exact Hpmt|exact RM]. }
    split.
    { destruct (pf_recv f) as [|[e d] r] eqn:E; [reflexivity|]. exfalso.
      assert (A : assoc_n ((e, d) :: r) e = Some d) by (cbn [assoc_n]; rewrite N.eqb_refl; reflexivity).
      apply C6 in A. destruct A as (q & Hq & Hs & Ht & _).
      destruct (own_of_sp sid _ q Hq Hs) as (p & Hp & ->).
      assert (X : In p (of_type sT_recv (own sid (p0 :: pkts')))).
      { apply in_of_type. split; [exact Hp|]. rewrite type_recv_eq. exact Ht. }
      destruct (of_type sT_recv (own sid (p0 :: pkts'))); [destruct X|discriminate HNR]. }
    split; [exact ER|]. split; [exact ENR|].
    exists pm. split; [exact Hpmo|]. split; [exact Hpmt|reflexivity].
  Qed.

  Theorem spec_index_accepted : forall ix fs b sid si,
    wf_bytes b -> fs_lookup fs ix = Some b ->
    s_index sid b = Some si -> g_index_extra sid b = true ->
    exists d st, new_decoder md5 ix (io_init fs []) = (Ok d, st) /\
      d_index d = ix /\ d_setid d = sid /\ d_slice d = si_slice si /\
      d_rec d = map dinfo_of (si_rec si) /\ d_nonrec d = map dinfo_of (si_nonrec si).
  Proof.
    intros ix fs b sid si Hw Hfs HS HG.
    destruct (spec_index_state b sid si Hw HS HG) as (pkts & f & m & EP & HF & ERF & CH & _ & _ & ESL & HMAIN & HRECV & ER & ENR & _).
    destruct (io_read_nosched ix (io_init fs []) eq_refl) as (st1 & EIO & _ & _).
    assert (ERR : read_res fs ix = Ok b) by (unfold read_res; rewrite Hfs; reflexivity).
    cbn [io_init io_fs] in EIO. rewrite ERR in EIO.
    unfold new_decoder. rewrite EIO, ERF, HMAIN, HRECV.
    change (mp_slice (mp_of m)) with (sm_slice m). change (mp_rec (mp_of m)) with (sm_rec m). change (mp_nonrec (mp_of m)) with (sm_nonrec m).
    rewrite (make_infos_spec f (own sid pkts) (sm_slice m) (find_fd_assoc sid pkts f true HF CH) (find_if_assoc sid pkts f true HF CH) _ _ ER).
    rewrite (make_infos_spec f (own sid pkts) (sm_slice m) (find_fd_assoc sid pkts f true HF CH) (find_if_assoc sid pkts f true HF CH) _ _ ENR).
    cbn [obind]. eexists. exists st1. split; [reflexivity|]. cbn [d_index d_setid d_slice d_rec d_nonrec]. rewrite ESL. repeat split; reflexivity.
  Qed.
  (** ** R2. a recovery file *)

  (* the (exponent, block) pairs of the recovery packets among o *)
  Definition s_recvs (o : list spacket) : list (N * bytes) :=
    flat_map (fun p => match s_recv (sp_body p) with Some x => [x] | None => [] end) (of_type sT_recv o).

  (* SPECIFICATION: a sequence of well-formed packets - any order, duplicates, other sets, unknown types - in which the
     packets of the set have the layouts of their types and agree; returns the recovery blocks of the set *)
  Definition s_volume (sid : bytes) (b : bytes) : option (list (N * bytes)) :=
    match s_parse md5 (S (length b)) b with
    | None => None
    | Some pkts => if s_pkts_ok sid pkts then Some (s_recvs (own sid pkts)) else None
    end.
  (* GOPAR: every packet of the set in the file passes g_pkt_extra - also the main, description and checksum packets
     a recovery file carries, which LoadParityData does not use *)
  Definition g_volume_extra (sid : bytes) (b : bytes) : bool :=
    match s_parse md5 (S (length b)) b with
    | Some pkts => forallb g_pkt_extra (own sid pkts)
    | None => false
    end.
  Definition has_own (sid : bytes) (b : bytes) : bool :=
    match s_parse md5 (S (length b)) b with
    | Some pkts => negb (Nat.eqb (length (own sid pkts)) 0)
    | None => false
    end.

  Lemma recvs_iff sid pkts e d : file_facts sid pkts ->
    (In (e, d) (s_recvs (own sid pkts)) <-> own_in sid (map of_sp pkts) (is_recv e d)).
  Proof.
    intros HF. unfold s_recvs. rewrite in_flat_map. split.
    - intros (p & Hp & Hx). apply in_of_type in Hp. destruct Hp as [Hpo Ht]. rewrite type_recv_eq in Ht.
      destruct (own_link sid pkts p HF Hpo) as (_ & _ & _ & L4). destruct (L4 Ht) as (x & Ex & R).
      rewrite Ex in Hx. destruct Hx as [->|[]].
      apply in_own in Hpo. destruct Hpo as [Hp Hs].
      exists (of_sp p). split; [apply in_map; exact Hp|]. split; [exact Hs|]. split; [exact Ht|exact R].
    - intros (q & Hq & Hs & Ht & R). destruct (own_of_sp sid pkts q Hq Hs) as (p & Hp & ->).
      change (pk_type (of_sp p)) with (sp_type p) in Ht. change (pk_body (of_sp p)) with (sp_body p) in R.
      exists p. split; [apply in_of_type; split; [exact Hp|rewrite type_recv_eq; exact Ht]|].
      destruct (own_link sid pkts p HF Hp) as (_ & _ & _ & L4). destruct (L4 Ht) as (x & Ex & R').
      rewrite Ex. left. congruence.
  Qed.

  Theorem spec_volume_accepted : forall b sid rs,
    wf_bytes b -> s_volume sid b = Some rs -> g_volume_extra sid b = true ->
    (has_own sid b = true ->
       exists f, read_file_vol md5 sid b = RFOk sid f /\
                 (forall e d, In (e, d) (pf_recv f) <-> In (e, d) rs) /\
                 (forall e d, assoc_n (pf_recv f) e = Some d <-> In (e, d) rs)) /\
    (has_own sid b = false -> read_file_vol md5 sid b = RFNoPackets).
  Proof.
    intros b sid rs Hw HS HG. unfold s_volume in HS. unfold g_volume_extra in HG. unfold has_own.
    destruct (s_parse md5 (S (length b)) b) as [pkts|] eqn:EP; [|discriminate HS].
    destruct (s_parse_is_frames md5 _ b pkts Hw EP) as (Eb & Hwf & Hwb).
    destruct (s_pkts_ok sid pkts) eqn:EOK; [|discriminate HS]. apply some_inj in HS. subst rs.
    unfold s_pkts_ok in EOK. apply andb_true_iff in EOK. destruct EOK as [HOK HC].
    assert (HF : file_facts sid pkts) by (unfold file_facts; tauto).
    destruct (run_good md5 sid (map of_sp pkts) (spec_parses sid pkts HF) (spec_recv_agree sid pkts HC))
      as (f & found & ERUN & C1 & _ & C6 & C6in).
    assert (ERV : read_file_vol md5 sid b = finish sid (vol_state (Some (f, found)))).
    { rewrite Eb at 1. rewrite (read_file_vol_run md5 md5_len sid _ Hwf), run_vol_run, ERUN. reflexivity. }
    split.
    - intros Hown. apply negb_true_iff in Hown. apply Nat.eqb_neq in Hown.
      assert (Efound : found = true).
      { apply C1. destruct (own sid pkts) as [|p r] eqn:EO; [cbn [length] in Hown; lia|].
        assert (Hp : In p (own sid pkts)) by (rewrite EO; left; reflexivity). apply in_own in Hp. destruct Hp as [Hp Hs].
        exists (of_sp p). split; [apply in_map; exact Hp|]. split; [exact Hs|exact I]. }
      subst found. rewrite finish_vol in ERV. exists (vol_client f). split; [exact ERV|].
      change (pf_recv (vol_client f)) with (pf_recv f).
      split; intros e d; rewrite (recvs_iff sid pkts e d HF).
      + split; [apply C6in|]. intros H. apply C6 in H. apply Par2Reader2.assoc_n_in. exact H.
      + apply C6.
    - intros Hown. apply negb_false_iff in Hown. apply Nat.eqb_eq in Hown.
      destruct found.
      + exfalso. assert (X : true = true) by reflexivity. apply C1 in X. destruct X as (q & Hq & Hs & _).
        destruct (own_of_sp sid pkts q Hq Hs) as (p & Hp & _). destruct (own sid pkts); [destruct Hp|discriminate Hown].
      + rewrite ERV. reflexivity.
  Qed.

  (** ** R3. the set in a directory *)

  (* SPECIFICATION, for a file beside the index file whose parse is si: s_volume; the main packets of the set in it are
     copies of the one in the index file; every recovery block has the slice size of the set *)
  Definition s_volume_of (sid : bytes) (si : sindex) (b : bytes) : bool :=
    match s_parse md5 (S (length b)) b with
    | None => false
    | Some pkts =>
        s_pkts_ok sid pkts
        && forallb (fun p => beq (sp_body p) (si_main si)) (of_type sT_main (own sid pkts))
        && forallb (fun x : N * bytes => N.of_nat (length (snd x)) =? si_slice si) (s_recvs (own sid pkts))
    end.
  (* the recovery blocks of the set in a file *)
  Definition s_blocks (sid : bytes) (b : bytes) : list (N * bytes) :=
    match s_parse md5 (S (length b)) b with Some pkts => s_recvs (own sid pkts) | None => [] end.

  (* the packets of the file at a path *)
  Definition content_of (fs : list (list N * bytes)) (p : list N) : list apkt :=
    match fs_lookup fs p with
    | Some b => match s_parse md5 (S (length b)) b with Some pkts => map of_sp pkts | None => [] end
    | None => []
    end.

  Section SetLoaded.
    Variables (ix : list N) (fs : list (list N * bytes)) (bix sid : bytes) (si : sindex).
    Hypothesis Hext : str_eqb (ext ix) EXT_PAR2 = true.
    Hypothesis Hix : fs_lookup fs ix = Some bix.
    Hypothesis Hwix : wf_bytes bix.
    Hypothesis Hsi : s_index sid bix = Some si.
    Hypothesis Hgi : g_index_extra sid bix = true.
    (* every file the discovery pattern lists is a recovery file of the set the specification and gopar accept *)
    Hypothesis Hvols : forall p b, In p (rec_listing ix fs) -> fs_lookup fs p = Some b ->
      wf_bytes b /\ s_volume_of sid si b = true /\ g_volume_extra sid b = true.
    (* the blocks of one exponent are the same in all files *)
    Hypothesis Hagree : forall p1 b1 p2 b2 e d1 d2,
      In p1 (rec_listing ix fs) -> fs_lookup fs p1 = Some b1 -> In p2 (rec_listing ix fs) -> fs_lookup fs p2 = Some b2 ->
      In (e, d1) (s_blocks sid b1) -> In (e, d2) (s_blocks sid b2) -> d1 = d2.
    (* a protected file may be missing, but its path is not a directory *)
    Hypothesis Hprot : forall x, In x (si_rec si) -> fs_lookup fs (file_path ix (sfl_name x)) = None ->
      is_dir fs (file_path ix (sfl_name x)) = false.

    Lemma listed_lookup p : In p (rec_listing ix fs) -> exists b pkts,
      fs_lookup fs p = Some b /\ s_parse md5 (S (length b)) b = Some pkts /\ content_of fs p = map of_sp pkts /\
      b = frames md5 (map of_sp pkts) /\ file_facts sid pkts /\
      forallb (fun p => beq (sp_body p) (si_main si)) (of_type sT_main (own sid pkts)) = true /\
      forallb (fun x : N * bytes => N.of_nat (length (snd x)) =? si_slice si) (s_recvs (own sid pkts)) = true /\
      s_blocks sid b = s_recvs (own sid pkts).
    Proof.
      intros Hp. pose proof Hp as Hp'. apply in_rec_listing in Hp'. destruct Hp' as [Hk _].
      destruct (fs_lookup fs p) as [b|] eqn:EL; [|exfalso; exact (Par2Ignore.fs_lookup_in fs p Hk EL)].
      destruct (Hvols p b Hp EL) as (Hw & HV & HG). unfold s_volume_of in HV. unfold g_volume_extra in HG.
      destruct (s_parse md5 (S (length b)) b) as [pkts|] eqn:EP; [|discriminate HV].
      destruct (s_parse_is_frames md5 _ b pkts Hw EP) as (Eb & Hwf & Hwb).
      apply andb_true_iff in HV. destruct HV as [HV HL]. apply andb_true_iff in HV. destruct HV as [EOK HM].
      unfold s_pkts_ok in EOK. apply andb_true_iff in EOK. destruct EOK as [HOK HC].
      exists b, pkts. split; [reflexivity|]. split; [exact EP|].
      split; [unfold content_of; rewrite EL, EP; reflexivity|]. split; [exact Eb|].
      split; [unfold file_facts; tauto|]. split; [exact HM|]. split; [exact HL|]. unfold s_blocks. rewrite EP. reflexivity.
    Qed.

    (* the first stage of load_all: the decoder of R1, the protected files scanned *)
    Lemma spec_set_front : exists d fis t,
      fst (load_front md5 ix (io_init fs [])) = Ok (d, fis, t) /\
      d_index d = ix /\ d_setid d = sid /\ d_slice d = si_slice si /\
      d_rec d = map dinfo_of (si_rec si) /\ d_nonrec d = map dinfo_of (si_nonrec si).
    Proof.
      destruct (spec_index_accepted ix fs bix sid si Hwix Hix Hsi Hgi) as (d & st1 & END & D1 & D2 & D3 & D4 & D5).
      destruct (new_decoder_pres md5 ix (io_init fs [])) as (F1 & S1 & _). rewrite END in F1, S1. cbn [snd io_init io_fs io_sched] in F1, S1.
      destruct (new_decoder_ok md5 ix _ d st1 END) as (_ & Hs4).
      unfold load_front. rewrite Hext. cbn [negb]. rewrite END.
      unfold win_new. destruct (Z.ltb_spec (Z.of_N (d_slice d)) 4) as [X|_]; [lia|]. cbv zeta.
      lazymatch goal with |- exists d' fis t', fst (match load_files md5 ?dd ?w ?t ?todo ?fis0 ?s with _ => _ end) = _ /\ _ =>
        destruct (load_files_total md5 dd w t todo fis0 s S1) as (fis & st2 & ELF & _ & _) end.
      { intros i info Hin. apply in_combine_r in Hin. rewrite D4 in Hin. apply in_map_iff in Hin. destruct Hin as (x & <- & Hx).
        rewrite F1, D1. change (di_name (dinfo_of x)) with (sfl_name x). apply Hprot. exact Hx. }
      rewrite ELF. exists d, fis, (make_cstable (d_rec d)). split; [reflexivity|]. tauto.
    Qed.

    (* the hypotheses of Par2Reader2.blocks_spread_over_files / Par2LayoutOps.intact_block_found_and_used *)
    Lemma spec_set_content d : d_setid d = sid -> d_slice d = si_slice si ->
      d_rec d = map dinfo_of (si_rec si) -> d_nonrec d = map dinfo_of (si_nonrec si) ->
      (forall p', In p' (rec_listing ix fs) -> read_res fs p' = Ok (frames md5 (content_of fs p'))) /\
      (forall p' q', In p' (rec_listing ix fs) -> In q' (content_of fs p') -> pkt_ok md5 d q') /\
      recv_agree (d_setid d) (concat (map (content_of fs) (rec_listing ix fs))) /\
      (forall e dd, has_block (d_setid d) (map (content_of fs) (rec_listing ix fs)) e dd <->
                    exists p b, In p (rec_listing ix fs) /\ fs_lookup fs p = Some b /\ In (e, dd) (s_blocks sid b)).
    Proof.
      intros D2 D3 D4 D5.
      destruct (spec_index_state bix sid si Hwix Hsi Hgi) as (pkx & fx & m & _ & _ & _ & _ & ESM & Hmok & ESL & _ & _ & ER & ENR & _).
      split; [|split; [|split]].
      - intros p Hp. destruct (listed_lookup p Hp) as (b & pkts & EL & _ & EC & Eb & _). rewrite EC, <- Eb.
        unfold read_res. rewrite EL. reflexivity.
      - intros p q Hp Hq. destruct (listed_lookup p Hp) as (b & pkts & EL & _ & EC & Eb & HF & HM & HL & _). rewrite EC in Hq.
        pose proof HF as (Hwf & _). split; [rewrite Forall_forall in Hwf; apply Hwf; exact Hq|].
        rewrite D2. intros Hs. split; [apply (spec_parses sid pkts HF q Hq Hs)|]. split.
        + intros m' (Tm & Rm). destruct (own_of_sp sid pkts q Hq Hs) as (pp & Hpp & ->).
          change (pk_type (of_sp pp)) with (sp_type pp) in Tm. change (pk_body (of_sp pp)) with (sp_body pp) in Rm.
          destruct (own_link sid pkts pp HF Hpp) as (L1 & _). destruct (L1 Tm) as (m2 & Em2 & _ & Rm2).
          rewrite forallb_forall in HM.
          assert (Eb2 : sp_body pp = si_main si).
          { apply beq_eq. apply HM. apply in_of_type. split; [exact Hpp|rewrite type_main_eq; exact Tm]. }
          rewrite Eb2 in Em2. assert (m2 = m) by congruence. subst m2.
          assert (m' = mp_of m) by congruence. subst m'.
          unfold main_agrees. change (mp_slice (mp_of m)) with (sm_slice m). change (mp_rec (mp_of m)) with (sm_rec m).
          change (mp_nonrec (mp_of m)) with (sm_nonrec m).
          rewrite D3, ESL, N.eqb_refl, D4, D5, !map_map.
          change (fun x : sfile => di_id (dinfo_of x)) with sfl_id.
          rewrite (s_files_ids _ _ _ _ ER), (s_files_ids _ _ _ _ ENR), !list_beq_bytes_refl. reflexivity.
        + intros e dd Hr. rewrite D3.
          assert (X : In (e, dd) (s_recvs (own sid pkts))).
          { apply (recvs_iff sid pkts e dd HF). exists q. split; [exact Hq|]. split; [exact Hs|exact Hr]. }
          rewrite forallb_forall in HL. apply N.eqb_eq. exact (HL (e, dd) X).
      - rewrite D2. intros q1 q2 e d1 d2 I1 I2 S1 S2 T1 T2 R1 R2.
        apply in_concat in I1. destruct I1 as (l1 & Hl1 & I1). apply in_map_iff in Hl1. destruct Hl1 as (p1 & <- & Hp1).
        apply in_concat in I2. destruct I2 as (l2 & Hl2 & I2). apply in_map_iff in Hl2. destruct Hl2 as (p2 & <- & Hp2).
        destruct (listed_lookup p1 Hp1) as (b1 & pk1 & EL1 & _ & EC1 & _ & HF1 & _ & _ & EB1).
        destruct (listed_lookup p2 Hp2) as (b2 & pk2 & EL2 & _ & EC2 & _ & HF2 & _ & _ & EB2).
        rewrite EC1 in I1. rewrite EC2 in I2.
        apply (Hagree p1 b1 p2 b2 e d1 d2 Hp1 EL1 Hp2 EL2).
        + rewrite EB1. apply (recvs_iff sid pk1 e d1 HF1). exists q1. split; [exact I1|]. split; [exact S1|]. split; assumption.
        + rewrite EB2. apply (recvs_iff sid pk2 e d2 HF2). exists q2. split; [exact I2|]. split; [exact S2|]. split; assumption.
      - intros e dd. rewrite D2. unfold has_block. split.
        + intros (l & q & Hl & Hq & Hs & Hr). apply in_map_iff in Hl. destruct Hl as (p & <- & Hp).
          destruct (listed_lookup p Hp) as (b & pkts & EL & _ & EC & _ & HF & _ & _ & EB). rewrite EC in Hq.
          exists p, b. split; [exact Hp|]. split; [exact EL|]. rewrite EB. apply (recvs_iff sid pkts e dd HF).
          exists q. split; [exact Hq|]. split; [exact Hs|exact Hr].
        + intros (p & b & Hp & EL & Hin).
          destruct (listed_lookup p Hp) as (b' & pkts & EL' & _ & EC & _ & HF & _ & _ & EB).
          assert (b' = b) by congruence. subst b'. rewrite EB in Hin.
          apply (recvs_iff sid pkts e dd HF) in Hin. destruct Hin as (q & Hq & Hs & Hr).
          exists (content_of fs p), q. split; [apply in_map; exact Hp|]. rewrite EC. split; [exact Hq|]. split; [exact Hs|exact Hr].
    Qed.

    (* R3: load_all succeeds, with the decoder of R1, and the table of recovery blocks holds at every exponent exactly
       the block the specification-side parse of the recovery files gives for it *)
    Theorem spec_set_loaded : exists ds st',
      load_all md5 ix (io_init fs []) = (Ok ds, st') /\
      d_index (ds_dec ds) = ix /\ d_setid (ds_dec ds) = sid /\ d_slice (ds_dec ds) = si_slice si /\
      d_rec (ds_dec ds) = map dinfo_of (si_rec si) /\ d_nonrec (ds_dec ds) = map dinfo_of (si_nonrec si) /\
      (forall e dd, nth (N.to_nat e) (ds_parity ds) None = Some dd <->
                    exists p b, In p (rec_listing ix fs) /\ fs_lookup fs p = Some b /\ In (e, dd) (s_blocks sid b)) /\
      (forall e, nth (N.to_nat e) (ds_parity ds) None = None <->
                 ~ exists dd p b, In p (rec_listing ix fs) /\ fs_lookup fs p = Some b /\ In (e, dd) (s_blocks sid b)).
    Proof.
      destruct spec_set_front as (d & fis & t & HFR & D1 & D2 & D3 & D4 & D5).
      destruct (spec_set_content d D2 D3 D4 D5) as (HC & Hok & Hag & HB).
      rewrite load_all_split.
      destruct (load_front_pres md5 ix (io_init fs [])) as (F & S & _).
      destruct (load_front md5 ix (io_init fs [])) as [r s2]. cbn [fst snd io_init io_fs io_sched] in *. subst r.
      unfold load_back. cbn [fst snd].
      destruct (io_list_nosched ix s2 S) as (s3 & L & S3 & F3). rewrite L, F.
      destruct (blocks_spread_over_files md5 md5_len d (rec_listing ix fs) (map (content_of fs) (rec_listing ix fs)) s3 S3)
        as (acc & st' & E & _ & _ & HS & HN).
      { rewrite F3, F. apply Forall2_map_fun. exact HC. }
      { intros l q' Hl Hq'. apply in_map_iff in Hl. destruct Hl as (p' & <- & Hp'). exact (Hok p' q' Hp' Hq'). }
      { exact Hag. }
      rewrite E. eexists. eexists. split; [reflexivity|]. cbn [ds_dec ds_parity].
      split; [exact D1|]. split; [exact D2|]. split; [exact D3|]. split; [exact D4|]. split; [exact D5|].
      split.
      - intros e dd. rewrite HS. apply HB.
      - intros e. rewrite HN. split; intros H (dd & X); apply H.
        + destruct X as (p & b & X). exists dd. apply HB. exists p, b. exact X.
        + apply HB in X. destruct X as (p & b & X). exists dd, p, b. exact X.
    Qed.

    (* R3 through Par2LayoutOps.intact_block_found_and_used (Props/C06.v C06_intact_block_found_and_used): every block the
       specification-side parse finds in a listed file is in the loaded table, and the usable-block count is the number
       of distinct exponents the specification-side parse finds *)
    Theorem spec_set_block_found_and_used : forall p b e dd,
      In p (rec_listing ix fs) -> fs_lookup fs p = Some b -> In (e, dd) (s_blocks sid b) ->
      exists ds st',
        load_all md5 ix (io_init fs []) = (Ok ds, st') /\ d_setid (ds_dec ds) = sid /\
        d_rec (ds_dec ds) = map dinfo_of (si_rec si) /\
        nth (N.to_nat e) (ds_parity ds) None = Some dd /\
        (1 <= c_pusable (shard_counts ds))%nat /\
        (forall es, NoDup es ->
           (forall e', In e' es <-> exists dd' p' b', In p' (rec_listing ix fs) /\ fs_lookup fs p' = Some b' /\ In (e', dd') (s_blocks sid b')) ->
           c_pusable (shard_counts ds) = length es).
    Proof.
      intros p b e dd Hp EL Hin.
      destruct spec_set_front as (d & fis & t & HFR & D1 & D2 & D3 & D4 & D5).
      destruct (spec_set_content d D2 D3 D4 D5) as (HC & Hok & Hag & HB).
      destruct (listed_lookup p Hp) as (b' & pkts & EL' & _ & EC & _ & HF & _ & _ & EB).
      assert (b' = b) by congruence. subst b'. rewrite EB in Hin.
      apply (recvs_iff sid pkts e dd HF) in Hin. destruct Hin as (q & Hq & Hs & Hr).
      pose proof Hp as Hp'. apply in_rec_listing in Hp'. destruct Hp' as [Hk Hpat].
      destruct (intact_block_found_and_used md5 md5_len ix fs d fis t (content_of fs) p q e dd HFR HC Hok Hag Hk Hpat)
        as (ds & st' & E & E1 & _ & E3 & E4 & E5).
      { rewrite EC. exact Hq. }
      { rewrite D2. exact Hs. }
      { exact Hr. }
      exists ds, st'. split; [exact E|]. rewrite E1. split; [exact D2|]. split; [exact D4|]. split; [exact E3|]. split; [exact E4|].
      intros es Hnd Hes. apply E5; [exact Hnd|]. intros e'. rewrite Hes. split.
      - intros (dd' & p' & b' & X). exists dd'. apply HB. exists p', b'. exact X.
      - intros (dd' & X). apply HB in X. destruct X as (p' & b' & X). exists dd', p', b'. exact X.
    Qed.
  End SetLoaded.
End SpecReader.

Print Assumptions s_parse_is_frames.
Print Assumptions spec_index_accepted.
Print Assumptions s_index_main_order.
Print Assumptions spec_volume_accepted.
Print Assumptions spec_set_loaded.
Print Assumptions spec_set_block_found_and_used.

(** * Examples: every hypothesis instantiated on concrete sets (stand-in digest toy_md5), and the witnesses showing that
      each requirement gopar adds to the specification is needed *)
Lemma wf_bytes_b (b : bytes) : forallb (fun x => x <? 256) b = true -> wf_bytes b.
Proof. intros H. apply Forall_forall. intros x Hx. rewrite forallb_forall in H. apply N.ltb_lt. exact (H x Hx). Qed.

Module SRExample.
  Import String.
  Local Open Scope string_scope.
  Local Open Scope list_scope.
  Module LO := Par2LayoutOps.LOExample.

  (** ** a set by "another writer", built from the packets gopar's Create wrote for the files a, b (Par2LayoutOps.LOExample) *)
  Definition ix : list N := LO.ix.                                   (* /w/o.par2 *)
  Definition sid : bytes := pk_set LO.pm.
  (* a packet of the set of a type gopar does not know *)
  Definition unk : apkt := (sid, s_type [85; 110; 107], [1; 2; 3; 4]).
  (* the index file: main packet first, a recovery packet of ANOTHER set, the unknown packet, the checksum packet of a
     before its description, the creator in the middle, the main packet a second time at the end *)
  Definition ixD : list apkt := [LO.pm; LO.foreign; unk; LO.pia; LO.pc; LO.pfa; LO.pfb; LO.pib; LO.pm].
  Definition bixD : bytes := frames toy_md5 ixD.
  (* the directory: the index, the protected file b (a is missing), three recovery files under names gopar would not
     choose: [r1; foreign; r1; pia; pfa], [r0; pib; pfb; pm; pc], [foreign] *)
  Definition fsD : list (list N * bytes) := LO.fsB_with bixD.
  Definition nosi : sindex := {| si_main := []; si_slice := 0; si_rec := []; si_nonrec := [] |}.
  Definition siD : sindex := match s_index toy_md5 sid bixD with Some x => x | None => nosi end.

  Example ex_bridge :
    wf_bytes bixD /\ s_parse toy_md5 (S (List.length bixD)) bixD = Some (map to_sp ixD) /\
    bixD = frames toy_md5 (map of_sp (map to_sp ixD)) /\ Forall wf_pkt (map of_sp (map to_sp ixD)).
  Proof.
    assert (W : wf_bytes bixD) by (apply wf_bytes_b; vm_compute; reflexivity).
    assert (P : s_parse toy_md5 (S (List.length bixD)) bixD = Some (map to_sp ixD)) by (vm_compute; reflexivity).
    destruct (s_parse_is_frames toy_md5 _ _ _ W P) as (E & F & _). tauto.
  Qed.

  (* R1: the hypotheses *)
  Example ex_index_hypotheses :
    wf_bytes bixD /\ fs_lookup fsD ix = Some bixD /\ s_index toy_md5 sid bixD = Some siD /\ g_index_extra toy_md5 sid bixD = true.
  Proof.
    split; [apply wf_bytes_b; vm_compute; reflexivity|]. split; [vm_compute; reflexivity|].
    split; vm_compute; reflexivity.
  Qed.
  (* what the specification-side parse says: slice size 4; b (4 bytes, one slice) before a (5 bytes, two slices) *)
  Example ex_index_spec_fields :
    si_slice siD = 4 /\ map sfl_name (si_rec siD) = [bs "b"; bs "a"] /\ map sfl_len (si_rec siD) = [4; 5] /\
    map (fun x => List.length (sfl_pairs x)) (si_rec siD) = [1; 2]%nat /\ si_nonrec siD = [].
  Proof. vm_compute. repeat split; reflexivity. Qed.
  (* R1: the conclusion, by the theorem *)
  Example ex_index_accepted : exists d st,
    new_decoder toy_md5 ix (io_init fsD []) = (Ok d, st) /\ d_index d = ix /\ d_setid d = sid /\ d_slice d = si_slice siD /\
    d_rec d = map (dinfo_of) (si_rec siD) /\ d_nonrec d = map (dinfo_of) (si_nonrec siD).
  Proof.
    destruct ex_index_hypotheses as (H1 & H2 & H3 & H4).
    exact (spec_index_accepted toy_md5 toy_md5_len16 ix fsD bixD sid siD H1 H2 H3 H4).
  Qed.
  (* the same decoder as for gopar's own index file *)
  Example ex_index_same_decoder : fst (new_decoder toy_md5 ix (io_init fsD [])) = Ok LO.dec.
  Proof. vm_compute. reflexivity. Qed.

  (* R2 on the recovery file [r1; foreign; r1; pia; pfa] and on the file [foreign] *)
  Definition bB1 : bytes := frames toy_md5 LO.B1.
  Definition bB3 : bytes := frames toy_md5 LO.B3.
  Example ex_volume_hypotheses :
    wf_bytes bB1 /\ s_volume toy_md5 sid bB1 = Some [(1, [88; 6; 28; 2]); (1, [88; 6; 28; 2])] /\
    g_volume_extra toy_md5 sid bB1 = true /\ has_own toy_md5 sid bB1 = true /\
    wf_bytes bB3 /\ s_volume toy_md5 sid bB3 = Some [] /\ g_volume_extra toy_md5 sid bB3 = true /\ has_own toy_md5 sid bB3 = false.
  Proof.
    split; [apply wf_bytes_b; vm_compute; reflexivity|]. split; [vm_compute; reflexivity|].
    split; [vm_compute; reflexivity|]. split; [vm_compute; reflexivity|].
    split; [apply wf_bytes_b; vm_compute; reflexivity|]. repeat split; vm_compute; reflexivity.
  Qed.
  Example ex_volume_accepted :
    (exists f, read_file_vol toy_md5 sid bB1 = RFOk sid f /\ forall e d, In (e, d) (pf_recv f) <-> (e, d) = (1, [88; 6; 28; 2])) /\
    read_file_vol toy_md5 sid bB3 = RFNoPackets.
  Proof.
    destruct ex_volume_hypotheses as (H1 & H2 & H3 & H4 & H5 & H6 & H7 & H8).
    split.
    - destruct (proj1 (spec_volume_accepted toy_md5 toy_md5_len16 bB1 sid _ H1 H2 H3) H4) as (f & E & HI & _).
      exists f. split; [exact E|]. intros e d. rewrite HI. cbn [In]. split; [intros [X|[X|[]]]; symmetry; exact X|intros X; left; symmetry; exact X].
    - exact (proj2 (spec_volume_accepted toy_md5 toy_md5_len16 bB3 sid _ H5 H6 H7) H8).
  Qed.

  (* R3: the hypotheses for the directory fsD *)
  Lemma listing_D : rec_listing ix fsD = [LO.pB3; LO.pB2; LO.pB1].
  Proof. vm_compute. reflexivity. Qed.

  Lemma look_B1 : fs_lookup fsD LO.pB1 = Some (frames toy_md5 LO.B1). Proof. vm_compute. reflexivity. Qed.
  Lemma look_B2 : fs_lookup fsD LO.pB2 = Some (frames toy_md5 LO.B2). Proof. vm_compute. reflexivity. Qed.
  Lemma look_B3 : fs_lookup fsD LO.pB3 = Some (frames toy_md5 LO.B3). Proof. vm_compute. reflexivity. Qed.
  Lemma blocks_B1 : s_blocks toy_md5 sid (frames toy_md5 LO.B1) = [(1, [88; 6; 28; 2]); (1, [88; 6; 28; 2])].
  Proof. vm_compute. reflexivity. Qed.
  Lemma blocks_B2 : s_blocks toy_md5 sid (frames toy_md5 LO.B2) = [(0, [2; 5; 11; 13])].
  Proof. vm_compute. reflexivity. Qed.
  Lemma blocks_B3 : s_blocks toy_md5 sid (frames toy_md5 LO.B3) = [].
  Proof. vm_compute. reflexivity. Qed.
  Lemma names_D : map sfl_name (si_rec siD) = [bs "b"; bs "a"].
  Proof. vm_compute. reflexivity. Qed.

  Ltac listed H EL b :=
    rewrite listing_D in H; destruct H as [<-|[<-|[<-|[]]]];
    [rewrite look_B3 in EL|rewrite look_B2 in EL|rewrite look_B1 in EL]; apply some_inj in EL; subst b.
  Ltac blocks H := rewrite ?blocks_B1, ?blocks_B2, ?blocks_B3 in H; cbn [In] in H.

  Example ex_set_hypotheses :
    str_eqb (ext ix) EXT_PAR2 = true /\ fs_lookup fsD ix = Some bixD /\ wf_bytes bixD /\
    s_index toy_md5 sid bixD = Some siD /\ g_index_extra toy_md5 sid bixD = true /\
    (forall p b, In p (rec_listing ix fsD) -> fs_lookup fsD p = Some b ->
       wf_bytes b /\ s_volume_of toy_md5 sid siD b = true /\ g_volume_extra toy_md5 sid b = true) /\
    (forall p1 b1 p2 b2 e d1 d2,
       In p1 (rec_listing ix fsD) -> fs_lookup fsD p1 = Some b1 -> In p2 (rec_listing ix fsD) -> fs_lookup fsD p2 = Some b2 ->
       In (e, d1) (s_blocks toy_md5 sid b1) -> In (e, d2) (s_blocks toy_md5 sid b2) -> d1 = d2) /\
    (forall x, In x (si_rec siD) -> fs_lookup fsD (file_path ix (sfl_name x)) = None ->
       is_dir fsD (file_path ix (sfl_name x)) = false).
  Proof.
    destruct ex_index_hypotheses as (H1 & H2 & H3 & H4).
    split; [vm_compute; reflexivity|]. split; [exact H2|]. split; [exact H1|]. split; [exact H3|]. split; [exact H4|].
    split; [|split].
    - intros p b Hp EL. listed Hp EL b;
        (split; [apply wf_bytes_b; vm_compute; reflexivity|split; vm_compute; reflexivity]).
    - intros p1 b1 p2 b2 e d1 d2 Hp1 E1 Hp2 E2 I1 I2.
      listed Hp1 E1 b1; blocks I1; listed Hp2 E2 b2; blocks I2;
        repeat match goal with
               | H : False |- _ => destruct H
               | H : _ \/ _ |- _ => destruct H
               end; congruence.
    - intros x Hx _. apply (in_map sfl_name) in Hx. rewrite names_D in Hx.
      destruct Hx as [E|[E|[]]]; rewrite <- E; vm_compute; reflexivity.
  Qed.

  (* R3: the conclusion, by the theorem: load_all succeeds and the table holds exactly the two blocks *)
  Example ex_set_loaded : exists ds st',
    load_all toy_md5 ix (io_init fsD []) = (Ok ds, st') /\ d_setid (ds_dec ds) = sid /\ d_slice (ds_dec ds) = 4 /\
    map di_name (d_rec (ds_dec ds)) = [bs "b"; bs "a"] /\
    nth 0 (ds_parity ds) None = Some [2; 5; 11; 13] /\ nth 1 (ds_parity ds) None = Some [88; 6; 28; 2] /\
    (forall e, 2 <= e -> nth (N.to_nat e) (ds_parity ds) None = None).
  Proof.
    destruct ex_set_hypotheses as (H1 & H2 & H3 & H4 & H5 & H6 & H7 & H8).
    destruct (spec_set_loaded toy_md5 toy_md5_len16 ix fsD bixD sid siD H1 H2 H3 H4 H5 H6 H7 H8)
      as (ds & st' & E & _ & D2 & D3 & D4 & _ & HT & HN).
    exists ds, st'. split; [exact E|]. split; [exact D2|]. split; [rewrite D3; vm_compute; reflexivity|].
    split; [rewrite D4; vm_compute; reflexivity|].
    split; [|split].
    - apply (HT 0). exists LO.pB2, (frames toy_md5 LO.B2). rewrite listing_D.
      split; [right; left; reflexivity|]. split; [exact look_B2|rewrite blocks_B2; left; reflexivity].
    - apply (HT 1). exists LO.pB1, (frames toy_md5 LO.B1). rewrite listing_D.
      split; [right; right; left; reflexivity|]. split; [exact look_B1|rewrite blocks_B1; left; reflexivity].
    - intros e He. apply HN. intros (dd & p & b & Hp & EL & Hin).
      listed Hp EL b; blocks Hin;
        repeat match goal with
               | H : False |- _ => destruct H
               | H : _ \/ _ |- _ => destruct H
               | H : (_, _) = (_, _) |- _ => injection H as <- _
               end; lia.
  Qed.
  (* and the same loaded state as for gopar's own layout of the set *)
  Example ex_set_same_state : fst (load_all toy_md5 ix (io_init fsD [])) = Ok LO.RC.loaded.
  Proof. vm_compute. reflexivity. Qed.

  Example ex_set_block_found_and_used : exists ds st',
    load_all toy_md5 ix (io_init fsD []) = (Ok ds, st') /\ nth 1 (ds_parity ds) None = Some [88; 6; 28; 2] /\
    c_pusable (shard_counts ds) = 2%nat.
  Proof.
    destruct ex_set_hypotheses as (H1 & H2 & H3 & H4 & H5 & H6 & H7 & H8).
    destruct (spec_set_block_found_and_used toy_md5 toy_md5_len16 ix fsD bixD sid siD H1 H2 H3 H4 H5 H6 H7 H8
                LO.pB1 (frames toy_md5 LO.B1) 1 [88; 6; 28; 2]) as (ds & st' & E & _ & _ & E3 & _ & E5).
    { rewrite listing_D. right; right; left; reflexivity. }
    { exact look_B1. }
    { rewrite blocks_B1. left. reflexivity. }
    exists ds, st'. split; [exact E|]. split; [exact E3|].
    apply (E5 [0; 1]).
    - repeat constructor; cbn [In]; intuition discriminate.
    - intros e'. split.
      + intros [<-|[<-|[]]].
        * exists [2; 5; 11; 13], LO.pB2, (frames toy_md5 LO.B2). rewrite listing_D.
          split; [right; left; reflexivity|]. split; [exact look_B2|rewrite blocks_B2; left; reflexivity].
        * exists [88; 6; 28; 2], LO.pB1, (frames toy_md5 LO.B1). rewrite listing_D.
          split; [right; right; left; reflexivity|]. split; [exact look_B1|rewrite blocks_B1; left; reflexivity].
      + intros (dd & p & b & Hp & EL & Hin).
        listed Hp EL b; blocks Hin;
          repeat match goal with
                 | H : False |- _ => destruct H
                 | H : _ \/ _ |- _ => destruct H
                 | H : (_, _) = (_, _) |- _ => injection H as <- _
                 end; cbn [In]; tauto.
  Qed.

  (** ** the requirements gopar adds are needed: specification-accepted files gopar rejects *)

  (* a one-file set by a conformant writer: main, creator, file description, slice checksums (the hashes are not compared
     with any data by the index-file check, so constant strings stand for them); cnt = 1: the file is in the recovery
     set, cnt = 0: in the non-recovery set *)
  Definition w_id (name : bytes) (len : N) : bytes := toy_md5 (repeat 2 16 ++ le_encode 8 len ++ name).
  Definition w_main (slice cnt : N) (name : bytes) (len : N) : bytes := le_encode 8 slice ++ le_encode 4 cnt ++ w_id name len.
  Definition w_sid (slice cnt : N) (name : bytes) (len : N) : bytes := toy_md5 (w_main slice cnt name len).
  Definition w_index (slice cnt : N) (name : bytes) (len : N) (npairs : nat) : list apkt :=
    let s := w_sid slice cnt name len in
    [(s, TYPE_MAIN, w_main slice cnt name len);
     (s, TYPE_CREATOR, [120; 0; 0; 0]);
     (s, TYPE_FDESC, w_id name len ++ repeat 1 16 ++ repeat 2 16 ++ le_encode 8 len ++ pad_mult4 name);
     (s, TYPE_IFSC, w_id name len ++ List.concat (repeat (repeat 7 20) npairs))].
  Definition accepted_by_spec (s : bytes) (l : list apkt) : bool :=
    forallb (fun x => (x <? 256)%N) (frames toy_md5 l)
    && match s_index toy_md5 s (frames toy_md5 l) with Some _ => true | None => false end.
  Definition decoder_of (l : list apkt) : outcome decoder :=
    fst (new_decoder toy_md5 ix (io_init [(ix, frames toy_md5 l)] [])).

  (* the builder is sound: a 5-byte file "ab", slice size 4, two checksum pairs - accepted by both *)
  Definition good : list apkt := w_index 4 1 (bs "ab") 5 2.
  Definition gsid : bytes := w_sid 4 1 (bs "ab") 5.
  Example good_accepted : accepted_by_spec gsid good = true /\ g_index_extra toy_md5 gsid (frames toy_md5 good) = true /\
    is_ok (decoder_of good) = true.
  Proof. vm_compute. repeat split; reflexivity. Qed.

  (* 1. a recovery packet of the set in the index file *)
  Example index_with_recovery_packet_refuted :
    let l := good ++ [(gsid, TYPE_RECV, le_encode 4 0 ++ [1; 2; 3; 4])] in
    accepted_by_spec gsid l = true /\ decoder_of l = Err EMalformed.
  Proof. vm_compute. split; reflexivity. Qed.
  (* 2. the first packet of the file belongs to another set: gopar reads THAT set *)
  Example index_first_packet_foreign_refuted :
    let l := LO.foreign :: good in
    accepted_by_spec gsid l = true /\ decoder_of l = Err EMalformed.
  Proof. vm_compute. split; reflexivity. Qed.
  (* 3. names: a leading '.', an absolute path *)
  Example index_dot_name_refuted :
    accepted_by_spec (w_sid 4 1 (bs ".ab") 5) (w_index 4 1 (bs ".ab") 5 2) = true /\
    decoder_of (w_index 4 1 (bs ".ab") 5 2) = Err EMalformed /\
    accepted_by_spec (w_sid 4 1 (bs "/ab") 5) (w_index 4 1 (bs "/ab") 5 2) = true /\
    decoder_of (w_index 4 1 (bs "/ab") 5 2) = Err EMalformed.
  Proof. vm_compute. repeat split; reflexivity. Qed.
  (* a name in a sub-directory is accepted *)
  Example index_subdirectory_name_accepted :
    accepted_by_spec (w_sid 4 1 (bs "d/ab") 5) (w_index 4 1 (bs "d/ab") 5 2) = true /\
    is_ok (decoder_of (w_index 4 1 (bs "d/ab") 5 2)) = true.
  Proof. vm_compute. split; reflexivity. Qed.
  (* 4. an empty file (no slices, no checksum pairs) *)
  Example index_empty_file_refuted :
    accepted_by_spec (w_sid 4 1 (bs "ab") 0) (w_index 4 1 (bs "ab") 0 0) = true /\
    decoder_of (w_index 4 1 (bs "ab") 0 0) = Err EMalformed.
  Proof. vm_compute. split; reflexivity. Qed.
  (* 5. a slice size above 2^40 *)
  Example index_big_slice_refuted :
    accepted_by_spec (w_sid (2 ^ 40 + 4) 1 (bs "ab") 5) (w_index (2 ^ 40 + 4) 1 (bs "ab") 5 1) = true /\
    decoder_of (w_index (2 ^ 40 + 4) 1 (bs "ab") 5 1) = Err EMalformed /\
    is_ok (decoder_of (w_index (2 ^ 40) 1 (bs "ab") 5 1)) = true.
  Proof. vm_compute. repeat split; reflexivity. Qed.
  (* 6. an empty recovery set (the file is in the non-recovery set) *)
  Example index_empty_recovery_set_refuted :
    accepted_by_spec (w_sid 4 0 (bs "ab") 5) (w_index 4 0 (bs "ab") 5 2) = true /\
    decoder_of (w_index 4 0 (bs "ab") 5 2) = Err EMalformed.
  Proof. vm_compute. split; reflexivity. Qed.

  (* the acceptance statement without the extra premise is false *)
  Theorem spec_index_accepted_without_extras_refuted :
    ~ (forall md5, (forall x, List.length (md5 x) = 16%nat) -> forall ix fs b sid si,
         wf_bytes b -> fs_lookup fs ix = Some b -> s_index md5 sid b = Some si ->
         exists d st, new_decoder md5 ix (io_init fs []) = (Ok d, st)).
  Proof.
    intros H.
    set (l := good ++ [(gsid, TYPE_RECV, le_encode 4 0 ++ [1; 2; 3; 4])]).
    destruct index_with_recovery_packet_refuted as (A & D). cbv zeta in A, D. fold l in A, D.
    unfold accepted_by_spec in A. apply andb_true_iff in A. destruct A as [W E].
    destruct (s_index toy_md5 gsid (frames toy_md5 l)) as [si|] eqn:ES; [|discriminate E].
    destruct (H toy_md5 toy_md5_len16 ix [(ix, frames toy_md5 l)] (frames toy_md5 l) gsid si) as (d & st & X).
    - apply wf_bytes_b. exact W.
    - unfold fs_lookup. rewrite str_eqb_refl. reflexivity.
    - exact ES.
    - unfold decoder_of in D. rewrite X in D. discriminate D.
  Qed.

  (* 7. recovery files: an exponent above 65535; a description packet of the set with a '.' name, which LoadParityData
        would not even use *)
  Example volume_big_exponent_refuted :
    let b := frames toy_md5 (good ++ [(gsid, TYPE_RECV, le_encode 4 65536 ++ [1; 2; 3; 4])]) in
    wf_bytes b /\ s_volume toy_md5 gsid b = Some [(65536, [1; 2; 3; 4])] /\ read_file_vol toy_md5 gsid b = RFErr.
  Proof. cbv zeta. split; [apply wf_bytes_b; vm_compute; reflexivity|]. split; vm_compute; reflexivity. Qed.
  Example volume_dot_name_refuted :
    let s := w_sid 4 1 (bs ".ab") 5 in
    let b := frames toy_md5 (w_index 4 1 (bs ".ab") 5 2 ++ [(s, TYPE_RECV, le_encode 4 0 ++ [1; 2; 3; 4])]) in
    wf_bytes b /\ s_volume toy_md5 s b = Some [(0, [1; 2; 3; 4])] /\ read_file_vol toy_md5 s b = RFErr.
  Proof. cbv zeta. split; [apply wf_bytes_b; vm_compute; reflexivity|]. split; vm_compute; reflexivity. Qed.
  Theorem spec_volume_accepted_without_extras_refuted :
    ~ (forall md5, (forall x, List.length (md5 x) = 16%nat) -> forall b sid rs,
         wf_bytes b -> s_volume md5 sid b = Some rs -> has_own md5 sid b = true ->
         exists f, read_file_vol md5 sid b = RFOk sid f).
  Proof.
    intros H. destruct volume_big_exponent_refuted as (W & S & R).
    destruct (H toy_md5 toy_md5_len16 _ gsid _ W S) as (f & X); [vm_compute; reflexivity|].
    rewrite R in X. discriminate X.
  Qed.
End SRExample.
Print Assumptions SRExample.ex_set_loaded.
Print Assumptions SRExample.spec_index_accepted_without_extras_refuted.
Print Assumptions SRExample.spec_volume_accepted_without_extras_refuted.
