(* GF(2^8) modulo 0x11D (the PAR 1.0 field): field laws on {a | a < 256} by finite
   sweeps, the PAR1 parity matrix, the encoder as a sum, and soundness of the
   PAR1 Reed-Solomon reconstruction through the generic linear algebra of LinAlg.v. *)
From Coq Require Import Lia Btauto.
From Gopar Require Import Model.Base Model.Matrix Model.RS16 Model.GF8
     Proofs.GF16Facts Proofs.LinAlg Proofs.RS16Facts.
Open Scope N_scope.
Set Default Timeout 300.

(** * the product is additive in its second argument (structurally, no bound needed) *)

Lemma div2_lxor b c : N.lxor b c / 2 = N.lxor (b / 2) (c / 2).
Proof. rewrite <- !N.div2_div, !N.div2_spec. apply N.shiftr_lxor. Qed.

Lemma odd_lxor b c : N.odd (N.lxor b c) = xorb (N.odd b) (N.odd c).
Proof. rewrite <- !N.bit0_odd. apply N.lxor_spec. Qed.

Lemma g8mul_go_lxor : forall n a b c acc acc',
  g8mul_go n a (N.lxor b c) (N.lxor acc acc') = N.lxor (g8mul_go n a b acc) (g8mul_go n a c acc').
Proof.
  induction n as [|n IH]; intros a b c acc acc'; cbn [g8mul_go]; [reflexivity|].
  rewrite div2_lxor, odd_lxor.
  destruct (N.odd b), (N.odd c); cbn [xorb]; rewrite <- IH; f_equal; xor_solve.
Qed.

Lemma g8mul_lxor_r_any a b c : g8mul a (N.lxor b c) = N.lxor (g8mul a b) (g8mul a c).
Proof. unfold g8mul. rewrite <- g8mul_go_lxor. reflexivity. Qed.

Lemma g8mul_0_r a : g8mul a 0 = 0.
Proof.
  pose proof (g8mul_lxor_r_any a 0 0) as H. rewrite N.lxor_0_l in H.
  rewrite H. apply N.lxor_nilpotent.
Qed.

(** * sweeps *)

Lemma lxor_lt8 a b : a < 256 -> b < 256 -> N.lxor a b < 256.
Proof. change 256 with (2 ^ 8). apply lxor_lt_pow2. Qed.

Lemma sweep2 (P : N -> N -> bool) :
  forallN 256 (fun a => forallN 256 (fun b => P a b)) = true ->
  forall a b, a < 256 -> b < 256 -> P a b = true.
Proof.
  intros H a b Ha Hb. pose proof (forallN_spec _ _ H a Ha) as H1. cbv beta in H1.
  exact (forallN_spec _ _ H1 b Hb).
Qed.

Lemma g8_sweep2 :
  forallN 256 (fun a => forallN 256 (fun b => (g8mul a b <? 256) && (g8mul a b =? g8mul b a))) = true.
Proof. vm_compute. reflexivity. Qed.

Lemma g8mul_lt : forall a b, a < 256 -> b < 256 -> g8mul a b < 256.
Proof.
  intros a b Ha Hb. pose proof (sweep2 _ g8_sweep2 a b Ha Hb) as S.
  apply andb_true_iff in S. apply N.ltb_lt. exact (proj1 S).
Qed.

Lemma g8mul_comm : forall a b, a < 256 -> b < 256 -> g8mul a b = g8mul b a.
Proof.
  intros a b Ha Hb. pose proof (sweep2 _ g8_sweep2 a b Ha Hb) as S.
  apply andb_true_iff in S. apply N.eqb_eq. exact (proj2 S).
Qed.

Lemma g8mul_lxor_r : forall a b c, a < 256 -> b < 256 -> c < 256 ->
  g8mul a (N.lxor b c) = N.lxor (g8mul a b) (g8mul a c).
Proof. intros a b c _ _ _. apply g8mul_lxor_r_any. Qed.

Definition basis8 : list N := map (fun i => 2 ^ N.of_nat i) (seq 0 8).

Lemma in_basis8 i : (i < 8)%nat -> In (2 ^ N.of_nat i) basis8.
Proof. intros H. unfold basis8. apply (in_map (fun i => 2 ^ N.of_nat i)). apply in_seq. lia. Qed.

(* associativity: all a, b and the eight basis values of c; additivity in c does the rest *)
Lemma g8_assoc_sweep :
  forallN 256 (fun a => forallN 256 (fun b =>
    forallb (fun c => g8mul (g8mul a b) c =? g8mul a (g8mul b c)) basis8)) = true.
Proof. vm_compute. reflexivity. Qed.

Lemma g8mul_assoc : forall a b c, a < 256 -> b < 256 -> c < 256 ->
  g8mul (g8mul a b) c = g8mul a (g8mul b c).
Proof.
  intros a b c Ha Hb Hc. apply N.lxor_eq.
  revert c Hc. change 256 with (2 ^ N.of_nat 8).
  apply (basis_lift 8 (fun c => N.lxor (g8mul (g8mul a b) c) (g8mul a (g8mul b c)))).
  - intros x y. rewrite !g8mul_lxor_r_any. xor_solve.
  - intros i Hi. pose proof (sweep2 _ g8_assoc_sweep a b Ha Hb) as S.
    rewrite forallb_forall in S. specialize (S _ (in_basis8 i Hi)).
    apply N.eqb_eq in S. rewrite S. apply N.lxor_nilpotent.
Qed.

Lemma g8_sweep1 :
  forallN 256 (fun a => (g8mul 1 a =? a) &&
                        ((a =? 0) || ((g8inv a <? 256) && (g8mul a (g8inv a) =? 1)))) = true.
Proof. vm_compute. reflexivity. Qed.

Lemma g8mul_1_l : forall a, a < 256 -> g8mul 1 a = a.
Proof.
  intros a Ha. pose proof (forallN_spec _ _ g8_sweep1 a Ha) as S. cbv beta in S.
  apply andb_true_iff in S. apply N.eqb_eq. exact (proj1 S).
Qed.

Lemma g8inv_both a : 0 < a < 256 -> g8inv a < 256 /\ g8mul a (g8inv a) = 1.
Proof.
  intros [H0 Ha]. pose proof (forallN_spec _ _ g8_sweep1 a Ha) as S. cbv beta in S.
  apply andb_true_iff in S. destruct S as [_ S]. apply orb_true_iff in S. destruct S as [S|S].
  - apply N.eqb_eq in S. lia.
  - apply andb_true_iff in S. destruct S as [S1 S2]. split; [apply N.ltb_lt; exact S1|apply N.eqb_eq; exact S2].
Qed.

Lemma g8inv_lt : forall a, 0 < a < 256 -> g8inv a < 256.
Proof. intros a H. exact (proj1 (g8inv_both a H)). Qed.
Lemma g8mul_inv : forall a, 0 < a < 256 -> g8mul a (g8inv a) = 1.
Proof. intros a H. exact (proj2 (g8inv_both a H)). Qed.

Lemma one_lt_256 : 1 < 256. Proof. reflexivity. Qed.

Ltac field8 := first
  [ exact one_lt_256 | exact lxor_lt8 | exact g8mul_lt | exact g8mul_comm | exact g8mul_assoc
  | exact g8mul_lxor_r | exact g8mul_1_l | exact g8inv_lt | exact g8mul_inv ].

Notation wfm8 := (wfm 256).
Notation wfv8 := (wfv 256).
Notation lincomb8 := (lincomb g8mul).

(** * powers *)
Lemma g8pow_0 a : g8pow a 0 = 1. Proof. reflexivity. Qed.
Lemma g8pow_succ a p : g8pow a (N.succ p) = g8mul a (g8pow a p).
Proof. unfold g8pow. apply N.iter_succ. Qed.
Lemma g8pow_lt a p : a < 256 -> g8pow a p < 256.
Proof.
  intros Ha. induction p as [|p IH] using N.peano_ind; [rewrite g8pow_0; lia|].
  rewrite g8pow_succ. apply g8mul_lt; assumption.
Qed.

(** * instantiated linear algebra *)
Theorem Inverse8_spec r M : wfm8 r r M ->
  match Inverse8 M with
  | Ok M' => wfm8 r r M' /\ mmul8 r M M' = identity r /\ mmul8 r M' M = identity r
  | Err e => e = ESingular
  | Panic _ => False
  end.
Proof. apply (Inverse_spec 256 g8mul g8inv); field8. Qed.

Lemma lincomb_wf8 c k r X : wfv8 k r -> wfm8 k c X -> wfv8 c (lincomb8 c r X).
Proof. intros. eapply (lincomb_wf 256 g8mul); try field8; eassumption. Qed.
Lemma mmul_wf8 r k c M X : wfm8 r k M -> wfm8 k c X -> wfm8 r c (mmul8 c M X).
Proof. intros. eapply (mmul_wf 256 g8mul); try field8; eassumption. Qed.
Lemma mmul_nth8 c M X i : (i < length M)%nat -> nth i (mmul8 c M X) [] = lincomb8 c (nth i M []) X.
Proof. intros. apply (mmul_nth g8mul). assumption. Qed.
Lemma wfm_nth8 r c m i : wfm8 r c m -> (i < r)%nat -> wfv8 c (nth i m []).
Proof. intros. eapply (wfm_nth 256); try field8; eassumption. Qed.
Lemma mmul8_assoc r k c1 c2 M A Bm : wfm8 r k M -> wfm8 k c1 A -> wfm8 c1 c2 Bm ->
  mmul8 c2 (mmul8 c1 M A) Bm = mmul8 c2 M (mmul8 c2 A Bm).
Proof.
  intros HM HA HB. apply (mmul_assoc 256 g8mul) with (r := r) (k := k) (c1 := c1); try field8; assumption.
Qed.
Lemma mmul8_identity_l r c X : wfm8 r c X -> mmul8 c (identity r) X = X.
Proof. intros. apply (mmul_identity_l 256 g8mul); try field8; assumption. Qed.
Lemma lincomb_delta8 c i k X : wfm8 k c X -> (i < k)%nat ->
  lincomb8 c (unit_row k i) X = nth i X [].
Proof.
  intros HX Hi. unfold unit_row.
  rewrite (lincomb_delta 256 g8mul) with (k := k) (s := 0%nat); try field8; try assumption; try lia.
  rewrite Nat.sub_0_r. reflexivity.
Qed.

Lemma wfm8_hd k c X : wfm8 (S k) c X -> length (hd [] X) = c.
Proof. intros [Hl Hf]. destruct X as [|x X]; [discriminate|]. inversion Hf; subst. cbn. apply H1. Qed.

Lemma wfm8_hd' d c X : (0 < d)%nat -> wfm8 d c X -> length (hd [] X) = c.
Proof. intros Hd HX. destruct d as [|d']; [lia|]. exact (wfm8_hd d' c X HX). Qed.

Lemma unit_row_wf8 q i : wfv8 q (unit_row q i).
Proof.
  unfold unit_row. split; [rewrite map_length, seq_length; reflexivity|].
  apply Forall_forall. intros x Hx. apply in_map_iff in Hx. destruct Hx as [j [<- _]].
  unfold wfe. destruct (Nat.eqb i j); lia.
Qed.

(** * the parity matrix *)
Lemma par1_pm_entry : forall d p r c, (r < p)%nat -> (c < d)%nat ->
  nth c (nth r (par1_pm d p) []) 0 = g8pow (N.of_nat (S c)) (N.of_nat r).
Proof.
  intros d p r c Hr Hc. unfold par1_pm.
  rewrite (nth_map_seq (fun r => map (fun c => g8pow (N.of_nat (S c)) (N.of_nat r)) (seq 0 d)) [] p r Hr).
  apply (nth_map_seq (fun c => g8pow (N.of_nat (S c)) (N.of_nat r)) 0 d c Hc).
Qed.

Lemma par1_pm_wf : forall d p, (d <= 255)%nat -> wfm8 p d (par1_pm d p).
Proof.
  intros d p Hd. unfold par1_pm.
  split; [rewrite map_length, seq_length; reflexivity|].
  apply Forall_forall. intros v Hv. apply in_map_iff in Hv. destruct Hv as [i [<- Hi]].
  split; [rewrite map_length, seq_length; reflexivity|].
  apply Forall_forall. intros x Hx. apply in_map_iff in Hx. destruct Hx as [j [<- Hj]]. apply in_seq in Hj.
  unfold wfe. apply g8pow_lt. lia.
Qed.

Lemma par1_encode_unfold d p D L : (0 < d)%nat -> wfm8 d L D -> par1_encode d p D = mmul8 L (par1_pm d p) D.
Proof. intros Hd HD. unfold par1_encode. rewrite (wfm8_hd' d L D Hd HD). reflexivity. Qed.

Lemma par1_encode_wf d p D L : (0 < d)%nat -> (d <= 255)%nat -> wfm8 d L D -> wfm8 p L (par1_encode d p D).
Proof.
  intros Hd Hd' HD. rewrite (par1_encode_unfold d p D L Hd HD).
  apply (mmul_wf8 p d); [apply par1_pm_wf; exact Hd'|exact HD].
Qed.

Lemma dot8_as_fold (r : list N) (X : list (list N)) p : forall s,
  length r = length X ->
  dot g8mul r (column p X) =
  fold_right (fun j acc => N.lxor (g8mul (nth (j - s) r 0) (nth p (nth (j - s) X []) 0)) acc) 0 (seq s (length X)).
Proof.
  unfold column. revert X. induction r as [|a r IH]; intros [|x X] s Hl; try discriminate; [reflexivity|].
  cbn [map dot length seq fold_right]. rewrite Nat.sub_diag. cbn [nth].
  f_equal. rewrite (IH X (S s)) by (cbn in Hl; lia).
  assert (H : forall l, (forall j, In j l -> (S s <= j)%nat) ->
    fold_right (fun j acc => N.lxor (g8mul (nth (j - S s) r 0) (nth p (nth (j - S s) X []) 0)) acc) 0 l =
    fold_right (fun j acc => N.lxor (g8mul (nth (j - s) (a :: r) 0) (nth p (nth (j - s) (x :: X) []) 0)) acc) 0 l).
  { induction l as [|j l IHl]; intros Hj; [reflexivity|]. cbn [fold_right].
    rewrite IHl by (intros; apply Hj; right; assumption).
    pose proof (Hj j (or_introl eq_refl)).
    replace (j - s)%nat with (S (j - S s)) by lia. reflexivity. }
  apply H. intros j Hj. apply in_seq in Hj. lia.
Qed.

Lemma fold_xor_ext8 (f g : nat -> N) : forall l, (forall j, In j l -> f j = g j) ->
  fold_right (fun j acc => N.lxor (f j) acc) 0 l = fold_right (fun j acc => N.lxor (g j) acc) 0 l.
Proof.
  induction l as [|j l IH]; intros H; [reflexivity|].
  cbn [fold_right]. rewrite IH by (intros; apply H; right; assumption).
  rewrite (H j (or_introl eq_refl)). reflexivity.
Qed.

Theorem par1_encode_spec : forall d p D L v k, (d <= 255)%nat -> wfm8 d L D -> (v < p)%nat -> (k < L)%nat -> (0 < d)%nat ->
  nth k (nth v (par1_encode d p D) []) 0 =
  fold_right (fun i acc => N.lxor (g8mul (g8pow (N.of_nat (S i)) (N.of_nat v)) (nth k (nth i D []) 0)) acc) 0 (seq 0 d).
Proof.
  intros d p D L v k Hd HD Hv Hk Hd0.
  rewrite (par1_encode_unfold d p D L Hd0 HD).
  pose proof (par1_pm_wf d p Hd) as Hm.
  rewrite mmul_nth8 by (destruct Hm as [Hml _]; rewrite Hml; exact Hv).
  pose proof (wfm_nth8 p d (par1_pm d p) v Hm Hv) as Hr.
  rewrite (nth_lincomb 256 g8mul) with (k := d); try field8; try assumption.
  destruct Hr as [Hrl _]. destruct HD as [HDl HDf].
  rewrite (dot8_as_fold _ D k 0%nat) by lia.
  rewrite HDl.
  apply (fold_xor_ext8
    (fun j => g8mul (nth (j - 0) (nth v (par1_pm d p) []) 0) (nth k (nth (j - 0) D []) 0))
    (fun j => g8mul (g8pow (N.of_nat (S j)) (N.of_nat v)) (nth k (nth j D []) 0))).
  intros j Hj. apply in_seq in Hj. rewrite Nat.sub_0_r.
  rewrite par1_pm_entry by lia. reflexivity.
Qed.

(** * reconstruction *)

Lemma take_present_used {A} : forall (l : list (option A)) need i, take_present need i l = used_parity need i l.
Proof.
  induction l as [|[x|] l IH]; intros [|need] i; cbn [take_present used_parity]; try reflexivity.
Qed.

Lemma count_present_somes {A} : forall l : list (option A), count_present l = length (somes l).
Proof.
  unfold count_present. induction l as [|[x|] l IH]; cbn [filter somes length]; [reflexivity| |exact IH].
  rewrite IH. reflexivity.
Qed.

Lemma erase_app {A} : forall (k1 k2 : list bool) (l1 l2 : list A), length k1 = length l1 ->
  erase (k1 ++ k2) (l1 ++ l2) = erase k1 l1 ++ erase k2 l2.
Proof.
  induction k1 as [|b k1 IH]; intros k2 [|x l1] l2 H; try discriminate; [reflexivity|].
  cbn [app]. rewrite !erase_cons. cbn [app]. f_equal. apply IH. cbn in H; lia.
Qed.

Lemma firstn_app_exact {A} (a b : list A) : firstn (length a) (a ++ b) = a.
Proof. induction a as [|x a IH]; cbn [length app firstn]; [destruct b; reflexivity|f_equal; exact IH]. Qed.
Lemma skipn_app_exact {A} (a b : list A) : skipn (length a) (a ++ b) = b.
Proof. induction a as [|x a IH]; cbn [length app skipn]; [reflexivity|exact IH]. Qed.

(* unwrapping an erased list when nothing is missing *)
Lemma unwrap_all {A} (d0 : A) : forall (keep : list bool) (l : list A), length keep = length l ->
  count_present (erase keep l) = length l ->
  map (fun o => match o with Some s => s | None => d0 end) (erase keep l) = l.
Proof.
  intros keep l H Hc. rewrite count_present_somes in Hc.
  assert (Z : count_none (erase keep l) = 0%nat).
  { pose proof (somes_count (erase keep l)) as S. rewrite erase_length in S by exact H. lia. }
  clear Hc. revert l H Z.
  induction keep as [|b keep IH]; intros [|x l] H Z; try discriminate; [reflexivity|].
  rewrite erase_cons in *. destruct b; cbn [count_none] in Z; [|discriminate].
  cbn [map]. f_equal. apply IH; [cbn in H; lia|exact Z].
Qed.

(* filling the gaps of an erased list from (a list that has the original list as a suffix) gives it back *)
Lemma refill_gen {A} (d0 : A) : forall (l : list A) (keep : list bool) (pre : list A), length keep = length l ->
  map (fun io : nat * option A => match snd io with Some s => s | None => nth (fst io) (pre ++ l) d0 end)
      (combine (seq (length pre) (length l)) (erase keep l)) = l.
Proof.
  induction l as [|x l IH]; intros [|b keep] pre H; try discriminate; [reflexivity|].
  rewrite erase_cons. cbn [length seq combine map fst snd]. f_equal.
  - destruct b; [reflexivity|]. rewrite app_nth2 by lia. rewrite Nat.sub_diag. reflexivity.
  - specialize (IH keep (pre ++ [x]) ltac:(cbn in H; lia)).
    rewrite app_length in IH. cbn [length] in IH. rewrite Nat.add_1_r in IH.
    rewrite <- app_assoc in IH. cbn [app] in IH. exact IH.
Qed.

Lemma refill {A} (d0 : A) (l : list A) (keep : list bool) n : length keep = length l -> n = length l ->
  map (fun io : nat * option A => match snd io with Some s => s | None => nth (fst io) l d0 end)
      (combine (seq 0 n) (erase keep l)) = l.
Proof. intros H ->. exact (refill_gen d0 l keep [] H). Qed.

Lemma enc_row_wf d p i : (d <= 255)%nat -> (i < d + p)%nat -> wfv8 d (enc_row d p i).
Proof.
  intros Hd Hi. unfold enc_row. destruct (Nat.ltb_spec i d) as [Lt|Ge].
  - apply unit_row_wf8.
  - apply (wfm_nth8 p d); [apply par1_pm_wf; exact Hd|lia].
Qed.

(* every shard of D ++ encode D is the corresponding row of [I; PM] times D *)
Lemma all_row d p D L k : (0 < d)%nat -> (d <= 255)%nat -> wfm8 d L D -> (k < d + p)%nat ->
  nth k (D ++ par1_encode d p D) [] = lincomb8 L (enc_row d p k) D.
Proof.
  intros Hd0 Hd HD Hk. pose proof HD as [HDl _]. unfold enc_row.
  destruct (Nat.ltb_spec k d) as [Lt|Ge].
  - rewrite app_nth1 by lia. symmetry. apply (lincomb_delta8 L k d D HD Lt).
  - rewrite app_nth2 by lia. rewrite HDl.
    rewrite (par1_encode_unfold d p D L Hd0 HD).
    apply mmul_nth8. destruct (par1_pm_wf d p Hd) as [Hl _]. rewrite Hl. lia.
Qed.

Theorem par1_reconstruct_sound : forall d p D L keep,
  (0 < d)%nat -> (0 < p)%nat -> (d + p <= 256)%nat -> wfm8 d L D -> (0 < L)%nat -> length keep = (d + p)%nat ->
  let all := D ++ par1_encode d p D in
  match par1_reconstruct d p (erase keep all) with
  | Ok full => full = all
  | Err e => e = ENotEnoughParity \/ e = ESingular
  | Panic _ => False
  end.
Proof.
  intros d p D L keep Hd0 Hp0 Hdp HD HL Hkeep all.
  assert (Hd : (d <= 255)%nat) by lia.
  pose proof HD as [HDl _].
  set (P := par1_encode d p D) in *.
  assert (HP : wfm8 p L P) by (apply par1_encode_wf; assumption).
  pose proof HP as [HPl _].
  assert (Hall : length all = (d + p)%nat) by (unfold all; rewrite app_length; lia).
  set (shards := erase keep all).
  assert (Hsl : length shards = (d + p)%nat) by (unfold shards; rewrite erase_length; lia).
  unfold par1_reconstruct. unfold bytes. rewrite Hsl, Nat.eqb_refl. cbn [negb].
  destruct (Nat.eqb_spec (count_present shards) (d + p)) as [Eall|Nall].
  { apply unwrap_all; [lia|]. fold shards. lia. }
  destruct (Nat.ltb_spec (count_present shards) d) as [Lt|Ge]; [left; reflexivity|].
  rewrite take_present_used.
  set (valid := used_parity d 0 shards).
  assert (Hvl : length valid = d).
  { unfold valid. rewrite used_parity_count. rewrite <- count_present_somes. lia. }
  assert (Hvalid : forall t, (t < d)%nat ->
            let ks := nth t valid (0%nat, []) in
            (fst ks < d + p)%nat /\ snd ks = lincomb8 L (enc_row d p (fst ks)) D).
  { intros t Ht ks. assert (Hin : In ks valid) by (apply nth_In; lia).
    destruct ks as [k s]. unfold valid, shards in Hin.
    destruct (used_parity_spec [] keep all d 0 k s ltac:(lia) Hin) as [R1 R2].
    cbn [fst snd]. split; [lia|]. rewrite R2, Nat.sub_0_r.
    apply all_row; try assumption. lia. }
  set (sub := map (fun ks : nat * list N => enc_row d p (fst ks)) valid).
  set (Y := map (fun ks : nat * list N => snd ks) valid).
  assert (Hsub : wfm8 d d sub).
  { split; [unfold sub; rewrite map_length; exact Hvl|]. apply Forall_forall. intros v Hv.
    unfold sub in Hv. apply in_map_iff in Hv. destruct Hv as [ks [<- Hks]].
    destruct (In_nth _ _ (0%nat, []) Hks) as [t [Ht Et]]. rewrite Hvl in Ht.
    destruct (Hvalid t Ht) as [U1 _]. rewrite Et in U1. apply enc_row_wf; assumption. }
  assert (HY : Y = mmul8 L sub D).
  { apply (list_ext 256 one_lt_256 []).
    - unfold Y, mmul8, mmul, sub. rewrite !map_length. reflexivity.
    - intros t Ht. unfold Y in Ht. rewrite map_length, Hvl in Ht.
      rewrite mmul_nth8 by (destruct Hsub as [Ls _]; lia).
      unfold Y, sub.
      rewrite (nth_map' (fun ks : nat * list N => snd ks) valid t [] (0%nat, [])) by lia.
      rewrite (nth_map' (fun ks : nat * list N => enc_row d p (fst ks)) valid t [] (0%nat, [])) by lia.
      exact (proj2 (Hvalid t Ht)). }
  pose proof (Inverse8_spec d sub Hsub) as IS.
  destruct (Inverse8 sub) as [inv|e|q] eqn:EI; [|right; reflexivity|exact IS].
  destruct IS as (Hinv & _ & Hleft).
  assert (Hsize : length (snd (hd (0%nat, []) valid)) = L).
  { destruct (Hvalid 0%nat Hd0) as [U1 U2]. cbv zeta in U1, U2.
    replace (hd (0%nat, []) valid) with (nth 0 valid (0%nat, [])) by (destruct valid; reflexivity).
    rewrite U2. apply (lincomb_wf8 L d); [apply enc_row_wf; assumption|exact HD]. }
  rewrite Hsize. fold Y. rewrite HY.
  rewrite <- (mmul8_assoc d d d L inv sub D Hinv Hsub HD). rewrite Hleft.
  rewrite (mmul8_identity_l d L D HD).
  (* split the mask *)
  assert (Ek : keep = firstn d keep ++ skipn d keep) by (symmetry; apply firstn_skipn).
  set (kd := firstn d keep) in *. set (kp := skipn d keep) in *.
  assert (Hkd : length kd = d) by (unfold kd; rewrite firstn_length; lia).
  assert (Hkp : length kp = p) by (unfold kp; rewrite skipn_length; lia).
  assert (Es : shards = erase kd D ++ erase kp P).
  { unfold shards, all. rewrite Ek. apply erase_app. lia. }
  assert (Ed : length (erase kd D) = d) by (rewrite erase_length; lia).
  assert (E1 : firstn d shards = erase kd D).
  { rewrite Es. rewrite <- Ed at 1. apply firstn_app_exact. }
  assert (E2 : skipn d shards = erase kp P).
  { rewrite Es. rewrite <- Ed at 1. apply skipn_app_exact. }
  unfold bytes in *. rewrite E1, E2.
  rewrite (refill [] D kd d) by lia.
  fold P. rewrite (@refill (list N) [] P kp p) by lia.
  reflexivity.
Qed.

Theorem par1_reconstruct_too_few : forall d p (shards : list (option bytes)), length shards = (d + p)%nat ->
  (par1_reconstruct d p shards = Err ENotEnoughParity <-> (count_present shards < d)%nat).
Proof.
  intros d p shards Hl. unfold par1_reconstruct. rewrite Hl, Nat.eqb_refl. cbn [negb].
  destruct (Nat.eqb_spec (count_present shards) (d + p)) as [Eall|Nall].
  { split; [discriminate|lia]. }
  destruct (Nat.ltb_spec (count_present shards) d) as [Lt|Ge].
  { split; [intros _; exact Lt|reflexivity]. }
  split; [|lia]. intros E. exfalso.
  destruct (Inverse8 _) as [inv|e|q] eqn:EI; try discriminate.
Qed.


Print Assumptions g8mul_lt.
Print Assumptions g8mul_comm.
Print Assumptions g8mul_assoc.
Print Assumptions g8mul_lxor_r.
Print Assumptions g8mul_1_l.
Print Assumptions g8inv_lt.
Print Assumptions g8mul_inv.
Print Assumptions par1_pm_entry.
Print Assumptions par1_pm_wf.
Print Assumptions par1_encode_spec.
Print Assumptions par1_reconstruct_sound.
Print Assumptions par1_reconstruct_too_few.
