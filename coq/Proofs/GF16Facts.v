(* Algebra of the specification product fmul = pmod ∘ clmul on N:
   bilinearity, closure, commutativity, associativity, identity, and its
   equality with the Horner-form product used for execution. *)
From Coq Require Import Lia Btauto.
From Gopar Require Import Model.Base Model.GF16.
Open Scope N_scope.

Ltac xor_solve :=
  apply N.bits_inj; intros ?n; rewrite ?N.lxor_spec, ?N.bits_0; btauto.

(** ** forallN: lifting a computed sweep to a universally quantified fact *)

Lemma forallN_spec n P : forallN n P = true -> forall i, i < n -> P i = true.
Proof.
  unfold forallN.
  set (f := fun s : bool * N => (fst s && P (snd s), N.succ (snd s))).
  assert (H : forall n, snd (N.iter n f (true, 0)) = n /\
                        (fst (N.iter n f (true, 0)) = true -> forall i, i < n -> P i = true)).
  { intros m. induction m as [|m [IHs IHp]] using N.peano_ind.
    - simpl. split; [reflexivity|]. intros _ i Hi. lia.
    - rewrite N.iter_succ. unfold f at 1. cbn [fst snd]. rewrite IHs. split; [reflexivity|].
      intros Hb i Hi. apply andb_true_iff in Hb. destruct Hb as [Hb1 Hb2].
      destruct (N.eq_dec i m) as [->|Hne]; [rewrite IHs in Hb2; exact Hb2|]. apply IHp; [exact Hb1|lia]. }
  intros Hc. exact (proj2 (H n) Hc).
Qed.

(** ** xor on N *)

Lemma double_lxor x y : N.double (N.lxor x y) = N.lxor (N.double x) (N.double y).
Proof. destruct x, y; reflexivity. Qed.

Lemma lxor_double_sd a b : N.lxor (N.double a) (N.succ_double b) = N.succ_double (N.lxor a b).
Proof. destruct a as [|p], b as [|q]; try reflexivity; simpl; destruct (Pos.lxor p q); reflexivity. Qed.
Lemma lxor_sd_double a b : N.lxor (N.succ_double a) (N.double b) = N.succ_double (N.lxor a b).
Proof. destruct a as [|p], b as [|q]; try reflexivity; simpl; destruct (Pos.lxor p q); reflexivity. Qed.
Lemma lxor_sd_sd a b : N.lxor (N.succ_double a) (N.succ_double b) = N.double (N.lxor a b).
Proof. destruct a as [|p], b as [|q]; try reflexivity; simpl; destruct (Pos.lxor p q); reflexivity. Qed.

Lemma lxor_lt_pow2 a b n : a < 2 ^ n -> b < 2 ^ n -> N.lxor a b < 2 ^ n.
Proof.
  intros Ha Hb.
  destruct (N.eq_dec (N.lxor a b) 0) as [E|E]; [rewrite E; lia|].
  apply N.log2_lt_pow2; [lia|].
  eapply N.le_lt_trans; [apply N.log2_lxor|].
  assert (Hn : 0 < n).
  { destruct (N.eq_dec n 0) as [->|]; [|lia]. simpl in Ha, Hb.
    assert (a = 0) by lia. assert (b = 0) by lia. subst. simpl in E. congruence. }
  apply N.max_lub_lt.
  - destruct (N.eq_dec a 0) as [->|]; [simpl; exact Hn|]. apply N.log2_lt_pow2; lia.
  - destruct (N.eq_dec b 0) as [->|]; [simpl; exact Hn|]. apply N.log2_lt_pow2; lia.
Qed.

Lemma lxor_lt16 a b : a < 65536 -> b < 65536 -> N.lxor a b < 65536.
Proof. change 65536 with (2 ^ 16). apply lxor_lt_pow2. Qed.

(** ** xtime *)

Lemma xtime_sweep :
  forallN 65536 (fun x => (xtime x <? 65536) &&
                          Bool.eqb (65536 <=? N.double x) (N.testbit x 15)) = true.
Proof. vm_compute. reflexivity. Qed.

Lemma xtime_lt x : x < 65536 -> xtime x < 65536.
Proof.
  intros H. pose proof (forallN_spec _ _ xtime_sweep x H) as S.
  apply andb_true_iff in S. destruct S as [S _]. apply N.ltb_lt. exact S.
Qed.

Lemma xtime_bit x : x < 65536 ->
  xtime x = if N.testbit x 15 then N.lxor (N.double x) POLY else N.double x.
Proof.
  intros H. pose proof (forallN_spec _ _ xtime_sweep x H) as S.
  apply andb_true_iff in S. destruct S as [_ S]. apply Bool.eqb_prop in S.
  unfold xtime. cbv zeta. rewrite S. reflexivity.
Qed.

Lemma xtime_lxor x y : x < 65536 -> y < 65536 ->
  xtime (N.lxor x y) = N.lxor (xtime x) (xtime y).
Proof.
  intros Hx Hy.
  rewrite (xtime_bit x Hx), (xtime_bit y Hy), (xtime_bit _ (lxor_lt16 _ _ Hx Hy)).
  rewrite N.lxor_spec, double_lxor.
  destruct (N.testbit x 15), (N.testbit y 15); cbn [xorb]; xor_solve.
Qed.

Lemma xtime_0 : xtime 0 = 0. Proof. reflexivity. Qed.

(** ** pmod *)

Lemma pmod_lt x : pmod x < 65536.
Proof.
  destruct x as [|p]; [simpl; lia|]. cbn [pmod].
  induction p as [p IH|p IH|]; cbn [pmod_pos].
  - apply lxor_lt16; [apply xtime_lt; exact IH|lia].
  - apply xtime_lt; exact IH.
  - lia.
Qed.

Lemma pmod_double x : pmod (N.double x) = xtime (pmod x).
Proof. destruct x; reflexivity. Qed.
Lemma pmod_succ_double x : pmod (N.succ_double x) = N.lxor (xtime (pmod x)) 1.
Proof. destruct x; reflexivity. Qed.

Lemma pmod_lxor x : forall y, pmod (N.lxor x y) = N.lxor (pmod x) (pmod y).
Proof.
  induction x as [|a IH|a IH] using N.binary_ind; intros y.
  - rewrite N.lxor_0_l. reflexivity.
  - induction y as [|b _|b _] using N.binary_ind.
    + rewrite N.lxor_0_r. simpl (pmod 0). rewrite N.lxor_0_r. reflexivity.
    + rewrite <- double_lxor, !pmod_double, IH. apply xtime_lxor; apply pmod_lt.
    + rewrite lxor_double_sd, pmod_succ_double, pmod_double, pmod_succ_double, IH.
      rewrite xtime_lxor by apply pmod_lt. xor_solve.
  - induction y as [|b _|b _] using N.binary_ind.
    + rewrite N.lxor_0_r. simpl (pmod 0). rewrite N.lxor_0_r. reflexivity.
    + rewrite lxor_sd_double, !pmod_succ_double, pmod_double, IH.
      rewrite xtime_lxor by apply pmod_lt. xor_solve.
    + rewrite lxor_sd_sd, pmod_double, !pmod_succ_double, IH.
      rewrite xtime_lxor by apply pmod_lt. xor_solve.
Qed.

Lemma pmod_small_sweep : forallN 65536 (fun x => pmod x =? x) = true.
Proof. vm_compute. reflexivity. Qed.
Lemma pmod_small x : x < 65536 -> pmod x = x.
Proof. intros H. apply N.eqb_eq. exact (forallN_spec _ _ pmod_small_sweep x H). Qed.

(** ** clmul *)

Lemma clmul_0_r a : clmul a 0 = 0. Proof. reflexivity. Qed.
Lemma clmul_0_l b : clmul 0 b = 0.
Proof.
  destruct b as [|p]; [reflexivity|]. cbn [clmul].
  induction p as [p IH|p IH|]; cbn [clmul_pos]; rewrite ?IH; reflexivity.
Qed.
Lemma clmul_double_r a b : clmul a (N.double b) = N.double (clmul a b).
Proof. destruct b; reflexivity. Qed.
Lemma clmul_succ_double_r a b : clmul a (N.succ_double b) = N.lxor a (N.double (clmul a b)).
Proof. destruct b; cbn; [rewrite N.lxor_0_r|]; reflexivity. Qed.

Lemma clmul_lxor_l a a' b : clmul (N.lxor a a') b = N.lxor (clmul a b) (clmul a' b).
Proof.
  destruct b as [|p]; [reflexivity|]. cbn [clmul].
  induction p as [p IH|p IH|]; cbn [clmul_pos].
  - rewrite IH, double_lxor. xor_solve.
  - rewrite IH, double_lxor. reflexivity.
  - reflexivity.
Qed.

Lemma clmul_lxor_r a b : forall b', clmul a (N.lxor b b') = N.lxor (clmul a b) (clmul a b').
Proof.
  induction b as [|x IH|x IH] using N.binary_ind; intros b'.
  - rewrite N.lxor_0_l, clmul_0_r. reflexivity.
  - induction b' as [|y _|y _] using N.binary_ind.
    + rewrite N.lxor_0_r, clmul_0_r, N.lxor_0_r. reflexivity.
    + rewrite <- double_lxor, !clmul_double_r, IH, double_lxor. reflexivity.
    + rewrite lxor_double_sd, clmul_succ_double_r, clmul_double_r, clmul_succ_double_r, IH, double_lxor.
      xor_solve.
  - induction b' as [|y _|y _] using N.binary_ind.
    + rewrite N.lxor_0_r, clmul_0_r, N.lxor_0_r. reflexivity.
    + rewrite lxor_sd_double, !clmul_succ_double_r, clmul_double_r, IH, double_lxor. xor_solve.
    + rewrite lxor_sd_sd, clmul_double_r, !clmul_succ_double_r, IH, double_lxor. xor_solve.
Qed.

Lemma clmul_1_l b : clmul 1 b = b.
Proof.
  destruct b as [|p]; [reflexivity|]. cbn [clmul].
  induction p as [p IH|p IH|]; cbn [clmul_pos]; rewrite ?IH; reflexivity.
Qed.

(** ** fmul: bilinear, closed *)

Lemma fmul_lt a b : fmul a b < 65536. Proof. apply pmod_lt. Qed.
Lemma fmul_0_l b : fmul 0 b = 0. Proof. unfold fmul. rewrite clmul_0_l. reflexivity. Qed.
Lemma fmul_0_r a : fmul a 0 = 0. Proof. reflexivity. Qed.
Lemma fmul_lxor_l a a' b : fmul (N.lxor a a') b = N.lxor (fmul a b) (fmul a' b).
Proof. unfold fmul. rewrite clmul_lxor_l. apply pmod_lxor. Qed.
Lemma fmul_lxor_r a b b' : fmul a (N.lxor b b') = N.lxor (fmul a b) (fmul a b').
Proof. unfold fmul. rewrite clmul_lxor_r. apply pmod_lxor. Qed.
Lemma fmul_1_l b : b < 65536 -> fmul 1 b = b.
Proof. intros H. unfold fmul. rewrite clmul_1_l. apply pmod_small. exact H. Qed.
Lemma fmul_1_r a : a < 65536 -> fmul a 1 = a.
Proof. intros H. unfold fmul. cbn. apply pmod_small. exact H. Qed.

(** ** the Horner product equals the specification product *)

Lemma fmul_hmul a b : a < 65536 -> fmul a b = hmul a b.
Proof.
  intros Ha. destruct b as [|p]; [reflexivity|]. unfold fmul. cbn [clmul hmul].
  induction p as [p IH|p IH|]; cbn [clmul_pos hmul_pos].
  - rewrite pmod_lxor, pmod_double, IH, (pmod_small a Ha). apply N.lxor_comm.
  - rewrite pmod_double, IH. reflexivity.
  - apply pmod_small. exact Ha.
Qed.

(** ** lifting from the basis {2^i | i < 16} *)

Definition additive (f : N -> N) : Prop := forall x y, f (N.lxor x y) = N.lxor (f x) (f y).

Lemma additive_0 f : additive f -> f 0 = 0.
Proof. intros A. pose proof (A 0 0) as H. rewrite N.lxor_0_l in H.
       rewrite H. apply N.lxor_nilpotent. Qed.

Lemma basis_lift k : forall f, additive f ->
  (forall i, (i < k)%nat -> f (2 ^ N.of_nat i) = 0) ->
  forall x, x < 2 ^ N.of_nat k -> f x = 0.
Proof.
  induction k as [|k IH]; intros f A B x Hx.
  - simpl in Hx. assert (x = 0) by lia. subst. apply additive_0. exact A.
  - assert (Hd : forall y, y < 2 ^ N.of_nat k -> f (N.double y) = 0).
    { intros y Hy. apply (IH (fun y => f (N.double y))); [| |exact Hy].
      - intros u v. rewrite double_lxor. apply A.
      - intros i Hi. rewrite N.double_spec, <- N.pow_succ_r', <- Nat2N.inj_succ.
        apply B. lia. }
    rewrite Nat2N.inj_succ, N.pow_succ_r' in Hx.
    induction x as [|y _|y _] using N.binary_ind.
    + apply additive_0. exact A.
    + apply Hd. rewrite N.double_spec in Hx. lia.
    + replace (N.succ_double y) with (N.lxor (N.double y) 1)
        by (destruct y; reflexivity).
      rewrite A, Hd by (rewrite N.succ_double_spec in Hx; lia).
      rewrite N.lxor_0_l. apply (B 0%nat). lia.
Qed.

Lemma basis16 f : additive f -> (forall i, (i < 16)%nat -> f (2 ^ N.of_nat i) = 0) ->
  forall x, x < 65536 -> f x = 0.
Proof. intros A B x Hx. apply (basis_lift 16 f A B). exact Hx. Qed.

Lemma lxor_eq_0 a b : N.lxor a b = 0 -> a = b.
Proof. apply N.lxor_eq. Qed.

Definition basis : list N := map (fun i => 2 ^ N.of_nat i) (seq 0 16).

Lemma in_basis i : (i < 16)%nat -> In (2 ^ N.of_nat i) basis.
Proof. intros H. unfold basis. apply (in_map (fun i => 2 ^ N.of_nat i)). apply in_seq. lia. Qed.

(** ** commutativity *)

Lemma comm_basis :
  forallb (fun a => forallb (fun b => fmul a b =? fmul b a) basis) basis = true.
Proof. vm_compute. reflexivity. Qed.

Lemma fmul_comm a b : a < 65536 -> b < 65536 -> fmul a b = fmul b a.
Proof.
  intros Ha Hb. apply lxor_eq_0.
  revert a Ha. apply (basis16 (fun a => N.lxor (fmul a b) (fmul b a))).
  - intros x y. rewrite fmul_lxor_l, fmul_lxor_r. xor_solve.
  - intros i Hi. revert b Hb.
    apply (basis16 (fun b => N.lxor (fmul (2 ^ N.of_nat i) b) (fmul b (2 ^ N.of_nat i)))).
    + intros x y. rewrite fmul_lxor_l, fmul_lxor_r. xor_solve.
    + intros j Hj. pose proof comm_basis as C.
      rewrite forallb_forall in C. specialize (C _ (in_basis i Hi)).
      rewrite forallb_forall in C. specialize (C _ (in_basis j Hj)).
      apply N.eqb_eq in C. rewrite C. apply N.lxor_nilpotent.
Qed.

(** ** associativity *)

Lemma assoc_basis :
  forallb (fun a => forallb (fun b => forallb (fun c =>
     fmul (fmul a b) c =? fmul a (fmul b c)) basis) basis) basis = true.
Proof. vm_compute. reflexivity. Qed.

Lemma fmul_assoc a b c : a < 65536 -> b < 65536 -> c < 65536 ->
  fmul (fmul a b) c = fmul a (fmul b c).
Proof.
  intros Ha Hb Hc. apply lxor_eq_0.
  revert a Ha. apply (basis16 (fun a => N.lxor (fmul (fmul a b) c) (fmul a (fmul b c)))).
  { intros x y. rewrite !fmul_lxor_l. xor_solve. }
  intros i Hi. revert b Hb.
  apply (basis16 (fun b => N.lxor (fmul (fmul (2 ^ N.of_nat i) b) c)
                                  (fmul (2 ^ N.of_nat i) (fmul b c)))).
  { intros x y. rewrite fmul_lxor_r, !fmul_lxor_l, fmul_lxor_r. xor_solve. }
  intros j Hj. revert c Hc.
  apply (basis16 (fun c => N.lxor (fmul (fmul (2 ^ N.of_nat i) (2 ^ N.of_nat j)) c)
                                  (fmul (2 ^ N.of_nat i) (fmul (2 ^ N.of_nat j) c)))).
  { intros x y. rewrite !fmul_lxor_r. xor_solve. }
  intros k Hk. pose proof assoc_basis as C.
  rewrite forallb_forall in C. specialize (C _ (in_basis i Hi)).
  rewrite forallb_forall in C. specialize (C _ (in_basis j Hj)).
  rewrite forallb_forall in C. specialize (C _ (in_basis k Hk)).
  apply N.eqb_eq in C. rewrite C. apply N.lxor_nilpotent.
Qed.

(** ** powers *)

Lemma fpow_0 a : fpow a 0 = 1. Proof. reflexivity. Qed.
Lemma fpow_succ a p : fpow a (N.succ p) = fmul a (fpow a p).
Proof. unfold fpow. apply N.iter_succ. Qed.
Lemma fpow_lt a p : fpow a p < 65536.
Proof.
  induction p as [|p IH] using N.peano_ind; [rewrite fpow_0; lia|].
  rewrite fpow_succ. apply fmul_lt.
Qed.
Lemma fpow_add a p q : a < 65536 -> fpow a (p + q) = fmul (fpow a p) (fpow a q).
Proof.
  intros Ha. induction p as [|p IH] using N.peano_ind.
  - rewrite N.add_0_l, fpow_0, fmul_1_l; [reflexivity|apply fpow_lt].
  - rewrite N.add_succ_l, !fpow_succ, IH.
    symmetry. apply fmul_assoc; [exact Ha|apply fpow_lt|apply fpow_lt].
Qed.
Lemma fpow_mul a p q : a < 65536 -> fpow a (p * q) = fpow (fpow a p) q.
Proof.
  intros Ha. induction q as [|q IH] using N.peano_ind.
  - rewrite N.mul_0_r. reflexivity.
  - rewrite N.mul_succ_r, fpow_succ, N.add_comm, fpow_add, IH by exact Ha. reflexivity.
Qed.
Lemma fpow_1_l p : fpow 1 p = 1.
Proof.
  induction p as [|p IH] using N.peano_ind; [reflexivity|].
  rewrite fpow_succ, IH. reflexivity.
Qed.
Lemma fpow_0_l p : 0 < p -> fpow 0 p = 0.
Proof.
  intros H. destruct (N.eq_dec p 0); [lia|].
  replace p with (N.succ (N.pred p)) by lia. rewrite fpow_succ. apply fmul_0_l.
Qed.

Lemma hpow_fpow a p : a < 65536 -> hpow a p = fpow a p.
Proof.
  intros Ha. unfold hpow, fpow.
  induction p as [|p IH] using N.peano_ind; [reflexivity|].
  rewrite !N.iter_succ, IH. symmetry. apply fmul_hmul. exact Ha.
Qed.
