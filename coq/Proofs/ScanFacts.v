(* The slice scan of fillShardInfos: the scan that rolls the checksum equals the
   scan that recomputes it; every unshadowed matching window is found; every hit
   is a matching window; an intact file yields exactly the hits 0, S, 2S, ... *)
From Coq Require Import Lia.
From Gopar Require Import Model.Base Model.CRC Proofs.CRCFacts.
Open Scope nat_scope.

(** ** list helpers *)

Lemma skipn_skipn_add {A} : forall (m n : nat) (l : list A), skipn n (skipn m l) = skipn (m + n) l.
Proof.
  induction m as [|m IH]; intros n l.
  - reflexivity.
  - destruct l as [|x l]; cbn [skipn Nat.add].
    + apply skipn_nil.
    + apply IH.
Qed.

Lemma skipn_cons_inv {A} (j : nat) (l : list A) b r :
  skipn j l = b :: r -> r = skipn (S j) l /\ j < length l.
Proof.
  intros E. split.
  - replace (S j) with (j + 1) by lia. rewrite <- skipn_skipn_add, E. reflexivity.
  - apply (f_equal (@length A)) in E. rewrite skipn_length in E. cbn [length] in E. lia.
Qed.

Lemma Forall_skipn' {A} (P : A -> Prop) : forall n l, Forall P l -> Forall P (skipn n l).
Proof.
  induction n as [|n IH]; intros l Hl; [exact Hl|].
  destruct l as [|x l]; [exact Hl|]. cbn [skipn]. apply IH. inversion Hl; assumption.
Qed.

(** ** take_pad *)

Lemma take_pad_S k r : take_pad (S k) r = hd 0%N r :: take_pad k (tl r).
Proof.
  destruct r as [|x r]; unfold take_pad; cbn [firstn length hd tl app].
  - rewrite firstn_nil. cbn [length app]. rewrite !Nat.sub_0_r. reflexivity.
  - cbn [Nat.sub]. reflexivity.
Qed.

Lemma take_pad_0 r : take_pad 0 r = [].
Proof. reflexivity. Qed.

Lemma take_pad_length k r : length (take_pad k r) = k.
Proof.
  unfold take_pad. rewrite app_length, zeros_length, firstn_length. lia.
Qed.

Lemma take_pad_snoc : forall k r, exists z, take_pad (S k) r = take_pad k r ++ [z].
Proof.
  induction k as [|k IH]; intros r.
  - exists (hd 0%N r). rewrite take_pad_S, !take_pad_0. reflexivity.
  - destruct (IH (tl r)) as [z Hz]. exists z.
    rewrite take_pad_S, Hz, (take_pad_S k r). reflexivity.
Qed.

Lemma take_pad_wf : forall k r, wf_bytes r -> wf_bytes (take_pad k r).
Proof.
  induction k as [|k IH]; intros r Hr.
  - rewrite take_pad_0. constructor.
  - rewrite take_pad_S. constructor.
    + destruct r as [|x r]; cbn [hd]; [reflexivity|]. inversion Hr; assumption.
    + apply IH. destruct r as [|x r]; cbn [tl]; [exact Hr|]. inversion Hr; assumption.
Qed.

Lemma ceil_spec sz len k : 0 < sz -> (k * sz < len <-> k < (len + sz - 1) / sz).
Proof.
  intros Hs. split; intros H.
  - assert (S k <= (len + sz - 1) / sz); [|lia].
    apply Nat.div_le_lower_bound; [lia|]. rewrite Nat.mul_comm. cbn [Nat.mul]. lia.
  - destruct (le_lt_dec len (k * sz)) as [Hle|Hlt]; [|exact Hlt]. exfalso.
    assert ((len + sz - 1) / sz < S k); [|lia].
    apply Nat.div_lt_upper_bound; [lia|]. rewrite Nat.mul_comm. cbn [Nat.mul]. lia.
Qed.

Section ScanFacts.
  Variable md5 : bytes -> bytes.

  (** ** one-step unfoldings of the specification scan *)

  Lemma spec_go_nil fuel sz t j : scan_spec_go md5 fuel sz t j [] = ([], 0).
  Proof. destruct fuel; reflexivity. Qed.

  Lemma spec_go_miss f sz t j b r :
    cs_get md5 t (crc32 (take_pad sz (b :: r))) (take_pad sz (b :: r)) = [] ->
    scan_spec_go md5 (S f) sz t j (b :: r) =
      (fst (scan_spec_go md5 f sz t (S j) r), S (snd (scan_spec_go md5 f sz t (S j) r))).
  Proof.
    intros E. cbn [scan_spec_go]. cbv zeta. rewrite E.
    destruct (scan_spec_go md5 f sz t (S j) r). reflexivity.
  Qed.

  Lemma spec_go_hit f sz t j b r :
    cs_get md5 t (crc32 (take_pad sz (b :: r))) (take_pad sz (b :: r)) <> [] ->
    scan_spec_go md5 (S f) sz t j (b :: r) =
      ({| h_pos := j;
          h_locs := cs_get md5 t (crc32 (take_pad sz (b :: r))) (take_pad sz (b :: r));
          h_data := take_pad sz (b :: r) |}
         :: fst (scan_spec_go md5 f sz t (j + sz) (skipn sz (b :: r))),
       snd (scan_spec_go md5 f sz t (j + sz) (skipn sz (b :: r)))).
  Proof.
    intros E. cbn [scan_spec_go]. cbv zeta.
    destruct (cs_get md5 t (crc32 (take_pad sz (b :: r))) (take_pad sz (b :: r))) as [|l ls];
      [congruence|].
    destruct (scan_spec_go md5 f sz t (j + sz) (skipn sz (b :: r))). reflexivity.
  Qed.

  (** ** 1. rolling scan = recomputing scan *)

  Lemma roll_step sz w prev rest : 4 <= sz -> win_new (Z.of_nat sz) = Ok w ->
    wf_byte prev -> wf_bytes rest ->
    win_update w (crc32 (take_pad sz (prev :: rest))) prev (last (take_pad sz rest) 0%N)
    = crc32 (take_pad sz rest).
  Proof.
    intros Hsz Hw Hp Hr.
    destruct sz as [|k]; [lia|].
    destruct (take_pad_snoc k rest) as [z Hz].
    pose proof (take_pad_wf (S k) rest Hr) as Hwf.
    rewrite (take_pad_S k (prev :: rest)). cbn [hd tl].
    rewrite Hz in *. rewrite last_last.
    apply (win_update_spec (Z.of_nat (S k))).
    - lia.
    - exact Hw.
    - cbn [length]. rewrite take_pad_length, Nat2Z.id. reflexivity.
    - constructor; [exact Hp|exact Hwf].
  Qed.

  Lemma scan_go_eq sz w t : 4 <= sz -> win_new (Z.of_nat sz) = Ok w ->
    forall fuel j prev rest jm crc, wf_bytes rest ->
      (jm = true -> wf_byte prev /\ crc = crc32 (take_pad sz (prev :: rest))) ->
      scan_go md5 fuel sz w t j prev rest jm crc = scan_spec_go md5 fuel sz t j rest.
  Proof.
    intros Hsz Hw. induction fuel as [|f IH]; intros j prev rest jm crc Hwf Hinv; [reflexivity|].
    destruct rest as [|b r]; [reflexivity|].
    cbn [scan_go scan_spec_go]. cbv zeta.
    set (slice := take_pad sz (b :: r)).
    assert (Hc : (if jm then win_update w crc prev (last slice 0%N) else crc32 slice) = crc32 slice).
    { destruct jm; [|reflexivity]. destruct (Hinv eq_refl) as [Hp ->].
      unfold slice. apply roll_step; assumption. }
    rewrite Hc.
    assert (Hb : wf_byte b) by (inversion Hwf; assumption).
    assert (Hr : wf_bytes r) by (inversion Hwf; assumption).
    destruct (cs_get md5 t (crc32 slice) slice) as [|l ls] eqn:E.
    - rewrite (IH (S j) b r true (crc32 slice)); [reflexivity|exact Hr|].
      intros _. split; [exact Hb|reflexivity].
    - rewrite (IH (j + sz) (last (firstn sz (b :: r)) 0%N) (skipn sz (b :: r)) false (crc32 slice));
        [reflexivity|apply Forall_skipn'; exact Hwf|discriminate].
  Qed.

  Theorem scan_eq_spec : forall S w t data, (4 <= S)%nat -> win_new (Z.of_nat S) = Ok w -> wf_bytes data ->
    scan md5 S w t data = scan_spec md5 S t data.
  Proof.
    intros sz w t data Hsz Hw Hwf. unfold scan, scan_spec.
    apply scan_go_eq; [exact Hsz|exact Hw|exact Hwf|discriminate].
  Qed.

  (* padded window at position p *)
  Definition window_at (S : nat) (data : bytes) (p : nat) : bytes := take_pad S (skipn p data).
  Definition matches (t : cstable) (win : bytes) : Prop := cs_get md5 t (crc32 win) win <> [].

  (** ** 2. found if not shadowed *)

  Lemma found_gen sz t data p : 0 < sz -> p < length data ->
    matches t (window_at sz data p) ->
    (forall q, q < p -> p < q + sz -> ~ matches t (window_at sz data q)) ->
    forall fuel j, j <= p -> length data - j < fuel ->
      In {| h_pos := p; h_locs := cs_get md5 t (crc32 (window_at sz data p)) (window_at sz data p);
            h_data := window_at sz data p |}
         (fst (scan_spec_go md5 fuel sz t j (skipn j data))).
  Proof.
    intros Hsz Hp Hm Hsh. induction fuel as [|f IH]; intros j Hj Hf; [lia|].
    destruct (skipn j data) as [|b r] eqn:E.
    - exfalso. apply (f_equal (@length N)) in E. rewrite skipn_length in E. cbn [length] in E. lia.
    - destruct (skipn_cons_inv _ _ _ _ E) as [Hr Hlt].
      destruct (Nat.eq_dec j p) as [->|Hne].
      + unfold matches, window_at in *. rewrite E in *.
        rewrite spec_go_hit by exact Hm. cbn [fst]. left. reflexivity.
      + destruct (cs_get md5 t (crc32 (take_pad sz (b :: r))) (take_pad sz (b :: r))) as [|l ls] eqn:E2.
        * rewrite spec_go_miss by exact E2. cbn [fst]. rewrite Hr. apply IH; lia.
        * assert (Hjs : j + sz <= p).
          { destruct (le_lt_dec (j + sz) p) as [Hle|Hgt]; [exact Hle|]. exfalso.
            apply (Hsh j); [lia|exact Hgt|]. unfold matches, window_at. rewrite E, E2. discriminate. }
          rewrite spec_go_hit by (rewrite E2; discriminate). cbn [fst]. right.
          rewrite <- E, skipn_skipn_add. apply IH; lia.
  Qed.

  Theorem scan_found : forall S t data p, (0 < S)%nat -> (p < length data)%nat ->
    matches t (window_at S data p) ->
    (forall q, (q < p)%nat -> (p < q + S)%nat -> ~ matches t (window_at S data q)) ->
    In {| h_pos := p; h_locs := cs_get md5 t (crc32 (window_at S data p)) (window_at S data p);
          h_data := window_at S data p |} (fst (scan_spec md5 S t data)).
  Proof.
    intros sz t data p Hsz Hp Hm Hsh. unfold scan_spec.
    apply (found_gen sz t data p Hsz Hp Hm Hsh (S (length data)) 0); lia.
  Qed.

  (** ** 3. soundness *)

  Lemma sound_gen sz t data : forall fuel j h,
    In h (fst (scan_spec_go md5 fuel sz t j (skipn j data))) ->
    h_pos h < length data /\ h_data h = window_at sz data (h_pos h) /\
    h_locs h = cs_get md5 t (crc32 (h_data h)) (h_data h) /\ h_locs h <> [].
  Proof.
    induction fuel as [|f IH]; intros j h Hin; [cbn in Hin; contradiction|].
    destruct (skipn j data) as [|b r] eqn:E.
    - rewrite spec_go_nil in Hin. cbn in Hin. contradiction.
    - destruct (skipn_cons_inv _ _ _ _ E) as [Hr Hlt].
      destruct (cs_get md5 t (crc32 (take_pad sz (b :: r))) (take_pad sz (b :: r))) as [|l ls] eqn:E2.
      + rewrite spec_go_miss in Hin by exact E2. cbn [fst] in Hin. rewrite Hr in Hin.
        exact (IH _ _ Hin).
      + rewrite spec_go_hit in Hin by (rewrite E2; discriminate). cbn [fst] in Hin.
        destruct Hin as [<-|Hin].
        * cbn [h_pos h_locs h_data]. unfold window_at. rewrite E.
          split; [exact Hlt|]. split; [reflexivity|]. split; [reflexivity|]. rewrite E2. discriminate.
        * rewrite <- E, skipn_skipn_add in Hin. exact (IH _ _ Hin).
  Qed.

  Theorem scan_sound : forall S t data h, In h (fst (scan_spec md5 S t data)) ->
    (h_pos h < length data)%nat /\ h_data h = window_at S data (h_pos h) /\
    h_locs h = cs_get md5 t (crc32 (h_data h)) (h_data h) /\ h_locs h <> [].
  Proof.
    intros sz t data h Hin. unfold scan_spec in Hin.
    exact (sound_gen sz t data (S (length data)) 0 h Hin).
  Qed.

  (** ** 4. an intact file *)

  Lemma intact_gen sz t data : 0 < sz ->
    (forall k, k * sz < length data -> matches t (window_at sz data (k * sz))) ->
    forall fuel k, length data - k * sz < fuel ->
      snd (scan_spec_go md5 fuel sz t (k * sz) (skipn (k * sz) data)) = 0 /\
      map h_pos (fst (scan_spec_go md5 fuel sz t (k * sz) (skipn (k * sz) data))) =
        map (fun k => k * sz) (seq k ((length data + sz - 1) / sz - k)).
  Proof.
    intros Hsz Hm. induction fuel as [|f IH]; intros k Hf; [lia|].
    pose proof (ceil_spec sz (length data) k Hsz) as Hc.
    destruct (le_lt_dec (length data) (k * sz)) as [Hle|Hlt].
    - rewrite skipn_all2 by exact Hle. rewrite spec_go_nil. cbn [fst snd map].
      replace ((length data + sz - 1) / sz - k) with 0 by lia. split; reflexivity.
    - specialize (Hm k Hlt). unfold matches, window_at in Hm.
      destruct (skipn (k * sz) data) as [|b r] eqn:E.
      + exfalso. apply (f_equal (@length N)) in E. rewrite skipn_length in E. cbn [length] in E. lia.
      + rewrite spec_go_hit by exact Hm. cbn [fst snd map h_pos].
        rewrite <- E, skipn_skipn_add.
        replace (k * sz + sz) with (S k * sz) by (cbn [Nat.mul]; lia).
        destruct (IH (S k)) as [H1 H2]; [cbn [Nat.mul]; lia|].
        split; [exact H1|].
        replace ((length data + sz - 1) / sz - k) with (S ((length data + sz - 1) / sz - S k)) by lia.
        cbn [seq map]. f_equal. exact H2.
  Qed.

  Theorem scan_intact : forall S t data, (0 < S)%nat ->
    (forall k, (k * S < length data)%nat -> matches t (window_at S data (k * S))) ->
    snd (scan_spec md5 S t data) = 0%nat /\
    map h_pos (fst (scan_spec md5 S t data)) = map (fun k => k * S)%nat (seq 0 ((length data + S - 1) / S)).
  Proof.
    intros sz t data Hsz Hm. unfold scan_spec.
    pose proof (intact_gen sz t data Hsz Hm (S (length data)) 0) as H.
    cbn [Nat.mul skipn] in H. rewrite !Nat.sub_0_r in H. apply H. lia.
  Qed.
End ScanFacts.

Print Assumptions scan_eq_spec.
Print Assumptions scan_found.
Print Assumptions scan_sound.
Print Assumptions scan_intact.
