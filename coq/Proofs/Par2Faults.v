(* PAR2 over the fault-injecting file-system model (Model/FS.v):
   A. REPORTED: an operation that returns success was hit by no scheduled fault;
   B. NEVER WORSENS: whatever the faults, a run changes only the paths it issued
      write calls for, and lists a path as repaired only if its write completed;
   C. Repair never panics, for every file-system state and fault schedule. *)
From Coq Require Import Lia.
From Gopar Require Import Model.Base Model.GF16 Model.Matrix Model.RS16 Model.CRC Model.GoPath Model.FS Model.Par2
     Proofs.LinAlg Proofs.Matrix16 Proofs.RS16Facts Proofs.GoPathFacts Proofs.ScanFacts
     Proofs.Par2Facts Proofs.Par2Verify.
Open Scope N_scope.
Set Default Timeout 120.

(** * A. the fault window *)

(* no scheduled fault lies in the window of calls [io_n st, io_n st') *)
Definition no_fault_between (st st' : io) : Prop :=
  forall n, (io_n st <= n < io_n st')%nat -> sched_lookup (io_sched st) n = None.

(* the schedule is kept, the call counter grows, and the window is fault-free *)
Definition nf (st st' : io) : Prop :=
  io_sched st' = io_sched st /\ (io_n st <= io_n st')%nat /\ no_fault_between st st'.

Lemma nf_refl st : nf st st.
Proof. split; [reflexivity|split; [lia|]]. intros n Hn. lia. Qed.

Lemma nf_trans a b c : nf a b -> nf b c -> nf a c.
Proof.
  intros (S1 & N1 & F1) (S2 & N2 & F2). split; [congruence|split; [lia|]].
  intros n Hn. destruct (Nat.lt_ge_cases n (io_n b)) as [Hlt|Hge].
  - apply F1. lia.
  - rewrite <- S1. apply F2. lia.
Qed.

Lemma nf_tick st ev fs' : sched_lookup (io_sched st) (io_n st) = None -> nf st (tick st ev fs').
Proof.
  intros H. split; [reflexivity|split; [cbn [tick io_n]; lia|]].
  intros n Hn. cbn [tick io_n] in Hn. assert (n = io_n st) as -> by lia. exact H.
Qed.

Lemma io_read_ok_nf p st d st' : io_read p st = (Ok d, st') -> nf st st'.
Proof.
  unfold io_read. intros H.
  destruct (sched_lookup (io_sched st) (io_n st)) as [f|] eqn:E; [discriminate H|].
  destruct (fs_lookup (io_fs st) p) as [x|].
  - injection H as _ <-. apply nf_tick. exact E.
  - destruct (is_dir (io_fs st) p); discriminate H.
Qed.

(* a missing file is a read RESULT, not a fault *)
Lemma io_read_notexist_nf p st st' : io_read p st = (Err ENotExist, st') -> nf st st'.
Proof.
  unfold io_read. intros H.
  destruct (sched_lookup (io_sched st) (io_n st)) as [f|] eqn:E; [discriminate H|].
  destruct (fs_lookup (io_fs st) p) as [x|]; [discriminate H|].
  destruct (is_dir (io_fs st) p); [discriminate H|].
  injection H as <-. apply nf_tick. exact E.
Qed.

Lemma io_list_ok_nf a b st l st' : io_list a b st = (Ok l, st') -> nf st st'.
Proof.
  unfold io_list. intros H.
  destruct (sched_lookup (io_sched st) (io_n st)) as [f|] eqn:E; [discriminate H|].
  injection H as _ <-. apply nf_tick. exact E.
Qed.

Lemma io_write_ok_nf p d st u st' : io_write p d st = (Ok u, st') -> nf st st'.
Proof.
  unfold io_write. intros H.
  destruct (sched_lookup (io_sched st) (io_n st)) as [[|k]|] eqn:E; try discriminate H.
  injection H as _ <-. apply nf_tick. exact E.
Qed.

(* a completed write leaves its event, with ok = true, at the end of the trace *)
Lemma io_write_ok_event p d st u st' : io_write p d st = (Ok u, st') ->
  io_trace st' = io_trace st ++ [EvWrite p d true].
Proof.
  unfold io_write. intros H.
  destruct (sched_lookup (io_sched st) (io_n st)) as [[|k]|] eqn:E; try discriminate H.
  injection H as _ <-. reflexivity.
Qed.

(** * B. the paths a run wrote to *)

Definition written_paths (tr : list ioev) : list (list N) :=
  flat_map (fun ev => match ev with EvWrite p _ _ => [p] | _ => [] end) tr.

Lemma written_paths_app a b : written_paths (a ++ b) = written_paths a ++ written_paths b.
Proof. unfold written_paths. apply flat_map_app. Qed.

Lemma written_paths_no_write t : Forall no_write t -> written_paths t = [].
Proof.
  induction t as [|ev t IH]; intros H; [reflexivity|].
  inversion H as [|? ? Hev Ht]; subst. unfold written_paths in *. cbn [flat_map].
  rewrite (IH Ht). destruct ev; [reflexivity|reflexivity|destruct Hev].
Qed.

Lemma str_eqb_neq a b : a <> b -> str_eqb a b = false.
Proof.
  intros H. destruct (str_eqb a b) eqn:E; [|reflexivity]. apply str_eqb_eq in E. congruence.
Qed.

Lemma fs_lookup_set_other : forall f p d q, p <> q -> fs_lookup (fs_set f p d) q = fs_lookup f q.
Proof.
  induction f as [|[q' e] f IH]; intros p d q Hne.
  - cbn [fs_set fs_lookup]. rewrite (str_eqb_neq p q Hne). reflexivity.
  - cbn [fs_set]. destruct (str_eqb q' p) eqn:E.
    + apply str_eqb_eq in E. subst q'. cbn [fs_lookup]. rewrite (str_eqb_neq p q Hne). reflexivity.
    + cbn [fs_lookup]. destruct (str_eqb q' q); [reflexivity|]. apply IH. exact Hne.
Qed.

(* st' extends the trace of st, and every path without a write call in the
   extension keeps its content *)
Definition touched (st st' : io) : Prop :=
  exists t, io_trace st' = io_trace st ++ t /\
            forall q, ~ In q (written_paths t) -> fs_lookup (io_fs st') q = fs_lookup (io_fs st) q.

Lemma touched_refl st : touched st st.
Proof. exists []. split; [symmetry; apply app_nil_r|]. intros q _. reflexivity. Qed.

Lemma touched_trans a b c : touched a b -> touched b c -> touched a c.
Proof.
  intros (t1 & T1 & F1) (t2 & T2 & F2). exists (t1 ++ t2).
  split; [rewrite T2, T1, app_assoc; reflexivity|].
  intros q Hq. rewrite written_paths_app in Hq.
  rewrite F2 by (intros Hin; apply Hq; apply in_or_app; right; exact Hin).
  apply F1. intros Hin. apply Hq. apply in_or_app. left. exact Hin.
Qed.

Lemma pres_touched st st' : pres st st' -> touched st st'.
Proof.
  intros (F & _ & t & T & _). exists t. split; [exact T|]. intros q _. rewrite F. reflexivity.
Qed.

Lemma io_write_touched p d st : touched st (snd (io_write p d st)).
Proof.
  unfold io_write.
  destruct (sched_lookup (io_sched st) (io_n st)) as [[|k]|]; cbn [snd].
  - exists [EvWrite p d false]. split; [reflexivity|]. intros q _. reflexivity.
  - exists [EvWrite p d false]. split; [reflexivity|]. intros q Hq. cbn [tick io_fs].
    apply fs_lookup_set_other. intros ->. apply Hq. left. reflexivity.
  - exists [EvWrite p d true]. split; [reflexivity|]. intros q Hq. cbn [tick io_fs].
    apply fs_lookup_set_other. intros ->. apply Hq. left. reflexivity.
Qed.

Lemma touched_init fs sched st' q :
  touched (io_init fs sched) st' -> ~ In q (written_paths (io_trace st')) ->
  fs_lookup (io_fs st') q = fs_lookup fs q.
Proof.
  intros (t & T & F) Hq. cbn [io_init io_trace app] in T. rewrite T in Hq.
  apply (F q Hq).
Qed.

(** * C. shapes: list helpers *)

Definition oplen {A} (L : nat) (o : option (list A)) : Prop :=
  match o with Some v => length v = L | None => True end.

Lemma xorl_length : forall a b, length (xorl a b) = Nat.min (length a) (length b).
Proof.
  induction a as [|x a IH]; intros [|y b]; cbn [xorl length Nat.min]; try reflexivity.
  rewrite IH. reflexivity.
Qed.

Lemma lincomb_length L : forall r X, Forall (fun v : list N => length v = L) X ->
  length (lincomb fmul L r X) = L.
Proof.
  induction r as [|a r IH]; intros X HX; cbn [lincomb].
  - unfold zeros. apply repeat_length.
  - destruct X as [|x X]; [unfold zeros; apply repeat_length|].
    inversion HX as [|? ? Hx HX']; subst.
    rewrite xorl_length. unfold vscale. rewrite map_length, (IH X HX'). lia.
Qed.

Lemma le_words_length : forall L b, length b = (2 * L)%nat -> length (le_words b) = L.
Proof.
  induction L as [|L IH]; intros b Hl.
  - destruct b; [reflexivity|discriminate Hl].
  - destruct b as [|lo [|hi r]]; cbn [length] in Hl; try lia.
    cbn [le_words length]. rewrite (IH r) by lia. reflexivity.
Qed.

Lemma le_bytes_length : forall w, length (le_bytes w) = (2 * length w)%nat.
Proof. induction w as [|x w IH]; [reflexivity|]. cbn [le_bytes length]. rewrite IH. lia. Qed.

Lemma concat_length_const {A} S : forall l : list (list A),
  Forall (fun v => length v = S) l -> length (concat l) = (length l * S)%nat.
Proof.
  induction l as [|v l IH]; intros H; [reflexivity|].
  inversion H as [|? ? Hv Hl]; subst. cbn [concat length]. rewrite app_length, (IH Hl). lia.
Qed.

Lemma Forall_firstn_skipn {A} (P : A -> Prop) n l : Forall P l -> Forall P (firstn n l) /\ Forall P (skipn n l).
Proof. intros H. rewrite <- (firstn_skipn n l) in H. apply Forall_app in H. exact H. Qed.

Lemma somes_Forall {A} (P : A -> Prop) : forall l : list (option A),
  Forall (fun o => match o with Some v => P v | None => True end) l -> Forall P (somes l).
Proof.
  induction l as [|[x|] l IH]; intros H; cbn [somes]; [constructor| |];
    inversion H as [|? ? Hx Hl]; subst; [constructor; [exact Hx|apply IH; exact Hl]|apply IH; exact Hl].
Qed.

Lemma fill_shape {A} (P : A -> Prop) : forall (data : list (option A)) (rec : list A),
  (count_none data <= length rec)%nat ->
  length (fill data rec) = length data /\
  (Forall P (somes data) -> Forall P rec -> Forall P (fill data rec)).
Proof.
  induction data as [|[x|] data IH]; intros rec Hc; cbn [fill somes count_none length] in *.
  - split; [reflexivity|]. intros _ _. constructor.
  - destruct (IH rec Hc) as [Hl HP]. split; [rewrite Hl; reflexivity|].
    intros Hs Hr. inversion Hs as [|? ? Hx Hs']; subst. constructor; [exact Hx|apply HP; assumption].
  - destruct rec as [|y rec]; cbn [length] in Hc; [lia|].
    destruct (IH rec ltac:(lia)) as [Hl HP]. split; [cbn [length]; rewrite Hl; reflexivity|].
    intros Hs Hr. inversion Hr as [|? ? Hy Hr']; subst. constructor; [exact Hy|apply HP; assumption].
Qed.

Lemma used_parity_in {A} : forall (p : list (option A)) need i k s,
  In (k, s) (used_parity need i p) -> (i <= k < i + length p)%nat /\ In (Some s) p.
Proof.
  induction p as [|[x|] p IH]; intros need i k s Hin.
  - destruct need; destruct Hin.
  - destruct need as [|need]; [destruct Hin|]. cbn [used_parity] in Hin. destruct Hin as [E|Hin].
    + injection E as <- <-. split; [cbn [length]; lia|left; reflexivity].
    + destruct (IH need (S i) k s Hin) as [R1 R2]. split; [cbn [length]; lia|right; exact R2].
  - destruct need as [|need]; [destruct Hin|]. cbn [used_parity] in Hin.
    destruct (IH (S need) (S i) k s Hin) as [R1 R2]. split; [cbn [length]; lia|right; exact R2].
Qed.

Lemma upd_nth_Forall {A} (P : A -> Prop) (f : A -> A) : (forall x, P x -> P (f x)) ->
  forall i l, Forall P l -> Forall P (upd_nth i f l).
Proof.
  intros Hf. induction i as [|i IH]; intros [|x l] H.
  - rewrite upd_nth_nil. constructor.
  - rewrite upd_nth_0. inversion H; subst. constructor; [apply Hf; assumption|assumption].
  - rewrite upd_nth_nil. constructor.
  - rewrite upd_nth_S. inversion H; subst. constructor; [assumption|apply IH; assumption].
Qed.

Lemma Forall_combine_r {A B} (P : B -> Prop) : forall (a : list A) (b : list B),
  Forall P b -> Forall (fun t : A * B => P (snd t)) (combine a b).
Proof.
  intros a b H. apply Forall_forall. intros [x y] Hin. apply in_combine_r in Hin.
  rewrite Forall_forall in H. apply H. exact Hin.
Qed.

(** ** reconstruct: no panic, and the shape of a successful result *)

Lemma reconstruct_shape c data parity L :
  c_data c = length data -> c_parity c = length parity ->
  wfm16 (c_parity c) (c_data c) (c_pm c) ->
  Forall (oplen L) data -> Forall (oplen L) parity ->
  match reconstruct c data parity with
  | Ok r => length r = length data /\ Forall (fun v => length v = L) r
  | Err _ => True
  | Panic _ => False
  end.
Proof.
  intros Hd Hp Hpm HD HP.
  set (d := c_data c) in *. set (p := c_parity c) in *. set (pm := c_pm c) in *.
  unfold reconstruct. fold d pm.
  pose proof (somes_count data) as Hcnt.
  assert (HsD : Forall (fun v : list N => length v = L) (somes data)) by (apply somes_Forall; exact HD).
  destruct (Nat.eqb_spec (count_none data) 0) as [Z|NZ].
  { split; [lia|exact HsD]. }
  set (q0 := count_none data) in *.
  set (used := used_parity q0 0 parity).
  pose proof (used_parity_length parity q0 0) as Hul. fold used in Hul.
  destruct (Nat.ltb_spec (length (somes data) + length used) d) as [Lt|Ge]; [exact I|].
  assert (Hq : length used = q0) by lia.
  set (q := length used) in *.
  assert (Hused : forall ks, In ks used -> (fst ks < p)%nat /\ length (snd ks) = L).
  { intros [k s] Hin. unfold used in Hin. destruct (used_parity_in parity q0 0 k s Hin) as [R1 R2].
    cbn [fst snd]. split; [lia|]. rewrite Forall_forall in HP. apply (HP (Some s) R2). }
  assert (Hrow : forall k, (k < p)%nat -> wfv16 d (nth k pm [])).
  { intros k Hk. apply (wfm_nth16 p d); assumption. }
  set (m := map (fun ks : nat * list N => pick_none data (nth (fst ks) pm [])) used).
  set (n := map (fun iks : nat * (nat * list N) =>
                   pick_some data (nth (fst (snd iks)) pm []) ++ unit_row q (fst iks))
                (combine (seq 0 q) used)).
  assert (Hm : wfm16 q q m).
  { split; [unfold m; rewrite map_length; reflexivity|]. apply Forall_forall. intros v Hv.
    unfold m in Hv. apply in_map_iff in Hv. destruct Hv as [ks [<- Hks]].
    destruct (Hused ks Hks) as [U1 _].
    rewrite Hq. apply (pick_none_wfv16 d); [lia|apply Hrow; exact U1]. }
  assert (Hn : wfm16 q d n).
  { split; [unfold n; rewrite map_length, combine_length, seq_length; lia|]. apply Forall_forall. intros v Hv.
    unfold n in Hv. apply in_map_iff in Hv. destruct Hv as [[i ks] [<- Hiks]].
    apply in_combine_r in Hiks. destruct (Hused ks Hiks) as [U1 _].
    cbn [fst snd]. replace d with (length (somes data) + q)%nat by lia.
    apply wfv_app; [|apply unit_row_wf].
    apply (pick_some_wfv16 d); [lia|apply Hrow; exact U1]. }
  pose proof (RowReduce16_spec q d m n Hm Hn) as RR.
  destruct (RowReduce16 m n) as [R|e|pp]; cbn [obind]; [|exact I|exact RR].
  destruct RR as ((HRl & _) & _).
  set (input := somes data ++ map (fun ks : nat * list N => snd ks) used).
  assert (Hin : Forall (fun v : list N => length v = L) input).
  { unfold input. apply Forall_app. split; [exact HsD|].
    apply Forall_forall. intros v Hv. apply in_map_iff in Hv. destruct Hv as [ks [<- Hks]].
    apply (Hused ks Hks). }
  assert (HLs : shard_len input = L).
  { unfold shard_len.
    assert (Hil : (0 < length input)%nat).
    { unfold input. rewrite app_length, map_length. fold q. lia. }
    clearbody input. destruct input as [|x input']; [cbn [length] in Hil; lia|].
    inversion Hin as [|? ? Hx _]. exact Hx. }
  rewrite HLs. unfold apply_matrix, mmul16, mmul.
  destruct (fill_shape (fun v : list N => length v = L) data (map (fun r => lincomb fmul L r input) R)) as [F1 F2].
  { rewrite map_length, HRl. lia. }
  split; [exact F1|]. apply F2; [exact HsD|].
  apply Forall_forall. intros v Hv. apply in_map_iff in Hv. destruct Hv as [r [<- _]].
  apply lincomb_length. exact Hin.
Qed.

Lemma repair_shards_shape (shards parity : list (option bytes)) dbl S L : S = (2 * L)%nat ->
  (0 < length shards)%nat ->
  Forall (oplen S) shards -> Forall (oplen S) parity ->
  match repair_shards shards parity dbl with
  | Ok data => length data = length shards /\ Forall (fun v => length v = S) data
  | Err _ => True
  | Panic _ => False
  end.
Proof.
  intros HS Hnd Hsh Hpa. rewrite repair_shards_eq.
  destruct parity as [|p0 parity0] eqn:Epar.
  - match goal with |- context [Nat.eqb ?a 0] => destruct (Nat.eqb_spec a 0) as [Z|NZ] end; [|exact I].
    rewrite count_nones_eq in Z. pose proof (somes_count shards) as Hc.
    split; [lia|]. apply somes_Forall. exact Hsh.
  - rewrite <- Epar in *. clear Epar p0 parity0.
    unfold repair_shards2. cbv zeta.
    destruct (Nat.eqb_spec (length shards) 0) as [Z|_]; [lia|].
    destruct (N.ltb_spec 32768 (N.of_nat (length shards))) as [_|B1]; [exact I|].
    destruct (N.ltb_spec 65535 (N.of_nat (length parity))) as [_|B2]; [exact I|].
    set (c := {| c_data := length shards; c_parity := length parity;
                 c_pm := vandermonde_pm (length shards) (length parity) |}).
    assert (Hw : forall l, Forall (oplen S) l ->
              Forall (oplen L) (map (fun o : option bytes => match o with Some b => Some (le_words b) | None => None end) l)).
    { intros l Hl. apply Forall_forall. intros o Ho. apply in_map_iff in Ho. destruct Ho as [[b|] [<- Hb]]; [|exact I].
      rewrite Forall_forall in Hl. specialize (Hl (Some b) Hb). cbn [oplen] in *.
      apply le_words_length. lia. }
    pose proof (reconstruct_shape c _ _ L
                  ltac:(cbn [c c_data]; rewrite map_length; reflexivity)
                  ltac:(cbn [c c_parity]; rewrite map_length; reflexivity)
                  ltac:(cbn [c c_data c_parity c_pm]; apply vandermonde_pm_wf; assumption)
                  (Hw shards Hsh) (Hw parity Hpa)) as RS.
    match type of RS with match ?X with _ => _ end => destruct X as [rw|e|pp] end; cbn [obind]; [|exact I|exact RS].
    destruct RS as [R1 R2]. rewrite map_length in R1.
    match goal with |- match (if ?b then _ else _) with _ => _ end => destruct b end; [exact I|].
    split; [rewrite map_length; exact R1|].
    apply Forall_forall. intros v Hv. apply in_map_iff in Hv. destruct Hv as [w [<- Hw']].
    rewrite Forall_forall in R2. rewrite le_bytes_length, (R2 w Hw'). lia.
Qed.

(** ** packet readers: what an accepted main / file-description packet guarantees *)

Lemma read_main_ok4 body m : read_main body = Ok m -> mp_slice m mod 4 = 0.
Proof.
  unfold read_main. cbv zeta. intros H.
  destruct (Nat.ltb (length body) 12); [discriminate H|].
  set (slice := le_decode (firstn 8 body)) in *.
  destruct ((slice =? 0) || negb (slice mod 4 =? 0) || (MAXINT <? slice) || (MAXSLICE <? slice)) eqn:E; [discriminate H|].
  destruct (le_decode (firstn 4 (skipn 8 body)) =? 0); [discriminate H|].
  destruct (negb (Nat.eqb (length (skipn 12 body) mod 16) 0)); [discriminate H|].
  destruct (N.of_nat (length (chunk_bytes 16 (skipn 12 body))) <? le_decode (firstn 4 (skipn 8 body))); [discriminate H|].
  match type of H with (if ?c then _ else _) = _ => destruct c end; [discriminate H|].
  injection H as <-. cbn [mp_slice].
  apply orb_false_iff in E. destruct E as [E _]. apply orb_false_iff in E. destruct E as [E _].
  apply orb_false_iff in E. destruct E as [_ E4].
  apply negb_false_iff in E4. apply N.eqb_eq in E4. exact E4.
Qed.

Lemma omap_Forall {A B} (f : A -> outcome B) (P : B -> Prop) :
  (forall x y, f x = Ok y -> P y) -> forall l ys, omap f l = Ok ys -> Forall P ys.
Proof.
  intros Hf. induction l as [|x l IH]; intros ys H; cbn [omap] in H.
  - injection H as <-. constructor.
  - destruct (f x) as [y|e|q] eqn:E; cbn [obind] in H; try discriminate H.
    destruct (omap f l) as [ys'|e|q]; cbn [obind] in H; try discriminate H.
    injection H as <-. constructor; [apply (Hf x y E)|apply IH; reflexivity].
Qed.

Lemma assoc_b_in {A} : forall (l : list (bytes * A)) k v, assoc_b l k = Some v -> exists k', In (k', v) l.
Proof.
  induction l as [|[k' v'] l IH]; intros k v H; cbn [assoc_b] in H; [discriminate H|].
  destruct (bytes_eqb k' k).
  - injection H as <-. exists k'. left. reflexivity.
  - destruct (IH k v H) as [k2 H2]. exists k2. right. exact H2.
Qed.

Lemma assoc_n_in {A} : forall (l : list (N * A)) k v, assoc_n l k = Some v -> exists k', In (k', v) l.
Proof.
  induction l as [|[k' v'] l IH]; intros k v H; cbn [assoc_n] in H; [discriminate H|].
  destruct (k' =? k).
  - injection H as <-. exists k'. left. reflexivity.
  - destruct (IH k v H) as [k2 H2]. exists k2. right. exact H2.
Qed.

Definition info_ok (S : N) (info : dinfo) : Prop :=
  N.of_nat (length (di_pairs info)) = (di_len info + S - 1) / S /\ 1 <= di_len info.

Lemma make_infos_ok S ids f infos :
  Forall (fun e : bytes * fdesc => 1 <= fd_len (snd e)) (pf_fdesc f) ->
  make_infos S ids f = Ok infos -> Forall (info_ok S) infos.
Proof.
  intros Hf. unfold make_infos. apply omap_Forall. intros id y H.
  destruct (assoc_b (pf_fdesc f) id) as [d|] eqn:E1; [|discriminate H].
  destruct (assoc_b (pf_ifsc f) id) as [ps|]; [|discriminate H].
  destruct (N.eqb_spec (N.of_nat (length ps)) ((fd_len d + S - 1) / S)) as [E|NE]; cbn [negb] in H; [|discriminate H].
  injection H as <-. unfold info_ok. cbn [di_pairs di_len]. split; [exact E|].
  destruct (assoc_b_in _ _ _ E1) as [k' Hin]. rewrite Forall_forall in Hf. apply (Hf (k', d) Hin).
Qed.

Definition shards_ok (S : nat) (fi : fint) : Prop :=
  Forall (fun so : option sinfo => match so with Some s => length (si_data s) = S | None => True end) (fi_shards fi).

Lemma credit_ok S cur h : length (h_data h) = S ->
  forall fis, Forall (shards_ok S) fis -> Forall (shards_ok S) (credit cur h fis).
Proof.
  intros Hh. unfold credit. generalize (h_locs h). intros locs.
  induction locs as [|loc locs IH]; intros fis H; cbn [fold_left]; [exact H|].
  apply IH. apply upd_nth_Forall; [|exact H].
  intros fi Hfi. unfold shards_ok in *. cbn [fi_shards].
  apply upd_nth_Forall; [|exact Hfi].
  intros [s|] Hs; cbn [si_data]; [exact Hs|exact Hh].
Qed.

Lemma credits_ok S cur : forall hits, Forall (fun h => length (h_data h) = S) hits ->
  forall fis, Forall (shards_ok S) fis ->
  Forall (shards_ok S) (fold_left (fun fis h => credit cur h fis) hits fis).
Proof.
  induction hits as [|h hits IH]; intros Hh fis H; cbn [fold_left]; [exact H|].
  inversion Hh as [|? ? Hh1 Hh2]. apply IH; [exact Hh2|]. apply credit_ok; assumption.
Qed.

Lemma set_flags_ok S i a b c fis : Forall (shards_ok S) fis -> Forall (shards_ok S) (set_flags i a b c fis).
Proof.
  intros H. unfold set_flags. apply upd_nth_Forall; [|exact H]. intros fi Hfi. exact Hfi.
Qed.

Lemma parity_array_len S (acc : list (N * bytes)) :
  Forall (fun ed : N * bytes => length (snd ed) = S) acc -> Forall (oplen S) (parity_array acc).
Proof.
  intros H. unfold parity_array. destruct acc as [|a0 acc0] eqn:E; [constructor|]. rewrite <- E in *.
  apply Forall_forall. intros o Ho. apply in_map_iff in Ho. destruct Ho as [k [<- _]].
  destruct (assoc_n acc (N.of_nat k)) as [b|] eqn:Eb; [|exact I].
  destruct (assoc_n_in _ _ _ Eb) as [k' Hin]. rewrite Forall_forall in H. apply (H (k', b) Hin).
Qed.

Lemma io_write_np p d st q : fst (io_write p d st) <> Panic q.
Proof.
  unfold io_write. destruct (sched_lookup (io_sched st) (io_n st)) as [[|k]|]; cbn [fst]; discriminate.
Qed.

Lemma ceil_mul_ge len slice : 0 < slice -> len <= (len + slice - 1) / slice * slice.
Proof.
  intros Hs. pose proof (N.div_mod' (len + slice - 1) slice) as DM.
  pose proof (N.mod_lt (len + slice - 1) slice ltac:(lia)) as ML. lia.
Qed.

Lemma split_by_todo (S : nat) (slice : N) : 0 < slice -> S = N.to_nat slice ->
  forall (recs : list dinfo) (data : list bytes),
  Forall (info_ok slice) recs -> Forall (fun v : bytes => length v = S) data ->
  length data = sum (map (fun info => length (di_pairs info)) recs) ->
  Forall (fun t : dinfo * list bytes => di_len (fst t) <= N.of_nat (length (concat (snd t))))
         (combine recs (split_by (map (fun info => length (di_pairs info)) recs) data)).
Proof.
  intros Hs HS. induction recs as [|info recs IH]; intros data Hrecs Hdata Hlen; [constructor|].
  inversion Hrecs as [|? ? Hi Hrecs'].
  cbn [map split_by combine]. cbn [map sum fold_right] in Hlen. fold (sum (map (fun info => length (di_pairs info)) recs)) in Hlen.
  destruct (Forall_firstn_skipn _ (length (di_pairs info)) data Hdata) as [Hf Hk].
  constructor.
  - cbn [fst snd]. rewrite (concat_length_const (N.to_nat slice)) by (rewrite <- HS; exact Hf).
    rewrite firstn_length_le by lia. destruct Hi as [Hc _].
    rewrite Nat2N.inj_mul, N2Nat.id, Hc. apply ceil_mul_ge. exact Hs.
  - apply IH; [exact Hrecs'|exact Hk|]. rewrite skipn_length. lia.
Qed.

Lemma existsb_false_Forall {A} (g : A -> bool) : forall l, existsb g l = false -> Forall (fun x => g x = false) l.
Proof.
  induction l as [|x l IH]; intros H; [constructor|]. cbn [existsb] in H.
  apply orb_false_iff in H. destruct H as [Hx Hl]. constructor; [exact Hx|apply IH; exact Hl].
Qed.

Section Par2Faults.
  Variable md5 : bytes -> bytes.

  (** ** A. success means no fault *)

  Lemma new_decoder_ok_nf ix st d st' : new_decoder md5 ix st = (Ok d, st') -> nf st st'.
  Proof.
    unfold new_decoder. intros H.
    destruct (io_read ix st) as [[b|e|q] st1] eqn:ER; try discriminate H.
    injection H as _ <-. eapply io_read_ok_nf. exact ER.
  Qed.

  Lemma load_files_ok_nf d w t : forall todo fis st fis' st',
    load_files md5 d w t todo fis st = (Ok fis', st') -> nf st st'.
  Proof.
    induction todo as [|[i info] r IH]; intros fis st fis' st' H; cbn [load_files] in H.
    - injection H as _ <-. apply nf_refl.
    - destruct (io_read (file_path (d_index d) (di_name info)) st) as [[data|e|q] st1] eqn:ER.
      + eapply nf_trans; [eapply io_read_ok_nf; exact ER|eapply IH; exact H].
      + destruct e; try discriminate H.
        eapply nf_trans; [eapply io_read_notexist_nf; exact ER|eapply IH; exact H].
      + discriminate H.
  Qed.

  Lemma load_parity_ok_nf d : forall paths acc st acc' st',
    load_parity md5 d paths acc st = (Ok acc', st') -> nf st st'.
  Proof.
    induction paths as [|p r IH]; intros acc st acc' st' H; cbn [load_parity] in H.
    - injection H as _ <-. apply nf_refl.
    - destruct (io_read p st) as [[b|e|q] st1] eqn:ER; try discriminate H.
      pose proof (io_read_ok_nf _ _ _ _ ER) as N1.
      destruct (read_file_vol md5 (d_setid d) b) as [| |sid f].
      + discriminate H.
      + eapply nf_trans; [exact N1|eapply IH; exact H].
      + lazymatch type of H with (if ?c then _ else _) = _ => destruct c end; [discriminate H|].
        lazymatch type of H with (if ?c then _ else _) = _ => destruct c end; [discriminate H|].
        eapply nf_trans; [exact N1|eapply IH; exact H].
  Qed.

  Lemma load_all_ok_nf ix st ds st' : load_all md5 ix st = (Ok ds, st') -> nf st st'.
  Proof.
    unfold load_all. intros H.
    destruct (negb (str_eqb (ext ix) EXT_PAR2)); [discriminate H|].
    destruct (new_decoder md5 ix st) as [[d|e|q] st1] eqn:E1; try discriminate H.
    destruct (win_new (Z.of_N (d_slice d))) as [w|e|q]; try discriminate H.
    cbv zeta in H.
    match type of H with context [load_files md5 d w ?t ?todo ?fis st1] =>
      destruct (load_files md5 d w t todo fis st1) as [[fis'|e|q] st2] eqn:E2 end; try discriminate H.
    match type of H with context [io_list ?a ?b st2] =>
      destruct (io_list a b st2) as [[paths|e|q] st3] eqn:E3 end; try discriminate H.
    destruct (load_parity md5 d paths [] st3) as [[acc|e|q] st4] eqn:E4; try discriminate H.
    injection H as _ <-.
    eapply nf_trans; [eapply new_decoder_ok_nf; exact E1|].
    eapply nf_trans; [eapply load_files_ok_nf; exact E2|].
    eapply nf_trans; [eapply io_list_ok_nf; exact E3|].
    eapply load_parity_ok_nf; exact E4.
  Qed.

  Theorem verify_ok_no_fault : forall ix st c st',
    par2_verify md5 ix st = (Ok c, st') -> no_fault_between st st'.
  Proof.
    intros ix st c st' H. unfold par2_verify in H.
    destruct (load_all md5 ix st) as [[ds|e|q] st1] eqn:EL; try discriminate H.
    injection H as _ <-. apply load_all_ok_nf in EL. apply EL.
  Qed.

  Lemma write_repaired_ok_nf ix : forall todo done st rp st',
    write_repaired md5 ix todo done st = ((Ok tt, rp), st') -> nf st st'.
  Proof.
    induction todo as [|[b [info shards]] todo IH]; intros done st rp st' H; cbn [write_repaired] in H.
    - injection H as _ <-. apply nf_refl.
    - destruct b; [eapply IH; exact H|].
      lazymatch type of H with (if ?c then _ else _) = _ => destruct c end; [discriminate H|].
      lazymatch type of H with (if ?c then _ else _) = _ => destruct c end; [discriminate H|].
      lazymatch type of H with (if ?c then _ else _) = _ => destruct c end; [discriminate H|].
      lazymatch type of H with context [io_write ?p ?d st] =>
        destruct (io_write p d st) as [[u|e|q] st1] eqn:EW end; try discriminate H.
      eapply nf_trans; [eapply io_write_ok_nf; exact EW|eapply IH; exact H].
  Qed.

  Theorem repair_ok_no_fault : forall ix dbl st rp st',
    par2_repair md5 ix dbl st = ((Ok tt, rp), st') -> no_fault_between st st'.
  Proof.
    intros ix dbl st rp st' H. unfold par2_repair in H.
    destruct (load_all md5 ix st) as [[ds|e|q] st1] eqn:EL; try discriminate H.
    apply load_all_ok_nf in EL.
    destruct (ds_fis ds) as [|fi0 fis0]; [discriminate H|].
    destruct (repair_core ds dbl) as [data|e|q]; try discriminate H.
    apply write_repaired_ok_nf in H. apply (nf_trans _ _ _ EL H).
  Qed.

  Lemma io_reads_ok_nf : forall paths st ds st', io_reads paths st = (Ok ds, st') -> nf st st'.
  Proof.
    induction paths as [|p r IH]; intros st ds st' H; cbn [io_reads] in H.
    - injection H as _ <-. apply nf_refl.
    - destruct (io_read p st) as [[d|e|q] st1] eqn:ER; try discriminate H.
      destruct (io_reads r st1) as [[ds1|e|q] st2] eqn:ERS; try discriminate H.
      injection H as _ <-.
      eapply nf_trans; [eapply io_read_ok_nf; exact ER|eapply IH; exact ERS].
  Qed.

  Lemma io_writes_ok_nf : forall ws st u st', io_writes ws st = (Ok u, st') -> nf st st'.
  Proof.
    induction ws as [|[p d] r IH]; intros st u st' H; cbn [io_writes] in H.
    - injection H as _ <-. apply nf_refl.
    - destruct (io_write p d st) as [[u1|e|q] st1] eqn:EW; try discriminate H.
      eapply nf_trans; [eapply io_write_ok_nf; exact EW|eapply IH; exact H].
  Qed.

  Theorem create_ok_no_fault : forall cwd par files p st st',
    par2_create md5 cwd par files p st = (Ok tt, st') -> no_fault_between st st'.
  Proof.
    intros cwd par files p st st' H. unfold par2_create in H.
    destruct (negb (str_eqb (ext par) EXT_PAR2)); [discriminate H|].
    destruct files as [|f0 files0]; [discriminate H|].
    cbv zeta in H.
    lazymatch type of H with (if ?c then _ else _) = _ => destruct c end; [discriminate H|].
    lazymatch type of H with (if ?c then _ else _) = _ => destruct c end; [discriminate H|].
    lazymatch type of H with (if ?c then _ else _) = _ => destruct c end; [discriminate H|].
    lazymatch type of H with context [io_reads ?ps st] =>
      destruct (io_reads ps st) as [[datas|e|q] st1] eqn:ER end; try discriminate H.
    lazymatch type of H with context [create_outputs ?a ?b ?c ?d ?e ?f] =>
      destruct (create_outputs a b c d e f) as [outs|e0|q] end; try discriminate H.
    apply io_reads_ok_nf in ER. apply io_writes_ok_nf in H. apply (nf_trans _ _ _ ER H).
  Qed.

  (** ** B. only written paths change *)

  Lemma write_repaired_touched ix : forall todo done st,
    touched st (snd (write_repaired md5 ix todo done st)).
  Proof.
    induction todo as [|[b [info shards]] todo IH]; intros done st; cbn [write_repaired].
    - cbn [snd]. apply touched_refl.
    - destruct b; [apply IH|].
      lazymatch goal with |- touched _ (snd (if ?c then _ else _)) => destruct c end; [cbn [snd]; apply touched_refl|].
      lazymatch goal with |- touched _ (snd (if ?c then _ else _)) => destruct c end; [cbn [snd]; apply touched_refl|].
      lazymatch goal with |- touched _ (snd (if ?c then _ else _)) => destruct c end; [cbn [snd]; apply touched_refl|].
      lazymatch goal with |- context [io_write ?p ?d st] =>
        pose proof (io_write_touched p d st) as TW;
        destruct (io_write p d st) as [[u|e|q] st1] end; cbn [snd] in TW.
      + eapply touched_trans; [exact TW|apply IH].
      + cbn [snd]. exact TW.
      + cbn [snd]. exact TW.
  Qed.

  Lemma repair_touched ix dbl st : touched st (snd (par2_repair md5 ix dbl st)).
  Proof.
    unfold par2_repair.
    pose proof (load_all_pres md5 ix st) as P. apply pres_touched in P.
    destruct (load_all md5 ix st) as [[ds|e|q] st1]; cbn [snd] in P; try (cbn [snd]; exact P).
    destruct (ds_fis ds) as [|fi0 fis0]; [cbn [snd]; exact P|].
    destruct (repair_core ds dbl) as [data|e|q]; try (cbn [snd]; exact P).
    eapply touched_trans; [exact P|apply write_repaired_touched].
  Qed.

  Theorem repair_touches_only_written : forall ix dbl fs sched q,
    let st' := snd (par2_repair md5 ix dbl (io_init fs sched)) in
    ~ In q (written_paths (io_trace st')) -> fs_lookup (io_fs st') q = fs_lookup fs q.
  Proof.
    intros ix dbl fs sched q st' Hq. apply (touched_init fs sched st' q); [|exact Hq].
    apply repair_touched.
  Qed.

  Lemma io_reads_pres : forall paths st, pres st (snd (io_reads paths st)).
  Proof.
    induction paths as [|p r IH]; intros st; cbn [io_reads].
    - cbn [snd]. apply pres_refl.
    - pose proof (io_read_pres p st) as P.
      destruct (io_read p st) as [[d|e|q] st1]; cbn [snd] in P; try (cbn [snd]; exact P).
      pose proof (IH st1) as P2.
      destruct (io_reads r st1) as [[ds|e|q] st2]; cbn [snd] in *; eapply pres_trans; eassumption.
  Qed.

  Lemma io_writes_touched : forall ws st, touched st (snd (io_writes ws st)).
  Proof.
    induction ws as [|[p d] r IH]; intros st; cbn [io_writes].
    - cbn [snd]. apply touched_refl.
    - pose proof (io_write_touched p d st) as TW.
      destruct (io_write p d st) as [[u|e|q] st1]; cbn [snd] in TW; try (cbn [snd]; exact TW).
      eapply touched_trans; [exact TW|apply IH].
  Qed.

  Lemma create_touched cwd par files p st : touched st (snd (par2_create md5 cwd par files p st)).
  Proof.
    unfold par2_create.
    destruct (negb (str_eqb (ext par) EXT_PAR2)); [cbn [snd]; apply touched_refl|].
    destruct files as [|f0 files0]; [cbn [snd]; apply touched_refl|].
    cbv zeta.
    lazymatch goal with |- touched _ (snd (if ?c then _ else _)) => destruct c end; [cbn [snd]; apply touched_refl|].
    lazymatch goal with |- touched _ (snd (if ?c then _ else _)) => destruct c end; [cbn [snd]; apply touched_refl|].
    lazymatch goal with |- touched _ (snd (if ?c then _ else _)) => destruct c end; [cbn [snd]; apply touched_refl|].
    lazymatch goal with |- context [io_reads ?ps st] =>
      pose proof (io_reads_pres ps st) as P; apply pres_touched in P;
      destruct (io_reads ps st) as [[datas|e|q] st1] end; cbn [snd] in P; try (cbn [snd]; exact P).
    lazymatch goal with |- context [create_outputs ?a ?b ?c ?d ?e ?f] =>
      destruct (create_outputs a b c d e f) as [outs|e0|q] end; try (cbn [snd]; exact P).
    eapply touched_trans; [exact P|apply io_writes_touched].
  Qed.

  Theorem create_touches_only_written : forall cwd par files p fs sched q,
    let st' := snd (par2_create md5 cwd par files p (io_init fs sched)) in
    ~ In q (written_paths (io_trace st')) -> fs_lookup (io_fs st') q = fs_lookup fs q.
  Proof.
    intros cwd par files p fs sched q st' Hq. apply (touched_init fs sched st' q); [|exact Hq].
    apply create_touched.
  Qed.

  (* a path is listed as repaired only if its write completed *)
  Lemma write_repaired_completed ix : forall todo done st r rp st',
    write_repaired md5 ix todo done st = ((r, rp), st') ->
    exists t, io_trace st' = io_trace st ++ t /\
              forall q, In q rp -> In q done \/ exists d, In (EvWrite q d true) t.
  Proof.
    induction todo as [|[b [info shards]] todo IH]; intros done st r rp st' H; cbn [write_repaired] in H.
    - injection H as _ <- <-. exists []. split; [symmetry; apply app_nil_r|]. intros q Hq. left. exact Hq.
    - destruct b; [eapply IH; exact H|].
      assert (Stop : forall r0, ((r0, done), st) = ((r, rp), st') ->
                exists t, io_trace st' = io_trace st ++ t /\
                          forall q, In q rp -> In q done \/ exists d, In (EvWrite q d true) t).
      { intros r0 E. injection E as _ <- <-. exists []. split; [symmetry; apply app_nil_r|].
        intros q Hq. left. exact Hq. }
      lazymatch type of H with (if ?c then _ else _) = _ => destruct c end; [eapply Stop; exact H|].
      lazymatch type of H with (if ?c then _ else _) = _ => destruct c end; [eapply Stop; exact H|].
      lazymatch type of H with (if ?c then _ else _) = _ => destruct c end; [eapply Stop; exact H|].
      clear Stop.
      lazymatch type of H with context [io_write ?p ?d st] =>
        set (pp := p) in *; set (dd := d) in *;
        pose proof (io_write_touched pp dd st) as TW;
        destruct (io_write pp dd st) as [[u|e|q] st1] eqn:EW end; cbn [snd] in TW.
      + apply io_write_ok_event in EW. apply IH in H. destruct H as (t & T & F).
        exists (EvWrite pp dd true :: t). split.
        * rewrite T, EW, <- app_assoc. reflexivity.
        * intros q Hq. destruct (F q Hq) as [Hd|[d Hd]].
          -- apply in_app_or in Hd. destruct Hd as [Hd|[<-|[]]]; [left; exact Hd|].
             right. exists dd. left. reflexivity.
          -- right. exists d. right. exact Hd.
      + injection H as _ <- <-. destruct TW as (t & T & _). exists t. split; [exact T|].
        intros q0 Hq. left. exact Hq.
      + injection H as _ <- <-. destruct TW as (t & T & _). exists t. split; [exact T|].
        intros q0 Hq. left. exact Hq.
  Qed.

  Theorem repaired_only_completed : forall ix dbl fs sched r rp st',
    par2_repair md5 ix dbl (io_init fs sched) = ((r, rp), st') ->
    forall q, In q rp -> exists d, In (EvWrite q d true) (io_trace st').
  Proof.
    intros ix dbl fs sched r rp st' H q Hq. unfold par2_repair in H.
    destruct (load_all md5 ix (io_init fs sched)) as [[ds|e|p] st1].
    - destruct (ds_fis ds) as [|fi0 fis0]; [injection H as _ <- _; destruct Hq|].
      destruct (repair_core ds dbl) as [data|e|p]; try (injection H as _ <- _; destruct Hq).
      apply write_repaired_completed in H. destruct H as (t & T & F).
      destruct (F q Hq) as [[]|[d Hd]]. exists d. rewrite T. apply in_or_app. right. exact Hd.
    - injection H as _ <- _. destruct Hq.
    - injection H as _ <- _. destruct Hq.
  Qed.

  (** ** C. Repair never panics *)

  Lemma read_fdesc_ok body id d : read_fdesc md5 body = Ok (id, d) -> 1 <= fd_len d.
  Proof.
    unfold read_fdesc. cbv zeta. intros H.
    destruct (Nat.ltb (length body) 56); [discriminate H|].
    match type of H with (if ?c then _ else _) = _ => destruct c end; [discriminate H|].
    set (len := le_decode (firstn 8 (skipn 48 body))) in *.
    destruct (N.eqb_spec len 0) as [Z|NZ]; [discriminate H|].
    destruct (check_filename (decode_ascii (skipn 56 body))) as [u|e|q]; cbn [obind] in H; try discriminate H.
    match type of H with (if ?c then _ else _) = _ => destruct c end; [discriminate H|].
    injection H as _ <-. change (1 <= len). lia.
  Qed.

  Definition pf_ok (f : pfile) : Prop :=
    match pf_main f with Some m => 4 <= mp_slice m /\ mp_slice m mod 4 = 0 | None => True end /\
    Forall (fun e : bytes * fdesc => 1 <= fd_len (snd e)) (pf_fdesc f).

  Lemma read_file_go_ok : forall fuel buf setid found f sid f',
    pf_ok f -> read_file_go md5 fuel buf setid found f = RFOk sid f' -> pf_ok f'.
  Proof.
    induction fuel as [|fuel IH]; intros buf setid found f sid f' Hf H; cbn [read_file_go] in H; [discriminate H|].
    destruct (read_next_packet md5 buf) as [| |psid ptype body rest].
    - apply rf_finish_ok in H. rewrite H. exact Hf.
    - (* damaged packet: skipped *)
      destruct (find_magic (tl buf)) as [rest|].
      + eapply IH; [exact Hf|exact H].
      + apply rf_finish_ok in H. rewrite H. exact Hf.
    - lazymatch type of H with (if ?c then _ else _) = _ => destruct c end.
      { eapply IH; [exact Hf|exact H]. }
      destruct Hf as [Hm Hd].
      destruct (bytes_eqb ptype TYPE_CREATOR).
      { eapply IH; [|exact H]. split; [exact Hm|exact Hd]. }
      destruct (bytes_eqb ptype TYPE_MAIN).
      { destruct (read_main body) as [m|e|q] eqn:EM; try discriminate H.
        eapply IH; [|exact H]. split; [|exact Hd]. cbn [pf_main].
        split; [apply read_main_ok with body; exact EM|apply read_main_ok4 with body; exact EM]. }
      destruct (bytes_eqb ptype TYPE_FDESC).
      { destruct (read_fdesc md5 body) as [[id dd]|e|q] eqn:EF; try discriminate H.
        eapply IH; [|exact H]. split; [exact Hm|]. cbn [pf_fdesc].
        constructor; [cbn [snd]; apply read_fdesc_ok with body id; exact EF|exact Hd]. }
      destruct (bytes_eqb ptype TYPE_IFSC).
      { destruct (read_ifsc body) as [[id ps]|e|q]; try discriminate H.
        eapply IH; [|exact H]. split; [exact Hm|exact Hd]. }
      destruct (bytes_eqb ptype TYPE_RECV).
      { destruct (read_recv body) as [[e dd]|e|q]; try discriminate H.
        destruct (assoc_n (pf_recv f) e) as [d'|].
        - destruct (bytes_eqb d' dd); [|discriminate H]. eapply IH; [|exact H]. split; [exact Hm|exact Hd].
        - eapply IH; [|exact H]. split; [exact Hm|exact Hd]. }
      eapply IH; [|exact H]. split; [exact Hm|exact Hd].
  Qed.

  Lemma new_decoder_shape ix st d st1 : new_decoder md5 ix st = (Ok d, st1) ->
    4 <= d_slice d /\ d_slice d mod 4 = 0 /\ Forall (info_ok (d_slice d)) (d_rec d).
  Proof.
    intros H. unfold new_decoder in H.
    destruct (io_read ix st) as [[b|e|q] s1]; try discriminate H.
    injection H as H _.
    destruct (read_file md5 None b) as [| |sid f] eqn:ERF; try discriminate H.
    destruct (pf_main f) as [m|] eqn:EM; [|discriminate H].
    destruct (pf_recv f) as [|r0 rr]; [|discriminate H].
    destruct (make_infos (mp_slice m) (mp_rec m) f) as [rs|e|q] eqn:E1; cbn [obind] in H; try discriminate H.
    destruct (make_infos (mp_slice m) (mp_nonrec m) f) as [nrs|e|q]; cbn [obind] in H; try discriminate H.
    injection H as <-. cbn [d_slice d_rec].
    unfold read_file in ERF. apply read_file_go_ok in ERF; [|split; [exact I|constructor]].
    destruct ERF as [Hm Hd]. rewrite EM in Hm. destruct Hm as [H4 Hmod].
    split; [exact H4|split; [exact Hmod|]]. eapply make_infos_ok; eassumption.
  Qed.

  Lemma scan_go_hits : forall fuel sz w t j prev rest jm crc,
    Forall (fun h => length (h_data h) = sz) (fst (scan_go md5 fuel sz w t j prev rest jm crc)).
  Proof.
    induction fuel as [|fuel IH]; intros sz w t j prev rest jm crc; cbn [scan_go]; [constructor|].
    destruct rest as [|b rest1]; [constructor|].
    match goal with |- context [cs_get md5 t ?c ?s] => destruct (cs_get md5 t c s) as [|l0 ls] end.
    - match goal with |- context [scan_go md5 fuel ?a1 ?a2 ?a3 ?a4 ?a5 ?a6 ?a7 ?a8] =>
        pose proof (IH a1 a2 a3 a4 a5 a6 a7 a8) as IH1;
        destruct (scan_go md5 fuel a1 a2 a3 a4 a5 a6 a7 a8) as [hs misses] end.
      cbn [fst] in *. exact IH1.
    - match goal with |- context [scan_go md5 fuel ?a1 ?a2 ?a3 ?a4 ?a5 ?a6 ?a7 ?a8] =>
        pose proof (IH a1 a2 a3 a4 a5 a6 a7 a8) as IH1;
        destruct (scan_go md5 fuel a1 a2 a3 a4 a5 a6 a7 a8) as [hs misses] end.
      cbn [fst] in *. constructor; [cbn [h_data]; apply take_pad_length|exact IH1].
  Qed.

  Lemma load_files_shards d w t : forall todo fis st fis' st',
    Forall (shards_ok (N.to_nat (d_slice d))) fis ->
    load_files md5 d w t todo fis st = (Ok fis', st') ->
    Forall (shards_ok (N.to_nat (d_slice d))) fis'.
  Proof.
    induction todo as [|[i info] r IH]; intros fis st fis' st' Hok H; cbn [load_files] in H.
    - injection H as <- _. exact Hok.
    - destruct (io_read (file_path (d_index d) (di_name info)) st) as [[data|e|q] st1].
      + eapply IH; [|exact H]. apply set_flags_ok. apply credits_ok; [|exact Hok].
        unfold scan. apply scan_go_hits.
      + destruct e; try discriminate H. eapply IH; [|exact H]. apply set_flags_ok. exact Hok.
      + discriminate H.
  Qed.

  Lemma load_parity_len d : forall paths acc st acc' st',
    Forall (fun ed : N * bytes => length (snd ed) = N.to_nat (d_slice d)) acc ->
    load_parity md5 d paths acc st = (Ok acc', st') ->
    Forall (fun ed : N * bytes => length (snd ed) = N.to_nat (d_slice d)) acc'.
  Proof.
    induction paths as [|p r IH]; intros acc st acc' st' Hacc H; cbn [load_parity] in H.
    - injection H as <- _. exact Hacc.
    - destruct (io_read p st) as [[b|e|q] st1]; try discriminate H.
      destruct (read_file_vol md5 (d_setid d) b) as [| |sid f].
      + discriminate H.
      + eapply IH; [exact Hacc|exact H].
      + lazymatch type of H with (if ?c then _ else _) = _ => destruct c end; [discriminate H|].
        lazymatch type of H with (if ?c then _ else _) = _ => destruct c eqn:EX end; [discriminate H|].
        eapply IH; [|exact H]. apply Forall_app. split; [|exact Hacc].
        apply existsb_false_Forall in EX. revert EX. apply Forall_impl. intros ed Hed.
        apply negb_false_iff in Hed. apply N.eqb_eq in Hed. lia.
  Qed.

  Lemma load_all_shape ix st ds st' : load_all md5 ix st = (Ok ds, st') ->
    4 <= d_slice (ds_dec ds) /\ d_slice (ds_dec ds) mod 4 = 0 /\
    Forall (info_ok (d_slice (ds_dec ds))) (d_rec (ds_dec ds)) /\
    map shlen (ds_fis ds) = map (fun info => length (di_pairs info)) (d_rec (ds_dec ds)) /\
    Forall (shards_ok (N.to_nat (d_slice (ds_dec ds)))) (ds_fis ds) /\
    Forall (oplen (N.to_nat (d_slice (ds_dec ds)))) (ds_parity ds).
  Proof.
    intros H. unfold load_all in H.
    destruct (negb (str_eqb (ext ix) EXT_PAR2)); [discriminate H|].
    destruct (new_decoder md5 ix st) as [[d|e|q] st1] eqn:E1; try discriminate H.
    destruct (win_new (Z.of_N (d_slice d))) as [w|e|q] eqn:E2; try discriminate H.
    cbv zeta in H. fold (fis0 d) in H.
    destruct (load_files md5 d w (make_cstable (d_rec d)) (combine (seq 0 (length (d_rec d))) (d_rec d)) (fis0 d) st1)
      as [[fis|e|q] st2] eqn:E3; try discriminate H.
    destruct (io_list (strip_ext ix ++ [DOT]) (ext ix) st2) as [[paths|e|q] st3]; try discriminate H.
    destruct (load_parity md5 d paths [] st3) as [[acc|e|q] st4] eqn:E4; try discriminate H.
    injection H as <- _. cbn [ds_dec ds_fis ds_parity].
    destruct (new_decoder_shape _ _ _ _ E1) as (H4 & Hmod & Hinfos).
    split; [exact H4|]. split; [exact Hmod|]. split; [exact Hinfos|]. split; [|split].
    - apply load_files_shape in E3. rewrite E3. unfold fis0. rewrite map_map. apply map_ext.
      intros info. unfold shlen. cbn [fi_shards]. apply map_length.
    - apply load_files_shards in E3; [exact E3|].
      unfold fis0. apply Forall_forall. intros fi Hfi. apply in_map_iff in Hfi. destruct Hfi as [info [<- _]].
      unfold shards_ok. cbn [fi_shards]. apply Forall_forall. intros so Hso.
      apply in_map_iff in Hso. destruct Hso as [pr [<- _]]. exact I.
    - apply parity_array_len. apply load_parity_len in E4; [exact E4|constructor].
  Qed.

  Lemma write_repaired_np ix : forall todo done st p,
    Forall (fun t : bool * (dinfo * list bytes) =>
              di_len (fst (snd t)) <= N.of_nat (length (concat (snd (snd t))))) todo ->
    fst (fst (write_repaired md5 ix todo done st)) <> Panic p.
  Proof.
    induction todo as [|[b [info shards]] todo IH]; intros done st p Hall; cbn [write_repaired].
    - cbn [fst]. discriminate.
    - inversion Hall as [|? ? Hh Hall']; subst. cbn [fst snd] in Hh.
      destruct b; [apply IH; exact Hall'|].
      destruct (N.ltb_spec (N.of_nat (length (concat shards))) (di_len info)) as [Lt|_]; [lia|].
      lazymatch goal with |- fst (fst (if ?c then _ else _)) <> _ => destruct c end; [cbn [fst]; discriminate|].
      lazymatch goal with |- fst (fst (if ?c then _ else _)) <> _ => destruct c end; [cbn [fst]; discriminate|].
      lazymatch goal with |- context [io_write ?pp ?dd st] =>
        pose proof (io_write_np pp dd st) as NW;
        destruct (io_write pp dd st) as [[u|e|q] st1] end; cbn [fst] in NW.
      + apply IH. exact Hall'.
      + cbn [fst]. discriminate.
      + exfalso. exact (NW q eq_refl).
  Qed.

  (* the reconstruction phase never panics on the state the loaders build, and its result has
     one slice-sized block per protected slice *)
  Lemma repair_core_shape ix st ds st' dbl : load_all md5 ix st = (Ok ds, st') -> ds_fis ds <> [] ->
    match repair_core ds dbl with
    | Ok data => length data = sum (map (fun info => length (di_pairs info)) (d_rec (ds_dec ds))) /\
                 Forall (fun v => length v = N.to_nat (d_slice (ds_dec ds))) data
    | Err _ => True
    | Panic _ => False
    end.
  Proof.
    intros EL Hne.
    destruct (load_all_shape _ _ _ _ EL) as (H4 & Hmod & Hinfos & Hshape & Hsh & Hpar).
    set (slice := d_slice (ds_dec ds)) in *. set (sz := N.to_nat slice) in *.
    assert (HSL : sz = (2 * N.to_nat (2 * (slice / 4)))%nat).
    { pose proof (N.div_mod' slice 4) as DM. unfold sz. lia. }
    unfold repair_core.
    set (shards := map (fun so : option sinfo => match so with Some s => Some (si_data s) | None => None end)
                       (flat_map fi_shards (ds_fis ds))).
    assert (Hlen : length shards = sum (map (fun info => length (di_pairs info)) (d_rec (ds_dec ds)))).
    { unfold shards. rewrite map_length, length_flat_shards, Hshape. reflexivity. }
    assert (Hpos : (0 < length shards)%nat).
    { rewrite Hlen. destruct (d_rec (ds_dec ds)) as [|info recs].
      - destruct (ds_fis ds); [congruence|discriminate Hshape].
      - inversion Hinfos as [|? ? Hi _]; subst. destruct Hi as [Hc Hl]. cbn [map sum fold_right].
        assert (1 <= (di_len info + slice - 1) / slice) by (apply N.div_le_lower_bound; lia). lia. }
    assert (Hso : Forall (oplen sz) shards).
    { unfold shards. apply Forall_forall. intros o Ho. apply in_map_iff in Ho. destruct Ho as [so [<- Hin]].
      apply in_flat_map in Hin. destruct Hin as [fi [Hfi Hin]].
      rewrite Forall_forall in Hsh. specialize (Hsh fi Hfi). unfold shards_ok in Hsh.
      rewrite Forall_forall in Hsh. specialize (Hsh so Hin). destruct so; [exact Hsh|exact I]. }
    pose proof (repair_shards_shape shards (ds_parity ds) dbl sz _ HSL Hpos Hso Hpar) as RS.
    destruct (repair_shards shards (ds_parity ds) dbl) as [data|e|q]; [|exact I|exact RS].
    destruct RS as [R1 R2]. split; [rewrite R1; exact Hlen|exact R2].
  Qed.

  Theorem repair_no_panic : forall ix dbl st p (rp : list (list N)),
    fst (fst (par2_repair md5 ix dbl st)) <> Panic p.
  Proof.
    intros ix dbl st p rp. unfold par2_repair.
    pose proof (load_all_np md5 ix st) as NP.
    destruct (load_all md5 ix st) as [[ds|e|q] st1] eqn:EL; cbn [fst] in NP;
      [|cbn [fst]; discriminate|exfalso; exact (NP q eq_refl)].
    destruct (ds_fis ds) as [|fi0 fis0'] eqn:Efis; [cbn [fst]; discriminate|]. rewrite <- Efis.
    assert (Hne : ds_fis ds <> []) by (rewrite Efis; discriminate).
    pose proof (repair_core_shape ix st ds st1 dbl EL Hne) as RC.
    destruct (load_all_shape _ _ _ _ EL) as (H4 & _ & Hinfos & Hshape & _ & _).
    destruct (repair_core ds dbl) as [data|e|q]; [|cbn [fst]; discriminate|destruct RC].
    destruct RC as [R1 R2].
    apply write_repaired_np.
    apply (Forall_combine_r (fun t : dinfo * list bytes => di_len (fst t) <= N.of_nat (length (concat (snd t))))).
    change (map (fun fi : fint => length (fi_shards fi)) (ds_fis ds)) with (map shlen (ds_fis ds)).
    rewrite Hshape.
    apply (split_by_todo (N.to_nat (d_slice (ds_dec ds))) (d_slice (ds_dec ds))); try assumption; [lia|reflexivity].
  Qed.

End Par2Faults.

Print Assumptions verify_ok_no_fault.
Print Assumptions repair_ok_no_fault.
Print Assumptions create_ok_no_fault.
Print Assumptions repair_touches_only_written.
Print Assumptions create_touches_only_written.
Print Assumptions repaired_only_completed.
Print Assumptions repair_shards_shape.
Print Assumptions repair_core_shape.
Print Assumptions repair_no_panic.
