(* A parity volume file that is present but does not parse (identification string, version,
   truncation, control hash) is unusable, exactly like a missing one: the loading phase of the
   PAR 1.0 decoder returns the same result whether the file is absent or present and damaged.
   (The one-step fact load_vols_unparsable_is_unusable is in Proofs/Par1Facts.v.)
   The same holds for a file that parses but is not a volume of the set: a stale or foreign volume
   carrying another set hash, or a volume number that is not the one of its file name
   (load_vols_foreign_is_unusable, Par1Facts.not_member): V3 below. *)
From Coq Require Import Lia.
From Gopar Require Import Model.Base Model.Matrix Model.GF8 Model.CRC Model.GoPath Model.FS Model.Par1
     Proofs.GoPathFacts Proofs.Par2Facts Proofs.Par1Facts Proofs.Par1Clean Proofs.Par1RoundTrip.
Open Scope N_scope.
Set Default Timeout 120.

(** * the index path is none of its volume paths *)
Lemma dec2w_not_ar k : dec2w k <> [97; 114].
Proof.
  unfold dec2w. cbv zeta.
  destruct (N.ltb_spec k 10) as [L10|G10]; [|destruct (N.ltb_spec k 100) as [L100|G100]];
    cbn [length Nat.ltb Nat.leb]; intros E.
  - apply (f_equal (fun l => hd 0 l)) in E. cbn [hd] in E. discriminate E.
  - apply (f_equal (fun l => hd 0 l)) in E. cbn [hd] in E.
    assert (Hq : k / 10 < 10) by (apply N.div_lt_upper_bound; [discriminate|exact L100]).
    set (q := k / 10) in *. lia.
  - discriminate E.
Qed.

Lemma index_not_volume ix k : str_eqb (ext ix) EXT_PAR = true -> ix <> volume_path ix k.
Proof.
  intros He E. pose proof (index_path_shape ix He) as S.
  assert (E' : strip_ext ix ++ EXT_PAR = strip_ext ix ++ [46; 112] ++ dec2w k).
  { rewrite S. exact E. }
  apply app_inv_head in E'. unfold EXT_PAR in E'. cbn [app] in E'.
  injection E' as E'. symmetry in E'. exact (dec2w_not_ar k E').
Qed.

Lemma read_res_ok_lookup fs p d : read_res fs p = Ok d -> fs_lookup fs p = Some d.
Proof.
  unfold read_res. destruct (fs_lookup fs p) as [d'|].
  - intros H. injection H as ->. reflexivity.
  - destruct (is_dir fs p); intros H; discriminate H.
Qed.

Section Par1Volumes.
  Variable md5 : bytes -> bytes.

  (* LoadFileData returns the same slots on two fault-free states whose reads of the entry paths agree *)
  Lemma load_data_fst_same ix : forall es st st2, io_sched st = [] -> io_sched st2 = [] ->
    (forall e, In e es -> read_res (io_fs st2) (epath ix e) = read_res (io_fs st) (epath ix e)) ->
    fst (load_data md5 ix es st2) = fst (load_data md5 ix es st).
  Proof.
    induction es as [|e r IH]; intros st st2 Hs Hs2 Hrd; cbn [load_data]; [reflexivity|].
    destruct (entry_path ix e) as [p|x|q] eqn:EP; [|reflexivity|reflexivity].
    apply entry_path_ok in EP. destruct EP as [_ ->]. fold (epath ix e).
    destruct (io_read_nosched (epath ix e) st Hs) as (s1 & ER & Hs1 & Hf1).
    destruct (io_read_nosched (epath ix e) st2 Hs2) as (s2 & ER2 & Hs2' & Hf2).
    rewrite ER, ER2, (Hrd e (or_introl eq_refl)).
    assert (IHe : fst (load_data md5 ix r s2) = fst (load_data md5 ix r s1)).
    { apply IH; [exact Hs1|exact Hs2'|]. intros e' Hin. rewrite Hf1, Hf2. apply Hrd. right. exact Hin. }
    destruct (read_res (io_fs st) (epath ix e)) as [data|x|q]; [| |reflexivity].
    - destruct (load_data md5 ix r s2) as [[ds|x|q] s3]; destruct (load_data md5 ix r s1) as [[ds'|x'|q'] s3'];
        cbn [fst] in IHe |- *; congruence.
    - destruct x; cbn [fst]; try reflexivity.
      destruct (load_data md5 ix r s2) as [[ds|x|q] s3]; destruct (load_data md5 ix r s1) as [[ds'|x'|q'] s3'];
        cbn [fst] in IHe |- *; congruence.
  Qed.

  (* LoadParityData on two fault-free states that differ at the path P only, where the first has no file
     and the second a file that does not parse: the same slots and shard size *)
  Lemma load_vols_fst_skip_gen ix sh P b :
    (forall j, volume_path ix (N.of_nat j) = P -> not_member md5 sh (N.of_nat j) b) ->
    forall n i size acc st st2, io_sched st = [] -> io_sched st2 = [] ->
    (forall j, volume_path ix (N.of_nat j) <> P ->
       read_res (io_fs st2) (volume_path ix (N.of_nat j)) = read_res (io_fs st) (volume_path ix (N.of_nat j))) ->
    read_res (io_fs st) P = Err ENotExist -> read_res (io_fs st2) P = Ok b ->
    fst (load_vols md5 ix sh i n size acc st2) = fst (load_vols md5 ix sh i n size acc st).
  Proof.
    intros Hb. induction n as [|n IH]; intros i size acc st st2 Hs Hs2 Hrd HP HP2; cbn [load_vols]; [reflexivity|].
    destruct (io_read_nosched (volume_path ix (N.of_nat (S i))) st Hs) as (s1 & ER & Hs1 & Hf1).
    destruct (io_read_nosched (volume_path ix (N.of_nat (S i))) st2 Hs2) as (s2 & ER2 & Hs2' & Hf2).
    rewrite ER, ER2.
    assert (IH' : forall i' size' acc',
              fst (load_vols md5 ix sh i' n size' acc' s2) = fst (load_vols md5 ix sh i' n size' acc' s1)).
    { intros i' size' acc'. apply IH; [exact Hs1|exact Hs2'| | |].
      - intros j Hj. rewrite Hf1, Hf2. apply Hrd. exact Hj.
      - rewrite Hf1. exact HP.
      - rewrite Hf2. exact HP2. }
    destruct (list_eq_dec N.eq_dec (volume_path ix (N.of_nat (S i))) P) as [E|NE].
    - rewrite E, HP, HP2. specialize (Hb (S i) E). unfold not_member in Hb.
      destruct (read_volume md5 b) as [v|x|q]; [|apply IH'|destruct Hb].
      destruct (bytes_eqb (v_sethash_stored v) sh) eqn:E1; cbn [negb]; [|apply IH'].
      destruct (N.eqb_spec (v_number v) (N.of_nat (S i))) as [E2|E2]; cbn [negb]; [|apply IH'].
      exfalso. destruct Hb as [Hb|Hb]; [apply Hb; apply bytes_eqb_eq; exact E1|exact (Hb E2)].
    - rewrite (Hrd (S i) NE).
      destruct (read_res (io_fs st) (volume_path ix (N.of_nat (S i)))) as [b'|x'|q']; [| |reflexivity].
      + destruct (read_volume md5 b') as [v|x''|q'']; [|apply IH'|reflexivity].
        repeat lazymatch goal with
               | |- fst (if ?c then _ else _) = _ => destruct c; [first [reflexivity | apply IH']|]
               end.
        apply IH'.
      + destruct x'; try reflexivity. apply IH'.
  Qed.

  Lemma load_vols_fst_skip ix sh P b x : read_volume md5 b = Err x ->
    forall n i size acc st st2, io_sched st = [] -> io_sched st2 = [] ->
    (forall j, volume_path ix (N.of_nat j) <> P ->
       read_res (io_fs st2) (volume_path ix (N.of_nat j)) = read_res (io_fs st) (volume_path ix (N.of_nat j))) ->
    read_res (io_fs st) P = Err ENotExist -> read_res (io_fs st2) P = Ok b ->
    fst (load_vols md5 ix sh i n size acc st2) = fst (load_vols md5 ix sh i n size acc st).
  Proof.
    intros Hb. apply load_vols_fst_skip_gen. intros j _. unfold not_member. rewrite Hb. exact I.
  Qed.

  (* the loading phase, over the read results of the paths it touches *)
  Lemma p1_load_fst_same_gen ix fs fs' P b :
    read_res fs' ix = read_res fs ix ->
    (forall bi v e, read_res fs ix = Ok bi -> read_volume md5 bi = Ok v -> In e (v_entries v) -> saved e = true ->
       read_res fs' (epath ix e) = read_res fs (epath ix e)) ->
    (forall j, volume_path ix (N.of_nat j) <> P ->
       read_res fs' (volume_path ix (N.of_nat j)) = read_res fs (volume_path ix (N.of_nat j))) ->
    read_res fs P = Err ENotExist -> read_res fs' P = Ok b ->
    (forall bi v, read_res fs ix = Ok bi -> read_volume md5 bi = Ok v ->
       forall j, volume_path ix (N.of_nat j) = P -> not_member md5 (v_sethash_stored v) (N.of_nat j) b) ->
    fst (p1_load md5 ix (io_init fs' [])) = fst (p1_load md5 ix (io_init fs [])).
  Proof.
    intros Hix Hent Hvol HP HP' Hb. unfold p1_load.
    destruct (negb (str_eqb (ext ix) EXT_PAR)); [reflexivity|].
    destruct (io_read_nosched ix (io_init fs []) eq_refl) as (s1 & ER & Hs1 & Hf1).
    destruct (io_read_nosched ix (io_init fs' []) eq_refl) as (s1' & ER' & Hs1' & Hf1').
    cbn [io_init io_fs] in ER, ER', Hf1, Hf1'. rewrite ER, ER', Hix.
    destruct (read_res fs ix) as [bi|x0|q0] eqn:Eix; [|reflexivity|reflexivity].
    destruct (read_volume md5 bi) as [v|x0|q0] eqn:Ev; [|reflexivity|reflexivity].
    destruct (negb (v_number v =? 0)); [reflexivity|].
    set (es := filter saved (v_entries v)).
    assert (HD : fst (load_data md5 ix es s1') = fst (load_data md5 ix es s1)).
    { apply load_data_fst_same; [exact Hs1|exact Hs1'|].
      intros e Hin. unfold es in Hin. apply filter_In in Hin. destruct Hin as [Hin Hsv].
      rewrite Hf1, Hf1'. exact (Hent bi v e eq_refl Ev Hin Hsv). }
    pose proof (load_data_pres md5 ix es s1) as P1. pose proof (load_data_pres md5 ix es s1') as P1'.
    destruct (load_data md5 ix es s1) as [[ds|x0|q0] s2]; destruct (load_data md5 ix es s1') as [[ds'|x0'|q0'] s2'];
      cbn [fst snd] in HD, P1, P1' |- *; try discriminate HD;
      try (injection HD as ->; reflexivity).
    injection HD as ->.
    destruct ds as [|d0 ds]; [reflexivity|].
    fold es. destruct (256 <=? N.of_nat (length es)); [reflexivity|]. cbv zeta.
    destruct P1 as (Pf & Ps & _). destruct P1' as (Pf' & Ps' & _).
    rewrite Hs1 in Ps. rewrite Hs1' in Ps'. rewrite Hf1 in Pf. rewrite Hf1' in Pf'.
    match goal with |- context [load_vols md5 ix ?a ?i ?n ?s ?acc s2] =>
      pose proof (load_vols_fst_skip_gen ix a P b (Hb bi v eq_refl Ev) n i s acc s2 s2' Ps Ps') as HV;
      destruct (load_vols md5 ix a i n s acc s2) as [[[slots size]|x0|q0] s3];
      destruct (load_vols md5 ix a i n s acc s2') as [[[slots' size']|x0'|q0'] s3'] end;
      cbn [fst] in HV |- *;
      (assert (HV' : _) by (apply HV; [intros j Hj; rewrite Pf, Pf'; apply Hvol; exact Hj
                                      |rewrite Pf; exact HP|rewrite Pf'; exact HP']));
      try discriminate HV'; injection HV'; intros; subst; reflexivity.
  Qed.

  (** * V3 (general form): the loading phase ignores a file at a volume path that is not a volume of the set *)
  (* fs and fs' differ at the volume path only: fs has nothing there, fs' a file that is not a member of the set of
     the index (whenever the index of fs parses): it does not parse, or carries another set hash, or another number.
     No saved entry of the index names that path.  Then the loading phase returns the same outcome, state included. *)
  Theorem p1_load_ignores_not_member_volume ix k fs fs' b :
    (forall p, p <> volume_path ix k -> fs_lookup fs' p = fs_lookup fs p /\ is_dir fs' p = is_dir fs p) ->
    fs_lookup fs (volume_path ix k) = None -> is_dir fs (volume_path ix k) = false ->
    fs_lookup fs' (volume_path ix k) = Some b ->
    (forall bi v, fs_lookup fs ix = Some bi -> read_volume md5 bi = Ok v -> not_member md5 (v_sethash_stored v) k b) ->
    (forall bi v e, fs_lookup fs ix = Some bi -> read_volume md5 bi = Ok v -> In e (v_entries v) -> saved e = true ->
       join2 (dir ix) (e_name e) <> volume_path ix k) ->
    fst (p1_load md5 ix (io_init fs' [])) = fst (p1_load md5 ix (io_init fs [])).
  Proof.
    intros Hdiff Hnone Hnodir Hsome Hb Hent.
    destruct (str_eqb (ext ix) EXT_PAR) eqn:He.
    2:{ unfold p1_load. rewrite He. reflexivity. }
    assert (Hsame : forall p, p <> volume_path ix k -> read_res fs' p = read_res fs p).
    { intros p Hp. unfold read_res. destruct (Hdiff p Hp) as [-> ->]. reflexivity. }
    apply (p1_load_fst_same_gen ix fs fs' (volume_path ix k) b).
    - apply Hsame. apply index_not_volume. exact He.
    - intros bi v e Hix Hv Hin Hsv. apply Hsame. unfold epath.
      exact (Hent bi v e (read_res_ok_lookup fs ix bi Hix) Hv Hin Hsv).
    - intros j Hj. apply Hsame. exact Hj.
    - unfold read_res. rewrite Hnone, Hnodir. reflexivity.
    - unfold read_res. rewrite Hsome. reflexivity.
    - intros bi v Hix Hv j Hj. apply volume_path_inj in Hj. rewrite Hj.
      exact (Hb bi v (read_res_ok_lookup fs ix bi Hix) Hv).
  Qed.

  (** * V2: the loading phase ignores a present but unparsable volume *)
  (* fs and fs' differ at the volume path only: fs has nothing there, fs' a file that read_volume rejects.
     No saved entry of the index names that path (a data file called like a volume would be loaded as data).
     Then the loading phase returns the same outcome, state included: the same index volume, saved entries,
     data slots, shard size and parity slots, or the same error. *)
  Theorem p1_load_ignores_unparsable_volume ix k fs fs' b x :
    (forall p, p <> volume_path ix k -> fs_lookup fs' p = fs_lookup fs p /\ is_dir fs' p = is_dir fs p) ->
    fs_lookup fs (volume_path ix k) = None -> is_dir fs (volume_path ix k) = false ->
    fs_lookup fs' (volume_path ix k) = Some b -> read_volume md5 b = Err x ->
    (forall bi v e, fs_lookup fs ix = Some bi -> read_volume md5 bi = Ok v -> In e (v_entries v) -> saved e = true ->
       join2 (dir ix) (e_name e) <> volume_path ix k) ->
    fst (p1_load md5 ix (io_init fs' [])) = fst (p1_load md5 ix (io_init fs [])).
  Proof.
    intros Hdiff Hnone Hnodir Hsome Hb Hent.
    apply (p1_load_ignores_not_member_volume ix k fs fs' b Hdiff Hnone Hnodir Hsome); [|exact Hent].
    intros bi v _ _. unfold not_member. rewrite Hb. exact I.
  Qed.

  (** * V3: the loading phase ignores a stale or foreign volume *)
  (* the same with a file that PARSES as a PAR 1.0 volume but carries another set hash than the index (a stale volume
     of an earlier set, or a volume of a foreign set, under the name of a volume of this set) *)
  Theorem p1_load_ignores_foreign_volume ix k fs fs' b vb :
    (forall p, p <> volume_path ix k -> fs_lookup fs' p = fs_lookup fs p /\ is_dir fs' p = is_dir fs p) ->
    fs_lookup fs (volume_path ix k) = None -> is_dir fs (volume_path ix k) = false ->
    fs_lookup fs' (volume_path ix k) = Some b -> read_volume md5 b = Ok vb ->
    (forall bi v, fs_lookup fs ix = Some bi -> read_volume md5 bi = Ok v -> v_sethash_stored vb <> v_sethash_stored v) ->
    (forall bi v e, fs_lookup fs ix = Some bi -> read_volume md5 bi = Ok v -> In e (v_entries v) -> saved e = true ->
       join2 (dir ix) (e_name e) <> volume_path ix k) ->
    fst (p1_load md5 ix (io_init fs' [])) = fst (p1_load md5 ix (io_init fs [])).
  Proof.
    intros Hdiff Hnone Hnodir Hsome Hb Hh Hent.
    apply (p1_load_ignores_not_member_volume ix k fs fs' b Hdiff Hnone Hnodir Hsome); [|exact Hent].
    intros bi v Hix Hv. unfold not_member. rewrite Hb. left. exact (Hh bi v Hix Hv).
  Qed.

  (* ... or a volume number that is not the one of its file name *)
  Theorem p1_load_ignores_misnumbered_volume ix k fs fs' b vb :
    (forall p, p <> volume_path ix k -> fs_lookup fs' p = fs_lookup fs p /\ is_dir fs' p = is_dir fs p) ->
    fs_lookup fs (volume_path ix k) = None -> is_dir fs (volume_path ix k) = false ->
    fs_lookup fs' (volume_path ix k) = Some b -> read_volume md5 b = Ok vb -> v_number vb <> k ->
    (forall bi v e, fs_lookup fs ix = Some bi -> read_volume md5 bi = Ok v -> In e (v_entries v) -> saved e = true ->
       join2 (dir ix) (e_name e) <> volume_path ix k) ->
    fst (p1_load md5 ix (io_init fs' [])) = fst (p1_load md5 ix (io_init fs [])).
  Proof.
    intros Hdiff Hnone Hnodir Hsome Hb Hn Hent.
    apply (p1_load_ignores_not_member_volume ix k fs fs' b Hdiff Hnone Hnodir Hsome); [|exact Hent].
    intros bi v _ _. unfold not_member. rewrite Hb. right. exact Hn.
  Qed.

  (* Verify and Repair are functions of the outcome of the loading phase (on fault-free states) *)
  Lemma par1_verify_fst_of_load ix all st st2 :
    fst (p1_load md5 ix st2) = fst (p1_load md5 ix st) ->
    fst (par1_verify md5 ix all st2) = fst (par1_verify md5 ix all st).
  Proof.
    intros E. unfold par1_verify.
    destruct (p1_load md5 ix st2) as [o' st1']. destruct (p1_load md5 ix st) as [o st1].
    cbn [fst] in E. subst o'.
    destruct o as [s|x0|q0]; [|reflexivity|reflexivity]. cbv zeta.
    lazymatch goal with |- fst (if ?c then _ else _) = _ => destruct c end; [|reflexivity].
    destruct (build_shards s) as [sh|x0|q0]; [|reflexivity|reflexivity].
    lazymatch goal with |- context [rs_verify ?a ?b ?c] => destruct (rs_verify a b c) as [ok|x0|q0] end; reflexivity.
  Qed.

  Lemma p1_write_repaired_fst_nosched ix : forall todo done st st2, io_sched st = [] -> io_sched st2 = [] ->
    fst (p1_write_repaired md5 ix todo done st2) = fst (p1_write_repaired md5 ix todo done st).
  Proof.
    induction todo as [|[e [[given|] shard]] todo IH]; intros done st st2 Hs Hs2; cbn [p1_write_repaired].
    - reflexivity.
    - apply IH; assumption.
    - destruct (N.of_nat (length shard) <? e_len e); [reflexivity|]. cbv zeta.
      destruct (negb (bytes_eqb (hash16k md5 (firstn (N.to_nat (e_len e)) shard)) (e_h16 e))); [reflexivity|].
      destruct (negb (bytes_eqb (md5 (firstn (N.to_nat (e_len e)) shard)) (e_hash e))); [reflexivity|].
      destruct (entry_path ix e) as [p|x|q]; [|reflexivity|reflexivity].
      rewrite (io_write_nosched _ _ st Hs), (io_write_nosched _ _ st2 Hs2).
      apply IH; reflexivity || (cbn [tick io_sched]; assumption).
  Qed.

  Lemma par1_repair_fst_of_load ix dbl st st2 : io_sched st = [] -> io_sched st2 = [] ->
    fst (p1_load md5 ix st2) = fst (p1_load md5 ix st) ->
    fst (par1_repair md5 ix dbl st2) = fst (par1_repair md5 ix dbl st).
  Proof.
    intros Hs Hs2 E. unfold par1_repair.
    pose proof (p1_load_pres md5 ix st) as P. pose proof (p1_load_pres md5 ix st2) as P2.
    destruct (p1_load md5 ix st2) as [o' st1']. destruct (p1_load md5 ix st) as [o st1].
    cbn [fst snd] in E, P, P2. subst o'.
    destruct P as (_ & Ps & _). destruct P2 as (_ & Ps2 & _).
    destruct o as [s|x0|q0]; [|reflexivity|reflexivity]. cbv zeta.
    destruct (Nat.eqb (s_size s) 0).
    { destruct (Nat.eqb (count_none1 (s_data s)) 0); reflexivity. }
    destruct (Nat.ltb 256 (length (s_data s) + length (s_parity s))); [reflexivity|].
    destruct (build_shards s) as [sh|x0|q0]; [|reflexivity|reflexivity].
    lazymatch goal with |- context [par1_reconstruct ?a ?b ?c] => destruct (par1_reconstruct a b c) as [full|x0|q0] end;
      [|reflexivity|reflexivity].
    destruct dbl.
    - lazymatch goal with |- context [rs_verify ?a ?b ?c] => destruct (rs_verify a b c) as [[|]|x0|q0] end;
        try reflexivity.
      apply p1_write_repaired_fst_nosched; congruence.
    - apply p1_write_repaired_fst_nosched; congruence.
  Qed.

  (* in particular the loaded states agree on the saved entries, data, shard size and parity, and the file counts *)
  Corollary p1_load_ignores_unparsable_volume_state ix k fs fs' b x :
    (forall p, p <> volume_path ix k -> fs_lookup fs' p = fs_lookup fs p /\ is_dir fs' p = is_dir fs p) ->
    fs_lookup fs (volume_path ix k) = None -> is_dir fs (volume_path ix k) = false ->
    fs_lookup fs' (volume_path ix k) = Some b -> read_volume md5 b = Err x ->
    (forall bi v e, fs_lookup fs ix = Some bi -> read_volume md5 bi = Ok v -> In e (v_entries v) -> saved e = true ->
       join2 (dir ix) (e_name e) <> volume_path ix k) ->
    forall s st1, p1_load md5 ix (io_init fs []) = (Ok s, st1) ->
    exists s' st1', p1_load md5 ix (io_init fs' []) = (Ok s', st1') /\
      s_saved s' = s_saved s /\ s_data s' = s_data s /\ s_size s' = s_size s /\ s_parity s' = s_parity s /\
      count_present (s_parity s') = count_present (s_parity s) /\ file_counts s' = file_counts s.
  Proof.
    intros Hdiff Hnone Hnodir Hsome Hb Hent s st1 HL.
    pose proof (p1_load_ignores_unparsable_volume ix k fs fs' b x Hdiff Hnone Hnodir Hsome Hb Hent) as E.
    rewrite HL in E. cbn [fst] in E.
    destruct (p1_load md5 ix (io_init fs' [])) as [o st1']. cbn [fst] in E. subst o.
    exists s, st1'. repeat split; reflexivity.
  Qed.

  (* and Verify reports the same *)
  Corollary par1_verify_ignores_unparsable_volume ix k all fs fs' b x :
    (forall p, p <> volume_path ix k -> fs_lookup fs' p = fs_lookup fs p /\ is_dir fs' p = is_dir fs p) ->
    fs_lookup fs (volume_path ix k) = None -> is_dir fs (volume_path ix k) = false ->
    fs_lookup fs' (volume_path ix k) = Some b -> read_volume md5 b = Err x ->
    (forall bi v e, fs_lookup fs ix = Some bi -> read_volume md5 bi = Ok v -> In e (v_entries v) -> saved e = true ->
       join2 (dir ix) (e_name e) <> volume_path ix k) ->
    fst (par1_verify md5 ix all (io_init fs' [])) = fst (par1_verify md5 ix all (io_init fs [])).
  Proof.
    intros Hdiff Hnone Hnodir Hsome Hb Hent. apply par1_verify_fst_of_load.
    exact (p1_load_ignores_unparsable_volume ix k fs fs' b x Hdiff Hnone Hnodir Hsome Hb Hent).
  Qed.

  (** * V3 for Verify and Repair: a stale or foreign volume (it parses, but carries another set hash than the index)
      changes nothing: Verify returns the same counts and verdict or the same error, Repair the same result and
      the same list of repaired files, as with that file absent *)
  Theorem par1_verify_ignores_foreign_volume ix k all fs fs' b vb :
    (forall p, p <> volume_path ix k -> fs_lookup fs' p = fs_lookup fs p /\ is_dir fs' p = is_dir fs p) ->
    fs_lookup fs (volume_path ix k) = None -> is_dir fs (volume_path ix k) = false ->
    fs_lookup fs' (volume_path ix k) = Some b -> read_volume md5 b = Ok vb ->
    (forall bi v, fs_lookup fs ix = Some bi -> read_volume md5 bi = Ok v -> v_sethash_stored vb <> v_sethash_stored v) ->
    (forall bi v e, fs_lookup fs ix = Some bi -> read_volume md5 bi = Ok v -> In e (v_entries v) -> saved e = true ->
       join2 (dir ix) (e_name e) <> volume_path ix k) ->
    fst (par1_verify md5 ix all (io_init fs' [])) = fst (par1_verify md5 ix all (io_init fs [])).
  Proof.
    intros Hdiff Hnone Hnodir Hsome Hb Hh Hent. apply par1_verify_fst_of_load.
    exact (p1_load_ignores_foreign_volume ix k fs fs' b vb Hdiff Hnone Hnodir Hsome Hb Hh Hent).
  Qed.

  Theorem par1_repair_ignores_foreign_volume ix k dbl fs fs' b vb :
    (forall p, p <> volume_path ix k -> fs_lookup fs' p = fs_lookup fs p /\ is_dir fs' p = is_dir fs p) ->
    fs_lookup fs (volume_path ix k) = None -> is_dir fs (volume_path ix k) = false ->
    fs_lookup fs' (volume_path ix k) = Some b -> read_volume md5 b = Ok vb ->
    (forall bi v, fs_lookup fs ix = Some bi -> read_volume md5 bi = Ok v -> v_sethash_stored vb <> v_sethash_stored v) ->
    (forall bi v e, fs_lookup fs ix = Some bi -> read_volume md5 bi = Ok v -> In e (v_entries v) -> saved e = true ->
       join2 (dir ix) (e_name e) <> volume_path ix k) ->
    fst (par1_repair md5 ix dbl (io_init fs' [])) = fst (par1_repair md5 ix dbl (io_init fs [])).
  Proof.
    intros Hdiff Hnone Hnodir Hsome Hb Hh Hent. apply par1_repair_fst_of_load; [reflexivity|reflexivity|].
    exact (p1_load_ignores_foreign_volume ix k fs fs' b vb Hdiff Hnone Hnodir Hsome Hb Hh Hent).
  Qed.

  (* the three together *)
  Theorem par1_foreign_volume_ignored_all ix k fs fs' b vb :
    (forall p, p <> volume_path ix k -> fs_lookup fs' p = fs_lookup fs p /\ is_dir fs' p = is_dir fs p) ->
    fs_lookup fs (volume_path ix k) = None -> is_dir fs (volume_path ix k) = false ->
    fs_lookup fs' (volume_path ix k) = Some b -> read_volume md5 b = Ok vb ->
    (forall bi v, fs_lookup fs ix = Some bi -> read_volume md5 bi = Ok v -> v_sethash_stored vb <> v_sethash_stored v) ->
    (forall bi v e, fs_lookup fs ix = Some bi -> read_volume md5 bi = Ok v -> In e (v_entries v) -> saved e = true ->
       join2 (dir ix) (e_name e) <> volume_path ix k) ->
    fst (p1_load md5 ix (io_init fs' [])) = fst (p1_load md5 ix (io_init fs [])) /\
    (forall all, fst (par1_verify md5 ix all (io_init fs' [])) = fst (par1_verify md5 ix all (io_init fs []))) /\
    (forall dbl, fst (par1_repair md5 ix dbl (io_init fs' [])) = fst (par1_repair md5 ix dbl (io_init fs []))).
  Proof.
    intros Hdiff Hnone Hnodir Hsome Hb Hh Hent.
    split; [exact (p1_load_ignores_foreign_volume ix k fs fs' b vb Hdiff Hnone Hnodir Hsome Hb Hh Hent)|]. split.
    - intros all. exact (par1_verify_ignores_foreign_volume ix k all fs fs' b vb Hdiff Hnone Hnodir Hsome Hb Hh Hent).
    - intros dbl. exact (par1_repair_ignores_foreign_volume ix k dbl fs fs' b vb Hdiff Hnone Hnodir Hsome Hb Hh Hent).
  Qed.

  (* ... and likewise for an unparsable volume (Repair; Verify is par1_verify_ignores_unparsable_volume) *)
  Theorem par1_repair_ignores_unparsable_volume ix k dbl fs fs' b x :
    (forall p, p <> volume_path ix k -> fs_lookup fs' p = fs_lookup fs p /\ is_dir fs' p = is_dir fs p) ->
    fs_lookup fs (volume_path ix k) = None -> is_dir fs (volume_path ix k) = false ->
    fs_lookup fs' (volume_path ix k) = Some b -> read_volume md5 b = Err x ->
    (forall bi v e, fs_lookup fs ix = Some bi -> read_volume md5 bi = Ok v -> In e (v_entries v) -> saved e = true ->
       join2 (dir ix) (e_name e) <> volume_path ix k) ->
    fst (par1_repair md5 ix dbl (io_init fs' [])) = fst (par1_repair md5 ix dbl (io_init fs [])).
  Proof.
    intros Hdiff Hnone Hnodir Hsome Hb Hent. apply par1_repair_fst_of_load; [reflexivity|reflexivity|].
    exact (p1_load_ignores_unparsable_volume ix k fs fs' b x Hdiff Hnone Hnodir Hsome Hb Hent).
  Qed.
End Par1Volumes.

Print Assumptions p1_load_ignores_unparsable_volume.
Print Assumptions p1_load_ignores_unparsable_volume_state.
Print Assumptions par1_verify_ignores_unparsable_volume.
Print Assumptions p1_load_ignores_not_member_volume.
Print Assumptions p1_load_ignores_foreign_volume.
Print Assumptions p1_load_ignores_misnumbered_volume.
Print Assumptions par1_verify_ignores_foreign_volume.
Print Assumptions par1_repair_ignores_foreign_volume.
Print Assumptions par1_repair_ignores_unparsable_volume.
Print Assumptions par1_foreign_volume_ignored_all.
