(* PAR2 Verify / Repair: every I/O event stays inside the directory tree of the index file (C15).
   For EVERY initial file system, fault schedule, index path and archive content:
   TG0 load_trace_shape / repair_trace_shape   the whole trace, in order: one read of the index file, reads of
                                    Join(Dir(index), name) for names accepted by checkFilename, at most one
                                    directory listing with the arguments (<index minus ext> ++ ".", ".par2"), reads
                                    of listed paths, then (Repair only) writes to Join(Dir(index), accepted name)
   TG1 repair_write_targets         every write event of Repair targets file_path ix name, name accepted
   TG2 repair_read_targets, verify_read_targets, repair_list_events, verify_list_events, verify_no_write_events
   TG3 repair_writes_below_index_dir (and the same for the data-file reads): the written path renders the
                                    components of Dir(index) plus a non-empty list of ordinary components *)
From Coq Require Import Lia.
From Gopar Require Import Model.Base Model.GF16 Model.Matrix Model.RS16 Model.CRC Model.GoPath Model.FS Model.Par2
     Proofs.GoPathFacts Proofs.Par2Facts Proofs.Par2Verify Proofs.Par2Faults Proofs.Par2CreatePaths
     Proofs.Par2Clean Proofs.Par2RepairComplete.
Open Scope N_scope.
Set Default Timeout 120.

(** * the events of one call *)

Lemma io_read_trace p st : exists ok, io_trace (snd (io_read p st)) = io_trace st ++ [EvRead p ok].
Proof.
  unfold io_read. destruct (sched_lookup (io_sched st) (io_n st)) as [f|].
  - exists false. reflexivity.
  - destruct (fs_lookup (io_fs st) p) as [d|]; [exists true; reflexivity|].
    destruct (is_dir (io_fs st) p); exists false; reflexivity.
Qed.

Lemma io_list_trace a b st : exists ok, io_trace (snd (io_list a b st)) = io_trace st ++ [EvList a b ok].
Proof.
  unfold io_list. destruct (sched_lookup (io_sched st) (io_n st)) as [f|]; [exists false|exists true]; reflexivity.
Qed.

Lemma io_write_trace' p d st : exists ok, io_trace (snd (io_write p d st)) = io_trace st ++ [EvWrite p d ok].
Proof.
  unfold io_write. destruct (sched_lookup (io_sched st) (io_n st)) as [[|k]|];
    [exists false|exists false|exists true]; reflexivity.
Qed.

(** * what a directory listing returns: keys of the file map with the literal prefix and suffix *)

Lemma pre_suf_decomp (q pre suf : list N) :
  (length pre + length suf <= length q)%nat -> starts_with q pre = true -> ends_with q suf = true ->
  exists mid, q = pre ++ mid ++ suf.
Proof.
  intros Hlen Hs He. unfold starts_with in Hs. unfold ends_with in He.
  apply str_eqb_eq in Hs. apply str_eqb_eq in He.
  set (r := skipn (length pre) q).
  assert (Hq : q = pre ++ r).
  { unfold r. rewrite <- Hs at 1. symmetry. apply firstn_skipn. }
  assert (Hlr : (length q = length pre + length r)%nat) by (rewrite Hq at 1; apply app_length).
  set (k := (length q - length suf - length pre)%nat).
  exists (firstn k r).
  assert (Hk : skipn k r = suf).
  { rewrite <- He. rewrite Hq at 2. rewrite skipn_app.
    rewrite (skipn_all2 pre) by lia. reflexivity. }
  rewrite Hq. f_equal. rewrite <- Hk. symmetry. apply firstn_skipn.
Qed.

Lemma io_list_ok_in pre suf st paths st' q :
  io_list pre suf st = (Ok paths, st') -> In q paths ->
  In q (map fst (io_fs st)) /\ exists mid, q = pre ++ mid ++ suf.
Proof.
  unfold io_list. intros H Hin.
  destruct (sched_lookup (io_sched st) (io_n st)) as [f|]; [discriminate H|].
  injection H as <- _.
  apply (proj1 (sort_paths_in _ _)) in Hin. apply filter_In in Hin. destruct Hin as [Hk Hf].
  split; [exact Hk|].
  apply andb_prop in Hf. destruct Hf as [Hf _].
  apply andb_prop in Hf. destruct Hf as [Hf He]. apply andb_prop in Hf. destruct Hf as [Hl Hs].
  apply Nat.leb_le in Hl. apply pre_suf_decomp; assumption.
Qed.

(* ... and they are entries of the directory of the prefix itself: no separator after the prefix *)
Lemma io_list_ok_in_dir pre suf st paths st' q :
  io_list pre suf st = (Ok paths, st') -> In q paths -> ~ In SLASH (skipn (length pre) q).
Proof.
  unfold io_list. intros H Hin.
  destruct (sched_lookup (io_sched st) (io_n st)) as [f|]; [discriminate H|].
  injection H as <- _.
  apply (proj1 (sort_paths_in _ _)) in Hin. apply filter_In in Hin. destruct Hin as [_ Hf].
  apply andb_prop in Hf. destruct Hf as [_ Hn]. apply no_slash_spec. exact Hn.
Qed.

(* the listing of a fault-free state, member by member: the keys <pre><mid><suf> with no separator after <pre> *)
Lemma firstn_length_app_l {A} (a b : list A) : firstn (length a) (a ++ b) = a.
Proof. induction a as [|x a IH]; [reflexivity|]. cbn [length app firstn]. rewrite IH. reflexivity. Qed.

Lemma io_list_members pre suf fs paths st' :
  io_list pre suf (io_init fs []) = (Ok paths, st') ->
  forall q, In q paths <-> In q (map fst fs) /\ exists mid, q = pre ++ mid ++ suf /\ ~ In SLASH (mid ++ suf).
Proof.
  intros H q. split.
  - intros Hin. destruct (io_list_ok_in _ _ _ _ _ q H Hin) as [Hk (mid & Hm)].
    pose proof (io_list_ok_in_dir _ _ _ _ _ q H Hin) as Hn.
    split; [exact Hk|]. exists mid. split; [exact Hm|].
    rewrite Hm, skipn_length_app in Hn. exact Hn.
  - intros [Hk (mid & -> & Hn)]. unfold io_list in H. cbn [io_init io_sched io_n sched_lookup io_fs] in H.
    injection H as <- _. apply sort_paths_in. apply filter_In. split; [exact Hk|].
    apply andb_true_iff. split; [apply andb_true_iff; split; [apply andb_true_iff; split|]|].
    + apply Nat.leb_le. rewrite !app_length. lia.
    + unfold starts_with. rewrite firstn_length_app_l. apply str_eqb_refl.
    + unfold ends_with. rewrite app_assoc, (app_length (pre ++ mid) suf).
      replace (length (pre ++ mid) + length suf - length suf)%nat with (length (pre ++ mid)) by lia.
      rewrite skipn_length_app. apply str_eqb_refl.
    + rewrite skipn_length_app. apply no_slash_spec. exact Hn.
Qed.

(** * the event classes *)

(* a path the listing of load_all can return: a key of the file map of the literal form
   <index path minus extension> ++ "." ++ mid ++ ".par2" *)
Definition listed (ix : list N) (fs : list (list N * bytes)) (p : list N) : Prop :=
  In p (map fst fs) /\ exists mid, p = (strip_ext ix ++ [DOT]) ++ mid ++ EXT_PAR2.

Definition data_read (ix : list N) (ev : ioev) : Prop :=
  exists name ok, ev = EvRead (file_path ix name) ok /\ check_filename name = Ok tt.

Definition vol_read (ix : list N) (fs : list (list N * bytes)) (ev : ioev) : Prop :=
  exists p ok, ev = EvRead p ok /\ listed ix fs p.

Definition data_write (ix : list N) (ev : ioev) : Prop :=
  exists name d ok, ev = EvWrite (file_path ix name) d ok /\ check_filename name = Ok tt.

(* the listing and what follows it *)
Definition list_part (ix : list N) (fs : list (list N * bytes)) (tl : list ioev) : Prop :=
  tl = [] \/ exists ok tc, tl = EvList (strip_ext ix ++ [DOT]) EXT_PAR2 ok :: tc /\ Forall (vol_read ix fs) tc.

(* the trace of the loading phase (newDecoder, LoadFileData, LoadParityData) *)
Definition load_shape (ix : list N) (fs : list (list N * bytes)) (t : list ioev) : Prop :=
  t = [] \/ exists ok tb tl, t = EvRead ix ok :: tb ++ tl /\ Forall (data_read ix) tb /\ list_part ix fs tl.

Definition read_target (ix : list N) (fs : list (list N * bytes)) (p : list N) : Prop :=
  p = ix \/ (exists name, p = file_path ix name /\ check_filename name = Ok tt) \/ listed ix fs p.

Lemma load_shape_read ix fs t p ok : load_shape ix fs t -> In (EvRead p ok) t -> read_target ix fs p.
Proof.
  intros [->|(ok0 & tb & tl & -> & Hb & Hl)] Hin; [destruct Hin|].
  destruct Hin as [E|Hin]; [injection E as <- _; left; reflexivity|].
  apply in_app_or in Hin. destruct Hin as [Hin|Hin].
  - rewrite Forall_forall in Hb. destruct (Hb _ Hin) as (name & ok1 & E & Hc).
    injection E as -> _. right. left. exists name. split; [reflexivity|exact Hc].
  - destruct Hl as [->|(okl & tc & -> & Hc)]; [destruct Hin|].
    destruct Hin as [E|Hin]; [discriminate E|].
    rewrite Forall_forall in Hc. destruct (Hc _ Hin) as (p1 & ok1 & E & Hl).
    injection E as -> _. right. right. exact Hl.
Qed.

Lemma load_shape_list ix fs t pre suf ok : load_shape ix fs t -> In (EvList pre suf ok) t ->
  pre = strip_ext ix ++ [DOT] /\ suf = EXT_PAR2.
Proof.
  intros [->|(ok0 & tb & tl & -> & Hb & Hl)] Hin; [destruct Hin|].
  destruct Hin as [E|Hin]; [discriminate E|].
  apply in_app_or in Hin. destruct Hin as [Hin|Hin].
  - rewrite Forall_forall in Hb. destruct (Hb _ Hin) as (name & ok1 & E & _). discriminate E.
  - destruct Hl as [->|(okl & tc & -> & Hc)]; [destruct Hin|].
    destruct Hin as [E|Hin]; [injection E as <- <- _; split; reflexivity|].
    rewrite Forall_forall in Hc. destruct (Hc _ Hin) as (p1 & ok1 & E & _). discriminate E.
Qed.

Lemma load_shape_no_write ix fs t p d ok : load_shape ix fs t -> ~ In (EvWrite p d ok) t.
Proof.
  intros [->|(ok0 & tb & tl & -> & Hb & Hl)] Hin; [destruct Hin|].
  destruct Hin as [E|Hin]; [discriminate E|].
  apply in_app_or in Hin. destruct Hin as [Hin|Hin].
  - rewrite Forall_forall in Hb. destruct (Hb _ Hin) as (name & ok1 & E & _). discriminate E.
  - destruct Hl as [->|(okl & tc & -> & Hc)]; [destruct Hin|].
    destruct Hin as [E|Hin]; [discriminate E|].
    rewrite Forall_forall in Hc. destruct (Hc _ Hin) as (p1 & ok1 & E & _). discriminate E.
Qed.

(* at most one listing *)
Lemma load_shape_one_list ix fs t : load_shape ix fs t ->
  (length (filter (fun ev => match ev with EvList _ _ _ => true | _ => false end) t) <= 1)%nat.
Proof.
  assert (Hz : forall (P : ioev -> Prop) l, (forall ev, P ev -> exists p ok, ev = EvRead p ok) -> Forall P l ->
            filter (fun ev => match ev with EvList _ _ _ => true | _ => false end) l = []).
  { intros P l HP. induction l as [|ev l IH]; intros H; [reflexivity|].
    inversion H as [|? ? Hev Hl]; subst. destruct (HP ev Hev) as (p & ok & ->). cbn [filter]. apply IH. exact Hl. }
  intros [->|(ok0 & tb & tl & -> & Hb & Hl)]; [cbn; lia|].
  cbn [filter]. rewrite filter_app.
  rewrite (Hz (data_read ix) tb); [|intros ev (name & ok & E & _); exists (file_path ix name), ok; exact E|exact Hb].
  cbn [app]. destruct Hl as [->|(okl & tc & -> & Hc)]; [cbn; lia|].
  cbn [filter]. rewrite (Hz (vol_read ix fs) tc); [cbn; lia| |exact Hc].
  intros ev (p & ok & E & _). exists p, ok. exact E.
Qed.

Section Par2Targets.
  Variable md5 : bytes -> bytes.

  (** * every file description the decoder keeps passed checkFilename *)

  Lemma read_fdesc_name body id d : read_fdesc md5 body = Ok (id, d) -> check_filename (fd_name d) = Ok tt.
  Proof.
    unfold read_fdesc. cbv zeta. intros H.
    destruct (Nat.ltb (length body) 56); [discriminate H|].
    match type of H with (if ?c then _ else _) = _ => destruct c end; [discriminate H|].
    match type of H with (if ?c then _ else _) = _ => destruct c end; [discriminate H|].
    destruct (check_filename (decode_ascii (skipn 56 body))) as [u|e|q] eqn:EC; cbn [obind] in H; try discriminate H.
    match type of H with (if ?c then _ else _) = _ => destruct c end; [discriminate H|].
    injection H as _ <-. cbn [fd_name]. destruct u. exact EC.
  Qed.

  Definition names_ok (f : pfile) : Prop :=
    Forall (fun e : bytes * fdesc => check_filename (fd_name (snd e)) = Ok tt) (pf_fdesc f).

  Lemma read_file_go_names : forall fuel buf setid found f sid f',
    names_ok f -> read_file_go md5 fuel buf setid found f = RFOk sid f' -> names_ok f'.
  Proof.
    induction fuel as [|fuel IH]; intros buf setid found f sid f' Hf H; cbn [read_file_go] in H; [discriminate H|].
    destruct (read_next_packet md5 buf) as [| |psid ptype body rest].
    - apply rf_finish_ok in H. rewrite H. exact Hf.
    - destruct (find_magic (tl buf)) as [rest|].
      + eapply IH; [exact Hf|exact H].
      + apply rf_finish_ok in H. rewrite H. exact Hf.
    - lazymatch type of H with (if ?c then _ else _) = _ => destruct c end.
      { eapply IH; [exact Hf|exact H]. }
      destruct (bytes_eqb ptype TYPE_CREATOR).
      { eapply IH; [|exact H]. exact Hf. }
      destruct (bytes_eqb ptype TYPE_MAIN).
      { destruct (read_main body) as [m|e|q]; try discriminate H.
        eapply IH; [|exact H]. exact Hf. }
      destruct (bytes_eqb ptype TYPE_FDESC).
      { destruct (read_fdesc md5 body) as [[id dd]|e|q] eqn:EF; try discriminate H.
        eapply IH; [|exact H]. unfold names_ok. cbn [pf_fdesc].
        constructor; [cbn [snd]; apply read_fdesc_name with body id; exact EF|exact Hf]. }
      destruct (bytes_eqb ptype TYPE_IFSC).
      { destruct (read_ifsc body) as [[id ps]|e|q]; try discriminate H.
        eapply IH; [|exact H]. exact Hf. }
      destruct (bytes_eqb ptype TYPE_RECV).
      { destruct (read_recv body) as [[e dd]|e|q]; try discriminate H.
        destruct (assoc_n (pf_recv f) e) as [d'|].
        - destruct (bytes_eqb d' dd); [|discriminate H]. eapply IH; [exact Hf|exact H].
        - eapply IH; [|exact H]. exact Hf. }
      eapply IH; [exact Hf|exact H].
  Qed.

  Definition name_ok (info : dinfo) : Prop := check_filename (di_name info) = Ok tt.

  Lemma make_infos_names S ids f infos : names_ok f -> make_infos S ids f = Ok infos -> Forall name_ok infos.
  Proof.
    intros Hf. unfold make_infos. apply omap_Forall. intros id y H.
    destruct (assoc_b (pf_fdesc f) id) as [d|] eqn:E1; [|discriminate H].
    destruct (assoc_b (pf_ifsc f) id) as [ps|]; [|discriminate H].
    match type of H with (if ?c then _ else _) = _ => destruct c end; [discriminate H|].
    injection H as <-. unfold name_ok. cbn [di_name].
    destruct (assoc_b_in _ _ _ E1) as [k' Hin]. unfold names_ok in Hf. rewrite Forall_forall in Hf.
    apply (Hf (k', d) Hin).
  Qed.

  (* the invariant of newDecoder: every entry of the recovery set and of the non-recovery set carries a name that
     checkFilename accepted *)
  Lemma new_decoder_names ix st d st1 : new_decoder md5 ix st = (Ok d, st1) ->
    d_index d = ix /\ Forall name_ok (d_rec d) /\ Forall name_ok (d_nonrec d).
  Proof.
    intros H. unfold new_decoder in H.
    destruct (io_read ix st) as [[b|e|q] s1]; try discriminate H.
    injection H as H _.
    destruct (read_file md5 None b) as [| |sid f] eqn:ERF; try discriminate H.
    destruct (pf_main f) as [m|] eqn:EM; [|discriminate H].
    destruct (pf_recv f) as [|r0 rr]; [|discriminate H].
    destruct (make_infos (mp_slice m) (mp_rec m) f) as [rs|e|q] eqn:E1; cbn [obind] in H; try discriminate H.
    destruct (make_infos (mp_slice m) (mp_nonrec m) f) as [nrs|e|q] eqn:E2; cbn [obind] in H; try discriminate H.
    injection H as <-. cbn [d_index d_rec d_nonrec].
    unfold read_file in ERF. apply read_file_go_names in ERF; [|constructor].
    split; [reflexivity|]. split; eapply make_infos_names; eassumption.
  Qed.

  Lemma new_decoder_snd ix st : snd (new_decoder md5 ix st) = snd (io_read ix st).
  Proof. unfold new_decoder. destruct (io_read ix st) as [[b|e|q] s1]; reflexivity. Qed.

  Lemma load_all_names ix st ds st' : load_all md5 ix st = (Ok ds, st') -> Forall name_ok (d_rec (ds_dec ds)).
  Proof.
    intros H. destruct (load_all_inv md5 ix st ds st' H) as (d & st1 & w & fis & st2 & acc & Hnd & _ & _ & ->).
    cbn [ds_dec]. apply (new_decoder_names ix st d st1 Hnd).
  Qed.

  (** * the traces of the phases *)

  Lemma load_files_events d w t : forall todo fis st,
    Forall (fun ii : nat * dinfo => name_ok (snd ii)) todo ->
    exists tb, io_trace (snd (load_files md5 d w t todo fis st)) = io_trace st ++ tb /\
               Forall (data_read (d_index d)) tb.
  Proof.
    induction todo as [|[i info] r IH]; intros fis st Hn; cbn [load_files].
    - exists []. split; [symmetry; apply app_nil_r|constructor].
    - inversion Hn as [|? ? Hi Hr]; subst. cbn [snd] in Hi.
      destruct (io_read_trace (file_path (d_index d) (di_name info)) st) as [ok T].
      assert (Hev : Forall (data_read (d_index d)) [EvRead (file_path (d_index d) (di_name info)) ok]).
      { constructor; [|constructor]. exists (di_name info), ok. split; [reflexivity|exact Hi]. }
      assert (Hcont : forall fis1 st1, io_trace st1 = io_trace st ++ [EvRead (file_path (d_index d) (di_name info)) ok] ->
                exists tb, io_trace (snd (load_files md5 d w t r fis1 st1)) = io_trace st ++ tb /\
                           Forall (data_read (d_index d)) tb).
      { intros fis1 st1 T1. destruct (IH fis1 st1 Hr) as (tb & Tb & Fb).
        exists ([EvRead (file_path (d_index d) (di_name info)) ok] ++ tb).
        split; [rewrite Tb, T1, <- app_assoc; reflexivity|]. apply Forall_app. split; assumption. }
      destruct (io_read (file_path (d_index d) (di_name info)) st) as [[data|e|q] st1]; cbn [snd] in T.
      + apply Hcont. exact T.
      + destruct e; try (cbn [snd]; eexists; split; [exact T|exact Hev]).
        apply Hcont. exact T.
      + cbn [snd]. eexists; split; [exact T|exact Hev].
  Qed.

  Lemma load_parity_events d : forall paths acc st,
    exists tc, io_trace (snd (load_parity md5 d paths acc st)) = io_trace st ++ tc /\
               Forall (fun ev => exists p ok, ev = EvRead p ok /\ In p paths) tc.
  Proof.
    induction paths as [|p r IH]; intros acc st; cbn [load_parity].
    - exists []. split; [symmetry; apply app_nil_r|constructor].
    - destruct (io_read_trace p st) as [ok T].
      assert (Hev : Forall (fun ev => exists p0 ok0, ev = EvRead p0 ok0 /\ In p0 (p :: r)) [EvRead p ok]).
      { constructor; [|constructor]. exists p, ok. split; [reflexivity|left; reflexivity]. }
      assert (Hcont : forall acc1 st1, io_trace st1 = io_trace st ++ [EvRead p ok] ->
                exists tc, io_trace (snd (load_parity md5 d r acc1 st1)) = io_trace st ++ tc /\
                           Forall (fun ev => exists p0 ok0, ev = EvRead p0 ok0 /\ In p0 (p :: r)) tc).
      { intros acc1 st1 T1. destruct (IH acc1 st1) as (tc & Tc & Fc).
        exists ([EvRead p ok] ++ tc).
        split; [rewrite Tc, T1, <- app_assoc; reflexivity|]. apply Forall_app. split; [exact Hev|].
        apply Forall_forall. intros ev Hin. rewrite Forall_forall in Fc.
        destruct (Fc ev Hin) as (p0 & ok0 & E & Hp). exists p0, ok0. split; [exact E|right; exact Hp]. }
      destruct (io_read p st) as [[b|e|q] st1]; cbn [snd] in T.
      + destruct (read_file_vol md5 (d_setid d) b) as [| |sid f].
        * cbn [snd]. eexists; split; [exact T|exact Hev].
        * apply Hcont. exact T.
        * lazymatch goal with |- context [snd (if ?c then _ else _)] => destruct c end;
            [cbn [snd]; eexists; split; [exact T|exact Hev]|].
          lazymatch goal with |- context [snd (if ?c then _ else _)] => destruct c end;
            [cbn [snd]; eexists; split; [exact T|exact Hev]|].
          apply Hcont. exact T.
      + cbn [snd]. eexists; split; [exact T|exact Hev].
      + cbn [snd]. eexists; split; [exact T|exact Hev].
  Qed.

  (* TG0: the trace of the loading phase *)
  Theorem load_all_shape ix st :
    exists t, io_trace (snd (load_all md5 ix st)) = io_trace st ++ t /\ load_shape ix (io_fs st) t.
  Proof.
    unfold load_all.
    destruct (str_eqb (ext ix) EXT_PAR2) eqn:Eext; cbn [negb];
      [|exists []; split; [symmetry; apply app_nil_r|left; reflexivity]].
    apply str_eqb_eq in Eext.
    pose proof (new_decoder_snd ix st) as S1.
    destruct (io_read_trace ix st) as [ok0 T0].
    pose proof (io_read_pres ix st) as P0.
    pose proof (new_decoder_names ix st) as Hn.
    rewrite <- S1 in T0, P0.
    (* the runs that end before the listing *)
    assert (Stop : forall tb st', io_trace st' = (io_trace st ++ [EvRead ix ok0]) ++ tb -> Forall (data_read ix) tb ->
              exists t, io_trace st' = io_trace st ++ t /\ load_shape ix (io_fs st) t).
    { intros tb st' T Hb. exists (EvRead ix ok0 :: tb ++ []). split.
      - rewrite T, <- app_assoc, app_nil_r. reflexivity.
      - right. exists ok0, tb, []. split; [reflexivity|]. split; [exact Hb|left; reflexivity]. }
    destruct (new_decoder md5 ix st) as [[d|e|q] st1]; cbn [snd] in T0, P0;
      try (cbn [snd]; apply (Stop []); [rewrite app_nil_r; exact T0|constructor]).
    destruct (Hn d st1 eq_refl) as (Hix & Hnames & _).
    destruct (win_new (Z.of_N (d_slice d))) as [w|e|q];
      try (cbn [snd]; apply (Stop []); [rewrite app_nil_r; exact T0|constructor]).
    cbv zeta.
    assert (Htodo : Forall (fun ii : nat * dinfo => name_ok (snd ii)) (combine (seq 0 (length (d_rec d))) (d_rec d))).
    { apply Forall_combine_r. exact Hnames. }
    match goal with |- context [load_files md5 d w ?t ?todo ?fis st1] =>
      destruct (load_files_events d w t todo fis st1 Htodo) as (tb & T1 & B1);
      pose proof (load_files_pres md5 d w t todo fis st1) as P1;
      destruct (load_files md5 d w t todo fis st1) as [[fis'|e|q] st2] end;
      cbn [snd] in T1, P1; rewrite Hix in B1; rewrite T0 in T1;
      try (cbn [snd]; apply (Stop tb); [exact T1|exact B1]).
    assert (Hfs : io_fs st2 = io_fs st).
    { destruct P0 as (F0 & _). destruct P1 as (F1 & _). congruence. }
    rewrite Eext.
    destruct (io_list_trace (strip_ext ix ++ [DOT]) EXT_PAR2 st2) as [okl TL].
    pose proof (io_list_ok_in (strip_ext ix ++ [DOT]) EXT_PAR2 st2) as HL.
    (* the runs that reach the listing *)
    assert (Fin : forall tc st', io_trace st' = (io_trace st2 ++ [EvList (strip_ext ix ++ [DOT]) EXT_PAR2 okl]) ++ tc ->
              Forall (vol_read ix (io_fs st)) tc ->
              exists t, io_trace st' = io_trace st ++ t /\ load_shape ix (io_fs st) t).
    { intros tc st' T Hc.
      exists (EvRead ix ok0 :: tb ++ (EvList (strip_ext ix ++ [DOT]) EXT_PAR2 okl :: tc)). split.
      - rewrite T, T1, <- !app_assoc. reflexivity.
      - right. exists ok0, tb, (EvList (strip_ext ix ++ [DOT]) EXT_PAR2 okl :: tc).
        split; [reflexivity|]. split; [exact B1|]. right. exists okl, tc. split; [reflexivity|exact Hc]. }
    destruct (io_list (strip_ext ix ++ [DOT]) EXT_PAR2 st2) as [[paths|e|q] st3]; cbn [snd] in TL;
      try (cbn [snd]; apply (Fin []); [rewrite app_nil_r; exact TL|constructor]).
    destruct (load_parity_events d paths [] st3) as (tc & T3 & C3).
    assert (Hc : Forall (vol_read ix (io_fs st)) tc).
    { apply Forall_forall. intros ev Hin. rewrite Forall_forall in C3.
      destruct (C3 ev Hin) as (p & ok & E & Hp). exists p, ok. split; [exact E|].
      destruct (HL paths st3 p eq_refl Hp) as [Hk Hmid]. rewrite Hfs in Hk. split; [exact Hk|exact Hmid]. }
    rewrite TL in T3.
    destruct (load_parity md5 d paths [] st3) as [[acc|e|q] st4]; cbn [snd] in T3 |- *; apply (Fin tc); assumption.
  Qed.

  Theorem load_trace_shape : forall ix fs sched,
    load_shape ix fs (io_trace (snd (load_all md5 ix (io_init fs sched)))).
  Proof.
    intros ix fs sched. destruct (load_all_shape ix (io_init fs sched)) as (t & T & H).
    cbn [io_init io_trace io_fs app] in T, H. rewrite T. exact H.
  Qed.

  Lemma verify_snd ix st : snd (par2_verify md5 ix st) = snd (load_all md5 ix st).
  Proof. unfold par2_verify. destruct (load_all md5 ix st) as [[ds|e|q] st1]; reflexivity. Qed.

  Theorem verify_trace_shape : forall ix fs sched,
    load_shape ix fs (io_trace (snd (par2_verify md5 ix (io_init fs sched)))).
  Proof. intros ix fs sched. rewrite verify_snd. apply load_trace_shape. Qed.

  (** * the write-out phase *)

  Lemma write_repaired_events ix : forall todo done st,
    Forall (fun t : bool * (dinfo * list bytes) => name_ok (fst (snd t))) todo ->
    exists tw, io_trace (snd (write_repaired md5 ix todo done st)) = io_trace st ++ tw /\
               Forall (data_write ix) tw.
  Proof.
    induction todo as [|[b [info shards]] todo IH]; intros done st Hn; cbn [write_repaired].
    - exists []. split; [symmetry; apply app_nil_r|constructor].
    - inversion Hn as [|? ? Hi Hr]; subst. cbn [fst snd] in Hi.
      destruct b; [apply IH; exact Hr|].
      assert (Stop : exists tw, io_trace st = io_trace st ++ tw /\ Forall (data_write ix) tw).
      { exists []. split; [symmetry; apply app_nil_r|constructor]. }
      lazymatch goal with |- context [snd (if ?c then _ else _)] => destruct c end; [cbn [snd]; exact Stop|].
      lazymatch goal with |- context [snd (if ?c then _ else _)] => destruct c end; [cbn [snd]; exact Stop|].
      lazymatch goal with |- context [snd (if ?c then _ else _)] => destruct c end; [cbn [snd]; exact Stop|].
      clear Stop.
      lazymatch goal with |- context [io_write ?p ?d st] =>
        set (pp := p) in *; set (dd := d) in *;
        destruct (io_write_trace' pp dd st) as [ok T];
        assert (Hev : Forall (data_write ix) [EvWrite pp dd ok])
          by (constructor; [exists (di_name info), dd, ok; split; [reflexivity|exact Hi]|constructor]);
        destruct (io_write pp dd st) as [[u|e|q] st1] end; cbn [snd] in T.
      + destruct (IH (done ++ [pp]) st1 Hr) as (tw & Tw & Fw).
        exists ([EvWrite pp dd ok] ++ tw). split; [rewrite Tw, T, <- app_assoc; reflexivity|].
        apply Forall_app. split; assumption.
      + cbn [snd]. eexists; split; [exact T|exact Hev].
      + cbn [snd]. eexists; split; [exact T|exact Hev].
  Qed.

  (* TG0 for Repair: the loading trace followed by writes to Join(Dir(index), accepted name) *)
  Theorem repair_shape ix dbl st :
    exists t tw, io_trace (snd (par2_repair md5 ix dbl st)) = io_trace st ++ t ++ tw /\
                 load_shape ix (io_fs st) t /\ Forall (data_write ix) tw.
  Proof.
    unfold par2_repair.
    destruct (load_all_shape ix st) as (t & T & Hs).
    pose proof (load_all_names ix st) as Hn.
    assert (Stop : exists t0 tw, io_trace (snd (load_all md5 ix st)) = io_trace st ++ t0 ++ tw /\
                     load_shape ix (io_fs st) t0 /\ Forall (data_write ix) tw).
    { exists t, []. split; [rewrite app_nil_r; exact T|]. split; [exact Hs|constructor]. }
    destruct (load_all md5 ix st) as [[ds|e|q] st1]; cbn [snd] in T, Stop; try (cbn [snd]; exact Stop).
    specialize (Hn ds st1 eq_refl).
    destruct (ds_fis ds) as [|fi0 fis0]; [cbn [snd]; exact Stop|].
    destruct (repair_core ds dbl) as [data|e|q]; try (cbn [snd]; exact Stop).
    clear Stop.
    lazymatch goal with |- context [write_repaired md5 ix ?todo [] st1] =>
      assert (Htodo : Forall (fun t : bool * (dinfo * list bytes) => name_ok (fst (snd t))) todo) end.
    { apply Forall_forall. intros [b [info sh]] Hin. cbn [fst snd].
      apply in_combine_r in Hin. apply in_combine_l in Hin.
      rewrite Forall_forall in Hn. apply Hn. exact Hin. }
    lazymatch goal with |- context [write_repaired md5 ix ?todo [] st1] =>
      destruct (write_repaired_events ix todo [] st1 Htodo) as (tw & Tw & Fw) end.
    exists t, tw. split; [rewrite Tw, T, <- app_assoc; reflexivity|]. split; assumption.
  Qed.

  Theorem repair_trace_shape : forall ix dbl fs sched,
    exists t tw, io_trace (snd (par2_repair md5 ix dbl (io_init fs sched))) = t ++ tw /\
                 load_shape ix fs t /\ Forall (data_write ix) tw.
  Proof.
    intros ix dbl fs sched. destruct (repair_shape ix dbl (io_init fs sched)) as (t & tw & T & H1 & H2).
    cbn [io_init io_trace io_fs app] in T, H1. exists t, tw. split; [exact T|]. split; assumption.
  Qed.

  (** * TG1: the write targets of Repair *)
  Theorem repair_write_targets : forall ix dbl fs sched p d ok,
    In (EvWrite p d ok) (io_trace (snd (par2_repair md5 ix dbl (io_init fs sched)))) ->
    exists name, p = file_path ix name /\ check_filename name = Ok tt.
  Proof.
    intros ix dbl fs sched p d ok Hin.
    destruct (repair_trace_shape ix dbl fs sched) as (t & tw & T & H1 & H2). rewrite T in Hin.
    apply in_app_or in Hin. destruct Hin as [Hin|Hin].
    - exfalso. exact (load_shape_no_write ix fs t p d ok H1 Hin).
    - rewrite Forall_forall in H2. destruct (H2 _ Hin) as (name & d1 & ok1 & E & Hc).
      injection E as -> _ _. exists name. split; [reflexivity|exact Hc].
  Qed.

  (** * TG2: the read targets and the listing of Repair and Verify *)
  Theorem repair_read_targets : forall ix dbl fs sched p ok,
    In (EvRead p ok) (io_trace (snd (par2_repair md5 ix dbl (io_init fs sched)))) ->
    p = ix \/
    (exists name, p = file_path ix name /\ check_filename name = Ok tt) \/
    (In p (map fst fs) /\ exists mid, p = (strip_ext ix ++ [DOT]) ++ mid ++ EXT_PAR2).
  Proof.
    intros ix dbl fs sched p ok Hin.
    destruct (repair_trace_shape ix dbl fs sched) as (t & tw & T & H1 & H2). rewrite T in Hin.
    apply in_app_or in Hin. destruct Hin as [Hin|Hin].
    - exact (load_shape_read ix fs t p ok H1 Hin).
    - rewrite Forall_forall in H2. destruct (H2 _ Hin) as (name & d1 & ok1 & E & _). discriminate E.
  Qed.

  Theorem repair_list_events : forall ix dbl fs sched pre suf ok,
    In (EvList pre suf ok) (io_trace (snd (par2_repair md5 ix dbl (io_init fs sched)))) ->
    pre = strip_ext ix ++ [DOT] /\ suf = EXT_PAR2 /\ ext ix = EXT_PAR2.
  Proof.
    intros ix dbl fs sched pre suf ok Hin.
    assert (Hext : ext ix = EXT_PAR2).
    { destruct (str_eqb (ext ix) EXT_PAR2) eqn:E; [apply str_eqb_eq; exact E|exfalso].
      unfold par2_repair, load_all in Hin. rewrite E in Hin. cbn in Hin. exact Hin. }
    destruct (repair_trace_shape ix dbl fs sched) as (t & tw & T & H1 & H2). rewrite T in Hin.
    apply in_app_or in Hin. destruct Hin as [Hin|Hin].
    - destruct (load_shape_list ix fs t pre suf ok H1 Hin) as [E1 E2]. repeat split; assumption.
    - rewrite Forall_forall in H2. destruct (H2 _ Hin) as (name & d1 & ok1 & E & _). discriminate E.
  Qed.

  Theorem repair_lists_once : forall ix dbl fs sched,
    (length (filter (fun ev => match ev with EvList _ _ _ => true | _ => false end)
                    (io_trace (snd (par2_repair md5 ix dbl (io_init fs sched))))) <= 1)%nat.
  Proof.
    intros ix dbl fs sched.
    destruct (repair_trace_shape ix dbl fs sched) as (t & tw & T & H1 & H2). rewrite T, filter_app, app_length.
    pose proof (load_shape_one_list ix fs t H1) as L1.
    assert (Hz : filter (fun ev => match ev with EvList _ _ _ => true | _ => false end) tw = []).
    { clear T. induction tw as [|ev tw IH]; [reflexivity|].
      inversion H2 as [|? ? Hev Hl]; subst. destruct Hev as (name & d & ok & -> & _). cbn [filter]. apply IH. exact Hl. }
    rewrite Hz. cbn [length]. lia.
  Qed.

  Theorem verify_read_targets : forall ix fs sched p ok,
    In (EvRead p ok) (io_trace (snd (par2_verify md5 ix (io_init fs sched)))) ->
    p = ix \/
    (exists name, p = file_path ix name /\ check_filename name = Ok tt) \/
    (In p (map fst fs) /\ exists mid, p = (strip_ext ix ++ [DOT]) ++ mid ++ EXT_PAR2).
  Proof.
    intros ix fs sched p ok Hin.
    exact (load_shape_read ix fs _ p ok (verify_trace_shape ix fs sched) Hin).
  Qed.

  Theorem verify_list_events : forall ix fs sched pre suf ok,
    In (EvList pre suf ok) (io_trace (snd (par2_verify md5 ix (io_init fs sched)))) ->
    pre = strip_ext ix ++ [DOT] /\ suf = EXT_PAR2 /\ ext ix = EXT_PAR2.
  Proof.
    intros ix fs sched pre suf ok Hin.
    assert (Hext : ext ix = EXT_PAR2).
    { destruct (str_eqb (ext ix) EXT_PAR2) eqn:E; [apply str_eqb_eq; exact E|exfalso].
      unfold par2_verify, load_all in Hin. rewrite E in Hin. cbn in Hin. exact Hin. }
    destruct (load_shape_list ix fs _ pre suf ok (verify_trace_shape ix fs sched) Hin) as [E1 E2].
    repeat split; assumption.
  Qed.

  Theorem verify_lists_once : forall ix fs sched,
    (length (filter (fun ev => match ev with EvList _ _ _ => true | _ => false end)
                    (io_trace (snd (par2_verify md5 ix (io_init fs sched))))) <= 1)%nat.
  Proof. intros ix fs sched. exact (load_shape_one_list ix fs _ (verify_trace_shape ix fs sched)). Qed.

  (* Verify has no write event (restated from Par2Facts.verify_no_write) *)
  Theorem verify_no_write_events : forall ix fs sched p d ok,
    ~ In (EvWrite p d ok) (io_trace (snd (par2_verify md5 ix (io_init fs sched)))).
  Proof.
    intros ix fs sched p d ok Hin.
    pose proof (verify_no_write md5 ix fs sched) as H. rewrite Forall_forall in H. exact (H _ Hin).
  Qed.

  (** * TG3: strictly below the directory of the index file *)

  Lemma dir_nonempty ix : dir ix <> [].
  Proof. unfold dir. apply Par2Verify.clean_nonempty. Qed.

  (* Join(Dir(index), accepted name): the components of Dir(index), untouched, plus a non-empty list of ordinary
     components (no "..", no ".", none empty) *)
  Lemma file_path_below ix name : check_filename name = Ok tt ->
    exists st, st <> [] /\ no_dotdot st = true /\ forallb comp_ok st = true /\
      file_path ix name = render (is_abs (dir ix)) (st ++ clean_stack (is_abs (dir ix)) [] (split_slash (dir ix))).
  Proof. intros H. unfold file_path. apply join_accepted; [apply dir_nonempty|exact H]. Qed.

  Theorem repair_writes_below_index_dir : forall ix dbl fs sched p d ok,
    In (EvWrite p d ok) (io_trace (snd (par2_repair md5 ix dbl (io_init fs sched)))) ->
    exists st, st <> [] /\ no_dotdot st = true /\ forallb comp_ok st = true /\
      p = render (is_abs (dir ix)) (st ++ clean_stack (is_abs (dir ix)) [] (split_slash (dir ix))).
  Proof.
    intros ix dbl fs sched p d ok Hin.
    destruct (repair_write_targets ix dbl fs sched p d ok Hin) as (name & -> & Hc).
    apply file_path_below. exact Hc.
  Qed.

  (* an index path without a directory part: Dir is ".", which contributes no component - the written path is
     the relative path made of the ordinary components alone *)
  Lemma dir_no_slash ix : ~ In SLASH ix -> dir ix = [DOT].
  Proof.
    intros H. unfold dir.
    assert (E : dir_prefix_len ix = 0%nat).
    { induction ix as [|c r IH]; [reflexivity|]. cbn [dir_prefix_len].
      rewrite IH by (intros Hin; apply H; right; exact Hin). cbn [Nat.eqb].
      destruct (N.eqb_spec c SLASH) as [->|_]; [exfalso; apply H; left; reflexivity|reflexivity]. }
    rewrite E. reflexivity.
  Qed.

  Theorem repair_writes_below_cwd : forall ix dbl fs sched p d ok,
    dir ix = [DOT] ->
    In (EvWrite p d ok) (io_trace (snd (par2_repair md5 ix dbl (io_init fs sched)))) ->
    exists st, st <> [] /\ no_dotdot st = true /\ forallb comp_ok st = true /\ p = join_slash (rev st).
  Proof.
    intros ix dbl fs sched p d ok Hd Hin.
    destruct (repair_writes_below_index_dir ix dbl fs sched p d ok Hin) as (st & Hne & Hnd & Hco & ->).
    exists st. repeat split; try assumption.
    rewrite Hd. cbn [is_abs N.eqb DOT SLASH]. change (clean_stack false [] (split_slash [46])) with (@nil (list N)).
    rewrite app_nil_r. destruct st as [|c st']; [congruence|]. reflexivity.
  Qed.

  (* the data-file reads of Repair and Verify lie below the index directory in the same way *)
  Theorem data_reads_below_index_dir : forall ix name,
    check_filename name = Ok tt ->
    exists st, st <> [] /\ no_dotdot st = true /\ forallb comp_ok st = true /\
      file_path ix name = render (is_abs (dir ix)) (st ++ clean_stack (is_abs (dir ix)) [] (split_slash (dir ix))).
  Proof. intros ix name. apply file_path_below. Qed.

End Par2Targets.

(** * the listed paths: direct children of the index file's directory when the middle part has no separator *)

Lemma dpl_noslash' l : noslash l -> dir_prefix_len l = 0%nat.
Proof.
  induction l as [|c r IH]; intros H; [reflexivity|]. inversion H as [|? ? Hc Hr]; subst.
  cbn [dir_prefix_len]. rewrite (IH Hr). cbn [Nat.eqb].
  destruct (N.eqb_spec c SLASH) as [E|_]; [congruence|reflexivity].
Qed.

Lemma dpl_slash d l : noslash l -> dir_prefix_len (d ++ SLASH :: l) = S (length d).
Proof.
  intros Hl. induction d as [|c d IH].
  - cbn [app dir_prefix_len length]. rewrite (dpl_noslash' l Hl). reflexivity.
  - cbn [app dir_prefix_len length]. rewrite IH. reflexivity.
Qed.

(* Dir(<directory prefix> ++ <separator-free rest>) depends on the prefix alone *)
Lemma dir_dirpre pre l : dirpre pre -> noslash l -> dir (pre ++ l) = clean pre.
Proof.
  intros [->|(d & ->)] Hl; unfold dir.
  - cbn [app]. rewrite (dpl_noslash' l Hl). reflexivity.
  - rewrite <- app_assoc. cbn [app]. rewrite (dpl_slash d l Hl).
    replace (S (length d)) with (length (d ++ [SLASH]) + 0)%nat by (rewrite app_length; cbn [length]; lia).
    change (d ++ SLASH :: l) with (d ++ [SLASH] ++ l). rewrite app_assoc, firstn_app_2. cbn [firstn].
    rewrite app_nil_r. reflexivity.
Qed.

(* a listed path whose middle part contains no separator (the only kind a directory read returns: the Go
   implementation matches the NAMES of the entries of Dir(prefix)) has the same Dir as the index file *)
Theorem listed_same_dir : forall ix mid,
  ext ix = EXT_PAR2 -> noslash mid -> dir ((strip_ext ix ++ [DOT]) ++ mid ++ EXT_PAR2) = dir ix.
Proof.
  intros ix mid He Hm. destruct (ext_par2_decomp ix He) as (pre & c & Hp & Hc & Hix & Hs).
  rewrite Hs. rewrite Hix at 1.
  rewrite <- !app_assoc. rewrite !(dir_dirpre pre) by
    (try exact Hp; repeat apply noslash_app; try assumption; try exact noslash_par2; repeat constructor; discriminate).
  reflexivity.
Qed.

(** * instances *)
From Coq Require Import String.
Open Scope nat_scope.

Module TGExample.
  Import RCExample.

  (* the set of RCExample (index /w/o.par2, files a and b, two recovery slices) with the file a deleted: the whole
     trace of Repair - index, the two data files (a is missing), the listing, the two volumes, and ONE write *)
  Example tg_repair_trace :
    io_trace (snd (par2_repair toy_md5 ix true (io_init fs2 []))) =
    [ EvRead (bs "/w/o.par2") true;
      EvRead (bs "/w/b") true;
      EvRead (bs "/w/a") false;
      EvList (bs "/w/o.") (bs ".par2") true;
      EvRead (bs "/w/o.vol00+01.par2") true;
      EvRead (bs "/w/o.vol01+01.par2") true;
      EvWrite (bs "/w/a") [1; 2; 3; 4; 5]%N true ] /\
    file_path ix (bs "a") = bs "/w/a" /\ check_filename (bs "a") = Ok tt /\
    dir ix = bs "/w" /\ strip_ext ix ++ [DOT] = bs "/w/o.".
  Proof. vm_compute. repeat split; reflexivity. Qed.

  (* the same set addressed by an index path without a directory part: Dir is ".", every path is relative, and the
     write goes to the bare name *)
  Definition fs_rel : list (list N * bytes) := map (fun e : list N * bytes => (skipn 3 (fst e), snd e)) fs2.
  Example tg_repair_trace_rel :
    dir (bs "o.par2") = [DOT] /\
    io_trace (snd (par2_repair toy_md5 (bs "o.par2") true (io_init fs_rel []))) =
    [ EvRead (bs "o.par2") true;
      EvRead (bs "b") true;
      EvRead (bs "a") false;
      EvList (bs "o.") (bs ".par2") true;
      EvRead (bs "o.vol00+01.par2") true;
      EvRead (bs "o.vol01+01.par2") true;
      EvWrite (bs "a") [1; 2; 3; 4; 5]%N true ].
  Proof. vm_compute. split; reflexivity. Qed.

  (* the listing returns entries of the index file's OWN directory: a key with a separator after the prefix - a file
     in a subdirectory whose name starts with "<index base>." - is neither listed nor read (the run makes the same
     calls as without it); a file of that directory with an odd name is listed and read *)
  Definition fs_sub : list (list N * bytes) := fs2 ++ [(bs "/w/o.d/x.par2", [])].
  Definition fs_odd : list (list N * bytes) := fs2 ++ [(bs "/w/o.d;x.par2", [])].
  Example tg_listing_subdirectory :
    io_trace (snd (par2_verify toy_md5 ix (io_init fs_sub []))) = io_trace (snd (par2_verify toy_md5 ix (io_init fs2 []))) /\
    fst (io_list (bs "/w/o.") (bs ".par2") (io_init fs_sub [])) = Ok [bs "/w/o.vol00+01.par2"; bs "/w/o.vol01+01.par2"] /\
    dir (bs "/w/o.d/x.par2") = bs "/w/o.d" /\ dir ix = bs "/w" /\
    In (EvRead (bs "/w/o.d;x.par2") true) (io_trace (snd (par2_verify toy_md5 ix (io_init fs_odd [])))) /\
    dir (bs "/w/o.d;x.par2") = bs "/w".
  Proof. vm_compute. repeat split; try reflexivity. right. right. right. right. left. reflexivity. Qed.

  (* a file description whose name climbs out is not loaded at all: checkFilename rejects it *)
  Example tg_rejected_names :
    check_filename (bs "../x") = Err EMalformed /\ check_filename (bs "/etc/x") = Err EMalformed /\
    check_filename (bs "s/../../x") = Err EMalformed /\ check_filename (bs "s/../x") = Ok tt /\
    file_path ix (bs "s/../x") = bs "/w/x".
  Proof. vm_compute. repeat split; reflexivity. Qed.
End TGExample.

Print Assumptions io_list_members.
Print Assumptions load_trace_shape.
Print Assumptions repair_trace_shape.
Print Assumptions repair_write_targets.
Print Assumptions repair_read_targets.
Print Assumptions repair_list_events.
Print Assumptions repair_lists_once.
Print Assumptions verify_read_targets.
Print Assumptions verify_list_events.
Print Assumptions verify_lists_once.
Print Assumptions verify_no_write_events.
Print Assumptions repair_writes_below_index_dir.
Print Assumptions repair_writes_below_cwd.
Print Assumptions listed_same_dir.
