(* C07: soundness of ReconstructData — a nil error means the restored shards are
   the originals — for ANY parity matrix (Cauchy and PAR2-Vandermonde alike). *)
From Coq Require Import Lia.
From Gopar Require Import Model.Base Model.GF16 Model.Matrix Model.RS16
     Proofs.GF16Facts Proofs.GF16Tables Proofs.LinAlg Proofs.Matrix16.
Open Scope N_scope.
Set Default Timeout 120.

Notation lincomb16 := (lincomb fmul).

(** ** instantiated linear-algebra facts *)
Lemma lincomb_wf16 c k r X : wfv16 k r -> wfm16 k c X -> wfv16 c (lincomb16 c r X).
Proof. intros. eapply (lincomb_wf 65536 fmul); try field16; eassumption. Qed.
Lemma mmul_wf16 r k c M X : wfm16 r k M -> wfm16 k c X -> wfm16 r c (mmul16 c M X).
Proof. intros. eapply (mmul_wf 65536 fmul); try field16; eassumption. Qed.
Lemma lincomb_app16 c a X b Y k2 : length a = length X -> wfv16 k2 b -> wfm16 k2 c Y ->
  lincomb16 c (a ++ b) (X ++ Y) = xorl (lincomb16 c a X) (lincomb16 c b Y).
Proof. intros. eapply (lincomb_app 65536 fmul); try field16; eassumption. Qed.
Lemma lincomb_split16 {A} c k (mask : list (option A)) r D : length mask = k -> wfv16 k r -> wfm16 k c D ->
  lincomb16 c r D = xorl (lincomb16 c (pick_some mask r) (pick_some mask D))
                         (lincomb16 c (pick_none mask r) (pick_none mask D)).
Proof. intros. eapply (lincomb_split 65536 fmul); try field16; eassumption. Qed.
Lemma lincomb_delta16 c i k X : wfm16 k c X -> (i < k)%nat ->
  lincomb16 c (unit_row k i) X = nth i X [].
Proof.
  intros HX Hi. unfold unit_row.
  rewrite (lincomb_delta 65536 fmul) with (k := k) (s := 0%nat); try field16; try assumption; try lia.
  rewrite Nat.sub_0_r. reflexivity.
Qed.
Lemma mmul_nth16 c M X i : (i < length M)%nat -> nth i (mmul16 c M X) [] = lincomb16 c (nth i M []) X.
Proof. intros. apply (mmul_nth fmul). assumption. Qed.

Lemma wfm_nth16 r c m i : wfm16 r c m -> (i < r)%nat -> wfv16 c (nth i m []).
Proof. intros. eapply (wfm_nth 65536); try field16; eassumption. Qed.
Lemma pick_some_wfv16 {A} k (mask : list (option A)) v : length mask = k -> wfv16 k v ->
  wfv16 (length (somes mask)) (pick_some mask v).
Proof. intros. eapply (pick_some_wfv 65536); try field16; eassumption. Qed.
Lemma pick_none_wfv16 {A} k (mask : list (option A)) v : length mask = k -> wfv16 k v ->
  wfv16 (count_none mask) (pick_none mask v).
Proof. intros. eapply (pick_none_wfv 65536); try field16; eassumption. Qed.
Lemma pick_some_wfm16 {A} k c (mask : list (option A)) D : length mask = k -> wfm16 k c D ->
  wfm16 (length (somes mask)) c (pick_some mask D).
Proof. intros. eapply (pick_some_wfm 65536); try field16; eassumption. Qed.
Lemma pick_none_wfm16 {A} k c (mask : list (option A)) D : length mask = k -> wfm16 k c D ->
  wfm16 (count_none mask) c (pick_none mask D).
Proof. intros. eapply (pick_none_wfm 65536); try field16; eassumption. Qed.

(** ** erase / pick / fill *)
Section Lists.
  Context {A : Type}.

  Lemma erase_length (keep : list bool) (l : list A) : length keep = length l -> length (erase keep l) = length l.
  Proof. intros H. unfold erase. rewrite map_length, combine_length. lia. Qed.

  Lemma erase_cons b x (keep : list bool) (l : list A) :
    erase (b :: keep) (x :: l) = (if b then Some x else None) :: erase keep l.
  Proof. reflexivity. Qed.

  Lemma somes_erase : forall (keep : list bool) (l : list A), length keep = length l ->
    somes (erase keep l) = pick_some (erase keep l) l.
  Proof.
    induction keep as [|b keep IH]; intros [|x l] H; try discriminate; [reflexivity|].
    rewrite erase_cons. destruct b; cbn; [f_equal|]; apply IH; cbn in H; lia.
  Qed.
  Lemma fill_erase : forall (keep : list bool) (l : list A), length keep = length l ->
    fill (erase keep l) (pick_none (erase keep l) l) = l.
  Proof.
    induction keep as [|b keep IH]; intros [|x l] H; try discriminate; [reflexivity|].
    rewrite erase_cons. destruct b; cbn; f_equal; apply IH; cbn in H; lia.
  Qed.
  Lemma somes_all : forall (keep : list bool) (l : list A), length keep = length l ->
    count_none (erase keep l) = 0%nat -> somes (erase keep l) = l.
  Proof.
    induction keep as [|b keep IH]; intros [|x l] H Hc; try discriminate; [reflexivity|].
    rewrite erase_cons in *. destruct b; cbn in *; [|discriminate]. f_equal. apply IH; lia.
  Qed.
  Lemma somes_count : forall (m : list (option A)), (length (somes m) + count_none m = length m)%nat.
  Proof. induction m as [|[x|] m IH]; cbn; lia. Qed.

  Lemma used_parity_spec (d0 : A) : forall (keep : list bool) (l : list A) need i k s,
    length keep = length l -> In (k, s) (used_parity need i (erase keep l)) ->
    (i <= k < i + length l)%nat /\ s = nth (k - i) l d0.
  Proof.
    induction keep as [|b keep IH]; intros [|x l] need i k s H Hin; try discriminate.
    - destruct need; destruct Hin.
    - rewrite erase_cons in Hin. destruct need as [|need]; [destruct Hin|].
      destruct b; cbn [used_parity] in Hin.
      + destruct Hin as [E|Hin].
        * inversion E; subst. rewrite Nat.sub_diag. cbn. split; [lia|reflexivity].
        * destruct (IH l need (S i) k s ltac:(cbn in H; lia) Hin) as [R1 R2]. split; [cbn; lia|].
          replace (k - i)%nat with (S (k - S i)) by lia. exact R2.
      + destruct (IH l (S need) (S i) k s ltac:(cbn in H; lia) Hin) as [R1 R2]. split; [cbn; lia|].
        replace (k - i)%nat with (S (k - S i)) by lia. exact R2.
  Qed.
  Lemma used_parity_length : forall (p : list (option A)) need i, (length (used_parity need i p) <= need)%nat.
  Proof.
    induction p as [|[x|] p IH]; intros [|need] i; cbn; try lia.
    - specialize (IH need (S i)). lia.
    - apply IH.
  Qed.
End Lists.

Lemma nth_map' {A B} (f : A -> B) l t d d' : (t < length l)%nat -> nth t (map f l) d = f (nth t l d').
Proof. intros H. rewrite (nth_indep _ d (f d')) by (rewrite map_length; exact H). apply map_nth. Qed.

Lemma wfm_hd k c X : wfm16 (S k) c X -> length (hd [] X) = c.
Proof. intros [Hl Hf]. destruct X as [|x X]; [discriminate|]. inversion Hf; subst. cbn. apply H1. Qed.

Lemma wfm_app r1 r2 c X Y : wfm16 r1 c X -> wfm16 r2 c Y -> wfm16 (r1 + r2) c (X ++ Y).
Proof.
  intros [L1 F1] [L2 F2]. split; [rewrite app_length; lia|]. apply Forall_app. split; assumption.
Qed.

Lemma unit_row_wf q i : wfv16 q (unit_row q i).
Proof.
  unfold unit_row. split; [rewrite map_length, seq_length; reflexivity|].
  apply Forall_forall. intros x Hx. apply in_map_iff in Hx. destruct Hx as [j [<- _]].
  unfold wfe. destruct (Nat.eqb i j); lia.
Qed.

Lemma wfv_app a b u v : wfv16 a u -> wfv16 b v -> wfv16 (a + b) (u ++ v).
Proof. intros [L1 F1] [L2 F2]. split; [rewrite app_length; lia|]. apply Forall_app. split; assumption. Qed.

Lemma xorl_cancel_l X Y : length X = length Y -> xorl X (xorl X Y) = Y.
Proof.
  intros H. rewrite <- (vadd_assoc X X Y), vadd_self, H. apply vadd_zeros_l.
Qed.

(** ** soundness *)

Theorem reconstruct_spec c D kd kp L :
  (0 < c_data c)%nat ->
  wfm16 (c_parity c) (c_data c) (c_pm c) ->
  wfm16 (c_data c) L D ->
  length kd = c_data c -> length kp = c_parity c ->
  match reconstruct c (erase kd D) (erase kp (gen_parity c D)) with
  | Ok r => r = D
  | Err e => e = ENotEnoughParity \/ e = ESingular
  | Panic _ => False
  end.
Proof.
  intros Hd0 Hpm HD Hkd Hkp.
  set (d := c_data c) in *. set (p := c_parity c) in *. set (pm := c_pm c) in *.
  pose proof HD as [HDl _].
  assert (HL : shard_len D = L).
  { unfold shard_len. destruct d as [|d']; [lia|]. apply (wfm_hd d'). exact HD. }
  unfold gen_parity, apply_matrix. rewrite HL. fold pm.
  set (Par := mmul16 L pm D).
  assert (HPar : wfm16 p L Par) by (apply (mmul_wf16 p d); assumption).
  pose proof HPar as [HParl _].
  set (mask := erase kd D). set (pmask := erase kp Par).
  assert (Hmaskl : length mask = d) by (unfold mask; rewrite erase_length; lia).
  unfold reconstruct. fold mask pmask d pm.
  destruct (Nat.eqb_spec (count_none mask) 0) as [Z|NZ].
  { apply somes_all; [lia|exact Z]. }
  set (q0 := count_none mask).
  set (used := used_parity q0 0 pmask).
  pose proof (somes_count mask) as Hcnt. fold q0 in Hcnt.
  pose proof (used_parity_length pmask q0 0) as Hul. fold used in Hul.
  destruct (Nat.ltb_spec (length (somes mask) + length used) d) as [Lt|Ge]; [left; reflexivity|].
  assert (Hq : length used = q0) by lia.
  set (q := length used) in *.
  set (A := somes mask).
  assert (HA : A = pick_some mask D) by (apply somes_erase; lia).
  set (a := length A) in *.
  (* facts about the used parity rows *)
  assert (Hused : forall t, (t < q)%nat ->
            let ks := nth t used (0%nat, []) in
            (fst ks < p)%nat /\ snd ks = lincomb16 L (nth (fst ks) pm []) D).
  { intros t Ht ks. assert (Hin : In ks used) by (apply nth_In; exact Ht).
    destruct ks as [k s]. unfold used, pmask in Hin.
    destruct (used_parity_spec [] kp Par q0 0 k s ltac:(lia) Hin) as [R1 R2].
    cbn [fst snd]. split; [lia|]. rewrite R2, Nat.sub_0_r.
    unfold Par. apply mmul_nth16. destruct Hpm as [Hpl _]. fold pm in Hpl. lia. }
  assert (Hrow : forall k, (k < p)%nat -> wfv16 d (nth k pm [])).
  { intros k Hk. apply (wfm_nth16 p d); assumption. }
  set (m := map (fun ks : nat * shard => pick_none mask (nth (fst ks) pm [])) used).
  set (n := map (fun iks : nat * (nat * shard) =>
                   pick_some mask (nth (fst (snd iks)) pm []) ++ unit_row q (fst iks))
                (combine (seq 0 q) used)).
  assert (Hm : wfm16 q q m).
  { split; [unfold m; rewrite map_length; reflexivity|]. apply Forall_forall. intros v Hv.
    unfold m in Hv. apply in_map_iff in Hv. destruct Hv as [ks [<- Hks]].
    destruct (In_nth _ _ (0%nat, []) Hks) as [t [Ht Et]]. destruct (Hused t Ht) as [U1 _]. rewrite Et in U1.
    rewrite Hq. apply (pick_none_wfv16 d); [exact Hmaskl|apply Hrow; exact U1]. }
  assert (Hn : wfm16 q d n).
  { split; [unfold n; rewrite map_length, combine_length, seq_length; lia|]. apply Forall_forall. intros v Hv.
    unfold n in Hv. apply in_map_iff in Hv. destruct Hv as [[i ks] [<- Hiks]].
    apply in_combine_r in Hiks.
    destruct (In_nth _ _ (0%nat, []) Hiks) as [t [Ht Et]]. destruct (Hused t Ht) as [U1 _]. rewrite Et in U1.
    cbn [fst snd]. replace d with (a + q)%nat by (unfold a, A; lia).
    apply wfv_app; [|apply unit_row_wf].
    apply (pick_some_wfv16 d); [exact Hmaskl|apply Hrow; exact U1]. }
  pose proof (RowReduce16_spec q d m n Hm Hn) as RR.
  destruct (RowReduce16 m n) as [R|e|pp] eqn:ERR; cbn [obind]; [|right; exact RR|exact RR].
  destruct RR as (HR & HmR & _).
  set (Pu := map (fun ks : nat * shard => snd ks) used).
  set (input := A ++ Pu).
  assert (HAw : wfm16 a L A).
  { rewrite HA. unfold a. rewrite HA. fold mask.
    replace (length (pick_some mask D)) with (length (somes mask)) by (fold A; rewrite HA; reflexivity).
    apply (pick_some_wfm16 d); assumption. }
  assert (HPu : wfm16 q L Pu).
  { split; [unfold Pu; rewrite map_length; reflexivity|]. apply Forall_forall. intros v Hv.
    unfold Pu in Hv. apply in_map_iff in Hv. destruct Hv as [ks [<- Hks]].
    destruct (In_nth _ _ (0%nat, []) Hks) as [t [Ht Et]]. destruct (Hused t Ht) as [U1 U2]. rewrite Et in U1, U2.
    rewrite U2. apply (lincomb_wf16 L d); [apply Hrow; exact U1|exact HD]. }
  assert (Hin : wfm16 d L input).
  { replace d with (a + q)%nat by (unfold a, A; lia). apply wfm_app; assumption. }
  assert (HLi : shard_len input = L).
  { unfold shard_len. destruct d as [|d']; [lia|]. apply (wfm_hd d'). exact Hin. }
  rewrite HLi.
  set (Mi := pick_none mask D).
  assert (HMi : wfm16 q L Mi).
  { rewrite Hq. apply (pick_none_wfm16 d); assumption. }
  assert (Key : mmul16 L R input = Mi).
  { apply (ok_injective16 q d L m n R); try assumption.
    - apply (mmul_wf16 q d); assumption.
    - rewrite <- (mmul16_assoc q q d L m R input Hm HR Hin). rewrite HmR.
      (* n * input = m * Mi, row by row *)
      apply (list_ext 65536 one_lt_B []).
      + unfold mmul16, mmul. rewrite !map_length. destruct Hn as [Ln _]. destruct Hm as [Lm _]. lia.
      + intros t Ht. unfold mmul16, mmul in Ht. rewrite map_length in Ht. destruct Hn as [Ln Fn]. rewrite Ln in Ht.
        rewrite !mmul_nth16 by (destruct Hm as [Lm _]; lia).
        unfold n, m.
        rewrite (nth_map' (fun iks : nat * (nat * shard) =>
                   pick_some mask (nth (fst (snd iks)) pm []) ++ unit_row q (fst iks))
                  (combine (seq 0 q) used) t [] (0%nat, (0%nat, [])))
          by (rewrite combine_length, seq_length; lia).
        rewrite (nth_map' (fun ks : nat * shard => pick_none mask (nth (fst ks) pm [])) used t [] (0%nat, []))
          by exact Ht.
        rewrite combine_nth by (rewrite seq_length; reflexivity).
        rewrite seq_nth by exact Ht. cbn [fst snd Nat.add].
        destruct (Hused t Ht) as [U1 U2]. cbv zeta in U1, U2.
        set (ks := nth t used (0%nat, [])) in *. set (k := fst ks) in *.
        assert (Wk : wfv16 d (nth k pm [])) by (apply Hrow; exact U1).
        unfold input.
        rewrite (lincomb_app16 L _ A (unit_row q t) Pu q).
        * rewrite (lincomb_delta16 L t q Pu HPu Ht).
          unfold Pu. rewrite (nth_map' (fun ks : nat * shard => snd ks) used t [] (0%nat, [])) by exact Ht.
          fold ks. rewrite U2. fold k.
          rewrite (lincomb_split16 L d mask (nth k pm []) D Hmaskl Wk HD).
          rewrite <- HA. fold Mi. apply xorl_cancel_l.
          destruct (lincomb_wf16 L a (pick_some mask (nth k pm [])) A) as [L1 _].
          { replace a with (length (somes mask)) by reflexivity.
            apply (pick_some_wfv16 d); assumption. }
          { exact HAw. }
          destruct (lincomb_wf16 L q (pick_none mask (nth k pm [])) Mi) as [L2 _].
          { rewrite Hq. apply (pick_none_wfv16 d); assumption. }
          { exact HMi. }
          lia.
        * destruct (pick_some_wfv16 d mask (nth k pm []) Hmaskl Wk) as [L1 _]. exact L1.
        * apply unit_row_wf.
        * exact HPu. }
  unfold apply_matrix. rewrite Key. unfold Mi, mask. apply fill_erase. lia.
Qed.


Corollary reconstruct_sound c D kd kp L r :
  (0 < c_data c)%nat -> wfm16 (c_parity c) (c_data c) (c_pm c) -> wfm16 (c_data c) L D ->
  length kd = c_data c -> length kp = c_parity c ->
  reconstruct c (erase kd D) (erase kp (gen_parity c D)) = Ok r -> r = D.
Proof.
  intros H0 H1 H2 H3 H4 E. pose proof (reconstruct_spec c D kd kp L H0 H1 H2 H3 H4) as S.
  rewrite E in S. exact S.
Qed.

(** ** availability arithmetic *)
Lemma used_parity_count {A} : forall (p : list (option A)) need i,
  length (used_parity need i p) = Nat.min need (length (somes p)).
Proof.
  induction p as [|[x|] p IH]; intros [|need] i; cbn; try reflexivity.
  - rewrite IH. reflexivity.
  - apply IH.
Qed.

Lemma echelon_err r : forall fuel i mn e, echelon fmul gf_inv r i fuel mn = Err e -> e = ESingular.
Proof.
  induction fuel as [|f IH]; intros i mn e E; cbn in E; [discriminate|].
  destruct (find_pivot _ _ _ _); [eapply IH; exact E|]. injection E as <-. reflexivity.
Qed.
Lemma RowReduce16_err m n e : RowReduce16 m n = Err e -> e = ESingular.
Proof.
  unfold RowReduce16, RowReduceForInverse, row_reduce_pair. intros E.
  destruct (negb (is_square m)); [discriminate|]. destruct (negb (Nat.eqb _ _)); [discriminate|].
  destruct (echelon fmul gf_inv (length m) 0 (length m) (m, n)) as [mn|e0|p0] eqn:EE; cbn in E; try discriminate.
  injection E as <-. eapply echelon_err. exact EE.
Qed.

(* the dedicated error is returned exactly when fewer parity shards are available than data shards are missing *)
Theorem reconstruct_not_enough c data parity :
  length data = c_data c -> (0 < count_none data)%nat ->
  (reconstruct c data parity = Err ENotEnoughParity <-> (length (somes parity) < count_none data)%nat).
Proof.
  intros Hl Hm. unfold reconstruct.
  destruct (Nat.eqb_spec (count_none data) 0) as [Z|NZ]; [lia|].
  rewrite used_parity_count. pose proof (somes_count data) as Hc.
  destruct (Nat.ltb_spec (length (somes data) + Nat.min (count_none data) (length (somes parity))) (c_data c)) as [Lt|Ge].
  - split; [intros _; lia|reflexivity].
  - split; [|lia]. intros E. exfalso.
    match type of E with (do R <- ?X; _) = _ => destruct X as [R|e'|p'] eqn:ER end; cbn in E; try discriminate.
    injection E as ->. apply RowReduce16_err in ER. discriminate.
Qed.

(* nothing missing: success without looking at the parity *)
Theorem reconstruct_nothing_missing c data parity :
  count_none data = 0%nat -> reconstruct c data parity = Ok (somes data).
Proof. intros H. unfold reconstruct. rewrite H. reflexivity. Qed.

(** ** the two parity matrices are well-formed *)
Lemma all_generators_length : N.of_nat (length all_generators) = 32768.
Proof. vm_compute. reflexivity. Qed.

Lemma gens_lt : forall fuel i count x, i + N.of_nat fuel <= 65536 -> In x (gens fuel i count) -> x < 65536.
Proof.
  induction fuel as [|f IH]; intros i count x Hi Hx; destruct count as [|c']; cbn [gens In] in Hx; try contradiction.
  destruct (bad_exp i).
  - eapply IH; [|exact Hx]. lia.
  - destruct Hx as [<-|Hx].
    + rewrite T_Pow_spec; [apply fpow_lt|lia|]. change (2 ^ 32) with 4294967296. lia.
    + eapply IH; [|exact Hx]. lia.
Qed.

Lemma In_firstn_l {A} n (l : list A) x : In x (firstn n l) -> In x l.
Proof. revert l. induction n as [|n IH]; intros l H; [destruct H|]. destruct l; [exact H|].
       destruct H as [H|H]; [left; exact H|right; apply IH; exact H]. Qed.

Lemma all_generators_lt g : In g all_generators -> g < 65536.
Proof.
  assert (H : forall F, N.of_nat F <= 65536 -> forall x, In x (gens F 0 F) -> x < 65536).
  { intros F HF x Hx. apply (gens_lt F 0 F x); [lia|exact Hx]. }
  unfold all_generators. apply H. rewrite N2Nat.id. discriminate.
Qed.

Lemma vandermonde_pm_wf d p : N.of_nat d <= 32768 -> N.of_nat p <= 65535 ->
  wfm16 p d (vandermonde_pm d p).
Proof.
  intros Hd Hp. unfold vandermonde_pm.
  assert (Lg : length (generators_first d) = d).
  { unfold generators_first. rewrite firstn_length. pose proof all_generators_length. lia. }
  split; [rewrite map_length, seq_length; reflexivity|].
  apply Forall_forall. intros v Hv. apply in_map_iff in Hv. destruct Hv as [i [<- Hi]].
  apply in_seq in Hi.
  split; [rewrite map_length; exact Lg|]. apply Forall_forall. intros x Hx.
  apply in_map_iff in Hx. destruct Hx as [g [<- Hg]]. unfold wfe.
  assert (g < 65536).
  { unfold generators_first in Hg. apply In_firstn_l in Hg. apply all_generators_lt. exact Hg. }
  rewrite T_Pow_spec; [apply fpow_lt|assumption|]. change (2 ^ 32) with 4294967296. lia.
Qed.

Lemma cauchy_pm_wf d p : N.of_nat (d + p) <= 65535 -> wfm16 p d (cauchy_pm d p).
Proof.
  intros Hdp. unfold cauchy_pm.
  split; [rewrite map_length, seq_length; reflexivity|].
  apply Forall_forall. intros v Hv. apply in_map_iff in Hv. destruct Hv as [i [<- Hi]]. apply in_seq in Hi.
  split; [rewrite map_length, seq_length; reflexivity|].
  apply Forall_forall. intros x Hx. apply in_map_iff in Hx. destruct Hx as [j [<- Hj]]. apply in_seq in Hj.
  unfold wfe. apply gf_inv_closed. split.
  - apply N.neq_0_lt_0. intros Z. apply N.lxor_eq in Z. lia.
  - apply lxor_lt16; lia.
Qed.
