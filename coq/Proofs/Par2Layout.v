(* The PAR2 packet-reading loop (read_file, the model of gopar's readFile) does not depend on the
   order or the multiplicity of the packets of a file:
   1. read_file_frames: on a file that is a sequence of well-formed packets, the byte-level loop is
      the fold of step_packet over the packets of the expected recovery set;
   2. layout_invariant: two files made of the same SET of packets load to observationally
      equivalent states (or neither loads);
   3. layout_invariant_index: the same for the index file, whose first packet fixes the set id;
   4. read_file_frames_vol, layout_invariant_vol: 1 and 2 for read_file_vol, the loop as LoadParityData runs it
      on a recovery file (started from pf_vol0: no creator packet is required);
   5. read_file_ok_vol: whatever read_file (Some sid) accepts, read_file_vol accepts with the same result. *)
From Coq Require Import Lia ZifyN ZifyNat.
From Gopar Require Import Model.Base Model.GF16 Model.Matrix Model.RS16 Model.CRC Model.GoPath Model.FS Model.Par2
     Proofs.Par2Facts Proofs.Par2Create.
Open Scope N_scope.
Set Default Timeout 120.

(** * bytes_eqb as a decision procedure *)
Lemma bytes_eqb_neq : forall a b, bytes_eqb a b = false -> a <> b.
Proof.
  intros a b H E. subst b. rewrite bytes_eqb_refl in H. discriminate.
Qed.

Lemma bytes_eqb_true_iff a b : bytes_eqb a b = true <-> a = b.
Proof.
  split; [apply bytes_eqb_eq|]. intros <-. apply bytes_eqb_refl.
Qed.

Lemma bytes_eqb_neq_false a b : a <> b -> bytes_eqb a b = false.
Proof.
  intros H. destruct (bytes_eqb a b) eqn:E; [|reflexivity].
  apply bytes_eqb_eq in E. contradiction.
Qed.

(** * the five packet types are pairwise distinct *)
Lemma type_creator_main : bytes_eqb TYPE_CREATOR TYPE_MAIN = false. Proof. vm_compute. reflexivity. Qed.
Lemma type_creator_fdesc : bytes_eqb TYPE_CREATOR TYPE_FDESC = false. Proof. vm_compute. reflexivity. Qed.
Lemma type_creator_ifsc : bytes_eqb TYPE_CREATOR TYPE_IFSC = false. Proof. vm_compute. reflexivity. Qed.
Lemma type_creator_recv : bytes_eqb TYPE_CREATOR TYPE_RECV = false. Proof. vm_compute. reflexivity. Qed.
Lemma type_main_creator : bytes_eqb TYPE_MAIN TYPE_CREATOR = false. Proof. vm_compute. reflexivity. Qed.
Lemma type_main_fdesc : bytes_eqb TYPE_MAIN TYPE_FDESC = false. Proof. vm_compute. reflexivity. Qed.
Lemma type_main_ifsc : bytes_eqb TYPE_MAIN TYPE_IFSC = false. Proof. vm_compute. reflexivity. Qed.
Lemma type_main_recv : bytes_eqb TYPE_MAIN TYPE_RECV = false. Proof. vm_compute. reflexivity. Qed.
Lemma type_fdesc_creator : bytes_eqb TYPE_FDESC TYPE_CREATOR = false. Proof. vm_compute. reflexivity. Qed.
Lemma type_fdesc_main : bytes_eqb TYPE_FDESC TYPE_MAIN = false. Proof. vm_compute. reflexivity. Qed.
Lemma type_fdesc_ifsc : bytes_eqb TYPE_FDESC TYPE_IFSC = false. Proof. vm_compute. reflexivity. Qed.
Lemma type_fdesc_recv : bytes_eqb TYPE_FDESC TYPE_RECV = false. Proof. vm_compute. reflexivity. Qed.
Lemma type_ifsc_creator : bytes_eqb TYPE_IFSC TYPE_CREATOR = false. Proof. vm_compute. reflexivity. Qed.
Lemma type_ifsc_main : bytes_eqb TYPE_IFSC TYPE_MAIN = false. Proof. vm_compute. reflexivity. Qed.
Lemma type_ifsc_fdesc : bytes_eqb TYPE_IFSC TYPE_FDESC = false. Proof. vm_compute. reflexivity. Qed.
Lemma type_ifsc_recv : bytes_eqb TYPE_IFSC TYPE_RECV = false. Proof. vm_compute. reflexivity. Qed.
Lemma type_recv_creator : bytes_eqb TYPE_RECV TYPE_CREATOR = false. Proof. vm_compute. reflexivity. Qed.
Lemma type_recv_main : bytes_eqb TYPE_RECV TYPE_MAIN = false. Proof. vm_compute. reflexivity. Qed.
Lemma type_recv_fdesc : bytes_eqb TYPE_RECV TYPE_FDESC = false. Proof. vm_compute. reflexivity. Qed.
Lemma type_recv_ifsc : bytes_eqb TYPE_RECV TYPE_IFSC = false. Proof. vm_compute. reflexivity. Qed.

(* a packet type the loop does not interpret *)
Definition other_type (t : bytes) : Prop :=
  bytes_eqb t TYPE_CREATOR = false /\ bytes_eqb t TYPE_MAIN = false /\ bytes_eqb t TYPE_FDESC = false /\
  bytes_eqb t TYPE_IFSC = false /\ bytes_eqb t TYPE_RECV = false.

Lemma type_cases t :
  t = TYPE_CREATOR \/ t = TYPE_MAIN \/ t = TYPE_FDESC \/ t = TYPE_IFSC \/ t = TYPE_RECV \/ other_type t.
Proof.
  unfold other_type.
  destruct (bytes_eqb t TYPE_CREATOR) eqn:E1; [left; apply bytes_eqb_eq; exact E1|right].
  destruct (bytes_eqb t TYPE_MAIN) eqn:E2; [left; apply bytes_eqb_eq; exact E2|right].
  destruct (bytes_eqb t TYPE_FDESC) eqn:E3; [left; apply bytes_eqb_eq; exact E3|right].
  destruct (bytes_eqb t TYPE_IFSC) eqn:E4; [left; apply bytes_eqb_eq; exact E4|right].
  destruct (bytes_eqb t TYPE_RECV) eqn:E5; [left; apply bytes_eqb_eq; exact E5|right].
  repeat split; reflexivity.
Qed.

Lemma option_ext {A} (o1 o2 : option A) : (forall x, o1 = Some x <-> o2 = Some x) -> o1 = o2.
Proof.
  intros H. destruct o1 as [a|].
  - symmetry. apply H. reflexivity.
  - destruct o2 as [b|]; [|reflexivity]. apply H. reflexivity.
Qed.

(** * the body readers return the key they were given *)
Section Readers.
  Variable md5 : bytes -> bytes.

  Lemma read_fdesc_id body id d : read_fdesc md5 body = Ok (id, d) -> id = firstn 16 body.
  Proof.
    unfold read_fdesc. intros H.
    destruct (Nat.ltb (length body) 56); [discriminate|].
    destruct (negb (bytes_eqb (compute_file_id md5 (firstn 16 (skipn 32 body)) (le_decode (firstn 8 (skipn 48 body)))
                                 (null_terminate (skipn 56 body))) (firstn 16 body))); [discriminate|].
    destruct (le_decode (firstn 8 (skipn 48 body)) =? 0); [discriminate|].
    destruct (check_filename (decode_ascii (skipn 56 body))) as [u|e|q]; cbn [obind] in H; try discriminate.
    destruct (MAXINT <? le_decode (firstn 8 (skipn 48 body))); [discriminate|].
    injection H as H1 _. symmetry. exact H1.
  Qed.

  Lemma read_ifsc_id body id ps : read_ifsc body = Ok (id, ps) -> id = firstn 16 body.
  Proof.
    unfold read_ifsc. intros H.
    destruct (Nat.ltb (length body) 16); [discriminate|].
    destruct (Nat.eqb (length (skipn 16 body)) 0 || negb (Nat.eqb (length (skipn 16 body) mod 20) 0)); [discriminate|].
    injection H as H1 _. symmetry. exact H1.
  Qed.
End Readers.

Section Layout.
  Variable md5 : bytes -> bytes.
  Hypothesis md5_len : forall x, length (md5 x) = 16%nat.

  (* an abstract packet: (set id, type, body) *)
  Definition apkt := (bytes * bytes * bytes)%type.
  Definition pk_set (p : apkt) := fst (fst p).
  Definition pk_type (p : apkt) := snd (fst p).
  Definition pk_body (p : apkt) := snd p.
  Definition wf_pkt (p : apkt) : Prop :=
    length (pk_set p) = 16%nat /\ length (pk_type p) = 16%nat /\ (length (pk_body p) mod 4 = 0)%nat /\
    64 + N.of_nat (length (pk_body p)) < 2 ^ 64.
  (* the bytes of a file made of these packets back to back *)
  Definition frames (l : list apkt) : bytes :=
    concat (map (fun p => write_packet md5 (pk_set p) (pk_type p) (pk_body p)) l).

  (* what one loop iteration does to the state for an own-set packet: None = the file is rejected *)
  Definition step_packet (f : pfile) (p : apkt) : option pfile :=
    if bytes_eqb (pk_type p) TYPE_CREATOR then
      Some {| pf_client := Some (decode_ascii (pk_body p)); pf_main := pf_main f; pf_fdesc := pf_fdesc f;
              pf_ifsc := pf_ifsc f; pf_recv := pf_recv f |}
    else if bytes_eqb (pk_type p) TYPE_MAIN then
      match read_main (pk_body p) with
      | Ok m => Some {| pf_client := pf_client f; pf_main := Some m; pf_fdesc := pf_fdesc f;
                        pf_ifsc := pf_ifsc f; pf_recv := pf_recv f |}
      | _ => None
      end
    else if bytes_eqb (pk_type p) TYPE_FDESC then
      match read_fdesc md5 (pk_body p) with
      | Ok (id, d) => Some {| pf_client := pf_client f; pf_main := pf_main f; pf_fdesc := (id, d) :: pf_fdesc f;
                              pf_ifsc := pf_ifsc f; pf_recv := pf_recv f |}
      | _ => None
      end
    else if bytes_eqb (pk_type p) TYPE_IFSC then
      match read_ifsc (pk_body p) with
      | Ok (id, ps) => Some {| pf_client := pf_client f; pf_main := pf_main f; pf_fdesc := pf_fdesc f;
                               pf_ifsc := (id, ps) :: pf_ifsc f; pf_recv := pf_recv f |}
      | _ => None
      end
    else if bytes_eqb (pk_type p) TYPE_RECV then
      match read_recv (pk_body p) with
      | Ok (e, d) =>
          match assoc_n (pf_recv f) e with
          | Some d' => if bytes_eqb d' d then Some f else None
          | None => Some {| pf_client := pf_client f; pf_main := pf_main f; pf_fdesc := pf_fdesc f;
                            pf_ifsc := pf_ifsc f; pf_recv := (e, d) :: pf_recv f |}
          end
      | _ => None
      end
    else Some f.

  (* observational equivalence of loader states: what newDecoder / LoadParityData look at *)
  Definition pf_equiv (f g : pfile) : Prop :=
    (pf_client f = None <-> pf_client g = None) /\ pf_main f = pf_main g /\
    (forall id, assoc_b (pf_fdesc f) id = assoc_b (pf_fdesc g) id) /\
    (forall id, assoc_b (pf_ifsc f) id = assoc_b (pf_ifsc g) id) /\
    (forall e, assoc_n (pf_recv f) e = assoc_n (pf_recv g) e).

  (* conformant multiset: own-set packets that describe the same thing are identical.
     key of a packet: main -> (); fdesc/ifsc -> first 16 bytes of the body (the file id);
     recv -> first 4 bytes (exponent) *)
  Definition same_key (p q : apkt) : Prop :=
    pk_type p = pk_type q /\
    ((pk_type p = TYPE_MAIN) \/
     ((pk_type p = TYPE_FDESC \/ pk_type p = TYPE_IFSC) /\ firstn 16 (pk_body p) = firstn 16 (pk_body q)) \/
     (pk_type p = TYPE_RECV /\ firstn 4 (pk_body p) = firstn 4 (pk_body q))).
  Definition consistent (sid : bytes) (l : list apkt) : Prop :=
    forall p q, In p l -> In q l -> pk_set p = sid -> pk_set q = sid -> same_key p q -> pk_body p = pk_body q.

  (** ** 1. the byte-level loop is a fold over the packets *)

  (* one iteration of the loop on the abstract state; None = rejected *)
  Definition lstep (sid : bytes) (st : option (pfile * bool)) (p : apkt) : option (pfile * bool) :=
    match st with
    | None => None
    | Some (f, found) => if bytes_eqb (pk_set p) sid
                         then match step_packet f p with Some f' => Some (f', true) | None => None end
                         else Some (f, found)
    end.

  Definition finish (sid : bytes) (st : option (pfile * bool)) : rf_result :=
    match st with
    | None => RFErr
    | Some (f, false) => RFNoPackets
    | Some (f, true) => match pf_client f with Some _ => RFOk sid f | None => RFErr end
    end.

  Lemma lstep_none sid : forall l, fold_left (lstep sid) l None = None.
  Proof.
    induction l as [|p l IH]; [reflexivity|]. cbn [fold_left lstep]. exact IH.
  Qed.

  Lemma frames_cons p l : frames (p :: l) = write_packet md5 (pk_set p) (pk_type p) (pk_body p) ++ frames l.
  Proof. reflexivity. Qed.

  Lemma frames_length l : Forall wf_pkt l -> (length l <= length (frames l))%nat.
  Proof.
    induction 1 as [|p l Hp Hl IH]; [cbn [length]; lia|].
    rewrite frames_cons, app_length.
    destruct Hp as (Hs & Ht & _ & _).
    rewrite (write_packet_length md5 md5_len) by assumption.
    cbn [length]. lia.
  Qed.

  Lemma read_next_frames p l : wf_pkt p ->
    read_next_packet md5 (frames (p :: l)) = NPPacket (pk_set p) (pk_type p) (pk_body p) (frames l).
  Proof.
    intros (Hs & Ht & Hb & Hv). rewrite frames_cons.
    apply (packet_round_trip md5 md5_len); assumption.
  Qed.

  Lemma read_file_go_S fuel buf setid found f :
    read_file_go md5 (S fuel) buf setid found f =
      match read_next_packet md5 buf with
      | NPErr =>
          match find_magic (tl buf) with
          | Some rest => read_file_go md5 fuel rest setid found f
          | None => rf_finish setid found f
          end
      | NPEof => rf_finish setid found f
      | NPPacket psid ptype body rest =>
          let skip := match setid with Some sid => negb (bytes_eqb psid sid) | None => false end in
          if skip then read_file_go md5 fuel rest setid found f
          else
            let setid' := match setid with Some sid => Some sid | None => Some psid end in
            if bytes_eqb ptype TYPE_CREATOR then
              read_file_go md5 fuel rest setid' true
                {| pf_client := Some (decode_ascii body); pf_main := pf_main f; pf_fdesc := pf_fdesc f; pf_ifsc := pf_ifsc f; pf_recv := pf_recv f |}
            else if bytes_eqb ptype TYPE_MAIN then
              match read_main body with
              | Ok m => read_file_go md5 fuel rest setid' true
                          {| pf_client := pf_client f; pf_main := Some m; pf_fdesc := pf_fdesc f; pf_ifsc := pf_ifsc f; pf_recv := pf_recv f |}
              | _ => RFErr
              end
            else if bytes_eqb ptype TYPE_FDESC then
              match read_fdesc md5 body with
              | Ok (id, d) => read_file_go md5 fuel rest setid' true
                          {| pf_client := pf_client f; pf_main := pf_main f; pf_fdesc := (id, d) :: pf_fdesc f; pf_ifsc := pf_ifsc f; pf_recv := pf_recv f |}
              | _ => RFErr
              end
            else if bytes_eqb ptype TYPE_IFSC then
              match read_ifsc body with
              | Ok (id, ps) => read_file_go md5 fuel rest setid' true
                          {| pf_client := pf_client f; pf_main := pf_main f; pf_fdesc := pf_fdesc f; pf_ifsc := (id, ps) :: pf_ifsc f; pf_recv := pf_recv f |}
              | _ => RFErr
              end
            else if bytes_eqb ptype TYPE_RECV then
              match read_recv body with
              | Ok (e, d) =>
                  match assoc_n (pf_recv f) e with
                  | Some d' => if bytes_eqb d' d then read_file_go md5 fuel rest setid' true f else RFErr
                  | None => read_file_go md5 fuel rest setid' true
                          {| pf_client := pf_client f; pf_main := pf_main f; pf_fdesc := pf_fdesc f; pf_ifsc := pf_ifsc f; pf_recv := (e, d) :: pf_recv f |}
                  end
              | _ => RFErr
              end
            else read_file_go md5 fuel rest setid' true f
      end.
  Proof. reflexivity. Qed.

  Lemma read_file_go_frames sid : forall l fuel found f, Forall wf_pkt l -> (length l < fuel)%nat ->
    read_file_go md5 fuel (frames l) (Some sid) found f = finish sid (fold_left (lstep sid) l (Some (f, found))).
  Proof.
    induction l as [|p l IH]; intros fuel found f Hwf Hfuel.
    - destruct fuel as [|fuel]; [cbn [length] in Hfuel; lia|].
      rewrite read_file_go_S. change (frames []) with (@nil N). cbn [read_next_packet fold_left finish]. unfold rf_finish.
      destruct found; cbn [negb]; [|reflexivity].
      destruct (pf_client f); reflexivity.
    - destruct fuel as [|fuel]; [cbn [length] in Hfuel; lia|].
      inversion Hwf as [|p' l' Hp Hl]; subst p' l'.
      assert (Hfuel' : (length l < fuel)%nat) by (cbn [length] in Hfuel; lia).
      rewrite read_file_go_S, (read_next_frames p l Hp). cbv zeta.
      cbn [fold_left]. cbn [lstep].
      destruct (bytes_eqb (pk_set p) sid) eqn:Eown; cbn [negb].
      2:{ apply IH; assumption. }
      unfold step_packet.
      destruct (bytes_eqb (pk_type p) TYPE_CREATOR); [apply IH; assumption|].
      destruct (bytes_eqb (pk_type p) TYPE_MAIN).
      { destruct (read_main (pk_body p)) as [m|e|q]; [apply IH; assumption| |]; rewrite lstep_none; reflexivity. }
      destruct (bytes_eqb (pk_type p) TYPE_FDESC).
      { destruct (read_fdesc md5 (pk_body p)) as [[id d]|e|q]; [apply IH; assumption| |]; rewrite lstep_none; reflexivity. }
      destruct (bytes_eqb (pk_type p) TYPE_IFSC).
      { destruct (read_ifsc (pk_body p)) as [[id ps]|e|q]; [apply IH; assumption| |]; rewrite lstep_none; reflexivity. }
      destruct (bytes_eqb (pk_type p) TYPE_RECV).
      { destruct (read_recv (pk_body p)) as [[e d]|e|q]; [| |]; try (rewrite lstep_none; reflexivity).
        destruct (assoc_n (pf_recv f) e) as [d'|]; [|apply IH; assumption].
        destruct (bytes_eqb d' d); [apply IH; assumption|]. rewrite lstep_none; reflexivity. }
      apply IH; assumption.
  Qed.

  Theorem read_file_frames : forall sid l, Forall wf_pkt l ->
    read_file md5 (Some sid) (frames l) =
      match fold_left (fun (st : option (pfile * bool)) p =>
               match st with
               | None => None
               | Some (f, found) => if bytes_eqb (pk_set p) sid
                                    then match step_packet f p with Some f' => Some (f', true) | None => None end
                                    else Some (f, found)
               end) l (Some (pf_empty, false)) with
      | None => RFErr
      | Some (f, false) => RFNoPackets
      | Some (f, true) => match pf_client f with Some _ => RFOk sid f | None => RFErr end
      end.
  Proof.
    intros sid l Hwf. unfold read_file.
    rewrite (read_file_go_frames sid l) by (try assumption; pose proof (frames_length l Hwf); lia).
    reflexivity.
  Qed.

  (** ** 2. the result of the fold depends only on the set of packets *)

  Definition run (sid : bytes) (l : list apkt) : option (pfile * bool) :=
    fold_left (lstep sid) l (Some (pf_empty, false)).

  Lemma read_file_run sid l : Forall wf_pkt l -> read_file md5 (Some sid) (frames l) = finish sid (run sid l).
  Proof. intros Hwf. rewrite (read_file_frames sid l Hwf). reflexivity. Qed.

  Lemma run_snoc sid l p : run sid (l ++ [p]) = lstep sid (run sid l) p.
  Proof. unfold run. rewrite fold_left_app. reflexivity. Qed.

  (** *** one step, by packet type *)
  Lemma step_creator f p : pk_type p = TYPE_CREATOR ->
    step_packet f p = Some {| pf_client := Some (decode_ascii (pk_body p)); pf_main := pf_main f; pf_fdesc := pf_fdesc f;
                              pf_ifsc := pf_ifsc f; pf_recv := pf_recv f |}.
  Proof. intros E. unfold step_packet. rewrite E, bytes_eqb_refl. reflexivity. Qed.

  Lemma step_main f p : pk_type p = TYPE_MAIN ->
    step_packet f p = match read_main (pk_body p) with
                      | Ok m => Some {| pf_client := pf_client f; pf_main := Some m; pf_fdesc := pf_fdesc f;
                                        pf_ifsc := pf_ifsc f; pf_recv := pf_recv f |}
                      | _ => None
                      end.
  Proof. intros E. unfold step_packet. rewrite E, type_main_creator, bytes_eqb_refl. reflexivity. Qed.

  Lemma step_fdesc f p : pk_type p = TYPE_FDESC ->
    step_packet f p = match read_fdesc md5 (pk_body p) with
                      | Ok (id, d) => Some {| pf_client := pf_client f; pf_main := pf_main f; pf_fdesc := (id, d) :: pf_fdesc f;
                                              pf_ifsc := pf_ifsc f; pf_recv := pf_recv f |}
                      | _ => None
                      end.
  Proof. intros E. unfold step_packet. rewrite E, type_fdesc_creator, type_fdesc_main, bytes_eqb_refl. reflexivity. Qed.

  Lemma step_ifsc f p : pk_type p = TYPE_IFSC ->
    step_packet f p = match read_ifsc (pk_body p) with
                      | Ok (id, ps) => Some {| pf_client := pf_client f; pf_main := pf_main f; pf_fdesc := pf_fdesc f;
                                               pf_ifsc := (id, ps) :: pf_ifsc f; pf_recv := pf_recv f |}
                      | _ => None
                      end.
  Proof.
    intros E. unfold step_packet.
    rewrite E, type_ifsc_creator, type_ifsc_main, type_ifsc_fdesc, bytes_eqb_refl. reflexivity.
  Qed.

  Lemma step_recv f p : pk_type p = TYPE_RECV ->
    step_packet f p = match read_recv (pk_body p) with
                      | Ok (e, d) =>
                          match assoc_n (pf_recv f) e with
                          | Some d' => if bytes_eqb d' d then Some f else None
                          | None => Some {| pf_client := pf_client f; pf_main := pf_main f; pf_fdesc := pf_fdesc f;
                                            pf_ifsc := pf_ifsc f; pf_recv := (e, d) :: pf_recv f |}
                          end
                      | _ => None
                      end.
  Proof.
    intros E. unfold step_packet.
    rewrite E, type_recv_creator, type_recv_main, type_recv_fdesc, type_recv_ifsc, bytes_eqb_refl. reflexivity.
  Qed.

  Lemma step_other f p : other_type (pk_type p) -> step_packet f p = Some f.
  Proof. intros (O1 & O2 & O3 & O4 & O5). unfold step_packet. rewrite O1, O2, O3, O4, O5. reflexivity. Qed.

  Lemma step_inv f p f' : step_packet f p = Some f' ->
    (pk_type p = TYPE_CREATOR /\
     f' = {| pf_client := Some (decode_ascii (pk_body p)); pf_main := pf_main f; pf_fdesc := pf_fdesc f;
             pf_ifsc := pf_ifsc f; pf_recv := pf_recv f |}) \/
    (pk_type p = TYPE_MAIN /\ exists m, read_main (pk_body p) = Ok m /\
     f' = {| pf_client := pf_client f; pf_main := Some m; pf_fdesc := pf_fdesc f; pf_ifsc := pf_ifsc f; pf_recv := pf_recv f |}) \/
    (pk_type p = TYPE_FDESC /\ exists id d, read_fdesc md5 (pk_body p) = Ok (id, d) /\
     f' = {| pf_client := pf_client f; pf_main := pf_main f; pf_fdesc := (id, d) :: pf_fdesc f;
             pf_ifsc := pf_ifsc f; pf_recv := pf_recv f |}) \/
    (pk_type p = TYPE_IFSC /\ exists id ps, read_ifsc (pk_body p) = Ok (id, ps) /\
     f' = {| pf_client := pf_client f; pf_main := pf_main f; pf_fdesc := pf_fdesc f;
             pf_ifsc := (id, ps) :: pf_ifsc f; pf_recv := pf_recv f |}) \/
    (pk_type p = TYPE_RECV /\ exists e d, read_recv (pk_body p) = Ok (e, d) /\
     ((assoc_n (pf_recv f) e = Some d /\ f' = f) \/
      (assoc_n (pf_recv f) e = None /\
       f' = {| pf_client := pf_client f; pf_main := pf_main f; pf_fdesc := pf_fdesc f;
               pf_ifsc := pf_ifsc f; pf_recv := (e, d) :: pf_recv f |}))) \/
    (other_type (pk_type p) /\ f' = f).
  Proof.
    intros H.
    destruct (type_cases (pk_type p)) as [E|[E|[E|[E|[E|E]]]]].
    - rewrite (step_creator f p E) in H. left. split; [exact E|]. congruence.
    - rewrite (step_main f p E) in H. right; left. split; [exact E|].
      destruct (read_main (pk_body p)) as [m|e|q]; try discriminate.
      exists m. split; [reflexivity|]. congruence.
    - rewrite (step_fdesc f p E) in H. right; right; left. split; [exact E|].
      destruct (read_fdesc md5 (pk_body p)) as [[id d]|e|q]; try discriminate.
      exists id, d. split; [reflexivity|]. congruence.
    - rewrite (step_ifsc f p E) in H. right; right; right; left. split; [exact E|].
      destruct (read_ifsc (pk_body p)) as [[id ps]|e|q]; try discriminate.
      exists id, ps. split; [reflexivity|]. congruence.
    - rewrite (step_recv f p E) in H. right; right; right; right; left. split; [exact E|].
      destruct (read_recv (pk_body p)) as [[e d]|e|q]; try discriminate.
      exists e, d. split; [reflexivity|].
      destruct (assoc_n (pf_recv f) e) as [d'|] eqn:EA.
      + destruct (bytes_eqb d' d) eqn:ED; [|discriminate].
        apply bytes_eqb_eq in ED. subst d'. left. split; [reflexivity|]. congruence.
      + right. split; [reflexivity|]. congruence.
    - rewrite (step_other f p E) in H. right; right; right; right; right. split; [exact E|]. congruence.
  Qed.

  (* E : pk_type p = TYPE_Y; goal: pk_type p <> TYPE_X for another X *)
  Ltac type_neq E := rewrite E; apply bytes_eqb_neq; vm_compute; reflexivity.

  Lemma client_eff f p f' : step_packet f p = Some f' ->
    (pk_type p = TYPE_CREATOR /\ pf_client f' <> None) \/ (pk_type p <> TYPE_CREATOR /\ pf_client f' = pf_client f).
  Proof.
    intros H.
    destruct (step_inv _ _ _ H)
      as [(E & ->)|[(E & m & R & ->)|[(E & id & d & R & ->)|[(E & id & ps & R & ->)|
          [(E & e & d & R & [(A & ->)|(A & ->)])|((O1 & O2 & O3 & O4 & O5) & ->)]]]]].
    - left. split; [exact E|]. cbn [pf_client]. discriminate.
    - right. split; [type_neq E|reflexivity].
    - right. split; [type_neq E|reflexivity].
    - right. split; [type_neq E|reflexivity].
    - right. split; [type_neq E|reflexivity].
    - right. split; [type_neq E|reflexivity].
    - right. split; [apply bytes_eqb_neq; assumption|reflexivity].
  Qed.

  Lemma main_eff f p f' : step_packet f p = Some f' ->
    (pk_type p = TYPE_MAIN /\ exists m, read_main (pk_body p) = Ok m /\ pf_main f' = Some m) \/
    (pk_type p <> TYPE_MAIN /\ pf_main f' = pf_main f).
  Proof.
    intros H.
    destruct (step_inv _ _ _ H)
      as [(E & ->)|[(E & m & R & ->)|[(E & id & d & R & ->)|[(E & id & ps & R & ->)|
          [(E & e & d & R & [(A & ->)|(A & ->)])|((O1 & O2 & O3 & O4 & O5) & ->)]]]]].
    - right. split; [type_neq E|reflexivity].
    - left. split; [exact E|]. exists m. split; [exact R|reflexivity].
    - right. split; [type_neq E|reflexivity].
    - right. split; [type_neq E|reflexivity].
    - right. split; [type_neq E|reflexivity].
    - right. split; [type_neq E|reflexivity].
    - right. split; [apply bytes_eqb_neq; assumption|reflexivity].
  Qed.

  Lemma fdesc_eff f p f' : step_packet f p = Some f' ->
    (pk_type p = TYPE_FDESC /\ exists id d, read_fdesc md5 (pk_body p) = Ok (id, d) /\ pf_fdesc f' = (id, d) :: pf_fdesc f) \/
    (pk_type p <> TYPE_FDESC /\ pf_fdesc f' = pf_fdesc f).
  Proof.
    intros H.
    destruct (step_inv _ _ _ H)
      as [(E & ->)|[(E & m & R & ->)|[(E & id & d & R & ->)|[(E & id & ps & R & ->)|
          [(E & e & d & R & [(A & ->)|(A & ->)])|((O1 & O2 & O3 & O4 & O5) & ->)]]]]].
    - right. split; [type_neq E|reflexivity].
    - right. split; [type_neq E|reflexivity].
    - left. split; [exact E|]. exists id, d. split; [exact R|reflexivity].
    - right. split; [type_neq E|reflexivity].
    - right. split; [type_neq E|reflexivity].
    - right. split; [type_neq E|reflexivity].
    - right. split; [apply bytes_eqb_neq; assumption|reflexivity].
  Qed.

  Lemma ifsc_eff f p f' : step_packet f p = Some f' ->
    (pk_type p = TYPE_IFSC /\ exists id ps, read_ifsc (pk_body p) = Ok (id, ps) /\ pf_ifsc f' = (id, ps) :: pf_ifsc f) \/
    (pk_type p <> TYPE_IFSC /\ pf_ifsc f' = pf_ifsc f).
  Proof.
    intros H.
    destruct (step_inv _ _ _ H)
      as [(E & ->)|[(E & m & R & ->)|[(E & id & d & R & ->)|[(E & id & ps & R & ->)|
          [(E & e & d & R & [(A & ->)|(A & ->)])|((O1 & O2 & O3 & O4 & O5) & ->)]]]]].
    - right. split; [type_neq E|reflexivity].
    - right. split; [type_neq E|reflexivity].
    - right. split; [type_neq E|reflexivity].
    - left. split; [exact E|]. exists id, ps. split; [exact R|reflexivity].
    - right. split; [type_neq E|reflexivity].
    - right. split; [type_neq E|reflexivity].
    - right. split; [apply bytes_eqb_neq; assumption|reflexivity].
  Qed.

  Lemma recv_eff f p f' : step_packet f p = Some f' ->
    (pk_type p = TYPE_RECV /\ exists e d, read_recv (pk_body p) = Ok (e, d) /\
       ((assoc_n (pf_recv f) e = Some d /\ pf_recv f' = pf_recv f) \/
        (assoc_n (pf_recv f) e = None /\ pf_recv f' = (e, d) :: pf_recv f))) \/
    (pk_type p <> TYPE_RECV /\ pf_recv f' = pf_recv f).
  Proof.
    intros H.
    destruct (step_inv _ _ _ H)
      as [(E & ->)|[(E & m & R & ->)|[(E & id & d & R & ->)|[(E & id & ps & R & ->)|
          [(E & e & d & R & [(A & ->)|(A & ->)])|((O1 & O2 & O3 & O4 & O5) & ->)]]]]].
    - right. split; [type_neq E|reflexivity].
    - right. split; [type_neq E|reflexivity].
    - right. split; [type_neq E|reflexivity].
    - right. split; [type_neq E|reflexivity].
    - left. split; [exact E|]. exists e, d. split; [exact R|]. left. split; [exact A|reflexivity].
    - left. split; [exact E|]. exists e, d. split; [exact R|]. right. split; [exact A|reflexivity].
    - right. split; [apply bytes_eqb_neq; assumption|reflexivity].
  Qed.

  (* every own-set packet of a known type that was accepted parses *)
  Definition parses_pkt (p : apkt) : Prop :=
    (pk_type p = TYPE_MAIN -> exists m, read_main (pk_body p) = Ok m) /\
    (pk_type p = TYPE_FDESC -> exists id d, read_fdesc md5 (pk_body p) = Ok (id, d)) /\
    (pk_type p = TYPE_IFSC -> exists id ps, read_ifsc (pk_body p) = Ok (id, ps)) /\
    (pk_type p = TYPE_RECV -> exists e d, read_recv (pk_body p) = Ok (e, d)).

  (* E : pk_type p = TYPE_Y, T : pk_type p = TYPE_X with X <> Y *)
  Ltac type_contra E T := exfalso; rewrite E in T; revert T; apply bytes_eqb_neq; vm_compute; reflexivity.

  Lemma step_parses f p f' : step_packet f p = Some f' -> parses_pkt p.
  Proof.
    intros H. unfold parses_pkt.
    destruct (step_inv _ _ _ H)
      as [(E & _)|[(E & m & R & _)|[(E & id & d & R & _)|[(E & id & ps & R & _)|
          [(E & e & d & R & _)|((O1 & O2 & O3 & O4 & O5) & _)]]]]].
    - split; [|split; [|split]]; intros T; type_contra E T.
    - split; [|split; [|split]]; intros T; [exists m; exact R|type_contra E T|type_contra E T|type_contra E T].
    - split; [|split; [|split]]; intros T; [type_contra E T|exists id, d; exact R|type_contra E T|type_contra E T].
    - split; [|split; [|split]]; intros T; [type_contra E T|type_contra E T|exists id, ps; exact R|type_contra E T].
    - split; [|split; [|split]]; intros T; [type_contra E T|type_contra E T|type_contra E T|exists e, d; exact R].
    - split; [|split; [|split]]; intros T; exfalso; revert T; apply bytes_eqb_neq; assumption.
  Qed.

  Lemma step_ok f p : parses_pkt p ->
    (forall e d d', pk_type p = TYPE_RECV -> read_recv (pk_body p) = Ok (e, d) -> assoc_n (pf_recv f) e = Some d' -> d' = d) ->
    exists f', step_packet f p = Some f'.
  Proof.
    intros (P1 & P2 & P3 & P4) HR.
    destruct (type_cases (pk_type p)) as [E|[E|[E|[E|[E|E]]]]].
    - rewrite (step_creator f p E). eexists. reflexivity.
    - rewrite (step_main f p E). destruct (P1 E) as (m & R). rewrite R. eexists. reflexivity.
    - rewrite (step_fdesc f p E). destruct (P2 E) as (id & d & R). rewrite R. eexists. reflexivity.
    - rewrite (step_ifsc f p E). destruct (P3 E) as (id & ps & R). rewrite R. eexists. reflexivity.
    - rewrite (step_recv f p E). destruct (P4 E) as (e & d & R). rewrite R.
      destruct (assoc_n (pf_recv f) e) as [d'|] eqn:EA.
      + rewrite (HR e d d' E R EA), bytes_eqb_refl. eexists. reflexivity.
      + eexists. reflexivity.
    - rewrite (step_other f p E). eexists. reflexivity.
  Qed.

  (** *** the state is characterised by membership *)
  Definition own_in (sid : bytes) (l : list apkt) (P : apkt -> Prop) : Prop :=
    exists q, In q l /\ pk_set q = sid /\ P q.

  Lemma own_in_snoc sid l p P : own_in sid (l ++ [p]) P <-> own_in sid l P \/ (pk_set p = sid /\ P p).
  Proof.
    unfold own_in. split.
    - intros (q & Hin & Hs & HP). apply in_app_or in Hin. destruct Hin as [Hin|[<-|[]]].
      + left. exists q. auto.
      + right. auto.
    - intros [(q & Hin & Hs & HP)|(Hs & HP)].
      + exists q. split; [apply in_or_app; left; exact Hin|auto].
      + exists p. split; [apply in_or_app; right; left; reflexivity|auto].
  Qed.

  Lemma own_in_ext sid l1 l2 P : (forall p, In p l1 <-> In p l2) -> own_in sid l1 P <-> own_in sid l2 P.
  Proof.
    intros Hm. unfold own_in. split; intros (q & Hin & Hs & HP); exists q; (split; [apply Hm; exact Hin|auto]).
  Qed.

  Definition char (sid : bytes) (l : list apkt) (f : pfile) (found : bool) : Prop :=
    (found = true <-> own_in sid l (fun _ => True)) /\
    (pf_client f <> None <-> own_in sid l (fun q => pk_type q = TYPE_CREATOR)) /\
    (forall m, pf_main f = Some m <->
               own_in sid l (fun q => pk_type q = TYPE_MAIN /\ read_main (pk_body q) = Ok m)) /\
    (forall id d, assoc_b (pf_fdesc f) id = Some d <->
                  own_in sid l (fun q => pk_type q = TYPE_FDESC /\ read_fdesc md5 (pk_body q) = Ok (id, d))) /\
    (forall id ps, assoc_b (pf_ifsc f) id = Some ps <->
                   own_in sid l (fun q => pk_type q = TYPE_IFSC /\ read_ifsc (pk_body q) = Ok (id, ps))) /\
    (forall e d, assoc_n (pf_recv f) e = Some d <->
                 own_in sid l (fun q => pk_type q = TYPE_RECV /\ read_recv (pk_body q) = Ok (e, d))).

  Lemma own_in_nil sid P : ~ own_in sid [] P.
  Proof. intros (q & [] & _). Qed.

  Lemma char_nil sid : char sid [] pf_empty false.
  Proof.
    unfold char. cbn [pf_empty pf_client pf_main pf_fdesc pf_ifsc pf_recv assoc_b assoc_n].
    split; [|split; [|split; [|split; [|split]]]].
    - split; [discriminate|]. intros H. destruct (own_in_nil _ _ H).
    - split; [intros H; exfalso; apply H; reflexivity|]. intros H. destruct (own_in_nil _ _ H).
    - intros m. split; [discriminate|]. intros H. destruct (own_in_nil _ _ H).
    - intros id d. split; [discriminate|]. intros H. destruct (own_in_nil _ _ H).
    - intros id ps. split; [discriminate|]. intros H. destruct (own_in_nil _ _ H).
    - intros e d. split; [discriminate|]. intros H. destruct (own_in_nil _ _ H).
  Qed.

  Lemma char_skip sid l p f found : pk_set p <> sid -> char sid l f found -> char sid (l ++ [p]) f found.
  Proof.
    intros Hne (C1 & C2 & C3 & C4 & C5 & C6). unfold char.
    split; [|split; [|split; [|split; [|split]]]].
    - rewrite own_in_snoc. tauto.
    - rewrite own_in_snoc. tauto.
    - intros m. rewrite own_in_snoc. specialize (C3 m). tauto.
    - intros id d. rewrite own_in_snoc. specialize (C4 id d). tauto.
    - intros id ps. rewrite own_in_snoc. specialize (C5 id ps). tauto.
    - intros e d. rewrite own_in_snoc. specialize (C6 e d). tauto.
  Qed.

  Lemma consistent_app_l sid l p : consistent sid (l ++ [p]) -> consistent sid l.
  Proof.
    intros Hc q1 q2 H1 H2. apply Hc; apply in_or_app; left; assumption.
  Qed.

  Lemma in_snoc_last {A} (l : list A) (p : A) : In p (l ++ [p]).
  Proof. apply in_or_app. right. left. reflexivity. Qed.

  Lemma client_step sid l p f f' :
    pk_set p = sid -> step_packet f p = Some f' ->
    (pf_client f <> None <-> own_in sid l (fun q => pk_type q = TYPE_CREATOR)) ->
    (pf_client f' <> None <-> own_in sid (l ++ [p]) (fun q => pk_type q = TYPE_CREATOR)).
  Proof.
    intros Hs Hst IH. rewrite own_in_snoc.
    destruct (client_eff _ _ _ Hst) as [(E & Em)|(E & Em)].
    - split; [intros _; right; auto|intros _; exact Em].
    - rewrite Em. tauto.
  Qed.

  Lemma main_step sid l p f f' :
    consistent sid (l ++ [p]) -> pk_set p = sid -> step_packet f p = Some f' ->
    (forall m, pf_main f = Some m <->
               own_in sid l (fun q => pk_type q = TYPE_MAIN /\ read_main (pk_body q) = Ok m)) ->
    (forall m, pf_main f' = Some m <->
               own_in sid (l ++ [p]) (fun q => pk_type q = TYPE_MAIN /\ read_main (pk_body q) = Ok m)).
  Proof.
    intros Hc Hs Hst IH m.
    destruct (main_eff _ _ _ Hst) as [(E & m0 & R & Em)|(E & Em)].
    - rewrite Em. split.
      + intros Hm. assert (m0 = m) by congruence. subst m0.
        apply own_in_snoc. right. auto.
      + intros (q & Hin & Hq & Tq & Rq).
        assert (B : pk_body q = pk_body p).
        { apply Hc; [exact Hin|apply in_snoc_last|exact Hq|exact Hs|].
          split; [rewrite Tq, E; reflexivity|left; exact Tq]. }
        rewrite B in Rq. congruence.
    - rewrite Em, own_in_snoc. specialize (IH m). tauto.
  Qed.

  Lemma fdesc_step sid l p f f' :
    consistent sid (l ++ [p]) -> pk_set p = sid -> step_packet f p = Some f' ->
    (forall id d, assoc_b (pf_fdesc f) id = Some d <->
                  own_in sid l (fun q => pk_type q = TYPE_FDESC /\ read_fdesc md5 (pk_body q) = Ok (id, d))) ->
    (forall id d, assoc_b (pf_fdesc f') id = Some d <->
                  own_in sid (l ++ [p]) (fun q => pk_type q = TYPE_FDESC /\ read_fdesc md5 (pk_body q) = Ok (id, d))).
  Proof.
    intros Hc Hs Hst IH id d.
    destruct (fdesc_eff _ _ _ Hst) as [(E & id0 & d0 & R & Em)|(E & Em)].
    - rewrite Em. cbn [assoc_b].
      destruct (bytes_eqb id0 id) eqn:Eid.
      + apply bytes_eqb_eq in Eid. subst id0. split.
        * intros Hd. assert (d0 = d) by congruence. subst d0. apply own_in_snoc. right. auto.
        * intros (q & Hin & Hq & Tq & Rq).
          assert (B : pk_body q = pk_body p).
          { apply Hc; [exact Hin|apply in_snoc_last|exact Hq|exact Hs|].
            split; [rewrite Tq, E; reflexivity|]. right; left. split; [left; exact Tq|].
            rewrite <- (read_fdesc_id md5 _ _ _ Rq), <- (read_fdesc_id md5 _ _ _ R). reflexivity. }
          rewrite B in Rq. congruence.
      + apply bytes_eqb_neq in Eid. rewrite own_in_snoc. specialize (IH id d).
        split; [tauto|]. intros [H|(_ & _ & Rp)]; [tauto|]. exfalso. apply Eid. congruence.
    - rewrite Em, own_in_snoc. specialize (IH id d). tauto.
  Qed.

  Lemma ifsc_step sid l p f f' :
    consistent sid (l ++ [p]) -> pk_set p = sid -> step_packet f p = Some f' ->
    (forall id ps, assoc_b (pf_ifsc f) id = Some ps <->
                   own_in sid l (fun q => pk_type q = TYPE_IFSC /\ read_ifsc (pk_body q) = Ok (id, ps))) ->
    (forall id ps, assoc_b (pf_ifsc f') id = Some ps <->
                   own_in sid (l ++ [p]) (fun q => pk_type q = TYPE_IFSC /\ read_ifsc (pk_body q) = Ok (id, ps))).
  Proof.
    intros Hc Hs Hst IH id ps.
    destruct (ifsc_eff _ _ _ Hst) as [(E & id0 & ps0 & R & Em)|(E & Em)].
    - rewrite Em. cbn [assoc_b].
      destruct (bytes_eqb id0 id) eqn:Eid.
      + apply bytes_eqb_eq in Eid. subst id0. split.
        * intros Hd. assert (ps0 = ps) by congruence. subst ps0. apply own_in_snoc. right. auto.
        * intros (q & Hin & Hq & Tq & Rq).
          assert (B : pk_body q = pk_body p).
          { apply Hc; [exact Hin|apply in_snoc_last|exact Hq|exact Hs|].
            split; [rewrite Tq, E; reflexivity|]. right; left. split; [right; exact Tq|].
            rewrite <- (read_ifsc_id _ _ _ Rq), <- (read_ifsc_id _ _ _ R). reflexivity. }
          rewrite B in Rq. congruence.
      + apply bytes_eqb_neq in Eid. rewrite own_in_snoc. specialize (IH id ps).
        split; [tauto|]. intros [H|(_ & _ & Rp)]; [tauto|]. exfalso. apply Eid. congruence.
    - rewrite Em, own_in_snoc. specialize (IH id ps). tauto.
  Qed.

  Lemma recv_step sid l p f f' :
    pk_set p = sid -> step_packet f p = Some f' ->
    (forall e d, assoc_n (pf_recv f) e = Some d <->
                 own_in sid l (fun q => pk_type q = TYPE_RECV /\ read_recv (pk_body q) = Ok (e, d))) ->
    (forall e d, assoc_n (pf_recv f') e = Some d <->
                 own_in sid (l ++ [p]) (fun q => pk_type q = TYPE_RECV /\ read_recv (pk_body q) = Ok (e, d))).
  Proof.
    intros Hs Hst IH e d.
    destruct (recv_eff _ _ _ Hst) as [(E & e0 & d0 & R & [(A & Em)|(A & Em)])|(E & Em)].
    - rewrite Em, own_in_snoc. split.
      + intros H. left. apply IH. exact H.
      + intros [H|(_ & _ & Rp)]; [apply IH; exact H|]. congruence.
    - rewrite Em. cbn [assoc_n]. rewrite own_in_snoc.
      destruct (e0 =? e) eqn:Ee.
      + apply N.eqb_eq in Ee. subst e0. split.
        * intros Hd. right. split; [exact Hs|]. split; [exact E|]. congruence.
        * intros [H|(_ & _ & Rp)]; [|congruence]. apply IH in H. congruence.
      + apply N.eqb_neq in Ee. split.
        * intros H. left. apply IH. exact H.
        * intros [H|(_ & _ & Rp)]; [apply IH; exact H|]. exfalso. apply Ee. congruence.
    - rewrite Em, own_in_snoc. specialize (IH e d). tauto.
  Qed.

  Lemma char_step sid l p f found f' :
    consistent sid (l ++ [p]) -> pk_set p = sid -> step_packet f p = Some f' ->
    char sid l f found -> char sid (l ++ [p]) f' true.
  Proof.
    intros Hc Hs Hst (C1 & C2 & C3 & C4 & C5 & C6). unfold char.
    split; [|split; [|split; [|split; [|split]]]].
    - split; [|reflexivity]. intros _. apply own_in_snoc. right. auto.
    - apply (client_step sid l p f f' Hs Hst C2).
    - apply (main_step sid l p f f' Hc Hs Hst C3).
    - apply (fdesc_step sid l p f f' Hc Hs Hst C4).
    - apply (ifsc_step sid l p f f' Hc Hs Hst C5).
    - apply (recv_step sid l p f f' Hs Hst C6).
  Qed.

  Lemma run_char sid : forall l f found, consistent sid l -> run sid l = Some (f, found) -> char sid l f found.
  Proof.
    induction l as [|p l IH] using rev_ind; intros f found Hc H.
    - unfold run in H. cbn [fold_left] in H. injection H as <- <-. apply char_nil.
    - rewrite run_snoc in H.
      destruct (run sid l) as [[f0 fd0]|] eqn:ER; [|discriminate].
      cbn [lstep] in H.
      pose proof (IH f0 fd0 (consistent_app_l sid l p Hc) eq_refl) as C0.
      destruct (bytes_eqb (pk_set p) sid) eqn:Eo.
      + destruct (step_packet f0 p) as [f1|] eqn:ES; [|discriminate].
        injection H as <- <-. apply bytes_eqb_eq in Eo.
        apply (char_step sid l p f0 fd0 f1 Hc Eo ES C0).
      + injection H as <- <-. apply char_skip; [apply bytes_eqb_neq; exact Eo|exact C0].
  Qed.

  (** *** acceptance depends only on membership *)
  Definition parses (sid : bytes) (l : list apkt) : Prop :=
    forall q, In q l -> pk_set q = sid -> parses_pkt q.
  Definition recv_agree (sid : bytes) (l : list apkt) : Prop :=
    forall q1 q2 e d1 d2, In q1 l -> In q2 l -> pk_set q1 = sid -> pk_set q2 = sid ->
      pk_type q1 = TYPE_RECV -> pk_type q2 = TYPE_RECV ->
      read_recv (pk_body q1) = Ok (e, d1) -> read_recv (pk_body q2) = Ok (e, d2) -> d1 = d2.

  Lemma run_parses sid : forall l f found, run sid l = Some (f, found) -> parses sid l.
  Proof.
    induction l as [|p l IH] using rev_ind; intros f found H.
    - intros q [].
    - rewrite run_snoc in H.
      destruct (run sid l) as [[f0 fd0]|] eqn:ER; [|discriminate].
      cbn [lstep] in H.
      intros q Hin Hq. apply in_app_or in Hin. destruct Hin as [Hin|[<-|[]]].
      + apply (IH f0 fd0 eq_refl q Hin Hq).
      + rewrite Hq, bytes_eqb_refl in H.
        destruct (step_packet f0 p) as [f1|] eqn:ES; [|discriminate].
        apply (step_parses f0 p f1 ES).
  Qed.

  Lemma run_recv_agree sid l f found : consistent sid l -> run sid l = Some (f, found) -> recv_agree sid l.
  Proof.
    intros Hc H. destruct (run_char sid l f found Hc H) as (_ & _ & _ & _ & _ & C6).
    intros q1 q2 e d1 d2 I1 I2 S1 S2 T1 T2 R1 R2.
    assert (A1 : assoc_n (pf_recv f) e = Some d1) by (apply C6; exists q1; auto).
    assert (A2 : assoc_n (pf_recv f) e = Some d2) by (apply C6; exists q2; auto).
    congruence.
  Qed.

  Lemma good_run sid : forall l, consistent sid l -> parses sid l -> recv_agree sid l ->
    exists f found, run sid l = Some (f, found).
  Proof.
    induction l as [|p l IH] using rev_ind; intros Hc Hp Ha.
    - exists pf_empty, false. reflexivity.
    - destruct IH as (f0 & fd0 & ER).
      + apply (consistent_app_l sid l p Hc).
      + intros q Hin. apply Hp. apply in_or_app. left. exact Hin.
      + intros q1 q2 e d1 d2 I1 I2. apply Ha; apply in_or_app; left; assumption.
      + rewrite run_snoc, ER. cbn [lstep].
        destruct (bytes_eqb (pk_set p) sid) eqn:Eo; [|exists f0, fd0; reflexivity].
        apply bytes_eqb_eq in Eo.
        destruct (run_char sid l f0 fd0 (consistent_app_l sid l p Hc) ER) as (_ & _ & _ & _ & _ & C6).
        destruct (step_ok f0 p) as (f1 & ES).
        * apply Hp; [apply in_snoc_last|exact Eo].
        * intros e d d' T R A. apply C6 in A. destruct A as (q & Hin & Hq & Tq & Rq).
          apply (Ha q p e d' d); try assumption; [apply in_or_app; left; exact Hin|apply in_snoc_last].
        * rewrite ES. exists f1, true. reflexivity.
  Qed.

  Lemma consistent_ext sid l1 l2 : (forall p, In p l1 <-> In p l2) -> consistent sid l1 -> consistent sid l2.
  Proof.
    intros Hm Hc p q Hp Hq. apply Hc; apply Hm; assumption.
  Qed.

  Lemma char_equiv sid l1 l2 f1 f2 fd1 fd2 : (forall p, In p l1 <-> In p l2) ->
    char sid l1 f1 fd1 -> char sid l2 f2 fd2 -> fd1 = fd2 /\ pf_equiv f1 f2.
  Proof.
    intros Hm (A1 & A2 & A3 & A4 & A5 & A6) (B1 & B2 & B3 & B4 & B5 & B6).
    split.
    - pose proof (own_in_ext sid l1 l2 (fun _ => True) Hm) as X.
      destruct fd1, fd2; try reflexivity.
      + symmetry. apply B1, X, A1. reflexivity.
      + apply A1, X, B1. reflexivity.
    - unfold pf_equiv. split; [|split; [|split; [|split]]].
      + pose proof (own_in_ext sid l1 l2 (fun q => pk_type q = TYPE_CREATOR) Hm) as X.
        destruct (pf_client f1) as [c1|], (pf_client f2) as [c2|].
        * split; discriminate.
        * exfalso. assert (Y : Some c1 <> None) by discriminate. apply A2, X, B2 in Y. apply Y. reflexivity.
        * exfalso. assert (Y : Some c2 <> None) by discriminate. apply B2, X, A2 in Y. apply Y. reflexivity.
        * split; reflexivity.
      + apply option_ext. intros m. rewrite A3, B3. apply own_in_ext. exact Hm.
      + intros id. apply option_ext. intros d. rewrite A4, B4. apply own_in_ext. exact Hm.
      + intros id. apply option_ext. intros ps. rewrite A5, B5. apply own_in_ext. exact Hm.
      + intros e. apply option_ext. intros d. rewrite A6, B6. apply own_in_ext. exact Hm.
  Qed.

  (* the fold: same set of packets, same outcome up to pf_equiv *)
  Lemma run_invariant sid l1 l2 f1 fd1 : (forall p, In p l1 <-> In p l2) -> consistent sid l1 ->
    run sid l1 = Some (f1, fd1) -> exists f2, run sid l2 = Some (f2, fd1) /\ pf_equiv f1 f2.
  Proof.
    intros Hm Hc H1.
    pose proof (consistent_ext sid l1 l2 Hm Hc) as Hc2.
    pose proof (run_parses sid l1 f1 fd1 H1) as P1.
    pose proof (run_recv_agree sid l1 f1 fd1 Hc H1) as R1.
    destruct (good_run sid l2 Hc2) as (f2 & fd2 & H2).
    - intros q Hin. apply P1. apply Hm. exact Hin.
    - intros q1 q2 e d1 d2 I1 I2. apply R1; apply Hm; assumption.
    - destruct (char_equiv sid l1 l2 f1 f2 fd1 fd2 Hm (run_char sid l1 f1 fd1 Hc H1) (run_char sid l2 f2 fd2 Hc2 H2))
        as (Efd & Eq).
      subst fd2. exists f2. split; [exact H2|exact Eq].
  Qed.

  Theorem layout_invariant : forall sid l1 l2 f1,
    Forall wf_pkt l1 -> Forall wf_pkt l2 -> (forall p, In p l1 <-> In p l2) -> consistent sid l1 ->
    read_file md5 (Some sid) (frames l1) = RFOk sid f1 ->
    exists f2, read_file md5 (Some sid) (frames l2) = RFOk sid f2 /\ pf_equiv f1 f2.
  Proof.
    intros sid l1 l2 f1 W1 W2 Hm Hc H.
    rewrite (read_file_run sid l1 W1) in H.
    destruct (run sid l1) as [[g1 fd1]|] eqn:E1; cbn [finish] in H; [|discriminate].
    destruct fd1; [|discriminate].
    destruct (pf_client g1) as [c1|] eqn:EC1; [|discriminate].
    injection H as <-.
    destruct (run_invariant sid l1 l2 g1 true Hm Hc E1) as (f2 & E2 & Eq).
    exists f2. split; [|exact Eq].
    rewrite (read_file_run sid l2 W2), E2. cbn [finish].
    destruct Eq as (Q1 & _).
    destruct (pf_client f2) as [c2|] eqn:EC2; [reflexivity|].
    exfalso. assert (Y : pf_client g1 = None) by (apply Q1; reflexivity). congruence.
  Qed.

  (** ** 3. the index file: the first packet fixes the set id *)
  Lemma read_file_index p l : wf_pkt p ->
    read_file md5 None (frames (p :: l)) = read_file md5 (Some (pk_set p)) (frames (p :: l)).
  Proof.
    intros Hp. unfold read_file.
    rewrite !read_file_go_S, (read_next_frames p l Hp). cbv zeta.
    rewrite bytes_eqb_refl. reflexivity.
  Qed.

  Theorem layout_invariant_index : forall sid l1 l2 p1 p2 f1,
    Forall wf_pkt (p1 :: l1) -> Forall wf_pkt (p2 :: l2) -> pk_set p1 = sid -> pk_set p2 = sid ->
    (forall p, In p (p1 :: l1) <-> In p (p2 :: l2)) -> consistent sid (p1 :: l1) ->
    read_file md5 None (frames (p1 :: l1)) = RFOk sid f1 ->
    exists f2, read_file md5 None (frames (p2 :: l2)) = RFOk sid f2 /\ pf_equiv f1 f2.
  Proof.
    intros sid l1 l2 p1 p2 f1 W1 W2 S1 S2 Hm Hc H.
    rewrite (read_file_index p1 l1 (Forall_inv W1)), S1 in H.
    rewrite (read_file_index p2 l2 (Forall_inv W2)), S2.
    apply (layout_invariant sid (p1 :: l1) (p2 :: l2) f1 W1 W2 Hm Hc H).
  Qed.
  (** ** 4. recovery files (read_file_vol, what LoadParityData calls): the same loop started from pf_vol0,
      the state in which a creator packet counts as seen *)

  Definition with_client (c : option bytes) (f : pfile) : pfile :=
    {| pf_client := c; pf_main := pf_main f; pf_fdesc := pf_fdesc f; pf_ifsc := pf_ifsc f; pf_recv := pf_recv f |}.

  (* the state of the volume loop that corresponds to the state f of the ordinary loop: the client is the one
     of the last creator packet when there was one, the initial (empty) one otherwise *)
  Definition vol_client (f : pfile) : pfile :=
    with_client (match pf_client f with Some c => Some c | None => Some [] end) f.

  Lemma vol_client_empty : vol_client pf_empty = pf_vol0.
  Proof. reflexivity. Qed.

  Lemma vol_client_some f c : pf_client f = Some c -> vol_client f = f.
  Proof. intros H. destruct f as [cl mn fd ic rv]. cbn [pf_client] in H. subst cl. reflexivity. Qed.

  Lemma step_packet_vol f p : step_packet (vol_client f) p = option_map vol_client (step_packet f p).
  Proof.
    unfold step_packet.
    destruct (bytes_eqb (pk_type p) TYPE_CREATOR); [reflexivity|].
    destruct (bytes_eqb (pk_type p) TYPE_MAIN).
    { destruct (read_main (pk_body p)) as [m|e|q]; reflexivity. }
    destruct (bytes_eqb (pk_type p) TYPE_FDESC).
    { destruct (read_fdesc md5 (pk_body p)) as [[id d]|e|q]; reflexivity. }
    destruct (bytes_eqb (pk_type p) TYPE_IFSC).
    { destruct (read_ifsc (pk_body p)) as [[id ps]|e|q]; reflexivity. }
    destruct (bytes_eqb (pk_type p) TYPE_RECV).
    { destruct (read_recv (pk_body p)) as [[e d]|e|q]; try reflexivity.
      change (pf_recv (vol_client f)) with (pf_recv f).
      destruct (assoc_n (pf_recv f) e) as [d'|]; [|reflexivity].
      destruct (bytes_eqb d' d); reflexivity. }
    reflexivity.
  Qed.

  Definition vol_state (st : option (pfile * bool)) : option (pfile * bool) :=
    match st with Some (f, found) => Some (vol_client f, found) | None => None end.

  Lemma lstep_vol sid st p : lstep sid (vol_state st) p = vol_state (lstep sid st p).
  Proof.
    destruct st as [[f found]|]; [|reflexivity]. cbn [vol_state lstep].
    destruct (bytes_eqb (pk_set p) sid); [|reflexivity].
    rewrite step_packet_vol. destruct (step_packet f p) as [f'|]; reflexivity.
  Qed.

  Lemma fold_lstep_vol sid : forall l st, fold_left (lstep sid) l (vol_state st) = vol_state (fold_left (lstep sid) l st).
  Proof.
    induction l as [|p l IH]; intros st; [reflexivity|].
    cbn [fold_left]. rewrite lstep_vol. apply IH.
  Qed.

  (* the fold of the volume loop *)
  Definition run_vol (sid : bytes) (l : list apkt) : option (pfile * bool) :=
    fold_left (lstep sid) l (Some (pf_vol0, false)).

  Lemma run_vol_run sid l : run_vol sid l = vol_state (run sid l).
  Proof. unfold run_vol, run. rewrite <- fold_lstep_vol. reflexivity. Qed.

  Theorem read_file_frames_vol : forall sid l, Forall wf_pkt l ->
    read_file_vol md5 sid (frames l) =
      match fold_left (fun (st : option (pfile * bool)) p =>
               match st with
               | None => None
               | Some (f, found) => if bytes_eqb (pk_set p) sid
                                    then match step_packet f p with Some f' => Some (f', true) | None => None end
                                    else Some (f, found)
               end) l (Some (pf_vol0, false)) with
      | None => RFErr
      | Some (f, false) => RFNoPackets
      | Some (f, true) => match pf_client f with Some _ => RFOk sid f | None => RFErr end
      end.
  Proof.
    intros sid l Hwf. unfold read_file_vol.
    rewrite (read_file_go_frames sid l) by (try assumption; pose proof (frames_length l Hwf); lia).
    reflexivity.
  Qed.

  Lemma read_file_vol_run sid l : Forall wf_pkt l -> read_file_vol md5 sid (frames l) = finish sid (run_vol sid l).
  Proof. intros Hwf. rewrite (read_file_frames_vol sid l Hwf). reflexivity. Qed.

  (* on a file of well-formed packets a recovery file is never rejected for want of a creator packet *)
  Lemma finish_vol sid f : finish sid (vol_state (Some (f, true))) = RFOk sid (vol_client f).
  Proof. cbn [vol_state finish]. unfold vol_client, with_client. cbn [pf_client]. destruct (pf_client f); reflexivity. Qed.

  Lemma vol_client_equiv f g : pf_equiv f g -> pf_equiv (vol_client f) (vol_client g).
  Proof.
    intros (_ & Q2 & Q3 & Q4 & Q5). unfold pf_equiv, vol_client, with_client.
    cbn [pf_client pf_main pf_fdesc pf_ifsc pf_recv].
    split; [|split; [exact Q2|split; [exact Q3|split; [exact Q4|exact Q5]]]].
    destruct (pf_client f), (pf_client g); split; discriminate.
  Qed.

  Theorem layout_invariant_vol : forall sid l1 l2 f1,
    Forall wf_pkt l1 -> Forall wf_pkt l2 -> (forall p, In p l1 <-> In p l2) -> consistent sid l1 ->
    read_file_vol md5 sid (frames l1) = RFOk sid f1 ->
    exists f2, read_file_vol md5 sid (frames l2) = RFOk sid f2 /\ pf_equiv f1 f2.
  Proof.
    intros sid l1 l2 f1 W1 W2 Hm Hc H.
    rewrite (read_file_vol_run sid l1 W1), run_vol_run in H.
    destruct (run sid l1) as [[g1 fd1]|] eqn:E1; [|discriminate H].
    destruct fd1; [|discriminate H].
    rewrite finish_vol in H. injection H as <-.
    destruct (run_invariant sid l1 l2 g1 true Hm Hc E1) as (g2 & E2 & Eq).
    exists (vol_client g2). split; [|apply vol_client_equiv; exact Eq].
    rewrite (read_file_vol_run sid l2 W2), run_vol_run, E2. apply finish_vol.
  Qed.

  (** ** 5. a file that loads as an index or ordinary file loads as a recovery file, to the same state
      (any bytes, not only sequences of well-formed packets) *)
  Lemma rf_finish_client_none setid found f s f' : pf_client f = None -> rf_finish setid found f <> RFOk s f'.
  Proof. intros Hc. unfold rf_finish. rewrite Hc. destruct (negb found); discriminate. Qed.

  Lemma read_file_go_client c : forall fuel buf setid found f s f',
    pf_client f = None -> read_file_go md5 fuel buf setid found f = RFOk s f' ->
    read_file_go md5 fuel buf setid found (with_client (Some c) f) = RFOk s f'.
  Proof.
    induction fuel as [|fuel IH]; intros buf setid found f s f' Hc H; [discriminate H|].
    rewrite read_file_go_S in H. rewrite read_file_go_S.
    destruct (read_next_packet md5 buf) as [| |psid ptype body rest].
    - exfalso. exact (rf_finish_client_none _ _ _ _ _ Hc H).
    - destruct (find_magic (tl buf)) as [rest|]; [(refine (IH _ _ _ _ _ _ _ H); exact Hc)|].
      exfalso. exact (rf_finish_client_none _ _ _ _ _ Hc H).
    - cbv zeta in H |- *.
      match type of H with (if ?b then _ else _) = _ => destruct b end; [(refine (IH _ _ _ _ _ _ _ H); exact Hc)|].
      destruct (bytes_eqb ptype TYPE_CREATOR); [exact H|].
      destruct (bytes_eqb ptype TYPE_MAIN).
      { destruct (read_main body) as [m|e|q]; try discriminate H. (refine (IH _ _ _ _ _ _ _ H); exact Hc). }
      destruct (bytes_eqb ptype TYPE_FDESC).
      { destruct (read_fdesc md5 body) as [[id d]|e|q]; try discriminate H. (refine (IH _ _ _ _ _ _ _ H); exact Hc). }
      destruct (bytes_eqb ptype TYPE_IFSC).
      { destruct (read_ifsc body) as [[id ps]|e|q]; try discriminate H. (refine (IH _ _ _ _ _ _ _ H); exact Hc). }
      destruct (bytes_eqb ptype TYPE_RECV).
      { destruct (read_recv body) as [[e d]|e|q]; try discriminate H.
        change (pf_recv (with_client (Some c) f)) with (pf_recv f).
        destruct (assoc_n (pf_recv f) e) as [d'|]; [|(refine (IH _ _ _ _ _ _ _ H); exact Hc)].
        destruct (bytes_eqb d' d); [(refine (IH _ _ _ _ _ _ _ H); exact Hc)|discriminate H]. }
      (refine (IH _ _ _ _ _ _ _ H); exact Hc).
  Qed.

  Theorem read_file_ok_vol : forall sid b s f, read_file md5 (Some sid) b = RFOk s f -> read_file_vol md5 sid b = RFOk s f.
  Proof.
    intros sid b s f H. unfold read_file in H. unfold read_file_vol.
    exact (read_file_go_client [] _ _ _ _ pf_empty _ _ eq_refl H).
  Qed.
End Layout.

Print Assumptions read_file_frames.
Print Assumptions layout_invariant.
Print Assumptions layout_invariant_index.
Print Assumptions read_file_frames_vol.
Print Assumptions layout_invariant_vol.
Print Assumptions read_file_ok_vol.
