(* The instruction-level model of the SSSE3 kernels (Model/Ssse3.v) computes
   exactly the word-wise model of Model/Kernels.v:
   - alt_std_inverse       the two byte shuffles are mutually inverse
   - mul_std_spec          one 32-byte chunk = word_ssse3 on each of its 16 words
   - muladd_std_spec       the same xored into the previous output
   - ssse3_chunks_eq_kern  the chunk loops = kern_ssse3 *)
From Coq Require Import Lia Btauto.
From Gopar Require Import Model.Base Model.GF16 Model.Kernels Model.Ssse3
     Proofs.GF16Facts Proofs.KernelFacts.
Open Scope N_scope.
Set Default Timeout 300.

(** * byte facts *)

Lemma land_ff a : a < 256 -> N.land a 255 = a.
Proof.
  intros H. change 255 with (N.ones 8). rewrite N.land_ones. apply N.mod_small. exact H.
Qed.

Lemma testbit_nib x : N.testbit (N.land x 15) 7 = false.
Proof. rewrite N.land_spec. change (N.testbit 15 7) with false. apply andb_false_r. Qed.

Lemma land_nib_idem x : N.land (N.land x 15) 15 = N.land x 15.
Proof. rewrite <- N.land_assoc. reflexivity. Qed.

Lemma sat_byte a : a < 256 -> sat_su a = a.
Proof.
  intros H. unfold sat_su.
  destruct (N.leb_spec 32768 a) as [?|_]; [lia|].
  destruct (N.ltb_spec 255 a) as [?|_]; [lia|reflexivity].
Qed.

(* PAND with the conversion mask, then PACKUSWB: the lane is the low byte, no saturation *)
Lemma sat_lo a x : a < 256 -> sat_su (N.land a 255 + 256 * N.land x 0) = a.
Proof.
  intros H. rewrite N.land_0_r, land_ff by exact H.
  rewrite N.mul_0_r, N.add_0_r. apply sat_byte. exact H.
Qed.

Lemma lane_srl_8 a b : a < 256 -> b < 256 -> lane_srl 8 (a + 256 * b) = b.
Proof.
  intros Ha Hb. unfold lane_srl. change (15 <? 8) with false. cbv iota.
  rewrite N.shiftr_div_pow2. change (2 ^ 8) with 256.
  symmetry. apply (N.div_unique (a + 256 * b) 256 b a); [exact Ha|lia].
Qed.

Lemma recombine x : x mod 256 + 256 * (x / 256) = x.
Proof. rewrite N.add_comm. symmetry. apply N.div_mod. discriminate. Qed.

(* PSRLW $8, then PACKUSWB: the lane is the high byte, no saturation *)
Lemma sat_hi a b : a < 256 -> b < 256 ->
  sat_su (lane_srl 8 (a + 256 * b) mod 256 + 256 * (lane_srl 8 (a + 256 * b) / 256)) = b.
Proof.
  intros Ha Hb. rewrite recombine, lane_srl_8 by assumption. apply sat_byte. exact Hb.
Qed.

(* PSRLW $4 shifts 16-bit lanes: the low byte receives the low nibble of the
   high byte in its bits 4..7, and the PAND with 0f removes it again *)
Lemma srl4_sweep :
  forallN 65536 (fun w => let a := w mod 256 in let b := w / 256 in
     (N.land (lane_srl 4 (a + 256 * b) mod 256) 15 =? N.land (N.shiftr a 4) 15) &&
     (N.land (lane_srl 4 (a + 256 * b) / 256) 15 =? N.land (N.shiftr b 4) 15)) = true.
Proof. vm_compute. reflexivity. Qed.

Lemma srl4 a b : a < 256 -> b < 256 ->
  N.land (lane_srl 4 (a + 256 * b) mod 256) 15 = N.land (N.shiftr a 4) 15 /\
  N.land (lane_srl 4 (a + 256 * b) / 256) 15 = N.land (N.shiftr b 4) 15.
Proof.
  intros Ha Hb. set (w := a + 256 * b).
  assert (Hw : w < 65536) by (unfold w; lia).
  pose proof (forallN_spec _ _ srl4_sweep w Hw) as S. cbv beta zeta in S.
  assert (E1 : w mod 256 = a).
  { symmetry. apply (N.mod_unique w 256 b a); [exact Ha|unfold w; lia]. }
  assert (E2 : w / 256 = b).
  { symmetry. apply (N.div_unique w 256 b a); [exact Ha|unfold w; lia]. }
  rewrite E1, E2 in S. fold w in S. apply andb_true_iff in S. destruct S as [S1 S2].
  apply N.eqb_eq in S1. apply N.eqb_eq in S2. split; assumption.
Qed.
Lemma srl4_lo a b : a < 256 -> b < 256 ->
  N.land (lane_srl 4 (a + 256 * b) mod 256) 15 = N.land (N.shiftr a 4) 15.
Proof. intros Ha Hb. exact (proj1 (srl4 a b Ha Hb)). Qed.
Lemma srl4_hi a b : a < 256 -> b < 256 ->
  N.land (lane_srl 4 (a + 256 * b) / 256) 15 = N.land (N.shiftr b 4) 15.
Proof. intros Ha Hb. exact (proj2 (srl4 a b Ha Hb)). Qed.

Lemma split_word a b : a < 256 -> b < 256 ->
  (a + 256 * b) mod 256 = a /\ (a + 256 * b) / 256 = b.
Proof.
  intros Ha Hb. split; symmetry.
  - apply (N.mod_unique _ 256 b a); [exact Ha|lia].
  - apply (N.div_unique _ 256 b a); [exact Ha|lia].
Qed.

Lemma lxor_byte a b : a < 256 -> b < 256 -> N.lxor a b < 256.
Proof.
  intros Ha Hb.
  rewrite <- (land_ff a Ha), <- (land_ff b Hb). change 255 with 0xFF.
  rewrite <- land_lxor_ff. change 0xFF with (N.ones 8). rewrite N.land_ones.
  apply N.mod_lt. discriminate.
Qed.

Lemma lxor_words a b c d : a < 256 -> b < 256 -> c < 256 -> d < 256 ->
  N.lxor (a + 256 * b) (c + 256 * d) = N.lxor a c + 256 * N.lxor b d.
Proof.
  intros Ha Hb Hc Hd.
  rewrite <- (proj1 (split_bytes a b Ha Hb)), <- (proj1 (split_bytes c d Hc Hd)).
  rewrite <- (proj1 (split_bytes _ _ (lxor_byte a c Ha Hc) (lxor_byte b d Hb Hd))).
  rewrite N.shiftl_lxor.
  rewrite !N.lxor_assoc. f_equal.
  rewrite <- !N.lxor_assoc. f_equal. apply N.lxor_comm.
Qed.

(** * lists of exactly 16 bytes *)

Ltac destr16 l H :=
  do 16 (destruct l as [|? l]; [exfalso; cbn in H; lia|]);
  destruct l; [|exfalso; cbn in H; lia]; clear H.

Ltac split_wf H :=
  unfold wf_bytes in H;
  repeat (let B := fresh "B" in apply Forall_cons_iff in H; destruct H as [B H]; unfold wf_byte in B);
  clear H.

Fixpoint evens (l : list N) : list N :=
  match l with x :: _ :: r => x :: evens r | _ => [] end.
Fixpoint odds (l : list N) : list N :=
  match l with _ :: y :: r => y :: odds r | _ => [] end.

Definition conv_mask : reg := [255;0;255;0;255;0;255;0;255;0;255;0;255;0;255;0].
Definition mul_mask : reg := [15;15;15;15;15;15;15;15;15;15;15;15;15;15;15;15].

(* SET_CONV_MASK_SSSE3 / SET_MUL_MASK_SSSE3 *)
Lemma conv_mask_eq : psrlw 8 (pshufb (zeros 16) (movq_x 255)) = conv_mask.
Proof. vm_compute. reflexivity. Qed.
Lemma mul_mask_eq : pshufb (zeros 16) (movq_x 15) = mul_mask.
Proof. vm_compute. reflexivity. Qed.
Lemma pxor_zeros : pxor (zeros 16) (zeros 16) = zeros 16.
Proof. vm_compute. reflexivity. Qed.

(* STANDARD_TO_ALT_MAP_SSSE3 *)
Lemma s2a_lo_spec in0 in1 :
  length in0 = 16%nat -> length in1 = 16%nat -> wf_bytes in0 -> wf_bytes in1 ->
  packuswb (pand conv_mask in1) (pand conv_mask in0) = evens in0 ++ evens in1.
Proof.
  intros L0 L1 W0 W1. destr16 in0 L0. destr16 in1 L1. split_wf W0. split_wf W1.
  cbn [pand conv_mask map2 packuswb le_words map app evens].
  rewrite !sat_lo by assumption. reflexivity.
Qed.

Lemma s2a_hi_spec in0 in1 :
  length in0 = 16%nat -> length in1 = 16%nat -> wf_bytes in0 -> wf_bytes in1 ->
  packuswb (psrlw 8 in1) (psrlw 8 in0) = odds in0 ++ odds in1.
Proof.
  intros L0 L1 W0 W1. destr16 in0 L0. destr16 in1 L1. split_wf W0. split_wf W1.
  cbn [psrlw packuswb le_words le_bytes map app odds].
  rewrite !sat_hi by assumption. reflexivity.
Qed.

(* ALT_TO_STANDARD_MAP_SSSE3 *)
Lemma a2s_lo_spec lo hi : length lo = 16%nat -> length hi = 16%nat ->
  punpcklbw hi lo = interleave (firstn 8 lo) (firstn 8 hi).
Proof. reflexivity. Qed.
Lemma a2s_hi_spec lo hi : length lo = 16%nat -> length hi = 16%nat ->
  punpckhbw hi lo = interleave (skipn 8 lo) (skipn 8 hi).
Proof. reflexivity. Qed.

Lemma interleave_evens_odds in0 in1 : length in0 = 16%nat -> length in1 = 16%nat ->
  punpcklbw (odds in0 ++ odds in1) (evens in0 ++ evens in1) = in0 /\
  punpckhbw (odds in0 ++ odds in1) (evens in0 ++ evens in1) = in1.
Proof. intros L0 L1. destr16 in0 L0. destr16 in1 L1. split; reflexivity. Qed.

(* MUL_ALT_MAP_SSSE3_BYTE *)
Definition flow_byte (T0 T1 T2 T3 : reg) (lo hi : N) : N :=
  N.lxor (N.lxor (N.lxor (nth (N.to_nat (N.land lo 15)) T0 0)
                         (nth (N.to_nat (N.land (N.shiftr lo 4) 15)) T1 0))
                 (nth (N.to_nat (N.land hi 15)) T2 0))
         (nth (N.to_nat (N.land (N.shiftr hi 4) 15)) T3 0).

Lemma nib_lo_spec T l : length l = 16%nat ->
  pshufb (pand mul_mask l) T = map (fun a => nth (N.to_nat (N.land a 15)) T 0) l.
Proof.
  intros L. destr16 l L.
  cbn [pand mul_mask map2 pshufb map].
  rewrite !testbit_nib, !land_nib_idem. reflexivity.
Qed.

Lemma nib_hi_spec T l : length l = 16%nat -> wf_bytes l ->
  pshufb (pand mul_mask (psrlw 4 l)) T =
  map (fun a => nth (N.to_nat (N.land (N.shiftr a 4) 15)) T 0) l.
Proof.
  intros L W. destr16 l L. split_wf W.
  cbn [psrlw le_words le_bytes pand mul_mask map2 pshufb map].
  rewrite !testbit_nib, !land_nib_idem.
  repeat match goal with
  | |- context [N.land (lane_srl 4 (?a + 256 * ?b) mod 256) 15] =>
      rewrite (srl4_lo a b), (srl4_hi a b) by assumption
  end.
  reflexivity.
Qed.

Lemma mul_byte_spec T0 T1 T2 T3 lo hi :
  length lo = 16%nat -> length hi = 16%nat -> wf_bytes lo -> wf_bytes hi ->
  pxor (pshufb (pand mul_mask (psrlw 4 hi)) T3)
       (pxor (pshufb (pand mul_mask hi) T2)
             (pxor (pshufb (pand mul_mask (psrlw 4 lo)) T1)
                   (pshufb (pand mul_mask lo) T0))) =
  map2 (flow_byte T0 T1 T2 T3) lo hi.
Proof.
  intros Ll Lh Wl Wh.
  rewrite !nib_hi_spec by assumption. rewrite !nib_lo_spec by assumption.
  clear Wl Wh. destr16 lo Ll. destr16 hi Lh. reflexivity.
Qed.

(** * the tables of a constant, and one word *)

Definition tbl_lo (c k : N) : reg := map (mt64_low c k) idx16.
Definition tbl_hi (c k : N) : reg := map (mt64_high c k) idx16.

Lemma nth_tbl (f : N -> N) n : n < 16 -> nth (N.to_nat n) (map f idx16) 0 = f n.
Proof.
  intros H. destruct n as [|p]; [reflexivity|].
  do 5 (try destruct p as [p|p|]); try reflexivity; exfalso; lia.
Qed.

(* the two output bytes the instruction sequence produces for the input word a + 256 b *)
Definition FL (c a b : N) : N := flow_byte (tbl_lo c 0) (tbl_lo c 1) (tbl_lo c 2) (tbl_lo c 3) a b.
Definition FH (c a b : N) : N := flow_byte (tbl_hi c 0) (tbl_hi c 1) (tbl_hi c 2) (tbl_hi c 3) a b.

Lemma FL_eq c a b : FL c a b = ssse3_byte (mt64_low c) a b.
Proof.
  unfold FL, flow_byte, ssse3_byte, tbl_lo. change 15 with 0xF.
  rewrite !nth_tbl by apply nib_lt. reflexivity.
Qed.
Lemma FH_eq c a b : FH c a b = ssse3_byte (mt64_high c) a b.
Proof.
  unfold FH, flow_byte, ssse3_byte, tbl_hi. change 15 with 0xF.
  rewrite !nth_tbl by apply nib_lt. reflexivity.
Qed.

Lemma land_ff_lt x : N.land x 0xFF < 256.
Proof. change 0xFF with (N.ones 8). rewrite N.land_ones. apply N.mod_lt. discriminate. Qed.

Lemma FL_lt c a b : FL c a b < 256.
Proof.
  rewrite FL_eq. unfold ssse3_byte, mt64_low.
  repeat apply lxor_byte; apply land_ff_lt.
Qed.
Lemma FH_lt c a b : FH c a b < 256.
Proof.
  rewrite FH_eq. unfold ssse3_byte, mt64_high.
  repeat apply lxor_byte; apply land_ff_lt.
Qed.

Lemma word_ssse3_FLH c a b : word_ssse3 c a b = FL c a b + 256 * FH c a b.
Proof. unfold word_ssse3. rewrite FL_eq, FH_eq. reflexivity. Qed.

Lemma put_mul c a b olo ohi :
  put_word false (word_ssse3 c a b) olo ohi = (FL c a b, FH c a b).
Proof.
  unfold put_word. rewrite word_ssse3_FLH.
  destruct (split_word _ _ (FL_lt c a b) (FH_lt c a b)) as [E1 E2]. rewrite E1, E2. reflexivity.
Qed.

Lemma put_muladd c a b olo ohi : olo < 256 -> ohi < 256 ->
  put_word true (word_ssse3 c a b) olo ohi = (N.lxor (FL c a b) olo, N.lxor (FH c a b) ohi).
Proof.
  intros Ho Hh. unfold put_word. rewrite word_ssse3_FLH.
  rewrite lxor_words by (try assumption; try apply FL_lt; apply FH_lt).
  rewrite (N.lxor_comm olo), (N.lxor_comm ohi).
  destruct (split_word _ _ (lxor_byte _ _ (FL_lt c a b) Ho) (lxor_byte _ _ (FH_lt c a b) Hh)) as [E1 E2].
  rewrite E1, E2. reflexivity.
Qed.

(* the 2n output bytes for n input words *)
Fixpoint mulpairs (c : N) (l : bytes) : bytes :=
  match l with
  | a :: b :: r => FL c a b :: FH c a b :: mulpairs c r
  | _ => []
  end.

Lemma mulpairs_length c : forall n l, length l = (2 * n)%nat -> length (mulpairs c l) = (2 * n)%nat.
Proof.
  induction n as [|n IH]; intros l H.
  - destruct l; [reflexivity|discriminate].
  - destruct l as [|a [|b r]]; try (cbn in H; lia).
    cbn [mulpairs length]. rewrite (IH r) by (cbn in H; lia). lia.
Qed.

Lemma mulpairs_wf c : forall n l, length l = (2 * n)%nat -> wf_bytes (mulpairs c l).
Proof.
  induction n as [|n IH]; intros l H.
  - destruct l; [constructor|discriminate].
  - destruct l as [|a [|b r]]; try (cbn in H; lia).
    cbn [mulpairs]. constructor; [apply FL_lt|]. constructor; [apply FH_lt|].
    apply IH. cbn in H. lia.
Qed.

Lemma mulpairs_app c : forall n l l', length l = (2 * n)%nat ->
  mulpairs c (l ++ l') = mulpairs c l ++ mulpairs c l'.
Proof.
  induction n as [|n IH]; intros l l' H.
  - destruct l; [reflexivity|discriminate].
  - destruct l as [|a [|b r]]; try (cbn in H; lia).
    cbn [app mulpairs]. rewrite (IH r l') by (cbn in H; lia). reflexivity.
Qed.

Lemma mulpairs_words c : forall n l, length l = (2 * n)%nat -> wf_bytes l ->
  le_bytes (map (fun w => word_ssse3 c (w mod 256) (w / 256)) (le_words l)) = mulpairs c l.
Proof.
  induction n as [|n IH]; intros l H W.
  - destruct l; [reflexivity|discriminate].
  - destruct l as [|a [|b r]]; try (cbn in H; lia).
    inversion W as [|? ? Ba W1]; subst. inversion W1 as [|? ? Bb W2]; subst.
    cbn [le_words map le_bytes mulpairs].
    destruct (split_word a b Ba Bb) as [E1 E2]. rewrite E1, E2.
    rewrite (IH r) by (try assumption; cbn in H; lia).
    pose proof (put_mul c a b 0 0) as P. unfold put_word in P.
    injection P as P1 P2. rewrite P1, P2. reflexivity.
Qed.

Lemma word_loop_S f acc n lo hi irest olo ohi orest :
  word_loop f acc (S n) (lo :: hi :: irest) (olo :: ohi :: orest) =
  fst (put_word acc (f lo hi) olo ohi) :: snd (put_word acc (f lo hi) olo ohi)
    :: word_loop f acc n irest orest.
Proof. cbn [word_loop]. destruct (put_word acc (f lo hi) olo ohi). reflexivity. Qed.

Lemma word_loop_mul c : forall n inb outb,
  length inb = (2 * n)%nat -> length outb = (2 * n)%nat ->
  word_loop (word_ssse3 c) false n inb outb = mulpairs c inb.
Proof.
  induction n as [|n IH]; intros inb outb Hi Ho.
  - destruct inb; [|discriminate]. destruct outb; [reflexivity|discriminate].
  - destruct inb as [|a [|b r]]; try (cbn in Hi; lia).
    destruct outb as [|olo [|ohi orest]]; try (cbn in Ho; lia).
    rewrite word_loop_S, put_mul. cbn [fst snd mulpairs].
    rewrite (IH r orest) by (cbn in Hi, Ho; lia). reflexivity.
Qed.

Lemma word_loop_muladd c : forall n inb outb,
  length inb = (2 * n)%nat -> length outb = (2 * n)%nat -> wf_bytes outb ->
  word_loop (word_ssse3 c) true n inb outb = map2 N.lxor (mulpairs c inb) outb.
Proof.
  induction n as [|n IH]; intros inb outb Hi Ho W.
  - destruct inb; [|discriminate]. destruct outb; [reflexivity|discriminate].
  - destruct inb as [|a [|b r]]; try (cbn in Hi; lia).
    destruct outb as [|olo [|ohi orest]]; try (cbn in Ho; lia).
    inversion W as [|? ? Ba W1]; subst. inversion W1 as [|? ? Bb W2]; subst.
    rewrite word_loop_S, put_muladd by assumption. cbn [fst snd mulpairs map2].
    rewrite (IH r orest) by (try assumption; cbn in Hi, Ho; lia). reflexivity.
Qed.

(** * the data flow of MUL_STANDARD_MAP_SSSE3 *)

Lemma evens_odds_props in0 in1 :
  length in0 = 16%nat -> length in1 = 16%nat -> wf_bytes in0 -> wf_bytes in1 ->
  length (evens in0 ++ evens in1) = 16%nat /\ length (odds in0 ++ odds in1) = 16%nat /\
  wf_bytes (evens in0 ++ evens in1) /\ wf_bytes (odds in0 ++ odds in1).
Proof.
  intros L0 L1 W0 W1. destr16 in0 L0. destr16 in1 L1. split_wf W0. split_wf W1.
  cbn [evens odds app]. repeat split; repeat (constructor; try assumption).
Qed.

Lemma unpack_spec c in0 in1 : length in0 = 16%nat -> length in1 = 16%nat ->
  let lo := evens in0 ++ evens in1 in
  let hi := odds in0 ++ odds in1 in
  let outLow := map2 (flow_byte (tbl_lo c 0) (tbl_lo c 1) (tbl_lo c 2) (tbl_lo c 3)) lo hi in
  let outHigh := map2 (flow_byte (tbl_hi c 0) (tbl_hi c 1) (tbl_hi c 2) (tbl_hi c 3)) lo hi in
  punpcklbw outHigh outLow = mulpairs c in0 /\ punpckhbw outHigh outLow = mulpairs c in1.
Proof.
  intros L0 L1. destr16 in0 L0. destr16 in1 L1. split; reflexivity.
Qed.

(* out0 and out1 of MUL_STANDARD_MAP_SSSE3 as the instructions compute them *)
Definition flow_out (unpack : reg -> reg -> reg) (c : N) (in0 in1 : reg) : reg :=
  unpack
    (pxor
       (pshufb (pand mul_mask (psrlw 4 (packuswb (psrlw 8 in1) (psrlw 8 in0)))) (tbl_hi c 3))
       (pxor
          (pshufb (pand mul_mask (packuswb (psrlw 8 in1) (psrlw 8 in0))) (tbl_hi c 2))
          (pxor
             (pshufb (pand mul_mask (psrlw 4 (packuswb (pand conv_mask in1) (pand conv_mask in0))))
                     (tbl_hi c 1))
             (pshufb (pand mul_mask (packuswb (pand conv_mask in1) (pand conv_mask in0)))
                     (tbl_hi c 0)))))
    (pxor
       (pshufb (pand mul_mask (psrlw 4 (packuswb (psrlw 8 in1) (psrlw 8 in0)))) (tbl_lo c 3))
       (pxor
          (pshufb (pand mul_mask (packuswb (psrlw 8 in1) (psrlw 8 in0))) (tbl_lo c 2))
          (pxor
             (pshufb (pand mul_mask (psrlw 4 (packuswb (pand conv_mask in1) (pand conv_mask in0))))
                     (tbl_lo c 1))
             (pshufb (pand mul_mask (packuswb (pand conv_mask in1) (pand conv_mask in0)))
                     (tbl_lo c 0))))).

Lemma flow_out_spec c in0 in1 :
  length in0 = 16%nat -> length in1 = 16%nat -> wf_bytes in0 -> wf_bytes in1 ->
  flow_out punpcklbw c in0 in1 = mulpairs c in0 /\ flow_out punpckhbw c in0 in1 = mulpairs c in1.
Proof.
  intros L0 L1 W0 W1. unfold flow_out.
  destruct (evens_odds_props in0 in1 L0 L1 W0 W1) as (Le & Lo & We & Wo).
  rewrite !s2a_lo_spec, !s2a_hi_spec by assumption.
  rewrite !mul_byte_spec by assumption.
  exact (unpack_spec c in0 in1 L0 L1).
Qed.

(** * running the programs *)

Lemma run_app p q st : run (p ++ q) st = run q (run p st).
Proof. unfold run. apply fold_left_app. Qed.

Lemma load16_full l : length l = 16%nat -> load16 l 0 = l.
Proof. intros H. unfold load16. cbn [skipn]. rewrite <- H. apply firstn_all. Qed.

Lemma store16_full l v : length l = 16%nat -> store16 l 0 v = v.
Proof.
  intros H. unfold store16. cbn [firstn Nat.add app]. rewrite <- H, skipn_all. apply app_nil_r.
Qed.

Lemma load_tbl c :
  load16 (table64 c) 0 = tbl_lo c 0 /\ load16 (table64 c) 16 = tbl_lo c 1 /\
  load16 (table64 c) 32 = tbl_lo c 2 /\ load16 (table64 c) 48 = tbl_lo c 3 /\
  load16 (table64 c) 64 = tbl_hi c 0 /\ load16 (table64 c) 80 = tbl_hi c 1 /\
  load16 (table64 c) 96 = tbl_hi c 2 /\ load16 (table64 c) 112 = tbl_hi c 3.
Proof. repeat split; reflexivity. Qed.

Ltac run_prog :=
  cbv -[pshufb pand pxor psrlw packuswb punpcklbw punpckhbw movq_x load16 store16 zeros
        table64 tbl_lo tbl_hi conv_mask mul_mask mt64_low mt64_high].

Ltac run_lhs :=
  match goal with
  | |- _ = ?R => let rhs := fresh "rhs" in let E := fresh "Erhs" in
                 remember R as rhs eqn:E; run_prog; subst rhs
  end.

Ltac fold_masks :=
  rewrite ?pxor_zeros; rewrite ?conv_mask_eq, ?mul_mask_eq.

Theorem std_to_alt_eq in0 in1 :
  length in0 = 16%nat -> length in1 = 16%nat -> wf_bytes in0 -> wf_bytes in1 ->
  std_to_alt in0 in1 = (evens in0 ++ evens in1, odds in0 ++ odds in1).
Proof.
  intros L0 L1 W0 W1. unfold std_to_alt. run_lhs.
  rewrite (load16_full in0), (load16_full in1) by assumption.
  rewrite !store16_full by reflexivity.
  fold_masks.
  rewrite s2a_lo_spec, s2a_hi_spec by assumption. reflexivity.
Qed.

Theorem alt_to_std_eq lo hi : length lo = 16%nat -> length hi = 16%nat ->
  alt_to_std lo hi = (interleave (firstn 8 lo) (firstn 8 hi), interleave (skipn 8 lo) (skipn 8 hi)).
Proof.
  intros Ll Lh. unfold alt_to_std. run_lhs.
  rewrite (load16_full lo), (load16_full hi) by assumption.
  rewrite !store16_full by reflexivity.
  reflexivity.
Qed.

(* the two byte shuffles are mutually inverse on well-formed registers *)
Theorem alt_std_inverse : forall in0 in1,
  length in0 = 16%nat -> length in1 = 16%nat -> wf_bytes in0 -> wf_bytes in1 ->
  let '(lo, hi) := std_to_alt in0 in1 in alt_to_std lo hi = (in0, in1).
Proof.
  intros in0 in1 L0 L1 W0 W1. rewrite std_to_alt_eq by assumption.
  destruct (evens_odds_props in0 in1 L0 L1 W0 W1) as (Le & Lo & _ & _).
  rewrite alt_to_std_eq by assumption.
  destruct (interleave_evens_odds in0 in1 L0 L1) as [E0 E1].
  unfold punpcklbw in E0. unfold punpckhbw in E1. rewrite E0, E1. reflexivity.
Qed.

Ltac fold_tables c :=
  destruct (load_tbl c) as (?E0 & ?E1 & ?E2 & ?E3 & ?E4 & ?E5 & ?E6 & ?E7);
  rewrite ?E0, ?E1, ?E2, ?E3, ?E4, ?E5, ?E6, ?E7.

Theorem mul_std_eq c in0 in1 :
  length in0 = 16%nat -> length in1 = 16%nat -> wf_bytes in0 -> wf_bytes in1 ->
  mul_std c in0 in1 = (mulpairs c in0, mulpairs c in1).
Proof.
  intros L0 L1 W0 W1. unfold mul_std. run_lhs.
  rewrite !(load16_full in0), !(load16_full in1) by assumption.
  rewrite !store16_full by reflexivity.
  fold_masks. fold_tables c.
  destruct (flow_out_spec c in0 in1 L0 L1 W0 W1) as [F0 F1]. unfold flow_out in F0, F1.
  rewrite F0, F1. reflexivity.
Qed.

Theorem muladd_std_eq c in0 in1 out0 out1 :
  length in0 = 16%nat -> length in1 = 16%nat -> wf_bytes in0 -> wf_bytes in1 ->
  length out0 = 16%nat -> length out1 = 16%nat ->
  muladd_std c in0 in1 out0 out1 =
  (map2 N.lxor (mulpairs c in0) out0, map2 N.lxor (mulpairs c in1) out1).
Proof.
  intros L0 L1 W0 W1 Lo0 Lo1. unfold muladd_std. run_lhs.
  rewrite !(load16_full in0), !(load16_full in1), (load16_full out0), (load16_full out1) by assumption.
  rewrite !store16_full by assumption.
  fold_masks. fold_tables c.
  destruct (flow_out_spec c in0 in1 L0 L1 W0 W1) as [F0 F1]. unfold flow_out in F0, F1.
  rewrite F0, F1. reflexivity.
Qed.

(* mulAltMapSSSE3Unsafe: byte i of the two outputs is the product of the word
   inLow[i] + 256 * inHigh[i] *)
Theorem mul_alt_eq c lo hi :
  length lo = 16%nat -> length hi = 16%nat -> wf_bytes lo -> wf_bytes hi ->
  mul_alt c lo hi = (map2 (FL c) lo hi, map2 (FH c) lo hi).
Proof.
  intros Ll Lh Wl Wh. unfold mul_alt. run_lhs.
  rewrite !(load16_full lo), !(load16_full hi) by assumption.
  rewrite !store16_full by reflexivity.
  fold_masks. fold_tables c.
  rewrite !mul_byte_spec by assumption. reflexivity.
Qed.

(* one 32-byte chunk: the instruction sequence computes, for each of the 16
   words, exactly word_ssse3 of the same-index word *)
Theorem mul_std_spec : forall c in0 in1,
  c < 65536 -> length in0 = 16%nat -> length in1 = 16%nat -> wf_bytes in0 -> wf_bytes in1 ->
  let '(o0, o1) := mul_std c in0 in1 in
  o0 ++ o1 = le_bytes (map (fun w => word_ssse3 c (w mod 256) (w / 256)) (le_words (in0 ++ in1))).
Proof.
  intros c in0 in1 _ L0 L1 W0 W1. rewrite mul_std_eq by assumption.
  rewrite (mulpairs_words c 16 (in0 ++ in1)).
  - symmetry. apply (mulpairs_app c 8). exact L0.
  - rewrite app_length, L0, L1. reflexivity.
  - apply Forall_app. split; assumption.
Qed.

(* the same with xor into the previous output words *)
Theorem muladd_std_spec : forall c in0 in1 out0 out1,
  c < 65536 -> length in0 = 16%nat -> length in1 = 16%nat -> wf_bytes in0 -> wf_bytes in1 ->
  length out0 = 16%nat -> length out1 = 16%nat -> wf_bytes out0 -> wf_bytes out1 ->
  let '(o0, o1) := muladd_std c in0 in1 out0 out1 in
  o0 ++ o1 = le_bytes (map2 (fun w o => N.lxor o (word_ssse3 c (w mod 256) (w / 256)))
                            (le_words (in0 ++ in1)) (le_words (out0 ++ out1))).
Proof.
  intros c in0 in1 out0 out1 _ L0 L1 W0 W1 Lo0 Lo1 Wo0 Wo1.
  rewrite muladd_std_eq by assumption.
  rewrite <- (word_loop_muladd c 8 in0 out0), <- (word_loop_muladd c 8 in1 out1) by assumption.
  destr16 in0 L0. destr16 in1 L1. destr16 out0 Lo0. destr16 out1 Lo1.
  split_wf W0. split_wf W1. split_wf Wo0. split_wf Wo1.
  rewrite !word_loop_S. cbn [word_loop app le_words map2 le_bytes].
  unfold put_word.
  repeat match goal with
  | |- context [(?a + 256 * ?b) mod 256] =>
      let E1 := fresh in let E2 := fresh in
      destruct (split_word a b) as [E1 E2]; [assumption|assumption|];
      rewrite !E1, !E2; clear E1 E2
  end.
  reflexivity.
Qed.

(** * the chunk loops *)

(* word_loop over a prefix, a suffix, a concatenation *)
Lemma word_loop_length f acc : forall n inb outb,
  length (word_loop f acc n inb outb) = length outb.
Proof.
  induction n as [|n IH]; intros inb outb; [reflexivity|].
  destruct inb as [|lo [|hi irest]]; try reflexivity.
  destruct outb as [|olo [|ohi orest]]; try reflexivity.
  rewrite word_loop_S. cbn [length]. rewrite IH. reflexivity.
Qed.

Lemma word_loop_skipn f acc : forall n inb outb,
  skipn (2 * n) (word_loop f acc n inb outb) = skipn (2 * n) outb.
Proof.
  induction n as [|n IH]; intros inb outb; [reflexivity|].
  destruct inb as [|lo [|hi irest]]; try reflexivity.
  destruct outb as [|olo [|ohi orest]]; try reflexivity.
  rewrite word_loop_S. replace (2 * S n)%nat with (S (S (2 * n))) by lia.
  cbn [skipn]. apply IH.
Qed.

Lemma word_loop_add f acc m : forall n inb outb,
  (2 * n <= length inb)%nat -> (2 * n <= length outb)%nat ->
  word_loop f acc (n + m) inb outb =
  firstn (2 * n) (word_loop f acc n inb outb)
    ++ word_loop f acc m (skipn (2 * n) inb) (skipn (2 * n) outb).
Proof.
  induction n as [|n IH]; intros inb outb Hi Ho; [reflexivity|].
  destruct inb as [|lo [|hi irest]]; try (cbn in Hi; lia).
  destruct outb as [|olo [|ohi orest]]; try (cbn in Ho; lia).
  change (S n + m)%nat with (S (n + m)). rewrite !word_loop_S.
  replace (2 * S n)%nat with (S (S (2 * n))) by lia.
  cbn [firstn skipn app]. rewrite IH by (cbn in Hi, Ho; lia). reflexivity.
Qed.

Lemma word_loop_prefix f acc : forall m inb outb,
  (2 * m <= length inb)%nat -> (2 * m <= length outb)%nat ->
  word_loop f acc m inb outb =
  word_loop f acc m (firstn (2 * m) inb) (firstn (2 * m) outb) ++ skipn (2 * m) outb.
Proof.
  induction m as [|m IH]; intros inb outb Hi Ho; [reflexivity|].
  destruct inb as [|lo [|hi irest]]; try (cbn in Hi; lia).
  destruct outb as [|olo [|ohi orest]]; try (cbn in Ho; lia).
  replace (2 * S m)%nat with (S (S (2 * m))) by lia.
  cbn [firstn skipn]. rewrite !word_loop_S. cbn [app].
  rewrite <- IH by (cbn in Hi, Ho; lia). reflexivity.
Qed.

Lemma map2_app {A B C} (f : A -> B -> C) : forall a a' b b', length a = length b ->
  map2 f (a ++ a') (b ++ b') = map2 f a b ++ map2 f a' b'.
Proof.
  induction a as [|x a IH]; intros a' b b' H.
  - destruct b; [reflexivity|discriminate].
  - destruct b as [|y b]; [discriminate|]. cbn [app map2]. rewrite IH by (cbn in H; lia). reflexivity.
Qed.

Lemma map2_length {A B C} (f : A -> B -> C) : forall a b, length a = length b ->
  length (map2 f a b) = length a.
Proof.
  induction a as [|x a IH]; intros b H; [reflexivity|].
  destruct b as [|y b]; [discriminate|]. cbn [map2 length]. rewrite IH by (cbn in H; lia). reflexivity.
Qed.

(* buffers cut at a chunk *)
Lemma firstn_len_app {A} (P R : list A) : firstn (length P) (P ++ R) = P.
Proof. induction P as [|x P IH]; [destruct R; reflexivity|]. cbn. rewrite IH. reflexivity. Qed.
Lemma skipn_len_app {A} (P R : list A) : skipn (length P) (P ++ R) = R.
Proof. induction P as [|x P IH]; [reflexivity|]. exact IH. Qed.
Lemma firstn_len_add_app {A} (P R : list A) n : firstn (length P + n) (P ++ R) = P ++ firstn n R.
Proof. induction P as [|x P IH]; [reflexivity|]. cbn. rewrite IH. reflexivity. Qed.
Lemma skipn_len_add_app {A} (P R : list A) n : skipn (length P + n) (P ++ R) = skipn n R.
Proof. induction P as [|x P IH]; [reflexivity|]. exact IH. Qed.
Lemma firstn16_app (B R : list N) : length B = 16%nat -> firstn 16 (B ++ R) = B.
Proof. intros H. rewrite <- H. apply firstn_len_app. Qed.
Lemma skipn16_app (B R : list N) : length B = 16%nat -> skipn 16 (B ++ R) = R.
Proof. intros H. rewrite <- H. apply skipn_len_app. Qed.

Lemma split_chunk (l : bytes) k : (k + 32 <= length l)%nat ->
  exists P B1 B0 Q, l = P ++ B1 ++ B0 ++ Q /\
    length P = k /\ length B1 = 16%nat /\ length B0 = 16%nat.
Proof.
  intros H.
  exists (firstn k l), (firstn 16 (skipn k l)), (firstn 16 (skipn 16 (skipn k l))),
         (skipn 16 (skipn 16 (skipn k l))).
  rewrite !firstn_skipn. split; [reflexivity|].
  rewrite !firstn_length, !skipn_length. lia.
Qed.

Section Cut.
  Variables (P B1 B0 Q : bytes) (k : nat).
  Hypothesis (LP : length P = k) (L1 : length B1 = 16%nat) (L0 : length B0 = 16%nat).

  Lemma cut_load1 : load16 (P ++ B1 ++ B0 ++ Q) k = B1.
  Proof. rewrite <- LP. unfold load16. rewrite skipn_len_app. apply firstn16_app. exact L1. Qed.
  Lemma cut_load0 : load16 (P ++ B1 ++ B0 ++ Q) (k + 16) = B0.
  Proof.
    rewrite <- LP. unfold load16. rewrite skipn_len_add_app, skipn16_app by exact L1.
    apply firstn16_app. exact L0.
  Qed.
  Lemma cut_store1 V : store16 (P ++ B1 ++ B0 ++ Q) k V = P ++ V ++ B0 ++ Q.
  Proof.
    rewrite <- LP. unfold store16.
    rewrite firstn_len_app, skipn_len_add_app, skipn16_app by exact L1. reflexivity.
  Qed.
  Lemma cut_store0 W : store16 (P ++ B1 ++ B0 ++ Q) (k + 16) W = P ++ B1 ++ W ++ Q.
  Proof.
    rewrite <- LP. unfold store16. rewrite firstn_len_add_app, firstn16_app by exact L1.
    rewrite <- Nat.add_assoc, skipn_len_add_app. cbn [Nat.add].
    change 32%nat with (16 + 16)%nat.
    replace (skipn (16 + 16) (B1 ++ B0 ++ Q)) with Q.
    - rewrite <- app_assoc. reflexivity.
    - rewrite <- L1 at 1. rewrite skipn_len_add_app. symmetry. apply skipn16_app. exact L0.
  Qed.
  Lemma cut_skip : skipn k (P ++ B1 ++ B0 ++ Q) = B1 ++ B0 ++ Q.
  Proof. rewrite <- LP. apply skipn_len_app. Qed.
  Lemma cut_chunk : firstn 32 (skipn k (P ++ B1 ++ B0 ++ Q)) = B1 ++ B0.
  Proof.
    rewrite cut_skip, app_assoc.
    replace 32%nat with (length (B1 ++ B0)) by (rewrite app_length; lia).
    apply firstn_len_app.
  Qed.
  Lemma cut_prefix : firstn k (P ++ B1 ++ B0 ++ Q) = P.
  Proof. rewrite <- LP. apply firstn_len_app. Qed.
  Lemma cut_suffix : skipn (k + 32) (P ++ B1 ++ B0 ++ Q) = Q.
  Proof.
    rewrite <- LP. rewrite skipn_len_add_app, app_assoc.
    replace 32%nat with (length (B1 ++ B0)) by (rewrite app_length; lia).
    apply skipn_len_app.
  Qed.
End Cut.

Lemma wf_app_l a b : wf_bytes (a ++ b) -> wf_bytes a.
Proof. intros H. apply Forall_app in H. tauto. Qed.
Lemma wf_app_r a b : wf_bytes (a ++ b) -> wf_bytes b.
Proof. intros H. apply Forall_app in H. tauto. Qed.

Definition slice_body (acc : bool) : list instr :=
  if acc then mulAndAddSliceSSSE3Unsafe_body else mulSliceSSSE3Unsafe_body.

Ltac run_body :=
  cbv -[pshufb pand pxor psrlw packuswb punpcklbw punpckhbw movq_x load16 store16 zeros
        table64 tbl_lo tbl_hi conv_mask mul_mask mt64_low mt64_high
        N.add N.sub N.modulo N.to_nat two64].

(* the loop body, as executed: registers, pointers, counter, and the two stores *)
Lemma body_mul_run c x0 x1 x2 x3 x4 x5 a off (tb inb ob : bytes) A :
  let I1 := load16 inb (N.to_nat (off + 0)) in
  let I0 := load16 inb (N.to_nat (off + 16)) in
  exists y0 y1 y2 y3 y4 y5,
  run mulSliceSSSE3Unsafe_body
      (mkState [x0;x1;x2;x3;x4;x5;conv_mask;mul_mask;
                tbl_lo c 0; tbl_lo c 1; tbl_lo c 2; tbl_lo c 3;
                tbl_hi c 0; tbl_hi c 1; tbl_hi c 2; tbl_hi c 3]
               [GInt a; GPtr 1 off; GPtr 2 off] [tb; inb; ob] A) =
  mkState [y0;y1;y2;y3;y4;y5;conv_mask;mul_mask;
           tbl_lo c 0; tbl_lo c 1; tbl_lo c 2; tbl_lo c 3;
           tbl_hi c 0; tbl_hi c 1; tbl_hi c 2; tbl_hi c 3]
          [GInt ((a + two64 - 1) mod two64); GPtr 1 (off + 32); GPtr 2 (off + 32)]
          [tb; inb;
           store16 (store16 ob (N.to_nat (off + 0)) (flow_out punpckhbw c I0 I1))
                   (N.to_nat (off + 16)) (flow_out punpcklbw c I0 I1)] A.
Proof. do 6 eexists. run_body. reflexivity. Qed.

Lemma body_muladd_run c x0 x1 x2 x3 x4 x5 a off (tb inb ob : bytes) A :
  let I1 := load16 inb (N.to_nat (off + 0)) in
  let I0 := load16 inb (N.to_nat (off + 16)) in
  let R1 := pxor (load16 ob (N.to_nat (off + 0))) (flow_out punpckhbw c I0 I1) in
  let ob1 := store16 ob (N.to_nat (off + 0)) R1 in
  let R0 := pxor (load16 ob1 (N.to_nat (off + 16))) (flow_out punpcklbw c I0 I1) in
  exists y0 y1 y2 y3 y4 y5,
  run mulAndAddSliceSSSE3Unsafe_body
      (mkState [x0;x1;x2;x3;x4;x5;conv_mask;mul_mask;
                tbl_lo c 0; tbl_lo c 1; tbl_lo c 2; tbl_lo c 3;
                tbl_hi c 0; tbl_hi c 1; tbl_hi c 2; tbl_hi c 3]
               [GInt a; GPtr 1 off; GPtr 2 off] [tb; inb; ob] A) =
  mkState [y0;y1;y2;y3;y4;y5;conv_mask;mul_mask;
           tbl_lo c 0; tbl_lo c 1; tbl_lo c 2; tbl_lo c 3;
           tbl_hi c 0; tbl_hi c 1; tbl_hi c 2; tbl_hi c 3]
          [GInt ((a + two64 - 1) mod two64); GPtr 1 (off + 32); GPtr 2 (off + 32)]
          [tb; inb; store16 ob1 (N.to_nat (off + 16)) R0] A.
Proof. do 6 eexists. run_body. reflexivity. Qed.

Lemma counter_dec a : 1 <= a -> a < two64 -> (a + two64 - 1) mod two64 = a - 1.
Proof.
  intros H1 H2. replace (a + two64 - 1) with ((a - 1) + 1 * two64) by (unfold two64 in *; lia).
  rewrite N.mod_add by discriminate. apply N.mod_small. lia.
Qed.

(* one iteration of either slice loop rewrites exactly one 32-byte chunk of out *)
Lemma body_step c acc x0 x1 x2 x3 x4 x5 a off (tb inb ob : bytes) A k :
  k = N.to_nat off -> (k + 32 <= length inb)%nat -> (k + 32 <= length ob)%nat ->
  wf_bytes inb -> wf_bytes (skipn k ob) -> 1 <= a -> a < two64 ->
  exists y0 y1 y2 y3 y4 y5,
  run (slice_body acc)
      (mkState [x0;x1;x2;x3;x4;x5;conv_mask;mul_mask;
                tbl_lo c 0; tbl_lo c 1; tbl_lo c 2; tbl_lo c 3;
                tbl_hi c 0; tbl_hi c 1; tbl_hi c 2; tbl_hi c 3]
               [GInt a; GPtr 1 off; GPtr 2 off] [tb; inb; ob] A) =
  mkState [y0;y1;y2;y3;y4;y5;conv_mask;mul_mask;
           tbl_lo c 0; tbl_lo c 1; tbl_lo c 2; tbl_lo c 3;
           tbl_hi c 0; tbl_hi c 1; tbl_hi c 2; tbl_hi c 3]
          [GInt (a - 1); GPtr 1 (off + 32); GPtr 2 (off + 32)]
          [tb; inb;
           firstn k ob
             ++ word_loop (word_ssse3 c) acc 16 (firstn 32 (skipn k inb)) (firstn 32 (skipn k ob))
             ++ skipn (k + 32) ob] A.
Proof.
  intros Hk Hi Ho Wi Wo Ha1 Ha2.
  assert (K0 : N.to_nat (off + 0) = k) by lia.
  assert (K16 : N.to_nat (off + 16) = (k + 16)%nat) by lia.
  destruct (split_chunk inb k Hi) as (Pi & I1 & I0 & Qi & Ei & LPi & LI1 & LI0).
  destruct (split_chunk ob k Ho) as (Po & B1 & B0 & Qo & Eo & LPo & LB1 & LB0).
  subst inb ob.
  rewrite (cut_skip Po B1 B0 Qo k LPo) in Wo.
  assert (WI1 : wf_bytes I1) by (apply wf_app_r in Wi; apply wf_app_l in Wi; exact Wi).
  assert (WI0 : wf_bytes I0) by (do 2 apply wf_app_r in Wi; apply wf_app_l in Wi; exact Wi).
  assert (WB : wf_bytes (B1 ++ B0)) by (rewrite app_assoc in Wo; apply wf_app_l in Wo; exact Wo).
  destruct (flow_out_spec c I0 I1 LI0 LI1 WI0 WI1) as [F0 F1].
  assert (M1 : length (mulpairs c I1) = 16%nat) by (apply (mulpairs_length c 8); exact LI1).
  assert (M0 : length (mulpairs c I0) = 16%nat) by (apply (mulpairs_length c 8); exact LI0).
  rewrite (cut_prefix Po B1 B0 Qo k LPo), (cut_suffix Po B1 B0 Qo k LPo LB1 LB0),
          (cut_chunk Po B1 B0 Qo k LPo LB1 LB0), (cut_chunk Pi I1 I0 Qi k LPi LI1 LI0).
  destruct acc; unfold slice_body; cbv iota.
  - pose proof (body_muladd_run c x0 x1 x2 x3 x4 x5 a off tb (Pi ++ I1 ++ I0 ++ Qi)
                                (Po ++ B1 ++ B0 ++ Qo) A) as R.
    cbv zeta in R. destruct R as (y0 & y1 & y2 & y3 & y4 & y5 & R).
    exists y0, y1, y2, y3, y4, y5. rewrite R. clear R.
    rewrite (counter_dec a Ha1 Ha2), K0, K16.
    rewrite (cut_load1 Pi I1 I0 Qi k LPi LI1), (cut_load0 Pi I1 I0 Qi k LPi LI1 LI0).
    rewrite F0, F1.
    rewrite (cut_load1 Po B1 B0 Qo k LPo LB1), (cut_store1 Po B1 B0 Qo k LPo LB1).
    assert (LR1 : length (pxor B1 (mulpairs c I1)) = 16%nat).
    { unfold pxor. rewrite map2_length; [exact M1|rewrite M1, LB1; reflexivity]. }
    rewrite (cut_load0 Po _ B0 Qo k LPo LR1 LB0), (cut_store0 Po _ B0 Qo k LPo LR1 LB0).
    rewrite (word_loop_muladd c 16) by (try exact WB; rewrite app_length; lia).
    rewrite (mulpairs_app c 8) by exact LI1.
    rewrite map2_app by (rewrite M1, LB1; reflexivity).
    unfold pxor. rewrite <- app_assoc. reflexivity.
  - pose proof (body_mul_run c x0 x1 x2 x3 x4 x5 a off tb (Pi ++ I1 ++ I0 ++ Qi)
                             (Po ++ B1 ++ B0 ++ Qo) A) as R.
    cbv zeta in R. destruct R as (y0 & y1 & y2 & y3 & y4 & y5 & R).
    exists y0, y1, y2, y3, y4, y5. rewrite R. clear R.
    rewrite (counter_dec a Ha1 Ha2), K0, K16.
    rewrite (cut_load1 Pi I1 I0 Qi k LPi LI1), (cut_load0 Pi I1 I0 Qi k LPi LI1 LI0).
    rewrite F0, F1.
    rewrite (cut_store1 Po B1 B0 Qo k LPo LB1).
    rewrite (cut_store0 Po _ B0 Qo k LPo M1 LB0).
    rewrite (word_loop_mul c 16) by (rewrite app_length; lia).
    rewrite (mulpairs_app c 8) by exact LI1.
    rewrite <- app_assoc. reflexivity.
Qed.

Lemma skipn_add {A} : forall a b (l : list A), skipn (a + b) l = skipn b (skipn a l).
Proof.
  induction a as [|a IH]; intros b l; [reflexivity|].
  destruct l as [|x l]; [cbn; rewrite skipn_nil; reflexivity|]. cbn. apply IH.
Qed.

(* the buffer after i+1 chunks from the buffer after i chunks *)
Lemma chunk_step c acc inb outb i :
  (32 * i + 32 <= length inb)%nat -> length inb = length outb ->
  let O := word_loop (word_ssse3 c) acc (16 * i) inb outb in
  word_loop (word_ssse3 c) acc (16 * S i) inb outb =
  firstn (32 * i) O
    ++ word_loop (word_ssse3 c) acc 16 (firstn 32 (skipn (32 * i) inb)) (firstn 32 (skipn (32 * i) O))
    ++ skipn (32 * i + 32) O.
Proof.
  intros Hi Hl O.
  assert (SK : skipn (32 * i) O = skipn (32 * i) outb).
  { unfold O. replace (32 * i)%nat with (2 * (16 * i))%nat by lia. apply word_loop_skipn. }
  rewrite skipn_add, SK.
  replace (16 * S i)%nat with (16 * i + 16)%nat by lia.
  rewrite word_loop_add by lia.
  replace (2 * (16 * i))%nat with (32 * i)%nat by lia. fold O.
  f_equal.
  rewrite (word_loop_prefix _ acc 16) by (rewrite skipn_length; lia).
  reflexivity.
Qed.

Definition slice_args (inb outb : bytes) : list gval :=
  [GPtr 0 0; GPtr 1 0; GInt (lenN inb); GInt (lenN inb); GPtr 2 0; GInt (lenN outb); GInt (lenN outb)].

Lemma pre_run c (inb outb : bytes) :
  run mulSliceSSSE3Unsafe_pre (init_state (slice_args inb outb) [table64 c; inb; outb]) =
  mkState [zeros 16; zeros 16; zeros 16; zeros 16; zeros 16; zeros 16; conv_mask; mul_mask;
           tbl_lo c 0; tbl_lo c 1; tbl_lo c 2; tbl_lo c 3;
           tbl_hi c 0; tbl_hi c 1; tbl_hi c 2; tbl_hi c 3]
          [GInt (N.shiftr (lenN inb) 5); GPtr 1 0; GPtr 2 0]
          [table64 c; inb; outb] (slice_args inb outb).
Proof.
  match goal with
  | |- _ = ?R => remember R as rhs eqn:E
  end.
  cbv -[pshufb pand pxor psrlw packuswb punpcklbw punpckhbw movq_x load16 store16 zeros
        table64 tbl_lo tbl_hi conv_mask mul_mask mt64_low mt64_high lenN N.shiftr].
  subst rhs. fold_masks. fold_tables c. reflexivity.
Qed.

Section Loop.
  Variables (c : N) (acc : bool) (inb outb : bytes) (n : nat) (A : list gval).
  Hypothesis Hn : (32 * n <= length inb)%nat.
  Hypothesis Hl : length inb = length outb.
  Hypothesis Wi : wf_bytes inb.
  Hypothesis Wo : wf_bytes outb.
  Hypothesis Hn64 : N.of_nat n < two64.

  Lemma loop_run : forall fuel i x0 x1 x2 x3 x4 x5,
    (i + fuel = n)%nat -> (1 <= fuel)%nat ->
    membuf (run_loop fuel AX (slice_body acc)
              (mkState [x0;x1;x2;x3;x4;x5;conv_mask;mul_mask;
                        tbl_lo c 0; tbl_lo c 1; tbl_lo c 2; tbl_lo c 3;
                        tbl_hi c 0; tbl_hi c 1; tbl_hi c 2; tbl_hi c 3]
                       [GInt (N.of_nat (n - i)); GPtr 1 (N.of_nat (32 * i)); GPtr 2 (N.of_nat (32 * i))]
                       [table64 c; inb; word_loop (word_ssse3 c) acc (16 * i) inb outb] A)) 2 =
    word_loop (word_ssse3 c) acc (16 * n) inb outb.
  Proof.
    induction fuel as [|fuel IH]; intros i x0 x1 x2 x3 x4 x5 Hif Hf; [lia|].
    cbn [run_loop].
    set (O := word_loop (word_ssse3 c) acc (16 * i) inb outb).
    assert (LO : length O = length outb) by apply word_loop_length.
    assert (SK : skipn (32 * i) O = skipn (32 * i) outb).
    { unfold O. replace (32 * i)%nat with (2 * (16 * i))%nat by lia. apply word_loop_skipn. }
    destruct (body_step c acc x0 x1 x2 x3 x4 x5 (N.of_nat (n - i)) (N.of_nat (32 * i))
                        (table64 c) inb O A (32 * i)%nat) as (y0 & y1 & y2 & y3 & y4 & y5 & E).
    - lia.
    - lia.
    - lia.
    - exact Wi.
    - rewrite SK. apply wf_skipn. exact Wo.
    - lia.
    - unfold two64 in *. lia.
    - rewrite E. clear E. subst O.
      rewrite <- (chunk_step c acc inb outb i) by lia.
      cbn [getg sg nth AX].
      replace (N.of_nat (32 * i) + 32) with (N.of_nat (32 * S i)) by lia.
      destruct fuel as [|fuel].
      + replace (N.of_nat (n - i) - 1) with 0 by lia.
        cbn [membuf sm nth]. replace n with (S i) by lia. reflexivity.
      + replace (N.of_nat (n - i) - 1) with (N.of_nat (n - S i)) by lia.
        destruct (N.of_nat (n - S i)) eqn:Ez; [lia|]. rewrite <- Ez.
        apply IH; lia.
  Qed.
End Loop.

(* the chunk loop equals the word-wise kernel model of Model/Kernels.v on every
   buffer the Go code calls it on (equal lengths, at least one chunk; a slice
   length fits in 64 bits).  Like kern_ssse3, ssse3_chunks leaves the bytes
   beyond the last full chunk unchanged. *)
Theorem ssse3_chunks_eq_kern : forall c acc inb outb,
  c < 65536 -> wf_bytes inb -> wf_bytes outb ->
  length inb = length outb -> (32 <= length inb)%nat -> lenN inb < two64 ->
  kern_ssse3 c acc inb outb = Ok (ssse3_chunks c acc inb outb).
Proof.
  intros c acc inb outb _ Wi Wo Hl H32 H64.
  assert (El : lenN outb = lenN inb) by (unfold lenN; rewrite Hl; reflexivity).
  unfold kern_ssse3, ssse3_extent, ssse3_chunks.
  fold (slice_args inb outb). fold (slice_body acc).
  replace (if acc then mulAndAddSliceSSSE3Unsafe_pre else mulSliceSSSE3Unsafe_pre)
    with mulSliceSSSE3Unsafe_pre by (destruct acc; reflexivity).
  rewrite pre_run. cbn [getg sg nth AX].
  rewrite El, N.shiftr_div_pow2. change (2 ^ 5) with 32.
  set (k := lenN inb / 32).
  assert (Hk : k <> 0) by (unfold k, lenN in *; lia).
  unfold dowhile_iters. destruct (N.eqb_spec k 0) as [?|_]; [contradiction|].
  assert (Hext : 32 * k <= lenN inb) by (unfold k; lia).
  destruct (N.ltb_spec (lenN inb) (32 * k)) as [?|_]; [lia|]. cbn [orb].
  f_equal.
  set (n := N.to_nat k).
  replace (N.to_nat (16 * k)) with (16 * n)%nat by lia.
  symmetry.
  replace k with (N.of_nat (n - 0)) by lia.
  apply (loop_run c acc inb outb n (slice_args inb outb)) with (i := 0%nat);
    try assumption; unfold n, lenN, two64 in *; lia.
Qed.

(** * corollaries: the instruction sequence multiplies in GF(2^16) *)

Lemma words_fmul c : forall n l, c < 65536 -> length l = (2 * n)%nat -> wf_bytes l ->
  map (fun w => word_ssse3 c (w mod 256) (w / 256)) (le_words l) = map (fmul c) (le_words l).
Proof.
  intros n l Hc. revert l. induction n as [|n IH]; intros l H W.
  - destruct l; [reflexivity|discriminate].
  - destruct l as [|a [|b r]]; try (cbn in H; lia).
    inversion W as [|? ? Ba W1]; subst. inversion W1 as [|? ? Bb W2]; subst.
    cbn [le_words map]. rewrite (IH r) by (try assumption; cbn in H; lia).
    destruct (split_word a b Ba Bb) as [E1 E2]. rewrite E1, E2.
    rewrite word_ssse3_spec by assumption. reflexivity.
Qed.

Theorem mul_std_fmul : forall c in0 in1,
  c < 65536 -> length in0 = 16%nat -> length in1 = 16%nat -> wf_bytes in0 -> wf_bytes in1 ->
  let '(o0, o1) := mul_std c in0 in1 in
  o0 ++ o1 = le_bytes (map (fmul c) (le_words (in0 ++ in1))).
Proof.
  intros c in0 in1 Hc L0 L1 W0 W1.
  pose proof (mul_std_spec c in0 in1 Hc L0 L1 W0 W1) as S.
  destruct (mul_std c in0 in1) as [o0 o1]. rewrite S.
  rewrite (words_fmul c 16); [reflexivity|exact Hc| |apply Forall_app; split; assumption].
  rewrite app_length, L0, L1. reflexivity.
Qed.
