(* C09: every kernel path computes element-wise field multiplication and stays
   inside its buffers. *)
From Coq Require Import Lia Btauto ZifyN ZifyNat ZifyBool.
From Gopar Require Import Model.Base Model.GF16 Model.Kernels
     Proofs.GF16Facts Proofs.GF16Tables.
Open Scope N_scope.
Set Default Timeout 120.
Ltac Zify.zify_post_hook ::= Z.div_mod_to_equations.

(** ** splitting a word into bytes / nibbles (finite sweep over all 65536 words) *)

Definition nibs (lo hi : N) : N :=
  N.lxor (N.lxor (N.lxor (N.shiftl (N.land lo 0xF) (4 * 0)) (N.shiftl (N.land (N.shiftr lo 4) 0xF) (4 * 1)))
                 (N.shiftl (N.land hi 0xF) (4 * 2)))
         (N.shiftl (N.land (N.shiftr hi 4) 0xF) (4 * 3)).

Lemma split_sweep :
  forallN 65536 (fun w => let lo := w mod 256 in let hi := w / 256 in
     (N.lxor lo (N.shiftl hi 8) =? w) && (nibs lo hi =? w)) = true.
Proof. vm_compute. reflexivity. Qed.

Lemma split_bytes lo hi : lo < 256 -> hi < 256 ->
  N.lxor lo (N.shiftl hi 8) = lo + 256 * hi /\ nibs lo hi = lo + 256 * hi.
Proof.
  intros Hl Hh. set (w := lo + 256 * hi).
  assert (Hw : w < 65536) by (unfold w; lia).
  pose proof (forallN_spec _ _ split_sweep w Hw) as S. cbv beta zeta in S.
  assert (E1 : w mod 256 = lo) by (unfold w; lia).
  assert (E2 : w / 256 = hi) by (unfold w; lia).
  rewrite E1, E2 in S. apply andb_true_iff in S. destruct S as [S1 S2].
  apply N.eqb_eq in S1. apply N.eqb_eq in S2. split; assumption.
Qed.

Lemma nib_lt x : N.land x 0xF < 16.
Proof. change 0xF with (N.ones 4). rewrite N.land_ones. apply N.mod_lt. discriminate. Qed.

Lemma shiftl_nib_lt x k : k < 4 -> N.shiftl (N.land x 0xF) (4 * k) < 65536.
Proof.
  intros Hk. pose proof (nib_lt x) as H. rewrite N.shiftl_mul_pow2.
  assert (Hc : k = 0 \/ k = 1 \/ k = 2 \/ k = 3) by lia.
  destruct Hc as [E|[E|[E|E]]]; subst k; cbn; lia.
Qed.

(** ** per-word lemmas *)

Lemma word_generic_spec c lo hi : c < 65536 -> lo < 256 -> hi < 256 ->
  word_generic c lo hi = fmul c (lo + 256 * hi).
Proof.
  intros Hc Hl Hh. unfold word_generic, mt_s0, mt_s8.
  assert (Hs : N.shiftl hi 8 < 65536) by (rewrite N.shiftl_mul_pow2; cbn; lia).
  rewrite !T_Times_spec by lia. rewrite <- fmul_lxor_r.
  f_equal. apply split_bytes; assumption.
Qed.

Lemma land_lxor_ff a b : N.land (N.lxor a b) 0xFF = N.lxor (N.land a 0xFF) (N.land b 0xFF).
Proof. apply N.bits_inj. intros n. rewrite ?N.land_spec, ?N.lxor_spec, ?N.land_spec. btauto. Qed.

Lemma bytes_of_word x : x < 65536 -> N.land x 0xFF + 256 * N.land (N.shiftr x 8) 0xFF = x.
Proof.
  intros H. change 0xFF with (N.ones 8). rewrite !N.land_ones, N.shiftr_div_pow2.
  change (2 ^ 8) with 256. lia.
Qed.

Lemma word_ssse3_spec c lo hi : c < 65536 -> lo < 256 -> hi < 256 ->
  word_ssse3 c lo hi = fmul c (lo + 256 * hi).
Proof.
  intros Hc Hl Hh. unfold word_ssse3, ssse3_byte, mt64_low, mt64_high.
  rewrite <- !land_lxor_ff, <- !N.shiftr_lxor.
  unfold mt64. rewrite !T_Times_spec by (try exact Hc; apply shiftl_nib_lt; lia).
  rewrite <- !fmul_lxor_r. fold (nibs lo hi).
  rewrite (proj2 (split_bytes lo hi Hl Hh)).
  apply bytes_of_word. apply fmul_lt.
Qed.

(** ** loops *)

Lemma le_bytes_app a b : le_bytes (a ++ b) = le_bytes a ++ le_bytes b.
Proof. induction a as [|x a IH]; [reflexivity|]. cbn. rewrite IH. reflexivity. Qed.

Lemma kspec_length acc c : forall n inb outb,
  length inb = (2 * n)%nat -> length outb = (2 * n)%nat -> length (kspec acc c inb outb) = (2 * n)%nat.
Proof.
  induction n as [|n IH]; intros inb outb Hi Ho.
  - destruct inb; [|discriminate]. reflexivity.
  - destruct inb as [|lo [|hi irest]]; try (cbn in Hi; lia).
    destruct outb as [|olo [|ohi orest]]; try (cbn in Ho; lia).
    unfold kspec. cbn [le_words map2 le_bytes length].
    change (le_bytes (map2 _ (le_words irest) (le_words orest))) with (kspec acc c irest orest).
    rewrite (IH irest orest); cbn in Hi, Ho; lia.
Qed.

Section Loop.
  Variables (f : N -> N -> N) (c : N) (acc : bool).
  Hypothesis f_spec : forall lo hi, lo < 256 -> hi < 256 -> f lo hi = fmul c (lo + 256 * hi).

  Lemma word_loop_spec : forall n inb outb,
    (2 * n <= length inb)%nat -> (2 * n <= length outb)%nat -> wf_bytes inb ->
    word_loop f acc n inb outb =
      kspec acc c (firstn (2 * n) inb) (firstn (2 * n) outb) ++ skipn (2 * n) outb.
  Proof.
    induction n as [|n IH]; intros inb outb Hi Ho Wi.
    - reflexivity.
    - destruct inb as [|lo [|hi irest]]; try (cbn in Hi; lia).
      destruct outb as [|olo [|ohi orest]]; try (cbn in Ho; lia).
      replace (2 * S n)%nat with (S (S (2 * n))) by lia.
      cbn [word_loop firstn skipn]. unfold put_word.
      inversion Wi as [|? ? Wlo Wi1]; subst. inversion Wi1 as [|? ? Whi Wi2]; subst.
      rewrite f_spec by assumption.
      rewrite IH by (try assumption; cbn in Hi, Ho; lia).
      unfold kspec. cbn [le_words map2 le_bytes app].
      destruct acc; reflexivity.
  Qed.
End Loop.

Lemma kspec_app acc c : forall n a a' b b',
  length a = (2 * n)%nat -> length a' = (2 * n)%nat ->
  kspec acc c (a ++ b) (a' ++ b') = kspec acc c a a' ++ kspec acc c b b'.
Proof.
  induction n as [|n IH]; intros a a' b b' Ha Ha'.
  - destruct a; [|discriminate]. destruct a'; [|discriminate]. reflexivity.
  - destruct a as [|lo [|hi ar]]; try (cbn in Ha; lia).
    destruct a' as [|olo [|ohi ar']]; try (cbn in Ha'; lia).
    unfold kspec. cbn [app le_words map2 le_bytes].
    change (le_bytes (map2 _ (le_words (ar ++ b)) (le_words (ar' ++ b')))) with (kspec acc c (ar ++ b) (ar' ++ b')).
    rewrite (IH ar ar' b b') by (cbn in Ha, Ha'; lia). reflexivity.
Qed.

(** ** the paths *)

Lemma In_firstn' {A} n (l : list A) x : In x (firstn n l) -> In x l.
Proof. revert l. induction n as [|n IH]; intros l H; [destruct H|]. destruct l; [exact H|].
       destruct H as [H|H]; [left; exact H|right; apply IH; exact H]. Qed.
Lemma wf_firstn n l : wf_bytes l -> wf_bytes (firstn n l).
Proof. intros H. apply Forall_forall. intros x Hx. eapply Forall_forall in H; [exact H|].
       eapply In_firstn'; eauto. Qed.
Lemma In_skipn {A} n (l : list A) x : In x (skipn n l) -> In x l.
Proof. revert l. induction n as [|n IH]; intros l H; [exact H|]. destruct l; [exact H|]. right. apply IH. exact H. Qed.
Lemma wf_skipn n l : wf_bytes l -> wf_bytes (skipn n l).
Proof. intros H. apply Forall_forall. intros x Hx. eapply Forall_forall in H; [exact H|].
       eapply In_skipn; eauto. Qed.

Section Paths.
  Variables (c : N) (acc : bool).
  Hypothesis Hc : c < 65536.

  Lemma full_loop f n inb outb :
    (forall lo hi, lo < 256 -> hi < 256 -> f lo hi = fmul c (lo + 256 * hi)) ->
    length inb = (2 * n)%nat -> length outb = (2 * n)%nat -> wf_bytes inb ->
    word_loop f acc n inb outb = kspec acc c inb outb.
  Proof.
    intros Hf Hi Ho Wi. rewrite (word_loop_spec f c acc Hf) by (try assumption; lia).
    rewrite <- Hi at 1. rewrite <- Ho at 1. rewrite <- Ho at 1.
    rewrite !firstn_all, skipn_all, app_nil_r. reflexivity.
  Qed.

  Lemma portable_ok inb outb : wf_bytes inb -> length inb = length outb ->
    Nat.even (length inb) = true -> kern_portable c acc inb outb = Ok (kspec acc c inb outb).
  Proof.
    intros Wi Hl He. unfold kern_portable.
    apply Nat.even_spec in He. destruct He as [n Hn].
    assert (E : N.even (lenN inb) = true).
    { unfold lenN. rewrite Hn. apply N.even_spec. exists (N.of_nat n). lia. }
    rewrite E. cbn [negb].
    assert (L : lenN outb <? lenN inb = false) by (unfold lenN; rewrite Hl; apply N.ltb_irrefl).
    rewrite L. f_equal. replace (length inb / 2)%nat with n by lia.
    apply full_loop; [exact (fun lo hi => word_generic_spec c lo hi Hc)|lia|lia|exact Wi].
  Qed.

  Lemma scalar_ok inb outb : wf_bytes inb -> length inb = length outb ->
    Nat.even (length inb) = true -> (2 <= length inb)%nat ->
    kern_scalar_asm c acc inb outb = Ok (kspec acc c inb outb).
  Proof.
    intros Wi Hl He H2. unfold kern_scalar_asm, kern_scalar_asm_with, asm_extent, asm_count, dowhile_iters.
    apply Nat.even_spec in He. destruct He as [n Hn].
    assert (Ei : lenN inb = 2 * N.of_nat n) by (unfold lenN; lia).
    assert (Eo : lenN outb = 2 * N.of_nat n) by (unfold lenN; lia).
    rewrite Ei, Eo, N.shiftr_div_pow2. change (2 ^ 1) with 2.
    replace (2 * N.of_nat n / 2) with (N.of_nat n) by lia.
    destruct (N.eqb_spec (N.of_nat n) 0) as [Z|NZ]; [lia|].
    rewrite N.ltb_irrefl. cbn [orb]. rewrite Nat2N.id. f_equal.
    apply full_loop; [exact (fun lo hi => word_generic_spec c lo hi Hc)|lia|lia|exact Wi].
  Qed.

  Lemma dispatch_ok u inb outb : wf_bytes inb -> length inb = length outb ->
    Nat.even (length inb) = true -> kern_dispatch u c acc inb outb = Ok (kspec acc c inb outb).
  Proof.
    intros Wi Hl He. unfold kern_dispatch.
    assert (El : lenN outb = lenN inb) by (unfold lenN; rewrite Hl; reflexivity).
    rewrite El, N.eqb_refl. cbn [negb].
    destruct (N.eqb_spec (lenN inb) 0) as [Z|NZ].
    { assert (length inb = 0%nat) by (unfold lenN in Z; lia).
      destruct inb; [|discriminate]. destruct outb; [|discriminate]. reflexivity. }
    assert (H2 : (2 <= length inb)%nat).
    { apply Nat.even_spec in He. destruct He as [n Hn]. unfold lenN in NZ. lia. }
    destruct (u && (32 <=? lenN inb)) eqn:Eu; [|apply scalar_ok; assumption].
    apply andb_true_iff in Eu. destruct Eu as [_ E32]. apply N.leb_le in E32.
    (* SSSE3 over the full chunks *)
    unfold kern_ssse3, ssse3_extent, dowhile_iters.
    rewrite El, N.shiftr_div_pow2. change (2 ^ 5) with 32.
    set (k := lenN inb / 32).
    assert (Hk : k <> 0) by (unfold k; lia).
    destruct (N.eqb_spec k 0) as [?|_]; [contradiction|].
    assert (Hext : 32 * k <= lenN inb) by (unfold k; lia).
    destruct (N.ltb_spec (lenN inb) (32 * k)) as [?|_]; [lia|]. cbn [orb obind].
    set (s := (lenN inb - lenN inb mod 32)).
    assert (Es : s = 32 * k) by (unfold s, k; lia).
    assert (Esn : N.to_nat (16 * k) = (N.to_nat (16 * k))) by reflexivity.
    rewrite (word_loop_spec (word_ssse3 c) c acc (fun lo hi => word_ssse3_spec c lo hi Hc))
      by (try exact Wi; unfold lenN in *; lia).
    replace (2 * N.to_nat (16 * k))%nat with (N.to_nat s) by lia.
    set (sn := N.to_nat s).
    assert (Hsn : (sn <= length inb)%nat) by (unfold sn, lenN in *; lia).
    assert (Hsn2 : exists m, sn = (2 * m)%nat) by (exists (N.to_nat (16 * k)); unfold sn; lia).
    destruct Hsn2 as [m Hm].
    assert (Lk : length (kspec acc c (firstn sn inb) (firstn sn outb)) = sn).
    { rewrite Hm. apply kspec_length; rewrite firstn_length; lia. }
    destruct (N.eqb_spec s (lenN inb)) as [Eq|Ne].
    - f_equal. assert (sn = length inb) by (unfold sn, lenN in *; lia).
      rewrite H. rewrite Hl at 2. rewrite Hl at 2. rewrite !firstn_all, skipn_all, app_nil_r. reflexivity.
    - set (K := kspec acc c (firstn sn inb) (firstn sn outb)) in *.
      assert (S1 : skipn sn (K ++ skipn sn outb) = skipn sn outb).
      { rewrite skipn_app, Lk, Nat.sub_diag. rewrite (skipn_all2 K) by lia. reflexivity. }
      assert (F1 : firstn sn (K ++ skipn sn outb) = K).
      { rewrite firstn_app, Lk, Nat.sub_diag. rewrite (firstn_all2 K) by lia. cbn [firstn]. apply app_nil_r. }
      rewrite S1, F1.
      rewrite scalar_ok.
      + cbn [obind]. f_equal. unfold K.
        rewrite <- (firstn_skipn sn inb) at 3. rewrite <- (firstn_skipn sn outb) at 3.
        symmetry. apply (kspec_app acc c m); rewrite firstn_length; lia.
      + apply wf_skipn. exact Wi.
      + rewrite !skipn_length. lia.
      + rewrite skipn_length. apply Nat.even_spec in He. destruct He as [n Hn].
        apply Nat.even_spec. exists (n - m)%nat. lia.
      + rewrite skipn_length. apply Nat.even_spec in He. destruct He as [n Hn].
        unfold sn, lenN in *. lia.
  Qed.
End Paths.

Theorem kernel_value p acc c inb outb :
  c < 65536 -> wf_bytes inb -> length inb = length outb -> Nat.even (length inb) = true ->
  (p = ScalarAsm -> (2 <= length inb)%nat) ->
  kernel p acc c inb outb = Ok (kspec acc c inb outb).
Proof.
  intros Hc Wi Hl He Hp. destruct p as [| |u]; cbn [kernel].
  - apply portable_ok; assumption.
  - apply scalar_ok; auto.
  - apply dispatch_ok; assumption.
Qed.

(* footprints: the byte ranges the unchecked loops touch stay inside the buffers *)
Theorem asm_extent_ok len : N.even len = true -> 2 <= len -> asm_extent asm_count len <= len.
Proof.
  intros He H2. unfold asm_extent, asm_count, dowhile_iters. rewrite N.shiftr_div_pow2.
  change (2 ^ 1) with 2. destruct (N.eqb_spec (len / 2) 0); lia.
Qed.
Theorem ssse3_extent_ok len : 32 <= len -> ssse3_extent len <= len.
Proof.
  intros H. unfold ssse3_extent, dowhile_iters. rewrite N.shiftr_div_pow2.
  change (2 ^ 5) with 32. destruct (N.eqb_spec (len / 32) 0); lia.
Qed.

Theorem dispatch_mismatch u acc c inb outb : length inb <> length outb ->
  kern_dispatch u c acc inb outb = Panic PExplicit.
Proof.
  intros H. unfold kern_dispatch.
  destruct (N.eqb_spec (lenN outb) (lenN inb)) as [E|_]; [unfold lenN in E; lia|reflexivity].
Qed.

Lemma kspec_fast_eq acc c inb outb : c < 65536 -> kspec_fast acc c inb outb = kspec acc c inb outb.
Proof.
  intros Hc. unfold kspec_fast, kspec. f_equal.
  generalize (le_words inb) (le_words outb). intros a. induction a as [|x a IH]; intros b; [reflexivity|].
  destruct b as [|y b]; [reflexivity|]. cbn [map2]. rewrite IH, fmul_hmul by exact Hc. reflexivity.
Qed.

(* the count expression of the pinned commit overruns: witness for Findings *)
Theorem legacy_count_overruns : exists len, N.even len = true /\ len < asm_extent asm_count_legacy len.
Proof. exists 65536. vm_compute. split; reflexivity. Qed.
