(* C12: what every schedule computes is the entry of the matrix product used by
   GenerateParity / ReconstructData (Model/RS16.v apply_matrix). *)
From Coq Require Import Lia.
From Gopar Require Import Model.Base Model.GF16 Model.Matrix Model.RS16 Model.Parallel
     Proofs.GF16Facts Proofs.GF16Tables Proofs.LinAlg Proofs.Matrix16 Proofs.RS16Facts Proofs.ParallelFacts.
Open Scope N_scope.

Definition ins_of (X : list (list N)) : nat -> nat -> N := fun j p => nth p (nth j X []) 0.

Lemma fold_left_xor_right (t : nat -> N) : forall l v0,
  fold_left (fun acc j => N.lxor acc (t j)) l v0 =
  N.lxor v0 (fold_right (fun j acc => N.lxor (t j) acc) 0 l).
Proof.
  induction l as [|j l IH]; intros v0; cbn [fold_left fold_right].
  - rewrite N.lxor_0_r. reflexivity.
  - rewrite IH. rewrite N.lxor_assoc. reflexivity.
Qed.

Lemma dot_as_fold (r : list N) (X : list (list N)) p : forall s,
  length r = length X ->
  dot fmul r (column p X) =
  fold_right (fun j acc => N.lxor (fmul (nth (j - s) r 0) (nth p (nth (j - s) X []) 0)) acc) 0 (seq s (length X)).
Proof.
  unfold column. revert X. induction r as [|a r IH]; intros [|x X] s Hl; try discriminate; [reflexivity|].
  cbn [map dot length seq fold_right]. rewrite Nat.sub_diag. cbn [nth].
  f_equal. rewrite (IH X (S s)) by (cbn in Hl; lia).
  assert (H : forall l, (forall j, In j l -> (S s <= j)%nat) ->
    fold_right (fun j acc => N.lxor (fmul (nth (j - S s) r 0) (nth p (nth (j - S s) X []) 0)) acc) 0 l =
    fold_right (fun j acc => N.lxor (fmul (nth (j - s) (a :: r) 0) (nth p (nth (j - s) (x :: X) []) 0)) acc) 0 l).
  { induction l as [|j l IHl]; intros Hj; [reflexivity|]. cbn [fold_right].
    rewrite IHl by (intros; apply Hj; right; assumption).
    pose proof (Hj j (or_introl eq_refl)).
    replace (j - s)%nat with (S (j - S s)) by lia. reflexivity. }
  apply H. intros j Hj. apply in_seq in Hj. lia.
Qed.

(* entry (i, p) of apply_matrix = the value every schedule leaves in cell (i, p) *)
Theorem single_val_apply_matrix m X rows k len i p :
  (0 < k)%nat -> wfm16 rows k m -> wfm16 k len X -> (i < rows)%nat -> (p < len)%nat ->
  nth p (nth i (apply_matrix len m X) []) 0 = single_val m (ins_of X) k i p.
Proof.
  intros Hk Hm HX Hi Hp. unfold apply_matrix.
  rewrite mmul_nth16 by (destruct Hm; lia).
  pose proof (wfm_nth16 rows k m i Hm Hi) as Hr.
  rewrite (nth_lincomb 65536 fmul) with (k := k); try field16; try assumption.
  destruct Hr as [Hrl _]. destruct HX as [HXl _].
  rewrite (dot_as_fold _ X p 0%nat) by lia.
  unfold single_val. rewrite fold_left_xor_right. rewrite HXl.
  destruct k as [|k']; [lia|]. cbn [seq fold_right]. replace (S k' - 1)%nat with k' by lia.
  unfold ment, ins_of. cbn [Nat.sub nth].
  f_equal.
  assert (H : forall l,
    fold_right (fun j acc => N.lxor (fmul (nth (j - 0) (nth i m []) 0) (nth p (nth (j - 0) X []) 0)) acc) 0 l =
    fold_right (fun j acc => N.lxor (fmul (nth j (nth i m []) 0) (nth p (nth j X []) 0)) acc) 0 l).
  { induction l as [|j l IHl]; [reflexivity|]. cbn [fold_right]. rewrite IHl, Nat.sub_0_r. reflexivity. }
  apply H.
Qed.
