(* C01 from Create to Repair, as one theorem.

   create_damage_repair: take the files written by Create (create_outputs), let the protected files be
   damaged, renamed or deleted arbitrarily and let whole recovery files be deleted (the surviving ones are
   undamaged, the index file is unchanged).  If the unusable slices do not exceed the usable recovery blocks,
   Repair returns success and every protected file is BYTE-IDENTICAL to the original - or the singular-system
   error (the PAR2 Vandermonde matrix has singular minors, C07).  Nothing else can happen.

   Parts (all closed under the global context):
     E1  create_damage_load_shape   what load_all returns on such an archive: the created decoder, every loaded
                                    recovery block is the true block of its exponent, and the usable-block count is
                                    the number of blocks in the surviving recovery files;
         create_damage_load_ok      load_all succeeds when no protected path without a file is a directory;
     E2  loaded_parity_true, originals_recorded (in the section)   ground truths 2 and 3 of repair_within_capacity;
     E3  create_damage_repair       the composition; create_damage_verify_repair the same from Verify's report.
   Premises beyond those of create_then_verify_clean about the inputs:
     - what is found at a protected path is a list of bytes (the model's bytes are lists of N);
     - the protected paths are pairwise distinct (refuted without: EEDistinctPaths.same_path_refuted);
     - local slice collision-freeness and file-level collision-freeness of the digests (explicit: md5 is abstract).
   The coder's limits are derived from the success of Create (created_within_limits).

   The analysis of what load_all reads back from the written files follows Proofs/Par2Clean.v
   (section CreateVerify), without the premise that the data files are intact; the repair part is
   Proofs/Par2RepairComplete.v (repair_within_capacity_restores, with ground truth 1 from
   load_all_credited_protected below). *)
From Coq Require Import Lia ZifyN ZifyNat ZifyBool Permutation.
From Gopar Require Import Model.Base Model.GF16 Model.Matrix Model.RS16 Model.CRC Model.GoPath Model.FS Model.Par2
     Proofs.LinAlg Proofs.Matrix16 Proofs.RS16Facts Proofs.GoPathFacts Proofs.CRCFacts Proofs.ScanFacts
     Proofs.Par2Facts Proofs.Par2Verify Proofs.Par2Create Proofs.Par2Layout Proofs.Par2Faults
     Proofs.Par2Clean Proofs.Par2Converge Proofs.Par2RepairComplete Proofs.Par2Ignore.
Open Scope nat_scope.
Set Default Timeout 120.

(** * list helpers *)

Lemma nth_map_seq {A} (f : nat -> A) (d : A) n e : e < n -> nth e (map f (seq 0 n)) d = f e.
Proof.
  intros He. rewrite (nth_indep _ d (f 0)) by (rewrite map_length, seq_length; exact He).
  rewrite (map_nth f (seq 0 n) 0 e). rewrite seq_nth by exact He. reflexivity.
Qed.

Lemma length_flat_map_sum {A B} (f : A -> list B) : forall l,
  length (flat_map f l) = sum (map (fun x => length (f x)) l).
Proof.
  induction l as [|x l IH]; [reflexivity|]. cbn [flat_map map sum fold_right]. rewrite app_length, IH. reflexivity.
Qed.

Lemma split_by_flat_map {A B} (f : A -> list B) : forall l,
  split_by (map (fun x => length (f x)) l) (flat_map f l) = map f l.
Proof.
  induction l as [|x l IH]; [reflexivity|]. cbn [map flat_map split_by].
  rewrite (firstn_app_len (f x) _ _ eq_refl), (skipn_app_len (f x) _ _ eq_refl), IH. reflexivity.
Qed.

Lemma map_flat_map {A B C} (g : B -> C) (f : A -> list B) : forall l,
  map g (flat_map f l) = flat_map (fun x => map g (f x)) l.
Proof. induction l as [|x l IH]; [reflexivity|]. cbn [flat_map]. rewrite map_app, IH. reflexivity. Qed.

Lemma flat_map_map {A B C} (g : A -> B) (f : B -> list C) : forall l,
  flat_map f (map g l) = flat_map (fun x => f (g x)) l.
Proof. induction l as [|x l IH]; [reflexivity|]. cbn [map flat_map]. rewrite IH. reflexivity. Qed.

Lemma nth_error_map_inv {A B} (g : A -> B) : forall l i y,
  nth_error (map g l) i = Some y -> exists x, nth_error l i = Some x /\ y = g x.
Proof.
  induction l as [|a l IH]; intros [|i] y H; cbn [map nth_error] in H; try discriminate H.
  - injection H as <-. exists a. split; reflexivity.
  - apply IH. exact H.
Qed.

Lemma NoDup_map_combine_fst {A B C} (f : A -> C) : forall (l : list A) (l' : list B),
  NoDup (map f l) -> NoDup (map (fun p : A * B => f (fst p)) (combine l l')).
Proof.
  induction l as [|a l IH]; intros [|b l'] Hnd; cbn [combine map]; try constructor.
  - cbn [map] in Hnd. apply NoDup_cons_iff in Hnd. destruct Hnd as [Hni _]. cbn [fst].
    intros Hin. apply Hni. apply in_map_iff in Hin. destruct Hin as ([a' b'] & E & Hin'). cbn [fst] in E.
    rewrite <- E. apply in_map. exact (in_combine_l _ _ _ _ Hin').
  - apply IH. cbn [map] in Hnd. apply NoDup_cons_iff in Hnd. apply Hnd.
Qed.

Lemma NoDup_app_tail {A} : forall (a b : list A), NoDup (a ++ b) -> NoDup b.
Proof.
  induction a as [|x a IH]; intros b H; [exact H|]. cbn [app] in H. apply NoDup_cons_iff in H. apply IH, H.
Qed.

Lemma NoDup_concat_filter {A B} (f : A -> list B) (g : A -> bool) : forall l,
  NoDup (flat_map f l) -> NoDup (flat_map f (filter g l)).
Proof.
  induction l as [|x l IH]; intros H; [constructor|]. cbn [flat_map] in H.
  pose proof (NoDup_app_tail _ _ H) as Hr.
  cbn [filter]. destruct (g x); [|apply IH; exact Hr]. cbn [flat_map].
  revert H. generalize (f x). intros fx. induction fx as [|y fx IHf]; intros H; cbn [app] in *; [apply IH; exact Hr|].
  apply NoDup_cons_iff in H. destruct H as [Hni Hnd]. constructor.
  - intros Hin. apply Hni. apply in_app_or in Hin. apply in_or_app. destruct Hin as [Hin|Hin]; [left; exact Hin|right].
    apply in_flat_map in Hin. destruct Hin as (z & Hz & Hy). apply filter_In in Hz.
    apply in_flat_map. exists z. split; [apply Hz|exact Hy].
  - apply IHf. exact Hnd.
Qed.

Lemma fs_lookup_some_in : forall (f : list (list N * bytes)) p b, fs_lookup f p = Some b -> In p (map fst f).
Proof.
  induction f as [|[q e] f IH]; intros p b H; cbn [fs_lookup] in H; [discriminate H|].
  cbn [map fst In]. destruct (str_eqb q p) eqn:E; [left; apply str_eqb_eq; exact E|right; exact (IH _ _ H)].
Qed.

(** * the concatenated zero-padded slices of a file start with the file *)
Lemma chunks_concat_firstn n : 0 < n -> forall fuel b, length b <= fuel ->
  firstn (length b) (concat (map (fun c : bytes => c ++ zeros (n - length c)) (chunks_of n fuel b))) = b.
Proof.
  intros Hn. induction fuel as [|f IH]; intros b Hb.
  - destruct b; [reflexivity|cbn [length] in Hb; lia].
  - destruct b as [|x b']; [reflexivity|]. cbn [chunks_of]. set (b := x :: b') in *. cbn [map concat].
    destruct (le_lt_dec n (length b)) as [Hge|Hlt].
    + assert (Hf : length (firstn n b) = n) by (rewrite firstn_length; lia).
      rewrite Hf, Nat.sub_diag. cbn [zeros repeat]. rewrite app_nil_r.
      rewrite firstn_app, Hf.
      rewrite (firstn_all2 (n := length b)) by lia.
      assert (Hs : length (skipn n b) = length b - n) by apply skipn_length.
      rewrite <- Hs. rewrite IH by (unfold b in *; cbn [length] in *; lia).
      apply firstn_skipn.
    + rewrite (firstn_all2 (n := n)) by lia. rewrite (skipn_all2 (n := n)) by lia.
      destruct f; cbn [chunks_of map concat]; rewrite app_nil_r; apply (firstn_app_len b _ _ eq_refl).
Qed.

Lemma slices_concat_firstn sz data : 0 < sz -> firstn (length data) (concat (slices_of sz data)) = data.
Proof. intros Hs. unfold slices_of, chunk_bytes. apply chunks_concat_firstn; [exact Hs|lia]. Qed.

(** * a row of the PAR2 parity matrix does not depend on the number of rows *)
Lemma gen_parity_row n p (D : list (list N)) e : e < p ->
  nth e (gen_parity {| c_data := n; c_parity := p; c_pm := vandermonde_pm n p |} D) [] =
  lincomb fmul (shard_len D) (map (fun g => T_Pow g (N.of_nat e)) (generators_first n)) D.
Proof.
  intros He. unfold gen_parity, apply_matrix, mmul16, mmul. cbn [c_pm]. unfold vandermonde_pm.
  rewrite map_map.
  exact (nth_map_seq (fun i => lincomb fmul (shard_len D) (map (fun g => T_Pow g (N.of_nat i)) (generators_first n)) D)
                     [] p e He).
Qed.

Lemma gen_parity_row_indep n p p' (D : list (list N)) e : e < p -> e < p' ->
  nth e (gen_parity {| c_data := n; c_parity := p; c_pm := vandermonde_pm n p |} D) [] =
  nth e (gen_parity {| c_data := n; c_parity := p'; c_pm := vandermonde_pm n p' |} D) [].
Proof. intros H1 H2. rewrite !gen_parity_row by assumption. reflexivity. Qed.

(** * the recovery-block table indexed by exponent *)
Lemma assoc_n_in_pair {A} : forall (l : list (N * A)) k v, assoc_n l k = Some v -> In (k, v) l.
Proof.
  induction l as [|[k' v'] l IH]; intros k v H; cbn [assoc_n] in H; [discriminate H|].
  destruct (N.eqb_spec k' k) as [->|_]; [injection H as ->; left; reflexivity|right; exact (IH _ _ H)].
Qed.

Lemma parity_array_nth (acc : list (N * bytes)) e b :
  nth e (parity_array acc) None = Some b -> In (N.of_nat e, b) acc.
Proof.
  unfold parity_array. destruct acc as [|a0 acc0] eqn:E; [destruct e; discriminate|]. rewrite <- E. clear E a0 acc0.
  set (n := S (N.to_nat (fold_left (fun m (ed : N * bytes) => N.max m (fst ed)) acc 0%N))).
  intros H. destruct (lt_dec e n) as [Hlt|Hge].
  - rewrite nth_map_seq in H by exact Hlt. apply assoc_n_in_pair. exact H.
  - rewrite nth_overflow in H by (rewrite map_length, seq_length; lia). discriminate H.
Qed.

Lemma fold_max_lt : forall (acc : list (N * bytes)) m0 B, (m0 < B)%N ->
  (forall k, In k (map fst acc) -> (k < B)%N) ->
  (fold_left (fun m (ed : N * bytes) => N.max m (fst ed)) acc m0 < B)%N.
Proof.
  induction acc as [|[k v] acc IH]; intros m0 B Hm H; cbn [fold_left fst]; [exact Hm|].
  apply IH.
  - pose proof (H k (or_introl eq_refl)). lia.
  - intros k' Hk'. apply H. right. exact Hk'.
Qed.

Lemma parity_array_length_le (acc : list (N * bytes)) n :
  (forall k, In k (map fst acc) -> (k < N.of_nat n)%N) -> length (parity_array acc) <= n.
Proof.
  intros H. unfold parity_array. destruct acc as [|a0 acc0] eqn:E; [cbn [length]; lia|]. rewrite <- E in *.
  rewrite map_length, seq_length.
  assert (Hpos : (0 < N.of_nat n)%N).
  { pose proof (H (fst a0)) as H0. rewrite E in H0. cbn [map In] in H0. specialize (H0 (or_introl eq_refl)). lia. }
  pose proof (fold_max_lt acc 0%N (N.of_nat n) Hpos H) as Hlt. lia.
Qed.

(** * the loading phases on a damaged set: absent data files are tolerated, every read recovery file contributes *)
Section LoadDamaged.
  Variable md5 : bytes -> bytes.

  Lemma io_read_none p st : io_sched st = [] -> fs_lookup (io_fs st) p = None -> is_dir (io_fs st) p = false ->
    exists st1, io_read p st = (Err ENotExist, st1) /\ io_sched st1 = [] /\ io_fs st1 = io_fs st.
  Proof.
    intros Hs Hl Hd. unfold io_read. rewrite Hs. cbn [sched_lookup]. rewrite Hl, Hd.
    eexists. split; [reflexivity|]. split; [exact Hs|reflexivity].
  Qed.

  (* LoadFileData succeeds when no protected path that holds no file is a directory *)
  Lemma load_files_total d w t : forall todo fis st, io_sched st = [] ->
    (forall i info, In (i, info) todo -> fs_lookup (io_fs st) (file_path (d_index d) (di_name info)) = None ->
        is_dir (io_fs st) (file_path (d_index d) (di_name info)) = false) ->
    exists fis' st', load_files md5 d w t todo fis st = (Ok fis', st') /\ io_sched st' = [] /\ io_fs st' = io_fs st.
  Proof.
    induction todo as [|[i info] r IH]; intros fis st Hs Hall; cbn [load_files].
    - exists fis, st. repeat split; assumption.
    - destruct (fs_lookup (io_fs st) (file_path (d_index d) (di_name info))) as [data|] eqn:Hlk.
      + destruct (io_read_some _ st data Hs Hlk) as (st1 & ER & Hs1 & Hf1).
        rewrite ER. cbv beta iota zeta.
        assert (Hall' : forall i' info', In (i', info') r ->
                  fs_lookup (io_fs st1) (file_path (d_index d) (di_name info')) = None ->
                  is_dir (io_fs st1) (file_path (d_index d) (di_name info')) = false).
        { intros i' info' Hin. rewrite Hf1. apply (Hall i' info'). right. exact Hin. }
        match goal with |- exists fis' st', load_files md5 d w t r ?F st1 = _ /\ _ =>
          destruct (IH F st1 Hs1 Hall') as (fis' & st' & E & Hs' & Hf') end.
        exists fis', st'. split; [exact E|]. split; [exact Hs'|congruence].
      + destruct (io_read_none _ st Hs Hlk (Hall i info (or_introl eq_refl) Hlk)) as (st1 & ER & Hs1 & Hf1).
        rewrite ER.
        assert (Hall' : forall i' info', In (i', info') r ->
                  fs_lookup (io_fs st1) (file_path (d_index d) (di_name info')) = None ->
                  is_dir (io_fs st1) (file_path (d_index d) (di_name info')) = false).
        { intros i' info' Hin. rewrite Hf1. apply (Hall i' info'). right. exact Hin. }
        match goal with |- exists fis' st', load_files md5 d w t r ?F st1 = _ /\ _ =>
          destruct (IH F st1 Hs1 Hall') as (fis' & st' & E & Hs' & Hf') end.
        exists fis', st'. split; [exact E|]. split; [exact Hs'|congruence].
  Qed.

  (* LoadParityData over files that all read back: the exponents found, and a property of every (exponent, block) *)
  Lemma load_parity_ok2 d (E : list N -> N -> Prop) (Q : N * bytes -> Prop) : forall paths acc st, io_sched st = [] ->
    (forall p, In p paths -> exists b sid f, fs_lookup (io_fs st) p = Some b /\
        read_file_vol md5 (d_setid d) b = RFOk sid f /\
        pf_main f = Some {| mp_slice := d_slice d; mp_rec := map di_id (d_rec d); mp_nonrec := map di_id (d_nonrec d) |} /\
        Forall (fun ed : N * bytes => N.of_nat (length (snd ed)) = d_slice d) (pf_recv f) /\
        Forall Q (pf_recv f) /\
        (forall e, In e (map fst (pf_recv f)) <-> E p e)) ->
    Forall Q acc ->
    exists acc' st', load_parity md5 d paths acc st = (Ok acc', st') /\ Forall Q acc' /\
      (forall e, In e (map fst acc') <-> In e (map fst acc) \/ exists p, In p paths /\ E p e).
  Proof.
    induction paths as [|p r IH]; intros acc st Hs Hall HQ; cbn [load_parity].
    - exists acc, st. split; [reflexivity|]. split; [exact HQ|]. intros e. split; [tauto|]. intros [H|(p & [] & _)]. exact H.
    - destruct (Hall p (or_introl eq_refl)) as (b & sid & f & Hlk & Hrf & Hm & Hlen & HQf & HE).
      destruct (io_read_some _ st b Hs Hlk) as (st1 & ER & Hs1 & Hf1).
      rewrite ER, Hrf, Hm. cbn [mp_slice mp_rec mp_nonrec].
      rewrite N.eqb_refl, !list_beq_bytes_refl. cbn [andb negb].
      assert (EX : existsb (fun ed : N * bytes => negb (N.of_nat (length (snd ed)) =? d_slice d)%N) (pf_recv f) = false).
      { apply existsb_false_of_Forall. revert Hlen. apply Forall_impl. intros ed Hed. rewrite Hed, N.eqb_refl. reflexivity. }
      rewrite EX.
      assert (Hall' : forall p', In p' r -> exists b' sid' f', fs_lookup (io_fs st1) p' = Some b' /\
                read_file_vol md5 (d_setid d) b' = RFOk sid' f' /\
                pf_main f' = Some {| mp_slice := d_slice d; mp_rec := map di_id (d_rec d); mp_nonrec := map di_id (d_nonrec d) |} /\
                Forall (fun ed : N * bytes => N.of_nat (length (snd ed)) = d_slice d) (pf_recv f') /\
                Forall Q (pf_recv f') /\
                (forall e, In e (map fst (pf_recv f')) <-> E p' e)).
      { intros p' Hin. rewrite Hf1. apply Hall. right. exact Hin. }
      assert (HQ' : Forall Q (pf_recv f ++ acc)) by (apply Forall_app; split; assumption).
      destruct (IH (pf_recv f ++ acc) st1 Hs1 Hall' HQ') as (acc' & st' & EL & HQa & Hacc).
      exists acc', st'. split; [exact EL|]. split; [exact HQa|]. intros e. rewrite Hacc, map_app, in_app_iff.
      split.
      + intros [[H|H]|(p' & Hp' & He)]; [right; exists p; split; [left; reflexivity|apply HE; exact H]|left; exact H|].
        right. exists p'. split; [right; exact Hp'|exact He].
      + intros [H|(p' & [<-|Hp'] & He)]; [left; right; exact H|left; left; apply HE; exact He|].
        right. exists p'. split; assumption.
  Qed.
End LoadDamaged.

(** * RC2 with the byte-value premise on the protected paths only *)
Section CreditedProtected.
  Variable md5 : bytes -> bytes.

  Lemma load_files_DS_protected d w t : forall todo fis st fis' st',
    io_sched st = [] ->
    (forall i info dat, In (i, info) todo ->
       fs_lookup (io_fs st) (file_path (d_index d) (di_name info)) = Some dat -> wf_bytes dat) ->
    4 <= N.to_nat (d_slice d) -> win_new (Z.of_nat (N.to_nat (d_slice d))) = Ok w ->
    DS (QT md5 (N.to_nat (d_slice d)) t) (shs fis) ->
    load_files md5 d w t todo fis st = (Ok fis', st') ->
    DS (QT md5 (N.to_nat (d_slice d)) t) (shs fis').
  Proof.
    induction todo as [|[i info] r IH]; intros fis st fis' st' Hs Hwf H4 Hw HD H; cbn [load_files] in H.
    - injection H as <- _. exact HD.
    - pose proof (io_read_pres (file_path (d_index d) (di_name info)) st) as Pr.
      destruct (io_read (file_path (d_index d) (di_name info)) st) as [[data|e|q] st1] eqn:ER;
        cbn [snd] in Pr; destruct Pr as (Pf & Ps & _).
      + assert (Hs1 : io_sched st1 = []) by congruence.
        assert (Hwf1 : forall i' info' dat, In (i', info') r ->
                  fs_lookup (io_fs st1) (file_path (d_index d) (di_name info')) = Some dat -> wf_bytes dat).
        { intros i' info' dat Hin. rewrite Pf. apply (Hwf i' info'). right. exact Hin. }
        eapply IH; [exact Hs1|exact Hwf1|exact H4|exact Hw| |exact H].
        rewrite shs_set_flags, shs_credits.
        apply io_read_ok_lookup in ER; [|exact Hs]. apply (Hwf i info data (or_introl eq_refl)) in ER.
        rewrite (scan_eq_spec md5 _ w t data H4 Hw ER).
        apply DS_credits; [|exact HD].
        apply Forall_forall. intros h Hh loc Hloc.
        destruct (scan_sound md5 _ _ _ _ Hh) as (_ & Hdat & Hlocs & _).
        split; [|split].
        * rewrite Hdat. unfold window_at. apply take_pad_length.
        * rewrite Hdat. unfold window_at. apply take_pad_wf. apply Forall_skipn'. exact ER.
        * rewrite <- Hlocs. destruct loc. exact Hloc.
      + destruct e; try discriminate H.
        assert (Hs1 : io_sched st1 = []) by congruence.
        assert (Hwf1 : forall i' info' dat, In (i', info') r ->
                  fs_lookup (io_fs st1) (file_path (d_index d) (di_name info')) = Some dat -> wf_bytes dat).
        { intros i' info' dat Hin. rewrite Pf. apply (Hwf i' info'). right. exact Hin. }
        eapply IH; [exact Hs1|exact Hwf1|exact H4|exact Hw| |exact H].
        rewrite shs_set_flags. exact HD.
      + discriminate H.
  Qed.

  Lemma load_all_credited_protected ix fs ds st1 :
    load_all md5 ix (io_init fs []) = (Ok ds, st1) ->
    (forall info dat, In info (d_rec (ds_dec ds)) ->
       fs_lookup fs (file_path ix (di_name info)) = Some dat -> wf_bytes dat) ->
    NoDup (map di_id (d_rec (ds_dec ds))) ->
    forall K s, nth K (flat_map fi_shards (ds_fis ds)) None = Some s ->
      length (si_data s) = N.to_nat (d_slice (ds_dec ds)) /\ wf_bytes (si_data s) /\
      nth_error (flat_map di_pairs (d_rec (ds_dec ds))) K = Some (md5 (si_data s), crc32 (si_data s)).
  Proof.
    intros HL Hwf Hnd K s HK.
    destruct (load_all_shape md5 _ _ _ _ HL) as (H4 & _ & _ & Hshape & _ & _).
    destruct (load_all_inv md5 _ _ _ _ HL) as (d & s1 & w & fis & s2 & acc & Hnew & Hw & Hlf & ->).
    cbn [ds_dec ds_fis] in *.
    destruct (new_decoder_ok md5 _ _ _ _ Hnew) as [Hdix _].
    pose proof (new_decoder_pres md5 ix (io_init fs [])) as P. rewrite Hnew in P. cbn [snd] in P.
    destruct P as (Pf & Ps & _). cbn [io_init io_fs io_sched] in Pf, Ps.
    assert (HD : DS (QT md5 (N.to_nat (d_slice d)) (make_cstable (d_rec d))) (shs fis)).
    { apply (load_files_DS_protected d w (make_cstable (d_rec d)) (combine (seq 0 (length (d_rec d))) (d_rec d)) (fis0 d) s1 fis s2 Ps);
        [|lia| | |exact Hlf].
      - intros i info dat Hin. rewrite Pf, Hdix. apply Hwf. exact (in_combine_r _ _ _ _ Hin).
      - rewrite N_nat_Z. exact Hw.
      - intros i k s0 Hs0. rewrite fis0_none in Hs0. discriminate Hs0. }
    assert (HKe : nth_error (flat_map fi_shards fis) K = Some (Some s)).
    { destruct (lt_dec K (length (flat_map fi_shards fis))) as [Hlt|Hge].
      - rewrite (nth_error_nth' _ None Hlt), HK. reflexivity.
      - rewrite nth_overflow in HK by lia. discriminate HK. }
    destruct (flat_align fi_shards di_pairs dfi dinfo0 fis (d_rec d) Hshape K (Some s) HKe) as (i & k & Hi & Hf & Hg).
    assert (Hget : get2 (shs fis) i k = Some s).
    { rewrite get2_shs. apply nth_error_nth with (d := None) in Hf. exact Hf. }
    destruct (HD i k s Hget) as (Hlen & Hwfs & Hin).
    split; [exact Hlen|]. split; [exact Hwfs|].
    unfold cs_get in Hin. destruct (crc_present (make_cstable (d_rec d)) (crc32 (si_data s))); [|destruct Hin].
    apply make_cstable_sound in Hin. destruct Hin as (i0 & info & k0 & p & Hi0 & Hk0 & Hc & Hh & Hl).
    rewrite (last_index_nodup (d_rec d) i0 info Hnd Hi0) in Hl. injection Hl as <- <-.
    destruct (in_combine_seq_inv dinfo0 _ _ _ _ Hi0) as (i' & Ei & Hi' & Hn). cbn [Nat.add] in Ei. subst i'.
    destruct (in_combine_seq_inv ([], 0%N) _ _ _ _ Hk0) as (k' & Ek & Hk' & Hp). cbn [Nat.add] in Ek. subst k'.
    rewrite Hg, Hn.
    destruct p as [ph pc]. cbn [fst snd] in Hc, Hh. subst ph pc.
    rewrite <- Hp. apply nth_error_nth'. exact Hk'.
  Qed.
End CreditedProtected.

(** * what Repair leaves in the file system: the old content, or byte strings cut from the reconstructed slices *)
Lemma split_by_Forall {A} (P : A -> Prop) : forall lens (l : list A), Forall P l -> Forall (Forall P) (split_by lens l).
Proof.
  induction lens as [|n lens IH]; intros l H; cbn [split_by]; constructor.
  - apply (Forall_firstn_skipn P n l H).
  - apply IH. apply (Forall_firstn_skipn P n l H).
Qed.

Section RepairContents.
  Variable md5 : bytes -> bytes.

  Lemma write_repaired_contents ix : forall todo done st r rp st',
    io_sched st = [] ->
    Forall (fun t : bool * (dinfo * list bytes) => Forall wf_bytes (snd (snd t))) todo ->
    write_repaired md5 ix todo done st = ((r, rp), st') ->
    forall p dat, fs_lookup (io_fs st') p = Some dat -> fs_lookup (io_fs st) p = Some dat \/ wf_bytes dat.
  Proof.
    induction todo as [|[b [info shards]] todo IH]; intros done st r rp st' Hs Hall H p dat Hp; cbn [write_repaired] in H.
    - injection H as _ _ <-. left. exact Hp.
    - inversion Hall as [|? ? Hsh Hall']; subst. cbn [snd] in Hsh.
      destruct b; [exact (IH _ _ _ _ _ Hs Hall' H p dat Hp)|].
      destruct (N.of_nat (length (concat shards)) <? di_len info)%N; [injection H as _ _ <-; left; exact Hp|].
      set (data := firstn (N.to_nat (di_len info)) (concat shards)) in *.
      destruct (negb (bytes_eqb (hash16k md5 data) (di_h16 info))); [injection H as _ _ <-; left; exact Hp|].
      destruct (negb (bytes_eqb (md5 data) (di_hash info))); [injection H as _ _ <-; left; exact Hp|].
      rewrite (io_write_nosched _ _ st Hs) in H.
      pose proof (fun Hs' => IH _ _ _ _ _ Hs' Hall' H p dat Hp) as K. cbn [tick io_sched io_fs] in K.
      destruct (K Hs) as [Hold|Hw]; [|right; exact Hw].
      destruct (list_eq_dec N.eq_dec (file_path ix (di_name info)) p) as [<-|Hne].
      + rewrite fs_lookup_set_same in Hold. injection Hold as <-. right.
        unfold data. apply (Forall_firstn_skipn wf_byte). apply Forall_concat. exact Hsh.
      + rewrite (Par2Faults.fs_lookup_set_other _ _ _ _ Hne) in Hold. left. exact Hold.
  Qed.

  Lemma repair_contents ix dbl fs r rp st' ds st1 :
    par2_repair md5 ix dbl (io_init fs []) = ((r, rp), st') ->
    load_all md5 ix (io_init fs []) = (Ok ds, st1) ->
    (forall data, repair_core ds dbl = Ok data -> Forall wf_bytes data) ->
    forall p dat, fs_lookup (io_fs st') p = Some dat -> fs_lookup fs p = Some dat \/ wf_bytes dat.
  Proof.
    intros HR HL Hcore p dat Hp.
    pose proof (load_all_pres md5 ix (io_init fs [])) as Pr. rewrite HL in Pr. cbn [snd] in Pr.
    destruct Pr as (Pf & Ps & _). cbn [io_init io_fs io_sched] in Pf, Ps.
    unfold par2_repair in HR. rewrite HL in HR.
    destruct (ds_fis ds) as [|fi0 fisr] eqn:Efis; [injection HR as _ _ <-; left; rewrite <- Pf; exact Hp|].
    rewrite <- Efis in HR. clear Efis fi0 fisr.
    destruct (repair_core ds dbl) as [data|e|q] eqn:EC; try (injection HR as _ _ <-; left; rewrite <- Pf; exact Hp).
    rewrite <- Pf. apply (write_repaired_contents ix _ _ _ _ _ _ Ps) with (3 := Hp) (2 := HR).
    apply Forall_forall. intros [b [info shards]] Hin. cbn [snd].
    apply in_combine_r in Hin. apply in_combine_r in Hin.
    pose proof (split_by_Forall wf_bytes (map (fun fi => length (fi_shards fi)) (ds_fis ds)) data (Hcore data eq_refl)) as HF.
    rewrite Forall_forall in HF. exact (HF _ Hin).
  Qed.
End RepairContents.

(** * Create, damage, Repair *)
Section CreateDamageRepair.
  Variable md5 : bytes -> bytes.
  Hypothesis md5_len : forall x, length (md5 x) = 16.
  Variables (parPath : list N) (sz np : nat) (names datas : list bytes) (outs : list (list N * bytes)).
  Hypothesis Hcreate : create_outputs md5 parPath sz np names datas = Ok outs.
  Hypothesis Hsz4 : 4 <= sz.
  Hypothesis Hszmax : (N.of_nat sz <= MAXSLICE)%N.
  Hypothesis Hnames : Forall (fun nm : bytes => no_nul nm /\ (N.of_nat (length nm) < 2 ^ 32)%N) names.
  Hypothesis Hdatas : Forall (fun d : bytes => wf_bytes d /\ (N.of_nat (length d) <= MAXINT)%N) datas.

  Let infos := map (fun nd : bytes * bytes => data_file_info md5 sz (fst nd) (snd nd)) (combine names datas).
  Hypothesis Hnd : NoDup (map fi_id infos).

  Let rinfos := rev infos.
  Let recset := sort_ids (map fi_id infos).
  (* the protected slices (zero-padded) in recovery-set order: the "originals" *)
  Let shards := flat_map (fun id => match find_info rinfos id with Some i => fi_slices i | None => [] end) recset.
  Let parity := gen_parity {| c_data := length shards; c_parity := np; c_pm := vandermonde_pm (length shards) np |}
                           (map le_words shards).
  Let m := {| mp_slice := N.of_nat sz; mp_rec := recset; mp_nonrec := [] |}.
  Let fds := map (fun i => (fi_id i, fi_desc i)) rinfos.
  Let ifs := map (fun i => (fi_id i, fi_pairs i)) rinfos.
  Let basep := strip_ext parPath.
  Let volrecv (i c : nat) : list (N * bytes) := map (fun e => (N.of_nat e, le_bytes (nth e parity []))) (seq i c).
  Let volpath (i c : nat) : list N :=
    basep ++ [46; 118; 111; 108]%N ++ dec2 (N.of_nat i) ++ [43%N] ++ dec2 (N.of_nat c) ++ EXT_PAR2.
  Let layout := volume_layout (S np) 0 1 np.
  Let info_at (id : bytes) : finfo :=
    match find_info rinfos id with Some i => i | None => data_file_info md5 sz [] [] end.
  Let recs := map (fun id => dinfo_of (info_at id)) recset.
  Let ix := basep ++ EXT_PAR2.
  Let pr (s : bytes) : bytes * N := (md5 s, crc32 s).
  Let sl (id : bytes) : list bytes := fi_slices (info_at id).

  (** ** the facts of Par2Clean (section CreateVerify) that do not depend on the data files *)
  Lemma x_co_inv : 0 < length shards /\ (N.of_nat (length shards) <= 32768)%N /\ (N.of_nat np <= 65535)%N /\
    exists sid ixb vols, write_file md5 CLIENT_ID m fds ifs [] = Ok (sid, ixb) /\
      Forall2 (fun (ic : nat * nat) (v : list N * bytes) =>
                 exists sid' vb, write_file md5 CLIENT_ID m fds ifs (volrecv (fst ic) (snd ic)) = Ok (sid', vb) /\
                                 v = (volpath (fst ic) (snd ic), vb)) layout vols /\
      outs = (basep ++ EXT_PAR2, ixb) :: vols.
  Proof. exact (co_inv md5 md5_len parPath sz np names datas outs Hcreate Hsz4 Hszmax). Qed.

  Lemma x_sz_mod4 : sz mod 4 = 0.
  Proof. exact (sz_mod4 md5 md5_len parPath sz np names datas outs Hcreate Hsz4 Hszmax). Qed.

  Lemma x_shards_len : Forall (fun s : bytes => length s = sz) shards.
  Proof. exact (shards_len md5 md5_len parPath sz np names datas Hsz4 Hszmax Hnd). Qed.

  Lemma x_recset_in id : In id recset <-> exists i, In i infos /\ fi_id i = id.
  Proof. exact (recset_in md5 sz names datas id). Qed.

  Lemma x_recset_nd : NoDup recset.
  Proof. exact (recset_nd md5 sz names datas Hnd). Qed.

  Lemma x_info_in i : In i infos ->
    exists name data, In (name, data) (combine names datas) /\ i = data_file_info md5 sz name data.
  Proof. exact (info_in md5 sz names datas i). Qed.

  Lemma x_pair_ok name data : In (name, data) (combine names datas) ->
    no_nul name /\ (N.of_nat (length name) < 2 ^ 32)%N /\ wf_bytes data /\ (N.of_nat (length data) <= MAXINT)%N.
  Proof. exact (pair_ok names datas Hnames Hdatas name data). Qed.

  Lemma x_info_at_id i : In i infos -> info_at (fi_id i) = i.
  Proof. exact (info_at_id md5 sz names datas Hnd i). Qed.

  Lemma x_recs_ids : map di_id recs = recset.
  Proof. exact (recs_ids md5 sz names datas Hnd). Qed.

  Lemma x_recs_in info : In info recs -> exists name data, In (name, data) (combine names datas) /\
    info = dinfo_of (data_file_info md5 sz name data).
  Proof. exact (recs_in md5 sz names datas Hnd info). Qed.

  Lemma x_make_infos_index f :
    (forall id, In id recset -> assoc_b (pf_fdesc f) id = assoc_b fds id /\ assoc_b (pf_ifsc f) id = assoc_b ifs id) ->
    make_infos (N.of_nat sz) recset f = Ok recs.
  Proof. exact (make_infos_index md5 md5_len parPath sz np names datas Hsz4 Hszmax Hnd f). Qed.

  Lemma x_ww_of recv :
    Forall (fun ed : N * bytes => (fst ed <= 65535)%N /\ (N.of_nat (length (snd ed)) <= 2 ^ 40)%N) recv ->
    NoDup (map fst recv) -> wf_write CLIENT_ID m fds ifs recv.
  Proof. exact (ww_of md5 md5_len parPath sz np names datas outs Hcreate Hsz4 Hszmax Hnames Hdatas Hnd recv). Qed.

  Lemma x_parity_row e : e < np -> length (le_bytes (nth e parity [])) = sz.
  Proof. exact (parity_row md5 md5_len parPath sz np names datas outs Hcreate Hsz4 Hszmax Hnd e). Qed.

  Lemma x_layout_bounds ic : In ic layout -> 0 < snd ic /\ fst ic + snd ic <= np.
  Proof. exact (layout_bounds md5 md5_len parPath sz np names datas Hsz4 Hszmax ic). Qed.

  Lemma x_layout_eq ic ic' : In ic layout -> In ic' layout -> fst ic = fst ic' -> ic = ic'.
  Proof. exact (layout_eq md5 md5_len parPath sz np names datas Hsz4 Hszmax ic ic'). Qed.

  Lemma x_volrecv_ok i c : i + c <= np ->
    Forall (fun ed : N * bytes => (fst ed <= 65535)%N /\ (N.of_nat (length (snd ed)) <= 2 ^ 40)%N) (volrecv i c) /\
    NoDup (map fst (volrecv i c)).
  Proof. exact (volrecv_ok md5 md5_len parPath sz np names datas outs Hcreate Hsz4 Hszmax Hnd i c). Qed.

  Lemma x_volpath_inj i c i' c' : (N.of_nat i < 65536)%N -> (N.of_nat i' < 65536)%N ->
    volpath i c = volpath i' c' -> i = i'.
  Proof. exact (volpath_inj parPath i c i' c'). Qed.

  Lemma x_vols_paths vols :
    Forall2 (fun (ic : nat * nat) (v : list N * bytes) =>
               exists sid' vb, write_file md5 CLIENT_ID m fds ifs (volrecv (fst ic) (snd ic)) = Ok (sid', vb) /\
                               v = (volpath (fst ic) (snd ic), vb)) layout vols ->
    map fst vols = map (fun ic => volpath (fst ic) (snd ic)) layout.
  Proof. exact (vols_paths md5 parPath sz np names datas vols). Qed.

  Lemma x_ix_not_vol i c : ix <> volpath i c.
  Proof. exact (ix_not_vol parPath i c). Qed.

  Lemma x_ext_ix : ext ix = EXT_PAR2.
  Proof. exact (ext_ix parPath). Qed.

  Lemma x_strip_ix : strip_ext ix = basep.
  Proof.
    unfold strip_ext. rewrite x_ext_ix. unfold ix. rewrite app_length.
    replace (length basep + length EXT_PAR2 - length EXT_PAR2) with (length basep) by lia.
    apply firstn_app_len. reflexivity.
  Qed.

  Lemma x_layout_lt ic : In ic layout -> (N.of_nat (fst ic) < 65536)%N.
  Proof. intros H. destruct (x_layout_bounds ic H). destruct x_co_inv as (_ & _ & Hnp & _). lia. Qed.

  Lemma x_volpaths_nd : NoDup (map (fun ic => volpath (fst ic) (snd ic)) layout).
  Proof.
    apply (NoDup_map_by fst); [apply volume_layout_nodup; lia|]. intros x y Hx Hy E.
    apply (x_volpath_inj _ _ _ _ (x_layout_lt x Hx) (x_layout_lt y Hy) E).
  Qed.

  Lemma x_pat_vol i c : vol_pattern basep (volpath i c) = true.
  Proof.
    unfold vol_pattern, volpath. apply andb_true_iff. split; [apply andb_true_iff; split; [apply andb_true_iff; split|]|].
    - apply Nat.leb_le. rewrite !app_length. cbn [length]. lia.
    - unfold starts_with.
      replace (basep ++ [46; 118; 111; 108]%N ++ dec2 (N.of_nat i) ++ [43%N] ++ dec2 (N.of_nat c) ++ EXT_PAR2)
        with ((basep ++ [DOT]) ++ [118; 111; 108]%N ++ dec2 (N.of_nat i) ++ [43%N] ++ dec2 (N.of_nat c) ++ EXT_PAR2)
        by (rewrite <- app_assoc; reflexivity).
      rewrite (firstn_app_len _ _ _ eq_refl). apply str_eqb_refl.
    - unfold ends_with.
      replace (basep ++ [46; 118; 111; 108]%N ++ dec2 (N.of_nat i) ++ [43%N] ++ dec2 (N.of_nat c) ++ EXT_PAR2)
        with ((basep ++ [46; 118; 111; 108]%N ++ dec2 (N.of_nat i) ++ [43%N] ++ dec2 (N.of_nat c)) ++ EXT_PAR2)
        by (rewrite <- !app_assoc; reflexivity).
      rewrite app_length.
      match goal with |- context [skipn (?a + ?b - ?b)] => replace (a + b - b) with a by lia end.
      rewrite (skipn_app_len _ _ _ eq_refl). apply str_eqb_refl.
    - apply no_slash_vol_path.
  Qed.

  Lemma x_pat_ix : vol_pattern basep ix = false.
  Proof.
    unfold vol_pattern, ix. rewrite !app_length. cbn [length].
    match goal with |- Nat.leb ?a ?b && _ && _ && _ = false =>
      assert (E : Nat.leb a b = false) by (apply Nat.leb_gt; lia); rewrite E end.
    reflexivity.
  Qed.

  (** ** the originals and the decoder's infos *)
  Lemma info_at_dfi id : exists name data, info_at id = data_file_info md5 sz name data.
  Proof.
    unfold info_at. destruct (find_info rinfos id) as [i|] eqn:E; [|exists [], []; reflexivity].
    assert (Hin : In i rinfos).
    { clear -E. induction rinfos as [|x l IH]; cbn [find_info] in E; [discriminate E|].
      destruct (bytes_eqb (fi_id x) id); [injection E as ->; left; reflexivity|right; exact (IH E)]. }
    unfold rinfos in Hin. apply in_rev in Hin. destruct (x_info_in i Hin) as (name & data & _ & ->).
    exists name, data. reflexivity.
  Qed.

  Lemma shards_eq : shards = flat_map sl recset.
  Proof.
    unfold shards, sl, info_at. apply flat_map_ext. intros id.
    destruct (find_info rinfos id); reflexivity.
  Qed.

  Lemma recs_pairs_at id : di_pairs (dinfo_of (info_at id)) = map pr (sl id).
  Proof. unfold sl. destruct (info_at_dfi id) as (name & data & ->). reflexivity. Qed.

  Lemma recs_pairs : flat_map di_pairs recs = map pr shards.
  Proof.
    unfold recs. rewrite flat_map_map, shards_eq, map_flat_map. apply flat_map_ext. intros id. apply recs_pairs_at.
  Qed.

  Lemma recs_shape : map (fun info => length (di_pairs info)) recs = map (fun id => length (sl id)) recset.
  Proof. unfold recs. rewrite map_map. apply map_ext. intros id. rewrite recs_pairs_at. apply map_length. Qed.

  Lemma shards_wf : Forall (fun s => wf_bytes s /\ length s = sz) shards.
  Proof.
    apply Forall_forall. intros s Hs. split; [|exact (proj1 (Forall_forall _ _) x_shards_len s Hs)].
    rewrite shards_eq in Hs. apply in_flat_map in Hs. destruct Hs as (id & Hid & Hs).
    apply x_recset_in in Hid. destruct Hid as (i & Hi & <-). unfold sl in Hs. rewrite (x_info_at_id i Hi) in Hs.
    destruct (x_info_in i Hi) as (name & data & Hnd' & ->). destruct (x_pair_ok name data Hnd') as (_ & _ & P3 & _).
    cbn [data_file_info fi_slices] in Hs.
    exact (slices_wf md5 md5_len parPath sz np names datas Hsz4 Hszmax data s P3 Hs).
  Qed.

  (* every protected (name, data) has its info in the decoder's recovery set *)
  Lemma recs_has name data : In (name, data) (combine names datas) ->
    In (dinfo_of (data_file_info md5 sz name data)) recs.
  Proof.
    intros Hin. set (i := data_file_info md5 sz name data).
    assert (Hi : In i infos).
    { unfold infos. apply in_map_iff. exists (name, data). split; [reflexivity|exact Hin]. }
    unfold recs. apply in_map_iff. exists (fi_id i). split; [rewrite (x_info_at_id i Hi); reflexivity|].
    apply x_recset_in. exists i. split; [exact Hi|reflexivity].
  Qed.

  (** ** the damaged archive: the index file as written, any subset of the written recovery files (undamaged),
         anything at all at the protected paths *)
  Variables (fs0 fs : list (list N * bytes)).
  Hypothesis Hix : fs_lookup fs ix = fs_lookup (apply_writes outs fs0) ix.
  Hypothesis Hvols : forall q, In q (map fst fs) -> vol_pattern basep q = true ->
    exists b, In (q, b) outs /\ fs_lookup fs q = Some b.

  Let dec (sid : bytes) : decoder :=
    {| d_index := ix; d_setid := sid; d_slice := N.of_nat sz; d_rec := recs; d_nonrec := [] |}.
  (* the recovery file of layout entry ic has survived *)
  Let surv (ic : nat * nat) : bool := is_some (fs_lookup fs (volpath (fst ic) (snd ic))).
  Let Q (ed : N * bytes) : Prop := exists k, k < np /\ fst ed = N.of_nat k /\ snd ed = le_bytes (nth k parity []).

  Lemma decoder_read : exists sid ixb vols st1,
    write_file md5 CLIENT_ID m fds ifs [] = Ok (sid, ixb) /\
    Forall2 (fun (ic : nat * nat) (v : list N * bytes) =>
               exists sid' vb, write_file md5 CLIENT_ID m fds ifs (volrecv (fst ic) (snd ic)) = Ok (sid', vb) /\
                               v = (volpath (fst ic) (snd ic), vb)) layout vols /\
    outs = (ix, ixb) :: vols /\
    new_decoder md5 ix (io_init fs []) = (Ok (dec sid), st1) /\ io_sched st1 = [] /\ io_fs st1 = fs.
  Proof.
    destruct x_co_inv as (_ & _ & Hnp & sid & ixb & vols & EW & F2 & Eouts).
    pose proof (x_vols_paths vols F2) as Evp.
    assert (Hond : NoDup (map fst outs)).
    { rewrite Eouts. cbn [map fst]. rewrite Evp. constructor; [|exact x_volpaths_nd].
      intros Hin. apply in_map_iff in Hin. destruct Hin as (ic & E & _). exact (x_ix_not_vol _ _ (eq_sym E)). }
    assert (Lix : fs_lookup fs ix = Some ixb).
    { rewrite Hix. apply apply_writes_lookup; [exact Hond|]. rewrite Eouts. left. reflexivity. }
    destruct (read_written_file md5 md5_len CLIENT_ID m fds ifs [] sid ixb EW (x_ww_of [] (Forall_nil _) (NoDup_nil _)))
      as (f & _ & Rix & Hm & Hfi & Hrecv & _).
    assert (Hr0 : pf_recv f = []).
    { remember (pf_recv f) as rr eqn:Err. destruct rr as [|[e dd] r]; [reflexivity|]. exfalso.
      apply (proj1 (Hrecv e dd)). cbn [assoc_n]. rewrite N.eqb_refl. reflexivity. }
    destruct (io_read_some ix (io_init fs []) ixb eq_refl Lix) as (st1 & ER & Hs1 & Hf1). cbn [io_init io_fs] in Hf1.
    exists sid, ixb, vols, st1. split; [exact EW|]. split; [exact F2|]. split; [exact Eouts|].
    split; [|split; assumption].
    unfold new_decoder. rewrite ER, Rix, Hm, Hr0.
    change (mp_slice m) with (N.of_nat sz). change (mp_rec m) with recset. change (mp_nonrec m) with (@nil bytes).
    rewrite (x_make_infos_index f).
    2:{ intros id Hid. apply Hfi. unfold m. cbn [mp_rec mp_nonrec]. rewrite app_nil_r. exact Hid. }
    reflexivity.
  Qed.

  Lemma listing_in p : In p (rec_listing ix fs) <-> In p (map fst fs) /\ vol_pattern basep p = true.
  Proof.
    unfold rec_listing. rewrite sort_paths_in, filter_In. rewrite (rec_pattern_vol ix p x_ext_ix), x_strip_ix. reflexivity.
  Qed.

  Lemma surv_in ic : surv ic = true <-> In (volpath (fst ic) (snd ic)) (map fst fs).
  Proof.
    unfold surv. split.
    - destruct (fs_lookup fs (volpath (fst ic) (snd ic))) as [b|] eqn:E; [|discriminate]. intros _.
      exact (fs_lookup_some_in _ _ _ E).
    - intros Hin. pose proof (fs_lookup_in fs _ Hin) as Hne.
      destruct (fs_lookup fs (volpath (fst ic) (snd ic))); [reflexivity|congruence].
  Qed.

  Lemma parity_read sid ixb vols st3 :
    write_file md5 CLIENT_ID m fds ifs [] = Ok (sid, ixb) ->
    Forall2 (fun (ic : nat * nat) (v : list N * bytes) =>
               exists sid' vb, write_file md5 CLIENT_ID m fds ifs (volrecv (fst ic) (snd ic)) = Ok (sid', vb) /\
                               v = (volpath (fst ic) (snd ic), vb)) layout vols ->
    outs = (ix, ixb) :: vols ->
    io_sched st3 = [] -> io_fs st3 = fs ->
    exists acc st4, load_parity md5 (dec sid) (rec_listing ix fs) [] st3 = (Ok acc, st4) /\ Forall Q acc /\
      (forall e, In e (map fst acc) <->
         exists ic k, In ic layout /\ surv ic = true /\ In k (seq (fst ic) (snd ic)) /\ e = N.of_nat k).
  Proof.
    intros EW F2 Eouts Hs3 Hf3.
    set (E := fun (p : list N) (e : N) =>
                exists ic, In ic layout /\ p = volpath (fst ic) (snd ic) /\
                           exists k, In k (seq (fst ic) (snd ic)) /\ e = N.of_nat k).
    destruct (load_parity_ok2 md5 (dec sid) E Q (rec_listing ix fs) [] st3 Hs3) as (acc & st4 & LP & HQ & Hacc).
    { intros p Hp. apply listing_in in Hp. destruct Hp as [Hpin Hpat].
      destruct (Hvols p Hpin Hpat) as (vb & Hpo & Hlk).
      assert (Hv : In (p, vb) vols).
      { rewrite Eouts in Hpo. destruct Hpo as [Heq|H0]; [|exact H0].
        injection Heq as <- _. rewrite x_pat_ix in Hpat. discriminate Hpat. }
      destruct (Forall2_in_r _ _ _ F2 _ Hv) as (ic & Hic & sid' & vb' & EWv & Ev). injection Ev as -> <-.
      destruct (x_layout_bounds ic Hic) as [Hc Hb]. destruct (x_volrecv_ok (fst ic) (snd ic) Hb) as [V1 V2].
      destruct (read_written_file_vol md5 md5_len CLIENT_ID m fds ifs _ sid' vb EWv (x_ww_of _ V1 V2))
        as (fv & Rv & Hmv & _ & Hrv & Hndv).
      assert (Esid : sid' = sid).
      { rewrite (rw_sid md5 _ _ _ _ _ _ _ EWv), (rw_sid md5 _ _ _ _ _ _ _ EW). reflexivity. }
      assert (Hrec : forall e dd, In (e, dd) (pf_recv fv) ->
                exists k, In k (seq (fst ic) (snd ic)) /\ e = N.of_nat k /\ dd = le_bytes (nth k parity [])).
      { intros e dd Hed. pose proof (assoc_n_of_in _ e dd Hndv Hed) as A. apply Hrv in A.
        unfold volrecv in A. apply in_map_iff in A. destruct A as (k & Ek & Hk). injection Ek as <- <-.
        exists k. repeat split. exact Hk. }
      exists vb, sid', fv. rewrite Hf3. split; [exact Hlk|].
      split; [unfold dec; cbn [d_setid]; rewrite <- Esid; exact Rv|]. split; [|split; [|split]].
      - rewrite Hmv. unfold dec, m. cbn [d_slice d_rec d_nonrec map]. rewrite x_recs_ids. reflexivity.
      - apply Forall_forall. intros [e dd] Hed. cbn [snd].
        destruct (Hrec e dd Hed) as (k & Hk & _ & ->). apply in_seq in Hk.
        unfold dec. cbn [d_slice]. rewrite x_parity_row by lia. reflexivity.
      - apply Forall_forall. intros [e dd] Hed. destruct (Hrec e dd Hed) as (k & Hk & -> & ->). apply in_seq in Hk.
        exists k. cbn [fst snd]. split; [lia|split; reflexivity].
      - intros e. split.
        + intros Hin. apply in_map_iff in Hin. destruct Hin as ([e' dd] & Ee & Hed). cbn [fst] in Ee. subst e'.
          destruct (Hrec e dd Hed) as (k & Hk & -> & _).
          exists ic. split; [exact Hic|]. split; [reflexivity|]. exists k. split; [exact Hk|reflexivity].
        + intros (ic' & Hic' & Epath & k & Hk & ->).
          assert (Eic : ic' = ic).
          { apply x_layout_eq; try assumption. symmetry.
            apply (x_volpath_inj _ _ _ _ (x_layout_lt ic Hic) (x_layout_lt ic' Hic') Epath). }
          subst ic'.
          assert (A : assoc_n (pf_recv fv) (N.of_nat k) = Some (le_bytes (nth k parity []))).
          { apply Hrv. unfold volrecv. apply in_map_iff. exists k. split; [reflexivity|exact Hk]. }
          apply assoc_n_some_iff. rewrite A. reflexivity. }
    { constructor. }
    exists acc, st4. split; [exact LP|]. split; [exact HQ|]. intros e. rewrite Hacc. cbn [map In]. split.
    - intros [[]|(p & Hp & ic & Hic & -> & k & Hk & ->)]. apply listing_in in Hp. destruct Hp as [Hp _].
      exists ic, k. split; [exact Hic|]. split; [apply surv_in; exact Hp|]. split; [exact Hk|reflexivity].
    - intros (ic & k & Hic & Hs & Hk & ->). right. exists (volpath (fst ic) (snd ic)). split.
      + apply listing_in. split; [apply surv_in; exact Hs|apply x_pat_vol].
      + exists ic. split; [exact Hic|]. split; [reflexivity|]. exists k. split; [exact Hk|reflexivity].
  Qed.

  (* the exponents of the recovery blocks in the surviving recovery files *)
  Let surviving : list nat := flat_map (fun ic : nat * nat => seq (fst ic) (snd ic)) (filter surv layout).

  Lemma surviving_nd : NoDup surviving.
  Proof.
    unfold surviving. apply NoDup_concat_filter. rewrite flat_map_concat_map. unfold layout.
    rewrite volume_layout_covers. apply seq_NoDup.
  Qed.

  Lemma surviving_in k : In k surviving <-> exists ic, In ic layout /\ surv ic = true /\ In k (seq (fst ic) (snd ic)).
  Proof.
    unfold surviving. rewrite in_flat_map. split.
    - intros (ic & Hic & Hk). apply filter_In in Hic. exists ic. split; [apply Hic|]. split; [apply Hic|exact Hk].
    - intros (ic & Hic & Hs & Hk). exists ic. split; [apply filter_In; split; assumption|exact Hk].
  Qed.

  (** ** E1: what load_all returns on the damaged archive *)
  Theorem load_shape ds st' : load_all md5 ix (io_init fs []) = (Ok ds, st') ->
    d_rec (ds_dec ds) = recs /\ d_slice (ds_dec ds) = N.of_nat sz /\
    (forall e b, nth e (ds_parity ds) None = Some b -> e < np /\ b = le_bytes (nth e parity [])) /\
    length (ds_parity ds) <= np /\
    c_pusable (shard_counts ds) = length surviving.
  Proof.
    intros HL.
    destruct (load_all_inv_full md5 _ _ _ _ HL) as (d & st1 & w & fis & st2 & paths & st3 & acc & _ & ND & _ & LF & IL & LP & ->).
    destruct decoder_read as (sid & ixb & vols & st1' & EW & F2 & Eouts & ND' & Hs1 & Hf1).
    rewrite ND' in ND. injection ND as <- <-.
    pose proof (load_files_pres md5 (dec sid) w (make_cstable (d_rec (dec sid)))
                  (combine (seq 0 (length (d_rec (dec sid)))) (d_rec (dec sid))) (fis0 (dec sid)) st1') as P2.
    rewrite LF in P2. cbn [snd] in P2. destruct P2 as (Pf2 & Ps2 & _).
    assert (Hs2 : io_sched st2 = []) by congruence. assert (Hf2 : io_fs st2 = fs) by congruence.
    destruct (io_list_nosched ix st2 Hs2) as (st3' & IL' & Hs3 & Hf3). rewrite IL' in IL. injection IL as <- <-.
    rewrite Hf2 in Hf3.
    destruct (parity_read sid ixb vols st3' EW F2 Eouts Hs3 Hf3) as (acc' & st4 & LP' & HQ & Hkeys).
    rewrite Hf2 in LP. rewrite LP' in LP. injection LP as <- _.
    cbn [ds_dec ds_parity]. unfold dec at 1 2. cbn [d_rec d_slice].
    split; [reflexivity|]. split; [reflexivity|]. split; [|split].
    - intros e b He. apply parity_array_nth in He. rewrite Forall_forall in HQ.
      destruct (HQ _ He) as (k & Hk & Ek & Eb). cbn [fst snd] in Ek, Eb. apply Nat2N.inj in Ek. subst k.
      split; [exact Hk|exact Eb].
    - apply parity_array_length_le. intros k Hk. apply in_map_iff in Hk. destruct Hk as ([k' b] & <- & Hin).
      rewrite Forall_forall in HQ. destruct (HQ _ Hin) as (k & Hk & Ek & _). cbn [fst] in *. lia.
    - unfold shard_counts. cbn [c_pusable ds_parity]. rewrite parity_count_distinct.
      set (L1 := nodup N.eq_dec (map fst acc')). set (L2 := map N.of_nat surviving).
      assert (HL2 : length L2 = length surviving) by (unfold L2; apply map_length).
      assert (N1 : NoDup L1) by apply NoDup_nodup.
      assert (N2 : NoDup L2).
      { unfold L2. apply (NoDup_map_by (fun e : nat => e)); [rewrite map_id; exact surviving_nd|].
        intros x y _ _ Exy. apply Nat2N.inj. exact Exy. }
      assert (I12 : incl L1 L2).
      { intros e He. unfold L1 in He. apply nodup_In in He. apply Hkeys in He.
        destruct He as (ic & k & Hic & Hsv & Hk & ->). unfold L2. apply in_map. apply surviving_in.
        exists ic. repeat split; assumption. }
      assert (I21 : incl L2 L1).
      { intros e He. unfold L2 in He. apply in_map_iff in He. destruct He as (k & <- & Hk).
        apply surviving_in in Hk. destruct Hk as (ic & Hic & Hsv & Hk).
        unfold L1. apply nodup_In. apply Hkeys. exists ic, k. repeat split; assumption. }
      pose proof (NoDup_incl_length N1 I12). pose proof (NoDup_incl_length N2 I21). lia.
  Qed.

  (** ** the loading phase succeeds when no protected path without a file is a directory *)
  Theorem load_ok :
    (forall name, In name names -> fs_lookup fs (file_path ix name) = None -> is_dir fs (file_path ix name) = false) ->
    exists ds st', load_all md5 ix (io_init fs []) = (Ok ds, st').
  Proof.
    intros Hnodir.
    destruct decoder_read as (sid & ixb & vols & st1 & EW & F2 & Eouts & ND & Hs1 & Hf1).
    assert (HW : exists w, win_new (Z.of_N (d_slice (dec sid))) = Ok w).
    { unfold win_new, dec. cbn [d_slice].
      destruct (Z.ltb_spec (Z.of_N (N.of_nat sz)) 4) as [Hlt|_]; [lia|]. eexists. reflexivity. }
    destruct HW as (w & HW).
    destruct (load_files_total md5 (dec sid) w (make_cstable (d_rec (dec sid)))
                (combine (seq 0 (length (d_rec (dec sid)))) (d_rec (dec sid))) (fis0 (dec sid)) st1 Hs1)
      as (fis & st2 & LF & Hs2 & Hf2).
    { intros i info Hin. apply in_combine_r in Hin. unfold dec in Hin. cbn [d_rec] in Hin.
      destruct (x_recs_in info Hin) as (name & data & Hnd' & ->).
      rewrite Hf1. unfold dec. cbn [d_index dinfo_of di_name data_file_info fi_desc fd_name].
      apply Hnodir. exact (in_combine_l _ _ _ _ Hnd'). }
    destruct (io_list_nosched ix st2 Hs2) as (st3 & IL & Hs3 & Hf3).
    rewrite Hf2, Hf1 in IL. rewrite Hf2, Hf1 in Hf3.
    destruct (parity_read sid ixb vols st3 EW F2 Eouts Hs3 Hf3) as (acc & st4 & LP & _ & _).
    assert (Hext : str_eqb (ext ix) EXT_PAR2 = true) by (rewrite x_ext_ix; apply str_eqb_refl).
    eexists. eexists.
    exact (load_all_ok md5 ix (io_init fs []) (dec sid) st1 w fis st2 _ st3 acc st4 Hext ND HW LF IL LP).
  Qed.

  (** ** E2: the ground-truth premises of repair_within_capacity hold for the loaded state *)
  Lemma ds_lens ds st' : load_all md5 ix (io_init fs []) = (Ok ds, st') ->
    map (fun fi => length (fi_shards fi)) (ds_fis ds) = map (fun id => length (sl id)) recset.
  Proof.
    intros HL. destruct (load_shape ds st' HL) as (Erec & _).
    destruct (load_all_shape md5 _ _ _ _ HL) as (_ & _ & _ & Hsh & _ & _).
    rewrite Erec, recs_shape in Hsh. exact Hsh.
  Qed.

  (* GROUND TRUTH 2: every loaded recovery block is the true block of its exponent *)
  Lemma loaded_parity_true ds st' : load_all md5 ix (io_init fs []) = (Ok ds, st') ->
    let c := {| c_data := length shards; c_parity := length (ds_parity ds);
                c_pm := vandermonde_pm (length shards) (length (ds_parity ds)) |} in
    forall e b, nth e (ds_parity ds) None = Some b -> b = le_bytes (nth e (gen_parity c (map le_words shards)) []).
  Proof.
    intros HL c e b He. destruct (load_shape ds st' HL) as (_ & _ & Hpar & _).
    destruct (Hpar e b He) as [Hlt ->]. f_equal. unfold parity, c. apply gen_parity_row_indep; [exact Hlt|].
    destruct (lt_dec e (length (ds_parity ds))) as [H|H]; [exact H|].
    rewrite nth_overflow in He by lia. discriminate He.
  Qed.

  (* GROUND TRUTH 3: the originals joined per file and cut to the recorded length have the recorded hashes *)
  Lemma originals_recorded ds st' : load_all md5 ix (io_init fs []) = (Ok ds, st') ->
    forall i info, nth_error (d_rec (ds_dec ds)) i = Some info ->
      recorded md5 info (firstn (N.to_nat (di_len info))
        (concat (nth i (split_by (map (fun fi => length (fi_shards fi)) (ds_fis ds)) shards) []))).
  Proof.
    intros HL i info Hi. destruct (load_shape ds st' HL) as (Erec & _).
    rewrite (ds_lens ds st' HL), shards_eq, split_by_flat_map.
    rewrite Erec in Hi. unfold recs in Hi. apply nth_error_map_inv in Hi. destruct Hi as (id & Hid & ->).
    rewrite (nth_error_nth _ _ _ (map_nth_error sl i recset Hid)).
    apply nth_error_In in Hid. apply x_recset_in in Hid. destruct Hid as (i0 & Hi0 & <-).
    unfold sl. rewrite (x_info_at_id i0 Hi0). destruct (x_info_in i0 Hi0) as (name & data & _ & ->).
    cbn [dinfo_of data_file_info fi_desc fi_slices fi_pairs fi_id fd_len fd_hash fd_hash16k fd_name
         di_len di_hash di_h16].
    rewrite Nat2N.id, slices_concat_firstn by lia.
    unfold recorded. cbn [di_hash di_h16 di_len]. repeat split; reflexivity.
  Qed.

  (** ** E3: the composition *)
  (* whatever is found at a protected path is a list of bytes (the model's bytes are lists of N) *)
  Hypothesis Hwf : forall name dat, In name names -> fs_lookup fs (file_path ix name) = Some dat -> wf_bytes dat.
  (* LOCAL SLICE COLLISION-FREENESS: a slice-sized byte window with the (MD5, CRC-32) of original slice k is that slice *)
  Hypothesis Hloc : forall k w, k < length shards -> length w = sz -> wf_bytes w ->
    md5 w = md5 (nth k shards []) -> crc32 w = crc32 (nth k shards []) -> w = nth k shards [].
  (* FILE-LEVEL COLLISION-FREENESS: a byte string with the length, MD5 and first-16-KiB MD5 of an input is that input *)
  Hypothesis Hfile : forall name data data', In (name, data) (combine names datas) -> wf_bytes data' ->
    length data' = length data -> md5 data' = md5 data -> hash16k md5 data' = hash16k md5 data -> data' = data.
  (* the protected paths are pairwise distinct *)
  Hypothesis Hpaths : NoDup (map (file_path ix) names).

  Theorem create_damage_repair_section dbl ds st1 :
    load_all md5 ix (io_init fs []) = (Ok ds, st1) ->
    c_unusable (shard_counts ds) <= c_pusable (shard_counts ds) ->
    exists r rp st', par2_repair md5 ix dbl (io_init fs []) = ((r, rp), st') /\
      (r = Err ESingular \/
       (r = Ok tt /\ forall name data, In (name, data) (combine names datas) ->
                       fs_lookup (io_fs st') (file_path ix name) = Some data)).
  Proof.
    intros HL Hcap.
    destruct (load_shape ds st1 HL) as (Erec & Esl & Hpar & Hplen & _).
    destruct x_co_inv as (_ & Hsh32 & Hnp & _).
    pose proof x_sz_mod4 as M4. pose proof (Nat.div_mod sz 4 ltac:(discriminate)) as DM. rewrite M4 in DM.
    assert (ES : N.to_nat (d_slice (ds_dec ds)) = sz) by (rewrite Esl; apply Nat2N.id).
    assert (A1 : N.to_nat (d_slice (ds_dec ds)) = 2 * (2 * (sz / 4))) by lia.
    assert (A2 : length shards = length (flat_map fi_shards (ds_fis ds))).
    { rewrite length_flat_shards. change (map shlen (ds_fis ds)) with (map (fun fi => length (fi_shards fi)) (ds_fis ds)).
      rewrite (ds_lens ds st1 HL), shards_eq. apply length_flat_map_sum. }
    assert (A3 : Forall (fun s => wf_bytes s /\ length s = N.to_nat (d_slice (ds_dec ds))) shards).
    { rewrite ES. exact shards_wf. }
    assert (A5 : NoDup (map di_id (d_rec (ds_dec ds)))) by (rewrite Erec, x_recs_ids; exact x_recset_nd).
    assert (A6 : forall k w, length w = N.to_nat (d_slice (ds_dec ds)) -> wf_bytes w ->
               nth_error (flat_map di_pairs (d_rec (ds_dec ds))) k = Some (md5 w, crc32 w) -> w = nth k shards []).
    { intros k w Hl Hw Hn. rewrite Erec, recs_pairs in Hn. apply nth_error_map_inv in Hn.
      destruct Hn as (s & Hs & Ep). unfold pr in Ep. injection Ep as E1 E2.
      assert (Hk : k < length shards) by (apply nth_error_Some; congruence).
      rewrite ES in Hl. assert (En : @nth bytes k shards [] = s) by exact (nth_error_nth _ _ [] Hs).
      apply Hloc; try assumption; rewrite En; assumption. }
    assert (A9 : ds_parity ds <> [] -> (N.of_nat (length (flat_map fi_shards (ds_fis ds))) <= 32768)%N /\
                                       (N.of_nat (length (ds_parity ds)) <= 65535)%N).
    { intros _. rewrite <- A2. split; [exact Hsh32|lia]. }
    assert (Hcnd : NoDup (map (fun p : bytes * bytes => file_path ix (fst p)) (combine names datas))).
    { apply NoDup_map_combine_fst. exact Hpaths. }
    assert (A11 : NoDup (map (fun info => file_path ix (di_name info)) (d_rec (ds_dec ds)))).
    { rewrite Erec. unfold recs. rewrite map_map.
      apply (NoDup_map_by (fun id : bytes => id)); [rewrite map_id; exact x_recset_nd|].
      intros x y Hx Hy E. apply x_recset_in in Hx, Hy.
      destruct Hx as (i1 & Hi1 & <-), Hy as (i2 & Hi2 & <-).
      rewrite (x_info_at_id i1 Hi1), (x_info_at_id i2 Hi2) in E.
      destruct (x_info_in i1 Hi1) as (n1 & d1 & Hc1 & ->). destruct (x_info_in i2 Hi2) as (n2 & d2 & Hc2 & ->).
      cbn [dinfo_of data_file_info fi_desc fd_name di_name] in E.
      pose proof (NoDup_map_inj_in (fun p : bytes * bytes => file_path ix (fst p)) _ (n1, d1) (n2, d2) Hcnd Hc1 Hc2 E) as Eq.
      injection Eq as -> ->. reflexivity. }
    assert (G1 : forall k s, nth k (flat_map fi_shards (ds_fis ds)) None = Some s -> si_data s = nth k shards []).
    { intros k s Hk.
      destruct (load_all_credited_protected md5 ix fs ds st1 HL) with (K := k) (s := s) as (Hl & Hw & Hp);
        [|exact A5|exact Hk|apply A6; assumption].
      intros info dat Hin. rewrite Erec in Hin. destruct (x_recs_in info Hin) as (name & data & Hc & ->).
      cbn [dinfo_of data_file_info fi_desc fd_name di_name]. apply Hwf. exact (in_combine_l _ _ _ _ Hc). }
    destruct (repair_within_capacity_restores md5 ix dbl fs ds st1 shards (2 * (sz / 4)) HL A1 A2 A3 G1
                (loaded_parity_true ds st1 HL) (originals_recorded ds st1 HL) A9 Hcap A11)
      as (r & rp & st' & HR & Hres).
    exists r, rp, st'. split; [exact HR|]. destruct Hres as [E|[E Hall]]; [left; exact E|right].
    split; [exact E|]. intros name data Hin.
    destruct (Hall (dinfo_of (data_file_info md5 sz name data))) as (data' & Hlk & Hm & H16 & Hlen).
    { rewrite Erec. apply recs_has. exact Hin. }
    cbn [dinfo_of data_file_info fi_desc fd_name fd_len fd_hash fd_hash16k di_name di_len di_hash di_h16] in *.
    rewrite Hlk. f_equal. apply (Hfile name data data' Hin); [|lia|exact Hm|exact H16].
    (* the content found after Repair is the old content of a protected path, or cut from the reconstructed slices *)
    assert (Hcore : forall dat, repair_core ds dbl = Ok dat -> Forall wf_bytes dat).
    { intros dat Ed.
      assert (A3' : Forall (fun s => wf_bytes s /\ length s = 2 * (2 * (sz / 4))) shards) by (rewrite <- A1; exact A3).
      destruct (repair_core_within_capacity ds dbl shards (2 * (sz / 4)) (load_all_shards_pos md5 _ _ _ _ HL) A2 A3' G1
                  (loaded_parity_true ds st1 HL) A9 Hcap) as [Ek|Ek]; rewrite Ek in Ed; [|discriminate Ed].
      injection Ed as <-. revert A3. apply Forall_impl. intros a [Ha _]. exact Ha. }
    destruct (repair_contents md5 ix dbl fs r rp st' ds st1 HR HL Hcore _ _ Hlk) as [Hold|Hw]; [|exact Hw].
    exact (Hwf name data' (in_combine_l _ _ _ _ Hin) Hold).
  Qed.
End CreateDamageRepair.

Print Assumptions load_shape.
Print Assumptions load_ok.
Print Assumptions create_damage_repair_section.

(** * the closed statements *)

(* the protected slices (zero-padded to the slice size) in recovery-set order, as create_outputs orders them *)
Definition originals (md5 : bytes -> bytes) (sz : nat) (names datas : list bytes) : list bytes :=
  let infos := map (fun nd : bytes * bytes => data_file_info md5 sz (fst nd) (snd nd)) (combine names datas) in
  flat_map (fun id => match find_info (rev infos) id with Some i => fi_slices i | None => [] end)
           (sort_ids (map fi_id infos)).

(* the true recovery blocks of the originals *)
Definition true_blocks (md5 : bytes -> bytes) (sz np : nat) (names datas : list bytes) : list (list N) :=
  let orig := originals md5 sz names datas in
  gen_parity {| c_data := length orig; c_parity := np; c_pm := vandermonde_pm (length orig) np |} (map le_words orig).

(* the name of the recovery file with first exponent i and c blocks: <base>.vol<i>+<c>.par2 *)
Definition vol_path (base : list N) (i c : nat) : list N :=
  base ++ [46; 118; 111; 108]%N ++ dec2 (N.of_nat i) ++ [43%N] ++ dec2 (N.of_nat c) ++ EXT_PAR2.

(* the exponents of the recovery blocks carried by the recovery files that are still present *)
Definition surviving_exponents (base : list N) (np : nat) (fs : list (list N * bytes)) : list nat :=
  flat_map (fun ic : nat * nat => seq (fst ic) (snd ic))
           (filter (fun ic : nat * nat => is_some (fs_lookup fs (vol_path base (fst ic) (snd ic))))
                   (volume_layout (S np) 0 1 np)).

(* what Create accepted and wrote; the premises of create_then_verify_clean about the inputs *)
Definition created (md5 : bytes -> bytes) (parPath : list N) (sz np : nat) (names datas : list bytes)
           (outs : list (list N * bytes)) : Prop :=
  create_outputs md5 parPath sz np names datas = Ok outs /\
  4 <= sz /\ (N.of_nat sz <= MAXSLICE)%N /\
  Forall (fun nm : bytes => no_nul nm /\ (N.of_nat (length nm) < 2 ^ 32)%N) names /\
  Forall (fun d : bytes => wf_bytes d /\ (N.of_nat (length d) <= MAXINT)%N) datas /\
  NoDup (map fi_id (map (fun nd : bytes * bytes => data_file_info md5 sz (fst nd) (snd nd)) (combine names datas))).

(* the archive after damage: the index file is as written; every file of the recovery-file pattern is one of the
   written recovery files with its written content (recovery files may be gone, the surviving ones are undamaged);
   nothing is said about the protected paths *)
Definition damaged_archive (parPath : list N) (outs fs0 fs : list (list N * bytes)) : Prop :=
  let ix := strip_ext parPath ++ EXT_PAR2 in
  fs_lookup fs ix = fs_lookup (apply_writes outs fs0) ix /\
  forall q, In q (map fst fs) -> vol_pattern (strip_ext parPath) q = true ->
    exists b, In (q, b) outs /\ fs_lookup fs q = Some b.

Section Par2EndToEnd.
  Variable md5 : bytes -> bytes.
  Hypothesis md5_len : forall x, length (md5 x) = 16.

  (** E1: the loaded state of a damaged archive: the decoder is the created one, every loaded recovery block is the
      true block of its exponent, and the usable-block count is the number of blocks in the surviving recovery files *)
  Theorem create_damage_load_shape : forall parPath sz np names datas outs fs0 fs ds st1,
    created md5 parPath sz np names datas outs ->
    damaged_archive parPath outs fs0 fs ->
    let ix := strip_ext parPath ++ EXT_PAR2 in
    load_all md5 ix (io_init fs []) = (Ok ds, st1) ->
    d_slice (ds_dec ds) = N.of_nat sz /\
    (forall name data, In (name, data) (combine names datas) ->
       In (dinfo_of (data_file_info md5 sz name data)) (d_rec (ds_dec ds))) /\
    (forall e b, nth e (ds_parity ds) None = Some b ->
       e < np /\ b = le_bytes (nth e (true_blocks md5 sz np names datas) [])) /\
    length (ds_parity ds) <= np /\
    c_pusable (shard_counts ds) = length (surviving_exponents (strip_ext parPath) np fs) /\
    NoDup (surviving_exponents (strip_ext parPath) np fs).
  Proof.
    intros parPath sz np names datas outs fs0 fs ds st1 (Hc & H4 & Hmax & Hn & Hd & Hnd) (Hix & Hvols) ix HL.
    destruct (load_shape md5 md5_len parPath sz np names datas outs Hc H4 Hmax Hn Hd Hnd fs0 fs Hix Hvols ds st1 HL)
      as (Erec & Esl & Hpar & Hplen & Hpus).
    split; [exact Esl|]. split; [|split; [exact Hpar|split; [exact Hplen|split; [exact Hpus|]]]].
    - intros name data Hin. rewrite Erec. exact (recs_has md5 sz names datas Hnd name data Hin).
    - exact (surviving_nd parPath np fs).
  Qed.

  (** the loading phase succeeds on a damaged archive in which no protected path without a file is a directory *)
  Theorem create_damage_load_ok : forall parPath sz np names datas outs fs0 fs,
    created md5 parPath sz np names datas outs ->
    damaged_archive parPath outs fs0 fs ->
    let ix := strip_ext parPath ++ EXT_PAR2 in
    (forall name, In name names -> fs_lookup fs (file_path ix name) = None -> is_dir fs (file_path ix name) = false) ->
    exists ds st1, load_all md5 ix (io_init fs []) = (Ok ds, st1).
  Proof.
    intros parPath sz np names datas outs fs0 fs (Hc & H4 & Hmax & Hn & Hd & Hnd) (Hix & Hvols) ix Hnodir.
    exact (load_ok md5 md5_len parPath sz np names datas outs Hc H4 Hmax Hn Hd Hnd fs0 fs Hix Hvols Hnodir).
  Qed.

  (** C01, FROM CREATE TO REPAIR *)
  Theorem create_damage_repair : forall parPath sz np names datas outs fs0 fs dbl ds st1,
    created md5 parPath sz np names datas outs ->
    damaged_archive parPath outs fs0 fs ->
    let ix := strip_ext parPath ++ EXT_PAR2 in
    let orig := originals md5 sz names datas in
    (* whatever is found at a protected path is a list of bytes; the protected paths are pairwise distinct *)
    (forall name dat, In name names -> fs_lookup fs (file_path ix name) = Some dat -> wf_bytes dat) ->
    NoDup (map (file_path ix) names) ->
    (* LOCAL SLICE COLLISION-FREENESS *)
    (forall k w, k < length orig -> length w = sz -> wf_bytes w ->
       md5 w = md5 (nth k orig []) -> crc32 w = crc32 (nth k orig []) -> w = nth k orig []) ->
    (* FILE-LEVEL COLLISION-FREENESS *)
    (forall name data data', In (name, data) (combine names datas) -> wf_bytes data' ->
       length data' = length data -> md5 data' = md5 data -> hash16k md5 data' = hash16k md5 data -> data' = data) ->
    (* WITHIN CAPACITY *)
    load_all md5 ix (io_init fs []) = (Ok ds, st1) ->
    c_unusable (shard_counts ds) <= c_pusable (shard_counts ds) ->
    exists r rp st', par2_repair md5 ix dbl (io_init fs []) = ((r, rp), st') /\
      (r = Err ESingular \/
       (r = Ok tt /\ forall name data, In (name, data) (combine names datas) ->
                       fs_lookup (io_fs st') (file_path ix name) = Some data)).
  Proof.
    intros parPath sz np names datas outs fs0 fs dbl ds st1 (Hc & H4 & Hmax & Hn & Hd & Hnd) (Hix & Hvols) ix orig
           Hwf Hpaths Hloc Hfile HL Hcap.
    exact (create_damage_repair_section md5 md5_len parPath sz np names datas outs Hc H4 Hmax Hn Hd Hnd fs0 fs
             Hix Hvols Hwf Hloc Hfile Hpaths dbl ds st1 HL Hcap).
  Qed.

  (** the same with Verify's report instead of the loaded state: Verify succeeds and counts as usable exactly the
      recovery blocks of the surviving recovery files; if it reports "repair possible", Repair restores every
      protected file byte for byte (or reports the singular system) *)
  Theorem create_damage_verify_repair : forall parPath sz np names datas outs fs0 fs dbl,
    created md5 parPath sz np names datas outs ->
    damaged_archive parPath outs fs0 fs ->
    let ix := strip_ext parPath ++ EXT_PAR2 in
    let orig := originals md5 sz names datas in
    (forall name, In name names -> fs_lookup fs (file_path ix name) = None -> is_dir fs (file_path ix name) = false) ->
    (forall name dat, In name names -> fs_lookup fs (file_path ix name) = Some dat -> wf_bytes dat) ->
    NoDup (map (file_path ix) names) ->
    (forall k w, k < length orig -> length w = sz -> wf_bytes w ->
       md5 w = md5 (nth k orig []) -> crc32 w = crc32 (nth k orig []) -> w = nth k orig []) ->
    (forall name data data', In (name, data) (combine names datas) -> wf_bytes data' ->
       length data' = length data -> md5 data' = md5 data -> hash16k md5 data' = hash16k md5 data -> data' = data) ->
    exists c st1, par2_verify md5 ix (io_init fs []) = (Ok c, st1) /\
      c_pusable c = length (surviving_exponents (strip_ext parPath) np fs) /\
      (repair_possible c = true ->
       exists r rp st', par2_repair md5 ix dbl (io_init fs []) = ((r, rp), st') /\
         (r = Err ESingular \/
          (r = Ok tt /\ forall name data, In (name, data) (combine names datas) ->
                          fs_lookup (io_fs st') (file_path ix name) = Some data))).
  Proof.
    intros parPath sz np names datas outs fs0 fs dbl HC HD ix orig Hnodir Hwf Hpaths Hloc Hfile.
    destruct (create_damage_load_ok parPath sz np names datas outs fs0 fs HC HD Hnodir) as (ds & st1 & HL).
    exists (shard_counts ds), st1. split; [unfold par2_verify, ix; rewrite HL; reflexivity|].
    destruct (create_damage_load_shape parPath sz np names datas outs fs0 fs ds st1 HC HD HL) as (_ & _ & _ & _ & Hpus & _).
    split; [exact Hpus|]. intros Hposs. apply verify_possible_iff in Hposs.
    exact (create_damage_repair parPath sz np names datas outs fs0 fs dbl ds st1 HC HD Hwf Hpaths Hloc Hfile HL Hposs).
  Qed.

  (** the coder's limits hold for everything Create accepts *)
  Theorem created_within_limits : forall parPath sz np names datas outs,
    created md5 parPath sz np names datas outs ->
    0 < length (originals md5 sz names datas) /\ (N.of_nat (length (originals md5 sz names datas)) <= 32768)%N /\
    (N.of_nat np <= 65535)%N.
  Proof.
    intros parPath sz np names datas outs (Hc & H4 & Hmax & _).
    exact (shards_bound md5 md5_len parPath sz np names datas outs Hc H4 Hmax).
  Qed.
End Par2EndToEnd.

Print Assumptions create_damage_load_shape.
Print Assumptions create_damage_load_ok.
Print Assumptions create_damage_repair.
Print Assumptions create_damage_verify_repair.
Print Assumptions created_within_limits.

(** * Non-vacuity: two files, two recovery blocks in two recovery files; one file and one recovery file deleted *)
From Coq Require Import String.
From Coq Require Import List.
From Gopar Require Import Proofs.Par2CreatePaths.   (* bs, toy_md5 *)
Open Scope nat_scope.

Module EEExample.
  Definition parPath := bs "/w/o.par2".
  Definition names : list bytes := [bs "a"; bs "b"].
  Definition datas : list bytes := [[1; 2; 3; 4; 5]; [6; 7; 8; 9]]%N.
  Definition fs0 : list (list N * bytes) := [(bs "/w/a", [1; 2; 3; 4; 5]%N); (bs "/w/b", [6; 7; 8; 9]%N)].
  Definition outs : list (list N * bytes) :=
    match create_outputs toy_md5 parPath 4 2 names datas with Ok o => o | _ => [] end.
  (* right after Create *)
  Definition fs1 := apply_writes outs fs0.
  (* the damage: the file "b" and the second recovery file are deleted *)
  Definition fs := filter (fun e : list N * bytes => negb (str_eqb (fst e) (bs "/w/b"))
                                                     && negb (str_eqb (fst e) (bs "/w/o.vol01+01.par2"))) fs1.
  Definition ix := bs "/w/o.par2".

  Example ee_files :
    map fst fs1 = [bs "/w/a"; bs "/w/b"; bs "/w/o.par2"; bs "/w/o.vol00+01.par2"; bs "/w/o.vol01+01.par2"] /\
    map fst fs = [bs "/w/a"; bs "/w/o.par2"; bs "/w/o.vol00+01.par2"] /\
    strip_ext parPath ++ EXT_PAR2 = ix.
  Proof. vm_compute. repeat split; reflexivity. Qed.

  (* Repair (with the double-check) rewrites "b"; afterwards both files are byte-identical to the originals *)
  Example ee_repair :
    let r := par2_repair toy_md5 ix true (io_init fs []) in
    fst r = (Ok tt, [bs "/w/b"]) /\
    fs_lookup (io_fs (snd r)) (bs "/w/a") = Some [1; 2; 3; 4; 5]%N /\
    fs_lookup (io_fs (snd r)) (bs "/w/b") = Some [6; 7; 8; 9]%N.
  Proof. vm_compute. repeat split; reflexivity. Qed.

  (* Verify on the damaged archive: one slice unusable, one recovery block usable *)
  Example ee_verify :
    fst (par2_verify toy_md5 ix (io_init fs [])) =
      Ok {| c_usable := 2; c_unusable := 1; c_pusable := 1; c_punusable := 0; c_misplaced := 0 |}.
  Proof. vm_compute. reflexivity. Qed.

  (** the premises of create_damage_verify_repair hold for this instance (for the stand-in digest) *)
  Lemma toy_md5_len : forall x, List.length (toy_md5 x) = 16.
  Proof.
    intros x. unfold toy_md5. rewrite firstn_length, app_length, map_length, Par2Create.zeros_length. lia.
  Qed.

  Example ee_created : created toy_md5 parPath 4 2 names datas outs.
  Proof.
    unfold created. split; [vm_compute; reflexivity|]. split; [lia|]. split; [vm_compute; discriminate|].
    split; [|split].
    - unfold names. repeat constructor; try (intros H; discriminate H).
    - unfold datas, wf_bytes, wf_byte. repeat constructor; try (vm_compute; discriminate).
    - vm_compute. constructor; [intros [H|[]]; discriminate H|]. constructor; [intros []|constructor].
  Qed.

  Example ee_damaged : damaged_archive parPath outs fs0 fs.
  Proof.
    unfold damaged_archive. cbv zeta. split; [vm_compute; reflexivity|].
    intros q Hin Hpat. destruct ee_files as (_ & E & _). rewrite E in Hin.
    destruct Hin as [<-|[<-|[<-|[]]]]; vm_compute in Hpat; try discriminate Hpat.
    eexists. split; [|vm_compute; reflexivity]. vm_compute. right. left. reflexivity.
  Qed.

  Example ee_paths_distinct : NoDup (map (file_path ix) names).
  Proof. vm_compute. constructor; [intros [H|[]]; discriminate H|]. constructor; [intros []|constructor]. Qed.

  Example ee_protected_bytes : forall name dat, In name names -> fs_lookup fs (file_path ix name) = Some dat -> wf_bytes dat.
  Proof.
    intros name dat [<-|[<-|[]]]; vm_compute; intros H; [|discriminate H].
    injection H as <-. repeat constructor.
  Qed.

  Example ee_no_directory : forall name, In name names ->
    fs_lookup fs (file_path ix name) = None -> is_dir fs (file_path ix name) = false.
  Proof. intros name [<-|[<-|[]]] _; vm_compute; reflexivity. Qed.

  Example ee_originals : originals toy_md5 4 names datas = [[6; 7; 8; 9]; [1; 2; 3; 4]; [5; 0; 0; 0]]%N.
  Proof. vm_compute. reflexivity. Qed.

  Example ee_slices_collision_free : forall k w, k < List.length (originals toy_md5 4 names datas) ->
    List.length w = 4 -> wf_bytes w ->
    toy_md5 w = toy_md5 (nth k (originals toy_md5 4 names datas) []) ->
    crc32 w = crc32 (nth k (originals toy_md5 4 names datas) []) -> w = nth k (originals toy_md5 4 names datas) [].
  Proof.
    rewrite ee_originals. intros k w Hk Hl Hw H _.
    destruct w as [|a [|b [|c [|d [|x w]]]]]; try discriminate Hl.
    inversion Hw as [|? ? Ha Hw1]; subst. inversion Hw1 as [|? ? Hb Hw2]; subst.
    inversion Hw2 as [|? ? Hc Hw3]; subst. inversion Hw3 as [|? ? Hd _]; subst.
    unfold wf_byte in Ha, Hb, Hc, Hd.
    destruct k as [|[|[|k]]]; cbn [nth] in *; [| | |cbn [List.length] in Hk; lia];
      unfold toy_md5 in H; cbn [map List.length app firstn zeros repeat] in H;
      injection H as Ea Eb Ec Ed; repeat f_equal; lia.
  Qed.

  Example ee_files_collision_free : forall name data data', In (name, data) (combine names datas) -> wf_bytes data' ->
    List.length data' = List.length data -> toy_md5 data' = toy_md5 data ->
    hash16k toy_md5 data' = hash16k toy_md5 data -> data' = data.
  Proof.
    intros name data data' Hin Hw Hl H _. cbn [names datas combine In] in Hin.
    destruct Hin as [Hin|[Hin|[]]]; injection Hin as _ <-; cbn [List.length] in Hl.
    - destruct data' as [|a [|b [|c [|d [|e [|x w]]]]]]; try discriminate Hl.
      inversion Hw as [|? ? Ha Hw1]; subst. inversion Hw1 as [|? ? Hb Hw2]; subst.
      inversion Hw2 as [|? ? Hc Hw3]; subst. inversion Hw3 as [|? ? Hd Hw4]; subst. inversion Hw4 as [|? ? He _]; subst.
      unfold wf_byte in Ha, Hb, Hc, Hd, He.
      unfold toy_md5 in H; cbn [map List.length app firstn zeros repeat] in H.
      injection H as Ea Eb Ec Ed Ee; repeat f_equal; lia.
    - destruct data' as [|a [|b [|c [|d [|x w]]]]]; try discriminate Hl.
      inversion Hw as [|? ? Ha Hw1]; subst. inversion Hw1 as [|? ? Hb Hw2]; subst.
      inversion Hw2 as [|? ? Hc Hw3]; subst. inversion Hw3 as [|? ? Hd _]; subst.
      unfold wf_byte in Ha, Hb, Hc, Hd.
      unfold toy_md5 in H; cbn [map List.length app firstn zeros repeat] in H.
      injection H as Ea Eb Ec Ed; repeat f_equal; lia.
  Qed.

  (* the end-to-end theorem applies: Verify reports "repair possible" with exactly the one surviving block, and
     Repair (either setting of the double-check) restores both files byte for byte, or reports the singular system *)
  Example ee_by_theorem : forall dbl,
    exists c st1, par2_verify toy_md5 ix (io_init fs []) = (Ok c, st1) /\
      c_pusable c = 1 /\
      exists r rp st', par2_repair toy_md5 ix dbl (io_init fs []) = ((r, rp), st') /\
        (r = Err ESingular \/
         (r = Ok tt /\ fs_lookup (io_fs st') (bs "/w/a") = Some [1; 2; 3; 4; 5]%N /\
                       fs_lookup (io_fs st') (bs "/w/b") = Some [6; 7; 8; 9]%N)).
  Proof.
    intros dbl.
    destruct (create_damage_verify_repair toy_md5 toy_md5_len parPath 4 2 names datas outs fs0 fs dbl ee_created ee_damaged
                ee_no_directory ee_protected_bytes ee_paths_distinct ee_slices_collision_free ee_files_collision_free)
      as (c & st1 & HV & Hpus & HR).
    change (strip_ext parPath ++ EXT_PAR2) with ix in *.
    exists c, st1. split; [exact HV|]. split; [rewrite Hpus; vm_compute; reflexivity|].
    destruct HR as (r & rp & st' & HR & Hres).
    { pose proof ee_verify as EV. rewrite HV in EV. cbn [fst] in EV. injection EV as ->. reflexivity. }
    exists r, rp, st'. split; [exact HR|]. destruct Hres as [E|[E Hall]]; [left; exact E|right].
    split; [exact E|]. split.
    - exact (Hall (bs "a") [1; 2; 3; 4; 5]%N (or_introl eq_refl)).
    - exact (Hall (bs "b") [6; 7; 8; 9]%N (or_intror (or_introl eq_refl))).
  Qed.
End EEExample.

Print Assumptions EEExample.ee_files.
Print Assumptions EEExample.ee_repair.
Print Assumptions EEExample.ee_verify.
Print Assumptions EEExample.ee_created.
Print Assumptions EEExample.ee_damaged.
Print Assumptions EEExample.ee_slices_collision_free.
Print Assumptions EEExample.ee_files_collision_free.
Print Assumptions EEExample.ee_by_theorem.

(** * Why the protected paths must be pairwise distinct: two inputs of the same name (distinct contents, hence distinct
      file ids) are both "restored" to the one path; Repair reports success and the first written content is lost *)
Module EEDistinctPaths.
  Definition parPath := bs "/w/o.par2".
  Definition names : list bytes := [bs "a"; bs "a"].
  Definition datas : list bytes := [[1; 2; 3; 4; 5]; [6; 7; 8; 9]]%N.
  Definition outs : list (list N * bytes) :=
    match create_outputs toy_md5 parPath 4 3 names datas with Ok o => o | _ => [] end.
  (* the written PAR2 files only: the protected path holds nothing *)
  Definition fs := apply_writes outs [].
  Definition ix := bs "/w/o.par2".

  Example same_path_refuted :
    created toy_md5 parPath 4 3 names datas outs /\
    fs_lookup fs ix = fs_lookup (apply_writes outs []) ix /\
    map fst fs = map fst outs /\
    fst (par2_verify toy_md5 ix (io_init fs [])) =
      Ok {| c_usable := 0; c_unusable := 3; c_pusable := 3; c_punusable := 0; c_misplaced := 0 |} /\
    let r := par2_repair toy_md5 ix true (io_init fs []) in
    fst r = (Ok tt, [bs "/w/a"; bs "/w/a"]) /\
    In (bs "a", [6; 7; 8; 9]%N) (combine names datas) /\
    fs_lookup (io_fs (snd r)) (file_path ix (bs "a")) = Some [1; 2; 3; 4; 5]%N.
  Proof.
    split.
    { unfold created. split; [vm_compute; reflexivity|]. split; [lia|]. split; [vm_compute; discriminate|].
      split; [|split].
      - unfold names. repeat constructor; try (intros H; discriminate H).
      - unfold datas, wf_bytes, wf_byte. repeat constructor; try (vm_compute; discriminate).
      - vm_compute. constructor; [intros [H|[]]; discriminate H|]. constructor; [intros []|constructor]. }
    split; [reflexivity|]. split; [vm_compute; reflexivity|]. split; [vm_compute; reflexivity|].
    cbv zeta. split; [vm_compute; reflexivity|]. split; [right; left; reflexivity|]. vm_compute. reflexivity.
  Qed.
End EEDistinctPaths.

Print Assumptions EEDistinctPaths.same_path_refuted.
